/-
C16 — helper lemmas (free to change).  Layers:
  0. lists / Python string helpers (dropWhile/takeWhile, strip, fileLines, expandTabs, numbers)
  1. `parseLine` on the lines the writers produce
  2. the reader machine over a written block
  3. round trips of the four databases
-/
import LimnoriaModel.C16.Storable
namespace C16
open Py

/-! ## 0. lists and strings -/

theorem takeWhile_append_stop {α : Type} (p : α → Bool) (a : List α) (b : α) (c : List α)
    (ha : ∀ x ∈ a, p x = true) (hb : p b = false) : (a ++ b :: c).takeWhile p = a := by
  induction a with
  | nil => simp [hb]
  | cons x xs ih =>
    have hx : p x = true := ha x (by simp)
    simp only [List.cons_append, List.takeWhile_cons, hx, if_true]
    rw [ih (fun y hy => ha y (by simp [hy]))]

theorem dropWhile_append_stop {α : Type} (p : α → Bool) (a : List α) (b : α) (c : List α)
    (ha : ∀ x ∈ a, p x = true) (hb : p b = false) : (a ++ b :: c).dropWhile p = b :: c := by
  induction a with
  | nil => simp [hb]
  | cons x xs ih =>
    have hx : p x = true := ha x (by simp)
    simp only [List.cons_append, List.dropWhile_cons, hx, if_true]
    exact ih (fun y hy => ha y (by simp [hy]))

theorem dropWhile_head_false {α : Type} (p : α → Bool) (b : α) (c : List α) (hb : p b = false) :
    (b :: c).dropWhile p = b :: c := by
  simp [List.dropWhile, hb]

theorem dropWhile_eq_nil_of_all {α : Type} (p : α → Bool) (l : List α) (h : ∀ x ∈ l, p x = true) :
    l.dropWhile p = [] := by
  induction l with
  | nil => rfl
  | cons x xs ih =>
    simp only [List.dropWhile_cons, h x (by simp), if_true]
    exact ih (fun y hy => h y (by simp [hy]))

/-- a string with a non-blank character is not blank after `strip()` -/
theorem strip_ne_nil (s : Str) (c : Char) (hc : c ∈ s) (hn : isSpace c = false) : (strip s).isEmpty = false := by
  unfold strip rstripP lstripP
  -- the dropped prefix cannot swallow `c`
  have h1 : c ∈ s.dropWhile isSpace := by
    induction s with
    | nil => cases hc
    | cons x xs ih =>
      by_cases hx : isSpace x = true
      · simp only [List.dropWhile_cons, hx, if_true]
        rcases List.mem_cons.mp hc with h | h
        · subst h; rw [hn] at hx; cases hx
        · exact ih h
      · have : isSpace x = false := by simpa using hx
        simp only [List.dropWhile_cons, this]
        simpa using hc
  generalize s.dropWhile isSpace = t at h1
  have h2 : c ∈ t.reverse.dropWhile isSpace := by
    have hr : c ∈ t.reverse := by simpa using h1
    generalize t.reverse = r at hr
    induction r with
    | nil => cases hr
    | cons x xs ih =>
      by_cases hx : isSpace x = true
      · simp only [List.dropWhile_cons, hx, if_true]
        rcases List.mem_cons.mp hr with h | h
        · subst h; rw [hn] at hx; cases hx
        · exact ih h
      · have : isSpace x = false := by simpa using hx
        simp only [List.dropWhile_cons, this]
        simpa using hr
  cases h : (t.reverse.dropWhile isSpace).reverse with
  | nil =>
    have : t.reverse.dropWhile isSpace = [] := by simpa using h
    rw [this] at h2; cases h2
  | cons _ _ => rfl

theorem strip_nil : strip [] = [] := by decide

/-- line break characters -/
def isBreak (c : Char) : Bool := c = '\n' || c = '\r'

theorem fileLinesAux_line (l rest : Str) (h : ∀ c ∈ l, isBreak c = false) :
    fileLinesAux false (l ++ '\n' :: rest) = l :: fileLinesAux false rest := by
  induction l with
  | nil => simp [fileLinesAux]
  | cons c cs ih =>
    have hc := h c (by simp)
    have h1 : c ≠ '\n' := by intro e; subst e; revert hc; decide
    have h2 : c ≠ '\r' := by intro e; subst e; revert hc; decide
    simp only [List.cons_append, fileLinesAux, h1, h2, if_false]
    rw [ih (fun x hx => h x (by simp [hx]))]

/-- reading back a text made of CR/LF-free lines, each terminated by LF, gives those lines -/
theorem fileLines_unlines (ls : List Str) (h : ∀ l ∈ ls, ∀ c ∈ l, isBreak c = false) :
    fileLines (unlines ls) = ls := by
  unfold fileLines
  induction ls with
  | nil => simp [unlines, fileLinesAux]
  | cons l ls ih =>
    have : unlines (l :: ls) = l ++ '\n' :: unlines ls := by simp [unlines]
    rw [this, fileLinesAux_line l _ (h l (by simp)), ih (fun x hx => h x (by simp [hx]))]

theorem expandTabsFrom_noTab (s : Str) (col : Nat) (h : ∀ c ∈ s, c ≠ '\t') : expandTabsFrom col s = s := by
  induction s generalizing col with
  | nil => rfl
  | cons c cs ih =>
    have hc : c ≠ '\t' := h c (by simp)
    unfold expandTabsFrom
    simp only [hc, if_false]
    split <;> rw [ih _ (fun x hx => h x (by simp [hx]))]

/-! ## 1. `parseLine` on written lines -/

structure KwOk (kw : Str) : Prop where
  ne : kw ≠ []
  nosp : ∀ c ∈ kw, isSpace c = false

theorem isSpace_space : isSpace ' ' = true := by decide
theorem isSpace_tab : isSpace '\t' = true := by decide

theorem clean_elim {v : Str} (h : clean v = true) :
    ∃ c cs, v = c :: cs ∧ isSpace c = false ∧ ∀ x ∈ v, x ≠ '\t' ∧ x ≠ '\n' ∧ x ≠ '\r' := by
  cases v with
  | nil => simp [clean] at h
  | cons c cs =>
    simp only [clean, noTabBreak, Bool.and_eq_true, Bool.not_eq_true', List.all_eq_true, bne_iff_ne, ne_eq] at h
    exact ⟨c, cs, rfl, h.1, fun x hx => by have := h.2 x hx; exact ⟨this.1.1, this.1.2, this.2⟩⟩

theorem splitNone1_kw (kw v : Str) (hk : KwOk kw) (c : Char) (cs : Str) (hv : v = c :: cs)
    (hc : isSpace c = false) : splitNone1 (kw ++ ' ' :: v) = [kw, v] := by
  obtain ⟨k, ks, rfl⟩ : ∃ k ks, kw = k :: ks := by
    cases kw with
    | nil => exact absurd rfl hk.ne
    | cons k ks => exact ⟨k, ks, rfl⟩
  have hk0 : isSpace k = false := hk.nosp k (by simp)
  have hnot : ∀ x ∈ k :: ks, (fun c => !isSpace c) x = true := by
    intro x hx; simp [hk.nosp x hx]
  unfold splitNone1
  have h1 : lstripP isSpace ((k :: ks) ++ ' ' :: v) = (k :: ks) ++ ' ' :: v := by
    simp [lstripP, hk0]
  simp only [h1]
  have h2 : ((k :: ks) ++ ' ' :: v).takeWhile (fun c => !isSpace c) = k :: ks :=
    takeWhile_append_stop _ _ _ _ hnot (by simp [isSpace_space])
  have h3 : ((k :: ks) ++ ' ' :: v).dropWhile (fun c => !isSpace c) = ' ' :: v :=
    dropWhile_append_stop _ _ _ _ hnot (by simp [isSpace_space])
  have h4 : lstripP isSpace (' ' :: v) = v := by
    subst hv
    simp [lstripP, List.dropWhile, isSpace_space, hc]
  rw [h2, h3, h4]
  subst hv
  simp

/-- a written line: `n` blanks of indentation, keyword, one blank, a clean value -/
theorem parseLine_written (n : Nat) (kw v : Str) (hk : KwOk kw) (hv : clean v = true) :
    parseLine (List.replicate n ' ' ++ sp kw v) = .cmd n (asciiLower kw) v := by
  obtain ⟨c, cs, hvc, hc, hall⟩ := clean_elim hv
  obtain ⟨k, ks, hkw⟩ : ∃ k ks, kw = k :: ks := by
    cases kw with
    | nil => exact absurd rfl hk.ne
    | cons k ks => exact ⟨k, ks, rfl⟩
  have hk0 : isSpace k = false := hk.nosp k (by simp [hkw])
  have hkne : k ≠ ' ' := by intro e; rw [e, isSpace_space] at hk0; cases hk0
  unfold parseLine
  have hblank : (strip (List.replicate n ' ' ++ sp kw v)).isEmpty = false :=
    strip_ne_nil _ k (by simp [sp, hkw]) hk0
  have htab : ∀ x ∈ List.replicate n ' ' ++ sp kw v, x ≠ '\t' := by
    intro x hx
    simp only [sp, List.mem_append, List.mem_replicate, List.mem_cons] at hx
    rcases hx with ⟨_, rfl⟩ | hx | rfl | hx
    · decide
    · intro e; subst e; have := hk.nosp _ hx; rw [isSpace_tab] at this; cases this
    · decide
    · exact (hall x hx).1
  have hexp : expandTabs (List.replicate n ' ' ++ sp kw v) = List.replicate n ' ' ++ sp kw v :=
    expandTabsFrom_noTab _ _ htab
  have hls : lstripP (fun c => decide (c = ' ')) (List.replicate n ' ' ++ sp kw v) = sp kw v := by
    unfold lstripP
    have : sp kw v = k :: (ks ++ ' ' :: v) := by simp [sp, hkw]
    rw [this]
    exact dropWhile_append_stop _ _ _ _ (by intro x hx; simp [List.mem_replicate] at hx; simp [hx.2]) (by simp [hkne])
  simp only [hblank, hexp, hls]
  have hsplit : splitNone1 (sp kw v) = [kw, v] := splitNone1_kw kw v hk c cs hvc hc
  rw [hsplit]
  simp [sp]

theorem parseLine_nil : parseLine [] = .blank := by decide

theorem indent2_eq (l : Str) : indent2 l = List.replicate 2 ' ' ++ l := rfl

/-! ## 2. the reader machine -/

theorem readLines_append {σ : Type} (C : Creator σ) (rs : RState σ) (a b : List Str) :
    readLines C rs (a ++ b) =
      match readLines C rs a with
      | (rs', none) => readLines C rs' b
      | (rs', some e) => (rs', some e) := by
  induction a generalizing rs with
  | nil => simp [readLines]
  | cons l ls ih =>
    simp only [List.cons_append, readLines]
    cases h : (readParsed C rs (parseLine l)).2 with
    | some e => simp
    | none => simp only []; exact ih _

theorem readLines_blank {σ : Type} (C : Creator σ) (rs : RState σ) (ls : List Str) :
    readLines C rs ([] :: ls) = readLines C rs ls := by
  simp [readLines, parseLine_nil, readParsed]

/-- run a list of commands through `call`, stopping at the first exception -/
def callAll {σ : Type} (C : Creator σ) : σ → List (Str × Str) → σ × Option Err
  | st, [] => (st, none)
  | st, p :: rest =>
    match C.call st (asciiLower p.1) p.2 with
    | (st', none) => callAll C st' rest
    | (st', some e) => (st', some e)

theorem callAll_append {σ : Type} (C : Creator σ) (st : σ) (a b : List (Str × Str)) :
    callAll C st (a ++ b) =
      match callAll C st a with
      | (st', none) => callAll C st' b
      | (st', some e) => (st', some e) := by
  induction a generalizing st with
  | nil => simp [callAll]
  | cons p ps ih =>
    simp only [List.cons_append, callAll]
    cases h : C.call st (asciiLower p.1) p.2 with
    | mk st' o =>
      cases o with
      | none => simp only []; exact ih _
      | some e => simp

theorem callAll_cons_ok {σ : Type} (C : Creator σ) (st st1 : σ) (p : Str × Str) (rest : List (Str × Str))
    (h : C.call st (asciiLower p.1) p.2 = (st1, none)) : callAll C st (p :: rest) = callAll C st1 rest := by
  simp [callAll, h]

/-- written lines at indentation `n` -/
def linesAt (n : Nat) (cmds : List (Str × Str)) : List Str :=
  cmds.map (fun p => List.replicate n ' ' ++ cmdLine p)

/-- a run of well-formed lines at the current indentation is a run of `call`s -/
theorem readLines_same_indent {σ : Type} (C : Creator σ) (rs : RState σ) (n : Nat)
    (cmds : List (Str × Str)) (hind : rs.indent = some n)
    (hok : ∀ p ∈ cmds, KwOk p.1 ∧ clean p.2 = true) (st' : σ)
    (hcall : callAll C rs.st cmds = (st', none)) :
    readLines C rs (linesAt n cmds) =
      ({ rs with modified := rs.modified || !cmds.isEmpty, st := st' }, none) := by
  induction cmds generalizing rs with
  | nil =>
    simp only [callAll, Prod.mk.injEq] at hcall
    cases rs
    simp_all [linesAt, readLines]
  | cons p ps ih =>
    have hp := hok p (by simp)
    simp only [linesAt, List.map_cons, readLines, cmdLine]
    rw [parseLine_written n p.1 p.2 hp.1 hp.2]
    simp only [callAll] at hcall
    cases hc : C.call rs.st (asciiLower p.1) p.2 with
    | mk st1 o =>
      rw [hc] at hcall
      cases o with
      | some e => simp at hcall
      | none =>
        simp only [] at hcall
        simp only [readParsed, reindent, hind, if_true, hc]
        have := ih { rs with modified := true, st := st1 } hind (fun q hq => hok q (by simp [hq])) hcall
        simp only [linesAt, cmdLine, hind] at this
        rw [this]
        simp

/-- the first line of a run when the indentation changes and the old creator's `finish` and the
new creator's constructor leave the state alone -/
theorem readLines_new_indent {σ : Type} (C : Creator σ) (rs : RState σ) (n : Nat)
    (p : Str × Str) (ps : List (Str × Str)) (hcr : rs.hasCreator = true) (hind : rs.indent ≠ some n)
    (hfin : C.finish rs.st = (rs.st, none)) (hnew : C.new rs.st = rs.st)
    (hok : ∀ q ∈ p :: ps, KwOk q.1 ∧ clean q.2 = true) (st' : σ)
    (hcall : callAll C rs.st (p :: ps) = (st', none)) :
    readLines C rs (linesAt n (p :: ps)) =
      ({ hasCreator := true, indent := some n, modified := true, st := st' }, none) := by
  have hp := hok p (by simp)
  simp only [linesAt, List.map_cons, readLines, cmdLine]
  rw [parseLine_written n p.1 p.2 hp.1 hp.2]
  simp only [callAll] at hcall
  cases hc : C.call rs.st (asciiLower p.1) p.2 with
  | mk st1 o =>
    rw [hc] at hcall
    cases o with
    | some e => simp at hcall
    | none =>
      simp only [] at hcall
      simp only [readParsed, reindent, hind, if_false, hcr, if_true, hfin, hnew, hc]
      have := readLines_same_indent C { hasCreator := true, indent := some n, modified := true, st := st1 } n ps rfl
        (fun q hq => hok q (by simp [hq])) st' hcall
      simp only [linesAt, cmdLine] at this
      rw [this]
      simp

/-- the general form: the old creator's `finish` succeeds (leaving `stF`), a new creator is made,
then the run of calls -/
theorem readLines_new_indent' {σ : Type} (C : Creator σ) (rs : RState σ) (n : Nat)
    (p : Str × Str) (ps : List (Str × Str)) (hcr : rs.hasCreator = true) (hind : rs.indent ≠ some n)
    (stF : σ) (hfin : C.finish rs.st = (stF, none))
    (hok : ∀ q ∈ p :: ps, KwOk q.1 ∧ clean q.2 = true) (st' : σ)
    (hcall : callAll C (C.new stF) (p :: ps) = (st', none)) :
    readLines C rs (linesAt n (p :: ps)) =
      ({ hasCreator := true, indent := some n, modified := true, st := st' }, none) := by
  have hp := hok p (by simp)
  simp only [linesAt, List.map_cons, readLines, cmdLine]
  rw [parseLine_written n p.1 p.2 hp.1 hp.2]
  simp only [callAll] at hcall
  cases hc : C.call (C.new stF) (asciiLower p.1) p.2 with
  | mk st1 o =>
    rw [hc] at hcall
    cases o with
    | some e => simp at hcall
    | none =>
      simp only [] at hcall
      simp only [readParsed, reindent, hind, if_false, hcr, if_true, hfin, hc]
      have := readLines_same_indent C { hasCreator := true, indent := some n, modified := true, st := st1 } n ps rfl
        (fun q hq => hok q (by simp [hq])) st' hcall
      simp only [linesAt, cmdLine] at this
      rw [this]
      simp

/-- a header line when no creator exists yet (start of the file) -/
theorem readLines_first_header {σ : Type} (C : Creator σ) (st : σ) (kw v : Str) (ls : List Str)
    (hk : KwOk kw) (hv : clean v = true) (st' : σ)
    (hcall : C.call (C.new st) (asciiLower kw) v = (st', none)) :
    readLines C { st := st } (sp kw v :: ls) =
      readLines C { hasCreator := true, indent := some 0, modified := true, st := st' } ls := by
  have hp := parseLine_written 0 kw v hk hv
  simp only [List.replicate_zero, List.nil_append] at hp
  simp [readLines, hp, readParsed, reindent, hcall]

/-- a header line after a record body: the old creator's `finish` runs first -/
theorem readLines_next_header {σ : Type} (C : Creator σ) (rs : RState σ) (kw v : Str) (ls : List Str)
    (hcr : rs.hasCreator = true) (hind : rs.indent ≠ some 0)
    (hk : KwOk kw) (hv : clean v = true) (stF st' : σ) (hfin : C.finish rs.st = (stF, none))
    (hcall : C.call (C.new stF) (asciiLower kw) v = (st', none)) :
    readLines C rs (sp kw v :: ls) =
      readLines C { hasCreator := true, indent := some 0, modified := true, st := st' } ls := by
  have hp := parseLine_written 0 kw v hk hv
  simp only [List.replicate_zero, List.nil_append] at hp
  simp [readLines, hp, readParsed, reindent, hcr, hind, hfin, hcall]

/-! ### sorting -/

theorem insertBy_perm {α : Type} (le : α → α → Bool) (x : α) (l : List α) : (insertBy le x l).Perm (x :: l) := by
  induction l with
  | nil => exact List.Perm.refl _
  | cons y ys ih =>
    simp only [insertBy]
    split
    · exact List.Perm.refl _
    · exact (List.Perm.cons y ih).trans (List.Perm.swap x y ys)

theorem sortBy_perm {α : Type} (le : α → α → Bool) (l : List α) : (sortBy le l).Perm l := by
  induction l with
  | nil => exact List.Perm.refl _
  | cons x xs ih => exact (insertBy_perm le x _).trans (List.Perm.cons x ih)

theorem sortBy_pairwise_ne {α β : Type} (le : α → α → Bool) (f : α → β) (l : List α)
    (h : l.Pairwise (fun a b => f a ≠ f b)) : (sortBy le l).Pairwise (fun a b => f a ≠ f b) :=
  ((sortBy_perm le l).pairwise_iff (fun {_ _} hab e => hab e.symm)).mpr h

theorem mem_sortBy {α : Type} (le : α → α → Bool) (l : List α) (x : α) : x ∈ sortBy le l ↔ x ∈ l :=
  (sortBy_perm le l).mem_iff

/-! ## 3. users: what the commands of a written record do -/

theorem pairwiseB_iff {α : Type} (r : α → α → Bool) (l : List α) :
    pairwiseB r l = true ↔ l.Pairwise (fun a b => r a b = true) := by
  induction l with
  | nil => simp [pairwiseB]
  | cons x xs ih => simp [pairwiseB, ih, List.pairwise_cons, List.all_eq_true]

theorem evalBool_boolStr (b : Bool) : evalBool (boolStr b) = some b := by
  cases b <;> decide

theorem clean_boolStr (b : Bool) : clean (boolStr b) = true := by
  cases b <;> decide

theorem kwOk_name : KwOk kwName := ⟨by decide, by decide⟩
theorem kwOk_ignore : KwOk kwIgnore := ⟨by decide, by decide⟩
theorem kwOk_secure : KwOk kwSecure := ⟨by decide, by decide⟩
theorem kwOk_hashed : KwOk kwHashed := ⟨by decide, by decide⟩
theorem kwOk_password : KwOk kwPassword := ⟨by decide, by decide⟩
theorem kwOk_capability : KwOk kwCapability := ⟨by decide, by decide⟩
theorem kwOk_hostmask : KwOk kwHostmask := ⟨by decide, by decide⟩
theorem kwOk_nicks : KwOk kwNicks := ⟨by decide, by decide⟩
theorem kwOk_gpgkey : KwOk kwGpgkey := ⟨by decide, by decide⟩
theorem kwOk_user : KwOk kwUser := ⟨by decide, by decide⟩

/-- the creator state while the body of record `i` is being read -/
abbrev ust (i : Nat) (r : User) (db : UsersDb) : UState := ⟨some ⟨some i, r⟩, db⟩

theorem userCall_name (i : Nat) (r : User) (db : UsersDb) (v : Str) :
    userCall (ust i r db) kwName v = (ust i { r with name := v } db, none) := by
  simp [userCall, withCu, setRec, kwName, kwUser]

theorem userCall_ignore (i : Nat) (r : User) (db : UsersDb) (b : Bool) :
    userCall (ust i r db) kwIgnore (boolStr b) = (ust i { r with ignore := b } db, none) := by
  simp [userCall, withCu, setRec, boolField, evalBool_boolStr, kwName, kwUser, kwIgnore]

theorem userCall_secure (i : Nat) (r : User) (db : UsersDb) (b : Bool) :
    userCall (ust i r db) kwSecure (boolStr b) = (ust i { r with secure := b } db, none) := by
  simp [userCall, withCu, setRec, boolField, evalBool_boolStr, kwName, kwUser, kwIgnore, kwSecure]

theorem userCall_hashed (i : Nat) (r : User) (db : UsersDb) (b : Bool) :
    userCall (ust i r db) kwHashed (boolStr b) = (ust i { r with hashed := b } db, none) := by
  simp [userCall, withCu, setRec, boolField, evalBool_boolStr, kwName, kwUser, kwIgnore, kwSecure, kwHashed]

theorem userCall_password (i : Nat) (r : User) (db : UsersDb) (v : Str) :
    userCall (ust i r db) kwPassword v = (ust i { r with password := v } db, none) := by
  simp [userCall, withCu, setRec, kwName, kwUser, kwIgnore, kwSecure, kwHashed, kwPassword]

theorem userCall_hostmask (i : Nat) (r : User) (db : UsersDb) (v : Str) :
    userCall (ust i r db) kwHostmask v = (ust i { r with hostmasks := ircSetAdd r.hostmasks v } db, none) := by
  simp [userCall, withCu, setRec, kwName, kwUser, kwIgnore, kwSecure, kwHashed, kwPassword, kwHostmask]

theorem userCall_capability (i : Nat) (r : User) (db : UsersDb) (v : Str) :
    userCall (ust i r db) kwCapability v =
      (ust i { r with caps := (userCapAdd r.caps v).1 } db, (userCapAdd r.caps v).2) := by
  simp [userCall, withCu, kwName, kwUser, kwIgnore, kwSecure, kwHashed, kwPassword, kwHostmask,
    kwNicks, kwCapability]

theorem userCall_gpgkey (i : Nat) (r : User) (db : UsersDb) (v : Str) :
    userCall (ust i r db) kwGpgkey v = (ust i { r with gpgkeys := r.gpgkeys ++ [v] } db, none) := by
  simp [userCall, withCu, setRec, kwName, kwUser, kwGpgkey, kwIgnore, kwSecure, kwHashed, kwPassword,
    kwHostmask, kwNicks, kwCapability]

theorem userCall_nicks (i : Nat) (r : User) (db : UsersDb) (net nicks : Str)
    (h : split1 ' ' (sp net nicks) = some (net, nicks)) :
    userCall (ust i r db) kwNicks (sp net nicks) =
      (ust i { r with nicks := dictSet net (splitChar ' ' nicks) r.nicks } db, none) := by
  simp [userCall, withCu, setRec, h, kwName, kwUser, kwIgnore, kwSecure, kwHashed, kwPassword,
    kwHostmask, kwNicks]

theorem userCall_user (db : UsersDb) (n : Nat) (v : Str) (h : parseNat v = some n) :
    userCall ⟨some {}, db⟩ kwUser v = (ust n {} db, none) := by
  simp [userCall, h]

/-! ### strings inside the `nicks` line -/

theorem split1_sp (a b : Str) (h : ∀ c ∈ a, c ≠ ' ') : split1 ' ' (a ++ ' ' :: b) = some (a, b) := by
  induction a with
  | nil => simp [split1]
  | cons x xs ih =>
    have hx : x ≠ ' ' := h x (by simp)
    simp only [List.cons_append, split1, hx, if_false]
    rw [ih (fun c hc => h c (by simp [hc]))]

theorem splitChar_single (sep : Char) (n : Str) (h : ∀ c ∈ n, c ≠ sep) : splitChar sep n = [n] := by
  induction n with
  | nil => rfl
  | cons x xs ih =>
    have hx : x ≠ sep := h x (by simp)
    simp only [splitChar, hx, if_false]
    rw [ih (fun c hc => h c (by simp [hc]))]

theorem splitChar_cons (sep : Char) (n rest : Str) (h : ∀ c ∈ n, c ≠ sep) :
    splitChar sep (n ++ sep :: rest) = n :: splitChar sep rest := by
  induction n with
  | nil => simp [splitChar]
  | cons x xs ih =>
    have hx : x ≠ sep := h x (by simp)
    simp only [List.cons_append, splitChar, hx, if_false]
    rw [ih (fun c hc => h c (by simp [hc]))]

theorem splitChar_joinChar (sep : Char) (ns : List Str) (hne : ns ≠ [])
    (h : ∀ n ∈ ns, ∀ c ∈ n, c ≠ sep) : splitChar sep (joinChar sep ns) = ns := by
  induction ns with
  | nil => exact absurd rfl hne
  | cons n rest ih =>
    cases rest with
    | nil => simp [joinChar, splitChar_single sep n (h n (by simp))]
    | cons m ms =>
      have : joinChar sep (n :: m :: ms) = n ++ sep :: joinChar sep (m :: ms) := rfl
      rw [this, splitChar_cons sep n _ (h n (by simp)), ih (by simp) (fun x hx => h x (by simp [hx]))]

/-! ### folds over the repeated lines -/

theorem capsOk_elim {l : List Str} (h : capsOk l = true) :
    l.Pairwise (fun a b => a ≠ b) ∧
    ∀ c ∈ l, clean c = true ∧ C03.toLower c = c ∧ ∃ i, C03.invertCapability c = .ok i ∧ i ∉ l := by
  simp only [capsOk, Bool.and_eq_true, pairwiseB_iff, List.all_eq_true] at h
  refine ⟨?_, ?_⟩
  · exact h.1.imp (fun hab => by simpa using hab)
  · intro c hc
    have := h.2 c hc
    refine ⟨this.1.1, by simpa using this.1.2, ?_⟩
    cases hi : C03.invertCapability c with
    | error e => simp [hi] at this
    | ok i =>
      refine ⟨i, rfl, ?_⟩
      have h3 := this.2
      simp only [hi] at h3
      simpa using h3

theorem userCapAdd_ok (caps : List Str) (c i : Str) (hl : C03.toLower c = c) (hn : c ≠ C03.antiOwnerS)
    (hi : C03.invertCapability c = .ok i) (hni : i ∉ caps) (hc : c ∉ caps) :
    userCapAdd caps c = (caps ++ [c], none) := by
  have he : C03.CapSet.erase caps i = caps := by
    unfold C03.CapSet.erase
    rw [List.filter_eq_self]
    intro x hx
    have : x ≠ i := fun e => hni (e ▸ hx)
    simpa using this
  have hb : (c == C03.antiOwnerS) = false := by simpa using hn
  simp [userCapAdd, liftR, C03.uadd, C03.CapSet.add, C03.CapSet.insert, hl, hb, hi, he, hc]

theorem capAdd_ok (caps : List Str) (c i : Str) (hl : C03.toLower c = c)
    (hi : C03.invertCapability c = .ok i) (hni : i ∉ caps) (hc : c ∉ caps) :
    capAdd caps c = (caps ++ [c], none) := by
  have he : C03.CapSet.erase caps i = caps := by
    unfold C03.CapSet.erase
    rw [List.filter_eq_self]
    intro x hx
    have : x ≠ i := fun e => hni (e ▸ hx)
    simpa using this
  simp [capAdd, liftR, C03.CapSet.add, C03.CapSet.insert, hl, hi, he, hc]

theorem callAll_caps (E : Env) (i : Nat) (db : UsersDb) (caps pre : List Str) (r : User)
    (hr : r.caps = pre) (hok : capsOk (pre ++ caps) = true)
    (hno : ∀ c ∈ pre ++ caps, c ≠ C03.antiOwnerS) :
    callAll (userCreator E) (ust i r db) (caps.map (fun c => (kwCapability, c))) =
      (ust i { r with caps := pre ++ caps } db, none) := by
  induction caps generalizing pre r with
  | nil => subst hr; simp [callAll]
  | cons c cs ih =>
    obtain ⟨hpw, hall⟩ := capsOk_elim hok
    obtain ⟨_, hl, inv, hinv, hninv⟩ := hall c (by simp)
    have hcpre : c ∉ pre := by
      intro hmem
      have := List.pairwise_append.mp hpw
      exact this.2.2 c hmem c (by simp) rfl
    have hipre : inv ∉ pre := fun hmem => hninv (by simp [hmem])
    have hlow : asciiLower kwCapability = kwCapability := by decide
    rw [List.map_cons, callAll_cons_ok (userCreator E) _ (ust i { r with caps := pre ++ [c] } db) _ _ (by
      show userCall (ust i r db) (asciiLower kwCapability) c = _
      rw [hlow, userCall_capability, hr, userCapAdd_ok pre c inv hl (hno c (by simp)) hinv hipre hcpre])]
    have := ih (pre ++ [c]) { r with caps := pre ++ [c] } rfl (by simpa using hok) (by simpa using hno)
    rw [this]
    simp

theorem ircSetAdd_new (hs : List Str) (h : Str) (hn : ∀ x ∈ hs, C03.toLower x ≠ C03.toLower h) :
    ircSetAdd hs h = hs ++ [h] := by
  unfold ircSetAdd
  have : hs.any (fun x => decide (C03.toLower x = C03.toLower h)) = false := by
    simp only [List.any_eq_false, decide_eq_true_eq]
    exact hn
  simp [this]

theorem callAll_hostmasks (E : Env) (i : Nat) (db : UsersDb) (hms pre : List Str) (r : User)
    (hr : r.hostmasks = pre)
    (hok : (pre ++ hms).Pairwise (fun a b => C03.toLower a ≠ C03.toLower b)) :
    callAll (userCreator E) (ust i r db) (hms.map (fun c => (kwHostmask, c))) =
      (ust i { r with hostmasks := pre ++ hms } db, none) := by
  induction hms generalizing pre r with
  | nil => subst hr; simp [callAll]
  | cons c cs ih =>
    have hnew : ∀ x ∈ pre, C03.toLower x ≠ C03.toLower c := by
      intro x hx
      exact (List.pairwise_append.mp hok).2.2 x hx c (by simp)
    have hlow : asciiLower kwHostmask = kwHostmask := by decide
    rw [List.map_cons, callAll_cons_ok (userCreator E) _ (ust i { r with hostmasks := pre ++ [c] } db) _ _ (by
      show userCall (ust i r db) (asciiLower kwHostmask) c = _
      rw [hlow, userCall_hostmask, hr, ircSetAdd_new pre c hnew])]
    have := ih (pre ++ [c]) { r with hostmasks := pre ++ [c] } rfl (by simpa using hok)
    rw [this]
    simp

theorem dictSet_new {α β : Type} [DecidableEq α] (k : α) (v : β) (l : List (α × β))
    (h : ∀ p ∈ l, p.1 ≠ k) : dictSet k v l = l ++ [(k, v)] := by
  unfold dictSet
  have : l.any (fun p => decide (p.1 = k)) = false := by
    simp only [List.any_eq_false, decide_eq_true_eq]
    exact h
  simp [this]

theorem nicksEntryOk_elim {p : Str × List Str} (h : nicksEntryOk p = true) :
    clean p.1 = true ∧ (∀ c ∈ p.1, c ≠ ' ') ∧ p.2 ≠ [] ∧ ∀ n ∈ p.2, ∀ c ∈ n, c ≠ ' ' ∧ c ≠ '\t' ∧ c ≠ '\n' ∧ c ≠ '\r' := by
  simp only [nicksEntryOk, nickOk, Bool.and_eq_true, List.all_eq_true, bne_iff_ne, ne_eq,
    Bool.not_eq_true', List.isEmpty_eq_false_iff] at h
  refine ⟨h.1.1.1, h.1.1.2, h.1.2, ?_⟩
  intro n hn c hc
  have := h.2 n hn c hc
  exact ⟨this.1.1.1, this.1.1.2, this.1.2, this.2⟩

theorem callAll_nicks (E : Env) (i : Nat) (db : UsersDb) (nk pre : List (Str × List Str)) (r : User)
    (hr : r.nicks = pre) (hok : ∀ p ∈ nk, nicksEntryOk p = true)
    (hpw : (pre ++ nk).Pairwise (fun a b => a.1 ≠ b.1)) :
    callAll (userCreator E) (ust i r db) (nk.map (fun p => (kwNicks, sp p.1 (joinChar ' ' p.2)))) =
      (ust i { r with nicks := pre ++ nk } db, none) := by
  induction nk generalizing pre r with
  | nil => subst hr; simp [callAll]
  | cons p ps ih =>
    obtain ⟨_, hsp, hne, hn⟩ := nicksEntryOk_elim (hok p (by simp))
    have hnew : ∀ q ∈ pre, q.1 ≠ p.1 := by
      intro q hq
      exact (List.pairwise_append.mp hpw).2.2 q hq p (by simp)
    have hlow : asciiLower kwNicks = kwNicks := by decide
    rw [List.map_cons, callAll_cons_ok (userCreator E) _ (ust i { r with nicks := pre ++ [p] } db) _ _ (by
      show userCall (ust i r db) (asciiLower kwNicks) (sp p.1 (joinChar ' ' p.2)) = _
      rw [hlow, userCall_nicks _ _ _ _ _ (split1_sp _ _ hsp),
        splitChar_joinChar ' ' p.2 hne (fun n hn' c hc => (hn n hn' c hc).1), hr, dictSet_new _ _ _ hnew])]
    have := ih (pre ++ [p]) { r with nicks := pre ++ [p] } rfl (fun q hq => hok q (by simp [hq]))
      (by simpa using hpw)
    rw [this]
    simp

theorem callAll_gpgkeys (E : Env) (i : Nat) (db : UsersDb) (ks pre : List Str) (r : User)
    (hr : r.gpgkeys = pre) :
    callAll (userCreator E) (ust i r db) (ks.map (fun c => (kwGpgkey, c))) =
      (ust i { r with gpgkeys := pre ++ ks } db, none) := by
  induction ks generalizing pre r with
  | nil => subst hr; simp [callAll]
  | cons c cs ih =>
    have hlow : asciiLower kwGpgkey = kwGpgkey := by decide
    rw [List.map_cons, callAll_cons_ok (userCreator E) _ (ust i { r with gpgkeys := pre ++ [c] } db) _ _ (by
      show userCall (ust i r db) (asciiLower kwGpgkey) c = _
      rw [hlow, userCall_gpgkey, hr])]
    have := ih (pre ++ [c]) { r with gpgkeys := pre ++ [c] } rfl
    rw [this]
    simp

/-! ### a whole record body -/

structure UserOk (u : User) : Prop where
  name : clean u.name = true
  notHm : C03.isUserHostmask u.name = false
  pwEmpty : u.password = [] → u.hashed = false
  pwClean : u.password ≠ [] → clean u.password = true
  caps : capsOk u.caps = true
  noAntiOwner : ∀ c ∈ u.caps, c ≠ C03.antiOwnerS
  hmClean : ∀ h ∈ u.hostmasks, clean h = true
  hmDistinct : u.hostmasks.Pairwise (fun a b => C03.toLower a ≠ C03.toLower b)
  nicksOk : ∀ p ∈ u.nicks, nicksEntryOk p = true
  nicksDistinct : u.nicks.Pairwise (fun a b => a.1 ≠ b.1)
  gpgClean : ∀ k ∈ u.gpgkeys, clean k = true

theorem storableUser_elim {u : User} (h : storableUser u = true) : UserOk u := by
  simp only [storableUser, Bool.and_eq_true, pairwiseB_iff, List.all_eq_true, Bool.not_eq_true',
    bne_iff_ne, ne_eq] at h
  obtain ⟨⟨⟨⟨⟨⟨⟨⟨⟨h1, h2⟩, h3⟩, h4⟩, h5⟩, h6⟩, h7⟩, h8⟩, h9⟩, h10⟩ := h
  refine ⟨h1, h2, ?_, ?_, h4, h5, h6, ?_, h8, ?_, h10⟩
  · intro hp; simpa [hp] using h3
  · intro hp
    have : u.password.isEmpty = false := by simpa using hp
    simpa [this] using h3
  · exact h7.imp (fun hab => by simpa using hab)
  · exact h9.imp (fun hab => by simpa using hab)

theorem clean_sp_nicks {p : Str × List Str} (h : nicksEntryOk p = true) :
    clean (sp p.1 (joinChar ' ' p.2)) = true := by
  obtain ⟨hc, _, _, hn⟩ := nicksEntryOk_elim h
  obtain ⟨c, cs, hv, hsp, hall⟩ := clean_elim hc
  have hj : ∀ (ns : List Str), (∀ n ∈ ns, ∀ x ∈ n, x ≠ ' ' ∧ x ≠ '\t' ∧ x ≠ '\n' ∧ x ≠ '\r') →
      ∀ x ∈ joinChar ' ' ns, x ≠ '\t' ∧ x ≠ '\n' ∧ x ≠ '\r' := by
    intro ns
    induction ns with
    | nil => intro _ x hx; simp [joinChar] at hx
    | cons n rest ih =>
      intro hns x hx
      cases rest with
      | nil =>
        simp only [joinChar] at hx
        exact (hns n (by simp) x hx).2
      | cons m ms =>
        have : joinChar ' ' (n :: m :: ms) = n ++ ' ' :: joinChar ' ' (m :: ms) := rfl
        rw [this] at hx
        simp only [List.mem_append, List.mem_cons] at hx
        rcases hx with hx | rfl | hx
        · exact (hns n (by simp) x hx).2
        · decide
        · exact ih (fun q hq => hns q (by simp [hq])) x hx
  rw [hv]
  simp only [sp, List.cons_append, clean, hsp, Bool.not_false, Bool.true_and, noTabBreak, List.all_eq_true,
    Bool.and_eq_true, bne_iff_ne, ne_eq]
  intro x hx
  have hx' : x ∈ p.1 ∨ x = ' ' ∨ x ∈ joinChar ' ' p.2 := by
    rw [hv]
    simp only [List.mem_cons, List.mem_append] at hx ⊢
    rcases hx with h | h | h | h
    · exact Or.inl (Or.inl h)
    · exact Or.inl (Or.inr h)
    · exact Or.inr (Or.inl h)
    · exact Or.inr (Or.inr h)
  rcases hx' with hx' | rfl | hx'
  · have := hall x hx'; exact ⟨⟨this.1, this.2.1⟩, this.2.2⟩
  · decide
  · have := hj p.2 hn x hx'; exact ⟨⟨this.1, this.2.1⟩, this.2.2⟩

theorem userCmds_ok {u : User} (h : UserOk u) : ∀ p ∈ userCmds u, KwOk p.1 ∧ clean p.2 = true := by
  intro p hp
  simp only [userCmds, List.mem_append, List.mem_cons, List.mem_map, List.not_mem_nil, or_false] at hp
  rcases hp with ((((((rfl | rfl | rfl) | hp) | hp) | hp) | hp) | hp)
  · exact ⟨kwOk_name, h.name⟩
  · exact ⟨kwOk_ignore, clean_boolStr _⟩
  · exact ⟨kwOk_secure, clean_boolStr _⟩
  · by_cases hpw : u.password.isEmpty = true
    · simp [hpw] at hp
    · simp [hpw] at hp
      rcases hp with rfl | rfl
      · exact ⟨kwOk_hashed, clean_boolStr _⟩
      · exact ⟨kwOk_password, h.pwClean (by intro e; simp [e] at hpw)⟩
  · obtain ⟨c, hc, rfl⟩ := hp
    exact ⟨kwOk_capability, ((capsOk_elim h.caps).2 c hc).1⟩
  · obtain ⟨c, hc, rfl⟩ := hp
    exact ⟨kwOk_hostmask, h.hmClean c hc⟩
  · obtain ⟨q, hq, rfl⟩ := hp
    exact ⟨kwOk_nicks, clean_sp_nicks (h.nicksOk q hq)⟩
  · obtain ⟨c, hc, rfl⟩ := hp
    exact ⟨kwOk_gpgkey, h.gpgClean c hc⟩

theorem callAll_userCmds (E : Env) (i : Nat) (db : UsersDb) (u : User) (h : UserOk u) :
    callAll (userCreator E) (ust i {} db) (userCmds u) = (ust i u db, none) := by
  unfold userCmds
  have l1 : asciiLower kwName = kwName := by decide
  have l2 : asciiLower kwIgnore = kwIgnore := by decide
  have l3 : asciiLower kwSecure = kwSecure := by decide
  have l4 : asciiLower kwHashed = kwHashed := by decide
  have l5 : asciiLower kwPassword = kwPassword := by decide
  -- the three fixed lines
  have s1 : callAll (userCreator E) (ust i {} db)
      [(kwName, u.name), (kwIgnore, boolStr u.ignore), (kwSecure, boolStr u.secure)] =
      (ust i { name := u.name, ignore := u.ignore, secure := u.secure } db, none) := by
    rw [callAll_cons_ok (userCreator E) _ (ust i { name := u.name } db) _ _ (by
        dsimp only [userCreator]
        rw [l1, userCall_name]),
      callAll_cons_ok (userCreator E) _ (ust i { name := u.name, ignore := u.ignore } db) _ _ (by
        dsimp only [userCreator]
        rw [l2, userCall_ignore]),
      callAll_cons_ok (userCreator E) _ (ust i { name := u.name, ignore := u.ignore, secure := u.secure } db) _ _ (by
        dsimp only [userCreator]
        rw [l3, userCall_secure])]
    rfl
  -- the password lines
  have s2 : callAll (userCreator E) (ust i { name := u.name, ignore := u.ignore, secure := u.secure } db)
      (if u.password.isEmpty then [] else [(kwHashed, boolStr u.hashed), (kwPassword, u.password)]) =
      (ust i { name := u.name, ignore := u.ignore, secure := u.secure, hashed := u.hashed,
               password := u.password } db, none) := by
    by_cases hpw : u.password = []
    · simp [hpw, callAll, h.pwEmpty hpw]
    · have : u.password.isEmpty = false := by simpa using hpw
      simp only [this, Bool.false_eq_true, if_false]
      rw [callAll_cons_ok (userCreator E) _
          (ust i { name := u.name, ignore := u.ignore, secure := u.secure, hashed := u.hashed } db) _ _ (by
            dsimp only [userCreator]
            rw [l4, userCall_hashed]),
        callAll_cons_ok (userCreator E) _
          (ust i { name := u.name, ignore := u.ignore, secure := u.secure, hashed := u.hashed,
                   password := u.password } db) _ _ (by
            dsimp only [userCreator]
            rw [l5, userCall_password])]
      rfl
  have s3 := callAll_caps E i db u.caps []
    { name := u.name, ignore := u.ignore, secure := u.secure, hashed := u.hashed, password := u.password }
    rfl (by simpa using h.caps) (by simpa using h.noAntiOwner)
  have s4 := callAll_hostmasks E i db u.hostmasks []
    { name := u.name, ignore := u.ignore, secure := u.secure, hashed := u.hashed, password := u.password,
      caps := u.caps } rfl (by simpa using h.hmDistinct)
  have s5 := callAll_nicks E i db u.nicks []
    { name := u.name, ignore := u.ignore, secure := u.secure, hashed := u.hashed, password := u.password,
      caps := u.caps, hostmasks := u.hostmasks } rfl h.nicksOk (by simpa using h.nicksDistinct)
  have s6 := callAll_gpgkeys E i db u.gpgkeys []
    { name := u.name, ignore := u.ignore, secure := u.secure, hashed := u.hashed, password := u.password,
      caps := u.caps, hostmasks := u.hostmasks, nicks := u.nicks } rfl
  simp only [List.nil_append] at s3 s4 s5 s6
  rw [callAll_append, callAll_append, callAll_append, callAll_append, callAll_append, s1]
  simp only [s2, s3, s4, s5, s6]

/-! ### numbers in headers -/

theorem digit_props (c : Char) (h : c.isDigit = true) :
    isSpace c = false ∧ isNumSpace c = false ∧ c ≠ '\t' ∧ c ≠ '\n' ∧ c ≠ '\r' ∧ c ≠ ' ' := by
  have h' := Char.isDigit_iff_toNat.mp h
  have e1 : '0'.toNat = 48 := by decide
  have e2 : '9'.toNat = 57 := by decide
  rw [e1, e2] at h'
  refine ⟨?_, ?_, ?_, ?_, ?_, ?_⟩
  · simp only [isSpace]
    have : c.toNat ≠ 0x85 ∧ c.toNat ≠ 0xa0 ∧ c.toNat ≠ 0x1680 ∧ c.toNat ≠ 0x2028 ∧ c.toNat ≠ 0x2029 ∧
        c.toNat ≠ 0x202f ∧ c.toNat ≠ 0x205f ∧ c.toNat ≠ 0x3000 := by omega
    simp only [Bool.or_eq_false_iff, Bool.and_eq_false_iff, decide_eq_false_iff_not, Nat.not_le]
    omega
  · simp only [isNumSpace, Bool.or_eq_false_iff, Bool.and_eq_false_iff, decide_eq_false_iff_not, Nat.not_le]
    omega
  all_goals (intro e; subst e; revert h'; decide)

theorem dropWhile_all_false {α : Type} (p : α → Bool) (l : List α) (h : ∀ x ∈ l, p x = false) :
    l.dropWhile p = l := by
  cases l with
  | nil => rfl
  | cons x xs => simp [List.dropWhile, h x (by simp)]

theorem natDec_digits (n : Nat) : natDec n ≠ [] ∧ ∀ c ∈ natDec n, c.isDigit = true := by
  have e : natDec n = Nat.toDigits 10 n := rfl
  rw [e]
  exact ⟨Nat.toDigits_ne_nil, fun c hc => Nat.isDigit_of_mem_toDigits (by decide) (by decide) hc⟩

theorem clean_natDec (n : Nat) : clean (natDec n) = true := by
  obtain ⟨hne, hd⟩ := natDec_digits n
  cases h : natDec n with
  | nil => exact absurd h hne
  | cons c cs =>
    rw [h] at hd
    simp only [clean, (digit_props c (hd c (by simp))).1, Bool.not_false, Bool.true_and, noTabBreak,
      List.all_eq_true, Bool.and_eq_true, bne_iff_ne, ne_eq]
    intro x hx
    have := digit_props x (hd x hx)
    exact ⟨⟨this.2.2.1, this.2.2.2.1⟩, this.2.2.2.2.1⟩

theorem parseNat_natDec (n : Nat) : parseNat (natDec n) = some n := by
  obtain ⟨hne, hd⟩ := natDec_digits n
  have hs : numStrip (natDec n) = natDec n := by
    unfold numStrip rstripP lstripP
    rw [dropWhile_all_false _ _ (fun c hc => (digit_props c (hd c hc)).2.1)]
    rw [dropWhile_all_false _ _ (fun c hc => (digit_props c (hd c (by simpa using hc))).2.1)]
    simp
  have ha : allDigits (natDec n) = true := by
    simp only [allDigits, Bool.and_eq_true, Bool.not_eq_true', List.all_eq_true]
    exact ⟨by simpa using hne, hd⟩
  have e : natDec n = Nat.toDigits 10 n := rfl
  simp only [parseNat, hs, ha, if_true]
  rw [e, Nat.ofDigitChars_ten_toDigits]

/-! ### `setUser` while loading a storable database -/

theorem hasLineBreak_clean {v : Str} (h : clean v = true) : hasLineBreak v = false := by
  obtain ⟨_, _, _, _, hall⟩ := clean_elim h
  simp only [hasLineBreak, List.any_eq_false, Bool.or_eq_true, decide_eq_true_eq, not_or]
  intro x hx
  exact ⟨(hall x hx).2.1, (hall x hx).2.2⟩

theorem noClash_elim {E : Env} {p q : Nat × User} (h : noClash E p q = true) :
    E.lower p.2.name ≠ E.lower q.2.name ∧
    ∀ hq ∈ q.2.hostmasks, ∀ o ∈ p.2.hostmasks, E.hm o hq = false ∧ E.hmx hq o = false := by
  simp only [noClash, Bool.and_eq_true, bne_iff_ne, ne_eq, List.all_eq_true, Bool.not_eq_true'] at h
  exact ⟨h.1, fun hq hhq o ho => h.2 hq hhq o ho⟩

theorem setUser_ok (E : Env) (pre : List (Nat × User)) (n id : Nat) (u : User) (hu : UserOk u)
    (hids : ∀ p ∈ pre, p.1 < id) (hnc : ∀ p ∈ pre, noClash E p (id, u) = true) :
    setUser E { users := pre, nextId := n } id u =
      ({ users := pre ++ [(id, u)], nextId := max n id }, none) := by
  have hfind : pre.find? (fun p => decide (E.lower p.2.name = E.lower u.name)) = none := by
    rw [List.find?_eq_none]
    intro p hp
    simpa using (noClash_elim (hnc p hp)).1
  have hget : getUserId E pre u.name = (pre, .missing) := by
    simp [getUserId, hu.notHm, hfind]
  have hclash : hostmaskClash E pre id u = false := by
    simp only [hostmaskClash, List.any_eq_false, Bool.and_eq_true, Bool.or_eq_true, not_and, not_or,
      List.any_eq_true, not_exists, Bool.not_eq_true]
    intro h hh p hp _
    have := (noClash_elim (hnc p hp)).2 h hh
    refine ⟨?_, fun o ho => (this o ho).2⟩
    simp only [patMatch, Option.isSome_eq_false_iff, Option.isNone_iff_eq_none, List.find?_eq_none, Bool.not_eq_true]
    exact fun o ho => (this o ho).1
  have hnew : ∀ p ∈ pre, p.1 ≠ id := fun p hp => Nat.ne_of_lt (hids p hp)
  simp [setUser, hasLineBreak_clean hu.name, hget, hclash, dictSet_new id u pre hnew]

/-! ### one written record through the reader -/

/-- reader state after the body of record `(i, u)` -/
def rsMid (i : Nat) (u : User) (db : UsersDb) : RState UState :=
  { hasCreator := true, indent := some 2, modified := true, st := ust i u db }

/-- reader state after the header line of record `i` -/
def rsHdr (i : Nat) (db : UsersDb) : RState UState :=
  { hasCreator := true, indent := some 0, modified := true, st := ust i {} db }

theorem parseLine_userHeader (i : Nat) :
    parseLine (sp kwUser (natDec i)) = .cmd 0 kwUser (natDec i) := by
  have := parseLine_written 0 kwUser (natDec i) kwOk_user (clean_natDec i)
  have hl : asciiLower kwUser = kwUser := by decide
  rw [hl] at this
  simpa using this

theorem header_start (E : Env) (db : UsersDb) (i : Nat) (ls : List Str) :
    readLines (userCreator E) { st := ⟨none, db⟩ } (sp kwUser (natDec i) :: ls) =
      readLines (userCreator E) (rsHdr i db) ls := by
  simp only [readLines, parseLine_userHeader, readParsed, reindent]
  have : (userCreator E).call ((userCreator E).new ⟨none, db⟩) kwUser (natDec i) = (ust i {} db, none) := by
    show userCall (userNew ⟨none, db⟩) kwUser (natDec i) = _
    simp only [userNew]
    exact userCall_user db i _ (parseNat_natDec i)
  simp [this, rsHdr]

theorem userFinish_ok (E : Env) (j : Nat) (v : User) (db db' : UsersDb) (hname : v.name ≠ [])
    (hset : setUser E db j v = (db', none)) :
    userFinish E (ust j v db) = (⟨none, db'⟩, none) := by
  have : v.name.isEmpty = false := by simpa using hname
  simp [userFinish, this, hset]

theorem header_mid (E : Env) (db db' : UsersDb) (j : Nat) (v : User) (i : Nat) (ls : List Str)
    (hname : v.name ≠ []) (hset : setUser E db j v = (db', none)) :
    readLines (userCreator E) (rsMid j v db) (sp kwUser (natDec i) :: ls) =
      readLines (userCreator E) (rsHdr i db') ls := by
  simp only [readLines, parseLine_userHeader, readParsed, reindent, rsMid]
  have hf : (userCreator E).finish (ust j v db) = (⟨none, db'⟩, none) := userFinish_ok E j v db db' hname hset
  have : (userCreator E).call ((userCreator E).new ⟨none, db'⟩) kwUser (natDec i) = (ust i {} db', none) := by
    show userCall (userNew ⟨none, db'⟩) kwUser (natDec i) = _
    simp only [userNew]
    exact userCall_user db' i _ (parseNat_natDec i)
  simp [hf, this, rsHdr]

theorem body_lines (E : Env) (db : UsersDb) (i : Nat) (u : User) (hu : UserOk u) (rest : List Str) :
    readLines (userCreator E) (rsHdr i db) ((userLines u).map indent2 ++ [] :: rest) =
      readLines (userCreator E) (rsMid i u db) rest := by
  have hl : (userLines u).map indent2 = linesAt 2 (userCmds u) := by
    simp [userLines, linesAt, List.map_map, indent2_eq, Function.comp_def]
  obtain ⟨p, ps, hps⟩ : ∃ p ps, userCmds u = p :: ps := ⟨(kwName, u.name), _, rfl⟩
  have hfin : (userCreator E).finish (rsHdr i db).st = ((rsHdr i db).st, none) := by
    show userFinish E (ust i {} db) = _
    simp [userFinish, rsHdr]
  have hnew : (userCreator E).new (rsHdr i db).st = (rsHdr i db).st := by
    show userNew (ust i {} db) = _
    simp [userNew, rsHdr]
  have hbody := readLines_new_indent (userCreator E) (rsHdr i db) 2 p ps rfl (by simp [rsHdr]) hfin hnew
    (by rw [← hps]; exact userCmds_ok hu) (ust i u db)
    (by rw [← hps]; exact callAll_userCmds E i db u hu)
  rw [hl, hps, readLines_append, hbody]
  simp only []
  rw [readLines_blank]
  rfl

/-- `Reader.read` from a given loop state on: the remaining lines, then the final `finish` -/
def readRest (E : Env) (rs : RState UState) (ls : List Str) : UState × Option Err :=
  let r := readLines (userCreator E) rs ls
  match r.2 with
  | some e => (r.1.st, some e)
  | none => if r.1.modified then (userCreator E).finish r.1.st else (r.1.st, none)

def nextIdAfter (n : Nat) (l : List (Nat × User)) : Nat := l.foldl (fun m p => max m p.1) n

theorem storableUsers_elim {E : Env} {l : List (Nat × User)} (h : storableUsers E l = true) :
    l.Pairwise (fun p q => p.1 < q.1 ∧ noClash E p q = true) ∧ ∀ p ∈ l, UserOk p.2 := by
  simp only [storableUsers, Bool.and_eq_true, pairwiseB_iff, List.all_eq_true, decide_eq_true_eq] at h
  exact ⟨h.1, fun p hp => storableUser_elim (h.2 p hp)⟩

theorem load_rest (E : Env) (bs : List (Nat × User)) (pre : List (Nat × User)) (n j : Nat) (v : User)
    (hst : storableUsers E (pre ++ (j, v) :: bs) = true) :
    readRest E (rsMid j v ⟨pre, n⟩) (bs.flatMap userBlock) =
      (⟨none, ⟨pre ++ (j, v) :: bs, nextIdAfter n ((j, v) :: bs)⟩⟩, none) := by
  induction bs generalizing pre n j v with
  | nil =>
    obtain ⟨hpw, hall⟩ := storableUsers_elim hst
    have hv : UserOk v := hall (j, v) (by simp)
    have hcross := (List.pairwise_append.mp hpw).2.2
    have hset := setUser_ok E pre n j v hv (fun p hp => (hcross p hp (j, v) (by simp)).1)
      (fun p hp => (hcross p hp (j, v) (by simp)).2)
    have hname : v.name ≠ [] := by
      obtain ⟨c, cs, hc, _⟩ := clean_elim hv.name
      rw [hc]; simp
    simp only [List.flatMap_nil, readRest, readLines, rsMid, if_true]
    show userFinish E (ust j v ⟨pre, n⟩) = _
    rw [userFinish_ok E j v _ _ hname hset]
    simp [nextIdAfter]
  | cons b bs ih =>
    obtain ⟨hpw, hall⟩ := storableUsers_elim hst
    have hv : UserOk v := hall (j, v) (by simp)
    have hb : UserOk b.2 := hall b (by simp)
    have hcross := (List.pairwise_append.mp hpw).2.2
    have hset := setUser_ok E pre n j v hv (fun p hp => (hcross p hp (j, v) (by simp)).1)
      (fun p hp => (hcross p hp (j, v) (by simp)).2)
    have hname : v.name ≠ [] := by
      obtain ⟨c, cs, hc, _⟩ := clean_elim hv.name
      rw [hc]; simp
    have hst' : storableUsers E ((pre ++ [(j, v)]) ++ (b.1, b.2) :: bs) = true := by
      simpa using hst
    have := ih (pre ++ [(j, v)]) (max n j) b.1 b.2 hst'
    simp only [readRest] at this ⊢
    simp only [List.flatMap_cons, userBlock, blockLines, List.cons_append, List.append_assoc]
    rw [header_mid E ⟨pre, n⟩ _ j v b.1 _ hname hset]
    simp only [List.nil_append]
    rw [body_lines E _ b.1 b.2 hb]
    rw [this]
    simp [nextIdAfter]

/-- users.conf round trip: the users are read back exactly, the loader does not raise, and the
class-level creator state is clean again -/
theorem loadUsers_dumpUsers (E : Env) (db : UsersDb) (h : storableUsers E (sortedUsers db) = true) :
    loadUsers E none (dumpUsers db) =
      (⟨none, ⟨sortedUsers db, nextIdAfter 0 (sortedUsers db)⟩⟩, none) := by
  have hlines : fileLines (dumpUsers db) = (sortedUsers db).flatMap userBlock := by
    unfold dumpUsers
    apply fileLines_unlines
    intro l hl c hc
    simp only [List.mem_flatMap] at hl
    obtain ⟨p, hp, hl⟩ := hl
    have hu : UserOk p.2 := (storableUsers_elim h).2 p hp
    simp only [userBlock, blockLines, List.mem_cons, List.mem_append, List.mem_map, List.not_mem_nil, or_false] at hl
    have hclean : ∀ kw v, KwOk kw → clean v = true → ∀ c ∈ sp kw v, isBreak c = false := by
      intro kw v hk hv c hc
      obtain ⟨_, _, _, _, hall⟩ := clean_elim hv
      simp only [sp, List.mem_append, List.mem_cons] at hc
      rcases hc with hc | rfl | hc
      · have := hk.nosp c hc
        cases hb : isBreak c with
        | false => rfl
        | true =>
          simp only [isBreak, Bool.or_eq_true, decide_eq_true_eq] at hb
          rcases hb with rfl | rfl <;> revert this <;> decide
      · decide
      · have := hall c hc
        simp [isBreak, this.2.1, this.2.2]
    rcases hl with (rfl | ⟨q, hq, rfl⟩) | rfl
    · exact hclean _ _ kwOk_user (clean_natDec _) c hc
    · simp only [userLines, List.mem_map] at hq
      obtain ⟨r, hr, rfl⟩ := hq
      have := userCmds_ok hu r hr
      simp only [indent2, List.mem_cons] at hc
      rcases hc with rfl | rfl | hc
      · decide
      · decide
      · exact hclean _ _ this.1 this.2 c hc
    · cases hc
  unfold loadUsers readText
  rw [hlines]
  change readRest E { st := ⟨none, {}⟩ } ((sortedUsers db).flatMap userBlock) = _
  cases hs : sortedUsers db with
  | nil => simp [readRest, readLines, nextIdAfter]
  | cons b bs =>
    rw [hs] at h
    have hb : UserOk b.2 := (storableUsers_elim h).2 b (by simp)
    have := load_rest E bs [] 0 b.1 b.2 (by simpa using h)
    simp only [readRest] at this ⊢
    simp only [List.flatMap_cons, userBlock, blockLines, List.cons_append, List.append_assoc]
    rw [header_start E {} b.1]
    simp only [List.nil_append]
    rw [body_lines E _ b.1 b.2 hb]
    have e : ({} : UsersDb) = ⟨[], 0⟩ := rfl
    rw [e, this]
    simp

/-! ## 4. ignores.conf -/

theorem splitWs_go_word (w rest acc : Str) (hw : ∀ c ∈ w, isSpace c = false) :
    splitWs.go (w ++ rest) acc = splitWs.go rest (w.reverse ++ acc) := by
  induction w generalizing acc with
  | nil => rfl
  | cons c cs ih =>
    have hc : isSpace c = false := hw c (by simp)
    simp only [List.cons_append, splitWs.go, hc, Bool.false_eq_true, if_false]
    rw [ih _ (fun x hx => hw x (by simp [hx]))]
    simp

theorem word_elim {v : Str} (h : word v = true) : v ≠ [] ∧ ∀ c ∈ v, isSpace c = false := by
  simp only [word, Bool.and_eq_true, Bool.not_eq_true', List.isEmpty_eq_false_iff, List.all_eq_true] at h
  exact ⟨h.1, fun c hc => by simpa using h.2 c hc⟩

theorem splitWs_two (a b : Str) (ha : word a = true) (hb : word b = true) :
    splitWs (a ++ ' ' :: b) = [a, b] := by
  obtain ⟨hane, haw⟩ := word_elim ha
  obtain ⟨hbne, hbw⟩ := word_elim hb
  unfold splitWs
  rw [splitWs_go_word a _ [] haw]
  have h1 : (a.reverse ++ ([] : Str)).isEmpty = false := by simpa using hane
  simp only [splitWs.go, isSpace_space, if_true, h1, Bool.false_eq_true, if_false]
  have := splitWs_go_word b [] [] hbw
  simp only [List.append_nil] at this
  rw [this]
  have h2 : b.reverse.isEmpty = false := by simpa using hbne
  simp [splitWs.go, h2]

theorem word_natDec (n : Nat) : word (natDec n) = true := by
  obtain ⟨hne, hd⟩ := natDec_digits n
  simp only [word, Bool.and_eq_true, Bool.not_eq_true', List.isEmpty_eq_false_iff, List.all_eq_true]
  exact ⟨hne, fun c hc => by simp [(digit_props c (hd c hc)).1]⟩

theorem parseFloatNat_natDec (n : Nat) (h : n < 2 ^ 53) : parseFloatNat (natDec n) = .ok n := by
  obtain ⟨hne, hd⟩ := natDec_digits n
  have hs : numStrip (natDec n) = natDec n := by
    unfold numStrip rstripP lstripP
    rw [dropWhile_all_false _ _ (fun c hc => (digit_props c (hd c hc)).2.1)]
    rw [dropWhile_all_false _ _ (fun c hc => (digit_props c (hd c (by simpa using hc))).2.1)]
    simp
  have ha : allDigits (natDec n) = true := by
    simp only [allDigits, Bool.and_eq_true, Bool.not_eq_true', List.all_eq_true]
    exact ⟨by simpa using hne, hd⟩
  have e : natDec n = Nat.toDigits 10 n := rfl
  simp only [parseFloatNat, hs, ha, if_true]
  rw [e, Nat.ofDigitChars_ten_toDigits]
  simp [roundToDouble, h]

theorem word_noBreak {v : Str} (h : word v = true) : ∀ c ∈ v, isBreak c = false := by
  intro c hc
  have := (word_elim h).2 c hc
  cases hb : isBreak c with
  | false => rfl
  | true =>
    simp only [isBreak, Bool.or_eq_true, decide_eq_true_eq] at hb
    rcases hb with rfl | rfl <;> revert this <;> decide

theorem ignoreLine_written (db : IgnoresDb) (p : Str × Nat) (hp : storableIgnore p = true)
    (hnew : ∀ q ∈ db, q.1 ≠ p.1) : ignoreLine db (sp p.1 (natDec p.2)) = db ++ [p] := by
  simp only [storableIgnore, Bool.and_eq_true, bne_iff_ne, ne_eq, decide_eq_true_eq] at hp
  obtain ⟨⟨⟨hw, hh⟩, hhash⟩, hexp⟩ := hp
  obtain ⟨hne, hnsp⟩ := word_elim hw
  obtain ⟨c, cs, hc⟩ : ∃ c cs, p.1 = c :: cs := by
    cases h : p.1 with
    | nil => exact absurd h hne
    | cons c cs => exact ⟨c, cs, rfl⟩
  have hhead : (sp p.1 (natDec p.2)).head? ≠ some '#' := by
    rw [hc] at hhash ⊢; simpa [sp] using hhash
  have hblank : (strip (sp p.1 (natDec p.2))).isEmpty = false :=
    strip_ne_nil _ c (by simp [sp, hc]) (hnsp c (by simp [hc]))
  unfold ignoreLine
  simp only [hhead, if_false, hblank, Bool.false_eq_true]
  rw [show sp p.1 (natDec p.2) = p.1 ++ ' ' :: natDec p.2 from rfl, splitWs_two _ _ hw (word_natDec _)]
  simp only [parseFloatNat_natDec _ hexp, hh, if_true]
  rw [dictSet_new _ _ _ hnew]

theorem foldl_ignoreLine (es acc : IgnoresDb) (hok : ∀ p ∈ es, storableIgnore p = true)
    (hpw : (acc ++ es).Pairwise (fun a b => a.1 ≠ b.1)) :
    (es.map (fun p => sp p.1 (natDec p.2))).foldl ignoreLine acc = acc ++ es := by
  induction es generalizing acc with
  | nil => simp
  | cons p ps ih =>
    have hnew : ∀ q ∈ acc, q.1 ≠ p.1 := fun q hq => (List.pairwise_append.mp hpw).2.2 q hq p (by simp)
    simp only [List.map_cons, List.foldl_cons]
    rw [ignoreLine_written acc p (hok p (by simp)) hnew, ih (acc ++ [p]) (fun q hq => hok q (by simp [hq]))
      (by simpa using hpw)]
    simp

/-- ignores.conf round trip: exactly the unexpired entries come back -/
theorem loadIgnores_dumpIgnores (E : Env) (db : IgnoresDb) (h : storableIgnores E.now db = true) :
    loadIgnores (dumpIgnores E db) = db.filter (unexpired E.now) := by
  simp only [storableIgnores, Bool.and_eq_true, pairwiseB_iff, List.all_eq_true] at h
  obtain ⟨hpw, hall⟩ := h
  have hpw' : (db.filter (unexpired E.now)).Pairwise (fun a b => a.1 ≠ b.1) :=
    (hpw.imp (fun hab => by simpa using hab)).sublist List.filter_sublist
  unfold loadIgnores dumpIgnores
  have hf : (db.filter (fun p => decide (E.now < p.2) || decide (p.2 = 0))) = db.filter (unexpired E.now) := rfl
  rw [hf, fileLines_unlines]
  · have := foldl_ignoreLine (db.filter (unexpired E.now)) [] hall (by simpa using hpw')
    simpa using this
  · intro l hl c hc
    simp only [List.mem_map] at hl
    obtain ⟨p, hp, rfl⟩ := hl
    have hs := hall p hp
    simp only [storableIgnore, Bool.and_eq_true] at hs
    simp only [sp, List.mem_append, List.mem_cons] at hc
    rcases hc with hc | rfl | hc
    · exact word_noBreak hs.1.1.1 c hc
    · decide
    · exact word_noBreak (word_natDec _) c hc

/-! ## 5. networks.conf -/

/-- `Reader.read` from a given loop state on (any creator) -/
def readRestG {σ : Type} (C : Creator σ) (rs : RState σ) (ls : List Str) : σ × Option Err :=
  let r := readLines C rs ls
  match r.2 with
  | some e => (r.1.st, some e)
  | none => if r.1.modified then C.finish r.1.st else (r.1.st, none)

theorem readText_eq {σ : Type} (C : Creator σ) (st : σ) (text : Str) :
    readText C st text = readRestG C { st := st } (fileLines text) := rfl

theorem ircDictSet_new {β : Type} (k : Str) (v : β) (l : List (Str × β))
    (h : ∀ p ∈ l, C03.toLower p.1 ≠ C03.toLower k) : ircDictSet k v l = l ++ [(k, v)] := by
  unfold ircDictSet
  have : l.any (fun p => decide (C03.toLower p.1 = C03.toLower k)) = false := by
    simp only [List.any_eq_false, decide_eq_true_eq]
    exact h
  simp [this]

theorem ircDictSet_last {β : Type} (k : Str) (v v0 : β) (l : List (Str × β))
    (h : ∀ p ∈ l, C03.toLower p.1 ≠ C03.toLower k) : ircDictSet k v (l ++ [(k, v0)]) = l ++ [(k, v)] := by
  unfold ircDictSet
  have h1 : (l ++ [(k, v0)]).any (fun p => decide (C03.toLower p.1 = C03.toLower k)) = true := by simp
  have h2 : l.map (fun p => if C03.toLower p.1 = C03.toLower k then (k, v) else p) = l := by
    rw [List.map_congr_left (g := id)]
    · simp
    · intro p hp
      simp [h p hp]
  simp [h1, h2]

abbrev emptyNet : Net := {}

abbrev nst (name : Str) (net : Net) (db : NetworksDb) : NState := ⟨some name, net, db⟩

theorem kwOk_network : KwOk kwNetwork := ⟨by decide, by decide⟩
theorem kwOk_stsW : KwOk kwStsPolicyW := ⟨by decide, by decide⟩
theorem kwOk_lastW : KwOk kwLastDiscW := ⟨by decide, by decide⟩

theorem clean_words (a b : Str) (ha : word a = true) (hb : word b = true) : clean (sp a b) = true := by
  obtain ⟨hane, haw⟩ := word_elim ha
  obtain ⟨_, hbw⟩ := word_elim hb
  obtain ⟨c, cs, rfl⟩ : ∃ c cs, a = c :: cs := by
    cases a with
    | nil => exact absurd rfl hane
    | cons c cs => exact ⟨c, cs, rfl⟩
  have hc := haw c (by simp)
  simp only [sp, List.cons_append, clean, hc, Bool.not_false, Bool.true_and, noTabBreak, List.all_eq_true,
    Bool.and_eq_true, bne_iff_ne, ne_eq]
  intro x hx
  have hx' : x ∈ c :: cs ∨ x = ' ' ∨ x ∈ b := by
    simp only [List.mem_cons, List.mem_append] at hx ⊢
    rcases hx with h | h | h | h
    · exact Or.inl (Or.inl h)
    · exact Or.inl (Or.inr h)
    · exact Or.inr (Or.inl h)
    · exact Or.inr (Or.inr h)
  have key : ∀ y : Char, isSpace y = false → (¬y = '\t' ∧ ¬y = '\n') ∧ ¬y = '\r' := by
    intro y hy
    refine ⟨⟨?_, ?_⟩, ?_⟩ <;> (intro e; subst e; revert hy; decide)
  rcases hx' with h | rfl | h
  · exact key x (haw x h)
  · decide
  · exact key x (hbw x h)

theorem netCall_network (st : NState) (v : Str) :
    netCall st kwNetwork v = ({ st with nname := some v }, none) := by
  simp [netCall]

theorem netCall_sts (st : NState) (server pol : Str) (hs : word server = true) (hp : word pol = true) :
    netCall st kwStsPolicy (sp server pol) =
      ({ st with net := { st.net with sts := dictSet server pol st.net.sts } }, none) := by
  have : splitWs (sp server pol) = [server, pol] := splitWs_two server pol hs hp
  simp [netCall, kwStsPolicy, kwNetwork, this]

theorem netCall_last (st : NState) (server : Str) (t : Nat) (hs : word server = true) :
    netCall st kwLastDisc (sp server (natDec t)) =
      ({ st with net := { st.net with last := dictSet server t st.net.last } }, none) := by
  have : splitWs (sp server (natDec t)) = [server, natDec t] := splitWs_two server _ hs (word_natDec t)
  simp [netCall, kwStsPolicy, kwNetwork, kwLastDisc, this, parseNat_natDec]

theorem callAll_sts (E : Env) (nm : Str) (db : NetworksDb) (es pre : List (Str × Str)) (net : Net)
    (hr : net.sts = pre) (hok : ∀ p ∈ es, word p.1 = true ∧ word p.2 = true)
    (hpw : (pre ++ es).Pairwise (fun a b => a.1 ≠ b.1)) :
    callAll (netCreator E) (nst nm net db) (es.map (fun p => (kwStsPolicyW, sp p.1 p.2))) =
      (nst nm { net with sts := pre ++ es } db, none) := by
  induction es generalizing pre net with
  | nil => subst hr; simp [callAll]
  | cons p ps ih =>
    have hnew : ∀ q ∈ pre, q.1 ≠ p.1 := fun q hq => (List.pairwise_append.mp hpw).2.2 q hq p (by simp)
    have hlow : asciiLower kwStsPolicyW = kwStsPolicy := by decide
    rw [List.map_cons, callAll_cons_ok (netCreator E) _ (nst nm { net with sts := pre ++ [p] } db) _ _ (by
      show netCall (nst nm net db) (asciiLower kwStsPolicyW) (sp p.1 p.2) = _
      rw [hlow, netCall_sts _ _ _ (hok p (by simp)).1 (hok p (by simp)).2]
      simp only [hr, dictSet_new _ _ _ hnew])]
    have := ih (pre ++ [p]) { net with sts := pre ++ [p] } rfl (fun q hq => hok q (by simp [hq])) (by simpa using hpw)
    rw [this]
    simp

theorem callAll_last (E : Env) (nm : Str) (db : NetworksDb) (es pre : List (Str × Nat)) (net : Net)
    (hr : net.last = pre) (hok : ∀ p ∈ es, word p.1 = true)
    (hpw : (pre ++ es).Pairwise (fun a b => a.1 ≠ b.1)) :
    callAll (netCreator E) (nst nm net db) (es.map (expCmd kwLastDiscW)) =
      (nst nm { net with last := pre ++ es } db, none) := by
  induction es generalizing pre net with
  | nil => subst hr; simp [callAll]
  | cons p ps ih =>
    have hnew : ∀ q ∈ pre, q.1 ≠ p.1 := fun q hq => (List.pairwise_append.mp hpw).2.2 q hq p (by simp)
    have hlow : asciiLower kwLastDiscW = kwLastDisc := by decide
    rw [List.map_cons, callAll_cons_ok (netCreator E) _ (nst nm { net with last := pre ++ [p] } db) _ _ (by
      show netCall (nst nm net db) (asciiLower kwLastDiscW) (sp p.1 (natDec p.2)) = _
      rw [hlow, netCall_last _ _ _ (hok p (by simp))]
      simp only [hr, dictSet_new _ _ _ hnew])]
    have := ih (pre ++ [p]) { net with last := pre ++ [p] } rfl (fun q hq => hok q (by simp [hq])) (by simpa using hpw)
    rw [this]
    simp

structure NetOk (n : Net) : Prop where
  stsDistinct : n.sts.Pairwise (fun a b => a.1 ≠ b.1)
  stsWords : ∀ p ∈ n.sts, word p.1 = true ∧ word p.2 = true
  lastDistinct : n.last.Pairwise (fun a b => a.1 ≠ b.1)
  lastWords : ∀ p ∈ n.last, word p.1 = true
  nonEmpty : n.sts ≠ [] ∨ n.last ≠ []

theorem storableNet_elim {n : Net} (h : storableNet n = true) : NetOk n := by
  simp only [storableNet, Bool.and_eq_true, pairwiseB_iff, List.all_eq_true, Bool.or_eq_true,
    Bool.not_eq_true', List.isEmpty_eq_false_iff, bne_iff_ne, ne_eq] at h
  obtain ⟨⟨⟨⟨h1, h2⟩, h3⟩, h4⟩, h5⟩ := h
  exact ⟨h1, h2, h3, h4, h5⟩

theorem callAll_netCmds (E : Env) (nm : Str) (db : NetworksDb) (n : Net) (h : NetOk n) :
    callAll (netCreator E) (nst nm emptyNet db) (netCmds n) = (nst nm (sortedNet n) db, none) := by
  unfold netCmds
  have s1 := callAll_sts E nm db (sortBy (fun a b => strLe a.1 b.1) n.sts) [] emptyNet rfl
    (fun p hp => h.stsWords p ((mem_sortBy _ _ _).mp hp))
    (by simpa using sortBy_pairwise_ne _ (fun p : Str × Str => p.1) _ h.stsDistinct)
  have s2 := callAll_last E nm db (sortBy (fun a b => strLe a.1 b.1) n.last) []
    { sts := sortBy (fun a b => strLe a.1 b.1) n.sts } rfl
    (fun p hp => h.lastWords p ((mem_sortBy _ _ _).mp hp))
    (by simpa using sortBy_pairwise_ne _ (fun p : Str × Nat => p.1) _ h.lastDistinct)
  simp only [List.nil_append] at s1 s2
  rw [callAll_append, s1]
  simp only [s2, sortedNet]

theorem netCmds_ok {n : Net} (h : NetOk n) : ∀ p ∈ netCmds n, KwOk p.1 ∧ clean p.2 = true := by
  intro p hp
  simp only [netCmds, List.mem_append, List.mem_map, expCmd] at hp
  rcases hp with ⟨q, hq, rfl⟩ | ⟨q, hq, rfl⟩
  · have := h.stsWords q ((mem_sortBy _ _ _).mp hq)
    exact ⟨kwOk_stsW, clean_words _ _ this.1 this.2⟩
  · have := h.lastWords q ((mem_sortBy _ _ _).mp hq)
    exact ⟨kwOk_lastW, clean_words _ _ this (word_natDec _)⟩

theorem netCmds_ne_nil {n : Net} (h : NetOk n) : ∃ p ps, netCmds n = p :: ps := by
  have : netCmds n ≠ [] := by
    simp only [netCmds, ne_eq, List.append_eq_nil_iff, List.map_eq_nil_iff, not_and]
    intro h1 h2
    have e1 : n.sts = [] := by
      have := (sortBy_perm (fun a b : Str × Str => strLe a.1 b.1) n.sts).length_eq
      rw [h1] at this; exact List.length_eq_zero_iff.mp this.symm
    have e2 : n.last = [] := by
      have := (sortBy_perm (fun a b : Str × Nat => strLe a.1 b.1) n.last).length_eq
      rw [h2] at this; exact List.length_eq_zero_iff.mp this.symm
    rcases h.nonEmpty with h | h
    · exact h e1
    · exact h e2
  cases hc : netCmds n with
  | nil => exact absurd hc this
  | cons p ps => exact ⟨p, ps, rfl⟩

def loadedNets (l : NetworksDb) : NetworksDb := l.map (fun p => (p.1, sortedNet p.2))

/-- reader state after the body of record `(nm, n)`: the record is already registered (empty) -/
def rsMidN (nm : Str) (n : Net) (pre : NetworksDb) : RState NState :=
  { hasCreator := true, indent := some 2, modified := true, st := nst nm (sortedNet n) (pre ++ [(nm, emptyNet)]) }

structure NetsOk (E : Env) (l : NetworksDb) : Prop where
  distinct : l.Pairwise (fun a b => C03.toLower a.1 ≠ C03.toLower b.1)
  names : ∀ p ∈ l, clean p.1 = true ∧ E.lower p.1 = p.1
  nets : ∀ p ∈ l, NetOk p.2

theorem netBody (E : Env) (nm : Str) (n : Net) (pre : NetworksDb) (m : Bool) (rest : List Str)
    (hn : NetOk n) (hname : clean nm = true) (hlow : E.lower nm = nm)
    (hnew : ∀ p ∈ pre, C03.toLower p.1 ≠ C03.toLower nm) :
    readLines (netCreator E) { hasCreator := true, indent := some 0, modified := m, st := nst nm emptyNet pre }
        ((netLines n).map indent2 ++ [] :: rest) =
      readLines (netCreator E) (rsMidN nm n pre) rest := by
  have hl : (netLines n).map indent2 = linesAt 2 (netCmds n) := by
    simp [netLines, linesAt, List.map_map, indent2_eq, Function.comp_def]
  obtain ⟨p, ps, hps⟩ := netCmds_ne_nil hn
  have hne : nm.isEmpty = false := by
    obtain ⟨c, cs, hc, _⟩ := clean_elim hname
    rw [hc]; rfl
  have hfin : (netCreator E).finish (nst nm emptyNet pre) = (nst nm emptyNet (pre ++ [(nm, emptyNet)]), none) := by
    show netFinish E (nst nm emptyNet pre) = _
    simp [netFinish, hne, hlow, ircDictSet_new _ _ _ hnew]
  have hbody := readLines_new_indent' (netCreator E)
    { hasCreator := true, indent := some 0, modified := m, st := nst nm emptyNet pre } 2 p ps rfl (by simp) _ hfin
    (by rw [← hps]; exact netCmds_ok hn) (nst nm (sortedNet n) (pre ++ [(nm, emptyNet)]))
    (by
      rw [← hps]
      show callAll (netCreator E) (netNew (nst nm emptyNet (pre ++ [(nm, emptyNet)]))) (netCmds n) = _
      exact callAll_netCmds E nm _ n hn)
  rw [hl, hps, readLines_append, hbody]
  simp only []
  rw [readLines_blank]
  rfl

theorem netFinish_mid (E : Env) (nm : Str) (n : Net) (pre : NetworksDb)
    (hname : clean nm = true) (hlow : E.lower nm = nm)
    (hnew : ∀ p ∈ pre, C03.toLower p.1 ≠ C03.toLower nm) :
    netFinish E (nst nm (sortedNet n) (pre ++ [(nm, emptyNet)])) =
      (nst nm emptyNet (pre ++ [(nm, sortedNet n)]), none) := by
  have hne : nm.isEmpty = false := by
    obtain ⟨c, cs, hc, _⟩ := clean_elim hname
    rw [hc]; rfl
  simp [netFinish, hne, hlow, ircDictSet_last _ _ _ _ hnew]

theorem load_rest_nets (E : Env) (bs : NetworksDb) (pre : NetworksDb) (nm : Str) (n : Net)
    (hst : NetsOk E (pre ++ (nm, n) :: bs)) :
    (readRestG (netCreator E) (rsMidN nm n (loadedNets pre)) (bs.flatMap netBlock)).1.db =
        loadedNets (pre ++ (nm, n) :: bs) ∧
    (readRestG (netCreator E) (rsMidN nm n (loadedNets pre)) (bs.flatMap netBlock)).2 = none := by
  have hkeys : ∀ (l : NetworksDb) (k : Str), (∀ p ∈ l, C03.toLower p.1 ≠ C03.toLower k) →
      ∀ p ∈ loadedNets l, C03.toLower p.1 ≠ C03.toLower k := by
    intro l k h p hp
    simp only [loadedNets, List.mem_map] at hp
    obtain ⟨q, hq, rfl⟩ := hp
    exact h q hq
  have hcross := (List.pairwise_append.mp hst.distinct).2.2
  have hnm := hst.names (nm, n) (by simp)
  have hnew : ∀ p ∈ loadedNets pre, C03.toLower p.1 ≠ C03.toLower nm :=
    hkeys pre nm (fun p hp => hcross p hp (nm, n) (by simp))
  induction bs generalizing pre nm n with
  | nil =>
    simp only [List.flatMap_nil, readRestG, readLines, rsMidN, if_true]
    show (netFinish E _).1.db = _ ∧ (netFinish E _).2 = none
    rw [netFinish_mid E nm n _ hnm.1 hnm.2 hnew]
    simp [loadedNets]
  | cons b bs ih =>
    have hst' : NetsOk E ((pre ++ [(nm, n)]) ++ (b.1, b.2) :: bs) := by
      have e : (pre ++ [(nm, n)]) ++ (b.1, b.2) :: bs = pre ++ (nm, n) :: b :: bs := by simp
      rw [e]; exact hst
    have hb := hst.names b (by simp)
    have hbn := hst.nets b (by simp)
    have hcross' := (List.pairwise_append.mp hst'.distinct).2.2
    have hnewb : ∀ p ∈ loadedNets (pre ++ [(nm, n)]), C03.toLower p.1 ≠ C03.toLower b.1 :=
      hkeys _ b.1 (fun p hp => hcross' p hp (b.1, b.2) (by simp))
    have := ih (pre ++ [(nm, n)]) b.1 b.2 hst' hcross' hb hnewb
    have e2 : loadedNets (pre ++ [(nm, n)]) = loadedNets pre ++ [(nm, sortedNet n)] := by simp [loadedNets]
    simp only [readRestG] at this ⊢
    simp only [List.flatMap_cons, netBlock, blockLines, List.cons_append, List.append_assoc, List.nil_append]
    have hhdr := readLines_next_header (netCreator E) (rsMidN nm n (loadedNets pre)) kwNetwork b.1
      ((netLines b.2).map indent2 ++ [] :: bs.flatMap netBlock) rfl (by simp [rsMidN]) kwOk_network hb.1
      (nst nm emptyNet (loadedNets pre ++ [(nm, sortedNet n)])) (nst b.1 emptyNet (loadedNets pre ++ [(nm, sortedNet n)]))
      (by
        exact netFinish_mid E nm n _ hnm.1 hnm.2 hnew)
      (by
        have hl : asciiLower kwNetwork = kwNetwork := by decide
        show netCall (netNew _) (asciiLower kwNetwork) b.1 = _
        rw [hl, netCall_network]
        rfl)
    rw [hhdr, netBody E b.1 b.2 _ true _ hbn hb.1 hb.2 (by rw [← e2]; exact hnewb), ← e2]
    have e3 : pre ++ (nm, n) :: b :: bs = (pre ++ [(nm, n)]) ++ (b.1, b.2) :: bs := by simp
    rw [e3]
    exact this

theorem sp_noBreak (kw v : Str) (hk : KwOk kw) (hv : clean v = true) : ∀ c ∈ sp kw v, isBreak c = false := by
  intro c hc
  obtain ⟨_, _, _, _, hall⟩ := clean_elim hv
  simp only [sp, List.mem_append, List.mem_cons] at hc
  rcases hc with hc | rfl | hc
  · have := hk.nosp c hc
    cases hb : isBreak c with
    | false => rfl
    | true =>
      simp only [isBreak, Bool.or_eq_true, decide_eq_true_eq] at hb
      rcases hb with rfl | rfl <;> revert this <;> decide
  · decide
  · have := hall c hc
    simp [isBreak, this.2.1, this.2.2]

theorem block_noBreak (kw name : Str) (cmds : List (Str × Str)) (hk : KwOk kw) (hn : clean name = true)
    (hc : ∀ p ∈ cmds, KwOk p.1 ∧ clean p.2 = true) :
    ∀ l ∈ blockLines (sp kw name) (cmds.map cmdLine), ∀ c ∈ l, isBreak c = false := by
  intro l hl c hcl
  simp only [blockLines, List.mem_cons, List.mem_append, List.mem_map, List.not_mem_nil, or_false] at hl
  rcases hl with (rfl | ⟨q, ⟨r, hr, rfl⟩, rfl⟩) | rfl
  · exact sp_noBreak _ _ hk hn c hcl
  · simp only [indent2, List.mem_cons] at hcl
    rcases hcl with rfl | rfl | hcl
    · decide
    · decide
    · exact sp_noBreak _ _ (hc r hr).1 (hc r hr).2 c hcl
  · cases hcl

theorem storableNets_elim {E : Env} {db : NetworksDb} (h : storableNets E db = true) :
    NetsOk E (sortedNets db) := by
  simp only [storableNets, Bool.and_eq_true, pairwiseB_iff, List.all_eq_true, bne_iff_ne, ne_eq,
    beq_iff_eq] at h
  exact ⟨h.1, fun p hp => ⟨(h.2 p hp).1.1, (h.2 p hp).1.2⟩, fun p hp => storableNet_elim (h.2 p hp).2⟩

/-- networks.conf round trip -/
theorem loadNetworks_dumpNetworks (E : Env) (nname0 : Option Str) (db : NetworksDb)
    (h : storableNets E db = true) :
    (loadNetworks E nname0 (dumpNetworks db)).1.db = loadedNets (sortedNets db) ∧
    (loadNetworks E nname0 (dumpNetworks db)).2 = none := by
  have hok := storableNets_elim h
  have hlines : fileLines (dumpNetworks db) = (sortedNets db).flatMap netBlock := by
    unfold dumpNetworks
    apply fileLines_unlines
    intro l hl
    simp only [List.mem_flatMap] at hl
    obtain ⟨p, hp, hl⟩ := hl
    exact block_noBreak kwNetwork p.1 (netCmds p.2) kwOk_network (hok.names p hp).1
      (netCmds_ok (hok.nets p hp)) l hl
  unfold loadNetworks
  rw [readText_eq, hlines]
  cases hs : sortedNets db with
  | nil => simp [readRestG, readLines, loadedNets]
  | cons b bs =>
    rw [hs] at hok
    have hb := hok.names b (by simp)
    have hbn := hok.nets b (by simp)
    have := load_rest_nets E bs [] b.1 b.2 (by simpa using hok)
    simp only [readRestG] at this ⊢
    simp only [List.flatMap_cons, netBlock, blockLines, List.cons_append, List.append_assoc, List.nil_append]
    have hhdr := readLines_first_header (netCreator E) (⟨nname0, {}, []⟩ : NState) kwNetwork b.1
      ((netLines b.2).map indent2 ++ [] :: bs.flatMap netBlock) kwOk_network hb.1 (nst b.1 emptyNet [])
      (by
        have hl : asciiLower kwNetwork = kwNetwork := by decide
        show netCall (netNew _) (asciiLower kwNetwork) b.1 = _
        rw [hl, netCall_network]
        rfl)
    rw [hhdr, netBody E b.1 b.2 [] true _ hbn hb.1 hb.2 (by simp)]
    simpa [loadedNets] using this

/-! ## 6. channels.conf -/

/-! ### the capability set a reload builds -/

theorem capAdd_val (s : List Str) (c i : Str) (hl : C03.toLower c = c) (hi : C03.invertCapability c = .ok i) :
    capAdd s c = (C03.CapSet.insert (C03.CapSet.erase s i) c, none) := by
  simp [capAdd, liftR, C03.CapSet.add, hl, hi]

theorem mem_capInsert (s : List Str) (c x : Str) : x ∈ C03.CapSet.insert s c ↔ x = c ∨ x ∈ s := by
  unfold C03.CapSet.insert
  by_cases h : c ∈ s
  · simp only [h, if_true]
    constructor
    · exact Or.inr
    · rintro (rfl | hx)
      · exact h
      · exact hx
  · simp only [h, if_false, List.mem_append, List.mem_singleton]
    constructor
    · rintro (hx | hx)
      · exact Or.inr hx
      · exact Or.inl hx
    · rintro (hx | hx)
      · exact Or.inr hx
      · exact Or.inl hx

theorem mem_capErase (s : List Str) (i x : Str) : x ∈ C03.CapSet.erase s i ↔ x ∈ s ∧ x ≠ i := by
  simp [C03.CapSet.erase]

theorem nodup_capAddVal (s : List Str) (c i : Str) (h : s.Nodup) :
    (C03.CapSet.insert (C03.CapSet.erase s i) c).Nodup := by
  have h1 : (C03.CapSet.erase s i).Nodup := by
    unfold C03.CapSet.erase
    exact h.sublist List.filter_sublist
  unfold C03.CapSet.insert
  by_cases hc : c ∈ C03.CapSet.erase s i
  · simp [hc, h1]
  · simp only [hc, if_false]
    rw [List.nodup_append]
    refine ⟨h1, by simp, ?_⟩
    intro a ha b hb
    simp only [List.mem_singleton] at hb
    subst hb
    intro e; subst e; exact hc ha

/-- hypothesis on a list of written capabilities: lower-cased, invertible, inverse not written -/
def CapsInv (cs : List Str) : Prop :=
  ∀ c ∈ cs, C03.toLower c = c ∧ ∃ i, C03.invertCapability c = .ok i ∧ i ∉ cs

theorem CapsInv_tail {c : Str} {cs : List Str} (h : CapsInv (c :: cs)) : CapsInv cs := by
  intro x hx
  obtain ⟨hl, i, hi, hni⟩ := h x (by simp [hx])
  exact ⟨hl, i, hi, fun hm => hni (by simp [hm])⟩

theorem foldAdd_mem (cs s : List Str) (h : CapsInv cs) (x : Str) :
    x ∈ cs.foldl (fun s c => (capAdd s c).1) s ↔
      (x ∈ s ∧ ∀ c ∈ cs, C03.invertCapability c ≠ .ok x) ∨ x ∈ cs := by
  induction cs generalizing s with
  | nil => simp
  | cons c cs ih =>
    obtain ⟨hl, i, hi, hni⟩ := h c (by simp)
    simp only [List.foldl_cons]
    rw [capAdd_val s c i hl hi]
    rw [ih _ (CapsInv_tail h), mem_capInsert, mem_capErase]
    constructor
    · rintro (⟨(rfl | ⟨hxs, hxi⟩), hall⟩ | hx)
      · exact Or.inr (by simp)
      · left
        refine ⟨hxs, ?_⟩
        intro c' hc'
        rcases List.mem_cons.mp hc' with rfl | hc'
        · rw [hi]; intro e; injection e with e; exact hxi e.symm
        · exact hall c' hc'
      · exact Or.inr (by simp [hx])
    · rintro (⟨hxs, hall⟩ | hx)
      · left
        refine ⟨Or.inr ⟨hxs, ?_⟩, fun c' hc' => hall c' (by simp [hc'])⟩
        intro e; subst e; exact hall c (by simp) hi
      · rcases List.mem_cons.mp hx with rfl | hx
        · left
          refine ⟨Or.inl rfl, ?_⟩
          intro c' hc'
          obtain ⟨_, i', hi', hni'⟩ := h c' (by simp [hc'])
          rw [hi']; intro e; injection e with e
          exact hni' (by simp [e])
        · exact Or.inr hx

theorem foldAdd_nodup (cs s : List Str) (h : CapsInv cs) (hs : s.Nodup) :
    (cs.foldl (fun s c => (capAdd s c).1) s).Nodup := by
  induction cs generalizing s with
  | nil => simpa
  | cons c cs ih =>
    obtain ⟨hl, i, hi, _⟩ := h c (by simp)
    simp only [List.foldl_cons]
    rw [capAdd_val s c i hl hi]
    exact ih _ (CapsInv_tail h) (nodup_capAddVal s c i hs)

theorem foldAdd_noerr (E : Env) (cs : List Str) (h : CapsInv cs) (st : CState) (hn : st.cname.isSome = true) :
    callAll (chanCreator E) st (cs.map (fun c => (kwCapability, c))) =
      ({ st with c := { st.c with caps := cs.foldl (fun s c => (capAdd s c).1) st.c.caps } }, none) := by
  induction cs generalizing st with
  | nil => simp [callAll]
  | cons c cs ih =>
    obtain ⟨hl, i, hi, _⟩ := h c (by simp)
    have hlow : asciiLower kwCapability = kwCapability := by decide
    have hcn : st.cname.isNone = false := by
      cases hc : st.cname with
      | none => simp [hc] at hn
      | some _ => rfl
    rw [List.map_cons, callAll_cons_ok (chanCreator E) _
      { st with c := { st.c with caps := (capAdd st.c.caps c).1 } } _ _ (by
        show chanCall st (asciiLower kwCapability) c = _
        rw [hlow]
        simp [chanCall, withCname, hcn, kwCapability, kwChannel, kwLobotomized, kwDefaultAllow,
          capAdd_val _ c i hl hi])]
    have := ih (CapsInv_tail h) { st with c := { st.c with caps := (capAdd st.c.caps c).1 } } hn
    rw [this]
    simp

theorem capsOk_CapsInv {caps : List Str} (h : capsOk caps = true) : CapsInv caps := by
  intro c hc
  obtain ⟨_, hl, i, hi, hni⟩ := (capsOk_elim h).2 c hc
  exact ⟨hl, i, hi, hni⟩

theorem defaultChanCaps_nodup : defaultChanCaps.Nodup := by decide

/-- **the reloaded capability list is the written set**: no duplicates, same members -/
theorem loadedCaps_equiv (caps : List Str) (h : chanCapsOk caps = true) :
    (loadedCaps caps).Nodup ∧ ∀ x, x ∈ loadedCaps caps ↔ x ∈ caps := by
  simp only [chanCapsOk, Bool.and_eq_true, List.all_eq_true, Bool.or_eq_true, List.contains_eq_mem,
    decide_eq_true_eq, List.any_eq_true] at h
  obtain ⟨hc, hd⟩ := h
  have hinv := capsOk_CapsInv hc
  refine ⟨foldAdd_nodup caps _ hinv defaultChanCaps_nodup, ?_⟩
  intro x
  unfold loadedCaps
  rw [foldAdd_mem caps _ hinv x]
  constructor
  · rintro (⟨hxd, hall⟩ | hx)
    · rcases hd x hxd with hx | ⟨c, hc', hm⟩
      · exact hx
      · exfalso
        cases hi : C03.invertCapability c with
        | error e => simp [hi] at hm
        | ok i =>
          simp only [hi, beq_iff_eq] at hm
          subst hm
          exact hall c hc' hi
    · exact hx
  · exact Or.inr

/-! ### a channel record through the reader -/

theorem kwOk_channel : KwOk kwChannel := ⟨by decide, by decide⟩
theorem kwOk_lobotomized : KwOk kwLobotomized := ⟨by decide, by decide⟩
theorem kwOk_defaultAllowW : KwOk kwDefaultAllowW := ⟨by decide, by decide⟩
theorem kwOk_ban : KwOk kwBan := ⟨by decide, by decide⟩

/-- creator state while the body of channel `nm` is read -/
abbrev cst (nm : Str) (c : Chan) (db : ChannelsDb) : CState := ⟨some nm, c, true, db⟩

theorem chanCall_lobotomized (nm : Str) (c : Chan) (db : ChannelsDb) (b : Bool) :
    chanCall (cst nm c db) kwLobotomized (boolStr b) = (cst nm { c with lobotomized := b } db, none) := by
  simp [chanCall, withCname, evalBool_boolStr, kwChannel, kwLobotomized]

theorem chanCall_defaultAllow (nm : Str) (c : Chan) (db : ChannelsDb) (b : Bool) :
    chanCall (cst nm c db) kwDefaultAllow (boolStr b) = (cst nm { c with defaultAllow := b } db, none) := by
  simp [chanCall, withCname, evalBool_boolStr, kwChannel, kwLobotomized, kwDefaultAllow]

theorem expField_written (m : Str) (e : Nat) (hm : word m = true) (he : e < 2 ^ 53) :
    expField (sp m (natDec e)) = .ok (m, e) := by
  have : splitWs (sp m (natDec e)) = [m, natDec e] := splitWs_two m _ hm (word_natDec e)
  simp [expField, this, parseFloatNat_natDec e he]

theorem chanCall_ban (nm : Str) (c : Chan) (db : ChannelsDb) (m : Str) (e : Nat)
    (hm : word m = true) (he : e < 2 ^ 53) :
    chanCall (cst nm c db) kwBan (sp m (natDec e)) = (cst nm { c with bans := dictSet m e c.bans } db, none) := by
  simp [chanCall, withCname, expField_written m e hm he, kwChannel, kwLobotomized, kwDefaultAllow,
    kwCapability, kwBan]

theorem chanCall_ignore (nm : Str) (c : Chan) (db : ChannelsDb) (m : Str) (e : Nat)
    (hm : word m = true) (he : e < 2 ^ 53) :
    chanCall (cst nm c db) kwIgnore (sp m (natDec e)) =
      (cst nm { c with ignores := dictSet m e c.ignores } db, none) := by
  simp [chanCall, withCname, expField_written m e hm he, kwChannel, kwLobotomized, kwDefaultAllow,
    kwCapability, kwBan, kwIgnore]

theorem callAll_bans (E : Env) (nm : Str) (db : ChannelsDb) (es pre : List (Str × Nat)) (c : Chan)
    (hr : c.bans = pre) (hok : ∀ p ∈ es, word p.1 = true ∧ p.2 < 2 ^ 53)
    (hpw : (pre ++ es).Pairwise (fun a b => a.1 ≠ b.1)) :
    callAll (chanCreator E) (cst nm c db) (es.map (expCmd kwBan)) =
      (cst nm { c with bans := pre ++ es } db, none) := by
  induction es generalizing pre c with
  | nil => subst hr; simp [callAll]
  | cons p ps ih =>
    have hnew : ∀ q ∈ pre, q.1 ≠ p.1 := fun q hq => (List.pairwise_append.mp hpw).2.2 q hq p (by simp)
    have hlow : asciiLower kwBan = kwBan := by decide
    rw [List.map_cons, callAll_cons_ok (chanCreator E) _ (cst nm { c with bans := pre ++ [p] } db) _ _ (by
      show chanCall (cst nm c db) (asciiLower kwBan) (sp p.1 (natDec p.2)) = _
      rw [hlow, chanCall_ban _ _ _ _ _ (hok p (by simp)).1 (hok p (by simp)).2]
      simp only [hr, dictSet_new _ _ _ hnew])]
    have := ih (pre ++ [p]) { c with bans := pre ++ [p] } rfl (fun q hq => hok q (by simp [hq])) (by simpa using hpw)
    rw [this]
    simp

theorem callAll_chanIgnores (E : Env) (nm : Str) (db : ChannelsDb) (es pre : List (Str × Nat)) (c : Chan)
    (hr : c.ignores = pre) (hok : ∀ p ∈ es, word p.1 = true ∧ p.2 < 2 ^ 53)
    (hpw : (pre ++ es).Pairwise (fun a b => a.1 ≠ b.1)) :
    callAll (chanCreator E) (cst nm c db) (es.map (expCmd kwIgnore)) =
      (cst nm { c with ignores := pre ++ es } db, none) := by
  induction es generalizing pre c with
  | nil => subst hr; simp [callAll]
  | cons p ps ih =>
    have hnew : ∀ q ∈ pre, q.1 ≠ p.1 := fun q hq => (List.pairwise_append.mp hpw).2.2 q hq p (by simp)
    have hlow : asciiLower kwIgnore = kwIgnore := by decide
    rw [List.map_cons, callAll_cons_ok (chanCreator E) _ (cst nm { c with ignores := pre ++ [p] } db) _ _ (by
      show chanCall (cst nm c db) (asciiLower kwIgnore) (sp p.1 (natDec p.2)) = _
      rw [hlow, chanCall_ignore _ _ _ _ _ (hok p (by simp)).1 (hok p (by simp)).2]
      simp only [hr, dictSet_new _ _ _ hnew])]
    have := ih (pre ++ [p]) { c with ignores := pre ++ [p] } rfl (fun q hq => hok q (by simp [hq])) (by simpa using hpw)
    rw [this]
    simp

structure ExpsOk (l : List (Str × Nat)) : Prop where
  distinct : l.Pairwise (fun a b => a.1 ≠ b.1)
  ok : ∀ p ∈ l, word p.1 = true ∧ p.2 < 2 ^ 53

theorem expsOk_elim {l : List (Str × Nat)} (h : expsOk l = true) : ExpsOk l := by
  simp only [expsOk, Bool.and_eq_true, pairwiseB_iff, List.all_eq_true, decide_eq_true_eq, bne_iff_ne, ne_eq] at h
  exact ⟨h.1, h.2⟩

theorem ExpsOk_sorted {l : List (Str × Nat)} (h : ExpsOk l) : ExpsOk (sortByExp l) :=
  ⟨sortBy_pairwise_ne _ (fun p : Str × Nat => p.1) _ h.distinct, fun p hp => h.ok p ((mem_sortBy _ _ _).mp hp)⟩

structure ChanOk (c : Chan) : Prop where
  caps : chanCapsOk c.caps = true
  bans : ExpsOk c.bans
  ignores : ExpsOk c.ignores

theorem storableChan_elim {c : Chan} (h : storableChan c = true) : ChanOk c := by
  simp only [storableChan, Bool.and_eq_true] at h
  exact ⟨h.1.1, expsOk_elim h.1.2, expsOk_elim h.2⟩

theorem chanCapsOk_capsOk {caps : List Str} (h : chanCapsOk caps = true) : capsOk caps = true := by
  simp only [chanCapsOk, Bool.and_eq_true] at h
  exact h.1

theorem callAll_chanCmds (E : Env) (nm : Str) (db : ChannelsDb) (c : Chan) (h : ChanOk c) :
    callAll (chanCreator E) (cst nm freshChan db) (chanCmds c) = (cst nm (loadedChan c) db, none) := by
  unfold chanCmds
  have l1 : asciiLower kwLobotomized = kwLobotomized := by decide
  have l2 : asciiLower kwDefaultAllowW = kwDefaultAllow := by decide
  have s1 : callAll (chanCreator E) (cst nm freshChan db)
      [(kwLobotomized, boolStr c.lobotomized), (kwDefaultAllowW, boolStr c.defaultAllow)] =
      (cst nm { freshChan with lobotomized := c.lobotomized, defaultAllow := c.defaultAllow } db, none) := by
    rw [callAll_cons_ok (chanCreator E) _ (cst nm { freshChan with lobotomized := c.lobotomized } db) _ _ (by
        dsimp only [chanCreator]
        rw [l1, chanCall_lobotomized]),
      callAll_cons_ok (chanCreator E) _
        (cst nm { freshChan with lobotomized := c.lobotomized, defaultAllow := c.defaultAllow } db) _ _ (by
        dsimp only [chanCreator]
        rw [l2, chanCall_defaultAllow])]
    rfl
  have s2 := foldAdd_noerr E c.caps (capsOk_CapsInv (chanCapsOk_capsOk h.caps))
    (cst nm { freshChan with lobotomized := c.lobotomized, defaultAllow := c.defaultAllow } db) rfl
  have hb := ExpsOk_sorted h.bans
  have hi := ExpsOk_sorted h.ignores
  have s3 := callAll_bans E nm db (sortByExp c.bans) []
    { lobotomized := c.lobotomized, defaultAllow := c.defaultAllow, caps := loadedCaps c.caps } rfl hb.ok
    (by simpa using hb.distinct)
  have s4 := callAll_chanIgnores E nm db (sortByExp c.ignores) []
    { lobotomized := c.lobotomized, defaultAllow := c.defaultAllow, caps := loadedCaps c.caps,
      bans := sortByExp c.bans } rfl hi.ok (by simpa using hi.distinct)
  simp only [List.nil_append] at s3 s4
  rw [callAll_append, callAll_append, callAll_append, s1]
  simp only [s2]
  have e : ({ cst nm { freshChan with lobotomized := c.lobotomized, defaultAllow := c.defaultAllow } db with
      c := { ({ freshChan with lobotomized := c.lobotomized, defaultAllow := c.defaultAllow } : Chan) with
        caps := c.caps.foldl (fun s c => (capAdd s c).1)
          ({ freshChan with lobotomized := c.lobotomized, defaultAllow := c.defaultAllow } : Chan).caps } } : CState) =
      cst nm { lobotomized := c.lobotomized, defaultAllow := c.defaultAllow, caps := loadedCaps c.caps } db := rfl
  rw [e]
  simp only [sortByExp] at s3 s4
  simp only [s3, s4, loadedChan, sortByExp]

theorem chanCmds_ok {c : Chan} (h : ChanOk c) : ∀ p ∈ chanCmds c, KwOk p.1 ∧ clean p.2 = true := by
  intro p hp
  simp only [chanCmds, List.mem_append, List.mem_cons, List.mem_map, List.not_mem_nil, or_false, expCmd] at hp
  rcases hp with (((rfl | rfl) | ⟨x, hx, rfl⟩) | ⟨q, hq, rfl⟩) | ⟨q, hq, rfl⟩
  · exact ⟨kwOk_lobotomized, clean_boolStr _⟩
  · exact ⟨kwOk_defaultAllowW, clean_boolStr _⟩
  · exact ⟨kwOk_capability, ((capsOk_elim (chanCapsOk_capsOk h.caps)).2 x hx).1⟩
  · have := h.bans.ok q ((mem_sortBy _ _ _).mp hq)
    exact ⟨kwOk_ban, clean_words _ _ this.1 (word_natDec _)⟩
  · have := h.ignores.ok q ((mem_sortBy _ _ _).mp hq)
    exact ⟨kwOk_ignore, clean_words _ _ this.1 (word_natDec _)⟩

def loadedChans (l : ChannelsDb) : ChannelsDb := l.map (fun p => (p.1, loadedChan p.2))

/-- reader state after the body of channel `(nm, c)` -/
def rsMidC (nm : Str) (c : Chan) (pre : ChannelsDb) : RState CState :=
  { hasCreator := true, indent := some 2, modified := true, st := cst nm (loadedChan c) pre }

structure ChansOk (E : Env) (l : ChannelsDb) : Prop where
  distinct : l.Pairwise (fun a b => C03.toLower a.1 ≠ C03.toLower b.1)
  names : ∀ p ∈ l, clean p.1 = true ∧ E.lower p.1 = p.1
  chans : ∀ p ∈ l, ChanOk p.2

theorem chanBody (E : Env) (nm : Str) (c : Chan) (pre : ChannelsDb) (m : Bool) (c0 : Chan) (rest : List Str)
    (hc : ChanOk c) (hname : clean nm = true) :
    readLines (chanCreator E)
        { hasCreator := true, indent := some 0, modified := m, st := ⟨some nm, c0, false, pre⟩ }
        ((chanLines c).map indent2 ++ [] :: rest) =
      readLines (chanCreator E) (rsMidC nm c pre) rest := by
  have hl : (chanLines c).map indent2 = linesAt 2 (chanCmds c) := by
    simp [chanLines, linesAt, List.map_map, indent2_eq, Function.comp_def]
  obtain ⟨p, ps, hps⟩ : ∃ p ps, chanCmds c = p :: ps := ⟨(kwLobotomized, boolStr c.lobotomized), _, rfl⟩
  have hne : nm.isEmpty = false := by
    obtain ⟨x, xs, hx, _⟩ := clean_elim hname
    rw [hx]; rfl
  have hfin : (chanCreator E).finish (⟨some nm, c0, false, pre⟩ : CState) = (⟨some nm, c0, false, pre⟩, none) := by
    dsimp only [chanCreator]
    simp [chanFinish]
  have hbody := readLines_new_indent' (chanCreator E)
    { hasCreator := true, indent := some 0, modified := m, st := ⟨some nm, c0, false, pre⟩ } 2 p ps rfl (by simp) _ hfin
    (by rw [← hps]; exact chanCmds_ok hc) (cst nm (loadedChan c) pre)
    (by
      rw [← hps]
      show callAll (chanCreator E) (chanNew ⟨some nm, c0, false, pre⟩) (chanCmds c) = _
      have : chanNew ⟨some nm, c0, false, pre⟩ = cst nm freshChan pre := by simp [chanNew, hne]
      rw [this]
      exact callAll_chanCmds E nm pre c hc)
  rw [hl, hps, readLines_append, hbody]
  simp only []
  rw [readLines_blank]
  rfl

theorem chanFinish_mid (E : Env) (nm : Str) (c : Chan) (pre : ChannelsDb) (hlow : E.lower nm = nm)
    (hnew : ∀ p ∈ pre, C03.toLower p.1 ≠ C03.toLower nm) :
    chanFinish E (cst nm c pre) = (⟨none, c, true, pre ++ [(nm, c)]⟩, none) := by
  simp [chanFinish, hlow, ircDictSet_new _ _ _ hnew]

theorem load_rest_chans (E : Env) (bs : ChannelsDb) (pre : ChannelsDb) (nm : Str) (c : Chan)
    (hst : ChansOk E (pre ++ (nm, c) :: bs)) :
    (readRestG (chanCreator E) (rsMidC nm c (loadedChans pre)) (bs.flatMap chanBlock)).1.db =
        loadedChans (pre ++ (nm, c) :: bs) ∧
    (readRestG (chanCreator E) (rsMidC nm c (loadedChans pre)) (bs.flatMap chanBlock)).1.cname = none ∧
    (readRestG (chanCreator E) (rsMidC nm c (loadedChans pre)) (bs.flatMap chanBlock)).2 = none := by
  have hkeys : ∀ (l : ChannelsDb) (k : Str), (∀ p ∈ l, C03.toLower p.1 ≠ C03.toLower k) →
      ∀ p ∈ loadedChans l, C03.toLower p.1 ≠ C03.toLower k := by
    intro l k h p hp
    simp only [loadedChans, List.mem_map] at hp
    obtain ⟨q, hq, rfl⟩ := hp
    exact h q hq
  have hcross := (List.pairwise_append.mp hst.distinct).2.2
  have hnm := hst.names (nm, c) (by simp)
  have hnew : ∀ p ∈ loadedChans pre, C03.toLower p.1 ≠ C03.toLower nm :=
    hkeys pre nm (fun p hp => hcross p hp (nm, c) (by simp))
  induction bs generalizing pre nm c with
  | nil =>
    simp only [List.flatMap_nil, readRestG, readLines, rsMidC, if_true]
    show (chanFinish E _).1.db = _ ∧ (chanFinish E _).1.cname = none ∧ (chanFinish E _).2 = none
    rw [chanFinish_mid E nm _ _ hnm.2 hnew]
    simp [loadedChans]
  | cons b bs ih =>
    have hst' : ChansOk E ((pre ++ [(nm, c)]) ++ (b.1, b.2) :: bs) := by
      have e : (pre ++ [(nm, c)]) ++ (b.1, b.2) :: bs = pre ++ (nm, c) :: b :: bs := by simp
      rw [e]; exact hst
    have hb := hst.names b (by simp)
    have hbc := hst.chans b (by simp)
    have hcross' := (List.pairwise_append.mp hst'.distinct).2.2
    have hnewb : ∀ p ∈ loadedChans (pre ++ [(nm, c)]), C03.toLower p.1 ≠ C03.toLower b.1 :=
      hkeys _ b.1 (fun p hp => hcross' p hp (b.1, b.2) (by simp))
    have := ih (pre ++ [(nm, c)]) b.1 b.2 hst' hcross' hb hnewb
    have e2 : loadedChans (pre ++ [(nm, c)]) = loadedChans pre ++ [(nm, loadedChan c)] := by simp [loadedChans]
    simp only [readRestG] at this ⊢
    simp only [List.flatMap_cons, chanBlock, blockLines, List.cons_append, List.append_assoc, List.nil_append]
    have hhdr := readLines_next_header (chanCreator E) (rsMidC nm c (loadedChans pre)) kwChannel b.1
      ((chanLines b.2).map indent2 ++ [] :: bs.flatMap chanBlock) rfl (by simp [rsMidC]) kwOk_channel hb.1
      (⟨none, loadedChan c, true, loadedChans pre ++ [(nm, loadedChan c)]⟩ : CState)
      (⟨some b.1, freshChan, false, loadedChans pre ++ [(nm, loadedChan c)]⟩ : CState)
      (chanFinish_mid E nm _ _ hnm.2 hnew)
      (by
        have hl : asciiLower kwChannel = kwChannel := by decide
        dsimp only [chanCreator]
        rw [hl]
        simp [chanCall, chanNew])
    rw [hhdr, chanBody E b.1 b.2 _ true _ _ hbc hb.1, ← e2]
    have e3 : pre ++ (nm, c) :: b :: bs = (pre ++ [(nm, c)]) ++ (b.1, b.2) :: bs := by simp
    rw [e3]
    exact this

theorem storableChans_elim {E : Env} {db : ChannelsDb} (h : storableChans E db = true) :
    ChansOk E (sortedChans db) := by
  simp only [storableChans, Bool.and_eq_true, pairwiseB_iff, List.all_eq_true, bne_iff_ne, ne_eq,
    beq_iff_eq] at h
  exact ⟨h.1, fun p hp => ⟨(h.2 p hp).1.1, (h.2 p hp).1.2⟩, fun p hp => storableChan_elim (h.2 p hp).2⟩

/-- channels.conf round trip -/
theorem loadChannels_dumpChannels (E : Env) (db : ChannelsDb) (h : storableChans E db = true) :
    (loadChannels E none (dumpChannels db)).1.db = loadedChans (sortedChans db) ∧
    (loadChannels E none (dumpChannels db)).1.cname = none ∧
    (loadChannels E none (dumpChannels db)).2 = none := by
  have hok := storableChans_elim h
  have hlines : fileLines (dumpChannels db) = (sortedChans db).flatMap chanBlock := by
    unfold dumpChannels
    apply fileLines_unlines
    intro l hl
    simp only [List.mem_flatMap] at hl
    obtain ⟨p, hp, hl⟩ := hl
    exact block_noBreak kwChannel p.1 (chanCmds p.2) kwOk_channel (hok.names p hp).1
      (chanCmds_ok (hok.chans p hp)) l hl
  unfold loadChannels
  rw [readText_eq, hlines]
  cases hs : sortedChans db with
  | nil => simp [readRestG, readLines, loadedChans]
  | cons b bs =>
    rw [hs] at hok
    have hb := hok.names b (by simp)
    have hbc := hok.chans b (by simp)
    have := load_rest_chans E bs [] b.1 b.2 (by simpa using hok)
    simp only [readRestG] at this ⊢
    simp only [List.flatMap_cons, chanBlock, blockLines, List.cons_append, List.append_assoc, List.nil_append]
    have hhdr := readLines_first_header (chanCreator E) ({ cname := none } : CState) kwChannel b.1
      ((chanLines b.2).map indent2 ++ [] :: bs.flatMap chanBlock) kwOk_channel hb.1
      (⟨some b.1, freshChan, false, []⟩ : CState)
      (by
        have hl : asciiLower kwChannel = kwChannel := by decide
        dsimp only [chanCreator]
        rw [hl]
        simp [chanCall, chanNew])
    rw [hhdr, chanBody E b.1 b.2 [] true _ _ hbc hb.1]
    simpa [loadedChans] using this

end C16
