/-
C16 — the reader cannot be made to add capabilities (used by C02).

For a user database whose rest-of-line fields contain no line break (a hostmask may end with one
LF, which `isUserHostmask` tolerates) and whose capabilities are clean lower-case words, reading
back the written file — whatever else the fields contain (blanks, TABs, keywords…), whether or
not the load stops part-way, whatever half-built record an earlier failed load left in the class
attribute — yields accounts whose capabilities were capabilities of the same account before.
Also: whatever the file, every loaded field is free of line breaks.
-/
import LimnoriaModel.C16.Lemmas
import LimnoriaModel.C03.Lemmas
namespace C16
open Py

/-! ## lines that may end with one LF -/

def noBreak (s : Str) : Prop := ∀ c ∈ s, isBreak c = false

instance (s : Str) : Decidable (noBreak s) := by unfold noBreak; exact inferInstance

def lfCore (l : Str) : Str := if l.getLast? = some '\n' then l.dropLast else l
def lfTail (l : Str) : List Str := if l.getLast? = some '\n' then [[]] else []

theorem fileLinesAux_lfline (l rest : Str) (h : noBreak (lfCore l)) :
    fileLinesAux false (l ++ '\n' :: rest) = lfCore l :: (lfTail l ++ fileLinesAux false rest) := by
  unfold lfCore lfTail at *
  by_cases hl : l.getLast? = some '\n'
  · simp only [hl, if_true] at h ⊢
    have hne : l ≠ [] := by intro e; simp [e] at hl
    have e : l = l.dropLast ++ ['\n'] := by
      obtain ⟨ys, hys⟩ := List.getLast?_eq_some_iff.mp hl
      rw [hys]; simp
    have e2 : l ++ '\n' :: rest = l.dropLast ++ '\n' :: ('\n' :: rest) := by
      conv => lhs; rw [e]
      simp
    rw [e2, fileLinesAux_line _ _ h]
    have := fileLinesAux_line [] rest (by intro c hc; cases hc)
    simp only [List.nil_append] at this
    rw [this]
    simp
  · simp only [hl, if_false] at h ⊢
    rw [fileLinesAux_line _ _ h]
    simp

theorem fileLines_unlines_lf (ls : List Str) (h : ∀ l ∈ ls, noBreak (lfCore l)) :
    fileLines (unlines ls) = ls.flatMap (fun l => lfCore l :: lfTail l) := by
  unfold fileLines
  induction ls with
  | nil => simp [unlines, fileLinesAux]
  | cons l ls ih =>
    have : unlines (l :: ls) = l ++ '\n' :: unlines ls := by simp [unlines]
    rw [this, fileLinesAux_lfline l _ (h l (by simp)), ih (fun x hx => h x (by simp [hx]))]
    simp

theorem readLines_lfTail {σ : Type} (C : Creator σ) (rs : RState σ) (l : Str) (rest : List Str) :
    readLines C rs (lfTail l ++ rest) = readLines C rs rest := by
  unfold lfTail
  split
  · simp [readLines_blank]
  · simp

theorem lfCore_of_noBreak {l : Str} (h : noBreak l) : lfCore l = l ∧ lfTail l = [] := by
  unfold lfCore lfTail
  have : l.getLast? ≠ some '\n' := by
    intro e
    have hm : '\n' ∈ l := List.mem_of_getLast? e
    have := h _ hm
    revert this; decide
  simp [this]

theorem lfCore_append (a v : Str) (ha : a.getLast? ≠ some '\n') :
    lfCore (a ++ v) = a ++ lfCore v ∧ lfTail (a ++ v) = lfTail v := by
  unfold lfCore lfTail
  cases v with
  | nil => simp only [List.append_nil, ha, if_false]; simp
  | cons x xs =>
    have h1 : (a ++ x :: xs).getLast? = (x :: xs).getLast? := by
      rw [List.getLast?_append]
      cases h : (x :: xs).getLast? with
      | none => simp at h
      | some y => rfl
    have h2 : (a ++ x :: xs).dropLast = a ++ (x :: xs).dropLast := by
      rw [List.dropLast_append_of_ne_nil (by simp)]
    rw [h1, h2]
    constructor <;> split <;> rfl

/-! ## any written field line parses to its keyword, whatever the value -/

theorem expandTabsFrom_append (a b : Str) (col : Nat) (h : ∀ c ∈ a, c ≠ '\t' ∧ isBreak c = false) :
    expandTabsFrom col (a ++ b) = a ++ expandTabsFrom ((col + a.length) % 8) b := by
  induction a generalizing col with
  | nil =>
    simp only [List.nil_append, List.length_nil, Nat.add_zero]
    -- col is only ever used modulo 8
    have : ∀ (s : Str) (c : Nat), expandTabsFrom (c % 8) s = expandTabsFrom c s := by
      intro s
      induction s with
      | nil => intro c; rfl
      | cons x xs ih =>
        intro c
        unfold expandTabsFrom
        simp only [Nat.mod_mod]
        split
        · rfl
        · split
          · rfl
          · have e : (c % 8 + 1) % 8 = (c + 1) % 8 := by omega
            rw [e]
    exact (this b col).symm
  | cons x xs ih =>
    have hx := h x (by simp)
    have h1 : x ≠ '\t' := hx.1
    have h2 : ¬ (x = '\n' ∨ x = '\r') := by
      intro e
      have := hx.2
      rcases e with rfl | rfl <;> revert this <;> decide
    simp only [List.cons_append, expandTabsFrom, h1, if_false, h2, List.length_cons]
    rw [ih _ (fun c hc => h c (by simp [hc]))]
    have e : ((col + 1) % 8 + xs.length) % 8 = (col + (xs.length + 1)) % 8 := by omega
    rw [e]

theorem kw_noTabBreak {kw : Str} (hk : KwOk kw) : ∀ c ∈ kw, c ≠ '\t' ∧ isBreak c = false := by
  intro c hc
  have := hk.nosp c hc
  constructor
  · intro e; subst e; revert this; decide
  · cases hb : isBreak c with
    | false => rfl
    | true =>
      simp only [isBreak, Bool.or_eq_true, decide_eq_true_eq] at hb
      rcases hb with rfl | rfl <;> revert this <;> decide

/-- the line `  kw v` is never blank, is indented by 2, and its first word is `kw` -/
theorem parseLine_field_gen (kw v : Str) (hk : KwOk kw) :
    parseLine (indent2 (sp kw v)) = .bad 2 ∨ ∃ r, parseLine (indent2 (sp kw v)) = .cmd 2 (asciiLower kw) r := by
  obtain ⟨k, ks, hkw⟩ : ∃ k ks, kw = k :: ks := by
    cases kw with
    | nil => exact absurd rfl hk.ne
    | cons k ks => exact ⟨k, ks, rfl⟩
  have hk0 : isSpace k = false := hk.nosp k (by simp [hkw])
  have hkne : k ≠ ' ' := by intro e; rw [e, isSpace_space] at hk0; cases hk0
  unfold parseLine
  have hblank : (strip (indent2 (sp kw v))).isEmpty = false :=
    strip_ne_nil _ k (by simp [indent2, sp, hkw]) hk0
  -- expandtabs leaves the prefix `  kw ` alone
  have hpre : ∀ c ∈ (' ' :: ' ' :: kw ++ [' ']), c ≠ '\t' ∧ isBreak c = false := by
    intro c hc
    have hc' : c = ' ' ∨ c ∈ kw := by
      simp only [List.mem_cons, List.mem_append, List.not_mem_nil, or_false] at hc
      rcases hc with (h | h | h) | h
      · exact Or.inl h
      · exact Or.inl h
      · exact Or.inr h
      · exact Or.inl h
    rcases hc' with rfl | hc
    · exact ⟨by decide, by decide⟩
    · exact kw_noTabBreak hk c hc
  have hline : indent2 (sp kw v) = (' ' :: ' ' :: kw ++ [' ']) ++ v := by simp [indent2, sp]
  have hexp : expandTabs (indent2 (sp kw v)) =
      ' ' :: ' ' :: (kw ++ ' ' :: expandTabsFrom ((0 + (' ' :: ' ' :: kw ++ [' ']).length) % 8) v) := by
    unfold expandTabs
    rw [hline, expandTabsFrom_append _ _ _ hpre]
    simp
  generalize expandTabsFrom ((0 + (' ' :: ' ' :: kw ++ [' ']).length) % 8) v = w at hexp
  have hls : lstripP (fun c => decide (c = ' ')) (' ' :: ' ' :: (kw ++ ' ' :: w)) = kw ++ ' ' :: w := by
    unfold lstripP
    rw [hkw]
    simp [List.dropWhile, hkne]
  simp only [hblank, hexp, hls, Bool.false_eq_true, if_false]
  -- split(None, 1)
  have hnot : ∀ x ∈ kw, (fun c => !isSpace c) x = true := by
    intro x hx; simp [hk.nosp x hx]
  have hs1 : lstripP isSpace (kw ++ ' ' :: w) = kw ++ ' ' :: w := by
    rw [hkw]; simp [lstripP, hk0]
  have h2 : (kw ++ ' ' :: w).takeWhile (fun c => !isSpace c) = kw :=
    takeWhile_append_stop _ _ _ _ hnot (by simp [isSpace_space])
  have h3 : (kw ++ ' ' :: w).dropWhile (fun c => !isSpace c) = ' ' :: w :=
    dropWhile_append_stop _ _ _ _ hnot (by simp [isSpace_space])
  have hlen : (' ' :: ' ' :: (kw ++ ' ' :: w)).length - (kw ++ ' ' :: w).length = 2 := by
    simp only [List.length_cons]; omega
  unfold splitNone1
  simp only [hs1, h2, h3, hlen]
  have hne : (kw ++ ' ' :: w).isEmpty = false := by rw [hkw]; rfl
  simp only [hne, Bool.false_eq_true, if_false]
  by_cases hr : (lstripP isSpace (' ' :: w)).isEmpty = true
  · left; simp [hr]
  · right
    refine ⟨lstripP isSpace (' ' :: w), ?_⟩
    simp [hr]

/-! ## what the creator operations do to capability lists -/

/-- every capability in the table was a capability of the same account in `orig` -/
def DbInv (orig users : List (Nat × User)) : Prop :=
  ∀ p ∈ users, ∀ x ∈ p.2.caps, ∃ u, (p.1, u) ∈ orig ∧ x ∈ u.caps

/-- the record under construction belongs to account `i` and holds only capabilities of `i` -/
def CuFor (orig : List (Nat × User)) (i : Nat) (cu : Option CU) : Prop :=
  ∃ w, cu = some { id := some i, u := w } ∧ ∀ x ∈ w.caps, ∃ u, (i, u) ∈ orig ∧ x ∈ u.caps

/-- a record left over by an earlier load is harmless: if it has no id yet it has no capability -/
def CuOk (cu : Option CU) : Prop := ∀ c, cu = some c → c.id = none → c.u.caps = []

theorem mem_dictSet' {α β : Type} [DecidableEq α] {k : α} {v : β} {l : List (α × β)} {p : α × β}
    (h : p ∈ dictSet k v l) : p = (k, v) ∨ p ∈ l := by
  unfold dictSet at h
  split at h
  · simp only [List.mem_map] at h
    obtain ⟨q, hq, rfl⟩ := h
    split
    · exact Or.inl rfl
    · exact Or.inr hq
  · simp only [List.mem_append, List.mem_singleton] at h
    rcases h with h | h
    · exact Or.inr h
    · exact Or.inl h

theorem getUserId_caps (E : Env) (users : List (Nat × User)) (s : Str) :
    ∀ q ∈ (getUserId E users s).1, ∃ p ∈ users, q.1 = p.1 ∧ q.2.caps = p.2.caps := by
  intro q hq
  unfold getUserId at hq
  split at hq
  · simp only [] at hq
    split at hq
    · exact ⟨q, hq, rfl, rfl⟩
    · exact ⟨q, hq, rfl, rfl⟩
    · simp only [List.mem_map] at hq
      obtain ⟨p, hp, rfl⟩ := hq
      refine ⟨p, hp, ?_⟩
      split <;> simp [removeHostmask]
  · split at hq <;> exact ⟨q, hq, rfl, rfl⟩

theorem setUser_dbinv (E : Env) (orig : List (Nat × User)) (db : UsersDb) (id : Nat) (u : User)
    (hdb : DbInv orig db.users) (hu : ∀ x ∈ u.caps, ∃ v, (id, v) ∈ orig ∧ x ∈ v.caps) :
    DbInv orig (setUser E db id u).1.users := by
  have hget : DbInv orig (getUserId E db.users u.name).1 := by
    intro q hq x hx
    obtain ⟨p, hp, h1, h2⟩ := getUserId_caps E db.users u.name q hq
    rw [h1]
    exact hdb p hp x (h2 ▸ hx)
  have hput : DbInv orig (dictSet id u (getUserId E db.users u.name).1) := by
    intro q hq x hx
    rcases mem_dictSet' hq with rfl | hq
    · exact hu x hx
    · exact hget q hq x hx
  unfold setUser
  split
  · exact hdb
  · simp only []
    split
    · exact hget
    · split
      · exact hget
      · split
        · exact hget
        · exact hput
    · split
      · exact hget
      · exact hput

theorem userFinish_dbinv (E : Env) (orig : List (Nat × User)) (st : UState) (i : Nat)
    (hdb : DbInv orig st.db.users) (hcu : CuFor orig i st.cu) :
    DbInv orig (userFinish E st).1.db.users ∧
    ((userFinish E st).2 = none → CuFor orig i (userFinish E st).1.cu ∨ (userFinish E st).1.cu = none) := by
  obtain ⟨w, hw, hcaps⟩ := hcu
  unfold userFinish
  simp only [hw]
  split
  · exact ⟨hdb, fun _ => Or.inl ⟨w, hw, hcaps⟩⟩
  · have h1 := setUser_dbinv E orig st.db i w hdb hcaps
    split
    · exact ⟨h1, fun _ => Or.inr rfl⟩
    · have h2 := setUser_dbinv E orig (setUser E st.db i w).1 i { w with hostmasks := [] } h1 hcaps
      split
      · exact ⟨h2, fun _ => Or.inr rfl⟩
      · exact ⟨h2, fun h => by simp at h⟩
    · exact ⟨h1, fun h => by simp at h⟩

theorem withCu_db (st : UState) (f : CU → CU × Option Err) : (withCu st f).1.db = st.db := by
  unfold withCu
  split
  · rfl
  · split <;> rfl

theorem ite_fst_db {c : Prop} [Decidable c] {a b : UState × Option Err} {d : UsersDb}
    (ha : a.1.db = d) (hb : b.1.db = d) : (if c then a else b).1.db = d := by
  split <;> assumption

theorem userCall_db (st : UState) (k r : Str) : (userCall st k r).1.db = st.db := by
  unfold userCall
  apply ite_fst_db
  · cases st.cu with
    | none => rfl
    | some cu =>
      dsimp only
      apply ite_fst_db
      · rfl
      · cases parseNat r <;> rfl
  · repeat' (first | exact withCu_db _ _ | rfl | apply ite_fst_db)

/-- a command other than `user` on the record of account `i`: the record stays account `i`'s and
gains at most the lower-cased argument of a `capability` command -/
theorem userCall_cu (st : UState) (i : Nat) (w : User) (k r : Str) (hst : st.cu = some { id := some i, u := w })
    (hk : k ≠ kwUser) :
    (userCall st k r).2 = none →
      ∃ w', (userCall st k r).1.cu = some { id := some i, u := w' } ∧
        ∀ x ∈ w'.caps, x ∈ w.caps ∨ (k = kwCapability ∧ x = C03.toLower r) := by
  intro hok
  unfold userCall at hok ⊢
  simp only [hk, if_false] at hok ⊢
  -- every remaining branch is `withCu` or an error
  have wc : ∀ (f : CU → CU × Option Err),
      (withCu st f).2 = none →
      (∀ c, (f c).2 = none → (f c).1.id = c.id) →
      (∀ c, (f c).2 = none → ∀ x ∈ (f c).1.u.caps, x ∈ c.u.caps ∨ (k = kwCapability ∧ x = C03.toLower r)) →
      ∃ w', (withCu st f).1.cu = some { id := some i, u := w' } ∧
        ∀ x ∈ w'.caps, x ∈ w.caps ∨ (k = kwCapability ∧ x = C03.toLower r) := by
    intro f h1 h2 h3
    unfold withCu at h1 ⊢
    simp only [hst, Option.isNone_some, Bool.false_eq_true, if_false] at h1 ⊢
    have e := h2 _ h1
    refine ⟨(f { id := some i, u := w }).1.u, ?_, h3 _ h1⟩
    have : (f { id := some i, u := w }).1 = { id := some i, u := (f { id := some i, u := w }).1.u } := by
      cases hf : (f { id := some i, u := w }).1 with
      | mk id' u' =>
        rw [hf] at e
        simp only at e
        rw [e]
    try (simp only [])
    rw [← this]
  by_cases h0 : k = kwName
  · rw [if_pos h0] at hok ⊢
    exact wc _ hok (fun c _ => rfl) (fun c _ x hx => Or.inl hx)
  rw [if_neg h0] at hok ⊢
  by_cases h1 : k = kwIgnore
  · rw [if_pos h1] at hok ⊢
    refine wc _ hok ?_ ?_
    · intro c hc; unfold boolField at hc ⊢; split <;> simp_all [setRec]
    · intro c hc x hx; unfold boolField at hc hx; split at hx <;> simp_all [setRec]
  rw [if_neg h1] at hok ⊢
  by_cases h2 : k = kwSecure
  · rw [if_pos h2] at hok ⊢
    refine wc _ hok ?_ ?_
    · intro c hc; unfold boolField at hc ⊢; split <;> simp_all [setRec]
    · intro c hc x hx; unfold boolField at hc hx; split at hx <;> simp_all [setRec]
  rw [if_neg h2] at hok ⊢
  by_cases h3 : k = kwHashed
  · rw [if_pos h3] at hok ⊢
    refine wc _ hok ?_ ?_
    · intro c hc; unfold boolField at hc ⊢; split <;> simp_all [setRec]
    · intro c hc x hx; unfold boolField at hc hx; split at hx <;> simp_all [setRec]
  rw [if_neg h3] at hok ⊢
  by_cases h4 : k = kwPassword
  · rw [if_pos h4] at hok ⊢
    exact wc _ hok (fun c _ => rfl) (fun c _ x hx => Or.inl hx)
  rw [if_neg h4] at hok ⊢
  by_cases h5 : k = kwHostmask
  · rw [if_pos h5] at hok ⊢
    exact wc _ hok (fun c _ => rfl) (fun c _ x hx => Or.inl hx)
  rw [if_neg h5] at hok ⊢
  by_cases h6 : k = kwNicks
  · rw [if_pos h6] at hok ⊢
    refine wc _ hok ?_ ?_
    · intro c hc; split <;> simp_all [setRec]
    · intro c hc x hx; split at hx <;> simp_all [setRec]
  rw [if_neg h6] at hok ⊢
  by_cases hcap : k = kwCapability
  · rw [if_pos hcap] at hok ⊢
    refine wc _ hok (fun c _ => rfl) ?_
    intro c hc x hx
    simp only [] at hx hc
    unfold userCapAdd liftR at hx hc
    split at hx
    · rename_i caps' hadd
      simp only [] at hx
      unfold C03.uadd at hadd
      simp only [] at hadd
      split at hadd
      · cases hadd
      · unfold C03.CapSet.add at hadd
        simp only [] at hadd
        split at hadd
        · cases hadd
        · injection hadd with hadd
          subst hadd
          rcases (mem_capInsert _ _ _).mp hx with hx | hx
          · right; exact ⟨hcap, by rw [hx, C03.toLower_idem]⟩
          · left; exact ((mem_capErase _ _ _).mp hx).1
    · exact Or.inl hx
  rw [if_neg hcap] at hok ⊢
  by_cases h8 : k = kwGpgkey
  · rw [if_pos h8] at hok ⊢
    exact wc _ hok (fun c _ => rfl) (fun c _ x hx => Or.inl hx)
  rw [if_neg h8] at hok ⊢
  split at hok <;> simp at hok

theorem userCall_noid_err (st : UState) (c : CU) (k r : Str) (hst : st.cu = some c) (hid : c.id = none)
    (hk : k ≠ kwUser) : (userCall st k r).2 ≠ none := by
  have wc : ∀ f : CU → CU × Option Err, (withCu st f).2 ≠ none := by
    intro f
    unfold withCu
    simp [hst, hid]
  unfold userCall
  rw [if_neg hk]
  repeat' (first | exact wc _ | split)
  all_goals simp

/-! ## the loop while the record of account `i` is being read -/

structure InBlock (orig : List (Nat × User)) (i : Nat) (rs : RState UState) : Prop where
  db : DbInv orig rs.st.db.users
  creator : rs.hasCreator = true
  cu : CuFor orig i rs.st.cu
  ind : rs.indent = some 0 ∨ rs.indent = some 2

def OutBlock (orig : List (Nat × User)) (i : Nat) (r : RState UState × Option Err) : Prop :=
  DbInv orig r.1.st.db.users ∧ (r.2 = none → InBlock orig i r.1)

theorem reindent_inblock (E : Env) (orig : List (Nat × User)) (i : Nat) (rs : RState UState) (ind : Nat)
    (h : InBlock orig i rs) :
    DbInv orig (reindent (userCreator E) rs ind).1.st.db.users ∧
    ((reindent (userCreator E) rs ind).2 = none →
      (reindent (userCreator E) rs ind).1.hasCreator = true ∧
      (reindent (userCreator E) rs ind).1.indent = some ind ∧
      (CuFor orig i (reindent (userCreator E) rs ind).1.st.cu ∨
       (reindent (userCreator E) rs ind).1.st.cu = some {})) := by
  unfold reindent
  split
  · rename_i hi
    exact ⟨h.db, fun _ => ⟨h.creator, hi, Or.inl h.cu⟩⟩
  · simp only [h.creator, if_true]
    have e1 : (userCreator E).finish rs.st = userFinish E rs.st := rfl
    have e2 : ∀ s, (userCreator E).new s = userNew s := fun _ => rfl
    rw [e1]
    simp only [e2]
    have hf := userFinish_dbinv E orig rs.st i h.db h.cu
    cases he : (userFinish E rs.st).2 with
    | some e => exact ⟨hf.1, fun h => by simp at h⟩
    | none =>
      refine ⟨?_, fun _ => ⟨rfl, rfl, ?_⟩⟩
      · show DbInv orig (userNew (userFinish E rs.st).1).db.users
        unfold userNew; split <;> exact hf.1
      · show CuFor orig i (userNew (userFinish E rs.st).1).cu ∨ (userNew (userFinish E rs.st).1).cu = some {}
        rcases hf.2 he with hc | hc
        · left
          obtain ⟨w, hw, hcaps⟩ := hc
          have : userNew (userFinish E rs.st).1 = (userFinish E rs.st).1 := by
            unfold userNew; rw [hw]
          rw [this]
          exact ⟨w, hw, hcaps⟩
        · right
          unfold userNew
          rw [hc]

/-- what a body line of account `i`'s record may parse to -/
def BodyParsed (orig : List (Nat × User)) (i : Nat) (P : Parsed) : Prop :=
  P = .blank ∨ P = .bad 2 ∨
  ∃ k r, P = .cmd 2 k r ∧ k ≠ kwUser ∧ (k = kwCapability → ∃ u, (i, u) ∈ orig ∧ C03.toLower r ∈ u.caps)

theorem readParsed_inblock (E : Env) (orig : List (Nat × User)) (i : Nat) (rs : RState UState) (P : Parsed)
    (h : InBlock orig i rs) (hP : BodyParsed orig i P) : OutBlock orig i (readParsed (userCreator E) rs P) := by
  rcases hP with rfl | rfl | ⟨k, r, rfl, hk, hcap⟩
  · exact ⟨h.db, fun _ => h⟩
  · have hr := reindent_inblock E orig i rs 2 h
    unfold readParsed
    simp only []
    cases he : (reindent (userCreator E) rs 2).2 with
    | some e => exact ⟨hr.1, fun h => by simp at h⟩
    | none => exact ⟨hr.1, fun h => by simp at h⟩
  · have hr := reindent_inblock E orig i rs 2 h
    unfold readParsed
    simp only []
    cases he : (reindent (userCreator E) rs 2).2 with
    | some e => exact ⟨hr.1, fun h => by simp at h⟩
    | none =>
      obtain ⟨hcr, hind, hcu⟩ := hr.2 he
      simp only []
      have hdb : DbInv orig (userCall (reindent (userCreator E) rs 2).1.st k r).1.db.users := by
        rw [userCall_db]; exact hr.1
      refine ⟨hdb, ?_⟩
      intro hok
      simp only [] at hok
      rcases hcu with ⟨w, hw, hcaps⟩ | hfresh
      · obtain ⟨w', hw', hc'⟩ := userCall_cu _ i w k r hw hk hok
        refine ⟨hdb, hcr, ⟨w', hw', ?_⟩, Or.inr hind⟩
        intro x hx
        rcases hc' x hx with hx | ⟨hkc, hx⟩
        · exact hcaps x hx
        · rw [hx]; exact hcap hkc
      · exact absurd hok (userCall_noid_err _ _ k r hfresh rfl hk)

theorem readLines_inblock (E : Env) (orig : List (Nat × User)) (i : Nat) (ls : List Str) (rs : RState UState)
    (h : InBlock orig i rs) (hl : ∀ l ∈ ls, BodyParsed orig i (parseLine l)) :
    OutBlock orig i (readLines (userCreator E) rs ls) := by
  induction ls generalizing rs with
  | nil => exact ⟨h.db, fun _ => h⟩
  | cons l ls ih =>
    have h1 := readParsed_inblock E orig i rs (parseLine l) h (hl l (by simp))
    unfold readLines
    simp only []
    cases he : (readParsed (userCreator E) rs (parseLine l)).2 with
    | some e => exact ⟨h1.1, fun h => by simp at h⟩
    | none => exact ih _ (h1.2 he) (fun x hx => hl x (by simp [hx]))

/-- state of the loop between two records -/
def Between (orig : List (Nat × User)) (rs : RState UState) : Prop :=
  DbInv orig rs.st.db.users ∧
  ((rs.hasCreator = false ∧ rs.indent = none ∧ rs.modified = false ∧ CuOk rs.st.cu) ∨ ∃ j, InBlock orig j rs)

theorem header_between (E : Env) (orig : List (Nat × User)) (i : Nat) (rs : RState UState)
    (h : Between orig rs) :
    OutBlock orig i (readParsed (userCreator E) rs (.cmd 0 kwUser (natDec i))) := by
  have hcall_fresh : ∀ db : UsersDb, userCall ⟨some {}, db⟩ kwUser (natDec i) = (⟨some { id := some i, u := {} }, db⟩, none) :=
    fun db => userCall_user db i _ (parseNat_natDec i)
  rcases h with ⟨hdb, ⟨hcr, hind, _, hcu⟩ | ⟨j, hj⟩⟩
  · -- start of the file
    have hne : rs.indent ≠ some 0 := by rw [hind]; simp
    have e2 : ∀ s, (userCreator E).new s = userNew s := fun _ => rfl
    have e3 : ∀ s k r, (userCreator E).call s k r = userCall s k r := fun _ _ _ => rfl
    unfold OutBlock readParsed reindent
    simp only [hne, if_false, hcr, Bool.false_eq_true, e2, e3]
    have hdb' : DbInv orig (userCall (userNew rs.st) kwUser (natDec i)).1.db.users := by
      rw [userCall_db]; unfold userNew; split <;> exact hdb
    refine ⟨hdb', fun hok => ⟨hdb', rfl, ?_, Or.inl rfl⟩⟩
    simp only [] at hok ⊢
    cases hc : rs.st.cu with
    | none =>
      have : userNew rs.st = ⟨some {}, rs.st.db⟩ := by unfold userNew; rw [hc]
      rw [this, hcall_fresh]
      exact ⟨{}, rfl, fun x hx => by simp at hx⟩
    | some c =>
      have hn : userNew rs.st = rs.st := by unfold userNew; rw [hc]
      rw [hn] at hok ⊢
      unfold userCall at hok ⊢
      simp only [if_true, hc] at hok ⊢
      cases hid : c.id with
      | some n => simp [hid] at hok
      | none =>
        simp only [hid, Option.isSome_none, Bool.false_eq_true, if_false, parseNat_natDec] at hok ⊢
        exact ⟨c.u, rfl, fun x hx => by rw [hcu c hc hid] at hx; simp at hx⟩
  · -- after the record of account `j`
    have hr := reindent_inblock E orig j rs 0 hj
    unfold readParsed
    simp only []
    cases he : (reindent (userCreator E) rs 0).2 with
    | some e => exact ⟨hr.1, fun h => by simp at h⟩
    | none =>
      obtain ⟨hcr, hind, hcu⟩ := hr.2 he
      simp only []
      have hdb' : DbInv orig (userCall (reindent (userCreator E) rs 0).1.st kwUser (natDec i)).1.db.users := by
        rw [userCall_db]; exact hr.1
      refine ⟨hdb', ?_⟩
      intro hok
      have e3 : ∀ s k r, (userCreator E).call s k r = userCall s k r := fun _ _ _ => rfl
      simp only [e3] at hok ⊢
      rcases hcu with ⟨w, hw, _⟩ | hfresh
      · -- the old record is still there: `user` raises
        exfalso
        unfold userCall at hok
        simp [hw] at hok
      · refine ⟨hdb', hcr, ?_, Or.inl hind⟩
        have : (reindent (userCreator E) rs 0).1.st = ⟨some {}, (reindent (userCreator E) rs 0).1.st.db⟩ := by
          cases hst : (reindent (userCreator E) rs 0).1.st with
          | mk cu db => rw [hst] at hfresh; simp at hfresh; subst hfresh; rfl
        rw [this, hcall_fresh]
        exact ⟨{}, rfl, fun x hx => by simp at hx⟩

/-! ## the whole file -/

/-- fields that cannot break out of their line: no CR/LF (a hostmask may end with one LF), and
capabilities that are clean lower-case words -/
structure SafeUser (u : User) : Prop where
  name : noBreak u.name
  password : noBreak u.password
  caps : ∀ c ∈ u.caps, clean c = true ∧ C03.toLower c = c
  hostmasks : ∀ h ∈ u.hostmasks, noBreak (lfCore h)
  nicks : ∀ p ∈ u.nicks, noBreak p.1 ∧ ∀ n ∈ p.2, noBreak n
  gpgkeys : ∀ g ∈ u.gpgkeys, noBreak g

def bodyKws : List Str :=
  [kwName, kwIgnore, kwSecure, kwHashed, kwPassword, kwCapability, kwHostmask, kwNicks, kwGpgkey]

theorem bodyKws_ok : ∀ kw ∈ bodyKws, KwOk kw ∧ asciiLower kw = kw ∧ kw ≠ kwUser := by
  intro kw hkw
  simp only [bodyKws, List.mem_cons, List.not_mem_nil, or_false] at hkw
  rcases hkw with rfl | rfl | rfl | rfl | rfl | rfl | rfl | rfl | rfl
  · exact ⟨kwOk_name, by decide, by decide⟩
  · exact ⟨kwOk_ignore, by decide, by decide⟩
  · exact ⟨kwOk_secure, by decide, by decide⟩
  · exact ⟨kwOk_hashed, by decide, by decide⟩
  · exact ⟨kwOk_password, by decide, by decide⟩
  · exact ⟨kwOk_capability, by decide, by decide⟩
  · exact ⟨kwOk_hostmask, by decide, by decide⟩
  · exact ⟨kwOk_nicks, by decide, by decide⟩
  · exact ⟨kwOk_gpgkey, by decide, by decide⟩

theorem noBreak_boolStr (b : Bool) : noBreak (boolStr b) := by
  cases b <;> (intro c hc; revert c; decide)

theorem noBreak_append {a b : Str} (ha : noBreak a) (hb : noBreak b) : noBreak (a ++ b) := by
  intro c hc
  rcases List.mem_append.mp hc with h | h
  · exact ha c h
  · exact hb c h

theorem noBreak_joinChar (ns : List Str) (h : ∀ n ∈ ns, noBreak n) : noBreak (joinChar ' ' ns) := by
  induction ns with
  | nil => intro c hc; simp [joinChar] at hc
  | cons n rest ih =>
    cases rest with
    | nil => simpa [joinChar] using h n (by simp)
    | cons m ms =>
      have : joinChar ' ' (n :: m :: ms) = n ++ ' ' :: joinChar ' ' (m :: ms) := rfl
      rw [this]
      refine noBreak_append (h n (by simp)) ?_
      intro c hc
      rcases List.mem_cons.mp hc with rfl | hc
      · decide
      · exact ih (fun x hx => h x (by simp [hx])) c hc

theorem clean_noBreak {v : Str} (h : clean v = true) : noBreak v := by
  obtain ⟨_, _, _, _, hall⟩ := clean_elim h
  intro c hc
  have := hall c hc
  simp [isBreak, this.2.1, this.2.2]

/-- what is known about each `(keyword, value)` a safe user record is written with -/
theorem userCmds_safe {u : User} (h : SafeUser u) :
    ∀ p ∈ userCmds u, p.1 ∈ bodyKws ∧ noBreak (lfCore p.2) ∧ (p.1 = kwCapability → p.2 ∈ u.caps) := by
  intro p hp
  have nb : ∀ {v : Str}, noBreak v → noBreak (lfCore v) := fun hv => by rw [(lfCore_of_noBreak hv).1]; exact hv
  simp only [userCmds, List.mem_append, List.mem_cons, List.mem_map, List.not_mem_nil, or_false] at hp
  rcases hp with ((((((rfl | rfl | rfl) | hp) | hp) | hp) | hp) | hp)
  · exact ⟨by simp [bodyKws], nb h.name, fun e => absurd (show kwName = kwCapability from e) (by decide)⟩
  · exact ⟨by simp [bodyKws], nb (noBreak_boolStr _), fun e => absurd (show kwIgnore = kwCapability from e) (by decide)⟩
  · exact ⟨by simp [bodyKws], nb (noBreak_boolStr _), fun e => absurd (show kwSecure = kwCapability from e) (by decide)⟩
  · by_cases hpw : u.password.isEmpty = true
    · simp [hpw] at hp
    · simp [hpw] at hp
      rcases hp with rfl | rfl
      · exact ⟨by simp [bodyKws], nb (noBreak_boolStr _), fun e => absurd (show kwHashed = kwCapability from e) (by decide)⟩
      · exact ⟨by simp [bodyKws], nb h.password, fun e => absurd (show kwPassword = kwCapability from e) (by decide)⟩
  · obtain ⟨c, hc, rfl⟩ := hp
    exact ⟨by simp [bodyKws], nb (clean_noBreak (h.caps c hc).1), fun _ => hc⟩
  · obtain ⟨c, hc, rfl⟩ := hp
    exact ⟨by simp [bodyKws], h.hostmasks c hc, fun e => absurd (show kwHostmask = kwCapability from e) (by decide)⟩
  · obtain ⟨q, hq, rfl⟩ := hp
    refine ⟨by simp [bodyKws], nb ?_, fun e => absurd (show kwNicks = kwCapability from e) (by decide)⟩
    have := h.nicks q hq
    exact noBreak_append this.1 (by
      intro c hc
      rcases List.mem_cons.mp hc with rfl | hc
      · decide
      · exact noBreak_joinChar q.2 this.2 c hc)
  · obtain ⟨c, hc, rfl⟩ := hp
    exact ⟨by simp [bodyKws], nb (h.gpgkeys c hc), fun e => absurd (show kwGpgkey = kwCapability from e) (by decide)⟩

/-- physical lines of one written line -/
def phys (l : Str) : List Str := lfCore l :: lfTail l

theorem noBreak_kw {kw : Str} (hk : KwOk kw) : noBreak kw := fun c hc => (kw_noTabBreak hk c hc).2

/-- a body line of a safe record: its physical lines all parse to something harmless -/
theorem bodyLine_parsed (orig : List (Nat × User)) (i : Nat) (u : User) (hu : (i, u) ∈ orig) (hs : SafeUser u)
    (p : Str × Str) (hp : p ∈ userCmds u) :
    noBreak (lfCore (indent2 (cmdLine p))) ∧
    ∀ l ∈ phys (indent2 (cmdLine p)), BodyParsed orig i (parseLine l) := by
  obtain ⟨hkw, hv, hcap⟩ := userCmds_safe hs p hp
  obtain ⟨hk, hlow, hne⟩ := bodyKws_ok p.1 hkw
  have hpre : (' ' :: ' ' :: p.1 ++ [' ']).getLast? ≠ some '\n' := by
    rw [show (' ' :: ' ' :: p.1 ++ [' ']) = (' ' :: ' ' :: p.1) ++ [' '] from rfl, List.getLast?_append]
    simp
  have hline : indent2 (cmdLine p) = (' ' :: ' ' :: p.1 ++ [' ']) ++ p.2 := by simp [indent2, cmdLine, sp]
  obtain ⟨h1, h2⟩ := lfCore_append (' ' :: ' ' :: p.1 ++ [' ']) p.2 hpre
  have hcore : lfCore (indent2 (cmdLine p)) = indent2 (sp p.1 (lfCore p.2)) := by
    rw [hline, h1]; simp [indent2, sp]
  refine ⟨?_, ?_⟩
  · rw [hcore]
    intro c hc
    simp only [indent2, sp, List.mem_cons, List.mem_append] at hc
    rcases hc with rfl | rfl | hc | rfl | hc
    · decide
    · decide
    · exact noBreak_kw hk c hc
    · decide
    · exact hv c hc
  · intro l hl
    simp only [phys, List.mem_cons] at hl
    rcases hl with rfl | hl
    · rw [hcore]
      by_cases hc : p.1 = kwCapability
      · -- a capability line is parsed back exactly
        have hmem := hcap hc
        have hclean := (hs.caps p.2 hmem).1
        rw [(lfCore_of_noBreak (clean_noBreak hclean)).1, indent2_eq, parseLine_written 2 p.1 p.2 hk hclean, hlow]
        refine Or.inr (Or.inr ⟨p.1, p.2, rfl, hne, fun _ => ⟨u, hu, ?_⟩⟩)
        rw [(hs.caps p.2 hmem).2]; exact hmem
      · rcases parseLine_field_gen p.1 (lfCore p.2) hk with h | ⟨r, h⟩
        · exact Or.inr (Or.inl h)
        · rw [hlow] at h
          exact Or.inr (Or.inr ⟨p.1, r, h, hne, fun e => absurd e hc⟩)
    · rw [hline, h2] at hl
      unfold lfTail at hl
      split at hl
      · simp only [List.mem_singleton] at hl
        rw [hl, parseLine_nil]; exact Or.inl rfl
      · cases hl

/-- the physical lines of one record: the header, then harmless lines -/
theorem block_phys (orig : List (Nat × User)) (b : Nat × User) (hb : b ∈ orig) (hs : SafeUser b.2) :
    (∀ l ∈ userBlock b, noBreak (lfCore l)) ∧
    ∃ tail, (userBlock b).flatMap phys = sp kwUser (natDec b.1) :: tail ∧
      ∀ l ∈ tail, BodyParsed orig b.1 (parseLine l) := by
  have hhdr : noBreak (sp kwUser (natDec b.1)) := by
    intro c hc
    exact sp_noBreak _ _ kwOk_user (clean_natDec b.1) c hc
  have hh := lfCore_of_noBreak hhdr
  have hnil : lfCore ([] : Str) = [] ∧ lfTail ([] : Str) = [] := lfCore_of_noBreak (by intro c hc; cases hc)
  refine ⟨?_, ?_⟩
  · intro l hl
    simp only [userBlock, blockLines, userLines, List.mem_cons, List.mem_append, List.mem_map, List.not_mem_nil,
      or_false] at hl
    rcases hl with (rfl | ⟨q, ⟨p, hp, rfl⟩, rfl⟩) | rfl
    · rw [hh.1]; exact hhdr
    · exact (bodyLine_parsed orig b.1 b.2 hb hs p hp).1
    · rw [hnil.1]; intro c hc; cases hc
  · refine ⟨((userLines b.2).map indent2 ++ [[]]).flatMap phys, ?_, ?_⟩
    · simp only [userBlock, blockLines, List.cons_append, List.flatMap_cons, phys, hh.1, hh.2, List.nil_append]
    · intro l hl
      simp only [List.mem_flatMap, List.mem_append, List.mem_map, List.mem_singleton, userLines] at hl
      obtain ⟨w, hw, hl⟩ := hl
      rcases hw with ⟨q, ⟨p, hp, rfl⟩, rfl⟩ | rfl
      · exact (bodyLine_parsed orig b.1 b.2 hb hs p hp).2 l hl
      · simp only [phys, hnil.1, hnil.2, List.mem_singleton] at hl
        rw [hl, parseLine_nil]; exact Or.inl rfl

theorem blocks_between (E : Env) (orig : List (Nat × User)) (bs : List (Nat × User))
    (hbs : ∀ b ∈ bs, b ∈ orig ∧ SafeUser b.2) (rs : RState UState) (h : Between orig rs) :
    DbInv orig (readLines (userCreator E) rs ((bs.flatMap userBlock).flatMap phys)).1.st.db.users ∧
    ((readLines (userCreator E) rs ((bs.flatMap userBlock).flatMap phys)).2 = none →
      Between orig (readLines (userCreator E) rs ((bs.flatMap userBlock).flatMap phys)).1) := by
  induction bs generalizing rs with
  | nil => exact ⟨h.1, fun _ => h⟩
  | cons b bs ih =>
    obtain ⟨hb, hs⟩ := hbs b (by simp)
    obtain ⟨_, tail, htail, hparsed⟩ := block_phys orig b hb hs
    simp only [List.flatMap_cons, List.flatMap_append, htail, List.cons_append]
    unfold readLines
    rw [parseLine_userHeader]
    have hh := header_between E orig b.1 rs h
    simp only []
    cases he : (readParsed (userCreator E) rs (.cmd 0 kwUser (natDec b.1))).2 with
    | some e => exact ⟨hh.1, fun h => by simp at h⟩
    | none =>
      simp only []
      rw [readLines_append]
      have ht := readLines_inblock E orig b.1 tail _ (hh.2 he) hparsed
      cases he2 : (readLines (userCreator E) (readParsed (userCreator E) rs (.cmd 0 kwUser (natDec b.1))).1 tail).2 with
      | some e =>
        have : readLines (userCreator E) (readParsed (userCreator E) rs (.cmd 0 kwUser (natDec b.1))).1 tail =
            ((readLines (userCreator E) (readParsed (userCreator E) rs (.cmd 0 kwUser (natDec b.1))).1 tail).1, some e) := by
          rw [← he2]
        rw [this]
        exact ⟨ht.1, fun h => by simp at h⟩
      | none =>
        have : readLines (userCreator E) (readParsed (userCreator E) rs (.cmd 0 kwUser (natDec b.1))).1 tail =
            ((readLines (userCreator E) (readParsed (userCreator E) rs (.cmd 0 kwUser (natDec b.1))).1 tail).1, none) := by
          rw [← he2]
        rw [this]
        simp only []
        exact ih (fun x hx => hbs x (by simp [hx])) _ ⟨ht.1, Or.inr ⟨b.1, ht.2 he2⟩⟩

/-- **Reading back a written users.conf never adds a capability** to any account, as long as the
stored fields contain no line break: whatever else they contain, whether or not the load stops
part-way, whatever an earlier failed load left behind. -/
theorem load_caps_sub (E : Env) (cu0 : Option CU) (db : UsersDb) (hcu : CuOk cu0)
    (hsafe : ∀ p ∈ db.users, SafeUser p.2) :
    DbInv db.users (loadUsers E cu0 (dumpUsers db)).1.db.users := by
  have hmem : ∀ b ∈ sortedUsers db, b ∈ db.users ∧ SafeUser b.2 := by
    intro b hb
    have := (mem_sortBy _ _ _).mp hb
    exact ⟨this, hsafe b this⟩
  have hlines : fileLines (dumpUsers db) = ((sortedUsers db).flatMap userBlock).flatMap phys := by
    unfold dumpUsers
    apply fileLines_unlines_lf
    intro l hl
    simp only [List.mem_flatMap] at hl
    obtain ⟨b, hb, hl⟩ := hl
    exact (block_phys db.users b (hmem b hb).1 (hmem b hb).2).1 l hl
  unfold loadUsers readText
  rw [hlines]
  have hstart : Between db.users ({ st := ⟨cu0, {}⟩ } : RState UState) := by
    unfold Between
    exact ⟨(by intro p hp; cases hp), Or.inl ⟨rfl, rfl, rfl, hcu⟩⟩
  obtain ⟨h1, h2⟩ := blocks_between E db.users (sortedUsers db) hmem _ hstart
  simp only []
  cases he : (readLines (userCreator E) { st := ⟨cu0, {}⟩ } (((sortedUsers db).flatMap userBlock).flatMap phys)).2 with
  | some e => exact h1
  | none =>
    simp only []
    rcases (h2 he).2 with ⟨_, _, hm, _⟩ | ⟨j, hj⟩
    · -- nothing was read
      have : (readLines (userCreator E) { st := ⟨cu0, {}⟩ } (((sortedUsers db).flatMap userBlock).flatMap phys)).1.modified = false := hm
      simp only [this, Bool.false_eq_true, if_false]
      exact h1
    · split
      · exact (userFinish_dbinv E db.users _ j hj.db hj.cu).1
      · exact h1

/-! ## whatever the file: loaded fields are line-safe, and a leftover record without id has no capability -/

theorem fileLinesAux_noBreak (b : Bool) (t : Str) : ∀ l ∈ fileLinesAux b t, noBreak l := by
  induction t generalizing b with
  | nil => intro l hl; simp [fileLinesAux] at hl
  | cons c cs ih =>
    intro l hl
    unfold fileLinesAux at hl
    split at hl
    · split at hl
      · exact ih _ l hl
      · rcases List.mem_cons.mp hl with rfl | hl
        · intro x hx; cases hx
        · exact ih _ l hl
    · split at hl
      · rcases List.mem_cons.mp hl with rfl | hl
        · intro x hx; cases hx
        · exact ih _ l hl
      · rename_i h1 h2
        split at hl
        · simp only [List.mem_singleton] at hl
          subst hl
          intro x hx
          simp only [List.mem_singleton] at hx
          subst hx
          simp [isBreak, h1, h2]
        · rename_i l0 ls heq
          rcases List.mem_cons.mp hl with rfl | hl
          · intro x hx
            rcases List.mem_cons.mp hx with rfl | hx
            · simp [isBreak, h1, h2]
            · exact ih false l0 (by rw [heq]; simp) x hx
          · exact ih false l (by rw [heq]; simp [hl])

theorem mem_expandTabsFrom (s : Str) (col : Nat) (c : Char) (h : c ∈ expandTabsFrom col s) : c = ' ' ∨ c ∈ s := by
  induction s generalizing col with
  | nil => simp [expandTabsFrom] at h
  | cons x xs ih =>
    unfold expandTabsFrom at h
    split at h
    · rcases List.mem_append.mp h with h | h
      · left; exact (List.mem_replicate.mp h).2
      · rcases ih _ h with h | h
        · exact Or.inl h
        · exact Or.inr (by simp [h])
    · split at h <;>
      · rcases List.mem_cons.mp h with rfl | h
        · exact Or.inr (by simp)
        · rcases ih _ h with h | h
          · exact Or.inl h
          · exact Or.inr (by simp [h])

theorem parseLine_rest_noBreak (l : Str) (i : Nat) (k r : Str) (hl : noBreak l)
    (h : parseLine l = .cmd i k r) : noBreak r := by
  unfold parseLine at h
  split at h
  · cases h
  · simp only [] at h
    split at h
    · rename_i command rest heq
      injection h with _ _ hr
      subst hr
      -- `rest` is a sublist of the expanded line
      unfold splitNone1 at heq
      simp only [] at heq
      split at heq
      · cases heq
      · split at heq
        · cases heq
        · injection heq with _ heq
          injection heq with heq _
          subst heq
          intro c hc
          have h1 : c ∈ expandTabs l := by
            unfold lstripP at hc
            have := List.dropWhile_sublist _ |>.subset hc
            have := List.dropWhile_sublist _ |>.subset this
            have := List.dropWhile_sublist _ |>.subset this
            exact List.dropWhile_sublist _ |>.subset this
          rcases mem_expandTabsFrom l 0 c h1 with rfl | h1
          · decide
          · exact hl c h1
    · cases h

theorem noBreak_nil : noBreak ([] : Str) := fun c hc => by cases hc

theorem safeUser_default : SafeUser ({} : User) :=
  ⟨noBreak_nil, noBreak_nil, fun c hc => (by cases hc), fun c hc => (by cases hc), fun c hc => (by cases hc),
   fun c hc => (by cases hc)⟩

structure SafeState (st : UState) : Prop where
  users : ∀ p ∈ st.db.users, SafeUser p.2
  cu : ∀ c, st.cu = some c → SafeUser c.u
  cuok : CuOk st.cu

theorem split1_eq {c : Char} {s a b : Str} (h : split1 c s = some (a, b)) : s = a ++ c :: b := by
  induction s generalizing a with
  | nil => simp [split1] at h
  | cons x xs ih =>
    unfold split1 at h
    split at h
    · rename_i hx
      injection h with h
      injection h with h1 h2
      subst h1; subst h2; subst hx
      rfl
    · split at h
      · cases h
      · rename_i a' b' heq
        injection h with h
        injection h with h1 h2
        subst h1; subst h2
        rw [ih heq]
        rfl

theorem mem_splitChar {c : Char} (s p : Str) (hp : p ∈ splitChar c s) : ∀ x ∈ p, x ∈ s := by
  induction s generalizing p with
  | nil => simp [splitChar] at hp; subst hp; intro x hx; cases hx
  | cons y ys ih =>
    unfold splitChar at hp
    split at hp
    · rcases List.mem_cons.mp hp with rfl | hp
      · intro x hx; cases hx
      · intro x hx; exact List.mem_cons_of_mem _ (ih p hp x hx)
    · split at hp
      · simp only [List.mem_singleton] at hp
        subst hp
        intro x hx
        simp only [List.mem_singleton] at hx
        subst hx; simp
      · rename_i q qs heq
        rcases List.mem_cons.mp hp with rfl | hp
        · intro x hx
          rcases List.mem_cons.mp hx with rfl | hx
          · simp
          · exact List.mem_cons_of_mem _ (ih q (by rw [heq]; simp) x hx)
        · intro x hx
          exact List.mem_cons_of_mem _ (ih p (by rw [heq]; simp [hp]) x hx)

theorem isCapability_clean {c : Str} (h : C03.isCapability c = true) : clean c = true := by
  unfold C03.isCapability at h
  simp only [Bool.and_eq_true, Bool.not_eq_true', List.isEmpty_eq_false_iff, List.all_eq_true] at h
  obtain ⟨hne, hall⟩ := h
  cases c with
  | nil => exact absurd rfl hne
  | cons x xs =>
    have hx : isSpace x = false := by simpa using hall x (by simp)
    simp only [clean, hx, Bool.not_false, Bool.true_and, noTabBreak, List.all_eq_true, Bool.and_eq_true,
      bne_iff_ne, ne_eq]
    intro y hy
    have hy' : isSpace y = false := by simpa using hall y hy
    refine ⟨⟨?_, ?_⟩, ?_⟩ <;> (intro e; subst e; revert hy'; decide)

theorem invert_ok_isCapability {c i : Str} (h : C03.invertCapability c = .ok i) : C03.isCapability c = true := by
  unfold C03.invertCapability at h
  split at h
  · cases h
  · rename_i hc
    simpa using hc

/-- `UserCapabilitySet.add` keeps a list of clean lower-case words one -/
theorem uadd_safe {caps caps' : List Str} {r : Str} (h : C03.uadd caps r = .ok caps')
    (hc : ∀ c ∈ caps, clean c = true ∧ C03.toLower c = c) : ∀ c ∈ caps', clean c = true ∧ C03.toLower c = c := by
  unfold C03.uadd at h
  simp only [] at h
  split at h
  · cases h
  · unfold C03.CapSet.add at h
    simp only [] at h
    split at h
    · cases h
    · rename_i inv hinv
      injection h with h
      subst h
      intro c hc'
      rcases (mem_capInsert _ _ _).mp hc' with rfl | hc'
      · exact ⟨isCapability_clean (invert_ok_isCapability hinv), C03.toLower_idem _⟩
      · exact hc c ((mem_capErase _ _ _).mp hc').1

theorem safeUser_caps {u : User} (h : SafeUser u) (caps : List Str)
    (hc : ∀ c ∈ caps, clean c = true ∧ C03.toLower c = c) : SafeUser { u with caps := caps } :=
  ⟨h.name, h.password, hc, h.hostmasks, h.nicks, h.gpgkeys⟩

theorem withCu_safe (st : UState) (f : CU → CU × Option Err) (h : SafeState st)
    (hf : ∀ c, SafeUser c.u → SafeUser (f c).1.u) (hid : ∀ c, (f c).1.id = c.id) : SafeState (withCu st f).1 := by
  unfold withCu
  split
  · exact h
  · rename_i cu hcu
    split
    · exact h
    · rename_i hidn
      refine ⟨h.users, ?_, ?_⟩
      · intro c hc
        simp only [Option.some.injEq] at hc
        subst hc
        exact hf cu (h.cu cu hcu)
      · intro c hc hnone
        simp only [Option.some.injEq] at hc
        subst hc
        rw [hid] at hnone
        simp [hnone] at hidn

theorem userCall_safe (st : UState) (k r : Str) (h : SafeState st) (hr : noBreak r) :
    SafeState (userCall st k r).1 := by
  have hrc : noBreak (lfCore r) := by rw [(lfCore_of_noBreak hr).1]; exact hr
  unfold userCall
  by_cases h0 : k = kwUser
  · rw [if_pos h0]
    cases hc : st.cu with
    | none => exact h
    | some cu =>
      simp only []
      split
      · exact h
      · split
        · refine ⟨h.users, ?_, ?_⟩
          · intro c hc'; simp only [Option.some.injEq] at hc'; subst hc'; exact h.cu cu hc
          · intro c hc' hn; simp only [Option.some.injEq] at hc'; subst hc'; simp at hn
        · exact h
  rw [if_neg h0]
  have bf : ∀ (g : User → Bool → User), (∀ u b, SafeUser u → SafeUser (g u b)) →
      SafeState (withCu st (fun cu => boolField cu r g)).1 := by
    intro g hg
    refine withCu_safe st _ h ?_ ?_
    · intro c hc; unfold boolField; split
      · exact hg _ _ hc
      · exact hc
    · intro c; unfold boolField; split <;> rfl
  by_cases h1 : k = kwName
  · rw [if_pos h1]
    exact withCu_safe st _ h (fun c hc => ⟨hr, hc.password, hc.caps, hc.hostmasks, hc.nicks, hc.gpgkeys⟩) (fun _ => rfl)
  rw [if_neg h1]
  by_cases h2 : k = kwIgnore
  · rw [if_pos h2]
    exact bf _ (fun u b hu => ⟨hu.name, hu.password, hu.caps, hu.hostmasks, hu.nicks, hu.gpgkeys⟩)
  rw [if_neg h2]
  by_cases h3 : k = kwSecure
  · rw [if_pos h3]
    exact bf _ (fun u b hu => ⟨hu.name, hu.password, hu.caps, hu.hostmasks, hu.nicks, hu.gpgkeys⟩)
  rw [if_neg h3]
  by_cases h4 : k = kwHashed
  · rw [if_pos h4]
    exact bf _ (fun u b hu => ⟨hu.name, hu.password, hu.caps, hu.hostmasks, hu.nicks, hu.gpgkeys⟩)
  rw [if_neg h4]
  by_cases h5 : k = kwPassword
  · rw [if_pos h5]
    exact withCu_safe st _ h (fun c hc => ⟨hc.name, hr, hc.caps, hc.hostmasks, hc.nicks, hc.gpgkeys⟩) (fun _ => rfl)
  rw [if_neg h5]
  by_cases h6 : k = kwHostmask
  · rw [if_pos h6]
    refine withCu_safe st _ h (fun c hc => ⟨hc.name, hc.password, hc.caps, ?_, hc.nicks, hc.gpgkeys⟩) (fun _ => rfl)
    intro x hx
    simp only [setRec, ircSetAdd] at hx
    split at hx
    · exact hc.hostmasks x hx
    · rcases List.mem_append.mp hx with hx | hx
      · exact hc.hostmasks x hx
      · simp only [List.mem_singleton] at hx; subst hx; exact hrc
  rw [if_neg h6]
  by_cases h7 : k = kwNicks
  · rw [if_pos h7]
    refine withCu_safe st _ h ?_ ?_
    · intro c hc
      split
      · exact hc
      · rename_i net nicks heq
        have hsplit := split1_eq heq
        refine ⟨hc.name, hc.password, hc.caps, hc.hostmasks, ?_, hc.gpgkeys⟩
        intro p hp
        rcases mem_dictSet' hp with rfl | hp
        · refine ⟨fun x hx => hr x (by rw [hsplit]; simp [hx]), ?_⟩
          intro n hn x hx
          exact hr x (by rw [hsplit]; simp [mem_splitChar nicks n hn x hx])
        · exact hc.nicks p hp
    · intro c; split <;> rfl
  rw [if_neg h7]
  by_cases h8 : k = kwCapability
  · rw [if_pos h8]
    refine withCu_safe st _ h ?_ (fun _ => rfl)
    intro c hc
    simp only []
    refine safeUser_caps hc _ ?_
    unfold userCapAdd liftR
    split
    · rename_i caps' hadd
      exact uadd_safe hadd hc.caps
    · exact hc.caps
  rw [if_neg h8]
  by_cases h9 : k = kwGpgkey
  · rw [if_pos h9]
    refine withCu_safe st _ h (fun c hc => ⟨hc.name, hc.password, hc.caps, hc.hostmasks, hc.nicks, ?_⟩) (fun _ => rfl)
    intro x hx
    simp only [setRec] at hx
    rcases List.mem_append.mp hx with hx | hx
    · exact hc.gpgkeys x hx
    · simp only [List.mem_singleton] at hx; subst hx; exact hr
  rw [if_neg h9]
  split <;> exact h

theorem removeHostmask_safe {u : User} (h : SafeUser u) (pat : Str) : SafeUser (removeHostmask u pat) :=
  ⟨h.name, h.password, h.caps, fun x hx => h.hostmasks x (List.mem_filter.mp hx).1, h.nicks, h.gpgkeys⟩

theorem getUserId_safe (E : Env) (users : List (Nat × User)) (s : Str) (h : ∀ p ∈ users, SafeUser p.2) :
    ∀ q ∈ (getUserId E users s).1, SafeUser q.2 := by
  intro q hq
  unfold getUserId at hq
  split at hq
  · simp only [] at hq
    split at hq
    · exact h q hq
    · exact h q hq
    · simp only [List.mem_map] at hq
      obtain ⟨p, hp, rfl⟩ := hq
      split
      · exact removeHostmask_safe (h p hp) _
      · exact h p hp
  · split at hq <;> exact h q hq

theorem setUser_safe (E : Env) (db : UsersDb) (id : Nat) (u : User) (h : ∀ p ∈ db.users, SafeUser p.2)
    (hu : SafeUser u) : ∀ p ∈ (setUser E db id u).1.users, SafeUser p.2 := by
  have hget := getUserId_safe E db.users u.name h
  have hput : ∀ p ∈ dictSet id u (getUserId E db.users u.name).1, SafeUser p.2 := by
    intro p hp
    rcases mem_dictSet' hp with rfl | hp
    · exact hu
    · exact hget p hp
  unfold setUser
  split
  · exact h
  · simp only []
    split
    · exact hget
    · split
      · exact hget
      · split
        · exact hget
        · exact hput
    · split
      · exact hget
      · exact hput

theorem userFinish_safe (E : Env) (st : UState) (h : SafeState st) : SafeState (userFinish E st).1 := by
  unfold userFinish
  cases hc : st.cu with
  | none => exact h
  | some cu =>
    simp only []
    have hcu := h.cu cu hc
    split
    · exact h
    · split
      · exact h
      · rename_i id hid
        have h1 := setUser_safe E st.db id cu.u h.users hcu
        have hcl : SafeUser { cu.u with hostmasks := [] } :=
          ⟨hcu.name, hcu.password, hcu.caps, fun x hx => (by cases hx), hcu.nicks, hcu.gpgkeys⟩
        have h2 := setUser_safe E (setUser E st.db id cu.u).1 id { cu.u with hostmasks := [] } h1 hcl
        split
        · exact ⟨h1, fun c hc' => (by simp at hc'), fun c hc' => (by simp at hc')⟩
        · split
          · exact ⟨h2, fun c hc' => (by simp at hc'), fun c hc' => (by simp at hc')⟩
          · refine ⟨h2, ?_, ?_⟩
            · intro c hc'
              simp only [Option.some.injEq] at hc'
              subst hc'
              exact hcl
            · intro c hc' hn
              simp only [Option.some.injEq] at hc'
              subst hc'
              simp [hid] at hn
        · refine ⟨h1, ?_, ?_⟩
          · intro c hc'
            simp only [Option.some.injEq] at hc'
            subst hc'
            exact hcu
          · intro c hc' hn
            simp only [Option.some.injEq] at hc'
            subst hc'
            simp [hid] at hn

theorem userNew_safe (st : UState) (h : SafeState st) : SafeState (userNew st) := by
  unfold userNew
  split
  · refine ⟨h.users, ?_, ?_⟩
    · intro c hc; simp only [Option.some.injEq] at hc; subst hc; exact safeUser_default
    · intro c hc _; simp only [Option.some.injEq] at hc; subst hc; rfl
  · exact h

theorem reindent_safe (E : Env) (rs : RState UState) (ind : Nat) (h : SafeState rs.st) :
    SafeState (reindent (userCreator E) rs ind).1.st := by
  unfold reindent
  split
  · exact h
  · have e1 : (userCreator E).finish rs.st = userFinish E rs.st := rfl
    have e2 : ∀ s, (userCreator E).new s = userNew s := fun _ => rfl
    rw [e1]
    simp only [e2]
    have hf : SafeState (if rs.hasCreator = true then userFinish E rs.st else (rs.st, none)).1 := by
      split
      · exact userFinish_safe E rs.st h
      · exact h
    generalize (if rs.hasCreator = true then userFinish E rs.st else (rs.st, none)) = r at hf ⊢
    split
    · exact hf
    · exact userNew_safe _ hf

theorem readParsed_safe (E : Env) (rs : RState UState) (P : Parsed) (h : SafeState rs.st)
    (hP : ∀ i k r, P = .cmd i k r → noBreak r) : SafeState (readParsed (userCreator E) rs P).1.st := by
  unfold readParsed
  cases P with
  | blank => exact h
  | bad i =>
    simp only []
    have := reindent_safe E rs i h
    split <;> exact this
  | cmd i k r =>
    simp only []
    have hr := reindent_safe E rs i h
    split
    · exact hr
    · exact userCall_safe _ k r hr (hP i k r rfl)

theorem readLines_safe (E : Env) (rs : RState UState) (ls : List Str) (h : SafeState rs.st)
    (hl : ∀ l ∈ ls, noBreak l) : SafeState (readLines (userCreator E) rs ls).1.st := by
  induction ls generalizing rs with
  | nil => exact h
  | cons l ls ih =>
    have h1 := readParsed_safe E rs (parseLine l) h
      (fun i k r hp => parseLine_rest_noBreak l i k r (hl l (by simp)) hp)
    unfold readLines
    simp only []
    split
    · exact h1
    · exact ih _ h1 (fun x hx => hl x (by simp [hx]))

/-- **Whatever the file**, every field of every loaded account is free of line breaks, every
loaded capability is a clean lower-case word, and a record left in the class attribute without an
id carries no capability. -/
theorem load_safe (E : Env) (cu0 : Option CU) (text : Str)
    (h0 : ∀ c, cu0 = some c → SafeUser c.u) (hcu : CuOk cu0) :
    SafeState (loadUsers E cu0 text).1 := by
  unfold loadUsers readText
  have hs : SafeState (⟨cu0, {}⟩ : UState) := ⟨fun p hp => (by cases hp), h0, hcu⟩
  have hl := readLines_safe E { st := ⟨cu0, {}⟩ } (fileLines text) hs (fileLinesAux_noBreak false text)
  simp only []
  split
  · exact hl
  · split
    · exact userFinish_safe E _ hl
    · exact hl

/-! ## whatever the file: the loaded table has one record per id, none above `nextId` -/

def IdsOk (db : UsersDb) : Prop :=
  (db.users.map (·.1)).Nodup ∧ ∀ p ∈ db.users, p.1 ≤ db.nextId

theorem dictSet_keys {α β : Type} [DecidableEq α] (k : α) (v : β) (l : List (α × β)) :
    (dictSet k v l).map (·.1) = if l.any (fun p => p.1 = k) then l.map (·.1) else l.map (·.1) ++ [k] := by
  unfold dictSet
  split
  · rw [List.map_map]
    apply List.map_congr_left
    intro p _
    simp only [Function.comp]
    split
    · rename_i h; exact h.symm
    · rfl
  · simp

theorem dictSet_nodup {α β : Type} [DecidableEq α] (k : α) (v : β) (l : List (α × β))
    (h : (l.map (·.1)).Nodup) : ((dictSet k v l).map (·.1)).Nodup := by
  rw [dictSet_keys]
  split
  · exact h
  · rename_i hk
    rw [List.nodup_append]
    refine ⟨h, by simp, ?_⟩
    intro a ha b hb
    simp only [List.mem_singleton] at hb
    subst hb
    intro e; subst e
    apply hk
    simp only [List.mem_map] at ha
    obtain ⟨p, hp, rfl⟩ := ha
    simp only [List.any_eq_true, decide_eq_true_eq]
    exact ⟨p, hp, rfl⟩

theorem getUserId_keys (E : Env) (users : List (Nat × User)) (s : Str) :
    (getUserId E users s).1.map (·.1) = users.map (·.1) := by
  unfold getUserId
  split
  · simp only []
    split
    · rfl
    · rfl
    · rw [List.map_map]
      apply List.map_congr_left
      intro p _
      simp only [Function.comp]
      split <;> rfl
  · split <;> rfl

theorem setUser_ids (E : Env) (db : UsersDb) (id : Nat) (u : User) (h : IdsOk db) : IdsOk (setUser E db id u).1 := by
  have hk := getUserId_keys E db.users u.name
  have h1 : IdsOk { users := (getUserId E db.users u.name).1, nextId := max db.nextId id } := by
    refine ⟨by rw [show ({ users := (getUserId E db.users u.name).1, nextId := max db.nextId id } : UsersDb).users
        = (getUserId E db.users u.name).1 from rfl, hk]; exact h.1, ?_⟩
    intro p hp
    have : p.1 ∈ db.users.map (·.1) := by rw [← hk]; exact List.mem_map_of_mem hp
    simp only [List.mem_map] at this
    obtain ⟨q, hq, e⟩ := this
    have := h.2 q hq
    show p.1 ≤ max db.nextId id
    omega
  have h2 : IdsOk { users := dictSet id u (getUserId E db.users u.name).1, nextId := max db.nextId id } := by
    refine ⟨dictSet_nodup _ _ _ h1.1, ?_⟩
    intro p hp
    rcases mem_dictSet' hp with rfl | hp
    · show id ≤ max db.nextId id; omega
    · exact h1.2 p hp
  unfold setUser
  split
  · exact h
  · simp only []
    split
    · exact h1
    · split
      · exact h1
      · split
        · exact h1
        · exact h2
    · split
      · exact h1
      · exact h2

theorem userFinish_ids (E : Env) (st : UState) (h : IdsOk st.db) : IdsOk (userFinish E st).1.db := by
  unfold userFinish
  cases hc : st.cu with
  | none => exact h
  | some cu =>
    simp only []
    split
    · exact h
    · split
      · exact h
      · rename_i id _
        have h1 := setUser_ids E st.db id cu.u h
        have h2 := setUser_ids E (setUser E st.db id cu.u).1 id { cu.u with hostmasks := [] } h1
        split
        · exact h1
        · split
          · exact h2
          · exact h2
        · exact h1

theorem reindent_ids (E : Env) (rs : RState UState) (ind : Nat) (h : IdsOk rs.st.db) :
    IdsOk (reindent (userCreator E) rs ind).1.st.db := by
  unfold reindent
  split
  · exact h
  · have e1 : (userCreator E).finish rs.st = userFinish E rs.st := rfl
    have e2 : ∀ s, (userCreator E).new s = userNew s := fun _ => rfl
    rw [e1]
    simp only [e2]
    have hf : IdsOk (if rs.hasCreator = true then userFinish E rs.st else (rs.st, none)).1.db := by
      split
      · exact userFinish_ids E rs.st h
      · exact h
    generalize (if rs.hasCreator = true then userFinish E rs.st else (rs.st, none)) = r at hf ⊢
    have hn : ∀ s : UState, (userNew s).db = s.db := by intro s; unfold userNew; split <;> rfl
    split
    · exact hf
    · show IdsOk (userNew r.1).db
      rw [hn]; exact hf

theorem readLines_ids (E : Env) (rs : RState UState) (ls : List Str) (h : IdsOk rs.st.db) :
    IdsOk (readLines (userCreator E) rs ls).1.st.db := by
  induction ls generalizing rs with
  | nil => exact h
  | cons l ls ih =>
    have h1 : IdsOk (readParsed (userCreator E) rs (parseLine l)).1.st.db := by
      unfold readParsed
      cases parseLine l with
      | blank => exact h
      | bad i =>
        simp only []
        have := reindent_ids E rs i h
        split <;> exact this
      | cmd i k r =>
        simp only []
        have hr := reindent_ids E rs i h
        split
        · exact hr
        · show IdsOk (userCall _ k r).1.db
          rw [userCall_db]; exact hr
    unfold readLines
    simp only []
    split
    · exact h1
    · exact ih _ h1

/-- **Whatever the file**, the loaded table has at most one record per id and `nextId` bounds them. -/
theorem load_ids (E : Env) (cu0 : Option CU) (text : Str) : IdsOk (loadUsers E cu0 text).1.db := by
  unfold loadUsers readText
  have h0 : IdsOk (⟨cu0, {}⟩ : UState).db := ⟨by simp, fun p hp => (by cases hp)⟩
  have hl := readLines_ids E { st := ⟨cu0, {}⟩ } (fileLines text) h0
  simp only []
  split
  · exact hl
  · split
    · exact userFinish_ids E _ hl
    · exact hl

/-! ## a load that stops part-way leaves a record with an id behind; with such a record every later
load of a written file stops at its first line (nothing is loaded) -/

/-- the class attribute holds a record that already has an id: the next `user` line raises -/
def Stuck (cu : Option CU) : Prop := ∃ c, cu = some c ∧ c.id.isSome = true

/-- a leftover record without id is a pristine `IrcUser()` -/
def CuFresh (cu : Option CU) : Prop := ∀ c, cu = some c → c.id = none → c.u = {}

theorem userFinish_cu (E : Env) (st : UState) (j : Nat) (w : User) (hst : st.cu = some { id := some j, u := w }) :
    ((userFinish E st).2 = none → (userFinish E st).1.cu = none ∨ (w.name = [] ∧ (userFinish E st).1.cu = st.cu)) ∧
    ((userFinish E st).2 ≠ none → Stuck (userFinish E st).1.cu) := by
  unfold userFinish
  simp only [hst]
  split
  · rename_i hn
    exact ⟨fun _ => Or.inr ⟨by simpa using hn, hst.symm ▸ rfl⟩, fun h => absurd rfl h⟩
  · split
    · exact ⟨fun _ => Or.inl rfl, fun h => absurd rfl h⟩
    · split
      · exact ⟨fun _ => Or.inl rfl, fun h => absurd rfl h⟩
      · exact ⟨fun h => (by simp at h), fun _ => ⟨_, rfl, rfl⟩⟩
    · exact ⟨fun h => (by simp at h), fun _ => ⟨_, rfl, rfl⟩⟩

theorem withCu_keeps_id (st : UState) (f : CU → CU × Option Err) (c : CU) (i : Nat) (hst : st.cu = some c)
    (hid : c.id = some i) (hf : ∀ x, (f x).1.id = x.id) : ∃ c', (withCu st f).1.cu = some c' ∧ c'.id = some i := by
  unfold withCu
  simp only [hst, hid, Option.isNone_some, Bool.false_eq_true, if_false]
  exact ⟨(f c).1, rfl, by rw [hf, hid]⟩

theorem userCall_keeps_id (st : UState) (c : CU) (i : Nat) (k r : Str) (hst : st.cu = some c) (hid : c.id = some i) :
    ∃ c', (userCall st k r).1.cu = some c' ∧ c'.id = some i := by
  have same : ∃ c', st.cu = some c' ∧ c'.id = some i := ⟨c, hst, hid⟩
  unfold userCall
  by_cases h0 : k = kwUser
  · rw [if_pos h0]
    simp only [hst, hid, Option.isSome_some, if_true]
    exact ⟨c, rfl, hid⟩
  rw [if_neg h0]
  have bf : ∀ (g : User → Bool → User) (x : CU), (boolField x r g).1.id = x.id := by
    intro g x; unfold boolField; split <;> rfl
  repeat' (first
    | exact withCu_keeps_id st _ c i hst hid (fun _ => rfl)
    | exact withCu_keeps_id st _ c i hst hid (bf _)
    | exact withCu_keeps_id st _ c i hst hid (fun x => by split <;> rfl)
    | exact same
    | split)

/-- position of the loop inside the record of account `i`, as far as the class attribute goes -/
def AtRec (i : Nat) (rs : RState UState) : Prop :=
  rs.hasCreator = true ∧ ∃ w, rs.st.cu = some { id := some i, u := w } ∧
    (rs.indent = some 2 ∨ (rs.indent = some 0 ∧ w.name = []))

theorem readParsed_atRec (E : Env) (i : Nat) (rs : RState UState) (P : Parsed) (h : AtRec i rs)
    (hP : P = .blank ∨ P = .bad 2 ∨ ∃ k r, P = .cmd 2 k r) :
    ((readParsed (userCreator E) rs P).2 = none → AtRec i (readParsed (userCreator E) rs P).1) ∧
    ((readParsed (userCreator E) rs P).2 ≠ none → Stuck (readParsed (userCreator E) rs P).1.st.cu) := by
  obtain ⟨hcr, w, hw, hind⟩ := h
  -- the indentation change of the first body line: `finish` does nothing (no name yet)
  have hre : ∃ rs', reindent (userCreator E) rs 2 = (rs', none) ∧ rs'.hasCreator = true ∧ rs'.indent = some 2 ∧
      rs'.st.cu = some { id := some i, u := w } := by
    unfold reindent
    rcases hind with h2 | ⟨h0, hname⟩
    · simp only [h2, if_true]
      exact ⟨rs, rfl, hcr, h2, hw⟩
    · have hne : rs.indent ≠ some 2 := by rw [h0]; simp
      have hfin : (userCreator E).finish rs.st = (rs.st, none) := by
        show userFinish E rs.st = _
        unfold userFinish
        simp [hw, hname]
      have hnew : (userCreator E).new rs.st = rs.st := by
        show userNew rs.st = _
        unfold userNew; rw [hw]
      simp only [hne, if_false, hcr, if_true, hfin, hnew]
      exact ⟨_, rfl, rfl, rfl, hw⟩
  obtain ⟨rs', hrs', hcr', hind', hcu'⟩ := hre
  rcases hP with rfl | rfl | ⟨k, r, rfl⟩
  · exact ⟨fun _ => ⟨hcr, w, hw, hind⟩, fun h => absurd rfl h⟩
  · unfold readParsed
    simp only [hrs']
    exact ⟨fun h => (by simp at h), fun _ => ⟨_, hcu', rfl⟩⟩
  · unfold readParsed
    simp only [hrs']
    have e3 : (userCreator E).call rs'.st k r = userCall rs'.st k r := rfl
    rw [e3]
    obtain ⟨c', hc', hid'⟩ := userCall_keeps_id rs'.st _ i k r hcu' rfl
    refine ⟨fun _ => ⟨hcr', c'.u, ?_, Or.inl hind'⟩, fun _ => ⟨c', hc', by rw [hid']; rfl⟩⟩
    show (userCall rs'.st k r).1.cu = _
    rw [hc']
    cases c' with
    | mk id u => simp only at hid'; rw [hid']

theorem readLines_atRec (E : Env) (i : Nat) (ls : List Str) (rs : RState UState) (h : AtRec i rs)
    (hl : ∀ l ∈ ls, parseLine l = .blank ∨ parseLine l = .bad 2 ∨ ∃ k r, parseLine l = .cmd 2 k r) :
    ((readLines (userCreator E) rs ls).2 = none → AtRec i (readLines (userCreator E) rs ls).1) ∧
    ((readLines (userCreator E) rs ls).2 ≠ none → Stuck (readLines (userCreator E) rs ls).1.st.cu) := by
  induction ls generalizing rs with
  | nil => exact ⟨fun _ => h, fun h => absurd rfl h⟩
  | cons l ls ih =>
    have h1 := readParsed_atRec E i rs (parseLine l) h (hl l (by simp))
    unfold readLines
    simp only []
    cases he : (readParsed (userCreator E) rs (parseLine l)).2 with
    | some e => exact ⟨fun h => (by simp at h), fun _ => h1.2 (by rw [he]; simp)⟩
    | none => exact ih _ (h1.1 he) (fun x hx => hl x (by simp [hx]))

/-- between two records, as far as the class attribute goes -/
def AtGap (rs : RState UState) : Prop :=
  (rs.hasCreator = false ∧ rs.indent = none ∧ rs.modified = false ∧ CuFresh rs.st.cu) ∨ ∃ j, AtRec j rs

theorem header_atGap (E : Env) (i : Nat) (rs : RState UState) (h : AtGap rs) :
    ((readParsed (userCreator E) rs (.cmd 0 kwUser (natDec i))).2 = none →
        AtRec i (readParsed (userCreator E) rs (.cmd 0 kwUser (natDec i))).1) ∧
    ((readParsed (userCreator E) rs (.cmd 0 kwUser (natDec i))).2 ≠ none →
        Stuck (readParsed (userCreator E) rs (.cmd 0 kwUser (natDec i))).1.st.cu) := by
  have hcall_fresh : ∀ db : UsersDb, userCall ⟨some {}, db⟩ kwUser (natDec i) = (⟨some { id := some i, u := {} }, db⟩, none) :=
    fun db => userCall_user db i _ (parseNat_natDec i)
  have e2 : ∀ s, (userCreator E).new s = userNew s := fun _ => rfl
  have e3 : ∀ s k r, (userCreator E).call s k r = userCall s k r := fun _ _ _ => rfl
  have stuck_call : ∀ (st : UState) (c : CU) (j : Nat), st.cu = some c → c.id = some j →
      userCall st kwUser (natDec i) = (st, some .valueError) := by
    intro st c j hc hj
    unfold userCall
    simp [hc, hj]
  rcases h with ⟨hcr, hind, _, hfresh⟩ | ⟨j, hcr, w, hw, hind⟩
  · have hne : rs.indent ≠ some 0 := by rw [hind]; simp
    unfold readParsed reindent
    simp only [hne, if_false, hcr, Bool.false_eq_true, e2, e3]
    cases hc : rs.st.cu with
    | none =>
      have : userNew rs.st = ⟨some {}, rs.st.db⟩ := by unfold userNew; rw [hc]
      rw [this, hcall_fresh]
      exact ⟨fun _ => ⟨rfl, {}, rfl, Or.inr ⟨rfl, rfl⟩⟩, fun h => absurd rfl h⟩
    | some c =>
      have hn : userNew rs.st = rs.st := by unfold userNew; rw [hc]
      rw [hn]
      cases hid : c.id with
      | some n =>
        rw [stuck_call rs.st c n hc hid]
        exact ⟨fun h => (by simp at h), fun _ => ⟨c, hc, by rw [hid]; rfl⟩⟩
      | none =>
        have hu := hfresh c hc hid
        have : rs.st = ⟨some {}, rs.st.db⟩ := by
          cases hst : rs.st with
          | mk cu db =>
            rw [hst] at hc
            simp only at hc
            subst hc
            cases c with
            | mk id u => simp only at hid hu; subst hid; subst hu; rfl
        rw [this, hcall_fresh]
        exact ⟨fun _ => ⟨rfl, {}, rfl, Or.inr ⟨rfl, rfl⟩⟩, fun h => absurd rfl h⟩
  · unfold readParsed reindent
    rcases hind with h2 | ⟨h0, _⟩
    · have hne : rs.indent ≠ some 0 := by rw [h2]; simp
      have e1 : (userCreator E).finish rs.st = userFinish E rs.st := rfl
      simp only [hne, if_false, hcr, if_true, e1, e2, e3]
      obtain ⟨hok, herr⟩ := userFinish_cu E rs.st j w hw
      cases hf : (userFinish E rs.st).2 with
      | some e =>
        simp only []
        exact ⟨fun h => (by simp at h), fun _ => herr (by rw [hf]; simp)⟩
      | none =>
        simp only []
        rcases hok hf with hnone | ⟨_, hsame⟩
        · have : userNew (userFinish E rs.st).1 = ⟨some {}, (userFinish E rs.st).1.db⟩ := by
            unfold userNew; rw [hnone]
          rw [this, hcall_fresh]
          exact ⟨fun _ => ⟨rfl, {}, rfl, Or.inr ⟨rfl, rfl⟩⟩, fun h => absurd rfl h⟩
        · have hc' : (userFinish E rs.st).1.cu = some { id := some j, u := w } := by rw [hsame, hw]
          have : userNew (userFinish E rs.st).1 = (userFinish E rs.st).1 := by unfold userNew; rw [hc']
          rw [this, stuck_call _ _ j hc' rfl]
          exact ⟨fun h => (by simp at h), fun _ => ⟨_, hc', rfl⟩⟩
    · simp only [h0, if_true, e3]
      rw [stuck_call rs.st _ j hw rfl]
      exact ⟨fun h => (by simp at h), fun _ => ⟨_, hw, rfl⟩⟩

theorem bodyParsed_weak {orig : List (Nat × User)} {i : Nat} {P : Parsed} (h : BodyParsed orig i P) :
    P = .blank ∨ P = .bad 2 ∨ ∃ k r, P = .cmd 2 k r := by
  rcases h with h | h | ⟨k, r, h, _⟩
  · exact Or.inl h
  · exact Or.inr (Or.inl h)
  · exact Or.inr (Or.inr ⟨k, r, h⟩)

theorem blocks_atGap (E : Env) (orig : List (Nat × User)) (bs : List (Nat × User))
    (hbs : ∀ b ∈ bs, b ∈ orig ∧ SafeUser b.2) (rs : RState UState) (h : AtGap rs) :
    ((readLines (userCreator E) rs ((bs.flatMap userBlock).flatMap phys)).2 = none →
      AtGap (readLines (userCreator E) rs ((bs.flatMap userBlock).flatMap phys)).1) ∧
    ((readLines (userCreator E) rs ((bs.flatMap userBlock).flatMap phys)).2 ≠ none →
      Stuck (readLines (userCreator E) rs ((bs.flatMap userBlock).flatMap phys)).1.st.cu) := by
  induction bs generalizing rs with
  | nil => exact ⟨fun _ => h, fun h => absurd rfl h⟩
  | cons b bs ih =>
    obtain ⟨hb, hs⟩ := hbs b (by simp)
    obtain ⟨_, tail, htail, hparsed⟩ := block_phys orig b hb hs
    simp only [List.flatMap_cons, List.flatMap_append, htail, List.cons_append]
    unfold readLines
    rw [parseLine_userHeader]
    have hh := header_atGap E b.1 rs h
    simp only []
    cases he : (readParsed (userCreator E) rs (.cmd 0 kwUser (natDec b.1))).2 with
    | some e => exact ⟨fun h => (by simp at h), fun _ => hh.2 (by rw [he]; simp)⟩
    | none =>
      simp only []
      rw [readLines_append]
      have ht := readLines_atRec E b.1 tail _ (hh.1 he) (fun l hl => bodyParsed_weak (hparsed l hl))
      cases he2 : (readLines (userCreator E) (readParsed (userCreator E) rs (.cmd 0 kwUser (natDec b.1))).1 tail).2 with
      | some e =>
        have : readLines (userCreator E) (readParsed (userCreator E) rs (.cmd 0 kwUser (natDec b.1))).1 tail =
            ((readLines (userCreator E) (readParsed (userCreator E) rs (.cmd 0 kwUser (natDec b.1))).1 tail).1, some e) := by
          rw [← he2]
        rw [this]
        exact ⟨fun h => (by simp at h), fun _ => ht.2 (by rw [he2]; simp)⟩
      | none =>
        have : readLines (userCreator E) (readParsed (userCreator E) rs (.cmd 0 kwUser (natDec b.1))).1 tail =
            ((readLines (userCreator E) (readParsed (userCreator E) rs (.cmd 0 kwUser (natDec b.1))).1 tail).1, none) := by
          rw [← he2]
        rw [this]
        simp only []
        exact ih (fun x hx => hbs x (by simp [hx])) _ (Or.inr ⟨b.1, ht.1 he2⟩)

theorem dump_lines (db : UsersDb) (hsafe : ∀ p ∈ db.users, SafeUser p.2) :
    (∀ b ∈ sortedUsers db, b ∈ db.users ∧ SafeUser b.2) ∧
    fileLines (dumpUsers db) = ((sortedUsers db).flatMap userBlock).flatMap phys := by
  have hmem : ∀ b ∈ sortedUsers db, b ∈ db.users ∧ SafeUser b.2 := by
    intro b hb
    have := (mem_sortBy _ _ _).mp hb
    exact ⟨this, hsafe b this⟩
  refine ⟨hmem, ?_⟩
  unfold dumpUsers
  apply fileLines_unlines_lf
  intro l hl
  simp only [List.mem_flatMap] at hl
  obtain ⟨b, hb, hl⟩ := hl
  exact (block_phys db.users b (hmem b hb).1 (hmem b hb).2).1 l hl

/-- **A load of a written file that stops part-way leaves a record with an id in the class
attribute** (so that every later load stops at its first `user` line). -/
theorem load_err_stuck (E : Env) (cu0 : Option CU) (db : UsersDb) (hcu : CuFresh cu0)
    (hsafe : ∀ p ∈ db.users, SafeUser p.2) :
    (loadUsers E cu0 (dumpUsers db)).2 ≠ none → Stuck (loadUsers E cu0 (dumpUsers db)).1.cu := by
  obtain ⟨hmem, hlines⟩ := dump_lines db hsafe
  unfold loadUsers readText
  rw [hlines]
  have hstart : AtGap ({ st := ⟨cu0, {}⟩ } : RState UState) := Or.inl ⟨rfl, rfl, rfl, hcu⟩
  obtain ⟨h1, h2⟩ := blocks_atGap E db.users (sortedUsers db) hmem _ hstart
  simp only []
  cases he : (readLines (userCreator E) { st := ⟨cu0, {}⟩ } (((sortedUsers db).flatMap userBlock).flatMap phys)).2 with
  | some e => intro _; exact h2 (by rw [he]; simp)
  | none =>
    simp only []
    rcases h1 he with ⟨_, _, hm, _⟩ | ⟨j, _, w, hw, _⟩
    · have : (readLines (userCreator E) { st := ⟨cu0, {}⟩ } (((sortedUsers db).flatMap userBlock).flatMap phys)).1.modified = false := hm
      simp only [this, Bool.false_eq_true, if_false]
      intro h; exact absurd rfl h
    · split
      · intro herr
        exact (userFinish_cu E _ j w hw).2 herr
      · intro h; exact absurd rfl h

/-- **With such a record, loading any written file loads nothing** and leaves the record there. -/
theorem load_stuck (E : Env) (cu0 : Option CU) (db : UsersDb) (hs : Stuck cu0)
    (hsafe : ∀ p ∈ db.users, SafeUser p.2) :
    (loadUsers E cu0 (dumpUsers db)).1.db.users = [] ∧ (loadUsers E cu0 (dumpUsers db)).1.cu = cu0 := by
  obtain ⟨c, hc, hid⟩ := hs
  obtain ⟨j, hj⟩ : ∃ j, c.id = some j := by
    cases h : c.id with
    | none => rw [h] at hid; cases hid
    | some j => exact ⟨j, rfl⟩
  obtain ⟨hmem, hlines⟩ := dump_lines db hsafe
  unfold loadUsers readText
  rw [hlines]
  cases hsrt : sortedUsers db with
  | nil => simp [readLines]
  | cons b bs =>
    obtain ⟨hb, hsb⟩ := hmem b (by rw [hsrt]; simp)
    obtain ⟨_, tail, htail, _⟩ := block_phys db.users b hb hsb
    simp only [List.flatMap_cons, List.flatMap_append, htail, List.cons_append]
    unfold readLines
    rw [parseLine_userHeader]
    have e2 : ∀ s, (userCreator E).new s = userNew s := fun _ => rfl
    have e3 : ∀ s k r, (userCreator E).call s k r = userCall s k r := fun _ _ _ => rfl
    have hn : userNew (⟨cu0, {}⟩ : UState) = ⟨cu0, {}⟩ := by unfold userNew; simp only [hc]
    have hcall : userCall (⟨cu0, {}⟩ : UState) kwUser (natDec b.1) = (⟨cu0, {}⟩, some .valueError) := by
      unfold userCall
      simp [hc, hj]
    unfold readParsed reindent
    simp [e2, e3, hn, hcall]

/-! ## whatever the file: a leftover record without id is pristine -/

theorem withCu_noid (st : UState) (f : CU → CU × Option Err) (h : ∀ c, st.cu = some c → c.id = none) :
    (withCu st f).1 = st := by
  unfold withCu
  cases hc : st.cu with
  | none => rfl
  | some c => simp [h c hc]

theorem userCall_fresh (st : UState) (k r : Str) (h : CuFresh st.cu) : CuFresh (userCall st k r).1.cu := by
  cases hc : st.cu with
  | some c =>
    cases hid : c.id with
    | some i =>
      obtain ⟨c', hc', hid'⟩ := userCall_keeps_id st c i k r hc hid
      intro x hx hn
      rw [hc'] at hx
      injection hx with hx
      subst hx
      rw [hid'] at hn
      cases hn
    | none =>
      have hno : ∀ x, st.cu = some x → x.id = none := by
        intro x hx; rw [hc] at hx; injection hx with hx; subst hx; exact hid
      unfold userCall
      by_cases h0 : k = kwUser
      · rw [if_pos h0]
        simp only [hc, hid, Option.isSome_none, Bool.false_eq_true, if_false]
        split
        · intro x hx hn
          simp only [Option.some.injEq] at hx
          subst hx
          cases hn
        · exact h
      · rw [if_neg h0]
        (repeat' split) <;> first
          | (rw [withCu_noid st _ hno]; exact h)
          | exact h
  | none =>
    have hno : ∀ x, st.cu = some x → x.id = none := by intro x hx; rw [hc] at hx; cases hx
    have h' : CuFresh st.cu := h
    unfold userCall
    by_cases h0 : k = kwUser
    · rw [if_pos h0]
      simp only [hc]
      intro x hx; cases hx
    rw [if_neg h0]
    by_cases h1 : k = kwName
    · rw [if_pos h1, withCu_noid st _ hno]; exact h'
    rw [if_neg h1]
    by_cases h2 : k = kwIgnore
    · rw [if_pos h2, withCu_noid st _ hno]; exact h'
    rw [if_neg h2]
    by_cases h3 : k = kwSecure
    · rw [if_pos h3, withCu_noid st _ hno]; exact h'
    rw [if_neg h3]
    by_cases h4 : k = kwHashed
    · rw [if_pos h4, withCu_noid st _ hno]; exact h'
    rw [if_neg h4]
    by_cases h5 : k = kwPassword
    · rw [if_pos h5, withCu_noid st _ hno]; exact h'
    rw [if_neg h5]
    by_cases h6 : k = kwHostmask
    · rw [if_pos h6, withCu_noid st _ hno]; exact h'
    rw [if_neg h6]
    by_cases h7 : k = kwNicks
    · rw [if_pos h7, withCu_noid st _ hno]; exact h'
    rw [if_neg h7]
    by_cases h8 : k = kwCapability
    · rw [if_pos h8, withCu_noid st _ hno]; exact h'
    rw [if_neg h8]
    by_cases h9 : k = kwGpgkey
    · rw [if_pos h9, withCu_noid st _ hno]; exact h'
    rw [if_neg h9]
    split <;> exact h'

theorem userFinish_fresh (E : Env) (st : UState) (h : CuFresh st.cu) : CuFresh (userFinish E st).1.cu := by
  unfold userFinish
  cases hc : st.cu with
  | none => exact h
  | some cu =>
    simp only []
    split
    · exact h
    · split
      · exact h
      · rename_i id hid
        split
        · intro x hx; cases hx
        · split
          · intro x hx; cases hx
          · intro x hx hn
            simp only [Option.some.injEq] at hx
            subst hx
            simp [hid] at hn
        · intro x hx hn
          have hx' : some cu = some x := hx
          injection hx' with hx'
          subst hx'
          rw [hid] at hn
          cases hn

theorem userNew_fresh (st : UState) (h : CuFresh st.cu) : CuFresh (userNew st).cu := by
  unfold userNew
  split
  · intro x hx _
    simp only [Option.some.injEq] at hx
    subst hx; rfl
  · exact h

theorem reindent_fresh (E : Env) (rs : RState UState) (ind : Nat) (h : CuFresh rs.st.cu) :
    CuFresh (reindent (userCreator E) rs ind).1.st.cu := by
  unfold reindent
  split
  · exact h
  · have e1 : (userCreator E).finish rs.st = userFinish E rs.st := rfl
    have e2 : ∀ s, (userCreator E).new s = userNew s := fun _ => rfl
    rw [e1]
    simp only [e2]
    have hf : CuFresh (if rs.hasCreator = true then userFinish E rs.st else (rs.st, none)).1.cu := by
      split
      · exact userFinish_fresh E rs.st h
      · exact h
    generalize (if rs.hasCreator = true then userFinish E rs.st else (rs.st, none)) = r at hf ⊢
    split
    · exact hf
    · exact userNew_fresh _ hf

theorem readLines_fresh (E : Env) (rs : RState UState) (ls : List Str) (h : CuFresh rs.st.cu) :
    CuFresh (readLines (userCreator E) rs ls).1.st.cu := by
  induction ls generalizing rs with
  | nil => exact h
  | cons l ls ih =>
    have h1 : CuFresh (readParsed (userCreator E) rs (parseLine l)).1.st.cu := by
      unfold readParsed
      cases parseLine l with
      | blank => exact h
      | bad i =>
        simp only []
        have := reindent_fresh E rs i h
        split <;> exact this
      | cmd i k r =>
        simp only []
        have hr := reindent_fresh E rs i h
        split
        · exact hr
        · exact userCall_fresh _ k r hr
    unfold readLines
    simp only []
    split
    · exact h1
    · exact ih _ h1

theorem load_fresh (E : Env) (cu0 : Option CU) (text : Str) (h : CuFresh cu0) :
    CuFresh (loadUsers E cu0 text).1.cu := by
  unfold loadUsers readText
  have hl := readLines_fresh E { st := ⟨cu0, {}⟩ } (fileLines text) h
  simp only []
  split
  · exact hl
  · split
    · exact userFinish_fresh E _ hl
    · exact hl

end C16
