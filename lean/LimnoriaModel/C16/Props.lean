/-
C16 — property theorems: the databases reload to what was saved.

`Storable…` (file `Storable.lean`, executable) spells out which states the unescaped line format
carries; for those the round trip is exact, the loader never raises and leaves no class-level
residue.  For the reachable states outside `Storable…` the negation is proved on witnesses
(the same witnesses are replayed on the real code by the harness and listed in
KNOWN_FINDINGS.json).
-/
import LimnoriaModel.C16.Lemmas
import LimnoriaModel.C16.Reload
import LimnoriaModel.C16.Order
namespace C16
open Py

/-! ## table obligations: the model's keywords are the ones the source uses now -/

def fmt1 (kw : Str) : Str := kw ++ [' ', '%', 's']

/-- `IrcUser.preserve` writes exactly these lines, in this order -/
theorem userWrites_table : Gen.Preserve.userWrites =
    [fmt1 kwName, fmt1 kwIgnore, fmt1 kwSecure, fmt1 kwHashed, fmt1 kwPassword, fmt1 kwCapability,
     fmt1 kwHostmask, kwNicks ++ [' ', '%', 's', ' ', '%', 's'], fmt1 kwGpgkey] := by decide

theorem chanWrites_table : Gen.Preserve.chanWrites =
    [fmt1 kwLobotomized, fmt1 kwDefaultAllowW, fmt1 kwCapability,
     kwBan ++ [' ', '%', 's', ' ', '%', 'd'], kwIgnore ++ [' ', '%', 's', ' ', '%', 'd']] := by decide

theorem netWrites_table : Gen.Preserve.netWrites =
    [kwStsPolicyW ++ [' ', '%', 's', ' ', '%', 's'], kwLastDiscW ++ [' ', '%', 's', ' ', '%', 's']] := by decide

/-- record headers, the line separator, the two-blank indent of the bodies -/
theorem flush_table :
    Gen.Preserve.usersFlush = [fmt1 kwUser, ['\n']] ∧
    Gen.Preserve.channelsFlush = [fmt1 kwChannel, ['\n']] ∧
    Gen.Preserve.networksFlush = [fmt1 kwNetwork, ['\n']] ∧
    Gen.Preserve.ignoresFlush = [['%', 's', ' ', '%', 's'], ['\n']] ∧
    Gen.Preserve.flushIndents = [[' ', ' '], [' ', ' '], [' ', ' ']] := by decide

/-- the readers dispatch on exactly the commands the model handles -/
theorem commands_table :
    Gen.Preserve.userCommands = [kwUser, kwName, kwIgnore, kwSecure, kwHashed, kwPassword, kwHostmask,
      kwNicks, kwCapability, kwGpgkey] ∧
    Gen.Preserve.chanCommands = [kwChannel, kwLobotomized, kwDefaultAllow, kwCapability, kwBan, kwIgnore] ∧
    Gen.Preserve.netCommands = [kwNetwork, kwStsPolicy, kwLastDisc] := by decide

/-- every written keyword is dispatched (after `lower()`) to a command of its reader -/
theorem written_keywords_dispatch :
    (∀ f ∈ Gen.Preserve.userWrites, asciiLower (f.takeWhile (· ≠ ' ')) ∈ Gen.Preserve.userCommands) ∧
    (∀ f ∈ Gen.Preserve.chanWrites, asciiLower (f.takeWhile (· ≠ ' ')) ∈ Gen.Preserve.chanCommands) ∧
    (∀ f ∈ Gen.Preserve.netWrites, asciiLower (f.takeWhile (· ≠ ' ')) ∈ Gen.Preserve.netCommands) := by decide

/-- the loop of `unpreserve.Reader.read` applies these string operations, in this order -/
theorem readerShape_table : Gen.Preserve.readerShape =
    ["strip()".toList, "rstrip('\\r\\n')".toList, "expandtabs()".toList, "lstrip(' ')".toList,
     "finish()".toList, "split(None,1)".toList, "normalizeCommand(_)".toList,
     "badCommand(_,_,_)".toList, "finish()".toList] := by decide

/-- this extractor and C03's read the same case table / channel defaults -/
theorem shared_tables :
    Gen.Preserve.rfc1459 = Gen.rfc1459Table ∧ Gen.Preserve.defaultOff = Gen.channelDefaultOff ∧
    Gen.Preserve.chantypes = Gen.chanTypes ∧ Gen.Preserve.channellen = Gen.channelLen ∧
    Gen.Preserve.userHostmaskRe = "^\\S+!\\S+@\\S+$".toList := by decide

/-! ## generic facts about the format (all strings) -/

/-- Text-mode reading splits a file exactly at the line terminators that were written: lines
free of CR/LF, each followed by LF, come back one by one. -/
theorem lines_roundtrip (ls : List Str) (h : ∀ l ∈ ls, ∀ c ∈ l, isBreak c = false) :
    fileLines (unlines ls) = ls := fileLines_unlines ls h

example : fileLines (unlines ["user 1".toList, "  name a b".toList, []]) =
    ["user 1".toList, "  name a b".toList, []] := by decide

/-- A written line (indentation, keyword, blank, clean value) is parsed back into exactly that
indentation, keyword and value — for every keyword without blanks and every clean value. -/
theorem line_roundtrip (n : Nat) (kw v : Str) (hk : KwOk kw) (hv : clean v = true) :
    parseLine (List.replicate n ' ' ++ sp kw v) = .cmd n (asciiLower kw) v :=
  parseLine_written n kw v hk hv

example : KwOk kwPassword ∧ clean "p w\x0b ".toList = true := ⟨kwOk_password, by decide⟩

/-! ## users.conf -/

/-- **Users round trip.**  For every storable user database (any `hostmaskPatternEqual`, any
`lower`, any iteration order of the capability and hostmask sets — they are lists here), loading
the text `flush` writes gives back exactly the same users (ids, names, password hashes, flags,
capabilities, hostmasks, nicks, gpg keys), in id order. -/
theorem users_roundtrip (E : Env) (db : UsersDb) (h : storableUsers E (sortedUsers db) = true) :
    (loadUsers E none (dumpUsers db)).1.db.users = sortedUsers db := by
  rw [loadUsers_dumpUsers E db h]

/-- **Loading never stops part-way** on a storable database, and the class attribute
`IrcUserCreator.u` is `None` again afterwards (so the next reload starts clean). -/
theorem users_load_total (E : Env) (db : UsersDb) (h : storableUsers E (sortedUsers db) = true) :
    (loadUsers E none (dumpUsers db)).2 = none ∧ (loadUsers E none (dumpUsers db)).1.cu = none := by
  rw [loadUsers_dumpUsers E db h]; exact ⟨rfl, rfl⟩

def E0 : Env := ⟨C03.glob, asciiLower, 0, patIntersect⟩

def exampleUsers : UsersDb :=
  { users := [(3, { name := "al".toList }),
              (1, { name := "bob x ".toList, password := "ab|cd".toList, hashed := true, secure := true,
                    caps := ["admin".toList, "-foo".toList, "#c,op".toList],
                    hostmasks := ["a!b@c".toList, "*!*@h.example".toList],
                    nicks := [("net".toList, ["x".toList, "y".toList])], gpgkeys := ["K1".toList] })],
    nextId := 7 }

/-- non-vacuity: a database with two accounts, every kind of field, stored out of id order -/
example : storableUsers E0 (sortedUsers exampleUsers) = true := by decide

example : (loadUsers E0 none (dumpUsers exampleUsers)).1.db.users = sortedUsers exampleUsers := by decide

/-! ### outside `Storable`: the full statement `∀ db, load (dump db) = db` is false.

Each witness below is a state the bot can reach (see KNOWN_FINDINGS.json for the commands). -/

-- full statement (false on the pinned tree, kept visible):
--   theorem users_roundtrip_all (E) (db) : (loadUsers E none (dumpUsers db)).1.db.users = sortedUsers db

def wLeadingBlank : UsersDb := { users := [(1, { name := " bob".toList })], nextId := 1 }

/-- finding C16-unescaped-field: a leading blank of a name is stripped by the reader -/
theorem users_roundtrip_partial_leading_blank :
    (loadUsers E0 none (dumpUsers wLeadingBlank)).1.db.users = [(1, { name := "bob".toList })] ∧
    (loadUsers E0 none (dumpUsers wLeadingBlank)).1.db.users ≠ sortedUsers wLeadingBlank := by decide

def wTab : UsersDb := { users := [(1, { name := "a\tb".toList })], nextId := 1 }

/-- … a TAB comes back as blanks up to the next multiple of 8 (column counted from the line start) -/
theorem users_roundtrip_partial_tab :
    (loadUsers E0 none (dumpUsers wTab)).1.db.users = [(1, { name := 'a' :: List.replicate 8 ' ' ++ ['b'] })] := by decide

def wNameless : UsersDb :=
  { users := [(1, { name := "al".toList }), (2, { name := [] }), (3, { name := "cy".toList })], nextId := 3 }

/-- finding C16-nameless-user: the loader raises at the nameless record; users 2 and 3 are lost
and the half-built record stays in the class attribute -/
theorem users_nameless_aborts :
    (loadUsers E0 none (dumpUsers wNameless)).2 = some .valueError ∧
    (loadUsers E0 none (dumpUsers wNameless)).1.db.users = [(1, { name := "al".toList })] ∧
    (loadUsers E0 none (dumpUsers wNameless)).1.cu = some { id := some 2, u := {} } := by decide

/-- … and with that residue the next load of a perfectly good file fails on its first line -/
theorem users_stale_creator_poisons_next_load :
    (loadUsers E0 (some { id := some 2, u := {} }) (dumpUsers exampleUsers)).2 = some .valueError ∧
    (loadUsers E0 (some { id := some 2, u := {} }) (dumpUsers exampleUsers)).1.db.users = [] := by decide

def wHashed : UsersDb := { users := [(1, { name := "al".toList, hashed := true })], nextId := 1 }

/-- finding C16-hashed-flag-without-password -/
theorem users_hashed_flag_lost :
    (loadUsers E0 none (dumpUsers wHashed)).1.db.users = [(1, { name := "al".toList, hashed := false })] := by decide

def wInversePair (caps : List Str) : UsersDb := { users := [(1, { name := "al".toList, caps := caps })], nextId := 1 }

/-- finding C16-capability-inverse-pair: `{--foo, -foo}` survives one iteration order of the set
and loses `-foo` in the other -/
theorem users_inverse_pair_order_dependent :
    (loadUsers E0 none (dumpUsers (wInversePair ["--foo".toList, "-foo".toList]))).1.db.users =
      [(1, { name := "al".toList, caps := ["--foo".toList, "-foo".toList] })] ∧
    (loadUsers E0 none (dumpUsers (wInversePair ["-foo".toList, "--foo".toList]))).1.db.users =
      [(1, { name := "al".toList, caps := ["--foo".toList] })] := by decide

def wHostmaskName : UsersDb :=
  { users := [(1, { name := "bob".toList, hostmasks := ["*!*@host.example".toList] }),
              (2, { name := "x!y@host.example".toList }), (3, { name := "cy".toList })], nextId := 3 }

/-- finding C16-hostmask-like-name: `DuplicateHostmask` escapes `finish`; users 2 and 3 are lost -/
theorem users_hostmask_like_name_aborts :
    (loadUsers E0 none (dumpUsers wHostmaskName)).2 = some .duplicateHostmask ∧
    (loadUsers E0 none (dumpUsers wHostmaskName)).1.db.users =
      [(1, { name := "bob".toList, hostmasks := ["*!*@host.example".toList] })] := by decide

/-- the repaired defect (DESIGN finding #1): a name with a line break is refused by `setUser`
(so it is never written); had it been written it would have been read back as a capability -/
theorem users_linebreak_name_refused (E : Env) (db : UsersDb) (id : Nat) (u : User)
    (h : hasLineBreak u.name = true) : setUser E db id u = (db, some .valueError) := by
  simp [setUser, h]

example : (loadUsers E0 none (dumpUsers ⟨[(1, { name := "x\n  capability owner".toList })], 1⟩)).1.db.users
    = [(1, { name := "x".toList, caps := ["owner".toList] })] := by decide

/-! ## channels.conf -/

/-- element-wise relation between two lists of the same length -/
inductive Rel2 {α β : Type} (R : α → β → Prop) : List α → List β → Prop
  | nil : Rel2 R [] []
  | cons {a : α} {b : β} {as : List α} {bs : List β} : R a b → Rel2 R as bs → Rel2 R (a :: as) (b :: bs)

/-- two channel records hold the same information: flags equal, the same capability *set*
(the reloaded one without duplicates), the same bans and ignores up to order -/
def ChanSame (a b : Chan) : Prop :=
  a.lobotomized = b.lobotomized ∧ a.defaultAllow = b.defaultAllow ∧
  a.caps.Nodup ∧ (∀ x, x ∈ a.caps ↔ x ∈ b.caps) ∧ a.bans.Perm b.bans ∧ a.ignores.Perm b.ignores

theorem loadedChan_same (c : Chan) (h : storableChan c = true) : ChanSame (loadedChan c) c := by
  have hc := storableChan_elim h
  obtain ⟨hn, hm⟩ := loadedCaps_equiv c.caps hc.caps
  exact ⟨rfl, rfl, hn, hm, sortBy_perm _ _, sortBy_perm _ _⟩

/-- **Channels round trip.**  For every storable channel database the reload yields, for every
channel (in name order, under the same key), a record with the same flags, the same set of
capabilities, the same bans and ignores with their expiry; the loader does not raise and
`IrcChannelCreator.name` is `None` again. -/
theorem channels_roundtrip (E : Env) (db : ChannelsDb) (h : storableChans E db = true) :
    Rel2 (fun a b => a.1 = b.1 ∧ ChanSame a.2 b.2)
      (loadChannels E none (dumpChannels db)).1.db (sortedChans db) ∧
    (sortedChans db).Perm db ∧
    (loadChannels E none (dumpChannels db)).2 = none ∧
    (loadChannels E none (dumpChannels db)).1.cname = none := by
  obtain ⟨h1, h2, h3⟩ := loadChannels_dumpChannels E db h
  refine ⟨?_, sortBy_perm _ _, h3, h2⟩
  rw [h1]
  have hall : ∀ p ∈ sortedChans db, storableChan p.2 = true := by
    intro p hp
    simp only [storableChans, Bool.and_eq_true, List.all_eq_true] at h
    exact (h.2 p hp).2
  generalize sortedChans db = l at hall
  induction l with
  | nil => exact Rel2.nil
  | cons p ps ih =>
    exact Rel2.cons ⟨rfl, loadedChan_same p.2 (hall p (by simp))⟩ (ih (fun q hq => hall q (by simp [hq])))

def exampleChans : ChannelsDb :=
  [("#z[".toList, { defaultAllow := false, caps := ["-voice".toList, "op".toList, "-halfop".toList, "x".toList, "-protected".toList],
                    bans := [("a!b@c".toList, 500), ("*!*@d".toList, 0)], ignores := [("x!y@z".toList, 7)] }),
   ("#a".toList, { lobotomized := true, caps := defaultChanCaps })]

example : storableChans E0 exampleChans = true := by decide

/-- finding C16-channel-default-anticapability: a removed default anti-capability is back -/
theorem channels_default_anticap_returns :
    (loadChannels E0 none (dumpChannels [("#c".toList,
        { caps := ["-halfop".toList, "-voice".toList, "-protected".toList] })])).1.db =
      [("#c".toList, { caps := ["-op".toList, "-halfop".toList, "-voice".toList, "-protected".toList] })] := by
  decide

/-- finding C16-expiry-beyond-2p53: expiries go through a double -/
theorem channels_expiry_rounded :
    (loadChannels E0 none (dumpChannels [("#c".toList,
        { caps := defaultChanCaps, bans := [("a!b@c".toList, 9007199254740993)] })])).1.db =
      [("#c".toList, { caps := defaultChanCaps, bans := [("a!b@c".toList, 9007199254740992)] })] := by
  decide

/-! ## networks.conf -/

def NetSame (a b : Net) : Prop := a.sts.Perm b.sts ∧ a.last.Perm b.last

/-- **Networks round trip**: every network comes back under its name with the same STS policies
and disconnect times; no exception; holds whatever `IrcNetworkCreator.name` was left by earlier
loads. -/
theorem networks_roundtrip (E : Env) (nname0 : Option Str) (db : NetworksDb) (h : storableNets E db = true) :
    Rel2 (fun a b => a.1 = b.1 ∧ NetSame a.2 b.2)
      (loadNetworks E nname0 (dumpNetworks db)).1.db (sortedNets db) ∧
    (sortedNets db).Perm db ∧
    (loadNetworks E nname0 (dumpNetworks db)).2 = none := by
  obtain ⟨h1, h2⟩ := loadNetworks_dumpNetworks E nname0 db h
  refine ⟨?_, sortBy_perm _ _, h2⟩
  rw [h1]
  generalize sortedNets db = l
  induction l with
  | nil => exact Rel2.nil
  | cons p ps ih => exact Rel2.cons ⟨rfl, sortBy_perm _ _, sortBy_perm _ _⟩ ih

def exampleNets : NetworksDb :=
  [("libera".toList, { sts := [("b.example".toList, "duration=300,port=6697".toList), ("a.example".toList, "port=1".toList)],
                       last := [("b.example".toList, 1700000000)] }),
   ("efnet".toList, { last := [("irc.x".toList, 5)] })]

example : storableNets E0 exampleNets = true := by decide

/-- outside Storable: a record without any line is overwritten by the next header (it carries no
policy, so nothing observable through `getNetwork` is lost; the harness canonicalises it away) -/
theorem networks_empty_record_dropped :
    (loadNetworks E0 none (dumpNetworks [("a".toList, {}), ("b".toList, { last := [("s".toList, 1)] })])).1.db =
      [("b".toList, { last := [("s".toList, 1)] })] := by decide

/-! ## ignores.conf -/

/-- **Ignores round trip**: exactly the unexpired entries come back (`flush` drops the others). -/
theorem ignores_roundtrip (E : Env) (db : IgnoresDb) (h : storableIgnores E.now db = true) :
    loadIgnores (dumpIgnores E db) = db.filter (unexpired E.now) :=
  loadIgnores_dumpIgnores E db h

example : storableIgnores 1000 [("a!b@c".toList, 0), ("*!*@x".toList, 2000), ("#old!x@y z".toList, 5)] = true := by decide

/-- finding C16-ignore-hostmask-hash -/
theorem ignores_hash_hostmask_lost :
    loadIgnores (dumpIgnores E0 [("#a!b@c".toList, 0), ("x!y@z".toList, 0)]) = [("x!y@z".toList, 0)] := by decide

/-! ## outside Storable, what can still be said (used by C02)

Leading blanks, TABs, keywords inside fields, a hostmask ending in LF, names that make the loader
raise: none of these can make the reader *add* anything to an account's capabilities. -/

/-- **A reload never adds a capability.**  If no stored field contains a line break (`SafeUser`;
a hostmask may end with one LF) then, whether or not the load completes and whatever half-built
record an earlier failed load left behind (`CuOk`), every capability of every loaded account was
a capability of the same account in the database that was written. -/
theorem users_reload_no_new_capability (E : Env) (cu0 : Option CU) (db : UsersDb) (hcu : CuOk cu0)
    (hsafe : ∀ p ∈ db.users, SafeUser p.2) :
    ∀ p ∈ (loadUsers E cu0 (dumpUsers db)).1.db.users, ∀ x ∈ p.2.caps, ∃ u, (p.1, u) ∈ db.users ∧ x ∈ u.caps :=
  load_caps_sub E cu0 db hcu hsafe

/-- non-vacuity: the hypothesis holds for a database with a leading blank, a TAB, a hostmask ending
in LF, and for a half-built record without id -/
example : (∀ p ∈ [(1, ({ name := " a\tb".toList, caps := ["owner".toList], hostmasks := ["a!b@c\n".toList] } : User))],
    SafeUser p.2) ∧ CuOk (some { id := none, u := { name := "left".toList } }) := by
  refine ⟨?_, ?_⟩
  · intro p hp
    simp only [List.mem_singleton] at hp
    subst hp
    exact ⟨by decide, by decide, by decide, by decide, by decide, by decide⟩
  · intro c hc _
    simp only [Option.some.injEq] at hc
    subst hc
    rfl

/-- the hypothesis is needed: with a line break in a field (the defect repaired in
`User.register`/`setUser`) the reader does add a capability -/
theorem users_linebreak_injects :
    (loadUsers E0 none (dumpUsers ⟨[(1, { name := "x\n  capability owner".toList })], 1⟩)).1.db.users =
      [(1, { name := "x".toList, caps := ["owner".toList] })] := by
  decide

/-- **Whatever the file contains**, every loaded field is free of line breaks and every loaded
capability is a clean lower-case word (so the hypothesis above holds again after any load). -/
theorem users_loaded_fields_safe (E : Env) (cu0 : Option CU) (text : Str)
    (h0 : ∀ c, cu0 = some c → SafeUser c.u) (hcu : CuOk cu0) :
    SafeState (loadUsers E cu0 text).1 :=
  load_safe E cu0 text h0 hcu

end C16
