/-
C16 — property theorems: the databases reload to what was saved.

`Storable…` (file `Storable.lean`, executable) spells out which states the unescaped line format
carries; for those the round trip is exact, the loader never raises and leaves no class-level
residue.  For the reachable states outside `Storable…` the negation is proved on witnesses
(the same witnesses are replayed on the real code by the harness and listed in
KNOWN_FINDINGS.json).
-/
import LimnoriaModel.C16.Lemmas
namespace C16
open Py

/-! ## table obligations: the model's keywords are the ones the source uses now -/

def fmt1 (kw : Str) : Str := kw ++ [' ', '%', 's']

/-- `IrcUser.preserve` writes exactly these lines, in this order -/
theorem userWrites_table : Gen.Preserve.userWrites =
    [fmt1 kwName, fmt1 kwIgnore, fmt1 kwSecure, fmt1 kwHashed, fmt1 kwPassword, fmt1 kwCapability,
     fmt1 kwHostmask, kwNicks ++ [' ', '%', 's', ' ', '%', 's'], fmt1 kwGpgkey] := by decide

theorem chanWrites_table : Gen.Preserve.chanWrites =
    [fmt1 kwLobotomized, fmt1 kwDefaultAllowW, fmt1 kwCapability,
     kwBan ++ [' ', '%', 's', ' ', '%', 'd'], kwIgnore ++ [' ', '%', 's', ' ', '%', 'd']] := by decide

theorem netWrites_table : Gen.Preserve.netWrites =
    [kwStsPolicyW ++ [' ', '%', 's', ' ', '%', 's'], kwLastDiscW ++ [' ', '%', 's', ' ', '%', 's']] := by decide

/-- record headers, the line separator, the two-blank indent of the bodies -/
theorem flush_table :
    Gen.Preserve.usersFlush = [fmt1 kwUser, ['\n']] ∧
    Gen.Preserve.channelsFlush = [fmt1 kwChannel, ['\n']] ∧
    Gen.Preserve.networksFlush = [fmt1 kwNetwork, ['\n']] ∧
    Gen.Preserve.ignoresFlush = [['%', 's', ' ', '%', 's'], ['\n']] ∧
    Gen.Preserve.flushIndents = [[' ', ' '], [' ', ' '], [' ', ' ']] := by decide

/-- the readers dispatch on exactly the commands the model handles -/
theorem commands_table :
    Gen.Preserve.userCommands = [kwUser, kwName, kwIgnore, kwSecure, kwHashed, kwPassword, kwHostmask,
      kwNicks, kwCapability, kwGpgkey] ∧
    Gen.Preserve.chanCommands = [kwChannel, kwLobotomized, kwDefaultAllow, kwCapability, kwBan, kwIgnore] ∧
    Gen.Preserve.netCommands = [kwNetwork, kwStsPolicy, kwLastDisc] := by decide

/-- every written keyword is dispatched (after `lower()`) to a command of its reader -/
theorem written_keywords_dispatch :
    (∀ f ∈ Gen.Preserve.userWrites, asciiLower (f.takeWhile (· ≠ ' ')) ∈ Gen.Preserve.userCommands) ∧
    (∀ f ∈ Gen.Preserve.chanWrites, asciiLower (f.takeWhile (· ≠ ' ')) ∈ Gen.Preserve.chanCommands) ∧
    (∀ f ∈ Gen.Preserve.netWrites, asciiLower (f.takeWhile (· ≠ ' ')) ∈ Gen.Preserve.netCommands) := by decide

/-- the loop of `unpreserve.Reader.read` applies these string operations, in this order -/
theorem readerShape_table : Gen.Preserve.readerShape =
    ["strip()".toList, "rstrip('\\r\\n')".toList, "expandtabs()".toList, "lstrip(' ')".toList,
     "finish()".toList, "split(None,1)".toList, "normalizeCommand(_)".toList,
     "badCommand(_,_,_)".toList, "finish()".toList] := by decide

/-- this extractor and C03's read the same case table / channel defaults -/
theorem shared_tables :
    Gen.Preserve.rfc1459 = Gen.rfc1459Table ∧ Gen.Preserve.defaultOff = Gen.channelDefaultOff ∧
    Gen.Preserve.chantypes = Gen.chanTypes ∧ Gen.Preserve.channellen = Gen.channelLen ∧
    Gen.Preserve.userHostmaskRe = "^\\S+!\\S+@\\S+$".toList := by decide

/-! ## generic facts about the format (all strings) -/

/-- Text-mode reading splits a file exactly at the line terminators that were written: lines
free of CR/LF, each followed by LF, come back one by one. -/
theorem lines_roundtrip (ls : List Str) (h : ∀ l ∈ ls, ∀ c ∈ l, isBreak c = false) :
    fileLines (unlines ls) = ls := fileLines_unlines ls h

example : fileLines (unlines ["user 1".toList, "  name a b".toList, []]) =
    ["user 1".toList, "  name a b".toList, []] := by decide

/-- A written line (indentation, keyword, blank, clean value) is parsed back into exactly that
indentation, keyword and value — for every keyword without blanks and every clean value. -/
theorem line_roundtrip (n : Nat) (kw v : Str) (hk : KwOk kw) (hv : clean v = true) :
    parseLine (List.replicate n ' ' ++ sp kw v) = .cmd n (asciiLower kw) v :=
  parseLine_written n kw v hk hv

example : KwOk kwPassword ∧ clean "p w\x0b ".toList = true := ⟨kwOk_password, by decide⟩

/-! ## users.conf -/

/-- **Users round trip.**  For every storable user database (any `hostmaskPatternEqual`, any
`lower`, any iteration order of the capability and hostmask sets — they are lists here), loading
the text `flush` writes gives back exactly the same users (ids, names, password hashes, flags,
capabilities, hostmasks, nicks, gpg keys), in id order. -/
theorem users_roundtrip (E : Env) (db : UsersDb) (h : storableUsers E (sortedUsers db) = true) :
    (loadUsers E none (dumpUsers db)).1.db.users = sortedUsers db := by
  rw [loadUsers_dumpUsers E db h]

/-- **Loading never stops part-way** on a storable database, and the class attribute
`IrcUserCreator.u` is `None` again afterwards (so the next reload starts clean). -/
theorem users_load_total (E : Env) (db : UsersDb) (h : storableUsers E (sortedUsers db) = true) :
    (loadUsers E none (dumpUsers db)).2 = none ∧ (loadUsers E none (dumpUsers db)).1.cu = none := by
  rw [loadUsers_dumpUsers E db h]; exact ⟨rfl, rfl⟩

def E0 : Env := ⟨C03.glob, asciiLower, 0⟩

def exampleUsers : UsersDb :=
  { users := [(3, { name := "al".toList }),
              (1, { name := "bob x ".toList, password := "ab|cd".toList, hashed := true, secure := true,
                    caps := ["admin".toList, "-foo".toList, "#c,op".toList],
                    hostmasks := ["a!b@c".toList, "*!*@h.example".toList],
                    nicks := [("net".toList, ["x".toList, "y".toList])], gpgkeys := ["K1".toList] })],
    nextId := 7 }

/-- non-vacuity: a database with two accounts, every kind of field, stored out of id order -/
example : storableUsers E0 (sortedUsers exampleUsers) = true := by decide

example : (loadUsers E0 none (dumpUsers exampleUsers)).1.db.users = sortedUsers exampleUsers := by decide

/-! ### outside `Storable`: the full statement `∀ db, load (dump db) = db` is false.

Each witness below is a state the bot can reach (see KNOWN_FINDINGS.json for the commands). -/

-- full statement (false on the pinned tree, kept visible):
--   theorem users_roundtrip_all (E) (db) : (loadUsers E none (dumpUsers db)).1.db.users = sortedUsers db

def wLeadingBlank : UsersDb := { users := [(1, { name := " bob".toList })], nextId := 1 }

/-- finding C16-unescaped-field: a leading blank of a name is stripped by the reader -/
theorem users_roundtrip_partial_leading_blank :
    (loadUsers E0 none (dumpUsers wLeadingBlank)).1.db.users = [(1, { name := "bob".toList })] ∧
    (loadUsers E0 none (dumpUsers wLeadingBlank)).1.db.users ≠ sortedUsers wLeadingBlank := by decide

def wTab : UsersDb := { users := [(1, { name := "a\tb".toList })], nextId := 1 }

/-- … a TAB comes back as blanks up to the next multiple of 8 (column counted from the line start) -/
theorem users_roundtrip_partial_tab :
    (loadUsers E0 none (dumpUsers wTab)).1.db.users = [(1, { name := 'a' :: List.replicate 8 ' ' ++ ['b'] })] := by decide

def wNameless : UsersDb :=
  { users := [(1, { name := "al".toList }), (2, { name := [] }), (3, { name := "cy".toList })], nextId := 3 }

/-- finding C16-nameless-user: the loader raises at the nameless record; users 2 and 3 are lost
and the half-built record stays in the class attribute -/
theorem users_nameless_aborts :
    (loadUsers E0 none (dumpUsers wNameless)).2 = some .valueError ∧
    (loadUsers E0 none (dumpUsers wNameless)).1.db.users = [(1, { name := "al".toList })] ∧
    (loadUsers E0 none (dumpUsers wNameless)).1.cu = some { id := some 2, u := {} } := by decide

/-- … and with that residue the next load of a perfectly good file fails on its first line -/
theorem users_stale_creator_poisons_next_load :
    (loadUsers E0 (some { id := some 2, u := {} }) (dumpUsers exampleUsers)).2 = some .valueError ∧
    (loadUsers E0 (some { id := some 2, u := {} }) (dumpUsers exampleUsers)).1.db.users = [] := by decide

def wHashed : UsersDb := { users := [(1, { name := "al".toList, hashed := true })], nextId := 1 }

/-- finding C16-hashed-flag-without-password -/
theorem users_hashed_flag_lost :
    (loadUsers E0 none (dumpUsers wHashed)).1.db.users = [(1, { name := "al".toList, hashed := false })] := by decide

def wInversePair (caps : List Str) : UsersDb := { users := [(1, { name := "al".toList, caps := caps })], nextId := 1 }

/-- finding C16-capability-inverse-pair: `{--foo, -foo}` survives one iteration order of the set
and loses `-foo` in the other -/
theorem users_inverse_pair_order_dependent :
    (loadUsers E0 none (dumpUsers (wInversePair ["--foo".toList, "-foo".toList]))).1.db.users =
      [(1, { name := "al".toList, caps := ["--foo".toList, "-foo".toList] })] ∧
    (loadUsers E0 none (dumpUsers (wInversePair ["-foo".toList, "--foo".toList]))).1.db.users =
      [(1, { name := "al".toList, caps := ["--foo".toList] })] := by decide

def wHostmaskName : UsersDb :=
  { users := [(1, { name := "bob".toList, hostmasks := ["*!*@host.example".toList] }),
              (2, { name := "x!y@host.example".toList }), (3, { name := "cy".toList })], nextId := 3 }

/-- finding C16-hostmask-like-name: `DuplicateHostmask` escapes `finish`; users 2 and 3 are lost -/
theorem users_hostmask_like_name_aborts :
    (loadUsers E0 none (dumpUsers wHostmaskName)).2 = some .duplicateHostmask ∧
    (loadUsers E0 none (dumpUsers wHostmaskName)).1.db.users =
      [(1, { name := "bob".toList, hostmasks := ["*!*@host.example".toList] })] := by decide

/-- the repaired defect (DESIGN finding #1): a name with a line break is refused by `setUser`
(so it is never written); had it been written it would have been read back as a capability -/
theorem users_linebreak_name_refused (E : Env) (db : UsersDb) (id : Nat) (u : User)
    (h : hasLineBreak u.name = true) : setUser E db id u = (db, some .valueError) := by
  simp [setUser, h]

example : (loadUsers E0 none (dumpUsers ⟨[(1, { name := "x\n  capability owner".toList })], 1⟩)).1.db.users
    = [(1, { name := "x".toList, caps := ["owner".toList] })] := by decide

end C16
