/-
C16 — the `Storable` predicates: which database states the line-oriented format carries
unchanged.  Executable (Bool) so that the driver can evaluate them and the harness can compare
them with its own classification of the states it builds; the round-trip theorems of
`Props.lean` have exactly these as hypotheses.
-/
import LimnoriaModel.C16.Model
namespace C16
open Py

/-- no TAB (expanded by the reader), no CR/LF (ends the line) -/
def noTabBreak (v : Str) : Bool := v.all (fun c => c != '\t' && c != '\n' && c != '\r')

/-- a rest-of-line value that comes back unchanged: not empty, does not start with a blank
(`split(None, 1)` strips those), no TAB/CR/LF.  Blanks inside and at the end are fine. -/
def clean (v : Str) : Bool :=
  match v with
  | [] => false
  | c :: _ => !isSpace c && noTabBreak v

/-- a value that is one `split()` word -/
def word (v : Str) : Bool := !v.isEmpty && v.all (fun c => !isSpace c)

def pairwiseB {α : Type} (r : α → α → Bool) : List α → Bool
  | [] => true
  | x :: xs => xs.all (r x) && pairwiseB r xs

/-- a capability list as `CapabilitySet.add` leaves it and as the file carries it: no
duplicates; every element is line-safe, already lower-cased, and its inverse is not in the set
(so that re-adding the elements in any order rebuilds the same set) -/
def capsOk (caps : List Str) : Bool :=
  pairwiseB (fun a b => a != b) caps &&
  caps.all (fun c => clean c && C03.toLower c == c &&
    (match C03.invertCapability c with
     | .ok i => !caps.contains i
     | .error _ => false))

def nickOk (n : Str) : Bool := n.all (fun c => c != ' ' && c != '\t' && c != '\n' && c != '\r')

def nicksEntryOk (p : Str × List Str) : Bool :=
  clean p.1 && p.1.all (fun c => c != ' ') && !p.2.isEmpty && p.2.all nickOk

def storableUser (u : User) : Bool :=
  clean u.name && !C03.isUserHostmask u.name &&
  (if u.password.isEmpty then !u.hashed else clean u.password) &&
  capsOk u.caps && u.caps.all (fun c => c != C03.antiOwnerS) &&
  u.hostmasks.all clean && pairwiseB (fun a b => C03.toLower a != C03.toLower b) u.hostmasks &&
  u.nicks.all nicksEntryOk && pairwiseB (fun a b => a.1 != b.1) u.nicks &&
  u.gpgkeys.all clean

/-- what `setUser` checks between two accounts: different names (case-insensitively) and no
hostmask of one matched by / matching a hostmask of the other -/
def noClash (E : Env) (p q : Nat × User) : Bool :=
  E.lower p.2.name != E.lower q.2.name &&
  q.2.hostmasks.all (fun h => p.2.hostmasks.all (fun o => !E.hm o h && !E.hmx h o))

/-- users in ascending id order, each storable, pairwise compatible -/
def storableUsers (E : Env) (us : List (Nat × User)) : Bool :=
  pairwiseB (fun p q => decide (p.1 < q.1) && noClash E p q) us && us.all (fun p => storableUser p.2)

def sortedUsers (db : UsersDb) : List (Nat × User) := sortBy (fun a b => decide (a.1 ≤ b.1)) db.users

/-! ## ignores.conf -/

def unexpired (now : Nat) (p : Str × Nat) : Bool := decide (now < p.2) || p.2 = 0

/-- an ignore entry the file carries: one word, a user hostmask, not starting with the comment
character, expiry exactly representable as a double -/
def storableIgnore (p : Str × Nat) : Bool :=
  word p.1 && C03.isUserHostmask p.1 && p.1.head? != some '#' && decide (p.2 < 2 ^ 53)

def storableIgnores (now : Nat) (db : IgnoresDb) : Bool :=
  pairwiseB (fun a b => a.1 != b.1) db && (db.filter (unexpired now)).all storableIgnore

/-! ## networks.conf -/

def sortedNet (n : Net) : Net :=
  { sts := sortBy (fun a b => strLe a.1 b.1) n.sts, last := sortBy (fun a b => strLe a.1 b.1) n.last }

/-- server names and policies are single words; a record without any line is not written in a
recoverable way (the next header overwrites it), so it must have at least one -/
def storableNet (n : Net) : Bool :=
  pairwiseB (fun a b => a.1 != b.1) n.sts && n.sts.all (fun p => word p.1 && word p.2) &&
  pairwiseB (fun a b => a.1 != b.1) n.last && n.last.all (fun p => word p.1) &&
  (!n.sts.isEmpty || !n.last.isEmpty)

def sortedNets (db : NetworksDb) : NetworksDb := sortBy (fun a b => strLe a.1 b.1) db

def storableNets (E : Env) (db : NetworksDb) : Bool :=
  pairwiseB (fun a b => C03.toLower a.1 != C03.toLower b.1) (sortedNets db) &&
  (sortedNets db).all (fun p => clean p.1 && E.lower p.1 == p.1 && storableNet p.2)

/-! ## channels.conf -/

/-- the capability list a reload builds: start from `IrcChannel()`'s default anti-capabilities
and add the written ones in order -/
def loadedCaps (caps : List Str) : List Str := caps.foldl (fun s c => (capAdd s c).1) defaultChanCaps

/-- `capsOk`, and every default anti-capability is either in the set or displaced by its inverse
(otherwise the reload adds it back) -/
def chanCapsOk (caps : List Str) : Bool :=
  capsOk caps &&
  defaultChanCaps.all (fun d => caps.contains d ||
    caps.any (fun c => match C03.invertCapability c with | .ok i => i == d | .error _ => false))

def expsOk (l : List (Str × Nat)) : Bool :=
  pairwiseB (fun a b => a.1 != b.1) l && l.all (fun p => word p.1 && decide (p.2 < 2 ^ 53))

def storableChan (c : Chan) : Bool := chanCapsOk c.caps && expsOk c.bans && expsOk c.ignores

def sortByExp (l : List (Str × Nat)) : List (Str × Nat) := sortBy (fun a b => decide (a.2 ≤ b.2)) l

/-- what a reload makes of a storable channel: same flags, same capability *set* (see
`loadedCaps_equiv`), bans and ignores in expiry order -/
def loadedChan (c : Chan) : Chan :=
  { lobotomized := c.lobotomized, defaultAllow := c.defaultAllow, caps := loadedCaps c.caps,
    bans := sortByExp c.bans, ignores := sortByExp c.ignores }

def sortedChans (db : ChannelsDb) : ChannelsDb := sortBy (fun a b => strLe a.1 b.1) db

def storableChans (E : Env) (db : ChannelsDb) : Bool :=
  pairwiseB (fun a b => C03.toLower a.1 != C03.toLower b.1) (sortedChans db) &&
  (sortedChans db).all (fun p => clean p.1 && E.lower p.1 == p.1 && storableChan p.2)

end C16
