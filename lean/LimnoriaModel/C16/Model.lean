/-
C16 — model of the four on-disk databases of src/ircdb.py (users.conf, channels.conf,
networks.conf, ignores.conf): the writers (`IrcUser/IrcChannel/IrcNetwork.preserve`, the
`flush` methods), the generic block reader `unpreserve.Reader.read`, the three `*Creator`
classes including their class-level state, `UsersDictionary.setUser` as used by the loader
(duplicate-name and duplicate-hostmask rejection, the `finish` fallback), `IgnoresDB.open/flush`.

The capability string algebra, `toLower`, `isUserHostmask` and the hostmask glob come from
`C03.Model` (shared API).  Parameters (`Env`): `hm` = `ircutils.hostmaskPatternEqual`
(instantiated with `C03.glob` in the driver; the theorems hold for every `hm`), `lower` =
`str.lower` (ASCII part in the driver), `now` for the ignore expiry test.

Python sets/dicts are lists in iteration order; the writers emit in that order, so that the
model's text can be compared with the real file byte for byte when the harness passes the real
iteration order.
-/
import LimnoriaModel.C16.PyExtra
import LimnoriaModel.C03.Model
import LimnoriaModel.Gen.Preserve
namespace C16
open Py

/-- Python exception classes that can end a load -/
inductive Err
  | valueError | assertionError | typeError | duplicateHostmask | keyError | overflowError
  | attributeError
deriving DecidableEq, Repr

def Err.ofC03 : C03.Err → Err
  | .assertion => .assertionError
  | .key => .keyError
  | .value => .valueError

structure Env where
  /-- `ircutils.hostmaskPatternEqual(pattern, hostmask)` -/
  hm : Str → Str → Bool
  /-- `str.lower()` -/
  lower : Str → Str
  /-- `time.time()` at flush (ignores.conf only) -/
  now : Nat := 0
  /-- `ircutils.hostmaskPatternsIntersect(pattern1, pattern2)` -/
  hx : Str → Str → Bool := fun _ _ => false

/-- the test `setUser` makes between a hostmask of the record being stored and a hostmask of
another account: `hostmaskPatternEqual(h, o) or hostmaskPatternsIntersect(h, o)` -/
def Env.hmx (E : Env) (h o : Str) : Bool := E.hm h o || E.hx h o

/-! ## keywords (the Gen tables tie them to the source, see `Props.lean`) -/
def kwUser : Str := ['u', 's', 'e', 'r']
def kwName : Str := ['n', 'a', 'm', 'e']
def kwIgnore : Str := ['i', 'g', 'n', 'o', 'r', 'e']
def kwSecure : Str := ['s', 'e', 'c', 'u', 'r', 'e']
def kwHashed : Str := ['h', 'a', 's', 'h', 'e', 'd']
def kwPassword : Str := ['p', 'a', 's', 's', 'w', 'o', 'r', 'd']
def kwCapability : Str := ['c', 'a', 'p', 'a', 'b', 'i', 'l', 'i', 't', 'y']
def kwHostmask : Str := ['h', 'o', 's', 't', 'm', 'a', 's', 'k']
def kwNicks : Str := ['n', 'i', 'c', 'k', 's']
def kwGpgkey : Str := ['g', 'p', 'g', 'k', 'e', 'y']
def kwChannel : Str := ['c', 'h', 'a', 'n', 'n', 'e', 'l']
def kwLobotomized : Str := ['l', 'o', 'b', 'o', 't', 'o', 'm', 'i', 'z', 'e', 'd']
/-- as written (`defaultAllow`) -/
def kwDefaultAllowW : Str := ['d', 'e', 'f', 'a', 'u', 'l', 't', 'A', 'l', 'l', 'o', 'w']
/-- as dispatched (`defaultallow`) -/
def kwDefaultAllow : Str := ['d', 'e', 'f', 'a', 'u', 'l', 't', 'a', 'l', 'l', 'o', 'w']
def kwBan : Str := ['b', 'a', 'n']
def kwNetwork : Str := ['n', 'e', 't', 'w', 'o', 'r', 'k']
def kwStsPolicyW : Str := ['s', 't', 's', 'P', 'o', 'l', 'i', 'c', 'y']
def kwStsPolicy : Str := ['s', 't', 's', 'p', 'o', 'l', 'i', 'c', 'y']
def kwLastDiscW : Str :=
  ['l', 'a', 's', 't', 'D', 'i', 's', 'c', 'o', 'n', 'n', 'e', 'c', 't', 'T', 'i', 'm', 'e']
def kwLastDisc : Str :=
  ['l', 'a', 's', 't', 'd', 'i', 's', 'c', 'o', 'n', 'n', 'e', 'c', 't', 't', 'i', 'm', 'e']

/-! ## records -/

/-- the persisted part of `IrcUser` (`auth` is run-time only) -/
structure User where
  name : Str := []
  ignore : Bool := false
  secure : Bool := false
  hashed : Bool := false
  password : Str := []
  /-- `UserCapabilitySet`, iteration order -/
  caps : List Str := []
  /-- `IrcSet`, iteration order -/
  hostmasks : List Str := []
  /-- `{network: [nick, …]}` in dict order -/
  nicks : List (Str × List Str) := []
  gpgkeys : List Str := []
deriving DecidableEq, Repr

structure UsersDb where
  /-- `UsersDictionary.users` in dict (insertion) order -/
  users : List (Nat × User) := []
  nextId : Nat := 0
deriving DecidableEq, Repr

/-- the persisted part of `IrcChannel` (silences/exceptions/expiredBans are not written) -/
structure Chan where
  lobotomized : Bool := false
  defaultAllow : Bool := true
  caps : List Str := []
  bans : List (Str × Nat) := []
  ignores : List (Str × Nat) := []
deriving DecidableEq, Repr

/-- `ChannelsDictionary.channels` (an IrcDict): preserved key ↦ record, in dict order; two
entries never have the same `toLower` key -/
abbrev ChannelsDb := List (Str × Chan)

structure Net where
  sts : List (Str × Str) := []
  last : List (Str × Nat) := []
deriving DecidableEq, Repr

abbrev NetworksDb := List (Str × Net)

/-- `IgnoresDB.hostmasks` -/
abbrev IgnoresDb := List (Str × Nat)

/-! ## writers -/

def sp (kw v : Str) : Str := kw ++ ' ' :: v

/-- `'%s' % n` / `'%d' % n` for a natural number (same digits as `Py.natToStr`, defined on lists
so that it evaluates inside the kernel) -/
def natDec (n : Nat) : Str := Nat.toDigits 10 n

/-- the `(keyword, value)` pairs `IrcUser.preserve` writes, in order -/
def userCmds (u : User) : List (Str × Str) :=
  [(kwName, u.name), (kwIgnore, boolStr u.ignore), (kwSecure, boolStr u.secure)] ++
  (if u.password.isEmpty then [] else [(kwHashed, boolStr u.hashed), (kwPassword, u.password)]) ++
  u.caps.map (fun c => (kwCapability, c)) ++
  u.hostmasks.map (fun h => (kwHostmask, h)) ++
  u.nicks.map (fun p => (kwNicks, sp p.1 (joinChar ' ' p.2))) ++
  u.gpgkeys.map (fun k => (kwGpgkey, k))

def cmdLine (p : Str × Str) : Str := sp p.1 p.2

/-- the lines `IrcUser.preserve` writes (without indent and line separator) -/
def userLines (u : User) : List Str := (userCmds u).map cmdLine

def indent2 (l : Str) : Str := ' ' :: ' ' :: l

/-- the lines of one record: header, indented body, the empty line `preserve` ends with -/
def blockLines (hdr : Str) (body : List Str) : List Str := hdr :: body.map indent2 ++ [[]]

def unlines (ls : List Str) : Str := ls.flatMap (fun l => l ++ ['\n'])

def userBlock (p : Nat × User) : List Str := blockLines (sp kwUser (natDec p.1)) (userLines p.2)

/-- `UsersDictionary.flush`: the text of users.conf -/
def dumpUsers (db : UsersDb) : Str :=
  unlines ((sortBy (fun a b => decide (a.1 ≤ b.1)) db.users).flatMap userBlock)

def expCmd (kw : Str) (p : Str × Nat) : Str × Str := (kw, sp p.1 (natDec p.2))

def chanCmds (c : Chan) : List (Str × Str) :=
  [(kwLobotomized, boolStr c.lobotomized), (kwDefaultAllowW, boolStr c.defaultAllow)] ++
  c.caps.map (fun x => (kwCapability, x)) ++
  (sortBy (fun a b => decide (a.2 ≤ b.2)) c.bans).map (expCmd kwBan) ++
  (sortBy (fun a b => decide (a.2 ≤ b.2)) c.ignores).map (expCmd kwIgnore)

def chanLines (c : Chan) : List Str := (chanCmds c).map cmdLine

def chanBlock (p : Str × Chan) : List Str := blockLines (sp kwChannel p.1) (chanLines p.2)

/-- `ChannelsDictionary.flush` -/
def dumpChannels (db : ChannelsDb) : Str :=
  unlines ((sortBy (fun a b => strLe a.1 b.1) db).flatMap chanBlock)

def netCmds (n : Net) : List (Str × Str) :=
  (sortBy (fun a b => strLe a.1 b.1) n.sts).map (fun p => (kwStsPolicyW, sp p.1 p.2)) ++
  (sortBy (fun a b => strLe a.1 b.1) n.last).map (expCmd kwLastDiscW)

def netLines (n : Net) : List Str := (netCmds n).map cmdLine

def netBlock (p : Str × Net) : List Str := blockLines (sp kwNetwork p.1) (netLines p.2)

/-- `NetworksDictionary.flush` -/
def dumpNetworks (db : NetworksDb) : Str :=
  unlines ((sortBy (fun a b => strLe a.1 b.1) db).flatMap netBlock)

/-- `IgnoresDB.flush`: only unexpired entries are written -/
def dumpIgnores (E : Env) (db : IgnoresDb) : Str :=
  unlines ((db.filter (fun p => decide (E.now < p.2) || p.2 = 0)).map (fun p => sp p.1 (natDec p.2)))

/-! ## `unpreserve.Reader` -/

/-- what `Reader.read` extracts from one line -/
inductive Parsed
  | blank                                   -- `if not line.strip(): continue`
  | bad (indent : Nat)                      -- `(command, rest) = s.split(None, 1)` fails
  | cmd (indent : Nat) (command rest : Str)
deriving DecidableEq, Repr

/-- strip test, `expandtabs`, `lstrip(' ')`, indent, `split(None, 1)`, `lower` -/
def parseLine (line : Str) : Parsed :=
  if (strip line).isEmpty then .blank
  else
    let l := expandTabs line
    let s := lstripP (fun c => c = ' ') l
    let ind := l.length - s.length
    match splitNone1 s with
    | [command, rest] => .cmd ind (asciiLower command) rest
    | _ => .bad ind

/-- a reader class: state `σ` holds the instance attributes, the class attributes that survive
instances, and the database being filled.  Every operation returns the state it leaves behind
even when it raises. -/
structure Creator (σ : Type) where
  new : σ → σ
  finish : σ → σ × Option Err
  call : σ → Str → Str → σ × Option Err

structure RState (σ : Type) where
  hasCreator : Bool := false
  indent : Option Nat := none
  modified : Bool := false
  st : σ

/-- the "new indentation level" branch -/
def reindent {σ : Type} (C : Creator σ) (rs : RState σ) (ind : Nat) : RState σ × Option Err :=
  if rs.indent = some ind then (rs, none)
  else
    let r := if rs.hasCreator then C.finish rs.st else (rs.st, none)
    match r.2 with
    | some e => ({ rs with st := r.1 }, some e)
    | none => ({ hasCreator := true, indent := some ind, modified := false, st := C.new r.1 }, none)

/-- one iteration of the loop body -/
def readParsed {σ : Type} (C : Creator σ) (rs : RState σ) : Parsed → RState σ × Option Err
  | .blank => (rs, none)
  | .bad ind =>
    let r := reindent C rs ind
    match r.2 with
    | some e => (r.1, some e)
    | none => (r.1, some .valueError)
  | .cmd ind command rest =>
    let r := reindent C rs ind
    match r.2 with
    | some e => (r.1, some e)
    | none =>
      let c := C.call r.1.st command rest
      ({ r.1 with modified := true, st := c.1 }, c.2)

/-- the loop; stops at the first exception with the state reached -/
def readLines {σ : Type} (C : Creator σ) : RState σ → List Str → RState σ × Option Err
  | rs, [] => (rs, none)
  | rs, l :: ls =>
    let r := readParsed C rs (parseLine l)
    match r.2 with
    | some e => (r.1, some e)
    | none => readLines C r.1 ls

/-- `Reader(Creator, …).read(fd)`: the loop, then `if self.modifiedCreator: creator.finish()` -/
def readText {σ : Type} (C : Creator σ) (st : σ) (text : Str) : σ × Option Err :=
  let r := readLines C { st := st } (fileLines text)
  match r.2 with
  | some e => (r.1.st, some e)
  | none => if r.1.modified then C.finish r.1.st else (r.1.st, none)

/-! ## capability sets (C03) with this file's error type -/

def liftR {α : Type} (dflt : α) : C03.R α → α × Option Err
  | .ok a => (a, none)
  | .error e => (dflt, some (Err.ofC03 e))

/-- `UserCapabilitySet.add` -/
def userCapAdd (caps : List Str) (c : Str) : List Str × Option Err := liftR caps (C03.uadd caps c)

/-- `CapabilitySet.add` -/
def capAdd (caps : List Str) (c : Str) : List Str × Option Err := liftR caps (C03.CapSet.add caps c)

/-- `IrcSet.add`: equality and hashing of `IrcString` go through `toLower`; an element equal to
one already present is not inserted (the old spelling stays) -/
def ircSetAdd (hs : List Str) (h : Str) : List Str :=
  if hs.any (fun x => C03.toLower x = C03.toLower h) then hs else hs ++ [h]

/-! ## users.conf: `IrcUserCreator` and `UsersDictionary.setUser` -/

/-- the `IrcUser` under construction (`IrcUserCreator.u`, a class attribute) -/
structure CU where
  id : Option Nat := none
  u : User := {}
deriving DecidableEq, Repr

structure UState where
  /-- `IrcUserCreator.u` -/
  cu : Option CU := none
  db : UsersDb := {}
deriving DecidableEq, Repr

/-- first pattern of the user matching `h` (`IrcUser.checkHostmask` without logins: after a
reload nobody is identified) -/
def patMatch (E : Env) (u : User) (h : Str) : Option Str := u.hostmasks.find? (fun p => E.hm p h)

def removeHostmask (u : User) (pat : Str) : User :=
  { u with hostmasks := u.hostmasks.filter (fun x => C03.toLower x ≠ C03.toLower pat) }

/-- outcome of `getUserId(name)` inside `setUser` (caches are empty or agree, see file header) -/
inductive IdLookup
  | found (id : Nat)
  | missing
  | duplicate
deriving DecidableEq, Repr

/-- `UsersDictionary.getUserId(s)` without caches; for several hostmask matches the offending
patterns are removed from their users before `DuplicateHostmask` is raised -/
def getUserId (E : Env) (users : List (Nat × User)) (s : Str) : List (Nat × User) × IdLookup :=
  if C03.isUserHostmask s then
    let hits := users.filterMap (fun p => (patMatch E p.2 s).map (fun pat => (p.1, pat)))
    match hits with
    | [] => (users, .missing)
    | [h] => (users, .found h.1)
    | _ =>
      (users.map (fun p =>
          match dictGet p.1 hits with
          | some pat => (p.1, removeHostmask p.2 pat)
          | none => p), .duplicate)
  else
    match users.find? (fun p => E.lower p.2.name = E.lower s) with
    | some p => (users, .found p.1)
    | none => (users, .missing)

/-- the double loop of `setUser`: some hostmask of the new record is matched by, matches, or has a
hostmask in common with, a pattern of another user -/
def hostmaskClash (E : Env) (users : List (Nat × User)) (id : Nat) (u : User) : Bool :=
  u.hostmasks.any (fun h =>
    users.any (fun p => p.1 ≠ id &&
      ((patMatch E p.2 h).isSome || p.2.hostmasks.any (fun o => E.hmx h o))))

def hasLineBreak (s : Str) : Bool := s.any (fun c => c = '\n' || c = '\r')

/-- `UsersDictionary.setUser(user)` (flushing is switched off while loading) -/
def setUser (E : Env) (db : UsersDb) (id : Nat) (u : User) : UsersDb × Option Err :=
  if hasLineBreak u.name then (db, some .valueError)
  else
    let db1 := { db with nextId := max db.nextId id }
    let r := getUserId E db1.users u.name
    let db2 := { db1 with users := r.1 }
    match r.2 with
    | .duplicate => (db2, some .duplicateHostmask)
    | .found i =>
      if i ≠ id then (db2, some .duplicateHostmask)
      else if hostmaskClash E db2.users id u then (db2, some .duplicateHostmask)
      else ({ db2 with users := dictSet id u db2.users }, none)
    | .missing =>
      if hostmaskClash E db2.users id u then (db2, some .duplicateHostmask)
      else ({ db2 with users := dictSet id u db2.users }, none)

/-- `IrcUserCreator.finish` -/
def userFinish (E : Env) (st : UState) : UState × Option Err :=
  match st.cu with
  | none => (st, some .attributeError)
  | some cu =>
    if cu.u.name.isEmpty then (st, none)
    else match cu.id with
      | none => (st, some .typeError)
      | some id =>
        let r := setUser E st.db id cu.u
        match r.2 with
        | none => ({ cu := none, db := r.1 }, none)
        | some .duplicateHostmask =>
          let u' := { cu.u with hostmasks := [] }
          let r2 := setUser E r.1 id u'
          match r2.2 with
          | none => ({ cu := none, db := r2.1 }, none)
          | some e => ({ cu := some { cu with u := u' }, db := r2.1 }, some e)
        | some e => ({ st with db := r.1 }, some e)

/-- `IrcUserCreator.__init__` -/
def userNew (st : UState) : UState :=
  match st.cu with
  | none => { st with cu := some {} }
  | some _ => st

/-- a field command: `self._checkId()` then an update of `self.u` -/
def withCu (st : UState) (f : CU → CU × Option Err) : UState × Option Err :=
  match st.cu with
  | none => (st, some .attributeError)
  | some cu =>
    if cu.id.isNone then (st, some .valueError)
    else
      let r := f cu
      ({ st with cu := some r.1 }, r.2)

def setRec (cu : CU) (f : User → User) : CU × Option Err := ({ cu with u := f cu.u }, none)

def boolField (cu : CU) (rest : Str) (f : User → Bool → User) : CU × Option Err :=
  match evalBool rest with
  | some b => setRec cu (fun u => f u b)
  | none => (cu, some .valueError)

/-- dispatch `getattr(creator, command)(rest, lineno)` / `badCommand` -/
def userCall (st : UState) (command rest : Str) : UState × Option Err :=
  if command = kwUser then
    match st.cu with
    | none => (st, some .attributeError)
    | some cu =>
      if cu.id.isSome then (st, some .valueError)
      else match parseNat rest with
        | some n => ({ st with cu := some { cu with id := some n } }, none)
        | none => (st, some .valueError)
  else if command = kwName then withCu st (fun cu => setRec cu (fun u => { u with name := rest }))
  else if command = kwIgnore then withCu st (fun cu => boolField cu rest (fun u b => { u with ignore := b }))
  else if command = kwSecure then withCu st (fun cu => boolField cu rest (fun u b => { u with secure := b }))
  else if command = kwHashed then withCu st (fun cu => boolField cu rest (fun u b => { u with hashed := b }))
  else if command = kwPassword then withCu st (fun cu => setRec cu (fun u => { u with password := rest }))
  else if command = kwHostmask then
    withCu st (fun cu => setRec cu (fun u => { u with hostmasks := ircSetAdd u.hostmasks rest }))
  else if command = kwNicks then
    withCu st (fun cu =>
      match split1 ' ' rest with
      | none => (cu, some .valueError)
      | some (net, nicks) => setRec cu (fun u => { u with nicks := dictSet net (splitChar ' ' nicks) u.nicks }))
  else if command = kwCapability then
    withCu st (fun cu =>
      let r := userCapAdd cu.u.caps rest
      ({ cu with u := { cu.u with caps := r.1 } }, r.2))
  else if command = kwGpgkey then
    withCu st (fun cu => setRec cu (fun u => { u with gpgkeys := u.gpgkeys ++ [rest] }))
  else if command ∈ Gen.Preserve.userOtherAttrs then (st, some .typeError)
  else (st, some .valueError)

def userCreator (E : Env) : Creator UState :=
  { new := userNew, finish := userFinish E, call := userCall }

/-- `UsersDictionary.reload()` up to the final `flush`: `nextId = 0`, `users.clear()`, then
`Reader(IrcUserCreator, self).readFile(filename)` starting from the class attribute `cu0` left
by earlier loads of this process -/
def loadUsers (E : Env) (cu0 : Option CU) (text : Str) : UState × Option Err :=
  readText (userCreator E) { cu := cu0, db := {} } text

/-! ## channels.conf -/

/-- `IrcChannel()`: every `defaultOff` capability gets its anti-capability -/
def defaultChanCaps : List Str :=
  Gen.Preserve.defaultOff.foldl (fun s c =>
    match C03.CapSet.contains s c with
    | .ok false =>
      (match C03.makeAntiCapability c with
       | .ok a => (capAdd s a).1
       | .error _ => s)
    | _ => s) []

def freshChan : Chan := { caps := defaultChanCaps }

structure CState where
  /-- `IrcChannelCreator.name` (class attribute) -/
  cname : Option Str := none
  /-- instance attributes -/
  c : Chan := freshChan
  hadChannel : Bool := false
  db : ChannelsDb := []
deriving DecidableEq, Repr

/-- `IrcDict.__setitem__`: the entry with the same `toLower` key is replaced (key spelling too) -/
def ircDictSet {β : Type} (k : Str) (v : β) (l : List (Str × β)) : List (Str × β) :=
  if l.any (fun p => C03.toLower p.1 = C03.toLower k) then
    l.map (fun p => if C03.toLower p.1 = C03.toLower k then (k, v) else p)
  else l ++ [(k, v)]

def chanNew (st : CState) : CState :=
  { st with c := freshChan, hadChannel := match st.cname with | some n => !n.isEmpty | none => false }

def chanFinish (E : Env) (st : CState) : CState × Option Err :=
  if st.hadChannel then
    match st.cname with
    | none => (st, some .attributeError)
    | some n => ({ st with db := ircDictSet (E.lower n) st.c st.db, cname := none }, none)
  else (st, none)

def withCname (st : CState) (f : Chan → Chan × Option Err) : CState × Option Err :=
  if st.cname.isNone then (st, some .valueError)
  else
    let r := f st.c
    ({ st with c := r.1 }, r.2)

/-- `(pattern, expiration) = rest.split(); d[pattern] = int(float(expiration))` -/
def expField (rest : Str) : Except Err (Str × Nat) :=
  match splitWs rest with
  | [pat, e] =>
    match parseFloatNat e with
    | .ok n => .ok (pat, n)
    | .error .value => .error .valueError
    | .error .overflow => .error .overflowError
  | _ => .error .valueError

def chanCall (st : CState) (command rest : Str) : CState × Option Err :=
  if command = kwChannel then
    if st.cname.isSome then (st, some .valueError) else ({ st with cname := some rest }, none)
  else if command = kwLobotomized then
    withCname st (fun c => match evalBool rest with
      | some b => ({ c with lobotomized := b }, none) | none => (c, some .valueError))
  else if command = kwDefaultAllow then
    withCname st (fun c => match evalBool rest with
      | some b => ({ c with defaultAllow := b }, none) | none => (c, some .valueError))
  else if command = kwCapability then
    withCname st (fun c => let r := capAdd c.caps rest; ({ c with caps := r.1 }, r.2))
  else if command = kwBan then
    withCname st (fun c => match expField rest with
      | .ok p => ({ c with bans := dictSet p.1 p.2 c.bans }, none) | .error e => (c, some e))
  else if command = kwIgnore then
    withCname st (fun c => match expField rest with
      | .ok p => ({ c with ignores := dictSet p.1 p.2 c.ignores }, none) | .error e => (c, some e))
  else if command ∈ Gen.Preserve.chanOtherAttrs then (st, some .typeError)
  else (st, some .valueError)

def chanCreator (E : Env) : Creator CState :=
  { new := chanNew, finish := chanFinish E, call := chanCall }

/-- `ChannelsDictionary.reload()` up to the final flush -/
def loadChannels (E : Env) (cname0 : Option Str) (text : Str) : CState × Option Err :=
  readText (chanCreator E) { cname := cname0 } text

/-! ## networks.conf -/

structure NState where
  /-- `IrcNetworkCreator.name` (class attribute, never reset) -/
  nname : Option Str := none
  net : Net := {}
  db : NetworksDb := []
deriving DecidableEq, Repr

def netNew (st : NState) : NState := { st with net := {} }

def netFinish (E : Env) (st : NState) : NState × Option Err :=
  match st.nname with
  | some n => if n.isEmpty then (st, none) else ({ st with db := ircDictSet (E.lower n) st.net st.db, net := {} }, none)
  | none => (st, none)

def netCall (st : NState) (command rest : Str) : NState × Option Err :=
  if command = kwNetwork then ({ st with nname := some rest }, none)
  else if command = kwStsPolicy then
    match splitWs rest with
    | [server, pol] => ({ st with net := { st.net with sts := dictSet server pol st.net.sts } }, none)
    | _ => (st, some .valueError)
  else if command = kwLastDisc then
    match splitWs rest with
    | [server, w] =>
      (match parseNat w with
       | some n => ({ st with net := { st.net with last := dictSet server n st.net.last } }, none)
       | none => (st, some .valueError))
    | _ => (st, some .valueError)
  else if command ∈ Gen.Preserve.netOtherAttrs then (st, some .typeError)
  else (st, some .valueError)

def netCreator (E : Env) : Creator NState :=
  { new := netNew, finish := netFinish E, call := netCall }

def loadNetworks (E : Env) (nname0 : Option Str) (text : Str) : NState × Option Err :=
  readText (netCreator E) { nname := nname0 } text

/-! ## ignores.conf (`IgnoresDB.open`): one `hostmask [expiration]` per line, bad lines skipped -/

def ignoreLine (db : IgnoresDb) (line : Str) : IgnoresDb :=
  if line.head? = some '#' then db                       -- nonCommentLines
  else if (strip line).isEmpty then db                   -- nonEmptyLines
  else
    match splitWs line with
    | [] => db
    | h :: more =>
      let exp : Option Nat :=
        match more with
        | [] => some 0
        | e :: _ => (match parseFloatNat e with | .ok n => some n | .error _ => none)
      match exp with
      | none => db                                        -- `except Exception: log.error`
      | some n => if C03.isUserHostmask h then dictSet h n db else db

def loadIgnores (text : Str) : IgnoresDb := (fileLines text).foldl ignoreLine []

end C16
