import LimnoriaModel.C16.Storable
import LimnoriaModel.Driver.Core
namespace C16
open Py Wire

/-! wire forms: strings hex; lists joined by a separator ("-" = empty list); records joined by
':'; association entries `key=value` -/

def encL (sep : String) (xs : List Str) : String :=
  if xs.isEmpty then "-" else sep.intercalate (xs.map enc)

def decL (sep : String) (f : String) : Option (List Str) :=
  if f = "-" then some [] else (f.splitOn sep).mapM dec

def encB (b : Bool) : String := if b then "1" else "0"
def decB (f : String) : Option Bool := if f = "1" then some true else if f = "0" then some false else none

def encN (n : Nat) : String := toString n
def decN (f : String) : Option Nat := f.toNat?

def encEntries {β : Type} (ev : β → String) (xs : List (Str × β)) : String :=
  if xs.isEmpty then "-" else ";".intercalate (xs.map fun p => enc p.1 ++ "=" ++ ev p.2)

def decEntries {β : Type} (dv : String → Option β) (f : String) : Option (List (Str × β)) :=
  if f = "-" then some [] else
  (f.splitOn ";").mapM fun item =>
    match item.splitOn "=" with
    | [k, v] => do
      let k' ← dec k
      let v' ← dv v
      pure (k', v')
    | _ => none

def encUserBody (u : User) : String :=
  ":".intercalate [enc u.name, encB u.ignore, encB u.secure, encB u.hashed, enc u.password,
    encL "," u.caps, encL "," u.hostmasks, encEntries (encL "+") u.nicks, encL "," u.gpgkeys]

def decUserBody : List String → Option User
  | [n, i, s, h, p, c, hm, nk, g] => do
    let n ← dec n; let i ← decB i; let s ← decB s; let h ← decB h; let p ← dec p
    let c ← decL "," c; let hm ← decL "," hm; let nk ← decEntries (decL "+") nk; let g ← decL "," g
    pure { name := n, ignore := i, secure := s, hashed := h, password := p, caps := c,
           hostmasks := hm, nicks := nk, gpgkeys := g }
  | _ => none

def encUsers (us : List (Nat × User)) : String :=
  if us.isEmpty then "-" else "/".intercalate (us.map fun p => encN p.1 ++ ":" ++ encUserBody p.2)

def decUsers (f : String) : Option (List (Nat × User)) :=
  if f = "-" then some [] else
  (f.splitOn "/").mapM fun item =>
    match item.splitOn ":" with
    | id :: rest => do
      let id ← decN id
      let u ← decUserBody rest
      pure (id, u)
    | _ => none

def encCu : Option CU → String
  | none => "~"
  | some cu => (match cu.id with | none => "~" | some n => encN n) ++ ":" ++ encUserBody cu.u

def encErr : Option Err → String
  | none => "ok"
  | some .valueError => "ValueError"
  | some .assertionError => "AssertionError"
  | some .typeError => "TypeError"
  | some .duplicateHostmask => "DuplicateHostmask"
  | some .keyError => "KeyError"
  | some .overflowError => "OverflowError"
  | some .attributeError => "AttributeError"

def encChan (c : Chan) : String :=
  ":".intercalate [encB c.lobotomized, encB c.defaultAllow, encL "," c.caps,
    encEntries encN c.bans, encEntries encN c.ignores]

def decChan : List String → Option Chan
  | [l, d, c, b, i] => do
    let l ← decB l; let d ← decB d; let c ← decL "," c
    let b ← decEntries decN b; let i ← decEntries decN i
    pure { lobotomized := l, defaultAllow := d, caps := c, bans := b, ignores := i }
  | _ => none

def encChans (cs : ChannelsDb) : String :=
  if cs.isEmpty then "-" else "/".intercalate (cs.map fun p => enc p.1 ++ ":" ++ encChan p.2)

def decChans (f : String) : Option ChannelsDb :=
  if f = "-" then some [] else
  (f.splitOn "/").mapM fun item =>
    match item.splitOn ":" with
    | n :: rest => do
      let n ← dec n
      let c ← decChan rest
      pure (n, c)
    | _ => none

def encNet (n : Net) : String := encEntries enc n.sts ++ ":" ++ encEntries encN n.last

def encNets (ns : NetworksDb) : String :=
  if ns.isEmpty then "-" else "/".intercalate (ns.map fun p => enc p.1 ++ ":" ++ encNet p.2)

def decNets (f : String) : Option NetworksDb :=
  if f = "-" then some [] else
  (f.splitOn "/").mapM fun item =>
    match item.splitOn ":" with
    | [n, s, l] => do
      let n ← dec n
      let s ← decEntries dec s
      let l ← decEntries decN l
      pure (n, { sts := s, last := l })
    | _ => none

/-- class attributes of the three creator classes: they survive from one load to the next -/
structure DState where
  cu : Option CU := none
  cname : Option Str := none
  nname : Option Str := none

def env (now : Nat := 0) : Env := { hm := C03.glob, lower := asciiLower, now := now, hx := patIntersect }

def encParsed : Parsed → String
  | .blank => "blank"
  | .bad i => "bad\t" ++ encN i
  | .cmd i c r => "cmd\t" ++ encN i ++ "\t" ++ enc c ++ "\t" ++ enc r

def step (s : DState) : List String → DState × String
  | ["reset"] => ({}, "ok")
  | ["u_dump", us] =>
    match decUsers us with
    | some us => (s, enc (dumpUsers { users := us }))
    | none => (s, "bad-op")
  | ["u_storable", us] =>
    match decUsers us with
    | some us => (s, encB (storableUsers (env) (sortedUsers { users := us })))
    | none => (s, "bad-op")
  | ["u_load", t] =>
    match dec t with
    | some t =>
      let r := loadUsers (env) s.cu t
      ({ s with cu := r.1.cu },
        encErr r.2 ++ "\t" ++ encCu r.1.cu ++ "\t" ++ encN r.1.db.nextId ++ "\t" ++ encUsers r.1.db.users)
    | none => (s, "bad-op")
  | ["c_dump", cs] =>
    match decChans cs with
    | some cs => (s, enc (dumpChannels cs))
    | none => (s, "bad-op")
  | ["c_storable", cs] =>
    match decChans cs with
    | some cs => (s, encB (storableChans (env) cs))
    | none => (s, "bad-op")
  | ["n_storable", ns] =>
    match decNets ns with
    | some ns => (s, encB (storableNets (env) ns))
    | none => (s, "bad-op")
  | ["i_storable", now, es] =>
    match decN now, decEntries decN es with
    | some now, some es => (s, encB (storableIgnores now es))
    | _, _ => (s, "bad-op")
  | ["c_load", t] =>
    match dec t with
    | some t =>
      let r := loadChannels (env) s.cname t
      ({ s with cname := r.1.cname }, encErr r.2 ++ "\t" ++ encOpt r.1.cname ++ "\t" ++ encChans r.1.db)
    | none => (s, "bad-op")
  | ["n_dump", ns] =>
    match decNets ns with
    | some ns => (s, enc (dumpNetworks ns))
    | none => (s, "bad-op")
  | ["n_load", t] =>
    match dec t with
    | some t =>
      let r := loadNetworks (env) s.nname t
      ({ s with nname := r.1.nname }, encErr r.2 ++ "\t" ++ encOpt r.1.nname ++ "\t" ++ encNets r.1.db)
    | none => (s, "bad-op")
  | ["i_dump", now, es] =>
    match decN now, decEntries decN es with
    | some now, some es => (s, enc (dumpIgnores (env now) es))
    | _, _ => (s, "bad-op")
  | ["i_load", t] =>
    match dec t with
    | some t => (s, encEntries encN (loadIgnores t))
    | none => (s, "bad-op")
  | ["lines", t] =>
    match dec t with
    | some t => (s, encL "," (fileLines t))
    | none => (s, "bad-op")
  | ["parse", l] =>
    match dec l with
    | some l => (s, encParsed (parseLine l))
    | none => (s, "bad-op")
  | ["capadd", kind, caps, c] =>
    match decL "," caps, dec c with
    | some caps, some c =>
      let r := if kind = "U" then userCapAdd caps c else capAdd caps c
      (s, encErr r.2 ++ "\t" ++ encL "," r.1)
    | _, _ => (s, "bad-op")
  | ["hx", p, q] =>
    match dec p, dec q with
    | some p, some q => (s, if patIntersect p q then "1" else "0")
    | _, _ => (s, "bad-op")
  | _ => (s, "bad-op")

def handler : Driver.Handler := { σ := DState, init := {}, step := step }
end C16
