/-
C16 — Python semantics needed by the database format that `Py/Basic.lean` does not have:
text-mode file iteration (universal newlines), `str.expandtabs`, `int(s)`, `int(float(s))`,
the literals `utils.gen.safeEval` is used on, sorting, dict-as-association-list.
No Mathlib, no partial, no unsafe (linked into the driver).
-/
import LimnoriaModel.Py.Basic
namespace C16
open Py

/-! ## text-mode iteration over a file: `for line in open(f)` followed by `rstrip('\r\n')`

`open(filename)` uses universal newlines: `\n`, `\r` and `\r\n` all end a line (and are handed
to the program as `\n`); no other character does.  `fileLines` returns the contents of the
lines *without* their terminator, which is what `line.rstrip('\r\n')` leaves (a line contains no
CR/LF apart from its terminator).  The emptiness test `not line.strip()` gives the same answer
with or without the terminator. -/
def fileLinesAux : Bool → Str → List Str
  | _, [] => []
  | afterCR, c :: cs =>
    if c = '\n' then (if afterCR then fileLinesAux false cs else [] :: fileLinesAux false cs)
    else if c = '\r' then [] :: fileLinesAux true cs
    else match fileLinesAux false cs with
      | [] => [[c]]
      | l :: ls => (c :: l) :: ls

/-- `afterCR` = the previous character was a `\r` (which already ended a line, so a `\n` that
follows it belongs to the same terminator) -/
def fileLines (s : Str) : List Str := fileLinesAux false s

/-! ## `str.expandtabs()` (tab size 8): the column is counted in characters and reset by CR/LF -/
def expandTabsFrom (col : Nat) : Str → Str
  | [] => []
  | c :: cs =>
    if c = '\t' then List.replicate (8 - col % 8) ' ' ++ expandTabsFrom 0 cs
    else if c = '\n' ∨ c = '\r' then c :: expandTabsFrom 0 cs
    else c :: expandTabsFrom ((col + 1) % 8) cs

def expandTabs (s : Str) : Str := expandTabsFrom 0 s

/-! ## numbers -/

def allDigits (s : Str) : Bool := !s.isEmpty && s.all Char.isDigit

/-- blanks that `int()` / `float()` skip around a number: the C `isspace` set for ASCII (so not
U+001C…U+001F, which `str.isspace` accepts) and every non-ASCII Unicode space -/
def isNumSpace (c : Char) : Bool :=
  let n := c.toNat
  (9 ≤ n && n ≤ 13) || n = 32 || (128 ≤ n && isSpace c)

def numStrip (s : Str) : Str := rstripP isNumSpace (lstripP isNumSpace s)

/-- `int(s)` for the inputs the format produces: optional surrounding blanks, ASCII decimal
digits.  (Signs, `_` separators and non-ASCII digits are outside the model: `none` here stands
for ValueError and the generators do not produce those spellings.) -/
def parseNat (s : Str) : Option Nat :=
  let t := numStrip s
  if allDigits t then some (Nat.ofDigitChars 10 t 0) else none

/-- the double nearest to `n` (round half to even), as an exact natural number; `none` when it
overflows to `inf` (then `int(float(s))` raises OverflowError) -/
def roundToDouble (n : Nat) : Option Nat :=
  if n < 2 ^ 53 then some n
  else
    let e := Nat.log2 n + 1 - 53
    let q := n / 2 ^ e
    let r := n % 2 ^ e
    let half := 2 ^ (e - 1)
    let q' := if r > half ∨ (r = half ∧ q % 2 = 1) then q + 1 else q
    let v := q' * 2 ^ e
    if Nat.log2 v ≥ 1024 then none else some v      -- v ≥ 2^1024: the double is `inf`

inductive NumErr | value | overflow
deriving DecidableEq, Repr

/-- `int(float(s))` for blank-padded ASCII digit strings -/
def parseFloatNat (s : Str) : Except NumErr Nat :=
  let t := numStrip s
  if allDigits t then
    match roundToDouble (Nat.ofDigitChars 10 t 0) with
    | some v => .ok v
    | none => .error .overflow
  else .error .value

/-- `bool(utils.gen.safeEval(s))` on the literals the writers produce (`True`/`False`) and on
`None` and plain decimal integers without a leading zero; every other text is `none`
(ValueError).  Python literals outside this list (strings, tuples, floats…) are outside the
model and not generated. -/
def evalBool (s : Str) : Option Bool :=
  let t := rstripP (fun c => c = ' ' || c = '\t' || c = '\x0c') s     -- what the Python tokenizer skips
  if t = ['T', 'r', 'u', 'e'] then some true
  else if t = ['F', 'a', 'l', 's', 'e'] then some false
  else if t = ['N', 'o', 'n', 'e'] then some false
  else if allDigits t then
    (if t.all (fun c => c = '0') then some false          -- `0`, `00`, …
     else if t.head? = some '0' then none                 -- `01` is a SyntaxError
     else some true)
  else none

/-- `'%s' % b` -/
def boolStr (b : Bool) : Str := if b then ['T', 'r', 'u', 'e'] else ['F', 'a', 'l', 's', 'e']

/-! ## order, sorting (`sorted`, `list.sort(key=…)` are stable) -/

/-- `a <= b` for Python strings (lexicographic by code point) -/
def strLe : Str → Str → Bool
  | [], _ => true
  | _ :: _, [] => false
  | a :: as, b :: bs => a < b || (a = b && strLe as bs)

def insertBy {α : Type} (le : α → α → Bool) (x : α) : List α → List α
  | [] => [x]
  | y :: ys => if le x y then x :: y :: ys else y :: insertBy le x ys

/-- stable insertion sort: equal keys keep their original order -/
def sortBy {α : Type} (le : α → α → Bool) : List α → List α
  | [] => []
  | x :: xs => insertBy le x (sortBy le xs)

/-! ## `ircutils.hostmaskPatternsIntersect` (the row-by-row table of the source) -/

/-- `ircutils._hostmaskPatternClass` -/
def patClass (c : Char) : Char :=
  if c = '[' || c = '{' then '{'
  else if c = '}' || c = ']' then '}'
  else if c = '|' || c = '\\' then '|'
  else if c = '^' || c = '~' then '^'
  else if 'A' ≤ c && c ≤ 'Z' then Char.ofNat (c.toNat + 32)
  else c

/-- the row for `i = len(p)`: `q[j:]` consists of `*` only -/
def patRowEnd : Str → List Bool
  | [] => [true]
  | b :: q => let r := patRowEnd q; (b = '*' && r.headD false) :: r

/-- the row for `p[i] = a` from the row `below` (for `p[i+1:]`) -/
def patRowStep (a : Char) : Str → List Bool → List Bool
  | [], below => [a = '*' && below.headD false]
  | b :: q, below =>
    let r := patRowStep a q below.tail
    let right := r.headD false
    let down := below.headD false
    let diag := below.tail.headD false
    let v :=
      if a = '*' then down || right || diag
      else if b = '*' then right || down || diag
      else if a = '?' || b = '?' then diag
      else diag && patClass a = patClass b
    v :: r

/-- some string is matched by both patterns -/
def patIntersect (p q : Str) : Bool := (p.foldr (fun a below => patRowStep a q below) (patRowEnd q)).headD false

/-! ## Python dict as an association list in insertion order -/

def dictSet {α β : Type} [DecidableEq α] (k : α) (v : β) (l : List (α × β)) : List (α × β) :=
  if l.any (fun p => p.1 = k) then l.map (fun p => if p.1 = k then (k, v) else p)
  else l ++ [(k, v)]

def dictGet {α β : Type} [DecidableEq α] (k : α) : List (α × β) → Option β
  | [] => none
  | p :: ps => if p.1 = k then some p.2 else dictGet k ps

end C16
