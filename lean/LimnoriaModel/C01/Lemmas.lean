/-
C01 — helper lemmas for the gate theorems.
-/
import LimnoriaModel.C01.Model
namespace C01
open Py C03

/-! ### firstDeny -/

theorem firstDeny_allow_iff (gs : List Gate) : firstDeny gs = .allow ↔ ∀ g ∈ gs, g = .allow := by
  induction gs with
  | nil => simp [firstDeny]
  | cons g gs ih =>
    cases g with
    | allow => simp [firstDeny, ih]
    | denied c => simp [firstDeny]
    | deniedDefault => simp [firstDeny]
    | crash e => simp [firstDeny]

theorem firstDeny_ne_allow_of_mem {gs : List Gate} {g : Gate} (hg : g ∈ gs) (hne : g ≠ .allow) :
    firstDeny gs ≠ .allow := by
  intro h
  exact hne ((firstDeny_allow_iff gs).1 h g hg)

/-- the result of the fold is one of the checks (or `allow`) -/
theorem firstDeny_mem (gs : List Gate) : firstDeny gs = .allow ∨ firstDeny gs ∈ gs := by
  induction gs with
  | nil => simp [firstDeny]
  | cons g gs ih =>
    cases g with
    | allow =>
      rcases ih with h | h
      · left; simpa [firstDeny] using h
      · right; simp only [firstDeny]; exact List.mem_cons_of_mem _ h
    | denied c => right; simp [firstDeny]
    | deniedDefault => right; simp [firstDeny]
    | crash e => right; simp [firstDeny]

/-! ### deniedBy / finish -/

theorem deniedBy_ne_allow (a : Str) : deniedBy a ≠ .allow := by
  unfold deniedBy
  split <;> simp

/-! ### one name -/

/-- if the caller "holds" the anti-capability of `name`, the check of `name` does not allow -/
theorem checkName_ne_allow_of_held {db : Db} {now : Int} {m : Msg} {name anti : Str}
    (hanti : makeAntiCapability name = .ok anti)
    (hheld : db.checkCapability now m.pfx anti = .ok true) :
    checkName db now m name ≠ .allow := by
  unfold checkName
  rw [hanti]
  simp only
  unfold antiHit
  by_cases hA : isAntiCapability anti = true
  · simp only [hA, Bool.not_true, Bool.false_eq_true, ↓reduceIte, hheld]
    exact deniedBy_ne_allow anti
  · simp [hA]

/-- same for the anti-capability scoped to the channel the message was sent to -/
theorem checkName_ne_allow_of_held_channel {db : Db} {now : Int} {m : Msg} {name anti ch chanAnti : Str}
    (hanti : makeAntiCapability name = .ok anti)
    (hch : m.channel = some ch)
    (hca : makeChannelCapability ch anti = .ok chanAnti)
    (hheld : db.checkCapability now m.pfx chanAnti = .ok true) :
    checkName db now m name ≠ .allow := by
  unfold checkName
  rw [hanti]
  simp only
  cases h1 : antiHit db now m.pfx anti with
  | error e => simp
  | ok b =>
    cases b with
    | true => simpa using deniedBy_ne_allow anti
    | false =>
      simp only [hch]
      unfold checkNameInChannel
      rw [hca]
      simp only
      unfold antiHit
      by_cases hA : isAntiCapability chanAnti = true
      · simp only [hA, Bool.not_true, Bool.false_eq_true, ↓reduceIte, hheld]
        exact deniedBy_ne_allow chanAnti
      · simp [hA]

/-- what an allowing check established -/
theorem checkName_allow {db : Db} {now : Int} {m : Msg} {name : Str}
    (h : checkName db now m name = .allow) :
    ∃ anti, makeAntiCapability name = .ok anti ∧ isAntiCapability anti = true ∧
      db.checkCapability now m.pfx anti = .ok false ∧
      (∀ ch, m.channel = some ch →
        ∃ chanAnti, makeChannelCapability ch anti = .ok chanAnti ∧ isAntiCapability chanAnti = true ∧
          db.checkCapability now m.pfx chanAnti = .ok false) := by
  unfold checkName at h
  cases hanti : makeAntiCapability name with
  | error e => simp [hanti] at h
  | ok anti =>
    rw [hanti] at h
    simp only at h
    refine ⟨anti, rfl, ?_⟩
    cases h1 : antiHit db now m.pfx anti with
    | error e => simp [h1] at h
    | ok b =>
      cases b with
      | true => rw [h1] at h; exact absurd h (deniedBy_ne_allow anti)
      | false =>
        rw [h1] at h
        simp only at h
        have hA : isAntiCapability anti = true ∧ db.checkCapability now m.pfx anti = .ok false := by
          unfold antiHit at h1
          by_cases hA : isAntiCapability anti = true
          · simp only [hA, Bool.not_true, Bool.false_eq_true, ↓reduceIte] at h1
            exact ⟨hA, h1⟩
          · simp [hA] at h1
        refine ⟨hA.1, hA.2, ?_⟩
        intro ch hch
        rw [hch] at h
        simp only at h
        unfold checkNameInChannel at h
        cases hca : makeChannelCapability ch anti with
        | error e => simp [hca] at h
        | ok chanAnti =>
          rw [hca] at h
          simp only at h
          refine ⟨chanAnti, rfl, ?_⟩
          cases h2 : antiHit db now m.pfx chanAnti with
          | error e => simp [h2] at h
          | ok b =>
            cases b with
            | true => rw [h2] at h; exact absurd h (deniedBy_ne_allow chanAnti)
            | false =>
              unfold antiHit at h2
              by_cases hB : isAntiCapability chanAnti = true
              · simp only [hB, Bool.not_true, Bool.false_eq_true, ↓reduceIte] at h2
                exact ⟨hB, h2⟩
              · simp [hB] at h2

/-! ### prefixes -/

theorem prefixes_head (x : Str) (xs : List Str) : [x] ∈ prefixes (x :: xs) := by
  simp [prefixes]

theorem fullCommandName_head (canon : Str) (command : List Str) (hne : command ≠ []) :
    ∃ rest, fullCommandName canon command = canon :: rest := by
  unfold fullCommandName
  split
  · exact ⟨command, rfl⟩
  · rename_i h
    cases command with
    | nil => exact absurd rfl hne
    | cons c cs =>
      simp only [List.head?_cons, Bool.or_eq_true, not_or] at h
      have : c = canon := by
        have := h.2
        simpa using this
      exact ⟨cs, by rw [this]⟩

/-- every prefix the loop builds starts with the first element -/
theorem prefixes_start {x : Str} {xs : List Str} {p : List Str} (hp : p ∈ prefixes (x :: xs)) :
    ∃ t, p = x :: t := by
  simp only [prefixes, List.mem_cons, List.mem_map] at hp
  rcases hp with h | ⟨q, _, h⟩
  · exact ⟨[], h⟩
  · exact ⟨q, h.symm⟩

theorem resolvePath_cons (pl : Str) (t : List Str) : resolvePath pl (pl :: t) = .ok (joinChar '.' (pl :: t)) := by
  simp [resolvePath]

/-! ### the capability decision on `-owner` and on `-p` for a default anti-capability -/

deriving instance DecidableEq for Except

/-- decidable side conditions on a plain capability name `p` other than `owner` ("admin",
"scheduler.add", …): lower-case, not a channel capability, its anti form is `'-' :: p` -/
def PlainCap (p : Str) : Prop :=
  toLower p = p ∧ toLower ('-' :: p) = '-' :: p ∧ chanSplit ('-' :: p) = none ∧
  isAntiCapability ('-' :: p) = true ∧ invertCapability ('-' :: p) = .ok p ∧
  makeAntiCapability p = .ok ('-' :: p) ∧ unAntiCapability ('-' :: p) = .ok p ∧ p ≠ ownerS

instance (p : Str) : Decidable (PlainCap p) := by unfold PlainCap; infer_instance


theorem toLower_owner : toLower ownerS = ownerS := by decide
theorem contains_of_mem {s : CapSet} {c : Str} (hl : toLower c = c) (hm : c ∈ s) : CapSet.contains s c = .ok true := by
  simp [CapSet.contains, hl, hm]
theorem check_of_mem {s : CapSet} {c : Str} (hl : toLower c = c) (hm : c ∈ s) : CapSet.check s c = .ok true := by
  simp [CapSet.check, hl, hm]

theorem contains_total_of_inv {s : CapSet} {c i : Str} (hl : toLower c = c) (hinv : invertCapability c = .ok i) :
    ∃ b, CapSet.contains s c = .ok b := by
  unfold CapSet.contains
  simp only [hl, hinv]
  split
  · exact ⟨true, rfl⟩
  · exact ⟨_, rfl⟩

theorem contains_owner_total (s : CapSet) : ∃ b, CapSet.contains s ownerS = .ok b :=
  contains_total_of_inv toLower_owner (by decide : invertCapability ownerS = .ok antiOwnerS)

theorem check_anti_of_default (db : Db) (now : Int) (h p : Str) (hp : PlainCap p)
    (hdef : ('-' :: p) ∈ db.defaults)
    (hu : ∀ u, db.recognise now h = some u →
      u.ignore = true ∨ (ownerS ∉ u.caps ∧ antiOwnerS ∉ u.caps ∧ p ∉ u.caps)) :
    db.checkCapability now h ('-' :: p) = .ok true := by
  obtain ⟨hl, hla, hcs, hia, hinv, _, _, hno⟩ := hp
  have hglob : CapSet.contains db.defaults ('-' :: p) = .ok true := contains_of_mem hla hdef
  have hglobc : CapSet.check db.defaults ('-' :: p) = .ok true := check_of_mem hla hdef
  unfold Db.checkCapability
  cases hr : db.recognise now h with
  | none =>
    simp only
    unfold Db.checkUnknown
    rw [hcs]
    simp only
    unfold Db.globalsUnknown
    rw [hglob]
    simp only
    exact hglobc
  | some u =>
    simp only
    have hne1 : (('-' :: p) == ownerS) = false := by
      simp [ownerS]
    have hne2 : (('-' :: p) == antiOwnerS) = false := by
      simp only [antiOwnerS, beq_eq_false_iff_ne, ne_eq, List.cons.injEq, true_and]
      exact hno
    unfold Db.checkKnown
    -- the global stage answers true
    have hglobal : db.globalsKnown ('-' :: p) false = .ok true := by
      unfold Db.globalsKnown
      rw [hglob]
      simp only
      exact hglobc
    by_cases hi : u.ignore = true
    · -- ignored user: either the user stage answers isAnti = true, or it falls through to the defaults
      unfold userStage
      cases hc : ucontains u.caps ('-' :: p) with
      | error e =>
        exfalso
        obtain ⟨b1, hb1⟩ := contains_owner_total u.caps
        obtain ⟨b2, hb2⟩ := contains_total_of_inv (s := u.caps) hla hinv
        unfold ucontains at hc
        simp only [hla, hne1, hne2, Bool.not_false, Bool.and_false, Bool.or_false, Bool.false_eq_true, ↓reduceIte, hb1, hb2] at hc
        cases b1 <;> simp at hc
      | ok b =>
        cases b with
        | false => simp only [hcs]; exact hglobal
        | true =>
          simp only
          unfold User.checkCapability
          simp [hi, hia]
    · rcases hu u hr with hi' | ⟨ho, ha, hpn⟩
      · exact absurd hi' hi
      · have hown : CapSet.contains u.caps ownerS = .ok false := by
          unfold CapSet.contains
          simp only [toLower_owner, ho, ↓reduceIte]
          have : invertCapability ownerS = .ok antiOwnerS := by decide
          rw [this]
          simp [ha]
        unfold userStage
        by_cases hm : ('-' :: p) ∈ u.caps
        · have hc : ucontains u.caps ('-' :: p) = .ok true := by
            unfold ucontains
            simp only [hla, hne1, hne2, Bool.not_false, Bool.and_false, Bool.or_false, Bool.false_eq_true, ↓reduceIte, hown]
            exact contains_of_mem hla hm
          rw [hc]
          simp only
          have : u.checkCapability ('-' :: p) false = .ok true := by
            unfold User.checkCapability
            simp only [hi, Bool.false_eq_true, ↓reduceIte]
            unfold ucheck
            simp only [hla, hne1, hne2, Bool.or_false, Bool.false_eq_true, ↓reduceIte, hown]
            exact check_of_mem hla hm
          rw [this]
        · have hc : ucontains u.caps ('-' :: p) = .ok false := by
            unfold ucontains
            simp only [hla, hne1, hne2, Bool.not_false, Bool.and_false, Bool.or_false, Bool.false_eq_true, ↓reduceIte, hown]
            unfold CapSet.contains
            simp [hla, hm, hinv, hpn]
          rw [hc]
          simp only [hcs]
          exact hglobal

theorem toLower_antiOwner : toLower antiOwnerS = antiOwnerS := by decide
theorem check_antiowner_core (db : Db) (now : Int) (h : Str)
    (hdef : antiOwnerS ∈ db.defaults)
    (hu : ∀ u, db.recognise now h = some u → u.ignore = true ∨ (ownerS ∉ u.caps ∧ antiOwnerS ∉ u.caps)) :
    db.checkCapability now h antiOwnerS = .ok true := by
  unfold Db.checkCapability
  cases hr : db.recognise now h with
  | none =>
    simp only
    unfold Db.checkUnknown
    have h1 : chanSplit antiOwnerS = none := by decide
    rw [h1]
    simp only
    unfold Db.globalsUnknown
    rw [contains_of_mem toLower_antiOwner hdef]
    simp only
    exact check_of_mem toLower_antiOwner hdef
  | some u =>
    simp only
    unfold Db.checkKnown userStage
    have h2 : ucontains u.caps antiOwnerS = .ok true := by
      unfold ucontains
      simp [toLower_antiOwner]
    rw [h2]
    simp only
    have h3 : u.checkCapability antiOwnerS false = .ok true := by
      unfold User.checkCapability
      rcases hu u hr with hi | ⟨ho, ha⟩
      · simp only [hi, ↓reduceIte]
        decide
      · by_cases hi : u.ignore = true
        · simp only [hi, ↓reduceIte]; decide
        · simp only [hi, Bool.false_eq_true, ↓reduceIte]
          unfold ucheck
          simp only [toLower_antiOwner]
          have h4 : CapSet.contains u.caps ownerS = .ok false := by
            unfold CapSet.contains
            simp only [toLower_owner, ho, ↓reduceIte]
            have : invertCapability ownerS = .ok antiOwnerS := by decide
            rw [this]
            simp [ha]
          have h5 : (antiOwnerS == ownerS || antiOwnerS == antiOwnerS) = true := by decide
          simp only [h5, ↓reduceIte, h4]
          decide
    rw [h3]

/-! ### `getChannel`'s lazy creation of a default record changes no decision -/

theorem getChannel_touch (db : Db) (ch ch' : Str) : (db.touchChannel ch).getChannel ch' = db.getChannel ch' := by
  unfold Db.touchChannel
  cases h : db.channels.lookup (chanKey ch) with
  | some c => simp
  | none =>
    simp only
    unfold Db.getChannel
    simp only [List.lookup_append]
    cases h2 : db.channels.lookup (chanKey ch') with
    | some c => simp
    | none =>
      simp only [Option.none_or]
      by_cases hk : chanKey ch' = chanKey ch
      · simp [List.lookup, hk]
      · have : (chanKey ch' == chanKey ch) = false := by simpa using hk
        simp [List.lookup, this]


/-- two databases that agree on users, default sets, flags and on what `getChannel` answers take
the same capability decisions -/
theorem checkCapability_congr (db db' : Db) (now : Int) (h cap : Str) (fl : Flags)
    (hu : db'.users = db.users) (hd : db'.defaults = db.defaults) (hr : db'.registered = db.registered)
    (hf : db'.defaultFlag = db.defaultFlag) (ht : db'.timeout = db.timeout)
    (hc : ∀ c, db'.getChannel c = db.getChannel c) :
    db'.checkCapability now h cap fl = db.checkCapability now h cap fl := by
  simp only [Db.checkCapability, Db.recognise, Db.lookup, Db.checkUnknown, Db.globalsUnknown, Db.checkKnown,
    Db.channelStage, Db.globalsKnown, hu, hd, hr, hf, ht, hc]


/-- what `Config.getCapability` can answer: `owner`, or `#chan,op` for a channel component of the
name -/
theorem cfgLoop_result (opSettable : List Str → Bool) (seen rest : List Str) (cap c : Str)
    (h : cfgLoop opSettable seen rest cap = .ok c) :
    c = ownerS ∨ c = cap ∨ ∃ part ∈ rest, isChannel part = true ∧ makeChannelCapability part opS = .ok c := by
  induction rest generalizing seen cap with
  | nil =>
    simp only [cfgLoop, Except.ok.injEq] at h
    right; left; exact h.symm
  | cons part rest ih =>
    unfold cfgLoop at h
    by_cases ho : opSettable (seen ++ [part]) = true
    · simp only [ho, Bool.not_true, Bool.false_eq_true, ↓reduceIte] at h
      by_cases hc : isChannel part = true
      · simp only [hc, ↓reduceIte] at h
        cases hm : makeChannelCapability part opS with
        | error e => simp [hm] at h
        | ok c1 =>
          rw [hm] at h
          simp only at h
          rcases ih _ _ h with h1 | h1 | ⟨p, hp, hpc, hpm⟩
          · left; exact h1
          · right; right; exact ⟨part, List.mem_cons_self, hc, h1 ▸ hm⟩
          · right; right; exact ⟨p, List.mem_cons_of_mem _ hp, hpc, hpm⟩
      · simp only [hc, Bool.false_eq_true, ↓reduceIte] at h
        rcases ih _ _ h with h1 | h1 | ⟨p, hp, hpc, hpm⟩
        · left; exact h1
        · right; left; exact h1
        · right; right; exact ⟨p, List.mem_cons_of_mem _ hp, hpc, hpm⟩
    · simp only [ho, Bool.not_false, ↓reduceIte, Except.ok.injEq] at h
      left; exact h.symm

/-- a capability other than `owner` is only answered when every group on the path is op-settable -/
theorem cfgLoop_nonowner_settable (opSettable : List Str → Bool) (seen rest : List Str) (cap c : Str)
    (h : cfgLoop opSettable seen rest cap = .ok c) (hc : c ≠ ownerS) :
    ∀ k, 0 < k → k ≤ rest.length → opSettable (seen ++ rest.take k) = true := by
  induction rest generalizing seen cap with
  | nil => intro k hk hk'; simp at hk'; omega
  | cons part rest ih =>
    unfold cfgLoop at h
    by_cases ho : opSettable (seen ++ [part]) = true
    · simp only [ho, Bool.not_true, Bool.false_eq_true, ↓reduceIte] at h
      have hrest : ∃ cap', cfgLoop opSettable (seen ++ [part]) rest cap' = .ok c := by
        by_cases hch : isChannel part = true
        · simp only [hch, ↓reduceIte] at h
          cases hm : makeChannelCapability part opS with
          | error e => simp [hm] at h
          | ok c1 => rw [hm] at h; exact ⟨c1, h⟩
        · simp only [hch, Bool.false_eq_true, ↓reduceIte] at h
          exact ⟨cap, h⟩
      obtain ⟨cap', hr⟩ := hrest
      intro k hk hk'
      cases k with
      | zero => omega
      | succ k =>
        cases k with
        | zero => simpa using ho
        | succ k =>
          have := ih _ _ hr (k + 1) (by omega) (by simp at hk'; omega)
          simpa [List.append_assoc] using this
    · simp only [ho, Bool.not_false, ↓reduceIte, Except.ok.injEq] at h
      exact absurd h.symm hc


/-- `owner` and `-owner` are never both members -/
def NoBothOwner (s : CapSet) : Prop := ¬ (ownerS ∈ s ∧ antiOwnerS ∈ s)

theorem mem_insert_iff (s : CapSet) (c x : Str) : x ∈ CapSet.insert s c ↔ x ∈ s ∨ x = c := by
  unfold CapSet.insert
  split
  · constructor
    · intro h; exact Or.inl h
    · rintro (h | h)
      · exact h
      · subst h; assumption
  · simp

theorem mem_erase_iff (s : CapSet) (c x : Str) : x ∈ CapSet.erase s c ↔ x ∈ s ∧ x ≠ c := by
  simp [CapSet.erase]

theorem add_noBoth (s s' : CapSet) (cap : Str) (hs : NoBothOwner s) (h : CapSet.add s cap = .ok s') :
    NoBothOwner s' := by
  unfold CapSet.add at h
  cases hinv : invertCapability (toLower cap) with
  | error e => simp [hinv] at h
  | ok inv =>
    simp only [hinv, Except.ok.injEq] at h
    subst h
    intro ⟨ho, ha⟩
    rw [mem_insert_iff, mem_erase_iff] at ho ha
    by_cases hc1 : toLower cap = ownerS
    · have : inv = antiOwnerS := by
        rw [hc1] at hinv
        have h2 : invertCapability ownerS = .ok antiOwnerS := by decide
        rw [h2] at hinv; exact (Except.ok.inj hinv).symm
      rcases ha with ⟨_, hne⟩ | heq
      · exact hne this.symm
      · rw [hc1] at heq; exact absurd heq (by decide)
    · by_cases hc2 : toLower cap = antiOwnerS
      · have : inv = ownerS := by
          rw [hc2] at hinv
          have h2 : invertCapability antiOwnerS = .ok ownerS := by decide
          rw [h2] at hinv; exact (Except.ok.inj hinv).symm
        rcases ho with ⟨_, hne⟩ | heq
        · exact hne this.symm
        · rw [hc2] at heq; exact absurd heq (by decide)
      · rcases ho with ⟨ho', _⟩ | heq
        · rcases ha with ⟨ha', _⟩ | heq2
          · exact hs ⟨ho', ha'⟩
          · exact hc2 heq2.symm
        · exact hc1 heq.symm

theorem foldlM_add_noBoth (v : List Str) (s s' : CapSet) (hs : NoBothOwner s)
    (h : v.foldlM CapSet.add s = .ok s') : NoBothOwner s' := by
  induction v generalizing s with
  | nil => simp [List.foldlM] at h; cases h; exact hs
  | cons c cs ih =>
    simp only [List.foldlM] at h
    cases hc : CapSet.add s c with
    | error e => simp [hc, bind, Except.bind] at h
    | ok s1 =>
      simp only [hc, bind, Except.bind] at h
      exact ih s1 (add_noBoth s s1 c hs hc) h


end C01
