/-
C01 — capability-gated commands never take effect for callers lacking the capability.
Property theorems (DESIGN.md §6 C01).  Every statement quantifies over all databases `db`
(users, channels, default capabilities, flags), all times `now`, all callers `m.pfx`, all channels
`m.channel`, all plugin names and command paths — nothing is bounded.

The body of a command is reached only through `invoke … = .body _`, which needs `gate … = .allow`
(the prefix loop of `_callCommand`) and then every converter of the wrap spec to return.
-/
import LimnoriaModel.C01.Lemmas
import LimnoriaModel.C01.Required
import LimnoriaModel.C01.Total
namespace C01
open Py C03

/-- the capability names `_callCommand` checks, in order: "Y", then "P", "P.X", "P.X.Y" -/
def checkedNames (pluginName : Str) (command : List Str) (y : Str) : List Str :=
  y :: (prefixes (fullCommandName (canonicalName pluginName) command)).map (joinChar '.')

/-- when the class name lower-cases to its canonical name (true of every bundled plugin,
`plugin_names_canonical` below) the loop performs exactly the checks of `checkedNames` -/
theorem gateChecks_eq (db : Db) (now : Int) (m : Msg) (P : Str) (cmd : List Str) (y : Str)
    (hP : canonicalName P = asciiLower P) (hne : cmd ≠ []) :
    gateChecks db now m P cmd y = (checkedNames P cmd y).map (checkName db now m) := by
  unfold gateChecks checkedNames
  simp only [List.map_cons, List.map_map, List.cons.injEq, true_and]
  obtain ⟨rest, hr⟩ := fullCommandName_head (canonicalName P) cmd hne
  rw [hr]
  apply List.map_congr_left
  intro p hp
  obtain ⟨t, ht⟩ := prefixes_start hp
  subst ht
  simp only [Function.comp, checkPath, ← hP, resolvePath_cons]

/-- **The gate allows exactly when every check allows** (complete characterisation of the
decision taken before `self.callCommand`). -/
theorem gate_allow_iff (db : Db) (now : Int) (m : Msg) (P : Str) (cmd : List Str)
    (hP : canonicalName P = asciiLower P) :
    gate db now m P cmd = .allow ↔
      ∃ y, cmd.getLast? = some y ∧ ∀ n ∈ checkedNames P cmd y, checkName db now m n = .allow := by
  unfold gate
  cases hy : cmd.getLast? with
  | none => simp
  | some y =>
    have hne : cmd ≠ [] := by
      intro h; subst h; simp at hy
    simp only [Option.some.injEq, exists_eq_left']
    rw [firstDeny_allow_iff, gateChecks_eq db now m P cmd y hP hne]
    simp only [List.mem_map, forall_exists_index, and_imp, forall_apply_eq_imp_iff₂]

example : canonicalName ['O', 'w', 'n', 'e', 'r'] = asciiLower ['O', 'w', 'n', 'e', 'r'] := by decide

/-- a plugin whose class name does not lower-case to its canonical name is refused wholesale
(the `assert commandName[0] == plugin` of `checkCommandCapability` fails closed) -/
theorem gate_name_mismatch (db : Db) (now : Int) (m : Msg) (P : Str) (cmd : List Str)
    (hP : canonicalName P ≠ asciiLower P) : gate db now m P cmd ≠ .allow := by
  unfold gate
  cases hy : cmd.getLast? with
  | none => simp
  | some y =>
    have hne : cmd ≠ [] := by
      intro h; subst h; simp at hy
    simp only
    obtain ⟨rest, hr⟩ := fullCommandName_head (canonicalName P) cmd hne
    apply firstDeny_ne_allow_of_mem (g := checkPath db now m (asciiLower P) [canonicalName P])
    · unfold gateChecks
      rw [hr]
      apply List.mem_cons_of_mem
      exact List.mem_map_of_mem (prefixes_head _ _)
    · unfold checkPath resolvePath
      have : (canonicalName P == asciiLower P) = false := by simpa using hP
      simp [this]

example : canonicalName ['M', 'y', '_', 'P'] ≠ asciiLower ['M', 'y', '_', 'P'] := by decide

/-- **gate_forbidden**: if the caller's effective answer for the anti-capability of any of
"Y", "P", "P.X", "P.X.Y" is true, the command method is not called.  Independent of identity,
addressing form and wrapper: the gate is a function of `(msg.prefix, msg.channel, plugin, path)`. -/
theorem gate_forbidden (db : Db) (now : Int) (m : Msg) (P : Str) (cmd : List Str) (y n anti : Str)
    (hy : cmd.getLast? = some y) (hn : n ∈ checkedNames P cmd y)
    (hanti : makeAntiCapability n = .ok anti)
    (hheld : db.checkCapability now m.pfx anti = .ok true) :
    gate db now m P cmd ≠ .allow := by
  by_cases hP : canonicalName P = asciiLower P
  · intro h
    obtain ⟨y', hy', hall⟩ := (gate_allow_iff db now m P cmd hP).1 h
    rw [hy] at hy'
    cases hy'
    exact checkName_ne_allow_of_held hanti hheld (hall n hn)
  · exact gate_name_mismatch db now m P cmd hP

/-- the same for an anti-capability scoped to the channel the message was sent to
(`#chan,-Y`, `#chan,-P`, …), held by the user, by the channel or through the channel default -/
theorem gate_forbidden_channel (db : Db) (now : Int) (m : Msg) (P : Str) (cmd : List Str)
    (y n anti ch chanAnti : Str)
    (hy : cmd.getLast? = some y) (hn : n ∈ checkedNames P cmd y)
    (hanti : makeAntiCapability n = .ok anti)
    (hch : m.channel = some ch) (hca : makeChannelCapability ch anti = .ok chanAnti)
    (hheld : db.checkCapability now m.pfx chanAnti = .ok true) :
    gate db now m P cmd ≠ .allow := by
  by_cases hP : canonicalName P = asciiLower P
  · intro h
    obtain ⟨y', hy', hall⟩ := (gate_allow_iff db now m P cmd hP).1 h
    rw [hy] at hy'
    cases hy'
    exact checkName_ne_allow_of_held_channel hanti hch hca hheld (hall n hn)
  · exact gate_name_mismatch db now m P cmd hP

/-- the plugin's own (lower-cased) name is always among the checked names: the prefix loop
doubles as the `owner` / `admin` capability check -/
theorem gate_checks_plugin (P : Str) (cmd : List Str) (y : Str) (hy : cmd.getLast? = some y) :
    canonicalName P ∈ checkedNames P cmd y := by
  have hne : cmd ≠ [] := by
    intro h; subst h; simp at hy
  obtain ⟨rest, hr⟩ := fullCommandName_head (canonicalName P) cmd hne
  unfold checkedNames
  rw [hr]
  apply List.mem_cons_of_mem
  have := List.mem_map_of_mem (f := joinChar '.') (prefixes_head (canonicalName P) rest)
  simpa [joinChar] using this

/-- a caller "is a recognised, non-ignored owner" exactly when the negation of this holds -/
def NotOwner (db : Db) (now : Int) (h : Str) : Prop :=
  ∀ u, db.recognise now h = some u → u.ignore = true ∨ (ownerS ∉ u.caps ∧ antiOwnerS ∉ u.caps)

/-- the capability decision the whole mechanism rests on: with `-owner` among the defaults,
everybody but a recognised non-ignored owner "holds" `-owner` -/
theorem check_antiowner (db : Db) (now : Int) (h : Str)
    (hdef : antiOwnerS ∈ db.defaults) (hu : NotOwner db now h) :
    db.checkCapability now h antiOwnerS = .ok true :=
  check_antiowner_core db now h hdef hu

/-- **gate_antiowner**: if `-owner` is a default capability and the caller is not a recognised
non-ignored owner, no command of a plugin named `Owner` is called, whatever the command path,
the channel and the rest of the database; and when the "Y" check lets the call through, the
reply names `owner`. -/
theorem gate_antiowner (db : Db) (now : Int) (m : Msg) (P : Str) (cmd : List Str)
    (hP : canonicalName P = ownerS)
    (hdef : antiOwnerS ∈ db.defaults) (hu : NotOwner db now m.pfx) :
    gate db now m P cmd ≠ .allow := by
  cases hy : cmd.getLast? with
  | none => simp [gate, hy]
  | some y =>
    have hn : ownerS ∈ checkedNames P cmd y := hP ▸ gate_checks_plugin P cmd y hy
    exact gate_forbidden db now m P cmd y ownerS antiOwnerS hy hn (by decide)
      (check_antiowner db now m.pfx hdef hu)

example : canonicalName ['O', 'w', 'n', 'e', 'r'] = ownerS := by decide
example : NotOwner {} 0 ['j', '!', 'j', '@', 'h'] := by
  intro u hu; simp [Db.recognise, Db.lookup] at hu

/-- the same mechanism for any plugin `P` and default anti-capability `-p` (`Admin` / `-admin`):
a caller who is not an owner and does not hold `p` never reaches a command of `P` -/
theorem gate_antiplugin (db : Db) (now : Int) (m : Msg) (P p : Str) (cmd : List Str)
    (hP : canonicalName P = p) (hp : PlainCap p)
    (hdef : ('-' :: p) ∈ db.defaults)
    (hu : ∀ u, db.recognise now m.pfx = some u →
      u.ignore = true ∨ (ownerS ∉ u.caps ∧ antiOwnerS ∉ u.caps ∧ p ∉ u.caps)) :
    gate db now m P cmd ≠ .allow := by
  cases hy : cmd.getLast? with
  | none => simp [gate, hy]
  | some y =>
    have hn : p ∈ checkedNames P cmd y := hP ▸ gate_checks_plugin P cmd y hy
    exact gate_forbidden db now m P cmd y p ('-' :: p) hy hn hp.2.2.2.2.2.1
      (check_anti_of_default db now m.pfx p hp hdef hu)

def adminS : Str := ['a', 'd', 'm', 'i', 'n']

/-- instance for the `Admin` plugin -/
theorem gate_antiadmin (db : Db) (now : Int) (m : Msg) (cmd : List Str)
    (hdef : ('-' :: adminS) ∈ db.defaults)
    (hu : ∀ u, db.recognise now m.pfx = some u →
      u.ignore = true ∨ (ownerS ∉ u.caps ∧ antiOwnerS ∉ u.caps ∧ adminS ∉ u.caps)) :
    gate db now m ['A', 'd', 'm', 'i', 'n'] cmd ≠ .allow :=
  gate_antiplugin db now m _ adminS cmd (by decide) (by decide) hdef hu

example : PlainCap adminS := by decide
example : PlainCap ['s', 'c', 'h', 'e', 'd', 'u', 'l', 'e', 'r', '.', 'a', 'd', 'd'] := by decide

/-- the reply names `owner`: when the "Y" check lets the call through, the first loop iteration
(`P` = owner) answers `denied "owner"` -/
theorem gate_antiowner_reply (db : Db) (now : Int) (m : Msg) (P : Str) (cmd : List Str) (y : Str)
    (hP : canonicalName P = ownerS) (hL : asciiLower P = ownerS)
    (hdef : antiOwnerS ∈ db.defaults) (hu : NotOwner db now m.pfx)
    (hy : cmd.getLast? = some y) (hyallow : checkName db now m y = .allow) :
    gate db now m P cmd = .denied ownerS := by
  have hne : cmd ≠ [] := by
    intro h; subst h; simp at hy
  obtain ⟨rest, hr⟩ := fullCommandName_head (canonicalName P) cmd hne
  have hown : checkName db now m ownerS = .denied ownerS := by
    unfold checkName
    have h1 : makeAntiCapability ownerS = .ok antiOwnerS := by decide
    rw [h1]
    simp only
    unfold antiHit
    have h2 : isAntiCapability antiOwnerS = true := by decide
    simp only [h2, Bool.not_true, Bool.false_eq_true, ↓reduceIte, check_antiowner db now m.pfx hdef hu]
    decide
  unfold gate
  rw [hy]
  simp only
  unfold gateChecks
  rw [hr, hyallow]
  simp only [prefixes, List.map_cons, firstDeny]
  have : checkPath db now m (asciiLower P) [canonicalName P] = .denied ownerS := by
    unfold checkPath
    rw [hP, hL, resolvePath_cons]
    simpa [joinChar] using hown
  rw [this]
  simp [firstDeny]

theorem checkCapability_touch (db : Db) (now : Int) (h cap ch : Str) (fl : Flags) :
    (db.touchChannel ch).checkCapability now h cap fl = db.checkCapability now h cap fl := by
  apply checkCapability_congr
  · unfold Db.touchChannel; split <;> rfl
  · unfold Db.touchChannel; split <;> rfl
  · unfold Db.touchChannel; split <;> rfl
  · unfold Db.touchChannel; split <;> rfl
  · unfold Db.touchChannel; split <;> rfl
  · exact getChannel_touch db ch

/-- the channel record `getChannel` creates on the way (the only state a refused call leaves
behind) changes no later gate decision -/
theorem gate_touch (db : Db) (now : Int) (m : Msg) (P : Str) (cmd : List Str) (ch : Str) :
    gate (db.touchChannel ch) now m P cmd = gate db now m P cmd := by
  have hdf : (db.touchChannel ch).defaultFlag = db.defaultFlag := by
    unfold Db.touchChannel; split <;> rfl
  have hany : ∀ l, anyHeld (db.touchChannel ch) now m.pfx l = anyHeld db now m.pfx l := by
    intro l
    induction l with
    | nil => rfl
    | cons c cs ih => simp only [anyHeld, checkCapability_touch, ih]
  have hname : ∀ n, checkName (db.touchChannel ch) now m n = checkName db now m n := by
    intro n
    simp only [checkName, checkNameInChannel, antiHit, finish, checkCapability_touch, hany, hdf, getChannel_touch]
  have hpath : checkPath (db.touchChannel ch) now m (asciiLower P) = checkPath db now m (asciiLower P) := by
    funext p
    simp only [checkPath, hname]
  simp only [gate, gateChecks, hname, hpath]


/-! ## converters -/

/-- **converter_guard**: whatever the unmodelled converters `oth` do, and wherever in the spec it
stands, a top-level `owner` / `admin` / `('checkCapability', c)` lets the spec driver reach the end
only if the capability check answered true. -/
theorem converter_guard (db : Db) (now : Int) (m : Msg) (oth : Nat → CState → Option CState)
    (items : List Item) (i : Nat) (st st' : CState) (c : Str)
    (hmem : Item.cap c ∈ items)
    (hrun : runSpec db now m oth i items st = .ok st') :
    ∃ c', canonicalCapability c = .ok c' ∧ db.checkCapability now m.pfx c' = .ok true := by
  induction items generalizing i st with
  | nil => simp at hmem
  | cons it rest ih =>
    unfold runSpec at hrun
    cases hit : runItem db now m oth i it st with
    | error s => simp [hit] at hrun
    | ok st1 =>
      rw [hit] at hrun
      simp only at hrun
      rcases List.mem_cons.1 hmem with h | h
      · subst h
        simp only [runItem, convCap] at hit
        cases hc : canonicalCapability c with
        | error e => simp [hc] at hit
        | ok c' =>
          refine ⟨c', rfl, ?_⟩
          rw [hc] at hit
          simp only at hit
          cases hk : db.checkCapability now m.pfx c' { ignoreOwner := false } with
          | error e => simp [hk] at hit
          | ok b =>
            cases b with
            | true => rfl
            | false => simp [hk] at hit
      · exact ih (i + 1) st1 h hrun

/-- the same for `('checkCapabilityButIgnoreOwner', c)`: the check is made with `ignoreOwner` -/
theorem converter_guard_noowner (db : Db) (now : Int) (m : Msg) (oth : Nat → CState → Option CState)
    (items : List Item) (i : Nat) (st st' : CState) (c : Str)
    (hmem : Item.capNoOwner c ∈ items)
    (hrun : runSpec db now m oth i items st = .ok st') :
    ∃ c', canonicalCapability c = .ok c' ∧
      db.checkCapability now m.pfx c' { ignoreOwner := true } = .ok true := by
  induction items generalizing i st with
  | nil => simp at hmem
  | cons it rest ih =>
    unfold runSpec at hrun
    cases hit : runItem db now m oth i it st with
    | error s => simp [hit] at hrun
    | ok st1 =>
      rw [hit] at hrun
      simp only at hrun
      rcases List.mem_cons.1 hmem with h | h
      · subst h
        simp only [runItem, convCap] at hit
        cases hc : canonicalCapability c with
        | error e => simp [hc] at hit
        | ok c' =>
          refine ⟨c', rfl, ?_⟩
          rw [hc] at hit
          simp only at hit
          cases hk : db.checkCapability now m.pfx c' { ignoreOwner := true } with
          | error e => simp [hk] at hit
          | ok b =>
            cases b with
            | true => rfl
            | false => simp [hk] at hit
      · exact ih (i + 1) st1 h hrun

/-- **converter_guard_chan**: a top-level `op` / `halfop` / `voice` /
`('checkChannelCapability', c)` lets the driver through only if the caller holds `#ch,c` for the
channel `getChannel` chose (an explicit first argument, else the channel of the message). -/
theorem converter_guard_chan (db : Db) (now : Int) (m : Msg) (oth : Nat → CState → Option CState)
    (items : List Item) (i : Nat) (st st' : CState) (c : Str)
    (hmem : Item.chancap c ∈ items)
    (hrun : runSpec db now m oth i items st = .ok st') :
    ∃ ch cc, chanCapName ch c = .ok cc ∧ db.checkCapability now m.pfx cc = .ok true := by
  induction items generalizing i st with
  | nil => simp at hmem
  | cons it rest ih =>
    unfold runSpec at hrun
    cases hit : runItem db now m oth i it st with
    | error s => simp [hit] at hrun
    | ok st1 =>
      rw [hit] at hrun
      simp only at hrun
      rcases List.mem_cons.1 hmem with h | h
      · subst h
        simp only [runItem, convChanCap] at hit
        cases hg : getChannel m st with
        | error s => simp [hg] at hit
        | ok st2 =>
          rw [hg] at hit
          simp only at hit
          cases hch : st2.channel with
          | none => simp [hch] at hit
          | some ch =>
            rw [hch] at hit
            simp only at hit
            cases hn : chanCapName ch c with
            | error e => simp [hn] at hit
            | ok cc =>
              refine ⟨ch, cc, hn, ?_⟩
              rw [hn] at hit
              simp only at hit
              cases hk : db.checkCapability now m.pfx cc with
              | error e => simp [hk] at hit
              | ok b =>
                cases b with
                | true => rfl
                | false => simp [hk] at hit
      · exact ih (i + 1) st1 h hrun

/-- when the channel converter stands first, the channel it asks about is determined by the
arguments and the message: an explicit channel argument, else the message's channel -/
theorem chancap_first_channel (db : Db) (now : Int) (m : Msg) (oth : Nat → CState → Option CState)
    (rest : List Item) (args : List Str) (st' : CState) (c : Str)
    (hrun : runSpec db now m oth 0 (Item.chancap c :: rest) { args := args } = .ok st') :
    ∃ ch cc, (args.head?.filter isChannel = some ch ∨
              (args.head?.filter isChannel = none ∧ m.channel = some ch)) ∧
      chanCapName ch c = .ok cc ∧ db.checkCapability now m.pfx cc = .ok true := by
  unfold runSpec at hrun
  cases hit : runItem db now m oth 0 (Item.chancap c) { args := args } with
  | error s => simp [hit] at hrun
  | ok st1 =>
    simp only [runItem, convChanCap] at hit
    cases hg : getChannel m { args := args } with
    | error s => simp [hg] at hit
    | ok st2 =>
      rw [hg] at hit
      simp only at hit
      cases hch : st2.channel with
      | none => simp [hch] at hit
      | some ch =>
        rw [hch] at hit
        simp only at hit
        cases hn : chanCapName ch c with
        | error e => simp [hn] at hit
        | ok cc =>
          rw [hn] at hit
          simp only at hit
          have hk : db.checkCapability now m.pfx cc = .ok true := by
            cases hk : db.checkCapability now m.pfx cc with
            | error e => simp [hk] at hit
            | ok b =>
              cases b with
              | true => rfl
              | false => simp [hk] at hit
          refine ⟨ch, cc, ?_, hn, hk⟩
          -- which channel did getChannel choose?
          unfold getChannel at hg
          simp only at hg
          cases args with
          | nil =>
            simp only at hg
            cases hmc : m.channel with
            | none => simp [hmc] at hg
            | some ch' =>
              simp only [hmc, Except.ok.injEq] at hg
              subst hg
              simp only [Option.some.injEq] at hch
              right; simp [hch]
          | cons a as =>
            simp only at hg
            by_cases ha : isChannel a = true
            · simp only [ha, ↓reduceIte, Except.ok.injEq] at hg
              subst hg
              simp only [Option.some.injEq] at hch
              subst hch
              left; simp [Option.filter, ha]
            · simp only [ha, Bool.false_eq_true, ↓reduceIte] at hg
              cases hmc : m.channel with
              | none => simp [hmc] at hg
              | some ch' =>
                simp only [hmc, Except.ok.injEq] at hg
                subst hg
                simp only [Option.some.injEq] at hch
                right; simp [Option.filter, ha, hch]

/-- **invoke_body_requires**: the wrapped function runs only if the gate allowed and the whole
spec returned; every other outcome is a reply (error / help) without the body. -/
theorem invoke_body_requires (db : Db) (now : Int) (m : Msg) (P : Str) (cmd : List Str)
    (spec : List Item) (allowExtra : Bool) (oth : Nat → CState → Option CState) (args : List Str)
    (st : CState)
    (h : invoke db now m P cmd spec allowExtra oth args = .body st) :
    gate db now m P cmd = .allow ∧ runSpec db now m oth 0 spec { args := args } = .ok st := by
  unfold invoke at h
  cases hg : gate db now m P cmd with
  | denied c => simp [hg] at h
  | deniedDefault => simp [hg] at h
  | crash e => simp [hg] at h
  | allow =>
    rw [hg] at h
    simp only at h
    refine ⟨rfl, ?_⟩
    cases hr : runSpec db now m oth 0 spec { args := args } with
    | error s =>
      rw [hr] at h
      cases s <;> simp at h
    | ok st1 =>
      rw [hr] at h
      simp only at h
      split at h
      · simp at h
      · simp only [Outcome.body.injEq] at h
        rw [h]

/-- end to end for the `Owner` plugin: no caller but a recognised non-ignored owner ever runs the
body of one of its commands — whatever the wrap spec, the arguments and the other converters -/
theorem owner_plugin_body_needs_owner (db : Db) (now : Int) (m : Msg) (P : Str) (cmd : List Str)
    (spec : List Item) (allowExtra : Bool) (oth : Nat → CState → Option CState) (args : List Str)
    (hP : canonicalName P = ownerS) (hdef : antiOwnerS ∈ db.defaults) (hu : NotOwner db now m.pfx) :
    (invoke db now m P cmd spec allowExtra oth args).isBody = false := by
  cases h : invoke db now m P cmd spec allowExtra oth args with
  | body st =>
    exact absurd (invoke_body_requires db now m P cmd spec allowExtra oth args st h).1
      (gate_antiowner db now m P cmd hP hdef hu)
  | _ => rfl

/-- end to end for a command behind `owner` / `admin` / `('checkCapability', c)` -/
theorem guarded_body_needs_capability (db : Db) (now : Int) (m : Msg) (P : Str) (cmd : List Str)
    (spec : List Item) (allowExtra : Bool) (oth : Nat → CState → Option CState) (args : List Str)
    (c : Str) (hmem : Item.cap c ∈ spec)
    (hlack : ∀ c', canonicalCapability c = .ok c' → db.checkCapability now m.pfx c' ≠ .ok true) :
    (invoke db now m P cmd spec allowExtra oth args).isBody = false := by
  cases h : invoke db now m P cmd spec allowExtra oth args with
  | body st =>
    obtain ⟨_, hr⟩ := invoke_body_requires db now m P cmd spec allowExtra oth args st h
    obtain ⟨c', hc, hk⟩ := converter_guard db now m oth spec 0 _ st c hmem hr
    exact absurd hk (hlack c' hc)
  | _ => rfl

/-! ## the gate never crashes -/

/-- **The gate never crashes**: for every database (arbitrary stored capability sets), time and
caller, when the plugin's name is canonical, the message's channel is a channel name and every
checked name is a plain word, `_callCommand`'s decision is allow / denied / default-denied — never
an assertion failure or an escaping KeyError. -/
theorem gate_no_crash (db : Db) (now : Int) (m : Msg) (P : Str) (cmd : List Str) (y : Str)
    (hP : canonicalName P = asciiLower P) (hy : cmd.getLast? = some y)
    (hnames : ∀ n ∈ checkedNames P cmd y, validBase n = true)
    (hch : ChanOK m.channel) (e : Err) : gate db now m P cmd ≠ .crash e := by
  have hne : cmd ≠ [] := by
    intro h; subst h; simp at hy
  unfold gate
  rw [hy]
  simp only
  rw [gateChecks_eq db now m P cmd y hP hne]
  rcases firstDeny_mem ((checkedNames P cmd y).map (checkName db now m)) with h | h
  · rw [h]; simp
  · intro hc
    rw [hc] at h
    obtain ⟨n, hn, hcn⟩ := List.mem_map.1 h
    exact checkName_no_crash db now m n (baseOK_of_valid (hnames n hn)) hch e hcn

/-- every name the gate builds for a command of the inventory (called directly or
plugin-qualified) is a plain word: `gate_no_crash` applies to every bundled command -/
theorem inventory_names_plain :
    Gen.commands.all (fun r =>
      match r.path.getLast? with
      | none => false
      | some y =>
        ((checkedNames r.plugin r.path y) ++ (checkedNames r.plugin (canonicalName r.plugin :: r.path) y)).all validBase) = true := by
  decide +kernel

/-! ## re-dispatch sites: whose message reaches the gate -/

/-- at every re-dispatch site but the scheduler's (and `acmd`, which dispatches nothing) the gate
is asked about the message being handled: the capability hypothesis of the gate theorems is about
the caller whose message it is -/
theorem site_msg_is_current (s : Site) (cur stored : RawMsg) (h1 : s ≠ .scheduled) (h2 : s ≠ .acmd) :
    siteMsg s cur stored = some cur := by
  cases s <;> simp_all [siteMsg]

/-- a scheduled command is gated against the message of the caller who scheduled it (on the
database as it is when the event fires), never against whoever happens to be talking -/
theorem site_msg_scheduled (cur stored : RawMsg) : siteMsg .scheduled cur stored = some stored := rfl

/-- hence: a command replayed by the scheduler for a caller who is not (or no longer) an owner never
reaches an `Owner` command, whoever is talking when it fires -/
theorem scheduled_owner_command_refused (db : Db) (now : Int) (cur stored : RawMsg) (sm : Str) (strict : Bool)
    (P : Str) (cmd : List Str) (r : RawMsg)
    (hr : siteMsg .scheduled cur stored = some r)
    (hP : canonicalName P = ownerS) (hdef : antiOwnerS ∈ db.defaults)
    (hu : NotOwner db now stored.pfx) :
    gate db now (r.toMsg sm strict) P cmd ≠ .allow := by
  have : r = stored := by simpa [siteMsg] using hr.symm
  subst this
  exact gate_antiowner db now _ P cmd hP hdef hu

def wOwner : User := { id := 1, name := ['b', 'o', 's', 's'], caps := [ownerS],
                       hostmasks := [['o', '!', 'o', '@', 'h']] }
def wOp : User := { id := 2, name := ['o', 'p'], caps := [['#', 'c', ',', 'o', 'p']],
                    hostmasks := [['p', '!', 'p', '@', 'h']] }
def wDb : Db := { Db.initial with users := [wOwner, wOp] }

/-- FULL STATEMENT (false on the pinned tree, finding C01-trigger-runs-as-speaker): "a stored
command is gated against the caller who stored it":
  ∀ site cur stored, siteMsg site cur stored = some r → r.pfx = (whoever issued the command text).pfx
For `MessageParser` the command text was issued by the user who added the trigger, the message is
the speaker's.  Proved part: `site_msg_is_current` / `site_msg_scheduled` (what reaches the gate);
counter-example: the trigger added by a channel op (not an owner) runs an `Owner` command when the
owner speaks. -/
theorem trigger_runs_with_speakers_authority :
    NotOwner wDb 0 ['p', '!', 'p', '@', 'h'] ∧
    (∃ r, siteMsg .trigger ⟨['o', '!', 'o', '@', 'h'], ['#', 'c']⟩ ⟨['p', '!', 'p', '@', 'h'], ['#', 'c']⟩ = some r ∧
      gate wDb 0 (r.toMsg [] false) ['O', 'w', 'n', 'e', 'r'] [['f', 'l', 'u', 's', 'h']] = .allow) := by
  constructor
  · intro u hu
    have : u = wOp := by
      have h2 : wDb.recognise 0 ['p', '!', 'p', '@', 'h'] = some wOp := by decide
      rw [h2] at hu; exact (Option.some.inj hu).symm
    subst this
    right; decide
  · exact ⟨_, rfl, by decide⟩

/-- the same adder, speaking himself, is refused (the gate is sound for the message it is given) -/
example : gate wDb 0 (RawMsg.toMsg [] false ⟨['p', '!', 'p', '@', 'h'], ['#', 'c']⟩) ['O', 'w', 'n', 'e', 'r'] [['f', 'l', 'u', 's', 'h']] = .denied ownerS := by
  decide

/-- `msg.channel` is a function of `args[0]` alone; with `strictRfc` off a STATUSMSG prefix is
stripped, so `@#chan` is gated like `#chan` -/
example : msgChannel ['@', '+'] false ['@', '#', 'c'] = some ['#', 'c'] := by decide
example : msgChannel ['@', '+'] true ['@', '#', 'c'] = none := by decide

/-! ## ignored callers -/

/-- **ignored_silent**: when `ircdb.checkIgnored(msg.prefix)` is true `Owner.doPrivmsg` returns
before tokenising: no command, no reply. -/
theorem ignored_silent (db : Db) (ig : IgnoreDb) (di : Bool) (now : Int) (h : Str)
    (hi : checkIgnored db ig di now h = .ok true) :
    ownerDoPrivmsg db ig di now h = .silent := by
  unfold ownerDoPrivmsg
  split
  · rfl
  · simp [hi]

/-- a sender whose prefix is not `nick!user@host` (a server, a service, a gateway relaying with a bare
nick) is never dispatched: such a prefix is nobody's identity, in particular not an account name -/
theorem bare_prefix_silent (db : Db) (ig : IgnoreDb) (di : Bool) (now : Int) (h : Str)
    (hh : isUserHostmask h = false) : ownerDoPrivmsg db ig di now h = .silent := by
  simp [ownerDoPrivmsg, hh]

/-- … and even if a command reached the gate with such a prefix (a MessageParser trigger, a stored
message), no account's capabilities apply: commands of the `Owner` plugin are refused -/
theorem bare_prefix_never_owner (db : Db) (now : Int) (m : Msg) (P : Str) (cmd : List Str)
    (hh : isUserHostmask m.pfx = false) (hP : canonicalName P = ownerS) (hdef : antiOwnerS ∈ db.defaults) :
    gate db now m P cmd ≠ .allow := by
  apply gate_antiowner db now m P cmd hP hdef
  intro u hu
  have : db.recognise now m.pfx = none := by unfold Db.recognise; simp [hh]
  rw [this] at hu
  cases hu

/-- nothing is dispatched unless the caller is positively known not to be ignored -/
theorem dispatch_requires_not_ignored (db : Db) (ig : IgnoreDb) (di : Bool) (now : Int) (h : Str)
    (hd : ownerDoPrivmsg db ig di now h = .dispatch) :
    checkIgnored db ig di now h = .ok false ∧ isUserHostmask h = true := by
  unfold ownerDoPrivmsg at hd
  by_cases hh : isUserHostmask h = true
  · simp only [hh, Bool.not_true, Bool.false_eq_true, if_false] at hd
    cases hc : checkIgnored db ig di now h with
    | error e => simp [hc] at hd
    | ok b =>
      cases b with
      | true => simp [hc] at hd
      | false => exact ⟨rfl, hh⟩
  · simp [hh] at hd

/-- a registered user carrying the ignore flag is ignored (even an owner: the flag makes
`_checkCapability('trusted')` answer false) -/
theorem ignore_flag_ignored (db : Db) (ig : IgnoreDb) (di : Bool) (now : Int) (h : Str) (u : User)
    (hh : isUserHostmask h = true)
    (hl : db.lookup now h = .found u) (hflag : u.ignore = true) :
    checkIgnored db ig di now h = .ok true := by
  unfold checkIgnored ignoredGlobal
  rw [hh, if_pos rfl, hl]
  simp only
  have : u.checkCapability trustedS = .ok false := by
    unfold User.checkCapability
    simp only [hflag, ↓reduceIte]
    decide
  rw [this]
  simp [hflag]

/-- an unregistered hostmask matched by a live entry of the ignore database is ignored -/
theorem ignores_db_ignored (db : Db) (ig : IgnoreDb) (di : Bool) (now : Int) (h : Str)
    (hl : db.lookup now h = .missing) (hm : ig.check now h = true) :
    checkIgnored db ig di now h = .ok true := by
  have hlk : (if isUserHostmask h = true then db.lookup now h else Lookup.missing) = Lookup.missing := by
    split
    · exact hl
    · rfl
  unfold checkIgnored ignoredGlobal
  rw [hlk]
  cases di <;> simp [hm]

/-- a caller ignored globally or by the channel the message was sent to never reaches the
dispatcher: `PluginMixin.__call__` does not even call `Owner.doPrivmsg` -/
theorem channel_ignored_silent (db : Db) (ig : IgnoreDb) (di : Bool) (now : Int) (h : Str)
    (recipient : Option Str) (chan : Str → ChanIgn)
    (hh : isUserHostmask h = true)
    (hi : checkIgnoredIn db ig di now h recipient chan = .ok true) :
    received db ig di now h recipient chan = .silent := by
  have hne : h.isEmpty = false := by
    cases h with
    | nil => simp [isUserHostmask, userHostBody] at hh
    | cons c cs => rfl
  simp [received, pluginSees, hh, hne, hi]

/-- a command is dispatched only if both tests answered "not ignored" -/
theorem received_dispatch_requires (db : Db) (ig : IgnoreDb) (di : Bool) (now : Int) (h : Str)
    (recipient : Option Str) (chan : Str → ChanIgn)
    (hh : isUserHostmask h = true)
    (hd : received db ig di now h recipient chan = .dispatch) :
    checkIgnoredIn db ig di now h recipient chan = .ok false ∧ checkIgnored db ig di now h = .ok false := by
  have hne : h.isEmpty = false := by
    cases h with
    | nil => simp [isUserHostmask, userHostBody] at hh
    | cons c cs => rfl
  unfold received pluginSees at hd
  simp only [hh, hne, Bool.not_true, Bool.or_self, Bool.false_eq_true, ↓reduceIte] at hd
  cases hc : checkIgnoredIn db ig di now h recipient chan with
  | error e => simp [hc] at hd
  | ok b =>
    cases b with
    | true => simp [hc] at hd
    | false =>
      simp only [hc, Bool.not_false] at hd
      exact ⟨rfl, (dispatch_requires_not_ignored db ig di now h hd).1⟩

/-- a live channel ban or channel ignore matching the caller silences them in that channel -/
theorem channel_ban_ignored (db : Db) (ig : IgnoreDb) (di : Bool) (now : Int) (h ch : Str)
    (chan : Str → ChanIgn) (e : Str × Int)
    (hg : ignoredGlobal db ig di now h = .ok none)
    (hch : isChannel ch = true) (hh : isUserHostmask h = true)
    (hmem : e ∈ (chan ch).bans ∨ e ∈ (chan ch).ignores)
    (hlive : banLive now e = true) (hmatch : glob e.1 h = true) :
    checkIgnoredIn db ig di now h (some ch) chan = .ok true := by
  unfold checkIgnoredIn
  rw [hg]
  simp only [hch, ↓reduceIte]
  unfold ChanIgn.check
  by_cases hl : (chan ch).lobotomized = true
  · simp [hl]
  · simp only [hl, Bool.false_eq_true, ↓reduceIte, hh, Bool.not_true, Except.ok.injEq, Bool.or_eq_true,
      List.any_eq_true, Bool.and_eq_true]
    rcases hmem with hm | hm
    · left; exact ⟨e, hm, hlive, hmatch⟩
    · right; exact ⟨e, hm, hlive, hmatch⟩

/-- a trusted user (owners included) is never ignored, not even in a lobotomized channel -/
theorem trusted_never_ignored (db : Db) (ig : IgnoreDb) (di : Bool) (now : Int) (h : Str) (u : User)
    (recipient : Option Str) (chan : Str → ChanIgn)
    (hh : isUserHostmask h = true)
    (hl : db.lookup now h = .found u) (ht : u.checkCapability trustedS = .ok true) :
    checkIgnoredIn db ig di now h recipient chan = .ok false := by
  simp [checkIgnoredIn, ignoredGlobal, hh, hl, ht]

/-! ## the flood guard -/

/-- with the flood guard on, a command is dispatched only if the caller is not ignored and either
stayed within the rate or is trusted -/
theorem flood_dispatch_requires (db : Db) (ig : IgnoreDb) (di : Bool) (now : Int) (h : Str)
    (on : Bool) (queued maximum : Nat) (bm : Str) (pun : Int) (ig' : IgnoreDb)
    (hd : ownerDoPrivmsgFlood db ig di now h on queued maximum bm pun = (.dispatch, ig')) :
    checkIgnored db ig di now h = .ok false ∧ ig' = ig ∧
      (on = false ∨ queued ≤ maximum ∨ db.checkCapability now h trustedS = .ok true) := by
  unfold ownerDoPrivmsgFlood at hd
  have hh : isUserHostmask h = true := by
    cases hq : isUserHostmask h with
    | true => rfl
    | false => simp [hq] at hd
  simp only [hh, Bool.not_true, Bool.false_eq_true, if_false] at hd
  cases hc : checkIgnored db ig di now h with
  | error e => simp [hc] at hd
  | ok b =>
    cases b with
    | true => simp [hc] at hd
    | false =>
      simp only [hc] at hd
      refine ⟨rfl, ?_⟩
      unfold floodGuard at hd
      by_cases hg : (on && decide (queued > maximum)) = true
      · simp only [hg, if_true] at hd
        cases ht : db.checkCapability now h trustedS with
        | error e => simp [ht] at hd
        | ok t =>
          cases t with
          | false => simp [ht] at hd
          | true =>
            simp only [ht, Prod.mk.injEq, true_and] at hd
            exact ⟨hd.symm, Or.inr (Or.inr rfl)⟩
      · simp only [hg, Bool.false_eq_true, if_false, Prod.mk.injEq, true_and] at hd
        refine ⟨hd.symm, ?_⟩
        simp only [Bool.and_eq_true, decide_eq_true_eq, not_and, Nat.not_lt] at hg
        cases on with
        | false => exact Or.inl rfl
        | true => exact Or.inr (Or.inl (hg rfl))

/-- a punished caller is then ignored for as long as the entry lives (when the ban mask matches the
caller and the caller is neither registered-and-trusted nor otherwise exempt) -/
theorem flood_punishment_ignores (ig : IgnoreDb) (bm h : Str) (t now' : Int)
    (hm : glob bm h = true) (hlive : now' ≤ t) :
    IgnoreDb.check { entries := ig.entries ++ [(bm, t)] } now' h = true := by
  unfold IgnoreDb.check
  simp only [List.any_append, List.any_cons, List.any_nil, Bool.or_false, Bool.or_eq_true]
  right
  simp only [ignoreLive, hm, Bool.and_true, Bool.not_eq_true', Bool.and_eq_false_iff, bne_eq_false_iff_eq,
    decide_eq_false_iff_not, Int.not_lt]
  right
  omega

/-! ## channel-operator commands act on the channel the caller was checked for -/

/-- `Channel.capability add / remove`: the capability argument `c` is stored as
`makeChannelCapability(channel, c)` with the channel the `op` converter checked.  Whatever `c` is —
also a string that itself looks like a channel capability such as `#b,op` — the stored capability
belongs to THAT channel (`fromChannelCapability` gives back `(channel, c)`), never to the channel
named inside the argument: an #a op cannot hand out #b capabilities. -/
theorem chancap_argument_scoped (channel c stored : Str)
    (h : makeChannelCapability channel c = .ok stored) :
    chanSplit stored = some (channel, c) := by
  unfold makeChannelCapability at h
  by_cases hc : isCapability c = true
  · by_cases hch : isChannel channel = true
    · simp only [hc, hch, Bool.not_true, Bool.false_eq_true, if_false, Except.ok.injEq] at h
      rw [← h]
      exact chanSplit_chan hch hc
    · simp [hc, hch] at h
  · simp [hc] at h

example : makeChannelCapability ['#', 'a'] ['#', 'b', ',', 'o', 'p'] = .ok ['#', 'a', ',', '#', 'b', ',', 'o', 'p'] := by decide
example : chanSplit ['#', 'a', ',', '#', 'b', ',', 'o', 'p'] = some (['#', 'a'], ['#', 'b', ',', 'o', 'p']) := by decide

/-- **voice / devoice act on others only for channel ops**: if the body of `voice` / `devoice` sends
a mode change for any nick other than the caller's own — wherever in the list the caller's nick
stands, however many nicks there are — the caller holds `#chan,op`; `#chan,voice` alone only ever
reaches the caller himself. -/
theorem voice_others_needs_op (db : Db) (now : Int) (h callerNick channel : Str) (nicks targets : List Str)
    (t : Str) (hout : voiceBody db now h callerNick channel nicks = .modes targets)
    (ht : t ∈ targets) (hne : t ≠ callerNick) :
    ∃ cap, makeChannelCapability channel opS = .ok cap ∧ db.checkCapability now h cap = .ok true := by
  unfold voiceBody at hout
  have hcap : voiceCapability callerNick nicks = opS := by
    unfold voiceCapability
    cases nicks with
    | nil =>
      -- no nick given: the only target is the caller
      exfalso
      cases hm : makeChannelCapability channel (voiceCapability callerNick []) with
      | error e => simp [hm] at hout
      | ok cap =>
        rw [hm] at hout
        simp only at hout
        cases hk : db.checkCapability now h cap with
        | error e => simp [hk] at hout
        | ok b =>
          cases b with
          | false => simp [hk] at hout
          | true =>
            simp only [hk, VoiceOut.modes.injEq] at hout
            rw [← hout] at ht
            simp [voiceTargets] at ht
            exact hne ht
    | cons n rest =>
      cases rest with
      | cons n2 r2 => rfl
      | nil =>
        by_cases hn : n = callerNick
        · exfalso
          subst hn
          cases hm : makeChannelCapability channel (voiceCapability n [n]) with
          | error e => simp [hm] at hout
          | ok cap =>
            rw [hm] at hout
            simp only at hout
            cases hk : db.checkCapability now h cap with
            | error e => simp [hk] at hout
            | ok b =>
              cases b with
              | false => simp [hk] at hout
              | true =>
                simp only [hk, VoiceOut.modes.injEq] at hout
                rw [← hout] at ht
                simp [voiceTargets] at ht
                exact hne ht
        · simp [hn]
  rw [hcap] at hout
  cases hm : makeChannelCapability channel opS with
  | error e => simp [hm] at hout
  | ok cap =>
    refine ⟨cap, rfl, ?_⟩
    rw [hm] at hout
    simp only at hout
    cases hk : db.checkCapability now h cap with
    | error e => simp [hk] at hout
    | ok b =>
      cases b with
      | true => rfl
      | false => simp [hk] at hout

example : voiceCapability ['j', 'o', 'e'] [['j', 'o', 'e'], ['a', 'l']] = opS := by decide
example : voiceCapability ['j', 'o', 'e'] [['j', 'o', 'e']] = voiceS := by decide
example : voiceCapability ['j', 'o', 'e'] [['J', 'o', 'e']] = opS := by decide

/-! ## configuration writes -/

/-- **config_write_guard**: `group.set(value)` is reached only for a name that is not read-only and
only when the caller holds the capability `getCapability` computes, which is `owner` or
`#chan,op` for a channel component of the name; `#chan,op` only when every group on the path is
op-settable. -/
theorem config_write_guard (db : Db) (now : Int) (m : Msg) (allowShell : Bool)
    (opSettable : List Str → Bool) (parts partsLower : List Str)
    (h : checkCanSetValue db now m allowShell opSettable parts partsLower = .pass) :
    isReadOnly allowShell partsLower = false ∧
    ∃ root rest cap, parts = root :: rest ∧ getCapability opSettable parts = .ok cap ∧
      db.checkCapability now m.pfx cap = .ok true ∧
      (cap = ownerS ∨
        ((∃ part ∈ rest, isChannel part = true ∧ makeChannelCapability part opS = .ok cap) ∧
         ∀ k, 0 < k → k ≤ rest.length → opSettable ([root] ++ rest.take k) = true)) := by
  unfold checkCanSetValue at h
  cases hro : isReadOnly allowShell partsLower with
  | true => simp [hro] at h
  | false =>
    refine ⟨rfl, ?_⟩
    simp only [hro, Bool.false_eq_true, ↓reduceIte] at h
    cases hg : getCapability opSettable parts with
    | error e => simp [hg] at h
    | ok cap =>
      rw [hg] at h
      simp only at h
      have hk : db.checkCapability now m.pfx cap = .ok true := by
        cases hk : db.checkCapability now m.pfx cap with
        | error e => simp [hk] at h
        | ok b =>
          cases b with
          | true => rfl
          | false => simp [hk] at h
      cases parts with
      | nil => simp [getCapability] at hg
      | cons root rest =>
        refine ⟨root, rest, cap, rfl, rfl, hk, ?_⟩
        unfold getCapability at hg
        by_cases hc : cap = ownerS
        · left; exact hc
        · right
          rcases cfgLoop_result opSettable [root] rest ownerS cap hg with h1 | h1 | h1
          · exact absurd h1 hc
          · exact absurd h1 hc
          · exact ⟨h1, cfgLoop_nonowner_settable opSettable [root] rest ownerS cap hg hc⟩

/-- `Config.channel` with several channels: a channel's value is written only if the check made
FOR THAT CHANNEL passed (the permission for the first listed channel says nothing about the others) -/
theorem config_channel_each_checked (check : Str → CfgOut) (chs : List Str) (ch : Str)
    (h : ch ∈ (setChannels check chs).1) : check ch = .pass := by
  induction chs with
  | nil => simp [setChannels] at h
  | cons c rest ih =>
    unfold setChannels at h
    cases hc : check c with
    | pass =>
      simp only [hc, List.mem_cons] at h
      rcases h with h | h
      · rw [h]; exact hc
      · exact ih h
    | readOnly => simp [hc] at h
    | noCapability x => simp [hc] at h
    | crash e => simp [hc] at h

/-- … and nothing after the first refused channel is written -/
theorem config_channel_stops (check : Str → CfgOut) (pre post : List Str) (ch : Str)
    (hpre : ∀ c ∈ pre, check c = .pass) (hch : check ch ≠ .pass) :
    setChannels check (pre ++ ch :: post) = (pre, check ch) := by
  induction pre with
  | nil =>
    simp only [List.nil_append]
    unfold setChannels
    cases hc : check ch with
    | pass => exact absurd hc hch
    | readOnly => rfl
    | noCapability x => rfl
    | crash e => rfl
  | cons c rest ih =>
    have h1 := hpre c List.mem_cons_self
    have h2 := ih (fun x hx => hpre x (List.mem_cons_of_mem _ hx))
    simp only [List.cons_append, setChannels, h1, h2]

/-- read-only names (`supybot.commands.allowShell` off → on, `supybot.directories.*`) are never
written through the bot unless `allowShell` is already on -/
theorem readonly_never_written (db : Db) (now : Int) (m : Msg)
    (opSettable : List Str → Bool) (parts partsLower : List Str)
    (h : isReadOnly false partsLower = true) :
    checkCanSetValue db now m false opSettable parts partsLower = .readOnly := by
  simp [checkCanSetValue, h]

example : isReadOnly false [supybotS, directoriesS, ['c', 'o', 'n', 'f']] = true := by decide
example : isReadOnly false [commandsS, allowshellS] = true := by decide

/-! ## supybot.capabilities -/

/-- **defaults_have_antiowner**: whatever list is assigned to `supybot.capabilities` (without
`--allow-default-owner`), the stored set contains `-owner`. -/
theorem defaults_have_antiowner (v : List Str) (s : CapSet) (h : setDefaults false v = .ok s) :
    antiOwnerS ∈ s := by
  unfold setDefaults at h
  cases ho : CapSet.ofList v with
  | error e => simp [ho] at h
  | ok s0 =>
    rw [ho] at h
    simp only at h
    by_cases hm : antiOwnerS ∈ s0
    · simp only [hm, decide_true, Bool.not_true, Bool.false_and, Bool.false_eq_true, ↓reduceIte,
        Except.ok.injEq] at h
      exact h ▸ hm
    · simp only [hm, decide_false, Bool.not_false, Bool.and_self, ↓reduceIte] at h
      unfold CapSet.add at h
      simp only [toLower_antiOwner] at h
      have : invertCapability antiOwnerS = .ok ownerS := by decide
      rw [this] at h
      simp only [Except.ok.injEq] at h
      subst h
      unfold CapSet.insert
      split
      · assumption
      · simp

/-- … and when `-owner` had to be added, `owner` is gone -/
theorem defaults_drop_owner (v : List Str) (s0 s : CapSet) (h0 : CapSet.ofList v = .ok s0)
    (hm : antiOwnerS ∉ s0) (h : setDefaults false v = .ok s) : ownerS ∉ s := by
  unfold setDefaults at h
  rw [h0] at h
  simp only [hm, decide_false, Bool.not_false, Bool.and_self, ↓reduceIte] at h
  unfold CapSet.add at h
  simp only [toLower_antiOwner] at h
  have : invertCapability antiOwnerS = .ok ownerS := by decide
  rw [this] at h
  simp only [Except.ok.injEq] at h
  subst h
  unfold CapSet.insert CapSet.erase
  split
  · simp
  · simp only [List.mem_append, List.mem_filter, List.mem_singleton, not_or]
    constructor
    · simp
    · decide

example : setDefaults false [ownerS] = .ok [antiOwnerS] := by decide

/-- full form of `defaults_have_antiowner`: after any assignment of `supybot.capabilities` the set
contains `-owner` and does not contain `owner` -/
theorem defaults_antiowner_not_owner (v : List Str) (s : CapSet) (h : setDefaults false v = .ok s) :
    antiOwnerS ∈ s ∧ ownerS ∉ s := by
  refine ⟨defaults_have_antiowner v s h, ?_⟩
  cases ho : CapSet.ofList v with
  | error e => simp [setDefaults, ho] at h
  | ok s0 =>
    by_cases hm : antiOwnerS ∈ s0
    · have hs : s = s0 := by
        simp only [setDefaults, ho, hm, decide_true, Bool.not_true, Bool.false_and, Bool.false_eq_true,
          ↓reduceIte, Except.ok.injEq] at h
        exact h.symm
      subst hs
      have hnb : NoBothOwner s := foldlM_add_noBoth v [] s (by simp [NoBothOwner]) ho
      intro hown
      exact hnb ⟨hown, hm⟩
    · exact defaults_drop_owner v s0 s ho hm h

/-! ## obligations on what was extracted from /repo (checked again on every run) -/

/-- the shipped default capabilities contain `-owner` and `-admin` (and the scheduler / alias
anti-capabilities the property file mentions) -/
theorem shipped_defaults_ok :
    antiOwnerS ∈ Db.initial.defaults ∧ ('-' :: adminS) ∈ Db.initial.defaults ∧
    ('-' :: trustedS) ∈ Db.initial.defaults := by decide

/-- is `(kind, capability)` a top-level spec item of the row `(plugin, path)` of the generated table? -/
def rowHas (pl : Str) (path : List Str) (k : String) (a : Str) : Bool :=
  Gen.commands.any (fun r => r.plugin == pl && r.path == path && r.spec.contains (k, a))

/-- every command the committed list `requiredGuards` declares privileged still has its capability
converter at top level of its wrap spec in the current tree -/
theorem required_present : requiredGuards.all (fun x => rowHas x.1 x.2.1 x.2.2.1 x.2.2.2) = true := by
  decide +kernel

/-- every bundled plugin's class name lower-cases to its canonical name (hypothesis of
`gate_allow_iff`), `Owner` ↦ `owner`, `Admin` ↦ `admin`, and no capability converter is nested
inside a context that could swallow its error -/
theorem plugin_names_canonical :
    Gen.commands.all (fun r => canonicalName r.plugin == asciiLower r.plugin) = true ∧
    canonicalName ['O', 'w', 'n', 'e', 'r'] = ownerS ∧ canonicalName ['A', 'd', 'm', 'i', 'n'] = adminS ∧
    Gen.commands.any (fun r => r.plugin == ['O', 'w', 'n', 'e', 'r']) = true ∧
    Gen.commands.any (fun r => r.plugin == ['A', 'd', 'm', 'i', 'n']) = true ∧
    Gen.capInsideContext = [] := by
  decide +kernel

/-- every entry of the committed list is, after decoding the generated row, a modelled capability
item of that row's spec — so `guarded_body_needs_capability` / `converter_guard_chan` apply to it -/
theorem required_rows_guarded :
    ∀ x ∈ requiredGuards, ∃ r ∈ Gen.commands, r.plugin = x.1 ∧ r.path = x.2.1 ∧
      Item.ofGen (x.2.2.1, x.2.2.2) ∈ r.spec.map Item.ofGen ∧
      (Item.ofGen (x.2.2.1, x.2.2.2) = .cap x.2.2.2 ∨ Item.ofGen (x.2.2.1, x.2.2.2) = .capNoOwner x.2.2.2 ∨
       Item.ofGen (x.2.2.1, x.2.2.2) = .chancap x.2.2.2) := by
  decide +kernel

theorem defaults_mutators_ok :
    Gen.defaultCapsMutators = ["plugins/Owner/plugin.py:Owner.defaultcapability:add",
                               "plugins/Owner/plugin.py:Owner.defaultcapability:add",
                               "plugins/Owner/plugin.py:Owner.defaultcapability:remove"] := by
  decide

/-- the capability names the gate builds for every command of the inventory (invoked directly or
plugin-qualified) are well-formed: their anti-capability exists and inverts back to the name, so
the gate's answer for a bundled command is never an assertion failure on the name -/
theorem inventory_names_valid :
    Gen.commands.all (fun r =>
      match r.path.getLast? with
      | none => false
      | some y =>
        ((checkedNames r.plugin r.path y) ++ (checkedNames r.plugin (canonicalName r.plugin :: r.path) y)).all (fun n =>
          match makeAntiCapability n with
          | .ok a => isAntiCapability a && decide (unAntiCapability a = .ok n) && isCapability n
          | .error _ => false)) = true := by
  decide +kernel

/-- the call graph around the gate: `callCommand` is only called from `_callCommand` (overrides
delegate to their parent), `_callCommand` only from `finalEval` (directly or as a thread target)
and from `commands.thread`, `getCommandMethod` only from `callCommand` and the help functions, and
every re-dispatch site hands the caller's own `msg` (or `Utilities.let`'s copy of it) to `Proxy` -/
theorem callgraph_ok :
    Gen.callCommandCallers = ["src/callbacks.py:Commands._callCommand"] ∧
    Gen.callGateCallers = ["src/callbacks.py:NestedCommandsIrcProxy.finalEval",
                           "src/callbacks.py:NestedCommandsIrcProxy.finalEval",
                           "src/commands.py:thread.newf"] ∧
    Gen.getCommandMethodCallers = ["plugins/Factoids/plugin.py:Factoids.getCommandHelp",
                                   "src/callbacks.py:Commands.callCommand",
                                   "src/callbacks.py:Commands.getCommandHelp"] ∧
    Gen.proxySites.all (fun s => s.2.1 == "msg" || s.2.1 == "fake_msg") = true := by
  decide

/-- the shape of the gate code the model mirrors (each fact is a syntactic check of the current
source by the extractor) -/
theorem gate_shape_ok : Gen.gateShape.all (fun s => s.2) = true ∧ Gen.gateShape.length = 22 := by
  decide

/-- a refusal is a `raise`: no call site of `errorNoCapability` passes `Raise=False` (the default is
True, and `gate_shape_ok` pins that the function raises whatever the configured message text is —
also the empty one), so nothing after such a call runs -/
theorem refusals_raise :
    Gen.noCapabilitySites.all (fun s => s.2 == "True" || s.2 == "default") = true ∧
    Gen.noCapabilitySites.length ≥ 20 := by
  decide

end C01
