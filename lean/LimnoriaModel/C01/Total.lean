/-
C01 — `checkCapability` returns on every database (no well-formedness assumed): helper lemmas for
`checkCapability_total` / `gate_no_crash`.  Builds on the C03 lemmas about rendered capabilities.
-/
import LimnoriaModel.C01.Model
import LimnoriaModel.C03.Lemmas
namespace C01
open Py C03

/-- lowering a valid capability gives `render` of lowered, well-formed parts (as C03.valid_lower) -/
theorem valid_lower' {cap : Str} (hv : validCap cap = true) :
    ∃ (a : Bool) (ch : Option Str) (b : Str), LCap ch b ∧ toLower cap = render a ch b := by
  obtain ⟨a, ch, b, hch, hb, e⟩ := validCap_shape hv
  refine ⟨a, ch.map toLower, toLower b, ⟨chanOK_toLower hch, baseOK_toLower hb, ?_, toLower_idem b⟩, ?_⟩
  · cases ch with
    | none => rfl
    | some c => simp only [Option.map_some, toLower_idem]
  · rw [e, toLower_render]

/-- the call returned (no exception) -/
def Tot {α} (r : R α) : Prop := ∃ v, r = .ok v
/-- the call returned or raised KeyError (which every caller in `checkCapability` catches) -/
def TotK {α} (r : R α) : Prop := (∃ v, r = .ok v) ∨ r = .error .key

theorem check_totK {ch : Option Str} {b : Str} (h : LCap ch b) (a : Bool) (s : CapSet) :
    TotK (CapSet.check s (render a ch b)) := by
  unfold CapSet.check
  simp only [h.lower_render, invert_render h.chOK h.bOK]
  split
  · exact Or.inl ⟨_, rfl⟩
  · split
    · exact Or.inl ⟨_, rfl⟩
    · exact Or.inr rfl

/-- `x in s` true ⇒ `s.check(x)` returns -/
theorem check_tot_of_contains {ch : Option Str} {b : Str} (h : LCap ch b) (a : Bool) (s : CapSet)
    (hc : CapSet.contains s (render a ch b) = .ok true) : Tot (CapSet.check s (render a ch b)) := by
  unfold CapSet.contains at hc
  unfold CapSet.check
  simp only [h.lower_render, invert_render h.chOK h.bOK] at hc ⊢
  split
  · exact ⟨_, rfl⟩
  · rename_i h1
    simp only [h1, if_false, Except.ok.injEq, decide_eq_true_eq] at hc
    simp only [hc, if_true]
    exact ⟨_, rfl⟩

theorem ucontains_tot {ch : Option Str} {b : Str} (h : LCap ch b) (a : Bool) (s : CapSet) (io : Bool) :
    Tot (ucontains s (render a ch b) io) := by
  unfold ucontains
  simp only [h.lower_render]
  have ho : CapSet.contains s ownerS = .ok (Spec.look s ownerS antiOwnerS).isSome := contains_render lcap_owner false s
  have hc := contains_render h a s
  split
  · exact ⟨_, rfl⟩
  · split
    · rw [hc]; exact ⟨_, rfl⟩
    · rw [ho]
      cases (Spec.look s ownerS antiOwnerS).isSome
      · simp only; rw [hc]; exact ⟨_, rfl⟩
      · exact ⟨_, rfl⟩

theorem ucheck_totK {ch : Option Str} {b : Str} (h : LCap ch b) (a : Bool) (s : CapSet) (io : Bool) :
    TotK (ucheck s (render a ch b) io) := by
  unfold ucheck
  simp only [h.lower_render]
  have ho : CapSet.contains s ownerS = .ok (Spec.look s ownerS antiOwnerS).isSome := contains_render lcap_owner false s
  have hk : TotK (CapSet.check s (render a ch b)) := check_totK h a s
  rw [ho]
  split
  · cases (Spec.look s ownerS antiOwnerS).isSome <;> exact Or.inl ⟨_, rfl⟩
  · split
    · exact hk
    · cases (Spec.look s ownerS antiOwnerS).isSome
      · exact hk
      · exact Or.inl ⟨_, rfl⟩

theorem userCheck_totK {ch : Option Str} {b : Str} (h : LCap ch b) (a : Bool) (u : User) (io : Bool) :
    TotK (u.checkCapability (render a ch b) io) := by
  unfold User.checkCapability
  split
  · exact Or.inl ⟨_, rfl⟩
  · exact ucheck_totK h a u.caps io

theorem userStage_tot {ch : Option Str} {b : Str} (h : LCap ch b) (a : Bool) (u : User) (fl : Flags) :
    Tot (userStage u (render a ch b) fl) := by
  unfold userStage
  obtain ⟨v, hv⟩ := ucontains_tot h a u.caps false
  rw [hv]
  cases v
  · exact ⟨_, rfl⟩
  · simp only
    rcases userCheck_totK h a u fl.ignoreOwner with ⟨w, hw⟩ | hw
    · rw [hw]; exact ⟨_, rfl⟩
    · rw [hw]; exact ⟨_, rfl⟩

theorem chanOpStage_tot {c b : Str} (h : LCap (some c) b) (u : User) (fl : Flags) :
    Tot (chanOpStage u c fl) := by
  have hop := lcap_chanop h
  unfold chanOpStage makeChannelCapability
  have e1 : isCapability opS = true := by decide
  have e2 := (h.chOK c rfl).1
  have hr : c ++ ',' :: opS = render false (some c) opS := rfl
  simp only [e1, e2, Bool.not_true, Bool.false_eq_true, if_false]
  split
  · exact ⟨_, rfl⟩
  · rw [hr]
    rcases userCheck_totK hop false u false with ⟨w, hw⟩ | hw
    · rw [hw]; exact ⟨_, rfl⟩
    · rw [hw]; exact ⟨_, rfl⟩

theorem chanDecide_tot {b : Str} (h : LCap none b) (a : Bool) (chan : Channel) (d : Bool) :
    Tot (chan.decide (render a none b) d) := by
  unfold Channel.decide Channel.checkCapability
  have hc := contains_render h a chan.caps
  simp only [isCapability_render h.chOK h.bOK, Bool.not_true, Bool.false_eq_true, if_false]
  cases hv : (Spec.look chan.caps (keyPos none b) (keyNeg none b)).isSome
  · rw [hv] at hc; rw [hc]; exact ⟨_, rfl⟩
  · rw [hv] at hc; rw [hc]
    simp only
    exact check_tot_of_contains h a chan.caps hc

theorem globalsUnknown_tot {b : Str} (h : LCap none b) (a : Bool) (db : Db) (ida : Bool) :
    Tot (db.globalsUnknown (render a none b) ida) := by
  unfold Db.globalsUnknown
  have hc := contains_render h a db.defaults
  cases hv : (Spec.look db.defaults (keyPos none b) (keyNeg none b)).isSome
  · rw [hv] at hc; rw [hc]; exact ⟨_, rfl⟩
  · rw [hv] at hc; rw [hc]; exact check_tot_of_contains h a db.defaults hc

theorem globalsKnown_tot {b : Str} (h : LCap none b) (a : Bool) (db : Db) (ida : Bool) :
    Tot (db.globalsKnown (render a none b) ida) := by
  unfold Db.globalsKnown
  have hc := contains_render h a db.defaults
  have hr := contains_render h a db.registered
  cases hv : (Spec.look db.defaults (keyPos none b) (keyNeg none b)).isSome
  · rw [hv] at hc; rw [hc]
    simp only
    cases hw : (Spec.look db.registered (keyPos none b) (keyNeg none b)).isSome
    · rw [hw] at hr; rw [hr]; exact ⟨_, rfl⟩
    · rw [hw] at hr; rw [hr]; exact check_tot_of_contains h a db.registered hr
  · rw [hv] at hc; rw [hc]; exact check_tot_of_contains h a db.defaults hc

theorem checkUnknown_tot {ch : Option Str} {b : Str} (h : LCap ch b) (a : Bool) (db : Db) (ida : Bool) :
    Tot (db.checkUnknown (render a ch b) ida) := by
  unfold Db.checkUnknown
  rw [chanSplit_render h.chOK h.bOK]
  cases ch with
  | none => simp only [Option.map_none]; exact globalsUnknown_tot h a db ida
  | some c =>
    simp only [Option.map_some]
    obtain ⟨v, hv⟩ := chanDecide_tot (lcap_plain h) a (db.getChannel c) (!ida && (db.getChannel c).defaultAllow)
    rw [hv]; exact ⟨_, rfl⟩

theorem channelStage_tot {c b : Str} (h : LCap (some c) b) (a : Bool) (db : Db) (u : User) (fl : Flags) :
    Tot (db.channelStage u c (render a none b) fl) := by
  unfold Db.channelStage
  obtain ⟨v, hv⟩ := chanOpStage_tot h u fl
  rw [hv]
  cases v
  · exact chanDecide_tot (lcap_plain h) a _ _
  · exact ⟨_, rfl⟩

theorem checkKnown_tot {ch : Option Str} {b : Str} (h : LCap ch b) (a : Bool) (db : Db) (u : User) (fl : Flags) :
    Tot (db.checkKnown u (render a ch b) fl) := by
  unfold Db.checkKnown
  obtain ⟨v, hv⟩ := userStage_tot h a u fl
  rw [hv, chanSplit_render h.chOK h.bOK]
  cases v with
  | some w => exact ⟨_, rfl⟩
  | none =>
    cases ch with
    | none => simp only [Option.map_none]; exact globalsKnown_tot h a db _
    | some c => simp only [Option.map_some]; exact channelStage_tot h a db u fl

/-- **No crash, whatever is stored.**  For EVERY database — inconsistent capability sets, `-owner`
in a user's set, garbage strings in any set, any users / channels / defaults — every time, sender
and flag combination, `checkCapability` on a valid capability string returns a boolean: none of
its assertions can fail and no KeyError escapes. -/
theorem checkCapability_total (db : Db) (now : Int) (h cap : Str) (fl : Flags) (hv : validCap cap = true) :
    ∃ v, db.checkCapability now h cap fl = .ok v := by
  obtain ⟨a, ch, b, hl, e⟩ := valid_lower' hv
  rw [← checkCapability_lower, e]
  unfold Db.checkCapability
  cases db.recognise now h with
  | none => exact checkUnknown_tot hl a db _
  | some u => exact checkKnown_tot hl a db u fl
theorem anyHeld_tot (db : Db) (now : Int) (h : Str) (l : List Str) (hl : ∀ c ∈ l, validCap c = true) :
    ∃ v, anyHeld db now h l = .ok v := by
  induction l with
  | nil => exact ⟨_, rfl⟩
  | cons c cs ih =>
    unfold anyHeld
    obtain ⟨v, hv⟩ := checkCapability_total db now h c {} (hl c List.mem_cons_self)
    rw [hv]
    cases v
    · exact ih (fun x hx => hl x (List.mem_cons_of_mem _ hx))
    · exact ⟨_, rfl⟩

theorem finish_no_crash (db : Db) (now : Int) (h : Str) (d : Bool) (l : List Str)
    (hl : ∀ c ∈ l, validCap c = true) (e : Err) : finish db now h d l ≠ .crash e := by
  unfold finish
  split
  · simp
  · obtain ⟨v, hv⟩ := anyHeld_tot db now h l hl
    rw [hv]; cases v <;> simp

theorem deniedBy_keyNeg {ch : Option Str} {b : Str} (hch : ChanOK ch) (hb : BaseOK b) :
    deniedBy (keyNeg ch b) = .denied (keyPos ch b) := by
  unfold deniedBy
  have h := invert_keyNeg hch hb
  unfold invertCapability at h
  rw [isCapability_keyNeg hch hb, isAnti_keyNeg hch hb] at h
  simp only [Bool.not_true, Bool.false_eq_true, if_false, if_true] at h
  rw [h]

/-- **one gate check never crashes on a plain command name**, whatever the database holds: the
answer is allow, `denied "<name>"` / `denied "#chan,<name>"`, or the default denial -/
theorem checkName_no_crash (db : Db) (now : Int) (m : Msg) (n : Str) (hb : BaseOK n)
    (hch : ChanOK m.channel) (e : Err) : checkName db now m n ≠ .crash e := by
  have hnone := chanOK_none
  have hmk : makeAntiCapability n = .ok ('-' :: n) := by
    unfold makeAntiCapability
    have h1 : isAntiCapability n = false := isAnti_keyPos (ch := none) hnone hb
    rw [hb.cap, h1, hb.plain]; rfl
  have hvn : validCap n = true := validCap_render (a := false) (ch := none) hnone hb
  have hva : validCap ('-' :: n) = true := validCap_render (a := true) (ch := none) hnone hb
  have hia : isAntiCapability ('-' :: n) = true := isAnti_keyNeg (ch := none) hnone hb
  unfold checkName
  rw [hmk]
  simp only
  unfold antiHit
  simp only [hia, Bool.not_true, Bool.false_eq_true, if_false]
  obtain ⟨v, hv⟩ := checkCapability_total db now m.pfx ('-' :: n) {} hva
  rw [hv]
  cases v
  · simp only
    cases hmc : m.channel with
    | none =>
      simp only
      exact finish_no_crash db now m.pfx _ [n] (by intro c hc; simp at hc; subst hc; exact hvn) e
    | some ch =>
      simp only
      have hch' : ChanOK (some ch) := hmc ▸ hch
      have hic := (hch' ch rfl).1
      unfold checkNameInChannel
      have hm1 : makeChannelCapability ch ('-' :: n) = .ok (keyNeg (some ch) n) := by
        unfold makeChannelCapability
        rw [isCapability_dash hb.cap, hic]; rfl
      have hm2 : makeChannelCapability ch n = .ok (keyPos (some ch) n) := by
        unfold makeChannelCapability
        rw [hb.cap, hic]; rfl
      rw [hm1]
      have hvca : validCap (keyNeg (some ch) n) = true := validCap_render (a := true) hch' hb
      have hvc : validCap (keyPos (some ch) n) = true := validCap_render (a := false) hch' hb
      unfold antiHit
      simp only [isAnti_keyNeg hch' hb, Bool.not_true, Bool.false_eq_true, if_false]
      obtain ⟨w, hw⟩ := checkCapability_total db now m.pfx (keyNeg (some ch) n) {} hvca
      rw [hw]
      cases w
      · simp only [hm2]
        exact finish_no_crash db now m.pfx _ _ (by
          intro c hc
          simp only [List.mem_cons, List.not_mem_nil, or_false] at hc
          rcases hc with hc | hc
          · subst hc; exact hvn
          · subst hc; exact hvc) e
      · simp only [deniedBy_keyNeg hch' hb]; simp
  · simp only
    have := deniedBy_keyNeg (ch := none) hnone hb
    simp only [keyNeg, keyPos] at this
    rw [this]; simp


end C01
