/-
C01 — model of Limnoria's capability gate (src/callbacks.py, src/commands.py, src/ircdb.py,
plugins/Owner/plugin.py, plugins/Config/plugin.py), on top of C03's capability decision.

Sections
  1. names: `canonicalName`, the message fields the gate looks at
  2. `checkCommandCapability`                                   callbacks.py:432-461
  3. the prefix loop of `Commands._callCommand` (`gate`)       callbacks.py:1342-1376
  4. capability converters and the sequential `wrap` spec driver   commands.py:503-514, 599-658, 1079-1128
  5. one invocation end to end (`invoke`)
  6. `ircdb.checkIgnored` / `IgnoresDB.checkIgnored` and the ignore test of `Owner.doPrivmsg`
                                                                ircdb.py checkIgnored, Owner/plugin.py:229-261
  7. `Config.getCapability` / `isReadOnly` / `checkCanSetValue` Config/plugin.py:65-114
  8. `DefaultCapabilities.setValue`                             ircdb.py DefaultCapabilities

Python exceptions are explicit constructors (`Gate.crash`, `Stop.crash`, …); a crash inside
`_callCommand` is caught by its `except Exception` (generic error reply, body not called).

What is NOT here: the bodies of the commands; converters other than the capability ones and
`channel` (they are an arbitrary oracle `oth` in `runSpec`, the theorems quantify over it);
tokenising / addressing / nesting (C13, C14): they only produce the `(msg.prefix, msg.channel,
plugin, command path, args)` tuple the gate is a function of; threads; the lazily created default
channel record (`Db.touchChannel`), which answers exactly like an absent one.
-/
import LimnoriaModel.C03.Model
import LimnoriaModel.Gen.Commands
namespace C01
open Py C03

/-! ## 1. names -/

/-- characters `callbacks.canonicalName` removes: TAB, `-`, `_`, blank -/
def isSpecial (c : Char) : Bool := c == '\t' || c == '-' || c == '_' || c == ' '

/-- `callbacks.canonicalName(command)`: a trailing run of special characters is kept, every other
special character is dropped, the rest is lower-cased (ASCII part of `str.lower` modelled) -/
def canonicalName (s : Str) : Str :=
  let body := rstripP isSpecial s
  asciiLower (body.filter (fun c => !isSpecial c)) ++ s.drop body.length

/-- the two fields of the incoming `IrcMsg` the gate depends on: `msg.prefix` and `msg.channel`
(`none` when the message was not sent to a channel) -/
structure Msg where
  pfx : Str
  channel : Option Str := none
deriving DecidableEq, Repr

/-! ## 2. checkCommandCapability -/

/-- what `_callCommand` learns from one `checkCommandCapability` call (and, folded, from all) -/
inductive Gate
  | allow
  /-- a string was returned: `irc.errorNoCapability(cap)` -/
  | denied (cap : Str)
  /-- `True` was returned (`capabilities.default` off and no positive capability) -/
  | deniedDefault
  /-- an exception other than RuntimeError escaped (caught by `_callCommand`'s `except Exception`) -/
  | crash (e : Err)
deriving DecidableEq, Repr

def Gate.isAllow : Gate → Bool
  | .allow => true
  | _ => false

/-- the local `checkCapability(capability)` of `checkCommandCapability`:
`assert isAntiCapability(capability)`, then "does the caller hold this anti-capability?"
(`true` = `RuntimeError(capability)` is raised) -/
def antiHit (db : Db) (now : Int) (h cap : Str) : R Bool :=
  if !isAntiCapability cap then .error .assertion else db.checkCapability now h cap

/-- `except RuntimeError as e: return ircdb.unAntiCapability(str(e))` -/
def deniedBy (anti : Str) : Gate :=
  match unAntiCapability anti with
  | .ok c => .denied c
  | .error e => .crash e

/-- `any(lambda x: ircdb.checkCapability(msg.prefix, x), checkAtEnd)` (utils.iter.any is lazy) -/
def anyHeld (db : Db) (now : Int) (h : Str) : List Str → R Bool
  | [] => .ok false
  | c :: cs =>
    match db.checkCapability now h c with
    | .error e => .error e
    | .ok true => .ok true
    | .ok false => anyHeld db now h cs

/-- `return not (default or any(...))` -/
def finish (db : Db) (now : Int) (h : Str) (dflt : Bool) (atEnd : List Str) : Gate :=
  if dflt then .allow
  else match anyHeld db now h atEnd with
    | .error e => .crash e
    | .ok true => .allow
    | .ok false => .deniedDefault

/-- the `if msg.channel:` block and the final return -/
def checkNameInChannel (db : Db) (now : Int) (h name anti ch : Str) : Gate :=
  match makeChannelCapability ch anti with
  | .error e => .crash e
  | .ok chanAnti =>
    match antiHit db now h chanAnti with
    | .error e => .crash e
    | .ok true => deniedBy chanAnti
    | .ok false =>
      match makeChannelCapability ch name with
      | .error e => .crash e
      | .ok chanCmd =>
        finish db now h (db.defaultFlag && (db.getChannel ch).defaultAllow) [name, chanCmd]

/-- `checkCommandCapability(msg, cb, commandName)` once `commandName` is a string -/
def checkName (db : Db) (now : Int) (m : Msg) (name : Str) : Gate :=
  match makeAntiCapability name with
  | .error e => .crash e
  | .ok anti =>
    match antiHit db now m.pfx anti with
    | .error e => .crash e
    | .ok true => deniedBy anti
    | .ok false =>
      match m.channel with
      | none => finish db now m.pfx db.defaultFlag [name]
      | some ch => checkNameInChannel db now m.pfx name anti ch

/-- the list form of `commandName`: `assert commandName[0] == plugin` with
`plugin = cb.name().lower()`, then `'.'.join(commandName)` -/
def resolvePath (pluginLower : Str) : List Str → R Str
  | [] => .error .key
  | p :: ps => if p == pluginLower then .ok (joinChar '.' (p :: ps)) else .error .assertion

/-- `checkCommandCapability(msg, cb, prefix)` with a list -/
def checkPath (db : Db) (now : Int) (m : Msg) (pluginLower : Str) (p : List Str) : Gate :=
  match resolvePath pluginLower p with
  | .error e => .crash e
  | .ok n => checkName db now m n

/-! ## 3. the prefix loop of `_callCommand` -/

/-- `fullCommandName`: "P X Y" for plugin P and command "X Y" -/
def fullCommandName (canon : Str) (command : List Str) : List Str :=
  if command.length == 1 || command.head? != some canon then canon :: command else command

/-- the successive values of `prefix` in the loop: `[P]`, `[P, X]`, `[P, X, Y]` -/
def prefixes : List Str → List (List Str)
  | [] => []
  | x :: xs => [x] :: (prefixes xs).map (x :: ·)

/-- the first check that does not allow decides (`if cap: irc.errorNoCapability(cap); return`) -/
def firstDeny : List Gate → Gate
  | [] => .allow
  | .allow :: gs => firstDeny gs
  | g :: _ => g

/-- every `checkCommandCapability` call of `_callCommand`, in order: first "Y" (`command[-1]`),
then "P", "P.X", "P.X.Y" -/
def gateChecks (db : Db) (now : Int) (m : Msg) (pluginName : Str) (command : List Str) (y : Str) : List Gate :=
  checkName db now m y ::
    (prefixes (fullCommandName (canonicalName pluginName) command)).map
      (checkPath db now m (asciiLower pluginName))

/-- the decision `_callCommand` takes before `self.callCommand(...)`: `allow` = the command method
(the wrapped function) is called -/
def gate (db : Db) (now : Int) (m : Msg) (pluginName : Str) (command : List Str) : Gate :=
  match command.getLast? with
  | none => .crash .key
  | some y => firstDeny (gateChecks db now m pluginName command y)

/-! ## 4. capability converters and the wrap spec driver -/

/-- a top-level element of a `wrap` spec, as far as the gate is concerned -/
inductive Item
  /-- `'owner'`, `'admin'`, `('checkCapability', c)` -/
  | cap (c : Str)
  /-- `('checkCapabilityButIgnoreOwner', c)` -/
  | capNoOwner (c : Str)
  /-- `'op'`, `'halfop'`, `'voice'`, `('checkChannelCapability', c)` -/
  | chancap (c : Str)
  /-- `'channel'` (`getChannel`) -/
  | channel
  /-- any other converter or context: unmodelled -/
  | other (name : String)
deriving DecidableEq, Repr

/-- decode a row element of the generated table -/
def Item.ofGen (p : String × Str) : Item :=
  if p.1 == "cap" then .cap p.2
  else if p.1 == "capNoOwner" then .capNoOwner p.2
  else if p.1 == "chancap" then .chancap p.2
  else if p.1 == "channel" then .channel
  else .other (p.1 ++ ":" ++ String.ofList p.2)

/-- the part of `commands.State` (and of the remaining argument list) the modelled converters use -/
structure CState where
  channel : Option Str := none
  args : List Str := []
deriving DecidableEq, Repr

/-- why the spec driver stopped before the wrapped function -/
inductive Stop
  /-- `state.errorNoCapability(cap, Raise=True)` -/
  | noCapability (cap : Str)
  /-- `callbacks.ArgumentError` (the help text is the reply) -/
  | argument
  /-- an unmodelled converter raised -/
  | other
  | crash (e : Err)
deriving DecidableEq, Repr

abbrev Conv := Except Stop CState

/-- `ircdb.canonicalCapability` (for a string) -/
def canonicalCapability (c : Str) : R Str :=
  if !isCapability c then .error .assertion else .ok (asciiLower c)

/-- `commands.getChannel`: keeps an already chosen channel, else the first argument when it is a
channel name, else the channel the message was sent to, else ArgumentError -/
def getChannel (m : Msg) (st : CState) : Conv :=
  match st.channel with
  | some _ => .ok st
  | none =>
    match st.args with
    | a :: rest =>
      if isChannel a then .ok { channel := some a, args := rest }
      else match m.channel with
        | some ch => .ok { st with channel := some ch }
        | none => .error .argument
    | [] =>
      match m.channel with
      | some ch => .ok { st with channel := some ch }
      | none => .error .argument

/-- `commands.checkCapability` / `checkCapabilityButIgnoreOwner` (also `owner`, `admin`) -/
def convCap (db : Db) (now : Int) (m : Msg) (c : Str) (ignoreOwner : Bool) (st : CState) : Conv :=
  match canonicalCapability c with
  | .error e => .error (.crash e)
  | .ok c' =>
    match db.checkCapability now m.pfx c' { ignoreOwner := ignoreOwner } with
    | .error e => .error (.crash e)
    | .ok true => .ok st
    | .ok false => .error (.noCapability c')

/-- the capability `commands.checkChannelCapability` asks for, once the channel is known -/
def chanCapName (ch c : Str) : R Str :=
  match canonicalCapability c with
  | .error e => .error e
  | .ok c' => makeChannelCapability ch c'

/-- `commands.checkChannelCapability` (also `op`, `halfop`, `voice`) -/
def convChanCap (db : Db) (now : Int) (m : Msg) (c : Str) (st : CState) : Conv :=
  match getChannel m st with
  | .error s => .error s
  | .ok st' =>
    match st'.channel with
    | none => .error (.crash .assertion)
    | some ch =>
      match chanCapName ch c with
      | .error e => .error (.crash e)
      | .ok cc =>
        match db.checkCapability now m.pfx cc with
        | .error e => .error (.crash e)
        | .ok true => .ok st'
        | .ok false => .error (.noCapability cc)

/-- one element of the spec; `oth i st` is what the unmodelled converter at position `i` does
(`none` = it raised) -/
def runItem (db : Db) (now : Int) (m : Msg) (oth : Nat → CState → Option CState) (i : Nat) :
    Item → CState → Conv
  | .cap c, st => convCap db now m c false st
  | .capNoOwner c, st => convCap db now m c true st
  | .chancap c, st => convChanCap db now m c st
  | .channel, st => getChannel m st
  | .other _, st =>
    match oth i st with
    | some st' => .ok st'
    | none => .error .other

/-- `Spec.__call__`: the converters run in order; the first one that raises ends the call -/
def runSpec (db : Db) (now : Int) (m : Msg) (oth : Nat → CState → Option CState) :
    Nat → List Item → CState → Conv
  | _, [], st => .ok st
  | i, it :: rest, st =>
    match runItem db now m oth i it st with
    | .error s => .error s
    | .ok st' => runSpec db now m oth (i + 1) rest st'

/-! ## 5. one invocation -/

/-- what one `_callCommand` does, as far as C01 observes it -/
inductive Outcome
  /-- the wrapped function (the command body) is called -/
  | body (st : CState)
  /-- the only output is the "you don't have the … capability" error -/
  | noCapability (cap : Str)
  | noCapabilityDefault
  /-- ArgumentError: the help text is replied -/
  | help
  /-- an unmodelled converter stopped the call -/
  | otherStop
  /-- uncaught exception: generic error reply -/
  | crash (e : Err)
deriving DecidableEq, Repr

def Outcome.isBody : Outcome → Bool
  | .body _ => true
  | _ => false

/-- gate, then spec, then `if args and not allowExtra: raise ArgumentError`, then the body -/
def invoke (db : Db) (now : Int) (m : Msg) (pluginName : Str) (command : List Str)
    (spec : List Item) (allowExtra : Bool) (oth : Nat → CState → Option CState) (args : List Str) : Outcome :=
  match gate db now m pluginName command with
  | .denied c => .noCapability c
  | .deniedDefault => .noCapabilityDefault
  | .crash e => .crash e
  | .allow =>
    match runSpec db now m oth 0 spec { args := args } with
    | .error (.noCapability c) => .noCapability c
    | .error .argument => .help
    | .error .other => .otherStop
    | .error (.crash e) => .crash e
    | .ok st => if !st.args.isEmpty && !allowExtra then .help else .body st

/-! ## 6. ignored callers -/

def trustedS : Str := ['t', 'r', 'u', 's', 't', 'e', 'd']

/-- `ircdb.ignores`: `(hostmask pattern, expiration)`; expiration 0 = never -/
structure IgnoreDb where
  entries : List (Str × Int) := []
deriving Repr

/-- an entry `IgnoresDB.checkIgnored` does not drop at time `now` -/
def ignoreLive (now : Int) (e : Str × Int) : Bool := !(e.2 != 0 && decide (now > e.2))

/-- `IgnoresDB.checkIgnored(prefix)` (truth value; expired entries are deleted as a side effect) -/
def IgnoreDb.check (ig : IgnoreDb) (now : Int) (h : Str) : Bool :=
  ig.entries.any (fun e => ignoreLive now e && glob e.1 h)

/-- the part of `ircdb.checkIgnored` before the recipient test: `some b` = it returns `b` here
(a trusted user, owners included, is never ignored; `defaultIgnore`, the user's ignore flag and the
ignore database make it return `True`), `none` = it falls through to the recipient's channel record.
`getUserId` raising DuplicateHostmask (a ValueError) is not caught there. -/
def ignoredGlobal (db : Db) (ig : IgnoreDb) (defaultIgnore : Bool) (now : Int) (h : Str) : R (Option Bool) :=
  -- a prefix that is not nick!user@host is not looked up as an account name: `raise KeyError`
  match (if isUserHostmask h then db.lookup now h else .missing) with
  | .duplicate => .error .value
  | .missing =>
    if defaultIgnore then .ok (some true)
    else if ig.check now h then .ok (some true) else .ok none
  | .found u =>
    match u.checkCapability trustedS with
    | .ok true => .ok (some false)
    | .error .key | .ok false =>
      if u.ignore then .ok (some true)
      else if ig.check now h then .ok (some true) else .ok none
    | .error e => .error e

/-- `ircdb.checkIgnored(hostmask)` with the default `recipient=''` (what `Owner.doPrivmsg` calls) -/
def checkIgnored (db : Db) (ig : IgnoreDb) (defaultIgnore : Bool) (now : Int) (h : Str) : R Bool :=
  match ignoredGlobal db ig defaultIgnore now h with
  | .error e => .error e
  | .ok (some b) => .ok b
  | .ok none => .ok false

/-- what `Owner.doPrivmsg` does with an addressed message -/
inductive Dispatch
  /-- `return` before tokenising: no command runs, nothing is replied -/
  | silent
  /-- the exception leaves `doPrivmsg` (logged by the callback firewall): nothing runs, no reply -/
  | crashed (e : Err)
  /-- tokenise and hand to `Proxy(irc, msg, tokens)` -/
  | dispatch
deriving DecidableEq, Repr

def ownerDoPrivmsg (db : Db) (ig : IgnoreDb) (defaultIgnore : Bool) (now : Int) (h : Str) : Dispatch :=
  -- `if not ircutils.isUserHostmask(msg.prefix): return`: no commands for servers, services, bare nicks
  if !isUserHostmask h then .silent else
  match checkIgnored db ig defaultIgnore now h with
  | .ok true => .silent
  | .ok false => .dispatch
  | .error e => .crashed e

/-- the part of an `IrcChannel` record its `checkIgnored` looks at: `(pattern, expiration)` lists -/
structure ChanIgn where
  lobotomized : Bool := false
  bans : List (Str × Int) := []
  ignores : List (Str × Int) := []
deriving Repr

/-- `now < expiration or not expiration` (a channel ban / ignore that is still in force) -/
def banLive (now : Int) (e : Str × Int) : Bool := decide (now < e.2) || e.2 == 0

/-- `IrcChannel.checkIgnored(hostmask)` with `world.testing = False` (truth value; expired entries
are deleted as a side effect) -/
def ChanIgn.check (c : ChanIgn) (now : Int) (h : Str) : R Bool :=
  if c.lobotomized then .ok true
  else if !isUserHostmask h then .error .assertion
  else .ok (c.bans.any (fun e => banLive now e && glob e.1 h) ||
            c.ignores.any (fun e => banLive now e && glob e.1 h))

/-- `ircdb.checkIgnored(hostmask, recipient)`: the global test, then the recipient channel's -/
def checkIgnoredIn (db : Db) (ig : IgnoreDb) (defaultIgnore : Bool) (now : Int) (h : Str)
    (recipient : Option Str) (chan : Str → ChanIgn) : R Bool :=
  match ignoredGlobal db ig defaultIgnore now h with
  | .error e => .error e
  | .ok (some b) => .ok b
  | .ok none =>
    match recipient with
    | none => .ok false
    | some ch => if isChannel ch then (chan ch).check now h else .ok false

/-- `PluginMixin.__call__` for a PRIVMSG: is the message handed to the plugin at all?  (`Owner`, the
dispatcher, is such a plugin with `noIgnore = False`.) -/
def pluginSees (db : Db) (ig : IgnoreDb) (defaultIgnore : Bool) (now : Int) (h : Str)
    (recipient : Option Str) (chan : Str → ChanIgn) (noIgnore : Bool) : R Bool :=
  if noIgnore || h.isEmpty || !isUserHostmask h then .ok true
  else match checkIgnoredIn db ig defaultIgnore now h recipient chan with
    | .error e => .error e
    | .ok b => .ok (!b)

/-- the whole path of an addressed PRIVMSG to the dispatcher: `PluginMixin.__call__` of `Owner`,
then the test of `Owner.doPrivmsg` -/
def received (db : Db) (ig : IgnoreDb) (defaultIgnore : Bool) (now : Int) (h : Str)
    (recipient : Option Str) (chan : Str → ChanIgn) : Dispatch :=
  match pluginSees db ig defaultIgnore now h recipient chan false with
  | .error e => .crashed e
  | .ok false => .silent
  | .ok true => ownerDoPrivmsg db ig defaultIgnore now h

/-- outcome of the flood guard of `Owner.doPrivmsg` -/
inductive Flood
  | pass
  /-- `ircdb.ignores.add(banmask, time.time() + punishment)`, optional notice, `return` -/
  | punished (banmask : Str) (expires : Int)
deriving DecidableEq, Repr

/-- the flood guard: `queued` = commands from this host still inside the interval window (this one
included), `trusted` = `ircdb.checkCapability(msg.prefix, 'trusted')` (only evaluated when the
first two tests hold), `banmask` = `conf.supybot.protocols.irc.banmask.makeBanmask(msg.prefix)` -/
def floodGuard (floodOn : Bool) (queued maximum : Nat) (trusted : R Bool) (banmask : Str)
    (now punishment : Int) : R Flood :=
  if floodOn && decide (queued > maximum) then
    match trusted with
    | .error e => .error e
    | .ok true => .ok .pass
    | .ok false => .ok (.punished banmask (now + punishment))
  else .ok .pass

/-- `Owner.doPrivmsg` with the flood guard: ignore test, then flood guard, then dispatch.  Returns
the dispatch decision and the ignore database afterwards. -/
def ownerDoPrivmsgFlood (db : Db) (ig : IgnoreDb) (defaultIgnore : Bool) (now : Int) (h : Str)
    (floodOn : Bool) (queued maximum : Nat) (banmask : Str) (punishment : Int) : Dispatch × IgnoreDb :=
  if !isUserHostmask h then (.silent, ig) else
  match checkIgnored db ig defaultIgnore now h with
  | .ok true => (.silent, ig)
  | .error e => (.crashed e, ig)
  | .ok false =>
    match floodGuard floodOn queued maximum (db.checkCapability now h trustedS) banmask now punishment with
    | .error e => (.crashed e, ig)
    | .ok .pass => (.dispatch, ig)
    | .ok (.punished bm t) => (.silent, { entries := ig.entries ++ [(bm, t)] })

/-! ## 7. configuration writes -/

def supybotS : Str := ['s', 'u', 'p', 'y', 'b', 'o', 't']
def usersS : Str := ['u', 's', 'e', 'r', 's']
def commandsS : Str := ['c', 'o', 'm', 'm', 'a', 'n', 'd', 's']
def allowshellS : Str := ['a', 'l', 'l', 'o', 'w', 's', 'h', 'e', 'l', 'l']
def directoriesS : Str := ['d', 'i', 'r', 'e', 'c', 't', 'o', 'r', 'i', 'e', 's']

/-- the `while parts:` loop of `Config.getCapability`; `seen` = the names of the groups walked so
far (root first), `opSettable seen'` = `getattr(group, '_opSettable', True)` of the group reached -/
def cfgLoop (opSettable : List Str → Bool) : List Str → List Str → Str → R Str
  | _, [], cap => .ok cap
  | seen, part :: rest, cap =>
    if !opSettable (seen ++ [part]) then .ok ownerS
    else if isChannel part then
      match makeChannelCapability part opS with
      | .error e => .error e
      | .ok c => cfgLoop opSettable (seen ++ [part]) rest c
    else cfgLoop opSettable (seen ++ [part]) rest cap

/-- `Config.getCapability(irc, name)` on `parts = registry.split(name)` (the name of an existing
group always starts with `supybot` or `users`) -/
def getCapability (opSettable : List Str → Bool) : List Str → R Str
  | [] => .error .key
  | root :: rest => cfgLoop opSettable [root] rest ownerS

/-- `Config.isReadOnly(name)` on `partsLower = registry.split(name.lower())` -/
def isReadOnly (allowShell : Bool) (partsLower : List Str) : Bool :=
  let parts := if partsLower.head? != some supybotS then supybotS :: partsLower else partsLower
  (parts == [supybotS, commandsS, allowshellS] && !allowShell) ||
    (parts.take 2 == [supybotS, directoriesS] && !allowShell)

inductive CfgOut
  | pass
  | readOnly
  | noCapability (cap : Str)
  | crash (e : Err)
deriving DecidableEq, Repr

/-- `Config.checkCanSetValue(irc, msg, group)`; `pass` = `group.set(value)` is reached -/
def checkCanSetValue (db : Db) (now : Int) (m : Msg) (allowShell : Bool)
    (opSettable : List Str → Bool) (parts partsLower : List Str) : CfgOut :=
  if isReadOnly allowShell partsLower then .readOnly
  else match getCapability opSettable parts with
    | .error e => .crash e
    | .ok cap =>
      match db.checkCapability now m.pfx cap with
      | .error e => .crash e
      | .ok true => .pass
      | .ok false => .noCapability cap

/-- `Config.channel <#a,#b,…> <name> <value>`: for every listed channel, in order, `_setValue` =
`checkCanSetValue` then `group.set`; the first refusal raises and ends the loop.  Returns the
channels whose value was written and how the command ended. -/
def setChannels (check : Str → CfgOut) : List Str → List Str × CfgOut
  | [] => ([], .pass)
  | ch :: rest =>
    match check ch with
    | .pass => ((ch :: (setChannels check rest).1), (setChannels check rest).2)
    | o => ([], o)

/-! ## 8. supybot.capabilities -/

/-- `DefaultCapabilities.setValue(v, allowDefaultOwner)`: the new `CapabilitySet(v)`, to which
`-owner` is added (dropping `owner`) unless it is already a member or the bot runs with
`--allow-default-owner` -/
def setDefaults (allowDefaultOwner : Bool) (v : List Str) : R CapSet :=
  match CapSet.ofList v with
  | .error e => .error e
  | .ok s =>
    if !(antiOwnerS ∈ s) && !allowDefaultOwner then CapSet.add s antiOwnerS else .ok s

/-! ## 8b. `Channel.voice` / `devoice`: which capability the body asks for

`Channel._voice` picks the weaker `#chan,voice` only when the caller acts on himself alone. -/

def voiceS : Str := ['v', 'o', 'i', 'c', 'e']

/-- the capability name `_voice` requires: `voice` when no nick is given (the caller voices himself)
or when the single nick given is exactly `msg.nick`; `op` for anything else -/
def voiceCapability (callerNick : Str) (nicks : List Str) : Str :=
  match nicks with
  | [] => voiceS
  | [n] => if n == callerNick then voiceS else opS
  | _ => opS

/-- the nicks the MODE change is sent for -/
def voiceTargets (callerNick : Str) (nicks : List Str) : List Str :=
  if nicks.isEmpty then [callerNick] else nicks

/-- outcome of the body of `voice` / `devoice` -/
inductive VoiceOut
  /-- `self._sendMsgs(irc, nicks, …)`: MODE ±v for these nicks -/
  | modes (targets : List Str)
  /-- `irc.errorNoCapability(capability)` -/
  | noCapability (cap : Str)
  | crash (e : Err)
deriving DecidableEq, Repr

/-- `Channel._voice(irc, msg, args, channel, nicks, fn)` -/
def voiceBody (db : Db) (now : Int) (h callerNick channel : Str) (nicks : List Str) : VoiceOut :=
  match makeChannelCapability channel (voiceCapability callerNick nicks) with
  | .error e => .crash e
  | .ok cap =>
    match db.checkCapability now h cap with
    | .error e => .crash e
    | .ok true => .modes (voiceTargets callerNick nicks)
    | .ok false => .noCapability cap

/-! ## 9. which message reaches the gate at a re-dispatch site

Every site that runs a command builds `Proxy(irc, msg, tokens)` (inventory `Gen.proxySites`); the
proxy's constructor recomputes `msg.channel` from `msg.args[0]` (`Irc._setMsgChannel`), and the gate
reads `msg.prefix` / `msg.channel` of that message.  What differs between the sites is WHICH message
they pass. -/

/-- the two fields of an `IrcMsg` the proxy / gate use: `prefix` and `args[0]` -/
structure RawMsg where
  pfx : Str
  target : Str
deriving DecidableEq, Repr

/-- `Irc._setMsgChannel` for a PRIVMSG/NOTICE: unless `strictRfc`, leading `statusmsg` characters
(ISUPPORT STATUSMSG, e.g. `@#chan`) are stripped; the result is the channel when it is one -/
def msgChannel (statusmsg : Str) (strict : Bool) (target : Str) : Option Str :=
  let t := if strict then target else target.dropWhile (fun c => statusmsg.contains c)
  if isChannel t then some t else none

def RawMsg.toMsg (statusmsg : Str) (strict : Bool) (r : RawMsg) : Msg :=
  { pfx := r.pfx, channel := msgChannel statusmsg strict r.target }

inductive Site
  /-- `Owner.doPrivmsg`: the incoming message itself (direct and plugin-qualified calls) -/
  | owner
  /-- `evalArgs`: a nested `[…]`, a piped command, a command with a nested argument -/
  | nested
  | aka | alias | apply | cif
  /-- `Utilities.let`: `IrcMsg(msg=msg)`, a copy with the same prefix and args -/
  | let_
  /-- `Network.command` / `cmdall`: the same message, handed to another network's Irc -/
  | netcommand
  /-- `Admin.acmd`: `msg.args[0] = channel` on a tuple raises TypeError before any dispatch -/
  | acmd
  /-- `Scheduler.add` / `repeat`: the message stored when the event was created -/
  | scheduled
  /-- `MessageParser`: the message that matched the stored regexp (the speaker's) -/
  | trigger
deriving DecidableEq, Repr

/-- the message handed to `Proxy(irc, msg, tokens)` at a site: `cur` = the message being handled when
the site runs, `stored` = the message kept in the Scheduler event; `none` = nothing is dispatched -/
def siteMsg : Site → RawMsg → RawMsg → Option RawMsg
  | .scheduled, _, stored => some stored
  | .acmd, _, _ => none
  | _, cur, _ => some cur

end C01
