/-
C01 line-protocol driver.  The state is the database the harness copied from the live bot
(users, channels, default capabilities, ignores, clock); queries ask the gate / converter /
ignore / config-write decisions for it.

ops (TAB separated, strings hex):
  reset
  now <int>
  user <id> <name> <caps> <hostmasks> <ignore 0|1> <secure 0|1> <auth: t:hexhost,...|->
  chan <name> <defaultAllow 0|1> <caps>
  defaults <caps> <registered caps> <flag 0|1> <timeout int> <defaultIgnore 0|1>
  ignore <pattern> <expiration int>
  gate <prefix> <channel|~> <plugin> <command list>
  invoke <prefix> <channel|~> <plugin> <command list> <spec: kind:hexarg,...|-> <allowExtra 0|1> <args list>
         (unmodelled converters behave as the identity)
  ignored <prefix>
  flood <prefix> <flood.command 0|1> <queued> <maximum> <banmask> <punishment>
  site <owner|nested|aka|alias|apply|cif|let|netcommand|acmd|scheduled|trigger> <cur prefix> <cur args[0]> <stored prefix> <stored args[0]> <statusmsg chars> <strictRfc 0|1>
  received <prefix> <channel|~> <lobotomized 0|1> <bans: exp:hexpattern,...|-> <ignores: same>   (the record of that channel)
  cfg <prefix> <channel|~> <allowShell 0|1> <parts list> <partsLower list> <non-op-settable prefixes: hex.hex.hex,...|->
  setdefaults <allowDefaultOwner 0|1> <caps>
  voice <prefix> <msg.nick> <channel> <nicks>      (body of Channel.voice / devoice)
  canon <name>
  nrows | row <i> | nrequired | required <i>
-/
import LimnoriaModel.C01.Model
import LimnoriaModel.C01.Required
import LimnoriaModel.Driver.Core
namespace C01
open Py Wire C03

structure DState where
  db : Db := {}
  ig : IgnoreDb := {}
  defaultIgnore : Bool := false
  now : Int := 0

def decBool (f : String) : Option Bool :=
  if f = "1" then some true else if f = "0" then some false else none

def decInt (f : String) : Option Int := f.toInt?

def decAuth (f : String) : Option (List (Int × Str)) :=
  if f = "-" then some [] else
  (f.splitOn ",").mapM fun item =>
    match item.splitOn ":" with
    | [t, h] => do
      let t' ← decInt t
      let h' ← dec h
      pure (t', h')
    | _ => none

def decSpec (f : String) : Option (List Item) :=
  if f = "-" then some [] else
  (f.splitOn ",").mapM fun item =>
    match item.splitOn ":" with
    | [k, a] => do
      let a' ← dec a
      pure (Item.ofGen (k, a'))
    | _ => none

def decPaths (f : String) : Option (List (List Str)) :=
  if f = "-" then some [] else
  (f.splitOn ",").mapM fun item => (item.splitOn ".").mapM dec

def encErr : Err → String
  | .assertion => "assertion"
  | .key => "key"
  | .value => "value"

def encGate : Gate → String
  | .allow => "allow"
  | .denied c => "denied\t" ++ enc c
  | .deniedDefault => "deniedDefault"
  | .crash e => "crash\t" ++ encErr e

def encOutcome : Outcome → String
  | .body st => "body\t" ++ encOpt st.channel ++ "\t" ++ encList st.args
  | .noCapability c => "noCapability\t" ++ enc c
  | .noCapabilityDefault => "noCapabilityDefault"
  | .help => "help"
  | .otherStop => "otherStop"
  | .crash e => "crash\t" ++ encErr e

def encSpecItem (p : String × Str) : String := p.1 ++ ":" ++ enc p.2

def encSpecList (l : List (String × Str)) : String :=
  if l.isEmpty then "-" else ",".intercalate (l.map encSpecItem)

def step (s : DState) : List String → DState × String
  | ["reset"] => ({}, "ok")
  | ["now", n] =>
    match decInt n with
    | some n => ({ s with now := n }, "ok")
    | none => (s, "bad-op")
  | ["user", id, name, caps, hms, ign, sec, auth] =>
    match id.toNat?, dec name, decList caps, decList hms, decBool ign, decBool sec, decAuth auth with
    | some id, some name, some caps, some hms, some ign, some sec, some auth =>
      let u : User := { id := id, name := name, caps := caps, ignore := ign, secure := sec, hostmasks := hms, auth := auth }
      ({ s with db := s.db.putUser u }, "ok")
    | _, _, _, _, _, _, _ => (s, "bad-op")
  | ["chan", name, da, caps] =>
    match dec name, decBool da, decList caps with
    | some name, some da, some caps =>
      ({ s with db := s.db.setChannel name { defaultAllow := da, caps := caps } }, "ok")
    | _, _, _ => (s, "bad-op")
  | ["defaults", caps, reg, flag, timeout, di] =>
    match decList caps, decList reg, decBool flag, decInt timeout, decBool di with
    | some caps, some reg, some flag, some timeout, some di =>
      ({ s with db := { s.db with defaults := caps, registered := reg, defaultFlag := flag, timeout := timeout },
                defaultIgnore := di }, "ok")
    | _, _, _, _, _ => (s, "bad-op")
  | ["ignore", p, e] =>
    match dec p, decInt e with
    | some p, some e => ({ s with ig := { entries := s.ig.entries ++ [(p, e)] } }, "ok")
    | _, _ => (s, "bad-op")
  | ["gate", p, ch, plugin, cmd] =>
    match dec p, decOpt ch, dec plugin, decList cmd with
    | some p, some ch, some plugin, some cmd =>
      (s, encGate (gate s.db s.now { pfx := p, channel := ch } plugin cmd))
    | _, _, _, _ => (s, "bad-op")
  | ["invoke", p, ch, plugin, cmd, spec, ae, args] =>
    match dec p, decOpt ch, dec plugin, decList cmd, decSpec spec, decBool ae, decList args with
    | some p, some ch, some plugin, some cmd, some spec, some ae, some args =>
      (s, encGate (gate s.db s.now { pfx := p, channel := ch } plugin cmd) ++ "\t|\t" ++
          encOutcome (invoke s.db s.now { pfx := p, channel := ch } plugin cmd spec ae (fun _ st => some st) args))
    | _, _, _, _, _, _, _ => (s, "bad-op")
  | ["ignored", p] =>
    match dec p with
    | some p =>
      -- "1" = `Owner.doPrivmsg` returns before dispatching (ignored caller, or a prefix that is no user hostmask)
      (s, match ownerDoPrivmsg s.db s.ig s.defaultIgnore s.now p with
          | .silent => "1"
          | .dispatch => "0"
          | .crashed e => "crash\t" ++ encErr e)
    | none => (s, "bad-op")
  | ["received", p, ch, lob, bans, igns] =>
    match dec p, decOpt ch, decBool lob, decAuth bans, decAuth igns with
    | some p, some ch, some lob, some bans, some igns =>
      let rec_ : ChanIgn := { lobotomized := lob, bans := bans.map (fun x => (x.2, x.1)), ignores := igns.map (fun x => (x.2, x.1)) }
      (s, match received s.db s.ig s.defaultIgnore s.now p ch (fun _ => rec_) with
          | .silent => "silent"
          | .dispatch => "dispatch"
          | .crashed e => "crash\t" ++ encErr e)
    | _, _, _, _, _ => (s, "bad-op")
  | ["site", name, cp, ct, sp, st, sm, strict] =>
    match dec cp, dec ct, dec sp, dec st, dec sm, decBool strict with
    | some cp, some ct, some sp, some st, some sm, some strict =>
      let site : Option Site :=
        if name = "owner" then some .owner else if name = "nested" then some .nested
        else if name = "aka" then some .aka else if name = "alias" then some .alias
        else if name = "apply" then some .apply else if name = "cif" then some .cif
        else if name = "let" then some .let_ else if name = "netcommand" then some .netcommand
        else if name = "acmd" then some .acmd else if name = "scheduled" then some .scheduled
        else if name = "trigger" then some .trigger else none
      match site with
      | none => (s, "bad-op")
      | some site =>
        (s, match siteMsg site { pfx := cp, target := ct } { pfx := sp, target := st } with
            | none => "none"
            | some r => let m := r.toMsg sm strict; enc m.pfx ++ "\t" ++ encOpt m.channel)
    | _, _, _, _, _, _ => (s, "bad-op")
  | ["flood", p, on, queued, maxi, bm, pun] =>
    match dec p, decBool on, queued.toNat?, maxi.toNat?, dec bm, decInt pun with
    | some p, some on, some queued, some maxi, some bm, some pun =>
      (s, match ownerDoPrivmsgFlood s.db s.ig s.defaultIgnore s.now p on queued maxi bm pun with
          | (.dispatch, _) => "dispatch"
          | (.crashed e, _) => "crash\t" ++ encErr e
          | (.silent, ig') => if ig'.entries.length > s.ig.entries.length then
                                match ig'.entries.getLast? with
                                | some (b, t) => "punished\t" ++ enc b ++ "\t" ++ toString (t - s.now)
                                | none => "silent"
                              else "silent")
    | _, _, _, _, _, _ => (s, "bad-op")
  | ["cfg", p, ch, sh, parts, partsLower, nons] =>
    match dec p, decOpt ch, decBool sh, decList parts, decList partsLower, decPaths nons with
    | some p, some ch, some sh, some parts, some partsLower, some nons =>
      (s, match checkCanSetValue s.db s.now { pfx := p, channel := ch } sh (fun path => !nons.contains path) parts partsLower with
          | .pass => "pass"
          | .readOnly => "readOnly"
          | .noCapability c => "noCapability\t" ++ enc c
          | .crash e => "crash\t" ++ encErr e)
    | _, _, _, _, _, _ => (s, "bad-op")
  | ["cfgmulti", p, ch, sh, chans, partsL, partsLowerL, nons] =>
    -- one parts / partsLower list per listed channel (same order as `chans`)
    match dec p, decOpt ch, decBool sh, decList chans, decPaths partsL, decPaths partsLowerL, decPaths nons with
    | some p, some ch, some sh, some chans, some partsL, some partsLowerL, some nons =>
      let tbl := chans.zip (partsL.zip partsLowerL)
      let check := fun c => match tbl.lookup c with
        | some (pa, pl) => checkCanSetValue s.db s.now { pfx := p, channel := ch } sh (fun path => !nons.contains path) pa pl
        | none => CfgOut.crash .key
      let r := setChannels check chans
      (s, encList r.1 ++ "\t" ++ (match r.2 with
          | .pass => "pass"
          | .readOnly => "readOnly"
          | .noCapability c => "noCapability\t" ++ enc c
          | .crash e => "crash\t" ++ encErr e))
    | _, _, _, _, _, _, _ => (s, "bad-op")
  | ["voice", p, nick, chan, nicks] =>
    match dec p, dec nick, dec chan, decList nicks with
    | some p, some nick, some chan, some nicks =>
      (s, match voiceBody s.db s.now p nick chan nicks with
          | .modes t => "modes\t" ++ encList t
          | .noCapability c => "noCapability\t" ++ enc c
          | .crash e => "crash\t" ++ encErr e)
    | _, _, _, _ => (s, "bad-op")
  | ["setdefaults", allow, caps] =>
    match decBool allow, decList caps with
    | some allow, some caps =>
      (s, match setDefaults allow caps with
          | .ok set => "ok\t" ++ encList set
          | .error e => "crash\t" ++ encErr e)
    | _, _ => (s, "bad-op")
  | ["canon", n] =>
    match dec n with
    | some n => (s, enc (canonicalName n))
    | none => (s, "bad-op")
  | ["nrows"] => (s, toString Gen.commands.length)
  | ["row", i] =>
    match i.toNat? with
    | some i =>
      (s, match Gen.commands[i]? with
          | some r => enc r.plugin ++ "\t" ++ encList r.path ++ "\t" ++ (if r.wrapped then "1" else "0") ++ "\t" ++ encSpecList r.spec
          | none => "bad-op")
    | none => (s, "bad-op")
  | ["nnocap"] => (s, toString Gen.noCapabilitySites.length)
  | ["nocapsite", i] =>
    match i.toNat? with
    | some i =>
      (s, match Gen.noCapabilitySites[i]? with
          | some (w, m) => enc w.toList ++ "\t" ++ m
          | none => "bad-op")
    | none => (s, "bad-op")
  | ["nrequired"] => (s, toString requiredGuards.length)
  | ["required", i] =>
    match i.toNat? with
    | some i =>
      (s, match requiredGuards[i]? with
          | some (pl, path, k, a) => enc pl ++ "\t" ++ encList path ++ "\t" ++ k ++ "\t" ++ enc a
          | none => "bad-op")
    | none => (s, "bad-op")
  | _ => (s, "bad-op")

def handler : Driver.Handler := { σ := DState, init := {}, step := step }
end C01
