/-
C01 — the committed statement of which bundled commands are privileged through a converter:
`(plugin, command path, kind, capability)` with kind "cap" (`owner`, `admin`, `checkCapability`),
"capNoOwner" or "chancap" (`op`, `halfop`, `voice`, `checkChannelCapability`).

This list is the SPEC side of the inventory (written once from the pinned tree, reviewed, and from
then on only edited by hand): `Props.lean` proves that every entry is a top-level item of the
corresponding row of the table regenerated from /repo on every run (`C01.required_present`), so a
`wrap` spec that loses its converter breaks a named obligation; the harness then enumerates exactly
these rows with callers that lack the capability and reports the command body that ran.
-/
import LimnoriaModel.Py.Basic
namespace C01

def requiredGuards : List (Py.Str × List Py.Str × String × Py.Str) := [
  (['A', 'd', 'm', 'i', 'n'], [['a', 'c', 'm', 'd']], "cap", ['a', 'd', 'm', 'i', 'n']),  -- Admin acmd: cap admin
  (['A', 'k', 'a'], [['i', 'm', 'p', 'o', 'r', 't', 'a', 'l', 'i', 'a', 's', 'd', 'a', 't', 'a', 'b', 'a', 's', 'e']], "cap", ['o', 'w', 'n', 'e', 'r']),  -- Aka importaliasdatabase: cap owner
  (['A', 'l', 'i', 'a', 's'], [['l', 'o', 'c', 'k']], "cap", ['a', 'd', 'm', 'i', 'n']),  -- Alias lock: cap admin
  (['A', 'l', 'i', 'a', 's'], [['u', 'n', 'l', 'o', 'c', 'k']], "cap", ['a', 'd', 'm', 'i', 'n']),  -- Alias unlock: cap admin
  (['B', 'a', 'd', 'W', 'o', 'r', 'd', 's'], [['a', 'd', 'd']], "cap", ['a', 'd', 'm', 'i', 'n']),  -- BadWords add: cap admin
  (['B', 'a', 'd', 'W', 'o', 'r', 'd', 's'], [['l', 'i', 's', 't']], "cap", ['a', 'd', 'm', 'i', 'n']),  -- BadWords list: cap admin
  (['B', 'a', 'd', 'W', 'o', 'r', 'd', 's'], [['r', 'e', 'm', 'o', 'v', 'e']], "cap", ['a', 'd', 'm', 'i', 'n']),  -- BadWords remove: cap admin
  (['C', 'h', 'a', 'n', 'n', 'e', 'l'], [['b', 'a', 'n'], ['a', 'd', 'd']], "chancap", ['o', 'p']),  -- Channel ban add: chancap op
  (['C', 'h', 'a', 'n', 'n', 'e', 'l'], [['b', 'a', 'n'], ['h', 'o', 's', 't', 'm', 'a', 's', 'k']], "chancap", ['o', 'p']),  -- Channel ban hostmask: chancap op
  (['C', 'h', 'a', 'n', 'n', 'e', 'l'], [['b', 'a', 'n'], ['l', 'i', 's', 't']], "chancap", ['o', 'p']),  -- Channel ban list: chancap op
  (['C', 'h', 'a', 'n', 'n', 'e', 'l'], [['b', 'a', 'n'], ['r', 'e', 'm', 'o', 'v', 'e']], "chancap", ['o', 'p']),  -- Channel ban remove: chancap op
  (['C', 'h', 'a', 'n', 'n', 'e', 'l'], [['c', 'a', 'p', 'a', 'b', 'i', 'l', 'i', 't', 'y'], ['a', 'd', 'd']], "chancap", ['o', 'p']),  -- Channel capability add: chancap op
  (['C', 'h', 'a', 'n', 'n', 'e', 'l'], [['c', 'a', 'p', 'a', 'b', 'i', 'l', 'i', 't', 'y'], ['r', 'e', 'm', 'o', 'v', 'e']], "chancap", ['o', 'p']),  -- Channel capability remove: chancap op
  (['C', 'h', 'a', 'n', 'n', 'e', 'l'], [['c', 'a', 'p', 'a', 'b', 'i', 'l', 'i', 't', 'y'], ['s', 'e', 't']], "chancap", ['o', 'p']),  -- Channel capability set: chancap op
  (['C', 'h', 'a', 'n', 'n', 'e', 'l'], [['c', 'a', 'p', 'a', 'b', 'i', 'l', 'i', 't', 'y'], ['s', 'e', 't', 'd', 'e', 'f', 'a', 'u', 'l', 't']], "chancap", ['o', 'p']),  -- Channel capability setdefault: chancap op
  (['C', 'h', 'a', 'n', 'n', 'e', 'l'], [['c', 'a', 'p', 'a', 'b', 'i', 'l', 'i', 't', 'y'], ['u', 'n', 's', 'e', 't']], "chancap", ['o', 'p']),  -- Channel capability unset: chancap op
  (['C', 'h', 'a', 'n', 'n', 'e', 'l'], [['c', 'y', 'c', 'l', 'e']], "chancap", ['o', 'p']),  -- Channel cycle: chancap op
  (['C', 'h', 'a', 'n', 'n', 'e', 'l'], [['d', 'e', 'h', 'a', 'l', 'f', 'o', 'p']], "chancap", ['h', 'a', 'l', 'f', 'o', 'p']),  -- Channel dehalfop: chancap halfop
  (['C', 'h', 'a', 'n', 'n', 'e', 'l'], [['d', 'e', 'o', 'p']], "chancap", ['o', 'p']),  -- Channel deop: chancap op
  (['C', 'h', 'a', 'n', 'n', 'e', 'l'], [['d', 'i', 's', 'a', 'b', 'l', 'e']], "chancap", ['o', 'p']),  -- Channel disable: chancap op
  (['C', 'h', 'a', 'n', 'n', 'e', 'l'], [['e', 'n', 'a', 'b', 'l', 'e']], "chancap", ['o', 'p']),  -- Channel enable: chancap op
  (['C', 'h', 'a', 'n', 'n', 'e', 'l'], [['h', 'a', 'l', 'f', 'o', 'p']], "chancap", ['h', 'a', 'l', 'f', 'o', 'p']),  -- Channel halfop: chancap halfop
  (['C', 'h', 'a', 'n', 'n', 'e', 'l'], [['i', 'b', 'a', 'n']], "chancap", ['o', 'p']),  -- Channel iban: chancap op
  (['C', 'h', 'a', 'n', 'n', 'e', 'l'], [['i', 'g', 'n', 'o', 'r', 'e'], ['a', 'd', 'd']], "chancap", ['o', 'p']),  -- Channel ignore add: chancap op
  (['C', 'h', 'a', 'n', 'n', 'e', 'l'], [['i', 'g', 'n', 'o', 'r', 'e'], ['l', 'i', 's', 't']], "chancap", ['o', 'p']),  -- Channel ignore list: chancap op
  (['C', 'h', 'a', 'n', 'n', 'e', 'l'], [['i', 'g', 'n', 'o', 'r', 'e'], ['r', 'e', 'm', 'o', 'v', 'e']], "chancap", ['o', 'p']),  -- Channel ignore remove: chancap op
  (['C', 'h', 'a', 'n', 'n', 'e', 'l'], [['i', 'n', 'v', 'i', 't', 'e']], "chancap", ['o', 'p']),  -- Channel invite: chancap op
  (['C', 'h', 'a', 'n', 'n', 'e', 'l'], [['k', 'b', 'a', 'n']], "chancap", ['o', 'p']),  -- Channel kban: chancap op
  (['C', 'h', 'a', 'n', 'n', 'e', 'l'], [['k', 'e', 'y']], "chancap", ['o', 'p']),  -- Channel key: chancap op
  (['C', 'h', 'a', 'n', 'n', 'e', 'l'], [['k', 'i', 'c', 'k']], "chancap", ['o', 'p']),  -- Channel kick: chancap op
  (['C', 'h', 'a', 'n', 'n', 'e', 'l'], [['l', 'i', 'm', 'i', 't']], "chancap", ['o', 'p']),  -- Channel limit: chancap op
  (['C', 'h', 'a', 'n', 'n', 'e', 'l'], [['l', 'o', 'b', 'o', 't', 'o', 'm', 'y'], ['a', 'd', 'd']], "chancap", ['o', 'p']),  -- Channel lobotomy add: chancap op
  (['C', 'h', 'a', 'n', 'n', 'e', 'l'], [['l', 'o', 'b', 'o', 't', 'o', 'm', 'y'], ['r', 'e', 'm', 'o', 'v', 'e']], "chancap", ['o', 'p']),  -- Channel lobotomy remove: chancap op
  (['C', 'h', 'a', 'n', 'n', 'e', 'l'], [['m', 'o', 'd', 'e']], "chancap", ['o', 'p']),  -- Channel mode: chancap op
  (['C', 'h', 'a', 'n', 'n', 'e', 'l'], [['m', 'o', 'd', 'e', 'r', 'a', 't', 'e']], "chancap", ['o', 'p']),  -- Channel moderate: chancap op
  (['C', 'h', 'a', 'n', 'n', 'e', 'l'], [['o', 'p']], "chancap", ['o', 'p']),  -- Channel op: chancap op
  (['C', 'h', 'a', 'n', 'n', 'e', 'l'], [['u', 'n', 'b', 'a', 'n']], "chancap", ['o', 'p']),  -- Channel unban: chancap op
  (['C', 'h', 'a', 'n', 'n', 'e', 'l'], [['u', 'n', 'm', 'o', 'd', 'e', 'r', 'a', 't', 'e']], "chancap", ['o', 'p']),  -- Channel unmoderate: chancap op
  (['C', 'o', 'n', 'f', 'i', 'g'], [['e', 'x', 'p', 'o', 'r', 't']], "cap", ['o', 'w', 'n', 'e', 'r']),  -- Config export: cap owner
  (['C', 'o', 'n', 'f', 'i', 'g'], [['r', 'e', 'l', 'o', 'a', 'd']], "cap", ['o', 'w', 'n', 'e', 'r']),  -- Config reload: cap owner
  (['F', 'i', 'l', 't', 'e', 'r'], [['o', 'u', 't', 'f', 'i', 'l', 't', 'e', 'r']], "chancap", ['o', 'p']),  -- Filter outfilter: chancap op
  (['K', 'a', 'r', 'm', 'a'], [['c', 'l', 'e', 'a', 'r']], "chancap", ['o', 'p']),  -- Karma clear: chancap op
  (['K', 'a', 'r', 'm', 'a'], [['d', 'u', 'm', 'p']], "cap", ['o', 'w', 'n', 'e', 'r']),  -- Karma dump: cap owner
  (['K', 'a', 'r', 'm', 'a'], [['l', 'o', 'a', 'd']], "cap", ['o', 'w', 'n', 'e', 'r']),  -- Karma load: cap owner
  (['L', 'a', 't', 'e', 'r'], [['r', 'e', 'm', 'o', 'v', 'e']], "cap", ['a', 'd', 'm', 'i', 'n']),  -- Later remove: cap admin
  (['M', 'a', 't', 'h'], [['i', 'c', 'a', 'l', 'c']], "cap", ['t', 'r', 'u', 's', 't', 'e', 'd']),  -- Math icalc: cap trusted
  (['M', 'i', 's', 'c'], [['c', 'l', 'e', 'a', 'r', 'm', 'o', 'r', 'e', 's']], "cap", ['a', 'd', 'm', 'i', 'n']),  -- Misc clearmores: cap admin
  (['N', 'e', 't', 'w', 'o', 'r', 'k'], [['c', 'm', 'd', 'a', 'l', 'l']], "cap", ['a', 'd', 'm', 'i', 'n']),  -- Network cmdall: cap admin
  (['N', 'e', 't', 'w', 'o', 'r', 'k'], [['c', 'o', 'm', 'm', 'a', 'n', 'd']], "cap", ['a', 'd', 'm', 'i', 'n']),  -- Network command: cap admin
  (['N', 'e', 't', 'w', 'o', 'r', 'k'], [['c', 'o', 'n', 'n', 'e', 'c', 't']], "cap", ['o', 'w', 'n', 'e', 'r']),  -- Network connect: cap owner
  (['N', 'e', 't', 'w', 'o', 'r', 'k'], [['d', 'i', 's', 'c', 'o', 'n', 'n', 'e', 'c', 't']], "cap", ['o', 'w', 'n', 'e', 'r']),  -- Network disconnect: cap owner
  (['N', 'e', 't', 'w', 'o', 'r', 'k'], [['r', 'e', 'c', 'o', 'n', 'n', 'e', 'c', 't']], "cap", ['o', 'w', 'n', 'e', 'r']),  -- Network reconnect: cap owner
  (['P', 'l', 'u', 'g', 'i', 'n', 'D', 'o', 'w', 'n', 'l', 'o', 'a', 'd', 'e', 'r'], [['i', 'n', 's', 't', 'a', 'l', 'l']], "cap", ['o', 'w', 'n', 'e', 'r']),  -- PluginDownloader install: cap owner
  (['R', 'S', 'S'], [['a', 'n', 'n', 'o', 'u', 'n', 'c', 'e'], ['a', 'd', 'd']], "chancap", ['o', 'p']),  -- RSS announce add: chancap op
  (['R', 'S', 'S'], [['a', 'n', 'n', 'o', 'u', 'n', 'c', 'e'], ['r', 'e', 'm', 'o', 'v', 'e']], "chancap", ['o', 'p']),  -- RSS announce remove: chancap op
  (['R', 'e', 'l', 'a', 'y'], [['j', 'o', 'i', 'n']], "cap", ['a', 'd', 'm', 'i', 'n']),  -- Relay join: cap admin
  (['R', 'e', 'l', 'a', 'y'], [['p', 'a', 'r', 't']], "cap", ['a', 'd', 'm', 'i', 'n']),  -- Relay part: cap admin
  (['S', 'e', 'r', 'v', 'i', 'c', 'e', 's'], [['g', 'h', 'o', 's', 't']], "cap", ['a', 'd', 'm', 'i', 'n']),  -- Services ghost: cap admin
  (['S', 'e', 'r', 'v', 'i', 'c', 'e', 's'], [['i', 'd', 'e', 'n', 't', 'i', 'f', 'y']], "cap", ['a', 'd', 'm', 'i', 'n']),  -- Services identify: cap admin
  (['S', 'e', 'r', 'v', 'i', 'c', 'e', 's'], [['i', 'n', 'v', 'i', 't', 'e']], "chancap", ['o', 'p']),  -- Services invite: chancap op
  (['S', 'e', 'r', 'v', 'i', 'c', 'e', 's'], [['n', 'i', 'c', 'k', 's']], "cap", ['a', 'd', 'm', 'i', 'n']),  -- Services nicks: cap admin
  (['S', 'e', 'r', 'v', 'i', 'c', 'e', 's'], [['o', 'p']], "chancap", ['o', 'p']),  -- Services op: chancap op
  (['S', 'e', 'r', 'v', 'i', 'c', 'e', 's'], [['p', 'a', 's', 's', 'w', 'o', 'r', 'd']], "cap", ['a', 'd', 'm', 'i', 'n']),  -- Services password: cap admin
  (['S', 'e', 'r', 'v', 'i', 'c', 'e', 's'], [['u', 'n', 'b', 'a', 'n']], "chancap", ['o', 'p']),  -- Services unban: chancap op
  (['S', 'e', 'r', 'v', 'i', 'c', 'e', 's'], [['v', 'o', 'i', 'c', 'e']], "chancap", ['o', 'p']),  -- Services voice: chancap op
  (['U', 'n', 'i', 'x'], [['c', 'a', 'l', 'l']], "cap", ['o', 'w', 'n', 'e', 'r']),  -- Unix call: cap owner
  (['U', 'n', 'i', 'x'], [['p', 'i', 'd']], "cap", ['o', 'w', 'n', 'e', 'r']),  -- Unix pid: cap owner
  (['U', 'n', 'i', 'x'], [['s', 'h', 'e', 'l', 'l']], "cap", ['o', 'w', 'n', 'e', 'r'])  -- Unix shell: cap owner
]

end C01
