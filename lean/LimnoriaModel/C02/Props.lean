/-
C02 — property theorems: nobody becomes owner (or gains a capability they are not entitled to)
through the bot's commands.
-/
import LimnoriaModel.C02.Lemmas
import LimnoriaModel.C02.Chan
import LimnoriaModel.C16.Order
import LimnoriaModel.Gen.CapSites
import LimnoriaModel.Gen.WrapSpecs
namespace C02
open Py

/-- **Inventory obligation.**  These are all the places in src/ and plugins/ where a capability set
is changed (regenerated from the source on every run).  A user's set is changed only by
`Admin.capability.add/remove`, `Channel.capability.add/remove` (`Cmd.capAdd/capRemove/chanCapAdd/
chanCapRemove`) and by the reader `IrcUserCreator.capability` (`Cmd.flushReload`); channel sets by
`Channel.capability.set/unset` (`Cmd.chanCapSet/chanCapUnset`), by `Channel.enable/disable`
(`Cmd.chanEnable/chanDisable`: op-gated; they add/remove `-Plugin.command` entries of the
*channel* set) and by the reader; the default set by `Owner.defaultcapability` (`Cmd.defaultCap…`) and the
registry (`Cmd.configCaps`).  A new site makes this fail. -/
theorem capSites_table : Gen.CapSites.sites =
    ["plugins/Admin/plugin.py:Admin.capability.add:addCapability",
     "plugins/Admin/plugin.py:Admin.capability.remove:removeCapability",
     "plugins/Channel/plugin.py:Channel.capability.add:addCapability",
     "plugins/Channel/plugin.py:Channel.capability.remove:removeCapability",
     "plugins/Channel/plugin.py:Channel.capability.set:addCapability",
     "plugins/Channel/plugin.py:Channel.capability.unset:removeCapability",
     "plugins/Channel/plugin.py:Channel.disable:addCapability",
     "plugins/Channel/plugin.py:Channel.enable:removeCapability",
     "plugins/Owner/plugin.py:Owner.defaultcapability:add",
     "plugins/Owner/plugin.py:Owner.defaultcapability:remove",
     "src/ircdb.py:IrcChannel.__init__:add",
     "src/ircdb.py:IrcChannel.addCapability:add",
     "src/ircdb.py:IrcChannel.removeCapability:remove",
     "src/ircdb.py:IrcChannelCreator.capability:add",
     "src/ircdb.py:IrcUser.__init__:add",
     "src/ircdb.py:IrcUser.addCapability:add",
     "src/ircdb.py:IrcUser.removeCapability:remove",
     "src/ircdb.py:IrcUserCreator.capability:add"] := by decide

/-- **How capability lists can grow.**  After any command (not a reload) sent from any hostmask,
with any argument strings, every capability `x` found on an account was already on that account,
or the command was `admin capability add` / `channel capability add` for that account, `x` is the
(lower-cased) requested capability, and the guard of the command held for the caller in the state
before: for the admin form the capability is not `owner` (in any case spelling) and the caller
holds it or it is an anti-capability; for the channel form the caller holds `#channel,op`. -/
theorem cap_growth_entitled (cfg : Cfg) (st : St) (pfx : Str) (c : Cmd) (ch : Option Str) (hc : c ≠ .flushReload) (hr : c ≠ .reload) :
    ∀ p ∈ (step cfg st pfx c ch).1.users, ∀ x ∈ p.2.caps,
      (∃ u, (p.1, u) ∈ st.users ∧ x ∈ u.caps) ∨ Granted cfg st pfx c p.1 x := by
  unfold step
  cases c with
  | flushReload => exact absurd rfl hc
  | reload => exact absurd rfl hr
  | flushAll => exact body_caps cfg st pfx _ hc hr
  | upkeep on => exact body_caps cfg st pfx _ hc hr
  | _ =>
    simp only []
    split
    · intro p hp x hx; exact Or.inl ⟨p.2, hp, hx⟩
    · split
      · exact body_caps cfg st pfx _ hc hr
      · intro p hp x hx; exact Or.inl ⟨p.2, hp, hx⟩

/-- the sender was entitled: the guard of the capability-add command held (`Granted`), the sender
is not ignored, and the command gate let the message pass (for the Admin commands: `-admin` does
not apply to the sender, `admin_gate`) -/
def Entitled (cfg : Cfg) (st : St) (pfx : Str) (c : Cmd) (ch : Option Str) (id : Nat) (x : Str) : Prop :=
  Granted cfg st pfx c id x ∧ st.ignored pfx = false ∧ allowed st pfx c ch = true

/-- `cap_growth_entitled` with the command gate: a capability appears only through a
capability-add command whose guard held *and* which passed the gate -/
theorem cap_growth_gated (cfg : Cfg) (st : St) (pfx : Str) (c : Cmd) (ch : Option Str) (hc : c ≠ .flushReload) (hr : c ≠ .reload) :
    ∀ p ∈ (step cfg st pfx c ch).1.users, ∀ x ∈ p.2.caps,
      (∃ u, (p.1, u) ∈ st.users ∧ x ∈ u.caps) ∨ Entitled cfg st pfx c ch p.1 x := by
  have hev : ∀ (c : Cmd), (c = .flushAll ∨ ∃ on, c = .upkeep on) → ∀ id x, ¬ Granted cfg st pfx c id x := by
    intro c hcc id x hg
    rcases hg with ⟨_, _, e, _⟩ | ⟨_, _, _, _, e, _⟩ <;> rcases hcc with rfl | ⟨_, rfl⟩ <;> cases e
  unfold step
  cases c with
  | flushReload => exact absurd rfl hc
  | reload => exact absurd rfl hr
  | flushAll =>
    intro p hp x hx
    rcases body_caps cfg st pfx _ hc hr p hp x hx with h | h
    · exact Or.inl h
    · exact absurd h (hev _ (Or.inl rfl) _ _)
  | upkeep on =>
    intro p hp x hx
    rcases body_caps cfg st pfx _ hc hr p hp x hx with h | h
    · exact Or.inl h
    · exact absurd h (hev _ (Or.inr ⟨on, rfl⟩) _ _)
  | _ =>
    simp only []
    split
    · intro p hp x hx; exact Or.inl ⟨p.2, hp, hx⟩
    · split
      · rename_i hig hal
        intro p hp x hx
        rcases body_caps cfg st pfx _ hc hr p hp x hx with h | h
        · exact Or.inl h
        · exact Or.inr ⟨h, by simpa using hig, hal⟩
      · intro p hp x hx; exact Or.inl ⟨p.2, hp, hx⟩

theorem ownerS_lower : C03.toLower C03.ownerS = C03.ownerS := by decide

/-- `owner` itself can never be granted -/
theorem not_granted_owner (cfg : Cfg) (st : St) (pfx : Str) (c : Cmd) (id : Nat) :
    ¬ Granted cfg st pfx c id C03.ownerS := by
  rintro (⟨name, cap0, _, _, hx, hne, _⟩ | ⟨chan, name, cap, c1, _, _, _, _, hx⟩)
  · -- admin form: the request is compared with 'owner' case-insensitively
    have : C03.strEqual (C03.toLower cap0) C03.ownerS = true := by
      unfold C03.strEqual
      rw [C03.toLower_idem, ← hx, ownerS_lower]
      simp
    rw [this] at hne
    cases hne
  · -- channel form: the granted string contains a comma
    have h1 : (C03.toLower (chan ++ ',' :: c1)).contains ',' = true := by
      rw [C03.contains_toLower C03.mem_special_comma]
      simp
    rw [← hx] at h1
    revert h1
    decide

theorem mem_owners {st : St} {id : Nat} : id ∈ owners st ↔ ∃ u, (id, u) ∈ st.users ∧ C03.ownerS ∈ u.caps := by
  unfold owners
  simp only [List.mem_map, List.mem_filter, List.contains_eq_mem, decide_eq_true_eq]
  constructor
  · rintro ⟨p, ⟨hp, ho⟩, rfl⟩
    exact ⟨p.2, hp, ho⟩
  · rintro ⟨u, hu, ho⟩
    exact ⟨(id, u), ⟨hu, ho⟩, rfl⟩

/-- **No new owner through a command** — whoever sends it (the statement does not even need
"the actor is not an owner": the commands simply cannot add the capability). -/
theorem no_new_owner_step (cfg : Cfg) (st : St) (pfx : Str) (c : Cmd) (ch : Option Str) (hc : c ≠ .flushReload) (hr : c ≠ .reload) :
    ∀ id ∈ owners (step cfg st pfx c ch).1, id ∈ owners st := by
  intro id hid
  obtain ⟨u', hu', ho⟩ := mem_owners.mp hid
  rcases cap_growth_entitled cfg st pfx c ch hc hr (id, u') hu' C03.ownerS ho with ⟨u, hu, hx⟩ | hg
  · exact mem_owners.mpr ⟨u, hu, hx⟩
  · exact absurd hg (not_granted_owner cfg st pfx c id)

/-! ## the converter lists of the modelled commands (regenerated from the plugin sources) -/

/-- the `wrap` specifications the bodies and converters of `Cmd` were written against -/
def modelledSpecs : List (String × String) :=
  [("User.register", "['private', 'something', 'something']"),
   ("User.unregister", "['private', 'otherUser', additional('anything')]"),
   ("User.changename", "['private', 'otherUser', 'something', additional('something', '')]"),
   ("User.identify", "['private', 'otherUser', 'something']"),
   ("User.unidentify", "['user']"),
   ("User.hostmask.add", "['private', first('otherUser', 'user'), optional('something'), additional('something', '')]"),
   ("User.hostmask.remove", "['private', first('otherUser', 'user'), optional('something'), additional('something', '')]"),
   ("User.set.password", "['private', optional('otherUser'), 'something', 'something']"),
   ("User.set.secure", "['private', 'user', 'something', additional('boolean')]"),
   ("Admin.capability.add", "['otherUser', 'lowered']"),
   ("Admin.capability.remove", "['otherUser', 'lowered']"),
   ("Admin.ignore.add", "['hostmask', additional('expiry', 0)]"),
   ("Admin.ignore.remove", "['hostmask']"),
   ("Channel.capability.add", "['op', 'otherUser', 'capability']"),
   ("Channel.capability.remove", "['op', 'otherUser', 'capability']"),
   ("Channel.capability.setdefault", "['op', 'boolean']"),
   ("Channel.capability.set", "['op', many('capability')]"),
   ("Channel.capability.unset", "['op', many('capability')]"),
   ("Channel.disable", "['op', optional(('plugin', False)), additional('commandName')]"),
   ("Channel.enable", "['op', optional(('plugin', False)), additional('commandName')]"),
   ("Owner.defaultcapability", "[('literal', ['add', 'remove']), 'capability']")]

/-- **the commands still take their arguments through the converters the model implements**
(`private`, `otherUser`, `user`, `op`, `capability`, `lowered`, `hostmask`, …): a changed `wrap`
list in User/Admin/Channel/Owner breaks this obligation at build time -/
theorem wrapSpecs_table : Gen.WrapSpecs.specs = modelledSpecs := by decide

/-- the plugin command a constructor of `Cmd` stands for (`none`: the generic `config` command, and
the events that are not IRC commands) -/
def Cmd.source : Cmd → Option String
  | .register .. => some "User.register"
  | .unregister .. => some "User.unregister"
  | .changename .. => some "User.changename"
  | .identify .. => some "User.identify"
  | .unidentify => some "User.unidentify"
  | .hostmaskAdd .. => some "User.hostmask.add"
  | .hostmaskRemove .. => some "User.hostmask.remove"
  | .setPassword .. => some "User.set.password"
  | .setSecure .. => some "User.set.secure"
  | .capAdd .. => some "Admin.capability.add"
  | .capRemove .. => some "Admin.capability.remove"
  | .ignoreAdd .. => some "Admin.ignore.add"
  | .ignoreRemove .. => some "Admin.ignore.remove"
  | .chanCapAdd .. => some "Channel.capability.add"
  | .chanCapRemove .. => some "Channel.capability.remove"
  | .chanSetDefault .. => some "Channel.capability.setdefault"
  | .chanCapSet .. => some "Channel.capability.set"
  | .chanCapUnset .. => some "Channel.capability.unset"
  | .chanDisable .. => some "Channel.disable"
  | .chanEnable .. => some "Channel.enable"
  | .defaultCapAdd .. => some "Owner.defaultcapability"
  | .defaultCapRemove .. => some "Owner.defaultcapability"
  | .configCaps .. => none
  | .flushReload => none
  | .reload => none
  | .flushAll => none
  | .upkeep .. => none

/-- every command of the model is in the regenerated table, and every row of the table is modelled -/
theorem cmd_sources_listed :
    (∀ c : Cmd, ∀ n, c.source = some n → n ∈ Gen.WrapSpecs.specs.map (·.1)) ∧
    (∀ n ∈ Gen.WrapSpecs.specs.map (·.1), ∃ c : Cmd, c.source = some n) := by
  constructor
  · intro c n h
    cases c <;> simp only [Cmd.source, Option.some.injEq, reduceCtorEq] at h <;> subst h <;> decide
  · intro n hn
    simp only [Gen.WrapSpecs.specs, List.map_cons, List.map_nil, List.mem_cons, List.not_mem_nil, or_false] at hn
    rcases hn with rfl | rfl | rfl | rfl | rfl | rfl | rfl | rfl | rfl | rfl | rfl | rfl | rfl | rfl | rfl | rfl | rfl | rfl | rfl | rfl | rfl
    · exact ⟨.register [] [], rfl⟩
    · exact ⟨.unregister [] none, rfl⟩
    · exact ⟨.changename [] [] [], rfl⟩
    · exact ⟨.identify [] [], rfl⟩
    · exact ⟨.unidentify, rfl⟩
    · exact ⟨.hostmaskAdd [] [] [], rfl⟩
    · exact ⟨.hostmaskRemove [] [] [], rfl⟩
    · exact ⟨.setPassword [] [] [], rfl⟩
    · exact ⟨.setSecure [] none, rfl⟩
    · exact ⟨.capAdd [] [], rfl⟩
    · exact ⟨.capRemove [] [], rfl⟩
    · exact ⟨.ignoreAdd [], rfl⟩
    · exact ⟨.ignoreRemove [], rfl⟩
    · exact ⟨.chanCapAdd [] [] [], rfl⟩
    · exact ⟨.chanCapRemove [] [] [], rfl⟩
    · exact ⟨.chanSetDefault [] true, rfl⟩
    · exact ⟨.chanCapSet [] [], rfl⟩
    · exact ⟨.chanCapUnset [] [], rfl⟩
    · exact ⟨.chanDisable [] [] [], rfl⟩
    · exact ⟨.chanEnable [] [] [], rfl⟩
    · exact ⟨.defaultCapAdd [], rfl⟩

/-- the first converter of a `wrap` list, as text -/
def specStarts (pre : String) (spec : String) : Bool := spec.toList.take pre.length == pre.toList

/-- **`Cmd.isPrivate` is the set of commands whose converter list starts with `private`**, and the
commands `Cmd.inChannel` treats through the `op` converter are those whose list starts with `op` -/
theorem private_table :
    ∀ c : Cmd, ∀ n, c.source = some n → ∀ sp, (n, sp) ∈ Gen.WrapSpecs.specs →
      c.isPrivate = specStarts "['private'" sp ∧
      ((match c with
        | .chanCapAdd .. | .chanCapRemove .. | .chanSetDefault .. | .chanCapSet .. | .chanCapUnset ..
        | .chanDisable .. | .chanEnable .. => true
        | _ => false) = specStarts "['op'" sp) := by
  intro c n h sp hsp
  simp only [Gen.WrapSpecs.specs, List.mem_cons, List.not_mem_nil, or_false, Prod.mk.injEq] at hsp
  cases c <;> simp only [Cmd.source, Option.some.injEq, reduceCtorEq] at h <;> subst h <;>
    simp only [String.reduceEq, false_and, or_false, false_or, true_and] at hsp <;> subst hsp <;>
    exact ⟨by simp only [Cmd.isPrivate]; decide, by simp only []; decide⟩

/-! ## the command gate stands in front of every change -/

/-- a message changes something only if the sender is not ignored and the command gate let it pass -/
theorem step_changes_only_if_allowed (cfg : Cfg) (st : St) (pfx : Str) (c : Cmd) (ch : Option Str)
    (hne : (step cfg st pfx c ch).1 ≠ st) :
    c = .flushReload ∨ c = .reload ∨ c = .flushAll ∨ (∃ on, c = .upkeep on) ∨
    (st.ignored pfx = false ∧ allowed st pfx c ch = true) := by
  unfold step at hne
  cases c with
  | flushReload => exact Or.inl rfl
  | reload => exact Or.inr (Or.inl rfl)
  | flushAll => exact Or.inr (Or.inr (Or.inl rfl))
  | upkeep on => exact Or.inr (Or.inr (Or.inr (Or.inl ⟨on, rfl⟩)))
  | _ =>
    right; right; right; right
    simp only [] at hne
    split at hne
    · exact absurd rfl hne
    · split at hne
      · rename_i hig hal
        exact ⟨by simpa using hig, hal⟩
      · exact absurd rfl hne

/-- **the Admin plugin's commands pass the gate only for a sender to whom `-admin` does not apply**
(`-admin` is among the default capabilities: whoever does not hold `admin` is refused) — in a
private message and in any channel, where `#chan,-admin` must not apply either -/
theorem admin_gate (st : St) (pfx name cap : Str) (ch : Option Str)
    (h : allowed st pfx (.capAdd name cap) ch = true ∨ allowed st pfx (.capRemove name cap) ch = true) :
    st.check pfx (s "-admin") = some false ∧
    (∀ c, ch = some c → ∃ an, C03.makeChannelCapability c (s "-admin") = .ok an ∧ st.check pfx an = some false) := by
  have key : ∀ path, path = [s "admin", s "capability", s "add"] ∨ path = [s "admin", s "capability", s "remove"] →
      st.gateAt pfx ch path = true →
      st.check pfx (s "-admin") = some false ∧
      (∀ c, ch = some c → ∃ an, C03.makeChannelCapability c (s "-admin") = .ok an ∧ st.check pfx an = some false) := by
    intro path hp hg
    unfold St.gateAt at hg
    cases ch with
    | none =>
      simp only [] at hg
      refine ⟨?_, fun c hc => (by cases hc)⟩
      rcases hp with rfl | rfl <;>
      · simp only [St.gate, List.getLast?, prefixes, List.map, dotted, List.cons_append, List.nil_append,
          List.all_cons, Bool.and_eq_true, decide_eq_true_eq] at hg
        exact hg.2.1.1
    | some c =>
      simp only [] at hg
      have h2 : st.check pfx (s "-admin") = some false ∧
          (match C03.makeChannelCapability c (s "-admin"), C03.makeChannelCapability c (s "admin") with
           | .ok an, .ok cn =>
             (decide (st.check pfx an = some false) &&
             ((st.defaultFlag && (st.chan c).defaultAllow) || decide (st.check pfx (s "admin") = some true) ||
               decide (st.check pfx cn = some true)))
           | _, _ => false) = true := by
        rcases hp with rfl | rfl <;>
        · simp only [St.gateIn, List.getLast?, prefixes, List.map, dotted, List.cons_append, List.nil_append,
            List.all_cons, Bool.and_eq_true, decide_eq_true_eq] at hg
          exact hg.2.1
      refine ⟨h2.1, ?_⟩
      intro c' hc'
      injection hc' with hc'
      subst hc'
      have h3 := h2.2
      split at h3
      · rename_i an cn e1 e2
        simp only [Bool.and_eq_true, decide_eq_true_eq] at h3
        exact ⟨an, e1, h3.1⟩
      · cases h3
  rcases h with h | h
  · exact key _ (Or.inl rfl) (by simpa [allowed, Cmd.path] using h)
  · exact key _ (Or.inr rfl) (by simpa [allowed, Cmd.path] using h)

/-! ## flush + reload -/

theorem reloadUsersFrom_users (cfg : Cfg) (st : St) (t : C16.UsersDb) :
    (reloadUsersFrom cfg st t).users = (C16.loadUsers (envOf cfg) st.cu (C16.dumpUsers t)).1.db.users := by
  unfold reloadUsersFrom; simp only []; split <;> rfl

theorem reloadUsersFrom_cu (cfg : Cfg) (st : St) (t : C16.UsersDb) :
    (reloadUsersFrom cfg st t).cu = (C16.loadUsers (envOf cfg) st.cu (C16.dumpUsers t)).1.cu := by
  unfold reloadUsersFrom; simp only []; split <;> rfl

theorem reloadChannelsFrom_users (cfg : Cfg) (st : St) (t : C16.ChannelsDb) :
    (reloadChannelsFrom cfg st t).users = st.users ∧ (reloadChannelsFrom cfg st t).cu = st.cu := by
  unfold reloadChannelsFrom; simp only []; split <;> exact ⟨rfl, rfl⟩

theorem flushReloadSt_users (cfg : Cfg) (st : St) :
    (flushReloadSt cfg st).users =
      (C16.loadUsers (envOf cfg) st.cu (C16.dumpUsers { users := st.users, nextId := st.nextId })).1.db.users ∧
    (flushReloadSt cfg st).cu =
      (C16.loadUsers (envOf cfg) st.cu (C16.dumpUsers { users := st.users, nextId := st.nextId })).1.cu := by
  unfold flushReloadSt
  simp only []
  exact ⟨(reloadChannelsFrom_users cfg _ _).1.trans (reloadUsersFrom_users cfg st _),
         (reloadChannelsFrom_users cfg _ _).2.trans (reloadUsersFrom_cu cfg st _)⟩

/-- **Reload never adds a capability**: in a state satisfying `Inv`, after `flush()` + `reload()`
every capability of every account was a capability of the same account before — whatever blanks,
TABs or keywords the stored names/passwords/hostmasks contain, and even when the load stops
part-way or starts from a half-built record left by an earlier failed load. -/
theorem reload_caps_sub (cfg : Cfg) (st : St) (h : Inv st) :
    ∀ p ∈ (flushReloadSt cfg st).users, ∀ x ∈ p.2.caps, ∃ u, (p.1, u) ∈ st.users ∧ x ∈ u.caps := by
  have := C16.load_caps_sub (envOf cfg) st.cu { users := st.users, nextId := st.nextId } h.cuok h.users
  rw [(flushReloadSt_users cfg st).1]
  exact this

/-- **No new owner at reload.** -/
theorem no_new_owner_reload (cfg : Cfg) (st : St) (h : Inv st) :
    ∀ id ∈ owners (flushReloadSt cfg st), id ∈ owners st := by
  intro id hid
  obtain ⟨u', hu', ho⟩ := mem_owners.mp hid
  obtain ⟨u, hu, hx⟩ := reload_caps_sub cfg st h (id, u') hu' C03.ownerS ho
  exact mem_owners.mpr ⟨u, hu, hx⟩

/-- the invariant is re-established by the reload itself (whatever was read) -/
theorem reload_preserves_inv (cfg : Cfg) (st : St) (h : Inv st) : Inv (flushReloadSt cfg st) := by
  have := C16.load_safe (envOf cfg) st.cu
    (C16.dumpUsers { users := st.users, nextId := st.nextId }) h.cu h.cuok
  obtain ⟨e1, e2⟩ := flushReloadSt_users cfg st
  refine ⟨?_, ?_, ?_, ?_⟩
  · rw [e1]; exact this.users
  · rw [e2]; exact this.cu
  · rw [e2]; exact this.cuok
  · rw [e2]; exact C16.load_fresh _ _ _ h.fresh

/-- … and by a reload that reads whatever file is there, without a flush (SIGHUP, `config reload`) -/
theorem reloadNoFlush_preserves_inv (cfg : Cfg) (st : St) (h : Inv st) : Inv (reloadSt cfg st) := by
  have hu : Inv (reloadU cfg st) := by
    unfold reloadU
    split
    · rename_i t _
      have := C16.load_safe (envOf cfg) st.cu (C16.dumpUsers t) h.cu h.cuok
      refine ⟨?_, ?_, ?_, ?_⟩
      · rw [reloadUsersFrom_users]; exact this.users
      · rw [reloadUsersFrom_cu]; exact this.cu
      · rw [reloadUsersFrom_cu]; exact this.cuok
      · rw [reloadUsersFrom_cu]; exact C16.load_fresh _ _ _ h.fresh
    · exact ⟨fun p hp => (by cases hp), h.cu, h.cuok, h.fresh⟩
  have hi : Inv (reloadI (reloadU cfg st)) := by
    unfold reloadI
    split
    · exact ⟨hu.users, hu.cu, hu.cuok, hu.fresh⟩
    · exact hu
  unfold reloadSt reloadC
  split
  · rename_i t _
    obtain ⟨e1, e2⟩ := reloadChannelsFrom_users cfg (reloadI (reloadU cfg st)) t
    refine ⟨?_, ?_, ?_, ?_⟩
    · rw [e1]; exact hi.users
    · rw [e2]; exact hi.cu
    · rw [e2]; exact hi.cuok
    · rw [e2]; exact hi.fresh
  · exact ⟨hi.users, hi.cu, hi.cuok, hi.fresh⟩

/-- every command keeps the invariant: names are refused when they contain a line break,
hostmasks must be user hostmasks, capabilities single words, passwords are stored hashed -/
theorem step_preserves_inv (cfg : Cfg) (hcfg : HashSafe cfg) (st : St) (pfx : Str) (hpfx : C16.noBreak pfx)
    (c : Cmd) (ch : Option Str) (h : Inv st) : Inv (step cfg st pfx c ch).1 := by
  by_cases hc : c = .flushReload
  · subst hc
    exact reload_preserves_inv cfg st h
  by_cases hr : c = .reload
  · subst hr
    exact reloadNoFlush_preserves_inv cfg st h
  · have hb : Inv (body cfg st pfx c).1 := by
      have hcu := body_cu cfg st pfx c hc hr
      refine ⟨body_safe cfg hcfg st pfx hpfx c hc hr h.users, ?_, ?_, ?_⟩
      · rw [hcu]; exact h.cu
      · rw [hcu]; exact h.cuok
      · rw [hcu]; exact h.fresh
    unfold step
    cases c with
    | flushReload => exact absurd rfl hc
    | reload => exact absurd rfl hr
    | flushAll => exact hb
    | upkeep on => exact hb
    | _ =>
      simp only []
      split
      · exact h
      · split
        · exact hb
        · exact h

/-! ## histories -/

/-- a finite interleaving of commands (each with the hostmask it comes from) and reload points -/
def run (cfg : Cfg) (st : St) : List (Str × Cmd) → St
  | [] => st
  | (pfx, c) :: rest => run cfg (step cfg st pfx c none).1 rest

/-- **No sequence of commands and flush+reload points creates an owner**: from any state satisfying
the invariant, after any finite history (any hostmasks, any argument strings, flush+reload points
anywhere) the owners are among the owners of the initial state, and the invariant still holds.

Reload points that read the files *without* a preceding flush (`Cmd.reload`: SIGHUP, `config
reload`) are covered by `history_safe_all` below, which needs the additional invariants
`IdsOk`/`FileOk` and the run condition `GoodRun`. -/
theorem history_safe (cfg : Cfg) (hcfg : HashSafe cfg) (hist : List (Str × Cmd)) (st : St) (h : Inv st)
    (hp : ∀ e ∈ hist, C16.noBreak e.1) (hnr : ∀ e ∈ hist, e.2 ≠ .reload) :
    (∀ id ∈ owners (run cfg st hist), id ∈ owners st) ∧ Inv (run cfg st hist) := by
  induction hist generalizing st with
  | nil => exact ⟨fun id hid => hid, h⟩
  | cons e rest ih =>
    obtain ⟨pfx, c⟩ := e
    have hinv := step_preserves_inv cfg hcfg st pfx (hp (pfx, c) (by simp)) c none h
    have hown : ∀ id ∈ owners (step cfg st pfx c none).1, id ∈ owners st := by
      by_cases hc : c = .flushReload
      · subst hc; exact no_new_owner_reload cfg st h
      · exact no_new_owner_step cfg st pfx c none hc (hnr (pfx, c) (by simp))
    obtain ⟨h1, h2⟩ := ih (step cfg st pfx c none).1 hinv (fun e he => hp e (by simp [he]))
      (fun e he => hnr e (by simp [he]))
    exact ⟨fun id hid => hown id (h1 id hid), h2⟩

/-! ## reloads that read the files as they are (SIGHUP, `config reload`) -/

theorem reloadChannelsFrom_keeps (cfg : Cfg) (st : St) (t : C16.ChannelsDb) :
    (reloadChannelsFrom cfg st t).nextId = st.nextId ∧ (reloadChannelsFrom cfg st t).usaved = st.usaved := by
  unfold reloadChannelsFrom; simp only []; split <;> exact ⟨rfl, rfl⟩

theorem safeUser_hashedOnly : C16.SafeUser ({ hashed := true } : C16.User) :=
  ⟨C16.noBreak_nil, C16.noBreak_nil, fun c hc => (by cases hc), fun c hc => (by cases hc),
   fun c hc => (by cases hc), fun c hc => (by cases hc)⟩

theorem fileOk_of_saved {st : St} (hs : Saved st) (hsafe : SafeUsers st) (hi : IdsOk st) : FileOk st := by
  intro db ht
  rw [hs] at ht
  injection ht with ht
  subst ht
  refine ⟨hsafe, Or.inl ?_⟩
  intro p hp x hx
  exact ⟨p.2, dictGet_of_mem_nodup hi.1 hp, hx⟩

theorem heldBy_of_grow {st st' : St} {fu : List (Nat × C16.User)} (hg : UserGrow st st') (hheld : HeldBy fu st) :
    HeldBy fu st' := by
  intro p hp x hx
  obtain ⟨u, hu, hxu⟩ := hheld p hp x hx
  obtain ⟨u', hu', hsub⟩ := hg p.1 u hu
  exact ⟨u', hu', hsub x hxu⟩

theorem fileOk_of_grow {st st' : St} (hf : st'.usaved = st.usaved) (hcu : st'.cu = st.cu) (hg : UserGrow st st')
    (h : FileOk st) : FileOk st' := by
  intro db ht
  rw [hf] at ht
  obtain ⟨hsafe, hheld⟩ := h db ht
  refine ⟨hsafe, ?_⟩
  rcases hheld with hheld | hst
  · exact Or.inl (heldBy_of_grow hg hheld)
  · exact Or.inr (by rw [hcu]; exact hst)

/-- **The saved file never holds a capability that memory has dropped** — preserved by every
command that is not a reload, provided a capability-changing command either acknowledged
("The operation succeeded": then it has saved) or left the state alone. -/
theorem step_preserves_fileOk (cfg : Cfg) (hcfg : HashSafe cfg) (st : St) (pfx : Str) (hpfx : C16.noBreak pfx)
    (c : Cmd) (ch : Option Str) (hc : c ≠ .flushReload) (hr : c ≠ .reload) (hinv : Inv st) (hids : IdsOk st) (hfile : FileOk st)
    (hq : c.capChanging = true → (step cfg st pfx c ch).2 = true ∨ (step cfg st pfx c ch).1 = st) :
    FileOk (step cfg st pfx c ch).1 ∧ IdsOk (step cfg st pfx c ch).1 := by
  have hinv' := step_preserves_inv cfg hcfg st pfx hpfx c ch hinv
  have key : ∀ r : St × Bool, r = body cfg st pfx c → step cfg st pfx c ch = r →
      FileOk r.1 ∧ IdsOk r.1 := by
    intro r hr' hstep
    have hids' : IdsOk r.1 := by rw [hr']; exact body_ids cfg st pfx c hc hr hids
    have hsafe' : SafeUsers r.1 := by rw [← hstep]; exact hinv'.users
    refine ⟨?_, hids'⟩
    have hshape := body_shape cfg st pfx c hc hr
    rw [← hr'] at hshape
    rcases hshape with (hsv | ⟨hf, hg⟩) | ⟨hcc, hfalse, _⟩
    · exact fileOk_of_saved hsv hsafe' hids'
    · exact fileOk_of_grow hf (by rw [hr']; exact body_cu cfg st pfx c hc hr) hg hfile
    · rcases hq hcc with h | h
      · rw [hstep] at h; rw [h] at hfalse; cases hfalse
      · rw [hstep] at h; rw [h]; exact hfile
  unfold step
  cases c with
  | flushReload => exact absurd rfl hc
  | reload => exact absurd rfl hr
  | flushAll => exact key _ rfl rfl
  | upkeep on => exact key _ rfl rfl
  | _ =>
    simp only []
    split
    · exact ⟨hfile, hids⟩
    · split
      · rename_i hig hal
        apply key _ rfl
        unfold step
        simp only [hig, hal, if_true, Bool.false_eq_true, if_false]
      · exact ⟨hfile, hids⟩

theorem reloadSt_users (cfg : Cfg) (st : St) : (reloadSt cfg st).users = (reloadU cfg st).users := by
  unfold reloadSt reloadC
  split
  · rw [(reloadChannelsFrom_users cfg _ _).1]; unfold reloadI; split <;> rfl
  · unfold reloadI; split <;> rfl

/-- **A reload without flush never adds a capability**: whatever was last saved, in a state where
the saved file holds no capability that memory has dropped — whether the load completes or not. -/
theorem reloadNoFlush_caps_sub (cfg : Cfg) (st : St) (h : Inv st) (hf : FileOk st) :
    ∀ p ∈ (reloadSt cfg st).users, ∀ x ∈ p.2.caps, ∃ u, (p.1, u) ∈ st.users ∧ x ∈ u.caps := by
  rw [reloadSt_users]
  unfold reloadU
  split
  · rename_i db ht
    obtain ⟨hsafe, hheld⟩ := hf db ht
    rw [reloadUsersFrom_users]
    rcases hheld with hheld | hstuck
    · have := C16.load_caps_sub (envOf cfg) st.cu db h.cuok hsafe
      intro p hp x hx
      obtain ⟨f, hfm, hxf⟩ := this p hp x hx
      obtain ⟨u, hu, hxu⟩ := hheld (p.1, f) hfm x hxf
      exact ⟨u, user_mem hu, hxu⟩
    · rw [(C16.load_stuck (envOf cfg) st.cu db hstuck hsafe).1]
      intro p hp; cases hp
  · intro p hp; cases hp

/-- **No new owner at a reload without flush.** -/
theorem no_new_owner_reloadNoFlush (cfg : Cfg) (st : St) (h : Inv st) (hf : FileOk st) :
    ∀ id ∈ owners (reloadSt cfg st), id ∈ owners st := by
  intro id hid
  obtain ⟨u', hu', ho⟩ := mem_owners.mp hid
  obtain ⟨u, hu, hx⟩ := reloadNoFlush_caps_sub cfg st h hf (id, u') hu' C03.ownerS ho
  exact mem_owners.mpr ⟨u, hu, hx⟩

/-- **after a users load the saved-file invariant holds again**: a load that completes ends with
a flush (file and memory agree); a load that stops leaves, in the reader's class attribute, a
record with an id — and from then on no load brings anything into memory -/
theorem reloadUsersFrom_file (cfg : Cfg) (st : St) (db : C16.UsersDb) (hinv : Inv st)
    (hdb : ∀ p ∈ db.users, C16.SafeUser p.2) :
    FileOk (reloadUsersFrom cfg st db) ∧ IdsOk (reloadUsersFrom cfg st db) := by
  have hsafe := C16.load_safe (envOf cfg) st.cu (C16.dumpUsers db) hinv.cu hinv.cuok
  have hids := C16.load_ids (envOf cfg) st.cu (C16.dumpUsers db)
  cases hok : (C16.loadUsers (envOf cfg) st.cu (C16.dumpUsers db)).2 with
  | none =>
    have hi : IdsOk (reloadUsersFrom cfg st db) := by
      unfold reloadUsersFrom; simp only [hok, Option.isNone_none, if_true]; exact hids
    refine ⟨fileOk_of_saved ?_ ?_ hi, hi⟩
    · unfold reloadUsersFrom; simp only [hok, Option.isNone_none, if_true]; rfl
    · unfold reloadUsersFrom; simp only [hok, Option.isNone_none, if_true]; exact hsafe.users
  | some e =>
    have hst := C16.load_err_stuck (envOf cfg) st.cu db hinv.fresh hdb (by rw [hok]; simp)
    have hi : IdsOk (reloadUsersFrom cfg st db) := by
      unfold reloadUsersFrom; simp only [hok, Option.isNone_some, Bool.false_eq_true, if_false]; exact hids
    refine ⟨?_, hi⟩
    intro db' hdb'
    have : (reloadUsersFrom cfg st db).usaved = some db := by
      unfold reloadUsersFrom; simp only [hok, Option.isNone_some, Bool.false_eq_true, if_false]
    rw [this] at hdb'
    injection hdb' with hdb'
    subst hdb'
    refine ⟨hdb, Or.inr ?_⟩
    rw [reloadUsersFrom_cu]
    exact hst

theorem fileOk_congr {st st' : St} (e1 : st'.users = st.users) (e2 : st'.usaved = st.usaved) (e3 : st'.cu = st.cu)
    (h : FileOk st) : FileOk st' :=
  fileOk_of_grow e2 e3 (userGrow_of_users_eq e1) h

theorem flushReload_fileOk (cfg : Cfg) (st : St) (hinv : Inv st) :
    FileOk (flushReloadSt cfg st) ∧ IdsOk (flushReloadSt cfg st) := by
  obtain ⟨h1, h2⟩ := reloadUsersFrom_file cfg st { users := st.users, nextId := st.nextId } hinv hinv.users
  unfold flushReloadSt
  simp only []
  obtain ⟨e1, e2⟩ := reloadChannelsFrom_users cfg (reloadUsersFrom cfg st { users := st.users, nextId := st.nextId })
    (reloadUsersFrom cfg st { users := st.users, nextId := st.nextId }).channels
  obtain ⟨e3, e4⟩ := reloadChannelsFrom_keeps cfg (reloadUsersFrom cfg st { users := st.users, nextId := st.nextId })
    (reloadUsersFrom cfg st { users := st.users, nextId := st.nextId }).channels
  exact ⟨fileOk_congr e1 e4 e2 h1, ids_of_eq h2 e1 e3⟩

theorem reloadNoFlush_fileOk (cfg : Cfg) (st : St) (hinv : Inv st)
    (hf : ∀ db, st.usaved = some db → ∀ p ∈ db.users, C16.SafeUser p.2) :
    FileOk (reloadSt cfg st) ∧ IdsOk (reloadSt cfg st) := by
  have hu : FileOk (reloadU cfg st) ∧ IdsOk (reloadU cfg st) := by
    unfold reloadU
    split
    · rename_i db ht
      exact reloadUsersFrom_file cfg st db hinv (hf db ht)
    · rename_i hnone
      refine ⟨?_, ⟨by simp, fun p hp => (by cases hp)⟩⟩
      intro t ht
      simp only [] at ht
      rw [hnone] at ht
      cases ht
  have hi : FileOk (reloadI (reloadU cfg st)) ∧ IdsOk (reloadI (reloadU cfg st)) := by
    unfold reloadI
    split
    · exact ⟨fileOk_congr rfl rfl rfl hu.1, ids_of_eq hu.2 rfl rfl⟩
    · exact hu
  unfold reloadSt reloadC
  split
  · obtain ⟨e1, e2⟩ := reloadChannelsFrom_users cfg (reloadI (reloadU cfg st)) ‹_›
    obtain ⟨e3, e4⟩ := reloadChannelsFrom_keeps cfg (reloadI (reloadU cfg st)) ‹_›
    exact ⟨fileOk_congr e1 e4 e2 hi.1, ids_of_eq hi.2 e1 e3⟩
  · exact ⟨fileOk_congr rfl rfl rfl hi.1, ids_of_eq hi.2 rfl rfl⟩

/-- what a history must satisfy for the saved-file invariant to be maintained: every
capability-changing command acknowledged or did nothing (loads may complete or stop: no condition) -/
def Quiet (cfg : Cfg) (st : St) (pfx : Str) (c : Cmd) (ch : Option Str) : Prop :=
  c.capChanging = true → (step cfg st pfx c ch).2 = true ∨ (step cfg st pfx c ch).1 = st

def GoodRun (cfg : Cfg) : St → List (Str × Cmd) → Prop
  | _, [] => True
  | st, (pfx, c) :: rest => Quiet cfg st pfx c none ∧ GoodRun cfg (step cfg st pfx c none).1 rest

/-- the three invariants together -/
structure Inv3 (st : St) : Prop where
  inv : Inv st
  ids : IdsOk st
  file : FileOk st

/-- one step of any kind — command, flush+reload, reload without flush: no new owner, and the
invariants are kept -/
theorem step_safe_all (cfg : Cfg) (hcfg : HashSafe cfg) (st : St) (pfx : Str) (hpfx : C16.noBreak pfx) (c : Cmd) (ch : Option Str)
    (h : Inv3 st) (hq : Quiet cfg st pfx c ch) :
    (∀ id ∈ owners (step cfg st pfx c ch).1, id ∈ owners st) ∧ Inv3 (step cfg st pfx c ch).1 := by
  have hinv' := step_preserves_inv cfg hcfg st pfx hpfx c ch h.inv
  by_cases hc : c = .flushReload
  · subst hc
    obtain ⟨f, i⟩ := flushReload_fileOk cfg st h.inv
    exact ⟨no_new_owner_reload cfg st h.inv, ⟨hinv', i, f⟩⟩
  by_cases hr : c = .reload
  · subst hr
    obtain ⟨f, i⟩ := reloadNoFlush_fileOk cfg st h.inv (fun db hdb => (h.file db hdb).1)
    exact ⟨no_new_owner_reloadNoFlush cfg st h.inv h.file, ⟨hinv', i, f⟩⟩
  · obtain ⟨f, i⟩ := step_preserves_fileOk cfg hcfg st pfx hpfx c ch hc hr h.inv h.ids h.file hq
    exact ⟨no_new_owner_step cfg st pfx c ch hc hr, ⟨hinv', i, f⟩⟩

/-- **Histories with every kind of reload point.**  From a state satisfying the three
invariants, along any finite history of commands, flush+reload points and reloads that read the
files as they are (SIGHUP, `config reload`) — in which capability-changing commands acknowledged
or did nothing (`GoodRun`), and loads complete or stop at any record — no account becomes an owner, and the invariants
hold at the end. -/
theorem history_safe_all (cfg : Cfg) (hcfg : HashSafe cfg) (hist : List (Str × Cmd)) (st : St) (h : Inv3 st)
    (hp : ∀ e ∈ hist, C16.noBreak e.1) (hg : GoodRun cfg st hist) :
    (∀ id ∈ owners (run cfg st hist), id ∈ owners st) ∧ Inv3 (run cfg st hist) := by
  induction hist generalizing st with
  | nil => exact ⟨fun id hid => hid, h⟩
  | cons e rest ih =>
    obtain ⟨pfx, c⟩ := e
    obtain ⟨hq, hg'⟩ := hg
    obtain ⟨hown, h'⟩ := step_safe_all cfg hcfg st pfx (hp (pfx, c) (by simp)) c none h hq
    obtain ⟨h1, h2⟩ := ih (step cfg st pfx c none).1 h' (fun e he => hp e (by simp [he])) hg'
    exact ⟨fun id hid => hown id (h1 id hid), h2⟩

/-! ## owners, with no run condition at all

`history_safe_all` keeps *every* capability of the saved file below memory and for that needs the
run condition `GoodRun`.  For the `owner` capability alone nothing is needed: no command can put
`owner` into memory, the file is only ever a copy of memory, so neither ever names an owner
outside the initial ones — whatever fails in between. -/

def ownersOf (l : List (Nat × C16.User)) : List Nat := (l.filter (fun p => p.2.caps.contains C03.ownerS)).map (·.1)

theorem mem_ownersOf {l : List (Nat × C16.User)} {id : Nat} :
    id ∈ ownersOf l ↔ ∃ u, (id, u) ∈ l ∧ C03.ownerS ∈ u.caps := by
  unfold ownersOf
  simp only [List.mem_map, List.mem_filter, List.contains_eq_mem, decide_eq_true_eq]
  constructor
  · rintro ⟨p, ⟨hp, ho⟩, rfl⟩
    exact ⟨p.2, hp, ho⟩
  · rintro ⟨u, hu, ho⟩
    exact ⟨(id, u), ⟨hu, ho⟩, rfl⟩

/-- the saved file is readable line by line and names no owner outside `O` (or nothing can be loaded) -/
def FileOwn (O : Nat → Prop) (st : St) : Prop :=
  ∀ db, st.usaved = some db →
    (∀ p ∈ db.users, C16.SafeUser p.2) ∧ ((∀ id ∈ ownersOf db.users, O id) ∨ C16.Stuck st.cu)

/-- memory and the saved file name no owner outside `O` -/
structure OwnInv (O : Nat → Prop) (st : St) : Prop where
  inv : Inv st
  mem : ∀ id ∈ owners st, O id
  file : FileOwn O st

theorem fileOwn_of_fileOk {O : Nat → Prop} {st : St} (hf : FileOk st) (hm : ∀ id ∈ owners st, O id) : FileOwn O st := by
  intro db hdb
  obtain ⟨hs, hh⟩ := hf db hdb
  refine ⟨hs, ?_⟩
  rcases hh with hh | hh
  · left
    intro id hid
    obtain ⟨f, hfm, ho⟩ := mem_ownersOf.mp hid
    obtain ⟨u, hu, hx⟩ := hh (id, f) hfm _ ho
    exact hm id (mem_owners.mpr ⟨u, user_mem hu, hx⟩)
  · exact Or.inr hh

theorem fileOwn_same {O : Nat → Prop} {st st' : St} (e : st'.usaved = st.usaved) (ecu : st'.cu = st.cu)
    (h : FileOwn O st) : FileOwn O st' := by
  intro db hdb
  rw [e] at hdb
  rw [ecu]
  exact h db hdb

/-- a reload without flush brings no owner outside `O` into memory -/
theorem reloadNoFlush_owners {O : Nat → Prop} (cfg : Cfg) (st : St) (h : OwnInv O st) :
    ∀ id ∈ owners (reloadSt cfg st), O id := by
  intro id hid
  obtain ⟨u', hu', ho⟩ := mem_owners.mp hid
  rw [reloadSt_users] at hu'
  unfold reloadU at hu'
  split at hu'
  · rename_i db ht
    obtain ⟨hsafe, hown⟩ := h.file db ht
    rw [reloadUsersFrom_users] at hu'
    rcases hown with hown | hstuck
    · obtain ⟨f, hfm, hxf⟩ := C16.load_caps_sub (envOf cfg) st.cu db h.inv.cuok hsafe (id, u') hu' _ ho
      exact hown id (mem_ownersOf.mpr ⟨f, hfm, hxf⟩)
    · rw [(C16.load_stuck (envOf cfg) st.cu db hstuck hsafe).1] at hu'
      cases hu'
  · cases hu'

/-- **every step keeps owners — in memory and in the saved file — among `O`**, with no condition on
replies, on loads completing, or on who sends what -/
theorem step_ownInv {O : Nat → Prop} (cfg : Cfg) (hcfg : HashSafe cfg) (st : St) (pfx : Str) (hpfx : C16.noBreak pfx)
    (c : Cmd) (ch : Option Str) (h : OwnInv O st) : OwnInv O (step cfg st pfx c ch).1 := by
  have hinv' := step_preserves_inv cfg hcfg st pfx hpfx c ch h.inv
  by_cases hc : c = .flushReload
  · subst hc
    have hm : ∀ id ∈ owners (step cfg st pfx .flushReload ch).1, O id :=
      fun id hid => h.mem id (no_new_owner_reload cfg st h.inv id hid)
    exact ⟨hinv', hm, fileOwn_of_fileOk (flushReload_fileOk cfg st h.inv).1 hm⟩
  by_cases hr : c = .reload
  · subst hr
    have hm : ∀ id ∈ owners (step cfg st pfx .reload ch).1, O id := reloadNoFlush_owners cfg st h
    exact ⟨hinv', hm, fileOwn_of_fileOk (reloadNoFlush_fileOk cfg st h.inv (fun db hdb => (h.file db hdb).1)).1 hm⟩
  · have hm : ∀ id ∈ owners (step cfg st pfx c ch).1, O id :=
      fun id hid => h.mem id (no_new_owner_step cfg st pfx c ch hc hr id hid)
    refine ⟨hinv', hm, ?_⟩
    have key : ∀ r : St × Bool, r = body cfg st pfx c → step cfg st pfx c ch = r → FileOwn O r.1 := by
      intro r hr' hstep
      have hsafe' : SafeUsers r.1 := by rw [← hstep]; exact hinv'.users
      have hm' : ∀ id ∈ owners r.1, O id := by rw [← hstep]; exact hm
      have hcu : r.1.cu = st.cu := by rw [hr']; exact body_cu cfg st pfx c hc hr
      have hshape := body_shape cfg st pfx c hc hr
      rw [← hr'] at hshape
      rcases hshape with (hsv | ⟨hf, _⟩) | ⟨_, _, hf⟩
      · intro db hdb
        rw [hsv] at hdb
        injection hdb with hdb
        subst hdb
        exact ⟨hsafe', Or.inl hm'⟩
      · exact fileOwn_same hf hcu h.file
      · exact fileOwn_same hf hcu h.file
    unfold step
    cases c with
    | flushReload => exact absurd rfl hc
    | reload => exact absurd rfl hr
    | flushAll => exact key _ rfl rfl
    | upkeep on => exact key _ rfl rfl
    | _ =>
      simp only []
      split
      · exact h.file
      · split
        · rename_i hig hal
          apply key _ rfl
          unfold step
          simp only [hig, hal, if_true, Bool.false_eq_true, if_false]
        · exact h.file

/-- **No history creates an owner — unconditionally.**  From a state satisfying `Inv` whose saved
users file is the state itself (or absent), after any finite history of commands from any
hostmasks, flush+reload points, reloads that read the files as they are (SIGHUP, `config reload`),
`world.flush()` and upkeep events — whether commands are acknowledged or fail half-way, whether
loads complete or stop at any record — every owner is an owner of the initial state. -/
theorem history_owner_safe (cfg : Cfg) (hcfg : HashSafe cfg) (hist : List (Str × Cmd)) (st : St) (h : Inv st)
    (hs : Saved st ∨ st.usaved = none) (hp : ∀ e ∈ hist, C16.noBreak e.1) :
    ∀ id ∈ owners (run cfg st hist), id ∈ owners st := by
  have gen : ∀ (hist : List (Str × Cmd)) (st' : St), OwnInv (fun id => id ∈ owners st) st' →
      (∀ e ∈ hist, C16.noBreak e.1) → OwnInv (fun id => id ∈ owners st) (run cfg st' hist) := by
    intro hist
    induction hist with
    | nil => intro st' h' _; exact h'
    | cons e rest ih =>
      intro st' h' hp'
      obtain ⟨pfx, c⟩ := e
      exact ih _ (step_ownInv cfg hcfg st' pfx (hp' (pfx, c) (by simp)) c none h') (fun e he => hp' e (by simp [he]))
  refine (gen hist st ⟨h, fun id hid => hid, ?_⟩ hp).mem
  intro db hdb
  rcases hs with hs | hs
  · rw [hs] at hdb
    injection hdb with hdb
    subst hdb
    exact ⟨h.users, Or.inl (fun id hid => hid)⟩
  · rw [hs] at hdb; cases hdb

/-! ## histories in which the environment fixes the written order of capability sets -/

theorem mem_permCaps {ord : Option (List Str)} {caps : List Str} {x : Str} : x ∈ permCaps ord caps ↔ x ∈ caps := by
  unfold permCaps
  cases ord with
  | none => exact Iff.rfl
  | some c =>
    simp only []
    split
    · rename_i h
      exact (List.isPerm_iff.mp h).mem_iff
    · exact Iff.rfl

/-- the order event only ever permutes -/
theorem permCaps_perm (ord : Option (List Str)) (caps : List Str) : (permCaps ord caps).Perm caps := by
  unfold permCaps
  cases ord with
  | none => exact List.Perm.refl _
  | some c =>
    simp only []
    split
    · rename_i h; exact List.isPerm_iff.mp h
    · exact List.Perm.refl _

theorem safeUser_permCaps {u : C16.User} (ord : Option (List Str)) (h : C16.SafeUser u) :
    C16.SafeUser { u with caps := permCaps ord u.caps } :=
  ⟨h.name, h.password, fun c hc => h.caps c (mem_permCaps.mp hc), h.hostmasks, h.nicks, h.gpgkeys⟩

theorem fileOrder_usaved {st : St} {uo : List (Nat × List Str)} {co : List (Str × List Str)} {db' : C16.UsersDb}
    (h : (st.fileOrder uo co).usaved = some db') :
    ∃ db, st.usaved = some db ∧
      db'.users = db.users.map (fun p => (p.1, { p.2 with caps := permCaps (C16.dictGet p.1 uo) p.2.caps })) := by
  unfold St.fileOrder at h
  simp only [] at h
  cases hs : st.usaved with
  | none => rw [hs] at h; cases h
  | some db =>
    rw [hs] at h
    simp only [Option.map_some] at h
    injection h with h
    exact ⟨db, rfl, by rw [← h]⟩

theorem fileOrder_inv {st : St} (uo : List (Nat × List Str)) (co : List (Str × List Str)) (h : Inv st) :
    Inv (st.fileOrder uo co) := ⟨h.users, h.cu, h.cuok, h.fresh⟩

theorem fileOrder_fileOk {st : St} (uo : List (Nat × List Str)) (co : List (Str × List Str)) (h : FileOk st) :
    FileOk (st.fileOrder uo co) := by
  intro db' hdb'
  obtain ⟨db, hdb, e⟩ := fileOrder_usaved hdb'
  obtain ⟨hsafe, hheld⟩ := h db hdb
  rw [e]
  refine ⟨?_, ?_⟩
  · intro p hp
    obtain ⟨q, hq, rfl⟩ := List.mem_map.mp hp
    exact safeUser_permCaps _ (hsafe q hq)
  · rcases hheld with hheld | hst
    · left
      intro p hp x hx
      obtain ⟨q, hq, rfl⟩ := List.mem_map.mp hp
      exact hheld q hq x (mem_permCaps.mp hx)
    · exact Or.inr hst

theorem fileOrder_fileOwn {O : Nat → Prop} {st : St} (uo : List (Nat × List Str)) (co : List (Str × List Str))
    (h : FileOwn O st) : FileOwn O (st.fileOrder uo co) := by
  intro db' hdb'
  obtain ⟨db, hdb, e⟩ := fileOrder_usaved hdb'
  obtain ⟨hsafe, hown⟩ := h db hdb
  rw [e]
  refine ⟨?_, ?_⟩
  · intro p hp
    obtain ⟨q, hq, rfl⟩ := List.mem_map.mp hp
    exact safeUser_permCaps _ (hsafe q hq)
  · rcases hown with hown | hst
    · left
      intro id hid
      obtain ⟨f, hfm, ho⟩ := mem_ownersOf.mp hid
      obtain ⟨q, hq, e'⟩ := List.mem_map.mp hfm
      injection e' with e1 e2
      subst e1
      rw [← e2] at ho
      exact hown _ (mem_ownersOf.mpr ⟨q.2, hq, mem_permCaps.mp ho⟩)
    · exact Or.inr hst

/-- **for a storable saved file the order event is immaterial**: whatever orders the environment
gives, the reload brings back every account of the file with exactly its capabilities, in the
order given — the same sets as without the event (`C16.users_roundtrip_any_cap_order`).  Only in
the states of finding C16-capability-inverse-pair can the event change what is loaded. -/
theorem order_immaterial_when_storable (cfg : Cfg) (st : St) (uo : List (Nat × List Str)) (co : List (Str × List Str))
    (db : C16.UsersDb) (hdb : st.usaved = some db) (hcu : st.cu = none)
    (hst : C16.storableUsers (envOf cfg) (C16.sortedUsers db) = true) :
    (reloadU cfg st).users = C16.sortedUsers db ∧
    (reloadU cfg (st.fileOrder uo co)).users =
      (C16.sortedUsers db).map (C16.withCaps (fun p => permCaps (C16.dictGet p.1 uo) p.2.caps)) := by
  constructor
  · unfold reloadU
    simp only [hdb]
    rw [reloadUsersFrom_users, hcu]
    rw [C16.loadUsers_dumpUsers (envOf cfg) db hst]
  · have e : (st.fileOrder uo co).usaved =
        some { db with users := db.users.map (C16.withCaps (fun p => permCaps (C16.dictGet p.1 uo) p.2.caps)) } := by
      unfold St.fileOrder
      simp only [hdb, Option.map_some]
      rfl
    unfold reloadU
    simp only [e]
    rw [reloadUsersFrom_users]
    have hcu' : (st.fileOrder uo co).cu = none := hcu
    rw [hcu']
    exact (C16.users_roundtrip_any_cap_order (envOf cfg) db _ (fun p _ => permCaps_perm _ _) hst).1

/-- the hostmask an event comes from is one line (always true of a parsed IRC message) -/
def Ev.prefixOk : Ev → Prop
  | .cmd pfx _ => C16.noBreak pfx
  | .cmdIn _ pfx _ => C16.noBreak pfx
  | .order _ _ => True
  | .expire => True
  | .restart _ _ => True

/-! ### stop and start (`Ev.restart`) -/

theorem restartPrep_inv (cfg : Cfg) {st : St} (h : Inv st) : Inv (restartPrep cfg st) :=
  ⟨h.users, fun c hc => (by cases hc), fun c hc => (by cases hc), fun c hc => (by cases hc)⟩

theorem restartPrep_inv3 (cfg : Cfg) {st : St} (h : Inv3 st) : Inv3 (restartPrep cfg st) :=
  ⟨restartPrep_inv cfg h.inv, h.ids, fileOk_of_saved rfl h.inv.users h.ids⟩

theorem restartPrep_ownInv {O : Nat → Prop} (cfg : Cfg) {st : St} (h : OwnInv O st) : OwnInv O (restartPrep cfg st) := by
  refine ⟨restartPrep_inv cfg h.inv, h.mem, ?_⟩
  intro db hdb
  have e : (restartPrep cfg st).usaved = some { users := st.users, nextId := st.nextId } := rfl
  rw [e] at hdb
  injection hdb with hdb
  subst hdb
  exact ⟨h.inv.users, Or.inl (fun id hid => h.mem id hid)⟩

theorem restartSt_eq (cfg : Cfg) (st : St) (uo : List (Nat × List Str)) (co : List (Str × List Str)) :
    restartSt cfg st uo co = (step cfg ((restartPrep cfg st).fileOrder uo co) [] .reload none).1 := rfl

theorem restartOrd_inv3 (cfg : Cfg) {st : St} (uo : List (Nat × List Str)) (co : List (Str × List Str)) (h : Inv3 st) :
    Inv3 ((restartPrep cfg st).fileOrder uo co) :=
  have h0 := restartPrep_inv3 cfg h
  ⟨fileOrder_inv uo co h0.inv, h0.ids, fileOrder_fileOk uo co h0.file⟩

theorem stepEv_ownInv {O : Nat → Prop} (cfg : Cfg) (hcfg : HashSafe cfg) (st : St) (e : Ev) (he : e.prefixOk)
    (h : OwnInv O st) : OwnInv O (stepEv cfg st e) := by
  cases e with
  | cmd pfx c => exact step_ownInv cfg hcfg st pfx he c none h
  | cmdIn ch pfx c =>
    unfold stepEv
    simp only []
    split
    · exact step_ownInv cfg hcfg st pfx he _ (some ch) h
    · exact h
  | order uo co => exact ⟨fileOrder_inv uo co h.inv, h.mem, fileOrder_fileOwn uo co h.file⟩
  | expire => exact ⟨⟨h.inv.users, h.inv.cu, h.inv.cuok, h.inv.fresh⟩, h.mem, h.file⟩
  | restart uo co =>
    show OwnInv O (restartSt cfg st uo co)
    rw [restartSt_eq]
    have h0 := restartPrep_ownInv (O := O) cfg h
    exact step_ownInv cfg hcfg _ [] C16.noBreak_nil .reload none
      ⟨fileOrder_inv uo co h0.inv, h0.mem, fileOrder_fileOwn uo co h0.file⟩

/-- **No history creates an owner — whatever order the capability sets are written in.**
`history_owner_safe` for histories in which, at any point, the environment may fix the order of
the capability sets standing in the saved users and channels files (Python set iteration order). -/
theorem history_owner_safe_ev (cfg : Cfg) (hcfg : HashSafe cfg) (hist : List Ev) (st : St) (h : Inv st)
    (hs : Saved st ∨ st.usaved = none) (hp : ∀ e ∈ hist, e.prefixOk) :
    ∀ id ∈ owners (runEv cfg st hist), id ∈ owners st := by
  have gen : ∀ (hist : List Ev) (st' : St), OwnInv (fun id => id ∈ owners st) st' →
      (∀ e ∈ hist, e.prefixOk) → OwnInv (fun id => id ∈ owners st) (runEv cfg st' hist) := by
    intro hist
    induction hist with
    | nil => intro st' h' _; exact h'
    | cons e rest ih =>
      intro st' h' hp'
      exact ih _ (stepEv_ownInv cfg hcfg st' e (hp' e (by simp)) h') (fun e he => hp' e (by simp [he]))
  refine (gen hist st ⟨h, fun id hid => hid, ?_⟩ hp).mem
  intro db hdb
  rcases hs with hs | hs
  · rw [hs] at hdb
    injection hdb with hdb
    subst hdb
    exact ⟨h.users, Or.inl (fun id hid => hid)⟩
  · rw [hs] at hdb; cases hdb

/-- the run condition of `history_safe_all`, for events -/
def GoodRunEv (cfg : Cfg) : St → List Ev → Prop
  | _, [] => True
  | st, .cmd pfx c :: rest => Quiet cfg st pfx c none ∧ GoodRunEv cfg (step cfg st pfx c none).1 rest
  | st, .cmdIn ch pfx c :: rest =>
    (match c.inChannel ch with
     | some c' => Quiet cfg st pfx c' (some ch) ∧ GoodRunEv cfg (step cfg st pfx c' (some ch)).1 rest
     | none => GoodRunEv cfg st rest)
  | st, .order uo co :: rest => GoodRunEv cfg (st.fileOrder uo co) rest
  | st, .expire :: rest => GoodRunEv cfg { st with auth := [] } rest
  | st, .restart uo co :: rest => GoodRunEv cfg (restartSt cfg st uo co) rest

/-- **`history_safe_all` with order events**: the three invariants (`Inv3`: stored fields are
line-safe, ids are distinct and below `nextId`, the saved file holds no capability that memory
has dropped) survive every event, and no account becomes an owner. -/
theorem history_safe_all_ev (cfg : Cfg) (hcfg : HashSafe cfg) (hist : List Ev) (st : St) (h : Inv3 st)
    (hp : ∀ e ∈ hist, e.prefixOk) (hg : GoodRunEv cfg st hist) :
    (∀ id ∈ owners (runEv cfg st hist), id ∈ owners st) ∧ Inv3 (runEv cfg st hist) := by
  induction hist generalizing st with
  | nil => exact ⟨fun id hid => hid, h⟩
  | cons e rest ih =>
    cases e with
    | cmd pfx c =>
      obtain ⟨hq, hg'⟩ := hg
      obtain ⟨hown, h'⟩ := step_safe_all cfg hcfg st pfx (hp (.cmd pfx c) (by simp)) c none h hq
      obtain ⟨h1, h2⟩ := ih (step cfg st pfx c none).1 h' (fun e he => hp e (by simp [he])) hg'
      exact ⟨fun id hid => hown id (h1 id hid), h2⟩
    | cmdIn ch pfx c =>
      have hpfx : C16.noBreak pfx := hp (.cmdIn ch pfx c) (by simp)
      cases hc : c.inChannel ch with
      | none =>
        have e1 : stepEv cfg st (.cmdIn ch pfx c) = st := by unfold stepEv; simp only [hc]
        have hg' : GoodRunEv cfg st rest := by
          unfold GoodRunEv at hg; simp only [hc] at hg; exact hg
        have := ih st h (fun e he => hp e (by simp [he])) hg'
        unfold runEv
        rw [e1]
        exact this
      | some c' =>
        have e1 : stepEv cfg st (.cmdIn ch pfx c) = (step cfg st pfx c' (some ch)).1 := by unfold stepEv; simp only [hc]
        have hg2 : Quiet cfg st pfx c' (some ch) ∧ GoodRunEv cfg (step cfg st pfx c' (some ch)).1 rest := by
          unfold GoodRunEv at hg; simp only [hc] at hg; exact hg
        obtain ⟨hown, h'⟩ := step_safe_all cfg hcfg st pfx hpfx c' (some ch) h hg2.1
        obtain ⟨h1, h2⟩ := ih (step cfg st pfx c' (some ch)).1 h' (fun e he => hp e (by simp [he])) hg2.2
        unfold runEv
        rw [e1]
        exact ⟨fun id hid => hown id (h1 id hid), h2⟩
    | order uo co =>
      have h' : Inv3 (st.fileOrder uo co) := ⟨fileOrder_inv uo co h.inv, h.ids, fileOrder_fileOk uo co h.file⟩
      obtain ⟨h1, h2⟩ := ih (st.fileOrder uo co) h' (fun e he => hp e (by simp [he])) hg
      exact ⟨fun id hid => h1 id hid, h2⟩
    | expire =>
      have h' : Inv3 ({ st with auth := [] } : St) :=
        ⟨⟨h.inv.users, h.inv.cu, h.inv.cuok, h.inv.fresh⟩, h.ids, h.file⟩
      obtain ⟨h1, h2⟩ := ih _ h' (fun e he => hp e (by simp [he])) hg
      exact ⟨fun id hid => h1 id hid, h2⟩
    | restart uo co =>
      have hq : Quiet cfg ((restartPrep cfg st).fileOrder uo co) [] .reload none := fun hcc => absurd hcc (by decide)
      obtain ⟨hown, h'⟩ := step_safe_all cfg hcfg ((restartPrep cfg st).fileOrder uo co) [] C16.noBreak_nil .reload none
        (restartOrd_inv3 cfg uo co h) hq
      rw [← restartSt_eq] at hown h'
      obtain ⟨h1, h2⟩ := ih (restartSt cfg st uo co) h' (fun e he => hp e (by simp [he])) hg
      exact ⟨fun id hid => hown id (h1 id hid), h2⟩

/-! ## the channels file and the channels in memory (`ChanAgree`, C02/Chan.lean) -/

theorem step_chanAgree (cfg : Cfg) (st : St) (pfx : Str) (c : Cmd) (ch : Option Str)
    (hc : c ≠ .flushReload) (hr : c ≠ .reload) (h : ChanAgree st) : ChanAgree (step cfg st pfx c ch).1 := by
  have hb : ChanAgree (body cfg st pfx c).1 := chanAgree_of_shape (body_chanShape cfg st pfx c hc hr) h
  unfold step
  cases c with
  | flushReload => exact absurd rfl hc
  | reload => exact absurd rfl hr
  | flushAll => exact hb
  | upkeep on => exact hb
  | _ =>
    simp only []
    split
    · exact h
    · split
      · exact hb
      · exact h

theorem reloadUsersFrom_chans (cfg : Cfg) (st : St) (db : C16.UsersDb) :
    (reloadUsersFrom cfg st db).channels = st.channels ∧ (reloadUsersFrom cfg st db).csaved = st.csaved ∧
    (reloadUsersFrom cfg st db).cname = st.cname := by
  unfold reloadUsersFrom; simp only []; split <;> exact ⟨rfl, rfl, rfl⟩

theorem reloadU_chans (cfg : Cfg) (st : St) :
    (reloadU cfg st).channels = st.channels ∧ (reloadU cfg st).csaved = st.csaved ∧ (reloadU cfg st).cname = st.cname := by
  unfold reloadU
  split
  · exact reloadUsersFrom_chans cfg st _
  · exact ⟨rfl, rfl, rfl⟩

theorem reloadI_chans (st : St) :
    (reloadI st).channels = st.channels ∧ (reloadI st).csaved = st.csaved ∧ (reloadI st).cname = st.cname := by
  unfold reloadI; split <;> exact ⟨rfl, rfl, rfl⟩

/-- a channels load that completes ends with a flush: file and memory agree -/
theorem reloadChannelsFrom_agree (cfg : Cfg) (st : St) (chans : C16.ChannelsDb)
    (hok : (C16.loadChannels (envOf cfg) st.cname (C16.dumpChannels chans)).2 = none) :
    ChanAgree (reloadChannelsFrom cfg st chans) := by
  apply chanAgree_of_saved
  unfold reloadChannelsFrom
  simp only [hok, Option.isNone_none, if_true]
  rfl

/-- the channel loads of a step complete -/
def ChanLoadsOk (cfg : Cfg) (st : St) : Cmd → Prop
  | .flushReload => (C16.loadChannels (envOf cfg) st.cname (C16.dumpChannels st.channels)).2 = none
  | .reload => ∀ t, st.csaved = some t → (C16.loadChannels (envOf cfg) st.cname (C16.dumpChannels t)).2 = none
  | _ => True

/-- **every step keeps the channels file and memory in agreement** — commands because they save
what they change (`body_chanShape`), reloads because a load that completes ends with a flush -/
theorem step_chanAgree_all (cfg : Cfg) (st : St) (pfx : Str) (c : Cmd) (ch : Option Str)
    (h : ChanAgree st) (hl : ChanLoadsOk cfg st c) : ChanAgree (step cfg st pfx c ch).1 := by
  by_cases hc : c = .flushReload
  · subst hc
    obtain ⟨e1, _, e3⟩ := reloadUsersFrom_chans cfg st { users := st.users, nextId := st.nextId }
    have hok : (C16.loadChannels (envOf cfg) (reloadUsersFrom cfg st { users := st.users, nextId := st.nextId }).cname
        (C16.dumpChannels (reloadUsersFrom cfg st { users := st.users, nextId := st.nextId }).channels)).2 = none := by
      rw [e1, e3]; exact hl
    have hst := reloadChannelsFrom_agree cfg _ _ hok
    have e : (step cfg st pfx .flushReload ch).1 = flushReloadSt cfg st := rfl
    rw [e]
    unfold flushReloadSt
    simp only []
    intro saved hsv n
    exact hst saved hsv n
  by_cases hr : c = .reload
  · subst hr
    obtain ⟨_, u2, u3⟩ := reloadU_chans cfg st
    obtain ⟨_, i2, i3⟩ := reloadI_chans (reloadU cfg st)
    show ChanAgree (reloadSt cfg st)
    unfold reloadSt reloadC
    split
    · rename_i t ht
      rw [i2, u2] at ht
      refine reloadChannelsFrom_agree cfg _ t ?_
      rw [i3, u3]
      exact hl t ht
    · rename_i hnone
      intro saved hsv
      simp only [] at hsv
      rw [hnone] at hsv
      cases hsv
  · exact step_chanAgree cfg st pfx c ch hc hr h

theorem chanOf_map_caps (l : C16.ChannelsDb) (g : Str × C16.Chan → List Str) (n : Str)
    (hg : ∀ p, ∀ x, x ∈ g p ↔ x ∈ p.2.caps) :
    ChanEquiv (chanOf (l.map (fun p => (p.1, { p.2 with caps := g p }))) n) (chanOf l n) := by
  unfold chanOf
  induction l with
  | nil => exact chanEquiv_refl _
  | cons p rest ih =>
    simp only [List.map_cons, List.find?_cons]
    by_cases hp : C03.toLower p.1 = C03.toLower (asciiLower n)
    · simp only [hp, decide_true]
      exact ⟨rfl, rfl, rfl, rfl, hg p⟩
    · simp only [hp, decide_false]
      exact ih

theorem fileOrder_chanAgree {st : St} (uo : List (Nat × List Str)) (co : List (Str × List Str)) (h : ChanAgree st) :
    ChanAgree (st.fileOrder uo co) := by
  intro saved hsv n
  unfold St.fileOrder at hsv
  simp only [] at hsv
  cases hs : st.csaved with
  | none => rw [hs] at hsv; cases hsv
  | some l =>
    rw [hs] at hsv
    simp only [Option.map_some] at hsv
    injection hsv with hsv
    rw [← hsv]
    exact chanEquiv_trans (chanOf_map_caps l _ n (fun p x => mem_permCaps)) (h l hs n)

/-- along the history every channels load completes -/
def ChanLoadsOkEv (cfg : Cfg) : St → List Ev → Prop
  | _, [] => True
  | st, .cmd pfx c :: rest => ChanLoadsOk cfg st c ∧ ChanLoadsOkEv cfg (step cfg st pfx c none).1 rest
  | st, .cmdIn ch pfx c :: rest =>
    (match c.inChannel ch with
     | some c' => ChanLoadsOk cfg st c' ∧ ChanLoadsOkEv cfg (step cfg st pfx c' (some ch)).1 rest
     | none => ChanLoadsOkEv cfg st rest)
  | st, .order uo co :: rest => ChanLoadsOkEv cfg (st.fileOrder uo co) rest
  | st, .expire :: rest => ChanLoadsOkEv cfg { st with auth := [] } rest
  | st, .restart uo co :: rest =>
    ChanLoadsOk cfg ((restartPrep cfg st).fileOrder uo co) .reload ∧ ChanLoadsOkEv cfg (restartSt cfg st uo co) rest

/-- **The channels file never differs from the channels in memory** (as answers to
`getChannel`, capability sets compared as sets): along any history of messages, flushes, reloads
of both kinds and set-order events in which the channel loads complete.  In particular a reload
that reads the files as they are changes no channel setting — no command leaves a channel
changed in memory only (it did before repair 92c8e54). -/
theorem history_chanAgree_ev (cfg : Cfg) (hist : List Ev) (st : St) (h : ChanAgree st)
    (hl : ChanLoadsOkEv cfg st hist) : ChanAgree (runEv cfg st hist) := by
  induction hist generalizing st with
  | nil => exact h
  | cons e rest ih =>
    cases e with
    | cmd pfx c =>
      exact ih _ (step_chanAgree_all cfg st pfx c none h hl.1) hl.2
    | cmdIn ch pfx c =>
      cases hc : c.inChannel ch with
      | none =>
        have e1 : stepEv cfg st (.cmdIn ch pfx c) = st := by unfold stepEv; simp only [hc]
        have hl' : ChanLoadsOkEv cfg st rest := by unfold ChanLoadsOkEv at hl; simp only [hc] at hl; exact hl
        unfold runEv
        rw [e1]
        exact ih st h hl'
      | some c' =>
        have e1 : stepEv cfg st (.cmdIn ch pfx c) = (step cfg st pfx c' (some ch)).1 := by unfold stepEv; simp only [hc]
        have hl' : ChanLoadsOk cfg st c' ∧ ChanLoadsOkEv cfg (step cfg st pfx c' (some ch)).1 rest := by
          unfold ChanLoadsOkEv at hl; simp only [hc] at hl; exact hl
        unfold runEv
        rw [e1]
        exact ih _ (step_chanAgree_all cfg st pfx c' (some ch) h hl'.1) hl'.2
    | order uo co =>
      exact ih _ (fileOrder_chanAgree uo co h) hl
    | expire =>
      exact ih _ (fun saved hsv n => h saved hsv n) hl
    | restart uo co =>
      have h0 : ChanAgree (restartPrep cfg st) := chanAgree_of_saved rfl
      have := step_chanAgree_all cfg ((restartPrep cfg st).fileOrder uo co) [] .reload none
        (fileOrder_chanAgree uo co h0) hl.1
      rw [← restartSt_eq] at this
      exact ih _ this hl.2

/-! ## the statement of the property over whole histories -/

/-- somewhere along the history, an entitled sender granted `x` to account `id` -/
def GrantedIn (cfg : Cfg) : St → List Ev → Nat → Str → Prop
  | _, [], _, _ => False
  | st, .cmd pfx c :: rest, id, x =>
    Entitled cfg st pfx c none id x ∨ GrantedIn cfg (step cfg st pfx c none).1 rest id x
  | st, .cmdIn ch pfx c :: rest, id, x =>
    (match c.inChannel ch with
     | some c' => Entitled cfg st pfx c' (some ch) id x ∨ GrantedIn cfg (step cfg st pfx c' (some ch)).1 rest id x
     | none => GrantedIn cfg st rest id x)
  | st, .order uo co :: rest, id, x => GrantedIn cfg (st.fileOrder uo co) rest id x
  | st, .expire :: rest, id, x => GrantedIn cfg { st with auth := [] } rest id x
  | st, .restart uo co :: rest, id, x => GrantedIn cfg (restartSt cfg st uo co) rest id x

/-- one command step: capabilities are old or granted by an entitled sender (reloads: old) -/
theorem step_caps_all (cfg : Cfg) (st : St) (pfx : Str) (c : Cmd) (ch : Option Str) (h : Inv3 st) :
    ∀ p ∈ (step cfg st pfx c ch).1.users, ∀ x ∈ p.2.caps,
      (∃ u, (p.1, u) ∈ st.users ∧ x ∈ u.caps) ∨ Entitled cfg st pfx c ch p.1 x := by
  by_cases hc : c = .flushReload
  · subst hc
    intro p hp x hx
    exact Or.inl (reload_caps_sub cfg st h.inv p hp x hx)
  by_cases hr : c = .reload
  · subst hr
    intro p hp x hx
    exact Or.inl (reloadNoFlush_caps_sub cfg st h.inv h.file p hp x hx)
  · exact cap_growth_gated cfg st pfx c ch hc hr

/-- **The property, over whole histories.**  Along any finite history of messages (private or in
a channel, from any hostmasks, any argument strings), flush+reload points, reloads that read the
files as they are, `world.flush`, upkeep and set-order events — satisfying the run condition
`GoodRunEv` — every capability an account holds at the end it held at the beginning, or at some
point of the history it was granted to that account by a capability-add command whose guard held
for the sender and which passed the command gate. -/
theorem history_caps_entitled (cfg : Cfg) (hcfg : HashSafe cfg) (hist : List Ev) (st : St) (h : Inv3 st)
    (hp : ∀ e ∈ hist, e.prefixOk) (hg : GoodRunEv cfg st hist) :
    ∀ p ∈ (runEv cfg st hist).users, ∀ x ∈ p.2.caps,
      (∃ u, (p.1, u) ∈ st.users ∧ x ∈ u.caps) ∨ GrantedIn cfg st hist p.1 x := by
  induction hist generalizing st with
  | nil => intro p hp' x hx; exact Or.inl ⟨p.2, hp', hx⟩
  | cons e rest ih =>
    cases e with
    | cmd pfx c =>
      obtain ⟨hq, hg'⟩ := hg
      obtain ⟨_, h'⟩ := step_safe_all cfg hcfg st pfx (hp (.cmd pfx c) (by simp)) c none h hq
      intro p hp' x hx
      rcases ih (step cfg st pfx c none).1 h' (fun e he => hp e (by simp [he])) hg' p hp' x hx with ⟨u, hu, hxu⟩ | hgr
      · rcases step_caps_all cfg st pfx c none h (p.1, u) hu x hxu with h1 | h1
        · exact Or.inl h1
        · exact Or.inr (Or.inl h1)
      · exact Or.inr (Or.inr hgr)
    | cmdIn ch pfx c =>
      have hpfx : C16.noBreak pfx := hp (.cmdIn ch pfx c) (by simp)
      cases hc : c.inChannel ch with
      | none =>
        have e1 : stepEv cfg st (.cmdIn ch pfx c) = st := by unfold stepEv; simp only [hc]
        have hg' : GoodRunEv cfg st rest := by
          unfold GoodRunEv at hg; simp only [hc] at hg; exact hg
        intro p hp' x hx
        unfold runEv at hp'
        rw [e1] at hp'
        rcases ih st h (fun e he => hp e (by simp [he])) hg' p hp' x hx with h1 | h1
        · exact Or.inl h1
        · right; unfold GrantedIn; simp only [hc]; exact h1
      | some c' =>
        have e1 : stepEv cfg st (.cmdIn ch pfx c) = (step cfg st pfx c' (some ch)).1 := by unfold stepEv; simp only [hc]
        have hg2 : Quiet cfg st pfx c' (some ch) ∧ GoodRunEv cfg (step cfg st pfx c' (some ch)).1 rest := by
          unfold GoodRunEv at hg; simp only [hc] at hg; exact hg
        obtain ⟨_, h'⟩ := step_safe_all cfg hcfg st pfx hpfx c' (some ch) h hg2.1
        intro p hp' x hx
        unfold runEv at hp'
        rw [e1] at hp'
        rcases ih _ h' (fun e he => hp e (by simp [he])) hg2.2 p hp' x hx with ⟨u, hu, hxu⟩ | hgr
        · rcases step_caps_all cfg st pfx c' (some ch) h (p.1, u) hu x hxu with h1 | h1
          · exact Or.inl h1
          · right; unfold GrantedIn; simp only [hc]; exact Or.inl h1
        · right; unfold GrantedIn; simp only [hc]; exact Or.inr hgr
    | order uo co =>
      have h' : Inv3 (st.fileOrder uo co) := ⟨fileOrder_inv uo co h.inv, h.ids, fileOrder_fileOk uo co h.file⟩
      intro p hp' x hx
      rcases ih (st.fileOrder uo co) h' (fun e he => hp e (by simp [he])) hg p hp' x hx with h1 | h1
      · exact Or.inl h1
      · exact Or.inr h1
    | expire =>
      have h' : Inv3 ({ st with auth := [] } : St) :=
        ⟨⟨h.inv.users, h.inv.cu, h.inv.cuok, h.inv.fresh⟩, h.ids, h.file⟩
      intro p hp' x hx
      rcases ih _ h' (fun e he => hp e (by simp [he])) hg p hp' x hx with h1 | h1
      · exact Or.inl h1
      · exact Or.inr h1
    | restart uo co =>
      have h0 := restartOrd_inv3 cfg uo co h
      have hq : Quiet cfg ((restartPrep cfg st).fileOrder uo co) [] .reload none := fun hcc => absurd hcc (by decide)
      obtain ⟨_, h'⟩ := step_safe_all cfg hcfg ((restartPrep cfg st).fileOrder uo co) [] C16.noBreak_nil .reload none h0 hq
      rw [← restartSt_eq] at h'
      intro p hp' x hx
      rcases ih (restartSt cfg st uo co) h' (fun e he => hp e (by simp [he])) hg p hp' x hx with ⟨u, hu, hxu⟩ | h1
      · exact Or.inl (reloadNoFlush_caps_sub cfg ((restartPrep cfg st).fileOrder uo co) h0.inv h0.file (p.1, u) hu x hxu)
      · exact Or.inr h1

/-! ## non-vacuity and the two repaired defects -/

/-- a line-safe stand-in for the salted hash (only used by the examples below) -/
def hexHash (p : Str) : Str := 'h' :: p.filter (fun c => !C16.isBreak c)
def pcfg0 : Cfg := { hash := hexHash, lower := asciiLower }

theorem cfg0_hashSafe : HashSafe pcfg0 := by
  intro p c hc
  simp only [pcfg0, hexHash, List.mem_cons, List.mem_filter, Bool.not_eq_true'] at hc
  rcases hc with rfl | ⟨_, hx⟩
  · decide
  · exact hx

def st0 : St :=
  { users := [(1, { name := s "root", hashed := true, password := hexHash (s "r"), caps := [s "owner"],
                    hostmasks := [s "root!r@owner.host"] }),
              (2, { name := s " bob\tx", hashed := true, password := hexHash (s "p"), caps := [s "admin"],
                    hostmasks := [s "adm!a@admin.host", s "x!y@z\n"] }),
              (3, { name := s "eve", hashed := true, password := hexHash (s "p"), hostmasks := [s "eve!e@evil.host"] })],
    nextId := 3,
    defaults := [s "-owner", s "-admin", s "-trusted"] }

/-- the invariant is satisfiable by a state with a leading blank and a TAB in a name and a hostmask
ending in LF (all accepted by the real commands) -/
theorem st0_inv : Inv st0 := by
  refine ⟨?_, fun c hc => (by simp [st0] at hc), fun c hc => (by simp [st0] at hc), fun c hc => (by simp [st0] at hc)⟩
  intro p hp
  simp only [st0, List.mem_cons, List.not_mem_nil, or_false] at hp
  rcases hp with rfl | rfl | rfl <;>
    exact ⟨by decide, by decide, by decide, by decide, by decide, by decide⟩

/-- an admin may hand out what they hold (an instance of the `Granted` clause) … -/
example : (step pcfg0 st0 (s "adm!a@admin.host") (.capAdd (s "eve") (s "Admin")) none).1.users.map (fun p => (p.1, p.2.caps)) =
    [(1, [s "owner"]), (2, [s "admin"]), (3, [s "admin"])] := by decide

/-- … but neither `owner` in any spelling, nor (since the `isCapability` repair) `owner` with blanks
around it — `admin capability add eve " owner"` used to store a string that reloads as `owner` -/
example : (run pcfg0 st0 [(s "adm!a@admin.host", .capAdd (s "eve") (s "OWNER")),
                         (s "adm!a@admin.host", .capAdd (s "eve") (s " owner")),
                         (s "adm!a@admin.host", .capAdd (s "eve") (s "owner\n")),
                         (s "x", .flushReload)]).users.map (fun p => (p.1, p.2.caps)) =
    [(1, [s "owner"]), (2, [s "admin"]), (3, [])] := by decide

/-- the other repaired defect: a name carrying a line break is refused by `register` (it used to be
written to users.conf and read back as a capability line) -/
example : (run pcfg0 st0 [(s "mal!m@mal.host", .register (s "x\n  capability owner") (s "pw")),
                         (s "x", .flushReload)]).users.map (fun p => p.1) = [1, 2, 3] := by decide

/-- the state `st0` once saved: the three invariants hold -/
theorem st0_inv3 : Inv3 (flushU st0) := by
  have hi : IdsOk (flushU st0) := ⟨by decide, by decide⟩
  exact ⟨⟨st0_inv.users, st0_inv.cu, st0_inv.cuok, st0_inv.fresh⟩, hi, fileOk_of_saved rfl st0_inv.users hi⟩

/-- a revocation followed by SIGHUP: acknowledged, hence saved, hence it stays revoked
(this is the history the seeded change C02-m4 breaks on the real code) -/
example : (run pcfg0 (flushU st0) [(s "adm!a@admin.host", .capAdd (s "eve") (s "foo")),
                                  (s "adm!a@admin.host", .capRemove (s "eve") (s "foo")),
                                  (s "x", .reload)]).users.map (fun p => (p.1, p.2.caps)) =
    [(1, [s "owner"]), (2, [s "admin"]), (3, [])] := by decide

/-- the hypothesis on capability-changing commands is needed *in the model*: when `setUser` refuses
the account (here its hostmask is also somebody else's login) the capability is gone from memory
but not from the file, and the next SIGHUP brings it back.  On the real code this state does not
last: the first lookup of that hostmask deletes it from the account (C04), which the harness
observes; no history of real commands reproducing the resurrection was found. -/
example :
    let st : St := flushU { st0 with
      users := st0.users.map (fun p => if p.1 = 3 then (3, { p.2 with caps := [s "foo"] }) else p),
      auth := [(2, [s "eve!e@evil.host"])] }
    (step pcfg0 st (s "adm!a@admin.host") (.capRemove (s "eve") (s "foo")) none).2 = false ∧
    ((run pcfg0 st [(s "adm!a@admin.host", .capRemove (s "eve") (s "foo"))]).users.map (fun p => (p.1, p.2.caps)) =
      [(1, [s "owner"]), (2, [s "admin"]), (3, [])]) ∧
    ((run pcfg0 st [(s "adm!a@admin.host", .capRemove (s "eve") (s "foo")), (s "x", .reload)]).users.map
        (fun p => (p.1, p.2.caps)) = [(1, [s "owner"]), (2, [s "admin"]), (3, [s "foo"])]) := by decide

/-- `history_owner_safe` at the example state: whatever history follows, `root` (id 1) stays the
only owner -/
example (hist : List (Str × Cmd)) (hp : ∀ e ∈ hist, C16.noBreak e.1) :
    ∀ id ∈ owners (run pcfg0 (flushU st0) hist), id = 1 := by
  intro id hid
  have := history_owner_safe pcfg0 cfg0_hashSafe hist (flushU st0) st0_inv3.inv (Or.inl rfl) hp id hid
  have e : owners (flushU st0) = [1] := by decide
  rw [e] at this
  simpa using this

/-- order events are not idle: `eve` is given `--foo`, then `-foo` (both stay: the inverse of `-foo`
is `foo`), everything is saved; read back in the order `--foo, -foo` both survive, in the order
`-foo, --foo` the second line discards the first (finding C16-capability-inverse-pair) -/
example :
    let hist : List Ev := [.cmd (s "adm!a@admin.host") (.capAdd (s "eve") (s "--foo")),
                           .cmd (s "adm!a@admin.host") (.capAdd (s "eve") (s "-foo"))]
    ((runEv pcfg0 (flushU st0) (hist ++ [.cmd (s "x") .reload])).users.map (fun p => (p.1, p.2.caps)) =
      [(1, [s "owner"]), (2, [s "admin"]), (3, [s "--foo", s "-foo"])]) ∧
    ((runEv pcfg0 (flushU st0) (hist ++ [.order [(3, [s "-foo", s "--foo"])] [], .cmd (s "x") .reload])).users.map
        (fun p => (p.1, p.2.caps)) = [(1, [s "owner"]), (2, [s "admin"]), (3, [s "--foo"])]) ∧
    -- an order that is not a permutation of the saved set is ignored (and reported by `fileOrderOk`)
    ((runEv pcfg0 (flushU st0) hist).fileOrderOk [(3, [s "-foo", s "owner"])] [] = false) := by decide

/-- `Entitled` is satisfiable: the admin `adm` may hand `admin` (which they hold) to `eve` … -/
example : Entitled pcfg0 st0 (s "adm!a@admin.host") (.capAdd (s "eve") (s "Admin")) none 3 (s "admin") :=
  ⟨Or.inl ⟨s "eve", s "Admin", rfl, by decide, by decide, by decide, Or.inr (by decide)⟩, by decide, by decide⟩

/-- … while the same request from `eve` herself (to whom the default `-admin` applies) does not
pass the gate, in private or in a channel -/
example : allowed st0 (s "eve!e@evil.host") (.capAdd (s "eve") (s "Admin")) none = false ∧
          allowed st0 (s "eve!e@evil.host") (.capAdd (s "eve") (s "Admin")) (some (s "#chan")) = false ∧
          allowed st0 (s "adm!a@admin.host") (.capAdd (s "eve") (s "Admin")) (some (s "#chan")) = true := by decide

/-- `history_chanAgree_ev` at the example state, and its hypothesis is satisfiable -/
example (hist : List Ev) (hl : ChanLoadsOkEv pcfg0 (flushC st0) hist) : ChanAgree (runEv pcfg0 (flushC st0) hist) :=
  history_chanAgree_ev pcfg0 hist _ (chanAgree_of_saved rfl) hl

example : ChanLoadsOkEv pcfg0 (flushC st0) [.cmd (s "x") .reload, .cmd (s "x") .flushReload] := by
  refine ⟨?_, ?_, trivial⟩
  · intro t ht
    have : t = [] := by
      have h : (flushC st0).csaved = some [] := rfl
      rw [h] at ht
      injection ht with ht
      exact ht.symm
    subst this
    decide
  · show (C16.loadChannels _ _ _).2 = none
    decide

/-- `UserCapabilitySet.add` never lets `-owner` into a set, in whatever spelling it is asked for
(the request is lower-cased before it is compared: `admin capability add eve -OWNER`) -/
theorem uadd_keeps_antiOwner_out {caps caps' : List Str} {c : Str} (h : C03.uadd caps c = .ok caps')
    (hx : C03.antiOwnerS ∈ caps') : C03.antiOwnerS ∈ caps := by
  rcases mem_uadd h hx with h1 | h1
  · exact h1
  · exfalso
    unfold C03.uadd at h
    simp only [← h1, beq_self_eq_true, if_true] at h
    cases h

example : (step pcfg0 st0 (s "adm!a@admin.host") (.capAdd (s "eve") (s "-OWNER")) none).2 = false ∧
          (step pcfg0 st0 (s "adm!a@admin.host") (.capAdd (s "eve") (s "-OWNER")) none).1.users = st0.users := by decide
/-- a refused `hostmask add` leaves nothing behind: `eve` takes `ann*!*@*`; the admin's account then
asks for `*bea!*@*`, which has hostmasks in common with it without matching it as a string —
`setUser` refuses (hostmaskPatternsIntersect) and the account keeps exactly the hostmasks it had -/
example :
    let st1 := (step pcfg0 st0 (s "eve!e@evil.host") (.hostmaskAdd (s "eve") (s "ann*!*@*") (s "p")) none)
    let st2 := (step pcfg0 st1.1 (s "adm!a@admin.host") (.hostmaskAdd (s " bob\tx") (s "*bea!*@*") (s "p")) none)
    st1.2 = true ∧ st2.2 = false ∧ st2.1.users = st1.1.users := by decide
end C02
