/-
C02 — property theorems: nobody becomes owner (or gains a capability they are not entitled to)
through the bot's commands.
-/
import LimnoriaModel.C02.Lemmas
import LimnoriaModel.Gen.CapSites
namespace C02
open Py

/-- **Inventory obligation.**  These are all the places in src/ and plugins/ where a capability set
is changed (regenerated from the source on every run).  A user's set is changed only by
`Admin.capability.add/remove`, `Channel.capability.add/remove` (`Cmd.capAdd/capRemove/chanCapAdd/
chanCapRemove`) and by the reader `IrcUserCreator.capability` (`Cmd.flushReload`); channel sets by
`Channel.capability.set/unset` (`Cmd.chanCapSet/chanCapUnset`), by `Channel.enable/disable`
(op-gated; they add/remove `-plugin.command` entries of the *channel* set and are not part of
`Cmd`) and by the reader; the default set by `Owner.defaultcapability` (`Cmd.defaultCap…`) and the
registry (`Cmd.configCaps`).  A new site makes this fail. -/
theorem capSites_table : Gen.CapSites.sites =
    ["plugins/Admin/plugin.py:Admin.capability.add:addCapability",
     "plugins/Admin/plugin.py:Admin.capability.remove:removeCapability",
     "plugins/Channel/plugin.py:Channel.capability.add:addCapability",
     "plugins/Channel/plugin.py:Channel.capability.remove:removeCapability",
     "plugins/Channel/plugin.py:Channel.capability.set:addCapability",
     "plugins/Channel/plugin.py:Channel.capability.unset:removeCapability",
     "plugins/Channel/plugin.py:Channel.disable:addCapability",
     "plugins/Channel/plugin.py:Channel.enable:removeCapability",
     "plugins/Owner/plugin.py:Owner.defaultcapability:add",
     "plugins/Owner/plugin.py:Owner.defaultcapability:remove",
     "src/ircdb.py:IrcChannel.__init__:add",
     "src/ircdb.py:IrcChannel.addCapability:add",
     "src/ircdb.py:IrcChannel.removeCapability:remove",
     "src/ircdb.py:IrcChannelCreator.capability:add",
     "src/ircdb.py:IrcUser.__init__:add",
     "src/ircdb.py:IrcUser.addCapability:add",
     "src/ircdb.py:IrcUser.removeCapability:remove",
     "src/ircdb.py:IrcUserCreator.capability:add"] := by decide

/-- **How capability lists can grow.**  After any command (not a reload) sent from any hostmask,
with any argument strings, every capability `x` found on an account was already on that account,
or the command was `admin capability add` / `channel capability add` for that account, `x` is the
(lower-cased) requested capability, and the guard of the command held for the caller in the state
before: for the admin form the capability is not `owner` (in any case spelling) and the caller
holds it or it is an anti-capability; for the channel form the caller holds `#channel,op`. -/
theorem cap_growth_entitled (cfg : Cfg) (st : St) (pfx : Str) (c : Cmd) (hc : c ≠ .flushReload) (hr : c ≠ .reload) :
    ∀ p ∈ (step cfg st pfx c).1.users, ∀ x ∈ p.2.caps,
      (∃ u, (p.1, u) ∈ st.users ∧ x ∈ u.caps) ∨ Granted cfg st pfx c p.1 x := by
  unfold step
  cases c with
  | flushReload => exact absurd rfl hc
  | reload => exact absurd rfl hr
  | _ =>
    simp only []
    split
    · intro p hp x hx; exact Or.inl ⟨p.2, hp, hx⟩
    · split
      · exact body_caps cfg st pfx _ hc hr
      · intro p hp x hx; exact Or.inl ⟨p.2, hp, hx⟩

theorem ownerS_lower : C03.toLower C03.ownerS = C03.ownerS := by decide

/-- `owner` itself can never be granted -/
theorem not_granted_owner (cfg : Cfg) (st : St) (pfx : Str) (c : Cmd) (id : Nat) :
    ¬ Granted cfg st pfx c id C03.ownerS := by
  rintro (⟨name, cap0, _, _, hx, hne, _⟩ | ⟨chan, name, cap, c1, _, _, _, _, hx⟩)
  · -- admin form: the request is compared with 'owner' case-insensitively
    have : C03.strEqual (C03.toLower cap0) C03.ownerS = true := by
      unfold C03.strEqual
      rw [C03.toLower_idem, ← hx, ownerS_lower]
      simp
    rw [this] at hne
    cases hne
  · -- channel form: the granted string contains a comma
    have h1 : (C03.toLower (chan ++ ',' :: c1)).contains ',' = true := by
      rw [C03.contains_toLower C03.mem_special_comma]
      simp
    rw [← hx] at h1
    revert h1
    decide

theorem mem_owners {st : St} {id : Nat} : id ∈ owners st ↔ ∃ u, (id, u) ∈ st.users ∧ C03.ownerS ∈ u.caps := by
  unfold owners
  simp only [List.mem_map, List.mem_filter, List.contains_eq_mem, decide_eq_true_eq]
  constructor
  · rintro ⟨p, ⟨hp, ho⟩, rfl⟩
    exact ⟨p.2, hp, ho⟩
  · rintro ⟨u, hu, ho⟩
    exact ⟨(id, u), ⟨hu, ho⟩, rfl⟩

/-- **No new owner through a command** — whoever sends it (the statement does not even need
"the actor is not an owner": the commands simply cannot add the capability). -/
theorem no_new_owner_step (cfg : Cfg) (st : St) (pfx : Str) (c : Cmd) (hc : c ≠ .flushReload) (hr : c ≠ .reload) :
    ∀ id ∈ owners (step cfg st pfx c).1, id ∈ owners st := by
  intro id hid
  obtain ⟨u', hu', ho⟩ := mem_owners.mp hid
  rcases cap_growth_entitled cfg st pfx c hc hr (id, u') hu' C03.ownerS ho with ⟨u, hu, hx⟩ | hg
  · exact mem_owners.mpr ⟨u, hu, hx⟩
  · exact absurd hg (not_granted_owner cfg st pfx c id)

/-! ## flush + reload -/

theorem reloadUsersFrom_users (cfg : Cfg) (st : St) (t : Str) :
    (reloadUsersFrom cfg st t).users = (C16.loadUsers (envOf cfg) st.cu t).1.db.users := by
  unfold reloadUsersFrom; simp only []; split <;> rfl

theorem reloadUsersFrom_cu (cfg : Cfg) (st : St) (t : Str) :
    (reloadUsersFrom cfg st t).cu = (C16.loadUsers (envOf cfg) st.cu t).1.cu := by
  unfold reloadUsersFrom; simp only []; split <;> rfl

theorem reloadChannelsFrom_users (cfg : Cfg) (st : St) (t : Str) :
    (reloadChannelsFrom cfg st t).users = st.users ∧ (reloadChannelsFrom cfg st t).cu = st.cu := by
  unfold reloadChannelsFrom; simp only []; split <;> exact ⟨rfl, rfl⟩

theorem flushReloadSt_users (cfg : Cfg) (st : St) :
    (flushReloadSt cfg st).users =
      (C16.loadUsers (envOf cfg) st.cu (C16.dumpUsers { users := st.users, nextId := st.nextId })).1.db.users ∧
    (flushReloadSt cfg st).cu =
      (C16.loadUsers (envOf cfg) st.cu (C16.dumpUsers { users := st.users, nextId := st.nextId })).1.cu := by
  unfold flushReloadSt
  simp only []
  exact ⟨(reloadChannelsFrom_users cfg _ _).1.trans (reloadUsersFrom_users cfg st _),
         (reloadChannelsFrom_users cfg _ _).2.trans (reloadUsersFrom_cu cfg st _)⟩

/-- **Reload never adds a capability**: in a state satisfying `Inv`, after `flush()` + `reload()`
every capability of every account was a capability of the same account before — whatever blanks,
TABs or keywords the stored names/passwords/hostmasks contain, and even when the load stops
part-way or starts from a half-built record left by an earlier failed load. -/
theorem reload_caps_sub (cfg : Cfg) (st : St) (h : Inv st) :
    ∀ p ∈ (flushReloadSt cfg st).users, ∀ x ∈ p.2.caps, ∃ u, (p.1, u) ∈ st.users ∧ x ∈ u.caps := by
  have := C16.load_caps_sub (envOf cfg) st.cu { users := st.users, nextId := st.nextId } h.cuok h.users
  rw [(flushReloadSt_users cfg st).1]
  exact this

/-- **No new owner at reload.** -/
theorem no_new_owner_reload (cfg : Cfg) (st : St) (h : Inv st) :
    ∀ id ∈ owners (flushReloadSt cfg st), id ∈ owners st := by
  intro id hid
  obtain ⟨u', hu', ho⟩ := mem_owners.mp hid
  obtain ⟨u, hu, hx⟩ := reload_caps_sub cfg st h (id, u') hu' C03.ownerS ho
  exact mem_owners.mpr ⟨u, hu, hx⟩

/-- the invariant is re-established by the reload itself (whatever was read) -/
theorem reload_preserves_inv (cfg : Cfg) (st : St) (h : Inv st) : Inv (flushReloadSt cfg st) := by
  have := C16.load_safe (envOf cfg) st.cu
    (C16.dumpUsers { users := st.users, nextId := st.nextId }) h.cu h.cuok
  obtain ⟨e1, e2⟩ := flushReloadSt_users cfg st
  refine ⟨?_, ?_, ?_⟩
  · rw [e1]; exact this.users
  · rw [e2]; exact this.cu
  · rw [e2]; exact this.cuok

/-- … and by a reload that reads whatever file is there, without a flush (SIGHUP, `config reload`) -/
theorem reloadNoFlush_preserves_inv (cfg : Cfg) (st : St) (h : Inv st) : Inv (reloadSt cfg st) := by
  have hu : Inv (reloadU cfg st) := by
    unfold reloadU
    split
    · rename_i t _
      have := C16.load_safe (envOf cfg) st.cu t h.cu h.cuok
      refine ⟨?_, ?_, ?_⟩
      · rw [reloadUsersFrom_users]; exact this.users
      · rw [reloadUsersFrom_cu]; exact this.cu
      · rw [reloadUsersFrom_cu]; exact this.cuok
    · exact ⟨fun p hp => (by cases hp), h.cu, h.cuok⟩
  have hi : Inv (reloadI (reloadU cfg st)) := by
    unfold reloadI
    split
    · exact ⟨hu.users, hu.cu, hu.cuok⟩
    · exact hu
  unfold reloadSt reloadC
  split
  · rename_i t _
    obtain ⟨e1, e2⟩ := reloadChannelsFrom_users cfg (reloadI (reloadU cfg st)) t
    refine ⟨?_, ?_, ?_⟩
    · rw [e1]; exact hi.users
    · rw [e2]; exact hi.cu
    · rw [e2]; exact hi.cuok
  · exact ⟨hi.users, hi.cu, hi.cuok⟩

/-- every command keeps the invariant: names are refused when they contain a line break,
hostmasks must be user hostmasks, capabilities single words, passwords are stored hashed -/
theorem step_preserves_inv (cfg : Cfg) (hcfg : HashSafe cfg) (st : St) (pfx : Str) (hpfx : C16.noBreak pfx)
    (c : Cmd) (h : Inv st) : Inv (step cfg st pfx c).1 := by
  by_cases hc : c = .flushReload
  · subst hc
    exact reload_preserves_inv cfg st h
  by_cases hr : c = .reload
  · subst hr
    exact reloadNoFlush_preserves_inv cfg st h
  · have hb : Inv (body cfg st pfx c).1 := by
      have hcu := body_cu cfg st pfx c hc hr
      refine ⟨body_safe cfg hcfg st pfx hpfx c hc hr h.users, ?_, ?_⟩
      · rw [hcu]; exact h.cu
      · rw [hcu]; exact h.cuok
    unfold step
    cases c with
    | flushReload => exact absurd rfl hc
    | reload => exact absurd rfl hr
    | _ =>
      simp only []
      split
      · exact h
      · split
        · exact hb
        · exact h

/-! ## histories -/

/-- a finite interleaving of commands (each with the hostmask it comes from) and reload points -/
def run (cfg : Cfg) (st : St) : List (Str × Cmd) → St
  | [] => st
  | (pfx, c) :: rest => run cfg (step cfg st pfx c).1 rest

/-- **No sequence of commands and flush+reload points creates an owner**: from any state satisfying
the invariant, after any finite history (any hostmasks, any argument strings, flush+reload points
anywhere) the owners are among the owners of the initial state, and the invariant still holds.

Reload points that read the files *without* a preceding flush (`Cmd.reload`: SIGHUP, `config
reload`) are modelled (the state carries the text of the files as last written), keep `Inv`
(`reloadNoFlush_preserves_inv`) and are compared with the real bot step by step, but they are
excluded from this theorem: that such a reload cannot bring a capability back needs the further
invariant "every capability in the saved file is still held in memory" (every revoking command
saves), which is checked by the oracle on the implementation and not yet proved:
   theorem history_safe_all : … without `hnr` …          (not proved) -/
theorem history_safe (cfg : Cfg) (hcfg : HashSafe cfg) (hist : List (Str × Cmd)) (st : St) (h : Inv st)
    (hp : ∀ e ∈ hist, C16.noBreak e.1) (hnr : ∀ e ∈ hist, e.2 ≠ .reload) :
    (∀ id ∈ owners (run cfg st hist), id ∈ owners st) ∧ Inv (run cfg st hist) := by
  induction hist generalizing st with
  | nil => exact ⟨fun id hid => hid, h⟩
  | cons e rest ih =>
    obtain ⟨pfx, c⟩ := e
    have hinv := step_preserves_inv cfg hcfg st pfx (hp (pfx, c) (by simp)) c h
    have hown : ∀ id ∈ owners (step cfg st pfx c).1, id ∈ owners st := by
      by_cases hc : c = .flushReload
      · subst hc; exact no_new_owner_reload cfg st h
      · exact no_new_owner_step cfg st pfx c hc (hnr (pfx, c) (by simp))
    obtain ⟨h1, h2⟩ := ih (step cfg st pfx c).1 hinv (fun e he => hp e (by simp [he]))
      (fun e he => hnr e (by simp [he]))
    exact ⟨fun id hid => hown id (h1 id hid), h2⟩

/-! ## non-vacuity and the two repaired defects -/

/-- a line-safe stand-in for the salted hash (only used by the examples below) -/
def hexHash (p : Str) : Str := 'h' :: p.filter (fun c => !C16.isBreak c)
def cfg0 : Cfg := { hash := hexHash, lower := asciiLower }

theorem cfg0_hashSafe : HashSafe cfg0 := by
  intro p c hc
  simp only [cfg0, hexHash, List.mem_cons, List.mem_filter, Bool.not_eq_true'] at hc
  rcases hc with rfl | ⟨_, hx⟩
  · decide
  · exact hx

def st0 : St :=
  { users := [(1, { name := s "root", hashed := true, password := hexHash (s "r"), caps := [s "owner"],
                    hostmasks := [s "root!r@owner.host"] }),
              (2, { name := s " bob\tx", hashed := true, password := hexHash (s "p"), caps := [s "admin"],
                    hostmasks := [s "adm!a@admin.host", s "x!y@z\n"] }),
              (3, { name := s "eve", hashed := true, password := hexHash (s "p"), hostmasks := [s "eve!e@evil.host"] })],
    nextId := 3,
    defaults := [s "-owner", s "-admin", s "-trusted"] }

/-- the invariant is satisfiable by a state with a leading blank and a TAB in a name and a hostmask
ending in LF (all accepted by the real commands) -/
theorem st0_inv : Inv st0 := by
  refine ⟨?_, fun c hc => (by simp [st0] at hc), fun c hc => (by simp [st0] at hc)⟩
  intro p hp
  simp only [st0, List.mem_cons, List.not_mem_nil, or_false] at hp
  rcases hp with rfl | rfl | rfl <;>
    exact ⟨by decide, by decide, by decide, by decide, by decide, by decide⟩

/-- an admin may hand out what they hold (an instance of the `Granted` clause) … -/
example : (step cfg0 st0 (s "adm!a@admin.host") (.capAdd (s "eve") (s "Admin"))).1.users.map (fun p => (p.1, p.2.caps)) =
    [(1, [s "owner"]), (2, [s "admin"]), (3, [s "admin"])] := by decide

/-- … but neither `owner` in any spelling, nor (since the `isCapability` repair) `owner` with blanks
around it — `admin capability add eve " owner"` used to store a string that reloads as `owner` -/
example : (run cfg0 st0 [(s "adm!a@admin.host", .capAdd (s "eve") (s "OWNER")),
                         (s "adm!a@admin.host", .capAdd (s "eve") (s " owner")),
                         (s "adm!a@admin.host", .capAdd (s "eve") (s "owner\n")),
                         (s "x", .flushReload)]).users.map (fun p => (p.1, p.2.caps)) =
    [(1, [s "owner"]), (2, [s "admin"]), (3, [])] := by decide

/-- the other repaired defect: a name carrying a line break is refused by `register` (it used to be
written to users.conf and read back as a capability line) -/
example : (run cfg0 st0 [(s "mal!m@mal.host", .register (s "x\n  capability owner") (s "pw")),
                         (s "x", .flushReload)]).users.map (fun p => p.1) = [1, 2, 3] := by decide

end C02
