/-
C02 — property theorems: nobody becomes owner (or gains a capability they are not entitled to)
through the bot's commands.
-/
import LimnoriaModel.C02.Lemmas
namespace C02
open Py

/-- **How capability lists can grow.**  After any command (not a reload) sent from any hostmask,
with any argument strings, every capability `x` found on an account was already on that account,
or the command was `admin capability add` / `channel capability add` for that account, `x` is the
(lower-cased) requested capability, and the guard of the command held for the caller in the state
before: for the admin form the capability is not `owner` (in any case spelling) and the caller
holds it or it is an anti-capability; for the channel form the caller holds `#channel,op`. -/
theorem cap_growth_entitled (cfg : Cfg) (st : St) (pfx : Str) (c : Cmd) (hc : c ≠ .flushReload) :
    ∀ p ∈ (step cfg st pfx c).1.users, ∀ x ∈ p.2.caps,
      (∃ u, (p.1, u) ∈ st.users ∧ x ∈ u.caps) ∨ Granted cfg st pfx c p.1 x := by
  unfold step
  cases c with
  | flushReload => exact absurd rfl hc
  | _ =>
    simp only []
    split
    · intro p hp x hx; exact Or.inl ⟨p.2, hp, hx⟩
    · split
      · exact body_caps cfg st pfx _ hc
      · intro p hp x hx; exact Or.inl ⟨p.2, hp, hx⟩

theorem ownerS_lower : C03.toLower C03.ownerS = C03.ownerS := by decide

/-- `owner` itself can never be granted -/
theorem not_granted_owner (cfg : Cfg) (st : St) (pfx : Str) (c : Cmd) (id : Nat) :
    ¬ Granted cfg st pfx c id C03.ownerS := by
  rintro (⟨name, cap0, _, _, hx, hne, _⟩ | ⟨chan, name, cap, c1, _, _, _, _, hx⟩)
  · -- admin form: the request is compared with 'owner' case-insensitively
    have : C03.strEqual (C03.toLower cap0) C03.ownerS = true := by
      unfold C03.strEqual
      rw [C03.toLower_idem, ← hx, ownerS_lower]
      simp
    rw [this] at hne
    cases hne
  · -- channel form: the granted string contains a comma
    have h1 : (C03.toLower (chan ++ ',' :: c1)).contains ',' = true := by
      rw [C03.contains_toLower C03.mem_special_comma]
      simp
    rw [← hx] at h1
    revert h1
    decide

theorem mem_owners {st : St} {id : Nat} : id ∈ owners st ↔ ∃ u, (id, u) ∈ st.users ∧ C03.ownerS ∈ u.caps := by
  unfold owners
  simp only [List.mem_map, List.mem_filter, List.contains_eq_mem, decide_eq_true_eq]
  constructor
  · rintro ⟨p, ⟨hp, ho⟩, rfl⟩
    exact ⟨p.2, hp, ho⟩
  · rintro ⟨u, hu, ho⟩
    exact ⟨(id, u), ⟨hu, ho⟩, rfl⟩

/-- **No new owner through a command** — whoever sends it (the statement does not even need
"the actor is not an owner": the commands simply cannot add the capability). -/
theorem no_new_owner_step (cfg : Cfg) (st : St) (pfx : Str) (c : Cmd) (hc : c ≠ .flushReload) :
    ∀ id ∈ owners (step cfg st pfx c).1, id ∈ owners st := by
  intro id hid
  obtain ⟨u', hu', ho⟩ := mem_owners.mp hid
  rcases cap_growth_entitled cfg st pfx c hc (id, u') hu' C03.ownerS ho with ⟨u, hu, hx⟩ | hg
  · exact mem_owners.mpr ⟨u, hu, hx⟩
  · exact absurd hg (not_granted_owner cfg st pfx c id)

end C02
