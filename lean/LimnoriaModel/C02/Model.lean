/-
C02 — model of the commands through which IRC users change accounts, capabilities, channel
capabilities, ignores and default capabilities, and of flush+reload.

State = the persisted databases of C16 (users.conf / channels.conf / ignores.conf records) +
run-time logins + the three capability configuration values.  Capability decisions are
`C03.Db.checkCapability` on the projection `St.caps`.  `flushReload` is C16's `load ∘ dump`.

One `Cmd` constructor per (command, fully explicit argument form) that the harness sends — all in
private, every argument an arbitrary string (the tokenizer's escape decoding is C13's business:
here arguments simply range over all strings).  `step` returns the new state and whether the
command replied with its success message.

Parameters (`Cfg`): `hash` stands for `utils.saltHash` (salted SHA; injective stand-in, its values
must be line-safe — the real ones are `hex|hex`), `lower` = `str.lower`.
-/
import LimnoriaModel.C16.Storable
namespace C02
open Py

def s (x : String) : Str := x.toList

structure Cfg where
  hash : Str → Str
  lower : Str → Str
  hm : Str → Str → Bool := C03.glob
  /-- `ircutils.hostmaskPatternsIntersect` -/
  hx : Str → Str → Bool := C16.patIntersect
  /-- `irc.state.nickToHostmask`: nicks the bot has seen, with their hostmask (keys compared with
  `toLower`) -/
  nicks : List (Str × Str) := []
  /-- loaded plugins: `cb.name()` with the names for which `cb.isCommandMethod` holds -/
  plugins : List (Str × List Str) := []

def Cfg.nickToHostmask (cfg : Cfg) (n : Str) : Option Str :=
  (cfg.nicks.find? (fun p => C03.toLower p.1 = C03.toLower n)).map (·.2)

structure St where
  users : List (Nat × C16.User) := []
  nextId : Nat := 0
  /-- `IrcUser.auth` (hostmasks; `timeoutIdentification` = 0, the default) -/
  auth : List (Nat × List Str) := []
  channels : C16.ChannelsDb := []
  ignores : C16.IgnoresDb := []
  /-- `conf.supybot.capabilities`, `…capabilities.registeredUsers`, `…capabilities.default` -/
  defaults : List Str := []
  registered : List Str := []
  defaultFlag : Bool := true
  /-- class attributes of the reader classes (survive a failed reload) -/
  cu : Option C16.CU := none
  cname : Option Str := none
  /-- users.conf / channels.conf / ignores.conf as last written (`none` = no file yet): what a
  reload *without* a preceding flush (SIGHUP, `config reload`) reads.  For users.conf the records
  that were written are kept (the text is `C16.dumpUsers` of them). -/
  usaved : Option C16.UsersDb := none
  csaved : Option C16.ChannelsDb := none
  ifile : Option Str := none
deriving Repr

def St.authOf (st : St) (id : Nat) : List Str := (C16.dictGet id st.auth).getD []

/-- the capability view of the state (C03's database) -/
def St.caps (st : St) : C03.Db :=
  { users := st.users.map (fun p =>
      { id := p.1, name := p.2.name, caps := p.2.caps, ignore := p.2.ignore, secure := p.2.secure,
        hostmasks := p.2.hostmasks, auth := (st.authOf p.1).map (fun h => ((0 : Int), h)) }),
    channels := st.channels.map (fun p => (C03.chanKey p.1, { defaultAllow := p.2.defaultAllow, caps := p.2.caps })),
    defaults := st.defaults, registered := st.registered, defaultFlag := st.defaultFlag, timeout := 0 }

/-- `ircdb.checkCapability(prefix, cap)`; `none` = it raised (AssertionError on a malformed capability) -/
def St.check (st : St) (pfx cap : Str) : Option Bool :=
  match st.caps.checkCapability 0 pfx cap with
  | .ok b => some b
  | .error _ => none

def St.user (st : St) (id : Nat) : Option C16.User := C16.dictGet id st.users

/-- `users.getUser(s)`: id of the account a hostmask or name resolves to -/
inductive Who
  | found (id : Nat)
  | missing
  | duplicate
deriving DecidableEq, Repr

def St.who (st : St) (s : Str) : Who :=
  match st.caps.lookup 0 s with
  | .found u => .found u.id
  | .missing => .missing
  | .duplicate => .duplicate

/-- `IrcUser.checkHostmask(h, useAuth)` -/
def St.checkHostmask (st : St) (id : Nat) (u : C16.User) (h : Str) (useAuth : Bool) : Bool :=
  (useAuth && (st.authOf id).contains h) || u.hostmasks.any (fun p => C03.glob p h && !p.isEmpty)

/-- `IrcUser._checkCapability('owner')` -/
def isOwnerUser (u : C16.User) : Bool := !u.ignore && u.caps.contains C03.ownerS

def St.callerIsOwner (st : St) (pfx : Str) : Bool :=
  match st.who pfx with
  | .found id => (match st.user id with | some u => isOwnerUser u | none => false)
  | _ => false

def putUser (st : St) (id : Nat) (u : C16.User) : St := { st with users := C16.dictSet id u st.users }

/-- `users.flush()` (setUser, newUser, delUser end with it) -/
def flushU (st : St) : St :=
  { st with usaved := some { users := st.users, nextId := st.nextId } }

/-- `channels.flush()` (the end of setChannel) -/
def flushC (st : St) : St := { st with csaved := some st.channels }

/-- the clash test of `UsersDictionary.setUser` (other users' logins count) -/
def St.clash (st : St) (id : Nat) (u : C16.User) : Bool :=
  u.hostmasks.any (fun h =>
    st.users.any (fun p => p.1 ≠ id &&
      -- the elements of an IrcSet are IrcStrings: `hostmask == authmask` compares them with toLower
      ((st.authOf p.1).any (fun a => C03.toLower a = C03.toLower h) ||
       st.checkHostmask p.1 p.2 h false || p.2.hostmasks.any (fun o => C03.glob h o || C16.patIntersect h o))))

inductive SetRes | ok | duplicate | valueError
deriving DecidableEq, Repr

/-- `users.setUser(u)` for an account that is already in the dictionary under `id` -/
def St.setUser (cfg : Cfg) (st : St) (id : Nat) (u : C16.User) : St × SetRes :=
  if C16.hasLineBreak u.name then (st, .valueError)
  else
    let st1 := { st with nextId := max st.nextId id }
    -- `getUserId(u.name) != u.id`
    let nameOwner : Who :=
      if C03.isUserHostmask u.name then (putUser st1 id u).who u.name
      else match (putUser st1 id u).users.find? (fun p => cfg.lower p.2.name = cfg.lower u.name) with
        | some p => .found p.1
        | none => .missing
    match nameOwner with
    | .duplicate => (st1, .duplicate)
    | .found i =>
      if i ≠ id then (st1, .duplicate)
      else if st1.clash id u then (st1, .duplicate) else (putUser st1 id u, .ok)
    | .missing => if st1.clash id u then (st1, .duplicate) else (putUser st1 id u, .ok)

/-- `IrcUser.checkPassword` for a hashed password -/
def checkPassword (cfg : Cfg) (u : C16.User) (pw : Option Str) : Bool :=
  match pw with
  | none => false
  | some p => u.password = cfg.hash p

/-- the `otherUser` converter: not hostmask-like; an account name, else the nick of somebody the
bot has seen, resolved through that hostmask -/
def St.otherUser (cfg : Cfg) (st : St) (name : Str) : Option Nat :=
  if C03.isUserHostmask name then none
  else match st.who name with
    | .found id => some id
    | .duplicate => none
    | .missing =>
      match cfg.nickToHostmask name with
      | some h => (match st.who h with | .found id => some id | _ => none)
      | none => none

/-- `ircdb.checkIgnored(prefix)` for a private message: trusted accounts (owners included) are
never ignored; otherwise the account's ignore flag and the ignore database decide.
`none` = the lookup raised (ambiguous hostmask) and the message is dropped as well. -/
def St.ignored (st : St) (pfx : Str) : Bool :=
  let byDb := st.ignores.any (fun p => C03.glob p.1 pfx)
  match st.who pfx with
  | .duplicate => true
  | .missing => byDb
  | .found id =>
    match st.user id with
    | none => byDb
    | some u =>
      if !u.ignore && (u.caps.contains C03.ownerS || u.caps.contains (s "trusted")) then false
      else if u.ignore then true
      else byDb

/-- the command gate of `callbacks.Commands._callCommand` for a command sent in private:
for `Y`, `P`, `P.X`, `P.X.Y` the anti-capability must not hold, and the command must be allowed
by default or explicitly -/
def dotted : List Str → Str
  | [] => []
  | [a] => a
  | a :: rest => a ++ '.' :: dotted rest

def prefixes : List Str → List (List Str)
  | [] => []
  | a :: rest => [a] :: (prefixes rest).map (a :: ·)

def St.gate (st : St) (pfx : Str) (path : List Str) : Bool :=
  let names := (match path.getLast? with | some y => [y] | none => []) ++ (prefixes path).map dotted
  names.all (fun n =>
    st.check pfx ('-' :: n) = some false &&
    (st.defaultFlag || st.check pfx n = some true))

inductive Cmd
  | register (name pw : Str)
  | unregister (name : Str) (pw : Option Str)
  | changename (name newname pw : Str)
  | identify (name pw : Str)
  | unidentify
  | hostmaskAdd (name hostmask pw : Str)
  | hostmaskRemove (name hostmask pw : Str)
  | setPassword (name old new : Str)
  | setSecure (pw : Str) (value : Option Bool)
  | capAdd (name cap : Str)                       -- admin capability add
  | capRemove (name cap : Str)
  | chanCapAdd (chan name cap : Str)              -- channel capability add
  | chanCapRemove (chan name cap : Str)
  | chanCapSet (chan : Str) (caps : List Str)     -- channel capability set
  | chanCapUnset (chan : Str) (caps : List Str)
  | chanSetDefault (chan : Str) (v : Bool)
  | ignoreAdd (hostmask : Str)
  | ignoreRemove (hostmask : Str)
  | defaultCapAdd (cap : Str)                     -- owner defaultcapability add
  | defaultCapRemove (cap : Str)
  | configCaps (value : List Str)                 -- config supybot.capabilities <value>
  | flushReload
  /-- SIGHUP / `config reload`: users, ignores and channels are re-read from the files as they are -/
  | reload
  /-- `world.flush()`: every registered flusher runs (the `flush` command of owners, shutdown) -/
  | flushAll
  /-- `world.upkeep()`, the periodic event: flushes iff `supybot.flush` is on -/
  | upkeep (flushOn : Bool)
  /-- `channel disable #chan <plugin> <command>` / `channel enable …` -/
  | chanDisable (chan plugin command : Str)
  | chanEnable (chan plugin command : Str)
deriving Repr

/-- plugin path used by the gate -/
def Cmd.path : Cmd → List Str
  | .register .. => [s "user", s "register"]
  | .unregister .. => [s "user", s "unregister"]
  | .changename .. => [s "user", s "changename"]
  | .identify .. => [s "user", s "identify"]
  | .unidentify => [s "user", s "unidentify"]
  | .hostmaskAdd .. => [s "user", s "hostmask", s "add"]
  | .hostmaskRemove .. => [s "user", s "hostmask", s "remove"]
  | .setPassword .. => [s "user", s "set", s "password"]
  | .setSecure .. => [s "user", s "set", s "secure"]
  | .capAdd .. => [s "admin", s "capability", s "add"]
  | .capRemove .. => [s "admin", s "capability", s "remove"]
  | .chanCapAdd .. => [s "channel", s "capability", s "add"]
  | .chanCapRemove .. => [s "channel", s "capability", s "remove"]
  | .chanCapSet .. => [s "channel", s "capability", s "set"]
  | .chanCapUnset .. => [s "channel", s "capability", s "unset"]
  | .chanSetDefault .. => [s "channel", s "capability", s "setdefault"]
  | .ignoreAdd .. => [s "admin", s "ignore", s "add"]
  | .ignoreRemove .. => [s "admin", s "ignore", s "remove"]
  | .defaultCapAdd .. => [s "owner", s "defaultcapability"]
  | .defaultCapRemove .. => [s "owner", s "defaultcapability"]
  | .configCaps .. => [s "config", s "config"]
  | .flushReload => []
  | .reload => []
  | .flushAll => []
  | .upkeep _ => []
  | .chanDisable .. => [s "channel", s "disable"]
  | .chanEnable .. => [s "channel", s "enable"]

/-- `len(unWildcardHostmask(h)) < 3` -/
def tooWild (h : Str) : Bool := (h.filter (fun c => c != '!' && c != '@' && c != '*' && c != '?')).length < 3

/-- the `op` converter: the channel argument must be a channel and the caller hold `#chan,op` -/
def St.opGuard (st : St) (pfx chan : Str) : Bool :=
  C03.isChannel chan &&
  (match C03.makeChannelCapability chan C03.opS with
   | .ok cap => st.check pfx cap = some true
   | .error _ => false)

/-- `getSomethingNoSpaces`: non-empty, one `split(None, 1)` word (blanks around it are accepted) -/
def noSpaces (x : Str) : Bool := !x.isEmpty && (splitNone1 x).length == 1

def St.chan (st : St) (name : Str) : C16.Chan :=
  match st.channels.find? (fun p => C03.toLower p.1 = C03.toLower (asciiLower name)) with
  | some p => p.2
  | none => C16.freshChan

/-- `channels.getChannel(name)` creates the record; later mutations of the object are visible
even when the command fails before `setChannel` -/
def St.putChan (st : St) (name : Str) (c : C16.Chan) : St :=
  { st with channels := C16.ircDictSet (asciiLower name) c st.channels }

/-- add capabilities one by one until one raises (the earlier ones stay) -/
def addCaps (caps : List Str) : List Str → List Str × Bool
  | [] => (caps, true)
  | c :: rest =>
    if !C03.isCapability c then (caps, false)
    else match C03.CapSet.add caps c with
      | .ok s' => addCaps s' rest
      | .error _ => (caps, false)

/-- remove capabilities one by one; `KeyError`s are collected, an assertion stops the loop -/
def removeCaps (caps : List Str) : List Str → List Str × Bool × Bool   -- (caps, completed, anyMissing)
  | [] => (caps, true, false)
  | c :: rest =>
    if !C03.isCapability c then (caps, false, false)
    else match C03.CapSet.remove caps c with
      | .ok s' => removeCaps s' rest
      | .error _ => let r := removeCaps caps rest; (r.1, r.2.1, true)

def envOf (cfg : Cfg) : C16.Env := { hm := cfg.hm, lower := cfg.lower, now := 0, hx := cfg.hx }

/-- `users.reload()` on a given file text; a successful load ends with a flush -/
def reloadUsersFrom (cfg : Cfg) (st : St) (db : C16.UsersDb) : St :=
  let ru := C16.loadUsers (envOf cfg) st.cu (C16.dumpUsers db)
  let st1 := { st with users := ru.1.db.users, nextId := ru.1.db.nextId, auth := [], cu := ru.1.cu, usaved := some db }
  if ru.2.isNone then flushU st1 else st1

def reloadChannelsFrom (cfg : Cfg) (st : St) (chans : C16.ChannelsDb) : St :=
  let rc := C16.loadChannels (envOf cfg) st.cname (C16.dumpChannels chans)
  let st1 := { st with channels := rc.1.db, cname := rc.1.cname, csaved := some chans }
  if rc.2.isNone then flushC st1 else st1

def flushReloadSt (cfg : Cfg) (st : St) : St :=
  let st1 := reloadUsersFrom cfg st { users := st.users, nextId := st.nextId }
  let st2 := reloadChannelsFrom cfg st1 st1.channels
  let itext := C16.dumpIgnores (envOf cfg) st2.ignores
  { st2 with ignores := C16.loadIgnores itext, ifile := some itext }

/-- `Config._reload` without the registry: `users.reload(); ignores.reload(); channels.reload()`.
A missing users/channels file leaves that database empty, a missing ignores file leaves the
ignores as they are. -/
def reloadU (cfg : Cfg) (st : St) : St :=
  match st.usaved with
  | some db => reloadUsersFrom cfg st db
  | none => { st with users := [], nextId := 0, auth := [] }

def reloadI (st : St) : St :=
  match st.ifile with
  | some t => { st with ignores := C16.loadIgnores t }
  | none => st

def reloadC (cfg : Cfg) (st : St) : St :=
  match st.csaved with
  | some t => reloadChannelsFrom cfg st t
  | none => { st with channels := [] }

def reloadSt (cfg : Cfg) (st : St) : St := reloadC cfg (reloadI (reloadU cfg st))

/-- `world.flush()`: users, channels and ignores are written -/
def flushAllSt (cfg : Cfg) (st : St) : St :=
  { flushC (flushU st) with ifile := some (C16.dumpIgnores (envOf cfg) st.ignores) }

/-- `callbacks.canonicalName`: lower-case, TAB/dash/underscore/blank removed except at the end -/
def canonicalName (c : Str) : Str :=
  let special := fun (x : Char) => x = '\t' || x = '-' || x = '_' || x = ' '
  let tail := (c.reverse.takeWhile special).reverse
  let head := (c.reverse.dropWhile special).reverse
  asciiLower (head.filter (fun x => !special x)) ++ tail

/-- the capability `channel disable/enable` work on: `-Plugin.command`, when the plugin is loaded
(`irc.getCallback`, case-insensitive) and has that command; `none` = the command does nothing -/
def disableCap (cfg : Cfg) (plugin command : Str) : Option Str :=
  match cfg.plugins.find? (fun p => asciiLower p.1 = asciiLower plugin) with
  | none => none
  | some p =>
    if command.isEmpty then some ('-' :: p.1)             -- an empty command name: the whole plugin
    else if command.contains ' ' then none
    else if p.2.contains (canonicalName command) then some ('-' :: p.1 ++ '.' :: canonicalName command)
    else none

/-- `name` resolved by the `otherUser` converter, and that account's record -/
def withOther (cfg : Cfg) (st : St) (name : Str) (f : Nat → C16.User → St × Bool) : St × Bool :=
  match st.otherUser cfg name with
  | none => (st, false)
  | some id =>
    match st.user id with
    | none => (st, false)
    | some u => f id u

/-- the `user` converter: the account the caller is recognised as -/
def withCaller (st : St) (pfx : Str) (f : Nat → C16.User → St × Bool) : St × Bool :=
  match st.who pfx with
  | .found id =>
    (match st.user id with
     | some u => f id u
     | none => (st, false))
  | _ => (st, false)

/-- `ircdb.users.setUser(user)` at the end of a command whose `user` object has already been
modified in place: when `setUser` raises the modified object is in the table all the same -/
def finishSet (cfg : Cfg) (st : St) (id : Nat) (u' : C16.User) (flush : Bool := true) : St × Bool :=
  let r := st.setUser cfg id u'
  match r.2 with
  | .ok => (if flush then flushU r.1 else r.1, true)
  | _ => (putUser r.1 id u', false)

def optPw (pw : Str) : Option Str := if pw.isEmpty then none else some pw

/-- is the name free (the `getUserId(name)` probe of register/changename) -/
def St.nameTaken (cfg : Cfg) (st : St) (name : Str) : Bool :=
  if C03.isUserHostmask name then st.who name != .missing
  else (st.users.find? (fun p => cfg.lower p.2.name = cfg.lower name)).isSome

/-- `user register` -/
def doRegister (cfg : Cfg) (st : St) (pfx name pw : Str) : St × Bool :=
  if name.isEmpty || pw.isEmpty then (st, false)
  else if st.nameTaken cfg name then (st, false)
  else if C03.isUserHostmask name then (st, false)
  else if C16.hasLineBreak name then (st, false)
  else
    let addHostmask : Option Bool :=
      match st.who pfx with
      | .found id => (match st.user id with
          | some u => if isOwnerUser u then some false else none
          | none => none)
      | .missing => some true
      | .duplicate => none
    match addHostmask with
    | none => (st, false)
    | some ah =>
      let id := st.nextId + 1
      -- when addHostmask raises (after newUser()) the half-built account is removed again
      -- (`delUser`, which saves); only the id stays used up
      if ah && tooWild pfx then (flushU { st with nextId := id }, false)
      else
        let u : C16.User := { name := name, hashed := true, password := cfg.hash pw,
                              hostmasks := if ah then [pfx] else [] }
        -- newUser() saves the still empty account; the final setUser saves the complete one
        (flushU { st with nextId := id, users := st.users ++ [(id, u)] }, true)

/-- body of a command once the gate has let it through; `true` = replied with success -/
def body (cfg : Cfg) (st : St) (pfx : Str) : Cmd → St × Bool
  | .register name pw => doRegister cfg st pfx name pw
  | .unregister name pw =>
    withOther cfg st name fun id u =>
      if st.callerIsOwner pfx || checkPassword cfg u pw then
        (flushU { st with users := st.users.filter (fun p => p.1 ≠ id), auth := st.auth.filter (fun p => p.1 ≠ id) }, true)
      else (st, false)
  | .changename name newname pw =>
    if newname.isEmpty then (st, false) else
    withOther cfg st name fun id u =>
      if st.nameTaken cfg newname then (st, false)
      else if C03.isUserHostmask newname then (st, false)
      else if C16.hasLineBreak newname then (st, false)
      else if st.checkHostmask id u pfx true || checkPassword cfg u (optPw pw) then
        finishSet cfg st id { u with name := newname }
      else (st, false)
  | .identify name pw =>
    if pw.isEmpty then (st, false) else
    withOther cfg st name fun id u =>
      if checkPassword cfg u (some pw) then
        if st.checkHostmask id u pfx false || !u.secure then
          finishSet cfg { st with auth := C16.dictSet id ((st.authOf id).filter (· ≠ pfx) ++ [pfx]) st.auth } id u false
        else (st, false)
      else (st, false)
  | .unidentify =>
    withCaller st pfx fun id u => finishSet cfg { st with auth := C16.dictSet id [] st.auth } id u
  | .hostmaskAdd name hostmask pw =>
    if hostmask.isEmpty then (st, false) else
    withOther cfg st name fun id u =>
      match st.check pfx C03.ownerS with
      | none => (st, false)
      | some callerIsOwner =>
        if !C03.isUserHostmask hostmask then (st, false)
        else
          let other := st.who hostmask
          if other == .duplicate then (st, false)
          else if (match other with | .found i => i != id | _ => false) then (st, false)
          else if !checkPassword cfg u (optPw pw) && !st.checkHostmask id u pfx true && !callerIsOwner then (st, false)
          else if tooWild hostmask then (st, false)
          else
            let u' := { u with hostmasks := C16.ircSetAdd u.hostmasks hostmask }
            let r := st.setUser cfg id u'
            match r.2 with
            | .ok => (flushU r.1, true)
            | .duplicate =>
              let hs := (C16.ircSetAdd u.hostmasks hostmask).filter (fun x => C03.toLower x ≠ C03.toLower hostmask)
              (putUser r.1 id { u with hostmasks := hs }, false)
            | .valueError => (putUser r.1 id u', false)
  | .hostmaskRemove name hostmask pw =>
    if hostmask.isEmpty then (st, false) else
    withOther cfg st name fun id u =>
      let authd := checkPassword cfg u (optPw pw) || st.checkHostmask id u pfx true
      let allowed : Option Bool := if authd then some true else st.check pfx C03.ownerS
      match allowed with
      | some true =>
        if hostmask = s "all" then finishSet cfg st id { u with hostmasks := [] }
        else if u.hostmasks.any (fun x => C03.toLower x = C03.toLower hostmask) then
          finishSet cfg st id { u with hostmasks := u.hostmasks.filter (fun x => C03.toLower x ≠ C03.toLower hostmask) }
        else (st, false)
      | _ => (st, false)
  | .setPassword name old new =>
    if old.isEmpty || new.isEmpty then (st, false) else
    withOther cfg st name fun id u =>
      if st.who pfx == .duplicate then (st, false)
      else if checkPassword cfg u (some old) || st.callerIsOwner pfx then
        finishSet cfg st id { u with hashed := true, password := cfg.hash new }
      else (st, false)
  | .setSecure pw value =>
    if pw.isEmpty then (st, false) else
    withCaller st pfx fun id u =>
      if checkPassword cfg u (some pw) && st.checkHostmask id u pfx false then
        finishSet cfg st id { u with secure := (match value with | some b => b | none => !u.secure) }
      else (st, false)
  | .capAdd name cap0 =>
    withOther cfg st name fun id u =>
      if C03.strEqual (C03.toLower cap0) C03.ownerS then (st, false)
      else
        match (if C03.isAntiCapability (C03.toLower cap0) then some true else st.check pfx (C03.toLower cap0)) with
        | some true =>
          (match C03.uadd u.caps (C03.toLower cap0) with
           | .ok caps' => finishSet cfg st id { u with caps := caps' }
           | .error _ => (st, false))
        | _ => (st, false)
  | .capRemove name cap0 =>
    withOther cfg st name fun id u =>
      let entitled : Option Bool :=
        match st.check pfx (C03.toLower cap0) with
        | some true => some true
        | some false => some (C03.isAntiCapability (C03.toLower cap0))
        | none => none
      match entitled with
      | some true =>
        (match C03.CapSet.remove u.caps (C03.toLower cap0) with
         | .ok caps' => finishSet cfg st id { u with caps := caps' }
         | .error _ => (st, false))
      | _ => (st, false)
  | .chanCapAdd chan name cap =>
    if !st.opGuard pfx chan then (st, false) else
    withOther cfg st name fun id u =>
      if !noSpaces cap then (st, false) else
      -- for c in capabilities.split(): one word
      match splitWs cap with
      | [c] =>
        (match C03.makeChannelCapability chan c with
         | .error _ => (st, false)
         | .ok cc =>
           match C03.uadd u.caps cc with
           | .error _ => (st, false)
           | .ok caps' => finishSet cfg st id { u with caps := caps' })
      | _ => (st, false)
  | .chanCapRemove chan name cap =>
    if !st.opGuard pfx chan then (st, false) else
    withOther cfg st name fun id u =>
      if !noSpaces cap then (st, false) else
      match splitWs cap with
      | [c] =>
        (match C03.makeChannelCapability chan c with
         | .error _ => (st, false)
         | .ok cc =>
           match C03.CapSet.remove u.caps cc with
           | .ok caps' => finishSet cfg st id { u with caps := caps' }
           | .error _ => ((finishSet cfg st id u).1, false))
      | _ => (st, false)
  | .chanCapSet chan caps =>
    if !st.opGuard pfx chan then (st, false)
    else if caps.isEmpty || !caps.all noSpaces then (st, false)
    else if !caps.all C03.isCapability then (st, false)      -- checked before the live record is touched
    else
      let c := st.chan chan
      let r := addCaps c.caps caps
      -- setChannel (and its flush) is only reached when every capability was accepted
      (if r.2 then flushC (st.putChan chan { c with caps := r.1 }) else st.putChan chan { c with caps := r.1 }, r.2)
  | .chanCapUnset chan caps =>
    if !st.opGuard pfx chan then (st, false)
    else if caps.isEmpty || !caps.all noSpaces then (st, false)
    else if !caps.all C03.isCapability then (st, false)
    else
      let c := st.chan chan
      let r := removeCaps c.caps caps
      (if r.2.1 then flushC (st.putChan chan { c with caps := r.1 }) else st.putChan chan { c with caps := r.1 }, r.2.1 && !r.2.2)
  | .chanSetDefault chan v =>
    if !st.opGuard pfx chan then (st, false)
    else
      let c := st.chan chan
      (flushC (st.putChan chan { c with defaultAllow := v }), true)
  | .ignoreAdd h0 =>
    -- the `hostmask` converter: a hostmask, or the nick of somebody seen
    match (if C03.isUserHostmask h0 then some h0 else cfg.nickToHostmask h0) with
    | some h => if C03.isUserHostmask h then ({ st with ignores := C16.dictSet h 0 st.ignores }, true) else (st, false)
    | none => (st, false)
  | .ignoreRemove h0 =>
    match (if C03.isUserHostmask h0 then some h0 else cfg.nickToHostmask h0) with
    | some h =>
      if st.ignores.any (fun p => p.1 = h) then ({ st with ignores := st.ignores.filter (fun p => p.1 ≠ h) }, true)
      else (st, false)
    | none => (st, false)
  | .defaultCapAdd cap =>
    if !noSpaces cap then (st, false) else
    match C03.CapSet.add st.defaults cap with
    | .ok d => ({ st with defaults := d }, true)
    | .error _ => (st, false)
  | .defaultCapRemove cap =>
    if !noSpaces cap then (st, false) else
    match C03.CapSet.remove st.defaults cap with
    | .ok d => ({ st with defaults := d }, true)
    | .error .key =>
      if C03.isAntiCapability cap then (st, false)
      else (match C03.makeAntiCapability cap with
        | .ok a => (match C03.CapSet.add st.defaults a with
            | .ok d => ({ st with defaults := d }, true)
            | .error _ => (st, false))
        | .error _ => (st, false))
    | .error _ => (st, false)
  | .configCaps v =>
    match st.caps.setDefaults v with
    | .ok db => ({ st with defaults := db.defaults }, true)
    | .error _ => (st, false)
  | .flushReload => (flushReloadSt cfg st, true)
  | .reload => (reloadSt cfg st, true)
  | .flushAll => (flushAllSt cfg st, true)
  | .upkeep on => (if on then flushAllSt cfg st else st, true)
  | .chanDisable chan plugin command =>
    if !st.opGuard pfx chan then (st, false)
    else match disableCap cfg plugin command with
      | none => (st, false)
      | some cap =>
        let c := st.chan chan
        (match C03.CapSet.add c.caps cap with
         | .ok caps' => (flushC (st.putChan chan { c with caps := caps' }), true)
         | .error _ => (st.putChan chan c, false))
  | .chanEnable chan plugin command =>
    if !st.opGuard pfx chan then (st, false)
    else match disableCap cfg plugin command with
      | none => (st, false)
      | some cap =>
        let c := st.chan chan
        (match C03.CapSet.remove c.caps cap with
         | .ok caps' => (flushC (st.putChan chan { c with caps := caps' }), true)
         | .error _ => (flushC (st.putChan chan c), false))

/-- `callbacks.checkCommandCapability` for a message sent in channel `ch`: besides `-name` the
channel's `#ch,-name` refuses; `#ch,name` admits like `name`; the default applies only if the
channel's `defaultAllow` is on as well -/
def St.gateIn (st : St) (pfx ch : Str) (path : List Str) : Bool :=
  let names := (match path.getLast? with | some y => [y] | none => []) ++ (prefixes path).map dotted
  names.all (fun n =>
    st.check pfx ('-' :: n) = some false &&
    (match C03.makeChannelCapability ch ('-' :: n), C03.makeChannelCapability ch n with
     | .ok an, .ok cn =>
       st.check pfx an = some false &&
       ((st.defaultFlag && (st.chan ch).defaultAllow) || st.check pfx n = some true || st.check pfx cn = some true)
     | _, _ => false))

def St.gateAt (st : St) (pfx : Str) (ch : Option Str) (path : List Str) : Bool :=
  match ch with
  | none => st.gate pfx path
  | some ch => st.gateIn pfx ch path

/-- what lets a caller run the command at all: the gate (the `private` converter is dealt with in
`Cmd.inChannel`); Owner/Config commands additionally need the `owner` capability.
`ch` = the channel the message was sent in (`none`: a private message) -/
def allowed (st : St) (pfx : Str) (c : Cmd) (ch : Option Str) : Bool :=
  let gate := st.gateAt pfx ch c.path
  match c with
  | .flushReload => true
  | .reload => true
  | .flushAll => true
  | .upkeep _ => true
  | .configCaps _ => gate && st.check pfx C03.ownerS = some true
  | _ => gate

/-- one command from the hostmask `pfx`, sent privately (`ch = none`) or in channel `ch`; for a
channel message `c` is the command as the converters see it (`Cmd.inChannel`) -/
def step (cfg : Cfg) (st : St) (pfx : Str) (c : Cmd) (ch : Option Str) : St × Bool :=
  match c with
  | .flushReload => body cfg st pfx c          -- not an IRC command: the harness calls flush()/reload()
  | .reload => body cfg st pfx c
  | .flushAll => body cfg st pfx c
  | .upkeep _ => body cfg st pfx c
  | _ =>
    if st.ignored pfx then (st, false)          -- Owner.doPrivmsg drops the message
    else if allowed st pfx c ch then body cfg st pfx c else (st, false)

/-! ## messages sent in a channel -/

/-- the commands whose `wrap` list starts with `private` (Props: `private_table`) -/
def Cmd.isPrivate : Cmd → Bool
  | .register .. => true
  | .unregister .. => true
  | .changename .. => true
  | .identify .. => true
  | .hostmaskAdd .. => true
  | .hostmaskRemove .. => true
  | .setPassword .. => true
  | .setSecure .. => true
  | _ => false

/-- what the argument list of `c` amounts to when the message is sent in channel `ch`: `private`
commands are refused; the `op` converter takes a first argument that is not a channel name for
the *next* argument and the channel from the message — the commands with a fixed number of
arguments then have one too many (`none`: an error reply), `capability set/unset` take it as one
more capability for `ch` -/
def Cmd.inChannel (ch : Str) (c : Cmd) : Option Cmd :=
  if c.isPrivate then none else
  match c with
  | .chanCapAdd chan _ _ => if C03.isChannel chan then some c else none
  | .chanCapRemove chan _ _ => if C03.isChannel chan then some c else none
  | .chanSetDefault chan _ => if C03.isChannel chan then some c else none
  | .chanDisable chan _ _ => if C03.isChannel chan then some c else none
  | .chanEnable chan _ _ => if C03.isChannel chan then some c else none
  | .chanCapSet chan caps => if C03.isChannel chan then some c else some (.chanCapSet ch (chan :: caps))
  | .chanCapUnset chan caps => if C03.isChannel chan then some c else some (.chanCapUnset ch (chan :: caps))
  | _ => some c

/-! ## the order in which capability sets were written

`CapabilitySet` is a Python `set`: the order in which `preserve` writes its elements is decided
by string hashes and the history of the set, not by anything modelled here.  For a set that
holds a capability together with its inverse (`--foo` with `-foo`) the order decides what a
later load makes of the file (`C16.inverse_pair_some_order_loses`).  The order is therefore an
*input*: an environment event tells in which order the saved capability sets stand in the files.
It is accepted only as far as it is a permutation of what the model has saved. -/

/-- replace `caps` by the order given for it, if that is a permutation of it -/
def permCaps (ord : Option (List Str)) (caps : List Str) : List Str :=
  match ord with
  | some c => if c.isPerm caps then c else caps
  | none => caps

/-- the event: `uo` gives orders for accounts (by id) of the saved users file, `co` for channels
(by name) of the saved channels file -/
def St.fileOrder (st : St) (uo : List (Nat × List Str)) (co : List (Str × List Str)) : St :=
  { st with
    usaved := st.usaved.map (fun db =>
      { db with users := db.users.map (fun p => (p.1, { p.2 with caps := permCaps (C16.dictGet p.1 uo) p.2.caps })) }),
    csaved := st.csaved.map (fun l =>
      l.map (fun p => (p.1, { p.2 with caps := permCaps (C16.dictGet p.1 co) p.2.caps }))) }

/-- every order given names a saved record and is a permutation of its capability list (what the
driver reports back: a `false` here is a disagreement between model and implementation) -/
def St.fileOrderOk (st : St) (uo : List (Nat × List Str)) (co : List (Str × List Str)) : Bool :=
  uo.all (fun o => match st.usaved with
    | some db => (match C16.dictGet o.1 db.users with
        | some u => o.2.isPerm u.caps
        | none => false)
    | none => false) &&
  co.all (fun o => match st.csaved with
    | some l => (match C16.dictGet o.1 l with
        | some c => o.2.isPerm c.caps
        | none => false)
    | none => false)

/-- a history event: a message from `pfx` carrying a command (or one of the reload/flush events
of `Cmd`), or the environment fixing the written order of capability sets -/
inductive Ev
  | cmd (pfx : Str) (c : Cmd)
  /-- the same, sent to channel `ch` (addressed to the bot) -/
  | cmdIn (ch pfx : Str) (c : Cmd)
  | order (uo : List (Nat × List Str)) (co : List (Str × List Str))
  /-- more than `supybot.databases.users.timeoutIdentification` seconds pass (the setting is not
  zero): every login made so far has expired (`IrcUser.checkHostmask` drops them when it next looks) -/
  | expire
  /-- the bot is stopped and started again: `world.flush()` on the way out; the new process has
  nothing left in the reader classes (`IrcUserCreator.u`, `IrcChannelCreator.name`) and reads the
  databases (written in the orders `uo`, `co`, see `order`) -/
  | restart (uo : List (Nat × List Str)) (co : List (Str × List Str))
deriving Repr

/-- the state a stopping bot leaves behind for the next process: everything saved, no leftovers
in the reader classes -/
def restartPrep (cfg : Cfg) (st : St) : St := { flushAllSt cfg st with cu := none, cname := none }

def restartSt (cfg : Cfg) (st : St) (uo : List (Nat × List Str)) (co : List (Str × List Str)) : St :=
  reloadSt cfg ((restartPrep cfg st).fileOrder uo co)

def stepEv (cfg : Cfg) (st : St) : Ev → St
  | .cmd pfx c => (step cfg st pfx c none).1
  | .cmdIn ch pfx c =>
    (match c.inChannel ch with
     | some c' => (step cfg st pfx c' (some ch)).1
     | none => st)
  | .order uo co => st.fileOrder uo co
  | .expire => { st with auth := [] }
  | .restart uo co => restartSt cfg st uo co

def runEv (cfg : Cfg) (st : St) : List Ev → St
  | [] => st
  | e :: rest => runEv cfg (stepEv cfg st e) rest

/-- accounts holding the literal `owner` capability -/
def owners (st : St) : List Nat := (st.users.filter (fun p => p.2.caps.contains C03.ownerS)).map (·.1)

end C02
