import LimnoriaModel.C02.Lemmas

/-!
# C02 — the channels file and the channels in memory

`ChannelsDictionary.getChannel` hands out the live record; the Channel plugin changes it and then
calls `setChannel`, which saves.  `ChanAgree`: the saved channels file and the channels in memory
answer every `getChannel(name)` alike (a record that merely was created by asking equals the
default one, so it does not count as a difference).  Every command keeps it (`body_chanShape`).
-/

namespace C02
open Py

/-- `channels.getChannel(name)` on a dictionary given as a list -/
def chanOf (l : C16.ChannelsDb) (name : Str) : C16.Chan :=
  match l.find? (fun p => C03.toLower p.1 = C03.toLower (asciiLower name)) with
  | some p => p.2
  | none => C16.freshChan

theorem chan_eq_chanOf (st : St) (name : Str) : st.chan name = chanOf st.channels name := rfl

theorem find_ircDictSet_same (l : C16.ChannelsDb) (k : Str) (c : C16.Chan) (t : Str)
    (hk : C03.toLower k = t) :
    ((C16.ircDictSet k c l).find? (fun p => C03.toLower p.1 = t)).map (·.2) = some c := by
  unfold C16.ircDictSet
  split
  · rename_i hany
    induction l with
    | nil => simp at hany
    | cons p rest ih =>
      simp only [List.map_cons]
      by_cases hp : C03.toLower p.1 = C03.toLower k
      · simp only [hp, if_true, List.find?_cons, hk, decide_true, Option.map_some]
      · have hp' : ¬ C03.toLower p.1 = t := by rw [← hk]; exact hp
        simp only [hp, if_false, List.find?_cons, hp', decide_false]
        apply ih
        simp only [List.any_cons, hp, decide_false, Bool.false_or] at hany
        exact hany
  · rename_i hany
    have hnone : l.find? (fun p => decide (C03.toLower p.1 = t)) = none := by
      rw [List.find?_eq_none]
      intro p hp
      simp only [List.any_eq_true, not_exists, not_and, decide_eq_true_eq] at hany
      simpa [← hk] using hany p hp
    rw [List.find?_append, hnone]
    simp [hk]

theorem find_ircDictSet_other (l : C16.ChannelsDb) (k : Str) (c : C16.Chan) (t : Str)
    (hk : C03.toLower k ≠ t) :
    ((C16.ircDictSet k c l).find? (fun p => C03.toLower p.1 = t)).map (·.2) =
      (l.find? (fun p => C03.toLower p.1 = t)).map (·.2) := by
  unfold C16.ircDictSet
  split
  · rename_i hany
    clear hany
    induction l with
    | nil => rfl
    | cons p rest ih =>
      simp only [List.map_cons]
      by_cases hp : C03.toLower p.1 = C03.toLower k
      · have hp' : ¬ C03.toLower p.1 = t := by rw [hp]; exact hk
        simp only [hp, if_true, List.find?_cons, hk, decide_false, hp']
        exact ih
      · simp only [hp, if_false, List.find?_cons]
        by_cases hq : C03.toLower p.1 = t
        · simp only [hq, decide_true]
        · simp only [hq, decide_false]
          exact ih
  · rw [List.find?_append]
    cases h : l.find? (fun p => decide (C03.toLower p.1 = t)) with
    | some p => rfl
    | none => simp [hk]

theorem chanOf_eq (l : C16.ChannelsDb) (n : Str) :
    chanOf l n = ((l.find? (fun p => C03.toLower p.1 = C03.toLower (asciiLower n))).map (·.2)).getD C16.freshChan := by
  unfold chanOf
  cases l.find? (fun p => decide (C03.toLower p.1 = C03.toLower (asciiLower n))) <;> rfl

/-- storing a record under a name changes the answer for that name (in any spelling) only -/
theorem chanOf_put (l : C16.ChannelsDb) (name n : Str) (c : C16.Chan) :
    chanOf (C16.ircDictSet (asciiLower name) c l) n =
      if C03.toLower (asciiLower name) = C03.toLower (asciiLower n) then c else chanOf l n := by
  by_cases h : C03.toLower (asciiLower name) = C03.toLower (asciiLower n)
  · rw [if_pos h, chanOf_eq, find_ircDictSet_same l (asciiLower name) c _ h]
    rfl
  · rw [if_neg h, chanOf_eq, find_ircDictSet_other l (asciiLower name) c _ h, ← chanOf_eq]

/-- putting back the record `getChannel` returned changes no answer -/
theorem chanOf_put_same (st : St) (name n : Str) :
    chanOf (st.putChan name (st.chan name)).channels n = chanOf st.channels n := by
  unfold St.putChan
  simp only []
  rw [chanOf_put]
  split
  · rename_i h
    rw [chan_eq_chanOf]
    unfold chanOf
    rw [h]
  · rfl

/-- two channel records with the same settings and the same capabilities as sets (the order of a
capability set is not determined: `Ev.order`) -/
def ChanEquiv (a b : C16.Chan) : Prop :=
  a.lobotomized = b.lobotomized ∧ a.defaultAllow = b.defaultAllow ∧ a.bans = b.bans ∧ a.ignores = b.ignores ∧
  ∀ x, x ∈ a.caps ↔ x ∈ b.caps

theorem chanEquiv_refl (a : C16.Chan) : ChanEquiv a a := ⟨rfl, rfl, rfl, rfl, fun _ => Iff.rfl⟩

theorem chanEquiv_trans {a b c : C16.Chan} (h1 : ChanEquiv a b) (h2 : ChanEquiv b c) : ChanEquiv a c :=
  ⟨h1.1.trans h2.1, h1.2.1.trans h2.2.1, h1.2.2.1.trans h2.2.2.1, h1.2.2.2.1.trans h2.2.2.2.1,
   fun x => (h1.2.2.2.2 x).trans (h2.2.2.2.2 x)⟩

/-- the saved channels file and memory answer every `getChannel(name)` alike -/
def ChanAgree (st : St) : Prop :=
  ∀ saved, st.csaved = some saved → ∀ n, ChanEquiv (chanOf saved n) (chanOf st.channels n)

/-- what a command does to channels and their file: it saved, or it left the file alone and
changed no answer of `getChannel` -/
def ChanShape (st st' : St) : Prop :=
  st'.csaved = some st'.channels ∨ (st'.csaved = st.csaved ∧ ∀ n, chanOf st'.channels n = chanOf st.channels n)

theorem chanShape_refl (st : St) : ChanShape st st := Or.inr ⟨rfl, fun _ => rfl⟩

theorem chanAgree_of_saved {st : St} (h : st.csaved = some st.channels) : ChanAgree st := by
  intro saved hsv n
  rw [h] at hsv
  injection hsv with hsv
  rw [hsv]
  exact chanEquiv_refl _

theorem chanAgree_of_shape {st st' : St} (hs : ChanShape st st') (h : ChanAgree st) : ChanAgree st' := by
  rcases hs with hs | ⟨h1, h2⟩
  · exact chanAgree_of_saved hs
  · intro saved hsv n
    rw [h1] at hsv
    rw [h2 n]
    exact h saved hsv n

/-! ## `channel capability set/unset` save whatever they change (repair C02-channel-capability-half-applied) -/

/-- `invertCapability` never raises on a capability (a single word) -/
theorem invert_ok_of_isCapability {c : Str} (h : C03.isCapability c = true) : ∃ i, C03.invertCapability c = .ok i := by
  unfold C03.invertCapability
  simp only [h, Bool.not_true, Bool.false_eq_true, if_false]
  split
  · rename_i ha
    unfold C03.unAntiCapability
    simp only [h, ha, Bool.not_true, Bool.false_eq_true, if_false]
    split <;> exact ⟨_, rfl⟩
  · rename_i ha
    unfold C03.makeAntiCapability
    simp only [h, ha, Bool.not_true, Bool.false_eq_true, if_false]
    split
    · rename_i ch c' hs
      have hcs : C03.isChannel ch = true ∧ C03.isCapability c' = true := by
        unfold C03.chanSplit at hs
        split at hs
        · split at hs
          · rename_i hh
            injection hs with hs
            injection hs with h1 h2
            subst h1; subst h2
            simpa using hh
          · cases hs
        · cases hs
      have hc2 : C03.isCapability ('-' :: c') = true := by
        have := hcs.2
        unfold C03.isCapability at this ⊢
        simp only [List.isEmpty_cons, Bool.not_false, Bool.true_and, List.all_cons, Bool.and_eq_true] at this ⊢
        exact ⟨by decide, this.2⟩
      unfold C03.makeChannelCapability
      simp only [hc2, hcs.1, Bool.not_true, Bool.false_eq_true, if_false]
      exact ⟨_, rfl⟩
    · exact ⟨_, rfl⟩

theorem capAdd_ok_of_isCapability (caps : List Str) {c : Str} (h : C03.isCapability c = true) :
    ∃ s', C03.CapSet.add caps c = .ok s' := by
  obtain ⟨i, hi⟩ := invert_ok_of_isCapability (c := C03.toLower c) (by rw [C03.isCapability_toLower]; exact h)
  unfold C03.CapSet.add
  simp only [hi]
  exact ⟨_, rfl⟩

theorem addCaps_complete (caps l : List Str) (h : l.all C03.isCapability = true) : (addCaps caps l).2 = true := by
  induction l generalizing caps with
  | nil => rfl
  | cons c rest ih =>
    simp only [List.all_cons, Bool.and_eq_true] at h
    obtain ⟨s', hs'⟩ := capAdd_ok_of_isCapability caps h.1
    unfold addCaps
    simp only [h.1, Bool.not_true, Bool.false_eq_true, if_false, hs']
    exact ih s' h.2

theorem removeCaps_complete (caps l : List Str) (h : l.all C03.isCapability = true) : (removeCaps caps l).2.1 = true := by
  induction l generalizing caps with
  | nil => rfl
  | cons c rest ih =>
    simp only [List.all_cons, Bool.and_eq_true] at h
    unfold removeCaps
    simp only [h.1, Bool.not_true, Bool.false_eq_true, if_false]
    split
    · exact ih _ h.2
    · exact ih _ h.2

/-- **`channel capability set` / `unset` are saved or did nothing**: the capabilities are checked
before the live channel record is touched, so whenever the command changed the state at all it
went through `setChannel` and the saved channels file is the channels in memory.  (Before the
repair an argument such as `"\tx"` stopped the loop after earlier capabilities had been removed
in memory only: `unset #chan op "\tx"`, then SIGHUP, and `op` was back.) -/
theorem chanCapSet_saved (cfg : Cfg) (st : St) (pfx chan : Str) (caps : List Str) (c : Cmd)
    (hc : c = .chanCapSet chan caps ∨ c = .chanCapUnset chan caps) :
    (body cfg st pfx c).1 = st ∨ (body cfg st pfx c).1.csaved = some (body cfg st pfx c).1.channels := by
  rcases hc with rfl | rfl
  · simp only [body]
    split
    · exact Or.inl rfl
    · split
      · exact Or.inl rfl
      · split
        · exact Or.inl rfl
        · rename_i hall
          have hall' : caps.all C03.isCapability = true := by simpa using hall
          rw [addCaps_complete _ _ hall']
          exact Or.inr rfl
  · simp only [body]
    split
    · exact Or.inl rfl
    · split
      · exact Or.inl rfl
      · split
        · exact Or.inl rfl
        · rename_i hall
          have hall' : caps.all C03.isCapability = true := by simpa using hall
          rw [removeCaps_complete _ _ hall']
          exact Or.inr rfl

/-! ## every command keeps `ChanAgree` -/

/-- the command left channels and their file untouched -/
def ChanSame (st st' : St) : Prop := st'.channels = st.channels ∧ st'.csaved = st.csaved

theorem chanShape_of_same {st st' : St} (h : ChanSame st st') : ChanShape st st' :=
  Or.inr ⟨h.2, fun n => by rw [h.1]⟩

theorem setUser_chans (cfg : Cfg) (st : St) (id : Nat) (u : C16.User) : ChanSame st (st.setUser cfg id u).1 := by
  unfold St.setUser
  split
  · exact ⟨rfl, rfl⟩
  · simp only []
    split
    · exact ⟨rfl, rfl⟩
    · split
      · exact ⟨rfl, rfl⟩
      · split <;> exact ⟨rfl, rfl⟩
    · split <;> exact ⟨rfl, rfl⟩

theorem finishSet_chans (cfg : Cfg) (st : St) (id : Nat) (u : C16.User) (fl : Bool) :
    ChanSame st (finishSet cfg st id u fl).1 := by
  unfold finishSet
  simp only []
  split
  · cases fl <;> exact setUser_chans cfg st id u
  · show ChanSame st (putUser (st.setUser cfg id u).1 id u)
    exact setUser_chans cfg st id u

theorem finishSet_chans' {cfg : Cfg} {st st' : St} {id : Nat} {u : C16.User} {fl : Bool}
    (h1 : st'.channels = st.channels) (h2 : st'.csaved = st.csaved) : ChanSame st (finishSet cfg st' id u fl).1 :=
  ⟨(finishSet_chans cfg st' id u fl).1.trans h1, (finishSet_chans cfg st' id u fl).2.trans h2⟩

theorem setUser_chans' {cfg : Cfg} {st st' : St} {id : Nat} {u : C16.User}
    (h1 : st'.channels = st.channels) (h2 : st'.csaved = st.csaved) : ChanSame st (st'.setUser cfg id u).1 :=
  ⟨(setUser_chans cfg st' id u).1.trans h1, (setUser_chans cfg st' id u).2.trans h2⟩

macro "chans_auto" : tactic => `(tactic|
  ((repeat' split) <;>
   (first
    | with_reducible exact ⟨rfl, rfl⟩
    | exact finishSet_chans' rfl rfl
    | (show ChanSame _ (flushU (St.setUser _ _ _ _).1); exact setUser_chans' rfl rfl)
    | exact setUser_chans' rfl rfl
    | (show ChanSame _ (putUser (St.setUser _ _ _ _).1 _ _); exact setUser_chans' rfl rfl)
    | exact ⟨rfl, rfl⟩)))

macro "chshape_auto" : tactic => `(tactic|
  ((repeat' split) <;>
   (first
    | exact chanShape_refl _
    | exact Or.inl rfl
    | exact Or.inr ⟨rfl, fun _ => rfl⟩
    | exact Or.inr ⟨rfl, fun n => chanOf_put_same _ _ n⟩)))

/-- **every command keeps the channels file and memory in agreement** -/
theorem body_chanShape (cfg : Cfg) (st : St) (pfx : Str) (c : Cmd) (hc : c ≠ .flushReload) (hr : c ≠ .reload) :
    ChanShape st (body cfg st pfx c).1 := by
  cases c with
  | flushReload => exact absurd rfl hc
  | reload => exact absurd rfl hr
  | register name pw => apply chanShape_of_same; simp only [body, doRegister]; chans_auto
  | unregister name pw =>
    apply chanShape_of_same
    simp only [body]
    refine withOther_ind (fun r => ChanSame st r.1) ⟨rfl, rfl⟩ ?_
    intro id u _ _; chans_auto
  | changename name newname pw =>
    apply chanShape_of_same
    simp only [body]
    split
    · exact ⟨rfl, rfl⟩
    · refine withOther_ind (fun r => ChanSame st r.1) ⟨rfl, rfl⟩ ?_
      intro id u _ _; chans_auto
  | identify name pw =>
    apply chanShape_of_same
    simp only [body]
    split
    · exact ⟨rfl, rfl⟩
    · refine withOther_ind (fun r => ChanSame st r.1) ⟨rfl, rfl⟩ ?_
      intro id u _ _; chans_auto
  | unidentify =>
    apply chanShape_of_same
    simp only [body]
    refine withCaller_ind (fun r => ChanSame st r.1) ⟨rfl, rfl⟩ ?_
    intro id u _; chans_auto
  | hostmaskAdd name hostmask pw =>
    apply chanShape_of_same
    simp only [body]
    split
    · exact ⟨rfl, rfl⟩
    · refine withOther_ind (fun r => ChanSame st r.1) ⟨rfl, rfl⟩ ?_
      intro id u _ _; chans_auto
  | hostmaskRemove name hostmask pw =>
    apply chanShape_of_same
    simp only [body]
    split
    · exact ⟨rfl, rfl⟩
    · refine withOther_ind (fun r => ChanSame st r.1) ⟨rfl, rfl⟩ ?_
      intro id u _ _; chans_auto
  | setPassword name old new =>
    apply chanShape_of_same
    simp only [body]
    split
    · exact ⟨rfl, rfl⟩
    · refine withOther_ind (fun r => ChanSame st r.1) ⟨rfl, rfl⟩ ?_
      intro id u _ _; chans_auto
  | setSecure pw value =>
    apply chanShape_of_same
    simp only [body]
    split
    · exact ⟨rfl, rfl⟩
    · refine withCaller_ind (fun r => ChanSame st r.1) ⟨rfl, rfl⟩ ?_
      intro id u _; chans_auto
  | capAdd name cap0 =>
    apply chanShape_of_same
    simp only [body]
    refine withOther_ind (fun r => ChanSame st r.1) ⟨rfl, rfl⟩ ?_
    intro id u _ _; chans_auto
  | capRemove name cap0 =>
    apply chanShape_of_same
    simp only [body]
    refine withOther_ind (fun r => ChanSame st r.1) ⟨rfl, rfl⟩ ?_
    intro id u _ _; chans_auto
  | chanCapAdd chan name cap =>
    apply chanShape_of_same
    simp only [body]
    split
    · exact ⟨rfl, rfl⟩
    · refine withOther_ind (fun r => ChanSame st r.1) ⟨rfl, rfl⟩ ?_
      intro id u _ _; chans_auto
  | chanCapRemove chan name cap =>
    apply chanShape_of_same
    simp only [body]
    split
    · exact ⟨rfl, rfl⟩
    · refine withOther_ind (fun r => ChanSame st r.1) ⟨rfl, rfl⟩ ?_
      intro id u _ _; chans_auto
  | chanCapSet chan caps =>
    rcases chanCapSet_saved cfg st pfx chan caps _ (Or.inl rfl) with h | h
    · rw [h]; exact chanShape_refl _
    · exact Or.inl h
  | chanCapUnset chan caps =>
    rcases chanCapSet_saved cfg st pfx chan caps _ (Or.inr rfl) with h | h
    · rw [h]; exact chanShape_refl _
    · exact Or.inl h
  | chanSetDefault chan v => simp only [body]; chshape_auto
  | ignoreAdd h0 => simp only [body]; chshape_auto
  | ignoreRemove h0 => simp only [body]; chshape_auto
  | defaultCapAdd cap => simp only [body]; chshape_auto
  | defaultCapRemove cap => simp only [body]; chshape_auto
  | configCaps v => simp only [body]; chshape_auto
  | flushAll => simp only [body, flushAllSt]; chshape_auto
  | upkeep on => simp only [body, flushAllSt]; chshape_auto
  | chanDisable chan plugin command => simp only [body]; chshape_auto
  | chanEnable chan plugin command => simp only [body]; chshape_auto

end C02
