/-
C02 — helper lemmas: how a command can change the user table and the capability lists.
-/
import LimnoriaModel.C02.Model
import LimnoriaModel.C03.Lemmas
import LimnoriaModel.C16.Lemmas
namespace C02
open Py

/-! ## dict helpers -/

theorem mem_dictSet {α β : Type} [DecidableEq α] {k : α} {v : β} {l : List (α × β)} {p : α × β}
    (h : p ∈ C16.dictSet k v l) : p = (k, v) ∨ p ∈ l := by
  unfold C16.dictSet at h
  split at h
  · simp only [List.mem_map] at h
    obtain ⟨q, hq, rfl⟩ := h
    split
    · exact Or.inl rfl
    · exact Or.inr hq
  · simp only [List.mem_append, List.mem_singleton] at h
    rcases h with h | h
    · exact Or.inr h
    · exact Or.inl h

theorem dictGet_mem {α β : Type} [DecidableEq α] {k : α} {v : β} {l : List (α × β)}
    (h : C16.dictGet k l = some v) : (k, v) ∈ l := by
  induction l with
  | nil => simp [C16.dictGet] at h
  | cons p ps ih =>
    simp only [C16.dictGet] at h
    split at h
    · rename_i hk
      injection h with h
      subst h; subst hk
      simp
    · exact List.mem_cons_of_mem _ (ih h)

theorem user_mem {st : St} {id : Nat} {u : C16.User} (h : st.user id = some u) : (id, u) ∈ st.users :=
  dictGet_mem h

theorem mem_putUser {st : St} {id : Nat} {u : C16.User} {p : Nat × C16.User}
    (h : p ∈ (putUser st id u).users) : p = (id, u) ∨ p ∈ st.users := mem_dictSet h

/-- `setUser` leaves the table alone or stores exactly the given record -/
theorem mem_setUser {cfg : Cfg} {st : St} {id : Nat} {u : C16.User} {p : Nat × C16.User}
    (h : p ∈ (st.setUser cfg id u).1.users) : p = (id, u) ∨ p ∈ st.users := by
  unfold St.setUser at h
  split at h
  · exact Or.inr h
  · simp only [] at h
    split at h
    · exact Or.inr h
    · split at h
      · exact Or.inr h
      · split at h
        · exact Or.inr h
        · exact mem_putUser h
    · split at h
      · exact Or.inr h
      · exact mem_putUser h

end C02
