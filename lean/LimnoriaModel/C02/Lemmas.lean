/-
C02 — helper lemmas: how a command can change the user table and the capability lists.
-/
import LimnoriaModel.C02.Model
import LimnoriaModel.C03.Lemmas
import LimnoriaModel.C16.Lemmas
namespace C02
open Py

/-! ## dict helpers -/

theorem mem_dictSet {α β : Type} [DecidableEq α] {k : α} {v : β} {l : List (α × β)} {p : α × β}
    (h : p ∈ C16.dictSet k v l) : p = (k, v) ∨ p ∈ l := by
  unfold C16.dictSet at h
  split at h
  · simp only [List.mem_map] at h
    obtain ⟨q, hq, rfl⟩ := h
    split
    · exact Or.inl rfl
    · exact Or.inr hq
  · simp only [List.mem_append, List.mem_singleton] at h
    rcases h with h | h
    · exact Or.inr h
    · exact Or.inl h

theorem dictGet_mem {α β : Type} [DecidableEq α] {k : α} {v : β} {l : List (α × β)}
    (h : C16.dictGet k l = some v) : (k, v) ∈ l := by
  induction l with
  | nil => simp [C16.dictGet] at h
  | cons p ps ih =>
    simp only [C16.dictGet] at h
    split at h
    · rename_i hk
      injection h with h
      subst h; subst hk
      simp
    · exact List.mem_cons_of_mem _ (ih h)

theorem user_mem {st : St} {id : Nat} {u : C16.User} (h : st.user id = some u) : (id, u) ∈ st.users :=
  dictGet_mem h

theorem mem_putUser {st : St} {id : Nat} {u : C16.User} {p : Nat × C16.User}
    (h : p ∈ (putUser st id u).users) : p = (id, u) ∨ p ∈ st.users := mem_dictSet h

/-- `setUser` leaves the table alone or stores exactly the given record -/
theorem mem_setUser {cfg : Cfg} {st : St} {id : Nat} {u : C16.User} {p : Nat × C16.User}
    (h : p ∈ (st.setUser cfg id u).1.users) : p = (id, u) ∨ p ∈ st.users := by
  unfold St.setUser at h
  split at h
  · exact Or.inr h
  · simp only [] at h
    split at h
    · exact Or.inr h
    · split at h
      · exact Or.inr h
      · split at h
        · exact Or.inr h
        · exact mem_putUser h
    · split at h
      · exact Or.inr h
      · exact mem_putUser h

/-! ## capability lists only shrink, except through the two granting commands -/

/-- every capability in the new table was already held by the same account -/
def Keeps (st st' : St) : Prop :=
  ∀ p ∈ st'.users, ∀ x ∈ p.2.caps, ∃ u, (p.1, u) ∈ st.users ∧ x ∈ u.caps

theorem keeps_of_users_eq {st st' : St} (h : st'.users = st.users) : Keeps st st' := by
  intro p hp x hx
  rw [h] at hp
  exact ⟨p.2, hp, hx⟩

theorem keeps_refl (st : St) : Keeps st st := keeps_of_users_eq rfl

/-- how the capabilities of the record stored by `finishSet` relate to the old record -/
theorem mem_finishSet {cfg : Cfg} {st : St} {id : Nat} {u' : C16.User} {p : Nat × C16.User}
    (h : p ∈ (finishSet cfg st id u').1.users) : p = (id, u') ∨ p ∈ st.users := by
  unfold finishSet at h
  simp only [] at h
  split at h
  · exact mem_setUser h
  · rcases mem_putUser h with h | h
    · exact Or.inl h
    · exact mem_setUser h

theorem keeps_finishSet {cfg : Cfg} {st st0 : St} {id : Nat} {u u' : C16.User}
    (hu : st.user id = some u) (h0 : st0.users = st.users) (hc : ∀ x ∈ u'.caps, x ∈ u.caps) :
    Keeps st (finishSet cfg st0 id u').1 := by
  intro p hp x hx
  rcases mem_finishSet hp with rfl | hp
  · exact ⟨u, user_mem hu, hc x hx⟩
  · rw [h0] at hp
    exact ⟨p.2, hp, hx⟩

theorem withOther_ind {cfg : Cfg} {st : St} {name : Str} {f : Nat → C16.User → St × Bool}
    (P : St × Bool → Prop) (h0 : P (st, false))
    (h1 : ∀ id u, st.otherUser cfg name = some id → st.user id = some u → P (f id u)) :
    P (withOther cfg st name f) := by
  unfold withOther
  split
  · exact h0
  · rename_i id hid
    split
    · exact h0
    · rename_i u hu
      exact h1 id u hid hu

theorem withCaller_ind {st : St} {pfx : Str} {f : Nat → C16.User → St × Bool}
    (P : St × Bool → Prop) (h0 : P (st, false))
    (h1 : ∀ id u, st.user id = some u → P (f id u)) :
    P (withCaller st pfx f) := by
  unfold withCaller
  split
  · split
    · rename_i u hu
      exact h1 _ u hu
    · exact h0
  · exact h0

/-- the two ways a capability can newly appear on account `id` -/
def Granted (cfg : Cfg) (st : St) (pfx : Str) (c : Cmd) (id : Nat) (x : Str) : Prop :=
  (∃ name cap0, c = .capAdd name cap0 ∧ st.otherUser cfg name = some id ∧ x = C03.toLower cap0 ∧
      C03.strEqual (C03.toLower cap0) C03.ownerS = false ∧
      (C03.isAntiCapability (C03.toLower cap0) = true ∨ st.check pfx (C03.toLower cap0) = some true)) ∨
  (∃ chan name cap c1, c = .chanCapAdd chan name cap ∧ st.otherUser cfg name = some id ∧
      st.opGuard pfx chan = true ∧ splitWs cap = [c1] ∧ x = C03.toLower (chan ++ ',' :: c1))

/-- what `UserCapabilitySet.add` can put into a list -/
theorem mem_uadd {caps caps' : List Str} {c x : Str} (h : C03.uadd caps c = .ok caps') (hx : x ∈ caps') :
    x ∈ caps ∨ x = C03.toLower c := by
  unfold C03.uadd at h
  simp only [] at h
  split at h
  · cases h
  · unfold C03.CapSet.add at h
    simp only [] at h
    split at h
    · cases h
    · injection h with h
      subst h
      rcases (C16.mem_capInsert _ _ _).mp hx with hx | hx
      · right; rw [hx, C03.toLower_idem]
      · left; exact ((C16.mem_capErase _ _ _).mp hx).1

theorem mem_capRemove {caps caps' : List Str} {c x : Str} (h : C03.CapSet.remove caps c = .ok caps')
    (hx : x ∈ caps') : x ∈ caps := by
  unfold C03.CapSet.remove at h
  simp only [] at h
  split at h
  · injection h with h
    subst h
    exact ((C16.mem_capErase _ _ _).mp hx).1
  · cases h

theorem keeps_setUser {cfg : Cfg} {st : St} {id : Nat} {u u' : C16.User}
    (hu : st.user id = some u) (hc : ∀ x ∈ u'.caps, x ∈ u.caps) : Keeps st (st.setUser cfg id u').1 := by
  intro p hp x hx
  rcases mem_setUser hp with rfl | hp
  · exact ⟨u, user_mem hu, hc x hx⟩
  · exact ⟨p.2, hp, hx⟩

theorem keeps_put_setUser {cfg : Cfg} {st : St} {id : Nat} {u u' u'' : C16.User}
    (hu : st.user id = some u) (hc : ∀ x ∈ u'.caps, x ∈ u.caps) (hc' : ∀ x ∈ u''.caps, x ∈ u.caps) :
    Keeps st (putUser (st.setUser cfg id u').1 id u'') := by
  intro p hp x hx
  rcases mem_putUser hp with rfl | hp
  · exact ⟨u, user_mem hu, hc' x hx⟩
  · exact keeps_setUser hu hc p hp x hx

/-- closes the goals `Keeps st (…).1` that the case analysis of a command body produces -/
macro "keeps_auto" hu:term : tactic => `(tactic|
  ((repeat' split) <;>
   (first
    | exact keeps_refl _
    | exact keeps_of_users_eq rfl
    | exact keeps_finishSet $hu rfl (fun x hx => hx)
    | exact keeps_finishSet $hu rfl (fun x hx => mem_capRemove (by assumption) hx)
    | exact keeps_setUser $hu (fun x hx => hx)
    | exact keeps_put_setUser $hu (fun x hx => hx) (fun x hx => hx)
    | (intro p hp x hx; exact ⟨p.2, (List.mem_filter.mp hp).1, hx⟩))))

/-- the new table after any command other than a reload: every capability was already there, or
was granted by `capability add` under its guard -/
theorem body_caps (cfg : Cfg) (st : St) (pfx : Str) (c : Cmd) (hc : c ≠ .flushReload) :
    ∀ p ∈ (body cfg st pfx c).1.users, ∀ x ∈ p.2.caps,
      (∃ u, (p.1, u) ∈ st.users ∧ x ∈ u.caps) ∨ Granted cfg st pfx c p.1 x := by
  have lift : ∀ {st' : St}, Keeps st st' → ∀ p ∈ st'.users, ∀ x ∈ p.2.caps,
      (∃ u, (p.1, u) ∈ st.users ∧ x ∈ u.caps) ∨ Granted cfg st pfx c p.1 x :=
    fun hk p hp x hx => Or.inl (hk p hp x hx)
  have triv : ∀ id : Nat, st.user id = st.user id := fun _ => rfl
  cases c with
  | flushReload => exact absurd rfl hc
  | register name pw =>
    apply lift
    simp only [body, doRegister]
    repeat' (first
      | exact keeps_refl _
      | (intro p hp x hx
         simp only [List.mem_append, List.mem_singleton] at hp
         rcases hp with hp | rfl
         · exact ⟨p.2, hp, hx⟩
         · simp at hx)
      | split)
  | unregister name pw =>
    apply lift
    simp only [body]
    refine withOther_ind (fun r => Keeps st r.1) (keeps_refl st) ?_
    intro id u _ hu
    keeps_auto hu
  | changename name newname pw =>
    apply lift
    simp only [body]
    split
    · exact keeps_refl st
    · refine withOther_ind (fun r => Keeps st r.1) (keeps_refl st) ?_
      intro id u _ hu
      keeps_auto hu
  | identify name pw =>
    apply lift
    simp only [body]
    split
    · exact keeps_refl st
    · refine withOther_ind (fun r => Keeps st r.1) (keeps_refl st) ?_
      intro id u _ hu
      keeps_auto hu
  | unidentify =>
    apply lift
    simp only [body]
    refine withCaller_ind (fun r => Keeps st r.1) (keeps_refl st) ?_
    intro id u hu
    keeps_auto hu
  | hostmaskAdd name hostmask pw =>
    apply lift
    simp only [body]
    split
    · exact keeps_refl st
    · refine withOther_ind (fun r => Keeps st r.1) (keeps_refl st) ?_
      intro id u _ hu
      keeps_auto hu
  | hostmaskRemove name hostmask pw =>
    apply lift
    simp only [body]
    split
    · exact keeps_refl st
    · refine withOther_ind (fun r => Keeps st r.1) (keeps_refl st) ?_
      intro id u _ hu
      keeps_auto hu
  | setPassword name old new =>
    apply lift
    simp only [body]
    split
    · exact keeps_refl st
    · refine withOther_ind (fun r => Keeps st r.1) (keeps_refl st) ?_
      intro id u _ hu
      keeps_auto hu
  | setSecure pw value =>
    apply lift
    simp only [body]
    split
    · exact keeps_refl st
    · refine withCaller_ind (fun r => Keeps st r.1) (keeps_refl st) ?_
      intro id u hu
      keeps_auto hu
  | capRemove name cap0 =>
    apply lift
    simp only [body]
    refine withOther_ind (fun r => Keeps st r.1) (keeps_refl st) ?_
    intro id u _ hu
    keeps_auto hu
  | chanCapRemove chan name cap =>
    apply lift
    simp only [body]
    split
    · exact keeps_refl st
    · refine withOther_ind (fun r => Keeps st r.1) (keeps_refl st) ?_
      intro id u _ hu
      keeps_auto hu
  | chanCapSet chan caps => apply lift; simp only [body]; keeps_auto (triv 0)
  | chanCapUnset chan caps => apply lift; simp only [body]; keeps_auto (triv 0)
  | chanSetDefault chan v => apply lift; simp only [body]; keeps_auto (triv 0)
  | ignoreAdd h0 => apply lift; simp only [body]; keeps_auto (triv 0)
  | ignoreRemove h0 => apply lift; simp only [body]; keeps_auto (triv 0)
  | defaultCapAdd cap => apply lift; simp only [body]; keeps_auto (triv 0)
  | defaultCapRemove cap => apply lift; simp only [body]; keeps_auto (triv 0)
  | configCaps v => apply lift; simp only [body]; keeps_auto (triv 0)
  | capAdd name cap0 =>
    simp only [body]
    refine withOther_ind (fun r => ∀ p ∈ r.1.users, ∀ x ∈ p.2.caps,
      (∃ u, (p.1, u) ∈ st.users ∧ x ∈ u.caps) ∨ Granted cfg st pfx (.capAdd name cap0) p.1 x)
      (lift (keeps_refl st)) ?_
    intro id u hid hu
    split
    · exact lift (keeps_refl st)
    · rename_i hne
      split
      · rename_i hent
        split
        · rename_i caps' hadd
          intro p hp x hx
          rcases mem_finishSet hp with rfl | hp
          · rcases mem_uadd hadd hx with hx | hx
            · exact Or.inl ⟨u, user_mem hu, hx⟩
            · right; left
              refine ⟨name, cap0, rfl, hid, ?_, by simpa using hne, ?_⟩
              · rw [hx, C03.toLower_idem]
              · by_cases ha : C03.isAntiCapability (C03.toLower cap0) = true
                · exact Or.inl ha
                · simp only [ha] at hent
                  exact Or.inr (by simpa using hent)
          · exact Or.inl ⟨p.2, hp, hx⟩
        · exact lift (keeps_refl st)
      · exact lift (keeps_refl st)
  | chanCapAdd chan name cap =>
    simp only [body]
    split
    · exact lift (keeps_refl st)
    · rename_i hop
      refine withOther_ind (fun r => ∀ p ∈ r.1.users, ∀ x ∈ p.2.caps,
        (∃ u, (p.1, u) ∈ st.users ∧ x ∈ u.caps) ∨ Granted cfg st pfx (.chanCapAdd chan name cap) p.1 x)
        (lift (keeps_refl st)) ?_
      intro id u hid hu
      split
      · exact lift (keeps_refl st)
      · split
        · rename_i c1 hsplit
          split
          · exact lift (keeps_refl st)
          · rename_i cc hcc
            split
            · exact lift (keeps_refl st)
            · rename_i caps' hadd
              intro p hp x hx
              rcases mem_finishSet hp with rfl | hp
              · rcases mem_uadd hadd hx with hx | hx
                · exact Or.inl ⟨u, user_mem hu, hx⟩
                · right; right
                  refine ⟨chan, name, cap, c1, rfl, hid, by simpa using hop, hsplit, ?_⟩
                  have : cc = chan ++ ',' :: c1 := by
                    unfold C03.makeChannelCapability at hcc
                    split at hcc
                    · cases hcc
                    · split at hcc
                      · cases hcc
                      · injection hcc with hcc; exact hcc.symm
                  rw [hx, this]
              · exact Or.inl ⟨p.2, hp, hx⟩
        · exact lift (keeps_refl st)

end C02
