/-
C02 — helper lemmas: how a command can change the user table and the capability lists.
-/
import LimnoriaModel.C02.Model
import LimnoriaModel.C03.Lemmas
import LimnoriaModel.C16.Reload
namespace C02
open Py

/-! ## dict helpers -/

theorem mem_dictSet {α β : Type} [DecidableEq α] {k : α} {v : β} {l : List (α × β)} {p : α × β}
    (h : p ∈ C16.dictSet k v l) : p = (k, v) ∨ p ∈ l := by
  unfold C16.dictSet at h
  split at h
  · simp only [List.mem_map] at h
    obtain ⟨q, hq, rfl⟩ := h
    split
    · exact Or.inl rfl
    · exact Or.inr hq
  · simp only [List.mem_append, List.mem_singleton] at h
    rcases h with h | h
    · exact Or.inr h
    · exact Or.inl h

theorem dictGet_mem {α β : Type} [DecidableEq α] {k : α} {v : β} {l : List (α × β)}
    (h : C16.dictGet k l = some v) : (k, v) ∈ l := by
  induction l with
  | nil => simp [C16.dictGet] at h
  | cons p ps ih =>
    simp only [C16.dictGet] at h
    split at h
    · rename_i hk
      injection h with h
      subst h; subst hk
      simp
    · exact List.mem_cons_of_mem _ (ih h)

theorem user_mem {st : St} {id : Nat} {u : C16.User} (h : st.user id = some u) : (id, u) ∈ st.users :=
  dictGet_mem h

theorem mem_putUser {st : St} {id : Nat} {u : C16.User} {p : Nat × C16.User}
    (h : p ∈ (putUser st id u).users) : p = (id, u) ∨ p ∈ st.users := mem_dictSet h

/-- `setUser` leaves the table alone or stores exactly the given record -/
theorem mem_setUser {cfg : Cfg} {st : St} {id : Nat} {u : C16.User} {p : Nat × C16.User}
    (h : p ∈ (st.setUser cfg id u).1.users) : p = (id, u) ∨ p ∈ st.users := by
  unfold St.setUser at h
  split at h
  · exact Or.inr h
  · simp only [] at h
    split at h
    · exact Or.inr h
    · split at h
      · exact Or.inr h
      · split at h
        · exact Or.inr h
        · exact mem_putUser h
    · split at h
      · exact Or.inr h
      · exact mem_putUser h

/-! ## capability lists only shrink, except through the two granting commands -/

/-- every capability in the new table was already held by the same account -/
def Keeps (st st' : St) : Prop :=
  ∀ p ∈ st'.users, ∀ x ∈ p.2.caps, ∃ u, (p.1, u) ∈ st.users ∧ x ∈ u.caps

theorem keeps_of_users_eq {st st' : St} (h : st'.users = st.users) : Keeps st st' := by
  intro p hp x hx
  rw [h] at hp
  exact ⟨p.2, hp, hx⟩

theorem keeps_refl (st : St) : Keeps st st := keeps_of_users_eq rfl

/-- how the capabilities of the record stored by `finishSet` relate to the old record -/
theorem mem_finishSet {cfg : Cfg} {st : St} {id : Nat} {u' : C16.User} {fl : Bool} {p : Nat × C16.User}
    (h : p ∈ (finishSet cfg st id u' fl).1.users) : p = (id, u') ∨ p ∈ st.users := by
  unfold finishSet at h
  simp only [] at h
  split at h
  · have h' : p ∈ (st.setUser cfg id u').1.users := by
      cases fl <;> exact h
    exact mem_setUser h'
  · rcases mem_putUser h with h | h
    · exact Or.inl h
    · exact mem_setUser h

theorem keeps_finishSet {cfg : Cfg} {st st0 : St} {id : Nat} {u u' : C16.User} {fl : Bool}
    (hu : st.user id = some u) (h0 : st0.users = st.users) (hc : ∀ x ∈ u'.caps, x ∈ u.caps) :
    Keeps st (finishSet cfg st0 id u' fl).1 := by
  intro p hp x hx
  rcases mem_finishSet hp with rfl | hp
  · exact ⟨u, user_mem hu, hc x hx⟩
  · rw [h0] at hp
    exact ⟨p.2, hp, hx⟩

theorem withOther_ind {cfg : Cfg} {st : St} {name : Str} {f : Nat → C16.User → St × Bool}
    (P : St × Bool → Prop) (h0 : P (st, false))
    (h1 : ∀ id u, st.otherUser cfg name = some id → st.user id = some u → P (f id u)) :
    P (withOther cfg st name f) := by
  unfold withOther
  split
  · exact h0
  · rename_i id hid
    split
    · exact h0
    · rename_i u hu
      exact h1 id u hid hu

theorem withCaller_ind {st : St} {pfx : Str} {f : Nat → C16.User → St × Bool}
    (P : St × Bool → Prop) (h0 : P (st, false))
    (h1 : ∀ id u, st.user id = some u → P (f id u)) :
    P (withCaller st pfx f) := by
  unfold withCaller
  split
  · split
    · rename_i u hu
      exact h1 _ u hu
    · exact h0
  · exact h0

/-- the two ways a capability can newly appear on account `id` -/
def Granted (cfg : Cfg) (st : St) (pfx : Str) (c : Cmd) (id : Nat) (x : Str) : Prop :=
  (∃ name cap0, c = .capAdd name cap0 ∧ st.otherUser cfg name = some id ∧ x = C03.toLower cap0 ∧
      C03.strEqual (C03.toLower cap0) C03.ownerS = false ∧
      (C03.isAntiCapability (C03.toLower cap0) = true ∨ st.check pfx (C03.toLower cap0) = some true)) ∨
  (∃ chan name cap c1, c = .chanCapAdd chan name cap ∧ st.otherUser cfg name = some id ∧
      st.opGuard pfx chan = true ∧ splitWs cap = [c1] ∧ x = C03.toLower (chan ++ ',' :: c1))

/-- what `UserCapabilitySet.add` can put into a list -/
theorem mem_uadd {caps caps' : List Str} {c x : Str} (h : C03.uadd caps c = .ok caps') (hx : x ∈ caps') :
    x ∈ caps ∨ x = C03.toLower c := by
  unfold C03.uadd at h
  simp only [] at h
  split at h
  · cases h
  · unfold C03.CapSet.add at h
    simp only [] at h
    split at h
    · cases h
    · injection h with h
      subst h
      rcases (C16.mem_capInsert _ _ _).mp hx with hx | hx
      · right; rw [hx, C03.toLower_idem]
      · left; exact ((C16.mem_capErase _ _ _).mp hx).1

theorem mem_capRemove {caps caps' : List Str} {c x : Str} (h : C03.CapSet.remove caps c = .ok caps')
    (hx : x ∈ caps') : x ∈ caps := by
  unfold C03.CapSet.remove at h
  simp only [] at h
  split at h
  · injection h with h
    subst h
    exact ((C16.mem_capErase _ _ _).mp hx).1
  · cases h

theorem keeps_setUser {cfg : Cfg} {st : St} {id : Nat} {u u' : C16.User}
    (hu : st.user id = some u) (hc : ∀ x ∈ u'.caps, x ∈ u.caps) : Keeps st (st.setUser cfg id u').1 := by
  intro p hp x hx
  rcases mem_setUser hp with rfl | hp
  · exact ⟨u, user_mem hu, hc x hx⟩
  · exact ⟨p.2, hp, hx⟩

theorem keeps_put_setUser {cfg : Cfg} {st : St} {id : Nat} {u u' u'' : C16.User}
    (hu : st.user id = some u) (hc : ∀ x ∈ u'.caps, x ∈ u.caps) (hc' : ∀ x ∈ u''.caps, x ∈ u.caps) :
    Keeps st (putUser (st.setUser cfg id u').1 id u'') := by
  intro p hp x hx
  rcases mem_putUser hp with rfl | hp
  · exact ⟨u, user_mem hu, hc' x hx⟩
  · exact keeps_setUser hu hc p hp x hx

/-- closes the goals `Keeps st (…).1` that the case analysis of a command body produces -/
macro "keeps_auto" hu:term : tactic => `(tactic|
  ((repeat' split) <;>
   (first
    | exact keeps_refl _
    | exact keeps_of_users_eq rfl
    | exact keeps_finishSet $hu rfl (fun x hx => hx)
    | exact keeps_finishSet $hu rfl (fun x hx => mem_capRemove (by assumption) hx)
    | exact keeps_setUser $hu (fun x hx => hx)
    | exact keeps_put_setUser $hu (fun x hx => hx) (fun x hx => hx)
    | (intro p hp x hx; exact ⟨p.2, (List.mem_filter.mp hp).1, hx⟩))))

/-- the new table after any command other than a reload: every capability was already there, or
was granted by `capability add` under its guard -/
theorem body_caps (cfg : Cfg) (st : St) (pfx : Str) (c : Cmd) (hc : c ≠ .flushReload) (hr : c ≠ .reload) :
    ∀ p ∈ (body cfg st pfx c).1.users, ∀ x ∈ p.2.caps,
      (∃ u, (p.1, u) ∈ st.users ∧ x ∈ u.caps) ∨ Granted cfg st pfx c p.1 x := by
  have lift : ∀ {st' : St}, Keeps st st' → ∀ p ∈ st'.users, ∀ x ∈ p.2.caps,
      (∃ u, (p.1, u) ∈ st.users ∧ x ∈ u.caps) ∨ Granted cfg st pfx c p.1 x :=
    fun hk p hp x hx => Or.inl (hk p hp x hx)
  have triv : ∀ id : Nat, st.user id = st.user id := fun _ => rfl
  cases c with
  | flushReload => exact absurd rfl hc
  | reload => exact absurd rfl hr
  | register name pw =>
    apply lift
    simp only [body, doRegister]
    repeat' (first
      | exact keeps_refl _
      | (unfold Keeps
         dsimp only [flushU]
         intro p hp x hx
         simp only [List.mem_append, List.mem_singleton] at hp
         rcases hp with hp | rfl
         · exact ⟨p.2, hp, hx⟩
         · simp at hx)
      | split)
  | unregister name pw =>
    apply lift
    simp only [body]
    refine withOther_ind (fun r => Keeps st r.1) (keeps_refl st) ?_
    intro id u _ hu
    keeps_auto hu
  | changename name newname pw =>
    apply lift
    simp only [body]
    split
    · exact keeps_refl st
    · refine withOther_ind (fun r => Keeps st r.1) (keeps_refl st) ?_
      intro id u _ hu
      keeps_auto hu
  | identify name pw =>
    apply lift
    simp only [body]
    split
    · exact keeps_refl st
    · refine withOther_ind (fun r => Keeps st r.1) (keeps_refl st) ?_
      intro id u _ hu
      keeps_auto hu
  | unidentify =>
    apply lift
    simp only [body]
    refine withCaller_ind (fun r => Keeps st r.1) (keeps_refl st) ?_
    intro id u hu
    keeps_auto hu
  | hostmaskAdd name hostmask pw =>
    apply lift
    simp only [body]
    split
    · exact keeps_refl st
    · refine withOther_ind (fun r => Keeps st r.1) (keeps_refl st) ?_
      intro id u _ hu
      keeps_auto hu
  | hostmaskRemove name hostmask pw =>
    apply lift
    simp only [body]
    split
    · exact keeps_refl st
    · refine withOther_ind (fun r => Keeps st r.1) (keeps_refl st) ?_
      intro id u _ hu
      keeps_auto hu
  | setPassword name old new =>
    apply lift
    simp only [body]
    split
    · exact keeps_refl st
    · refine withOther_ind (fun r => Keeps st r.1) (keeps_refl st) ?_
      intro id u _ hu
      keeps_auto hu
  | setSecure pw value =>
    apply lift
    simp only [body]
    split
    · exact keeps_refl st
    · refine withCaller_ind (fun r => Keeps st r.1) (keeps_refl st) ?_
      intro id u hu
      keeps_auto hu
  | capRemove name cap0 =>
    apply lift
    simp only [body]
    refine withOther_ind (fun r => Keeps st r.1) (keeps_refl st) ?_
    intro id u _ hu
    keeps_auto hu
  | chanCapRemove chan name cap =>
    apply lift
    simp only [body]
    split
    · exact keeps_refl st
    · refine withOther_ind (fun r => Keeps st r.1) (keeps_refl st) ?_
      intro id u _ hu
      keeps_auto hu
  | chanCapSet chan caps => apply lift; simp only [body]; keeps_auto (triv 0)
  | chanCapUnset chan caps => apply lift; simp only [body]; keeps_auto (triv 0)
  | chanSetDefault chan v => apply lift; simp only [body]; keeps_auto (triv 0)
  | ignoreAdd h0 => apply lift; simp only [body]; keeps_auto (triv 0)
  | ignoreRemove h0 => apply lift; simp only [body]; keeps_auto (triv 0)
  | defaultCapAdd cap => apply lift; simp only [body]; keeps_auto (triv 0)
  | defaultCapRemove cap => apply lift; simp only [body]; keeps_auto (triv 0)
  | configCaps v => apply lift; simp only [body]; keeps_auto (triv 0)
  | flushAll => apply lift; simp only [body, flushAllSt]; keeps_auto (triv 0)
  | upkeep on => apply lift; simp only [body, flushAllSt]; keeps_auto (triv 0)
  | chanDisable chan plugin command => apply lift; simp only [body]; keeps_auto (triv 0)
  | chanEnable chan plugin command => apply lift; simp only [body]; keeps_auto (triv 0)
  | capAdd name cap0 =>
    simp only [body]
    refine withOther_ind (fun r => ∀ p ∈ r.1.users, ∀ x ∈ p.2.caps,
      (∃ u, (p.1, u) ∈ st.users ∧ x ∈ u.caps) ∨ Granted cfg st pfx (.capAdd name cap0) p.1 x)
      (lift (keeps_refl st)) ?_
    intro id u hid hu
    split
    · exact lift (keeps_refl st)
    · rename_i hne
      split
      · rename_i hent
        split
        · rename_i caps' hadd
          intro p hp x hx
          rcases mem_finishSet hp with rfl | hp
          · rcases mem_uadd hadd hx with hx | hx
            · exact Or.inl ⟨u, user_mem hu, hx⟩
            · right; left
              refine ⟨name, cap0, rfl, hid, ?_, by simpa using hne, ?_⟩
              · rw [hx, C03.toLower_idem]
              · by_cases ha : C03.isAntiCapability (C03.toLower cap0) = true
                · exact Or.inl ha
                · simp only [ha] at hent
                  exact Or.inr (by simpa using hent)
          · exact Or.inl ⟨p.2, hp, hx⟩
        · exact lift (keeps_refl st)
      · exact lift (keeps_refl st)
  | chanCapAdd chan name cap =>
    simp only [body]
    split
    · exact lift (keeps_refl st)
    · rename_i hop
      refine withOther_ind (fun r => ∀ p ∈ r.1.users, ∀ x ∈ p.2.caps,
        (∃ u, (p.1, u) ∈ st.users ∧ x ∈ u.caps) ∨ Granted cfg st pfx (.chanCapAdd chan name cap) p.1 x)
        (lift (keeps_refl st)) ?_
      intro id u hid hu
      split
      · exact lift (keeps_refl st)
      · split
        · rename_i c1 hsplit
          split
          · exact lift (keeps_refl st)
          · rename_i cc hcc
            split
            · exact lift (keeps_refl st)
            · rename_i caps' hadd
              intro p hp x hx
              rcases mem_finishSet hp with rfl | hp
              · rcases mem_uadd hadd hx with hx | hx
                · exact Or.inl ⟨u, user_mem hu, hx⟩
                · right; right
                  refine ⟨chan, name, cap, c1, rfl, hid, by simpa using hop, hsplit, ?_⟩
                  have : cc = chan ++ ',' :: c1 := by
                    unfold C03.makeChannelCapability at hcc
                    split at hcc
                    · cases hcc
                    · split at hcc
                      · cases hcc
                      · injection hcc with hcc; exact hcc.symm
                  rw [hx, this]
              · exact Or.inl ⟨p.2, hp, hx⟩
        · exact lift (keeps_refl st)

/-! ## the invariant that makes flush+reload harmless -/

open C16 in
/-- every stored field is free of line breaks (a hostmask may end with one LF), capabilities are
clean lower-case words, and a record left in the reader's class attribute is harmless -/
structure Inv (st : St) : Prop where
  users : ∀ p ∈ st.users, SafeUser p.2
  cu : ∀ c, st.cu = some c → SafeUser c.u
  cuok : CuOk st.cu
  fresh : CuFresh st.cu

/-- contract of the `saltHash` parameter: its values contain no line break -/
def HashSafe (cfg : Cfg) : Prop := ∀ p, C16.noBreak (cfg.hash p)

def SafeUsers (st : St) : Prop := ∀ p ∈ st.users, C16.SafeUser p.2

theorem noBreak_of_not_hasLineBreak {v : Str} (h : C16.hasLineBreak v = false) : C16.noBreak v := by
  intro c hc
  simp only [C16.hasLineBreak, List.any_eq_false, Bool.or_eq_true, decide_eq_true_eq, not_or] at h
  have := h c hc
  simp [C16.isBreak, this.1, this.2]

theorem isUserHostmask_lfCore {h : Str} (hh : C03.isUserHostmask h = true) : C16.noBreak (C16.lfCore h) := by
  unfold C03.isUserHostmask at hh
  simp only [Bool.and_eq_true, List.all_eq_true, Bool.not_eq_true'] at hh
  have hall := hh.1
  unfold C16.lfCore
  have key : ∀ (b : Str), (∀ x ∈ b, isSpace x = false) → C16.noBreak b := by
    intro b hb c hc
    have := hb c hc
    cases hbk : C16.isBreak c with
    | false => rfl
    | true =>
      simp only [C16.isBreak, Bool.or_eq_true, decide_eq_true_eq] at hbk
      rcases hbk with rfl | rfl <;> revert this <;> decide
  by_cases hl : h.getLast? = some '\n'
  · have e : (h.getLast? == some '\n') = true := by simp [hl]
    simp only [e, if_true] at hall
    simp only [hl, if_true]
    exact key _ hall
  · have e : (h.getLast? == some '\n') = false := by simpa using hl
    simp only [e, Bool.false_eq_true, if_false] at hall
    simp only [hl, if_false]
    exact key _ hall

section
open C16

theorem safe_name {u : User} (h : SafeUser u) {n : Str} (hn : noBreak n) : SafeUser { u with name := n } :=
  ⟨hn, h.password, h.caps, h.hostmasks, h.nicks, h.gpgkeys⟩
theorem safe_hostmasks {u : User} (h : SafeUser u) {hs : List Str} (hh : ∀ x ∈ hs, noBreak (lfCore x)) :
    SafeUser { u with hostmasks := hs } :=
  ⟨h.name, h.password, h.caps, hh, h.nicks, h.gpgkeys⟩
theorem safe_password {u : User} (h : SafeUser u) {p : Str} (b : Bool) (hp : noBreak p) :
    SafeUser { u with hashed := b, password := p } :=
  ⟨h.name, hp, h.caps, h.hostmasks, h.nicks, h.gpgkeys⟩
theorem safe_secure {u : User} (h : SafeUser u) (b : Bool) : SafeUser { u with secure := b } :=
  ⟨h.name, h.password, h.caps, h.hostmasks, h.nicks, h.gpgkeys⟩

theorem user_safe {st : St} (h : SafeUsers st) {id : Nat} {u : User} (hu : st.user id = some u) : SafeUser u :=
  h (id, u) (user_mem hu)

theorem safe_setUser {cfg : Cfg} {st : St} (h : SafeUsers st) {id : Nat} {u' : User} (hu' : SafeUser u') :
    SafeUsers (st.setUser cfg id u').1 := by
  intro p hp
  rcases mem_setUser hp with rfl | hp
  · exact hu'
  · exact h p hp

theorem safe_put_setUser {cfg : Cfg} {st : St} (h : SafeUsers st) {id : Nat} {u' u'' : User}
    (hu' : SafeUser u') (hu'' : SafeUser u'') : SafeUsers (putUser (st.setUser cfg id u').1 id u'') := by
  intro p hp
  rcases mem_putUser hp with rfl | hp
  · exact hu''
  · exact safe_setUser h hu' p hp

theorem safe_finishSet {cfg : Cfg} {st st0 : St} (h : SafeUsers st) (h0 : st0.users = st.users) {id : Nat}
    {u' : User} {fl : Bool} (hu' : SafeUser u') : SafeUsers (finishSet cfg st0 id u' fl).1 := by
  intro p hp
  rcases mem_finishSet hp with rfl | hp
  · exact hu'
  · rw [h0] at hp; exact h p hp

theorem safe_of_users_eq {st st' : St} (h : SafeUsers st) (e : st'.users = st.users) : SafeUsers st' := by
  intro p hp; rw [e] at hp; exact h p hp

theorem ircSetAdd_safe {hs : List Str} {x : Str} (h : ∀ y ∈ hs, noBreak (lfCore y)) (hx : noBreak (lfCore x)) :
    ∀ y ∈ ircSetAdd hs x, noBreak (lfCore y) := by
  intro y hy
  unfold ircSetAdd at hy
  split at hy
  · exact h y hy
  · rcases List.mem_append.mp hy with hy | hy
    · exact h y hy
    · simp only [List.mem_singleton] at hy; subst hy; exact hx

theorem capRemove_safe {caps caps' : List Str} {c : Str} (h : C03.CapSet.remove caps c = .ok caps')
    (hc : ∀ x ∈ caps, clean x = true ∧ C03.toLower x = x) : ∀ x ∈ caps', clean x = true ∧ C03.toLower x = x :=
  fun x hx => hc x (mem_capRemove h hx)

end

/-- closes the goals `SafeUsers (…).1` of the case analysis of a command body -/
macro "safe_auto" h:term "," hu:term : tactic => `(tactic|
  ((repeat' split) <;>
   (first
    | with_reducible exact $h
    | (refine safe_finishSet $h ?_ (user_safe $h $hu); rfl)
    | exact safe_finishSet $h rfl (safe_secure (user_safe $h $hu) _)
    | exact safe_finishSet $h rfl (safe_hostmasks (user_safe $h $hu) (fun x hx => (by cases hx)))
    | exact safe_finishSet $h rfl (safe_hostmasks (user_safe $h $hu)
        (fun x hx => (user_safe $h $hu).hostmasks x (List.mem_filter.mp hx).1))
    | exact safe_finishSet $h rfl (C16.safeUser_caps (user_safe $h $hu) _
        (capRemove_safe (by assumption) (user_safe $h $hu).caps))
    | exact safe_finishSet $h rfl (C16.safeUser_caps (user_safe $h $hu) _
        (C16.uadd_safe (by assumption) (user_safe $h $hu).caps))
    | with_reducible exact safe_of_users_eq $h rfl
    | (intro p hp; exact $h p (List.mem_filter.mp hp).1))))

/-- commands other than a reload keep every stored field line-safe -/
theorem body_safe (cfg : Cfg) (hcfg : HashSafe cfg) (st : St) (pfx : Str) (hpfx : C16.noBreak pfx) (c : Cmd)
    (hc : c ≠ .flushReload) (hr : c ≠ .reload) (h : SafeUsers st) : SafeUsers (body cfg st pfx c).1 := by
  have triv : st.user 0 = st.user 0 := rfl
  cases c with
  | flushReload => exact absurd rfl hc
  | reload => exact absurd rfl hr
  | register name pw =>
    simp only [body, doRegister]
    repeat' (first
      | exact h
      | (unfold SafeUsers
         dsimp only [flushU]
         intro p hp
         simp only [List.mem_append, List.mem_singleton] at hp
         rcases hp with hp | rfl
         · exact h p hp
         · have hlb : C16.hasLineBreak name = false := by simpa using ‹¬C16.hasLineBreak name = true›
           refine ⟨noBreak_of_not_hasLineBreak hlb, hcfg _, fun c hc => (by cases hc), ?_,
             fun c hc => (by cases hc), fun c hc => (by cases hc)⟩
           intro x hx
           first
           | (simp only [List.mem_singleton] at hx
              subst hx
              rw [(C16.lfCore_of_noBreak hpfx).1]; exact hpfx)
           | cases hx)
      | split)
  | unregister name pw =>
    simp only [body]
    refine withOther_ind (fun r => SafeUsers r.1) h ?_
    intro id u _ hu
    safe_auto h, hu
  | changename name newname pw =>
    simp only [body]
    split
    · exact h
    · refine withOther_ind (fun r => SafeUsers r.1) h ?_
      intro id u _ hu
      split
      · exact h
      · split
        · exact h
        · split
          · exact h
          · rename_i hlb
            split
            · exact safe_finishSet h rfl (safe_name (user_safe h hu) (noBreak_of_not_hasLineBreak (by simpa using hlb)))
            · exact h
  | identify name pw =>
    simp only [body]
    split
    · exact h
    · refine withOther_ind (fun r => SafeUsers r.1) h ?_
      intro id u _ hu
      split
      · split
        · refine safe_finishSet h ?_ (user_safe h hu)
          rfl
        · exact h
      · exact h
  | unidentify =>
    simp only [body]
    refine withCaller_ind (fun r => SafeUsers r.1) h ?_
    intro id u hu
    refine safe_finishSet h ?_ (user_safe h hu)
    rfl
  | hostmaskAdd name hostmask pw =>
    simp only [body]
    split
    · exact h
    · refine withOther_ind (fun r => SafeUsers r.1) h ?_
      intro id u _ hu
      split
      · exact h
      · split
        · exact h
        · rename_i hhm
          have hsafe : ∀ y ∈ C16.ircSetAdd u.hostmasks hostmask, C16.noBreak (C16.lfCore y) :=
            ircSetAdd_safe (user_safe h hu).hostmasks (isUserHostmask_lfCore (by simpa using hhm))
          have s1 := safe_hostmasks (user_safe h hu) hsafe
          have s2 : ∀ hs' : List Str, (∀ x ∈ hs', x ∈ C16.ircSetAdd u.hostmasks hostmask) →
              C16.SafeUser { u with hostmasks := hs' } :=
            fun hs' hsub => safe_hostmasks (user_safe h hu) (fun x hx => hsafe x (hsub x hx))
          (repeat' split) <;>
            first
            | exact h
            | exact safe_setUser h s1
            | exact safe_put_setUser h s1 (s2 _ (fun x hx => (List.mem_filter.mp hx).1))
            | exact safe_put_setUser h s1 s1
  | hostmaskRemove name hostmask pw =>
    simp only [body]
    split
    · exact h
    · refine withOther_ind (fun r => SafeUsers r.1) h ?_
      intro id u _ hu
      safe_auto h, hu
  | setPassword name old new =>
    simp only [body]
    split
    · exact h
    · refine withOther_ind (fun r => SafeUsers r.1) h ?_
      intro id u _ hu
      (repeat' split) <;>
        first
        | exact h
        | exact safe_finishSet h rfl (safe_password (user_safe h hu) true (hcfg _))
  | setSecure pw value =>
    simp only [body]
    split
    · exact h
    · refine withCaller_ind (fun r => SafeUsers r.1) h ?_
      intro id u hu
      safe_auto h, hu
  | capAdd name cap0 =>
    simp only [body]
    refine withOther_ind (fun r => SafeUsers r.1) h ?_
    intro id u _ hu
    safe_auto h, hu
  | capRemove name cap0 =>
    simp only [body]
    refine withOther_ind (fun r => SafeUsers r.1) h ?_
    intro id u _ hu
    safe_auto h, hu
  | chanCapAdd chan name cap =>
    simp only [body]
    split
    · exact h
    · refine withOther_ind (fun r => SafeUsers r.1) h ?_
      intro id u _ hu
      safe_auto h, hu
  | chanCapRemove chan name cap =>
    simp only [body]
    split
    · exact h
    · refine withOther_ind (fun r => SafeUsers r.1) h ?_
      intro id u _ hu
      safe_auto h, hu
  | chanCapSet chan caps => simp only [body]; safe_auto h, triv
  | chanCapUnset chan caps => simp only [body]; safe_auto h, triv
  | chanSetDefault chan v => simp only [body]; safe_auto h, triv
  | ignoreAdd h0 => simp only [body]; safe_auto h, triv
  | ignoreRemove h0 => simp only [body]; safe_auto h, triv
  | defaultCapAdd cap => simp only [body]; safe_auto h, triv
  | defaultCapRemove cap => simp only [body]; safe_auto h, triv
  | configCaps v => simp only [body]; safe_auto h, triv
  | flushAll => simp only [body, flushAllSt]; safe_auto h, triv
  | upkeep on => simp only [body, flushAllSt]; safe_auto h, triv
  | chanDisable chan plugin command => simp only [body]; safe_auto h, triv
  | chanEnable chan plugin command => simp only [body]; safe_auto h, triv

/-! ### commands never touch the reader's class attribute -/

theorem setUser_cu (cfg : Cfg) (st : St) (id : Nat) (u : C16.User) : (st.setUser cfg id u).1.cu = st.cu := by
  unfold St.setUser
  split
  · rfl
  · simp only []
    split
    · rfl
    · split
      · rfl
      · split <;> rfl
    · split <;> rfl

theorem finishSet_cu (cfg : Cfg) (st : St) (id : Nat) (u : C16.User) (fl : Bool) :
    (finishSet cfg st id u fl).1.cu = st.cu := by
  unfold finishSet
  simp only []
  split
  · cases fl <;> exact setUser_cu cfg st id u
  · show (putUser (st.setUser cfg id u).1 id u).cu = st.cu
    exact setUser_cu cfg st id u

macro "cu_auto" : tactic => `(tactic|
  ((repeat' split) <;>
   (first
    | rfl
    | exact finishSet_cu _ _ _ _ _
    | (show (flushU (St.setUser _ _ _ _).1).cu = _; exact setUser_cu _ _ _ _)
    | exact setUser_cu _ _ _ _
    | (show (putUser (St.setUser _ _ _ _).1 _ _).cu = _; exact setUser_cu _ _ _ _))))

theorem body_cu (cfg : Cfg) (st : St) (pfx : Str) (c : Cmd) (hc : c ≠ .flushReload) (hr : c ≠ .reload) :
    (body cfg st pfx c).1.cu = st.cu := by
  cases c with
  | flushReload => exact absurd rfl hc
  | reload => exact absurd rfl hr
  | register name pw => simp only [body, doRegister]; cu_auto
  | unregister name pw =>
    simp only [body]
    refine withOther_ind (fun r => r.1.cu = st.cu) rfl ?_
    intro id u _ _; cu_auto
  | changename name newname pw =>
    simp only [body]
    split
    · rfl
    · refine withOther_ind (fun r => r.1.cu = st.cu) rfl ?_
      intro id u _ _; cu_auto
  | identify name pw =>
    simp only [body]
    split
    · rfl
    · refine withOther_ind (fun r => r.1.cu = st.cu) rfl ?_
      intro id u _ _; cu_auto
  | unidentify =>
    simp only [body]
    refine withCaller_ind (fun r => r.1.cu = st.cu) rfl ?_
    intro id u _; cu_auto
  | hostmaskAdd name hostmask pw =>
    simp only [body]
    split
    · rfl
    · refine withOther_ind (fun r => r.1.cu = st.cu) rfl ?_
      intro id u _ _; cu_auto
  | hostmaskRemove name hostmask pw =>
    simp only [body]
    split
    · rfl
    · refine withOther_ind (fun r => r.1.cu = st.cu) rfl ?_
      intro id u _ _; cu_auto
  | setPassword name old new =>
    simp only [body]
    split
    · rfl
    · refine withOther_ind (fun r => r.1.cu = st.cu) rfl ?_
      intro id u _ _; cu_auto
  | setSecure pw value =>
    simp only [body]
    split
    · rfl
    · refine withCaller_ind (fun r => r.1.cu = st.cu) rfl ?_
      intro id u _; cu_auto
  | capAdd name cap0 =>
    simp only [body]
    refine withOther_ind (fun r => r.1.cu = st.cu) rfl ?_
    intro id u _ _; cu_auto
  | capRemove name cap0 =>
    simp only [body]
    refine withOther_ind (fun r => r.1.cu = st.cu) rfl ?_
    intro id u _ _; cu_auto
  | chanCapAdd chan name cap =>
    simp only [body]
    split
    · rfl
    · refine withOther_ind (fun r => r.1.cu = st.cu) rfl ?_
      intro id u _ _; cu_auto
  | chanCapRemove chan name cap =>
    simp only [body]
    split
    · rfl
    · refine withOther_ind (fun r => r.1.cu = st.cu) rfl ?_
      intro id u _ _; cu_auto
  | chanCapSet chan caps => simp only [body]; cu_auto
  | chanCapUnset chan caps => simp only [body]; cu_auto
  | chanSetDefault chan v => simp only [body]; cu_auto
  | ignoreAdd h0 => simp only [body]; cu_auto
  | ignoreRemove h0 => simp only [body]; cu_auto
  | defaultCapAdd cap => simp only [body]; cu_auto
  | defaultCapRemove cap => simp only [body]; cu_auto
  | configCaps v => simp only [body]; cu_auto
  | flushAll => simp only [body, flushAllSt]; cu_auto
  | upkeep on => simp only [body, flushAllSt]; cu_auto
  | chanDisable chan plugin command => simp only [body]; cu_auto
  | chanEnable chan plugin command => simp only [body]; cu_auto

/-! ## the saved users.conf never holds a capability that memory has dropped -/

theorem dictGet_dictSet_same {α β : Type} [DecidableEq α] (k : α) (v : β) (l : List (α × β)) :
    C16.dictGet k (C16.dictSet k v l) = some v := by
  unfold C16.dictSet
  split
  · rename_i h
    induction l with
    | nil => simp at h
    | cons p ps ih =>
      simp only [List.map_cons, C16.dictGet]
      by_cases hp : p.1 = k
      · simp [hp]
      · simp only [hp, if_false]
        apply ih
        simpa [hp] using h
  · rename_i h
    induction l with
    | nil => simp [C16.dictGet]
    | cons p ps ih =>
      have hp : p.1 ≠ k := by intro e; apply h; simp [e]
      simp only [List.cons_append, C16.dictGet, hp, if_false]
      apply ih
      intro h'; apply h
      simp only [List.any_cons, Bool.or_eq_true]; exact Or.inr h'

theorem dictGet_map_other {α β : Type} [DecidableEq α] (k k' : α) (v : β) (l : List (α × β)) (hk : k' ≠ k) :
    C16.dictGet k' (l.map (fun p => if p.1 = k then (k, v) else p)) = C16.dictGet k' l := by
  induction l with
  | nil => rfl
  | cons p ps ih =>
    simp only [List.map_cons, C16.dictGet]
    by_cases hp : p.1 = k
    · have h1 : p.1 ≠ k' := by rw [hp]; exact fun e => hk e.symm
      simp only [hp, if_true, hk.symm, if_false]
      first
      | exact ih
      | (simp only [h1, if_false]; exact ih)
    · simp only [hp, if_false]
      by_cases hp' : p.1 = k'
      · simp [hp']
      · simp only [hp', if_false]; exact ih

theorem dictGet_append_other {α β : Type} [DecidableEq α] (k k' : α) (v : β) (l : List (α × β)) (hk : k' ≠ k) :
    C16.dictGet k' (l ++ [(k, v)]) = C16.dictGet k' l := by
  induction l with
  | nil => simp [C16.dictGet, hk.symm]
  | cons p ps ih =>
    simp only [List.cons_append, C16.dictGet]
    by_cases hp' : p.1 = k'
    · simp [hp']
    · simp only [hp', if_false]; exact ih

theorem dictGet_dictSet_other {α β : Type} [DecidableEq α] (k k' : α) (v : β) (l : List (α × β)) (hk : k' ≠ k) :
    C16.dictGet k' (C16.dictSet k v l) = C16.dictGet k' l := by
  unfold C16.dictSet
  split
  · exact dictGet_map_other k k' v l hk
  · exact dictGet_append_other k k' v l hk

theorem dictGet_of_mem_nodup {α β : Type} [DecidableEq α] {l : List (α × β)} (h : (l.map (·.1)).Nodup)
    {k : α} {v : β} (hm : (k, v) ∈ l) : C16.dictGet k l = some v := by
  induction l with
  | nil => cases hm
  | cons p ps ih =>
    simp only [List.map_cons, List.nodup_cons] at h
    simp only [C16.dictGet]
    rcases List.mem_cons.mp hm with rfl | hm
    · simp
    · have : p.1 ≠ k := by
        intro e
        apply h.1
        rw [e]
        exact List.mem_map_of_mem (f := (·.1)) hm
      simp only [this, if_false]
      exact ih h.2 hm

theorem dictGet_append_left {α β : Type} [DecidableEq α] {l m : List (α × β)} {k : α} {v : β}
    (h : C16.dictGet k l = some v) : C16.dictGet k (l ++ m) = some v := by
  induction l with
  | nil => simp [C16.dictGet] at h
  | cons p ps ih =>
    simp only [List.cons_append, C16.dictGet] at h ⊢
    split
    · rename_i hp; simpa [hp] using h
    · rename_i hp; simp only [hp, if_false] at h; exact ih h

/-- one record per id, none above `nextId` -/
def IdsOk (st : St) : Prop := (st.users.map (·.1)).Nodup ∧ ∀ p ∈ st.users, p.1 ≤ st.nextId

/-- the file on disk is what `users.flush()` writes for the present table -/
def Saved (st : St) : Prop := st.usaved = some { users := st.users, nextId := st.nextId }

/-- every capability of every account keeps being held by that account -/
def UserGrow (st st' : St) : Prop :=
  ∀ i u, st.user i = some u → ∃ u', st'.user i = some u' ∧ ∀ x ∈ u.caps, x ∈ u'.caps

/-- every capability in the records `fu` is held, in memory, by the account with the same id -/
def HeldBy (fu : List (Nat × C16.User)) (st : St) : Prop :=
  ∀ p ∈ fu, ∀ x ∈ p.2.caps, ∃ u, st.user p.1 = some u ∧ x ∈ u.caps

/-- **the saved file lags behind memory only by capabilities memory still has**: the records in
users.conf have line-safe fields and every capability in them is still held in memory — or the
reader's class attribute holds a record with an id, in which case nothing can be loaded at all -/
def FileOk (st : St) : Prop :=
  ∀ db, st.usaved = some db → (∀ p ∈ db.users, C16.SafeUser p.2) ∧ (HeldBy db.users st ∨ C16.Stuck st.cu)

theorem userGrow_refl (st : St) : UserGrow st st := fun _ u h => ⟨u, h, fun _ hx => hx⟩

theorem userGrow_of_users_eq {st st' : St} (h : st'.users = st.users) : UserGrow st st' := by
  intro i u hu
  exact ⟨u, by unfold St.user at hu ⊢; rw [h]; exact hu, fun _ hx => hx⟩

theorem userGrow_trans {a b c : St} (h1 : UserGrow a b) (h2 : UserGrow b c) : UserGrow a c := by
  intro i u hu
  obtain ⟨u', hu', h'⟩ := h1 i u hu
  obtain ⟨u'', hu'', h''⟩ := h2 i u' hu'
  exact ⟨u'', hu'', fun x hx => h'' x (h' x hx)⟩

theorem userGrow_put {st st1 : St} {id : Nat} {u u' : C16.User} (hu : st.user id = some u)
    (h1 : st1.users = st.users ∨ st1.users = C16.dictSet id u' st.users)
    (hsub : ∀ x ∈ u.caps, x ∈ u'.caps) : UserGrow st (putUser st1 id u') := by
  intro i v hv
  unfold St.user putUser at *
  simp only []
  by_cases hi : i = id
  · subst hi
    rw [hu] at hv; injection hv with hv; subst hv
    exact ⟨u', dictGet_dictSet_same _ _ _, hsub⟩
  · refine ⟨v, ?_, fun _ hx => hx⟩
    rw [dictGet_dictSet_other _ _ _ _ hi]
    rcases h1 with h1 | h1
    · rw [h1]; exact hv
    · rw [h1, dictGet_dictSet_other _ _ _ _ hi]; exact hv

/-- `setUser` either leaves the table alone or stores exactly the given record -/
theorem setUser_users_cases (cfg : Cfg) (st : St) (id : Nat) (u : C16.User) :
    ((st.setUser cfg id u).1.users = st.users ∧ (st.setUser cfg id u).2 ≠ .ok) ∨
    ((st.setUser cfg id u).1.users = C16.dictSet id u st.users ∧ (st.setUser cfg id u).2 = .ok) := by
  unfold St.setUser
  split
  · exact Or.inl ⟨rfl, by simp⟩
  · simp only []
    split
    · exact Or.inl ⟨rfl, by simp⟩
    · split
      · exact Or.inl ⟨rfl, by simp⟩
      · split
        · exact Or.inl ⟨rfl, by simp⟩
        · exact Or.inr ⟨rfl, rfl⟩
    · split
      · exact Or.inl ⟨rfl, by simp⟩
      · exact Or.inr ⟨rfl, rfl⟩

theorem setUser_ufile (cfg : Cfg) (st : St) (id : Nat) (u : C16.User) : (st.setUser cfg id u).1.usaved = st.usaved := by
  unfold St.setUser
  split
  · rfl
  · simp only []
    split
    · rfl
    · split
      · rfl
      · split <;> rfl
    · split <;> rfl

theorem userGrow_setUser {cfg : Cfg} {st : St} {id : Nat} {u u' : C16.User} (hu : st.user id = some u)
    (hsub : ∀ x ∈ u.caps, x ∈ u'.caps) : UserGrow st (st.setUser cfg id u').1 := by
  rcases setUser_users_cases cfg st id u' with ⟨h, _⟩ | ⟨h, _⟩
  · exact userGrow_of_users_eq h
  · have := userGrow_put (st1 := st) hu (Or.inl rfl) hsub
    intro i v hv
    obtain ⟨v', hv', hh⟩ := this i v hv
    refine ⟨v', ?_, hh⟩
    unfold St.user putUser at *
    rw [h]; exact hv'

/-- how a command that ends in `finishSet` leaves the file: saved, or untouched with the table
only grown -/
def FileShape (st st' : St) : Prop := Saved st' ∨ (st'.usaved = st.usaved ∧ UserGrow st st')

theorem finishSet_shape {cfg : Cfg} {st st0 : St} {id : Nat} {u u' : C16.User} {fl : Bool}
    (hu : st.user id = some u) (h0 : st0.users = st.users) (hf : st0.usaved = st.usaved)
    (hsub : ∀ x ∈ u.caps, x ∈ u'.caps) : FileShape st (finishSet cfg st0 id u' fl).1 := by
  have hu0 : st0.user id = some u := by unfold St.user at hu ⊢; rw [h0]; exact hu
  have g0 : UserGrow st st0 := userGrow_of_users_eq h0
  unfold finishSet
  simp only []
  split
  · cases fl
    · right
      exact ⟨(setUser_ufile cfg st0 id u').trans hf, userGrow_trans g0 (userGrow_setUser hu0 hsub)⟩
    · left; rfl
  · right
    refine ⟨(setUser_ufile cfg st0 id u').trans hf, userGrow_trans g0 ?_⟩
    rcases setUser_users_cases cfg st0 id u' with ⟨h, _⟩ | ⟨h, _⟩
    · exact userGrow_put hu0 (Or.inl h) hsub
    · exact userGrow_put hu0 (Or.inr h) hsub

/-- the capability-changing commands: a failed save is visible in the reply -/
theorem finishSet_shape_cap {cfg : Cfg} {st : St} {id : Nat} {u' : C16.User} :
    FileShape st (finishSet cfg st id u').1 ∨
      ((finishSet cfg st id u').2 = false ∧ (finishSet cfg st id u').1.usaved = st.usaved) := by
  unfold finishSet
  simp only []
  split
  · left; left; rfl
  · right; exact ⟨rfl, setUser_ufile cfg st id u'⟩

/-! ### ids -/

theorem setUser_nextId_ge (cfg : Cfg) (st : St) (id : Nat) (u : C16.User) : st.nextId ≤ (st.setUser cfg id u).1.nextId := by
  unfold St.setUser
  split
  · exact Nat.le_refl _
  · simp only []
    have : st.nextId ≤ max st.nextId id := by omega
    split
    · exact this
    · split
      · exact this
      · split <;> exact this
    · split <;> exact this

theorem ids_dictSet {l : List (Nat × C16.User)} {n id : Nat} (u : C16.User)
    (h : (l.map (·.1)).Nodup ∧ ∀ p ∈ l, p.1 ≤ n) (hid : id ≤ n) :
    ((C16.dictSet id u l).map (·.1)).Nodup ∧ ∀ p ∈ C16.dictSet id u l, p.1 ≤ n := by
  refine ⟨C16.dictSet_nodup _ _ _ h.1, ?_⟩
  intro p hp
  rcases mem_dictSet hp with rfl | hp
  · exact hid
  · exact h.2 p hp

theorem ids_setUser {cfg : Cfg} {st : St} (h : IdsOk st) (id : Nat) (u : C16.User) : IdsOk (st.setUser cfg id u).1 := by
  have hmax : ∀ p ∈ st.users, p.1 ≤ max st.nextId id := fun p hp => by have := h.2 p hp; omega
  have hput : IdsOk (putUser { st with nextId := max st.nextId id } id u) :=
    ids_dictSet u ⟨h.1, hmax⟩ (by show id ≤ max st.nextId id; omega)
  have hsame : IdsOk { st with nextId := max st.nextId id } := ⟨h.1, hmax⟩
  unfold St.setUser
  split
  · exact h
  · simp only []
    split
    · exact hsame
    · split
      · exact hsame
      · split
        · exact hsame
        · exact hput
    · split
      · exact hsame
      · exact hput

theorem ids_putUser {st : St} (h : IdsOk st) {id : Nat} (hid : id ≤ st.nextId) (u : C16.User) : IdsOk (putUser st id u) :=
  ids_dictSet u h hid

theorem ids_finishSet {cfg : Cfg} {st st0 : St} (h : IdsOk st) (h0 : st0.users = st.users) (hn : st0.nextId = st.nextId)
    {id : Nat} {u : C16.User} (hu : st.user id = some u) (u' : C16.User) (fl : Bool) :
    IdsOk (finishSet cfg st0 id u' fl).1 := by
  have h0' : IdsOk st0 := by unfold IdsOk; rw [h0, hn]; exact h
  have hid : id ≤ st0.nextId := by rw [hn]; exact h.2 (id, u) (user_mem hu)
  unfold finishSet
  simp only []
  split
  · cases fl <;> exact ids_setUser h0' id u'
  · exact ids_putUser (ids_setUser h0' id u') (Nat.le_trans hid (setUser_nextId_ge cfg st0 id u')) u'

theorem ids_put_setUser {cfg : Cfg} {st : St} (h : IdsOk st) {id : Nat} {u : C16.User} (hu : st.user id = some u)
    (u' u'' : C16.User) : IdsOk (putUser (st.setUser cfg id u').1 id u'') :=
  ids_putUser (ids_setUser h id u') (Nat.le_trans (h.2 (id, u) (user_mem hu)) (setUser_nextId_ge cfg st id u')) u''

theorem ids_of_eq {st st' : St} (h : IdsOk st) (e1 : st'.users = st.users) (e2 : st'.nextId = st.nextId) : IdsOk st' := by
  unfold IdsOk; rw [e1, e2]; exact h

macro "ids_auto" h:term "," hu:term : tactic => `(tactic|
  ((repeat' split) <;>
   (first
    | with_reducible exact $h
    | (refine ids_finishSet $h ?_ ?_ $hu _ _ <;> rfl)
    | exact ids_setUser $h _ _
    | (show IdsOk (flushU (St.setUser _ _ _ _).1); exact ids_setUser $h _ _)
    | exact ids_put_setUser $h $hu _ _
    | exact ids_of_eq $h rfl rfl
    | (refine ⟨(List.Sublist.map _ List.filter_sublist).nodup ($h).1, ?_⟩
       intro p hp; exact ($h).2 p (List.mem_filter.mp hp).1))))

theorem body_ids (cfg : Cfg) (st : St) (pfx : Str) (c : Cmd) (hc : c ≠ .flushReload) (hr : c ≠ .reload)
    (h : IdsOk st) : IdsOk (body cfg st pfx c).1 := by
  have triv : st.user 0 = st.user 0 := rfl
  cases c with
  | flushReload => exact absurd rfl hc
  | reload => exact absurd rfl hr
  | register name pw =>
    simp only [body, doRegister]
    have happ : ∀ u : C16.User,
        ((st.users ++ [(st.nextId + 1, u)]).map (·.1)).Nodup ∧ ∀ p ∈ st.users ++ [(st.nextId + 1, u)], p.1 ≤ st.nextId + 1 := by
      intro u
      refine ⟨?_, ?_⟩
      · rw [List.map_append, List.nodup_append]
        refine ⟨h.1, by simp, ?_⟩
        intro a ha b hb
        simp only [List.map_cons, List.map_nil, List.mem_singleton] at hb
        subst hb
        simp only [List.mem_map] at ha
        obtain ⟨p, hp, rfl⟩ := ha
        have := h.2 p hp
        omega
      · intro p hp
        rcases List.mem_append.mp hp with hp | hp
        · have := h.2 p hp; omega
        · simp only [List.mem_singleton] at hp; subst hp; exact Nat.le_refl _
    have hsame : IdsOk (flushU { st with nextId := st.nextId + 1 }) :=
      ⟨h.1, fun p hp => Nat.le_succ_of_le (h.2 p hp)⟩
    repeat' (first
      | with_reducible exact h
      | exact happ _
      | exact hsame
      | split)
  | unregister name pw =>
    simp only [body]
    refine withOther_ind (fun r => IdsOk r.1) h ?_
    intro id u _ hu
    ids_auto h, hu
  | changename name newname pw =>
    simp only [body]
    split
    · exact h
    · refine withOther_ind (fun r => IdsOk r.1) h ?_
      intro id u _ hu
      ids_auto h, hu
  | identify name pw =>
    simp only [body]
    split
    · exact h
    · refine withOther_ind (fun r => IdsOk r.1) h ?_
      intro id u _ hu
      ids_auto h, hu
  | unidentify =>
    simp only [body]
    refine withCaller_ind (fun r => IdsOk r.1) h ?_
    intro id u hu
    ids_auto h, hu
  | hostmaskAdd name hostmask pw =>
    simp only [body]
    split
    · exact h
    · refine withOther_ind (fun r => IdsOk r.1) h ?_
      intro id u _ hu
      ids_auto h, hu
  | hostmaskRemove name hostmask pw =>
    simp only [body]
    split
    · exact h
    · refine withOther_ind (fun r => IdsOk r.1) h ?_
      intro id u _ hu
      ids_auto h, hu
  | setPassword name old new =>
    simp only [body]
    split
    · exact h
    · refine withOther_ind (fun r => IdsOk r.1) h ?_
      intro id u _ hu
      ids_auto h, hu
  | setSecure pw value =>
    simp only [body]
    split
    · exact h
    · refine withCaller_ind (fun r => IdsOk r.1) h ?_
      intro id u hu
      ids_auto h, hu
  | capAdd name cap0 =>
    simp only [body]
    refine withOther_ind (fun r => IdsOk r.1) h ?_
    intro id u _ hu
    ids_auto h, hu
  | capRemove name cap0 =>
    simp only [body]
    refine withOther_ind (fun r => IdsOk r.1) h ?_
    intro id u _ hu
    ids_auto h, hu
  | chanCapAdd chan name cap =>
    simp only [body]
    split
    · exact h
    · refine withOther_ind (fun r => IdsOk r.1) h ?_
      intro id u _ hu
      ids_auto h, hu
  | chanCapRemove chan name cap =>
    simp only [body]
    split
    · exact h
    · refine withOther_ind (fun r => IdsOk r.1) h ?_
      intro id u _ hu
      ids_auto h, hu
  | chanCapSet chan caps => simp only [body]; ids_auto h, triv
  | chanCapUnset chan caps => simp only [body]; ids_auto h, triv
  | chanSetDefault chan v => simp only [body]; ids_auto h, triv
  | ignoreAdd h0 => simp only [body]; ids_auto h, triv
  | ignoreRemove h0 => simp only [body]; ids_auto h, triv
  | defaultCapAdd cap => simp only [body]; ids_auto h, triv
  | defaultCapRemove cap => simp only [body]; ids_auto h, triv
  | configCaps v => simp only [body]; ids_auto h, triv
  | flushAll => simp only [body, flushAllSt]; ids_auto h, triv
  | upkeep on => simp only [body, flushAllSt]; ids_auto h, triv
  | chanDisable chan plugin command => simp only [body]; ids_auto h, triv
  | chanEnable chan plugin command => simp only [body]; ids_auto h, triv

/-! ### what each command does to the saved file -/

/-- commands that can take a capability away from an account (adding one displaces its inverse) -/
def Cmd.capChanging : Cmd → Bool
  | .capAdd .. => true
  | .capRemove .. => true
  | .chanCapAdd .. => true
  | .chanCapRemove .. => true
  | _ => false

def Shape (st : St) (c : Cmd) (r : St × Bool) : Prop :=
  FileShape st r.1 ∨ (c.capChanging = true ∧ r.2 = false ∧ r.1.usaved = st.usaved)

theorem shape_same (st : St) (c : Cmd) (b : Bool) : Shape st c (st, b) :=
  Or.inl (Or.inr ⟨rfl, userGrow_refl st⟩)

theorem put_setUser_shape {cfg : Cfg} {st : St} {id : Nat} {u u' u'' : C16.User} (hu : st.user id = some u)
    (hsub : ∀ x ∈ u.caps, x ∈ u''.caps) : FileShape st (putUser (st.setUser cfg id u').1 id u'') := by
  right
  refine ⟨setUser_ufile cfg st id u', ?_⟩
  intro i v hv
  unfold St.user putUser at *
  simp only []
  by_cases hi : i = id
  · subst hi
    rw [hu] at hv; injection hv with hv; subst hv
    exact ⟨u'', dictGet_dictSet_same _ _ _, hsub⟩
  · refine ⟨v, ?_, fun _ hx => hx⟩
    rw [dictGet_dictSet_other _ _ _ _ hi]
    rcases setUser_users_cases cfg st id u' with ⟨h, _⟩ | ⟨h, _⟩
    · rw [h]; exact hv
    · rw [h, dictGet_dictSet_other _ _ _ _ hi]; exact hv

macro "shape_auto" hu:term : tactic => `(tactic|
  ((repeat' split) <;>
   (first
    | with_reducible exact shape_same _ _ _
    | (refine Or.inl (finishSet_shape $hu ?_ ?_ (fun x hx => hx)) <;> rfl)
    | exact Or.inl (Or.inl rfl)
    | exact Or.inl (put_setUser_shape $hu (fun x hx => hx))
    | exact Or.inl (Or.inr ⟨rfl, userGrow_of_users_eq rfl⟩)
    | (rcases finishSet_shape_cap with h | h
       · exact Or.inl h
       · exact Or.inr ⟨rfl, h.1, h.2⟩))))

theorem body_shape (cfg : Cfg) (st : St) (pfx : Str) (c : Cmd) (hc : c ≠ .flushReload) (hr : c ≠ .reload) :
    Shape st c (body cfg st pfx c) := by
  have triv : st.user 0 = st.user 0 := rfl
  cases c with
  | flushReload => exact absurd rfl hc
  | reload => exact absurd rfl hr
  | register name pw =>
    simp only [body, doRegister]
    repeat' (first
      | with_reducible exact shape_same _ _ _
      | exact Or.inl (Or.inl rfl)
      | split)
  | unregister name pw =>
    simp only [body]
    refine withOther_ind (fun r => Shape st _ r) (shape_same _ _ _) ?_
    intro id u _ hu
    shape_auto hu
  | changename name newname pw =>
    simp only [body]
    split
    · exact shape_same _ _ _
    · refine withOther_ind (fun r => Shape st _ r) (shape_same _ _ _) ?_
      intro id u _ hu
      shape_auto hu
  | identify name pw =>
    simp only [body]
    split
    · exact shape_same _ _ _
    · refine withOther_ind (fun r => Shape st _ r) (shape_same _ _ _) ?_
      intro id u _ hu
      shape_auto hu
  | unidentify =>
    simp only [body]
    refine withCaller_ind (fun r => Shape st _ r) (shape_same _ _ _) ?_
    intro id u hu
    shape_auto hu
  | hostmaskAdd name hostmask pw =>
    simp only [body]
    split
    · exact shape_same _ _ _
    · refine withOther_ind (fun r => Shape st _ r) (shape_same _ _ _) ?_
      intro id u _ hu
      shape_auto hu
  | hostmaskRemove name hostmask pw =>
    simp only [body]
    split
    · exact shape_same _ _ _
    · refine withOther_ind (fun r => Shape st _ r) (shape_same _ _ _) ?_
      intro id u _ hu
      shape_auto hu
  | setPassword name old new =>
    simp only [body]
    split
    · exact shape_same _ _ _
    · refine withOther_ind (fun r => Shape st _ r) (shape_same _ _ _) ?_
      intro id u _ hu
      shape_auto hu
  | setSecure pw value =>
    simp only [body]
    split
    · exact shape_same _ _ _
    · refine withCaller_ind (fun r => Shape st _ r) (shape_same _ _ _) ?_
      intro id u hu
      shape_auto hu
  | capAdd name cap0 =>
    simp only [body]
    refine withOther_ind (fun r => Shape st _ r) (shape_same _ _ _) ?_
    intro id u _ hu
    shape_auto hu
  | capRemove name cap0 =>
    simp only [body]
    refine withOther_ind (fun r => Shape st _ r) (shape_same _ _ _) ?_
    intro id u _ hu
    shape_auto hu
  | chanCapAdd chan name cap =>
    simp only [body]
    split
    · exact shape_same _ _ _
    · refine withOther_ind (fun r => Shape st _ r) (shape_same _ _ _) ?_
      intro id u _ hu
      shape_auto hu
  | chanCapRemove chan name cap =>
    simp only [body]
    split
    · exact shape_same _ _ _
    · refine withOther_ind (fun r => Shape st _ r) (shape_same _ _ _) ?_
      intro id u _ hu
      shape_auto hu
  | chanCapSet chan caps => simp only [body]; shape_auto triv
  | chanCapUnset chan caps => simp only [body]; shape_auto triv
  | chanSetDefault chan v => simp only [body]; shape_auto triv
  | ignoreAdd h0 => simp only [body]; shape_auto triv
  | ignoreRemove h0 => simp only [body]; shape_auto triv
  | defaultCapAdd cap => simp only [body]; shape_auto triv
  | defaultCapRemove cap => simp only [body]; shape_auto triv
  | configCaps v => simp only [body]; shape_auto triv
  | flushAll => simp only [body, flushAllSt]; shape_auto triv
  | upkeep on => simp only [body, flushAllSt]; shape_auto triv
  | chanDisable chan plugin command => simp only [body]; shape_auto triv
  | chanEnable chan plugin command => simp only [body]; shape_auto triv

end C02
