import LimnoriaModel.C02.Model
import LimnoriaModel.C16.Drive
namespace C02
open Py Wire C16

/-- stand-in for `utils.saltHash`: `h` followed by the hex of the password (injective, line-safe) -/
def hashStandIn (p : Str) : Str := 'h' :: (Wire.enc p).toList

def actorNicks : List (Str × Str) :=
  [(s "eve", s "eve!e@evil.host"), (s "bob", s "bob!b@bob.host"), (s "opp", s "opp!o@op.host"),
   (s "adm", s "adm!a@admin.host")]

def cfg0 : Cfg := { hash := hashStandIn, lower := asciiLower, nicks := actorNicks }

structure DSt where
  cfg : Cfg := cfg0
  st : St := {}

def encAuth (a : List (Nat × List Str)) : String :=
  let a := a.filter (fun p => !p.2.isEmpty)
  if a.isEmpty then "-" else ";".intercalate (a.map fun p => encN p.1 ++ "=" ++ encL "+" p.2)

def encSt (st : St) : String :=
  "\t".intercalate [encUsers st.users, encAuth st.auth, encN st.nextId, encChans st.channels,
    encEntries encN st.ignores, encL "," st.defaults, encCu st.cu]

def decCmd : List String → Option Cmd
  | ["register", a, b] => do pure (.register (← dec a) (← dec b))
  | ["unregister", a, b] => do pure (.unregister (← dec a) (← decOpt b))
  | ["changename", a, b, c] => do pure (.changename (← dec a) (← dec b) (← dec c))
  | ["identify", a, b] => do pure (.identify (← dec a) (← dec b))
  | ["unidentify"] => some .unidentify
  | ["hostmaskAdd", a, b, c] => do pure (.hostmaskAdd (← dec a) (← dec b) (← dec c))
  | ["hostmaskRemove", a, b, c] => do pure (.hostmaskRemove (← dec a) (← dec b) (← dec c))
  | ["setPassword", a, b, c] => do pure (.setPassword (← dec a) (← dec b) (← dec c))
  | ["setSecure", a, b] => do
    let v ← (if b = "~" then some none else (decB b).map some)
    pure (.setSecure (← dec a) v)
  | ["capAdd", a, b] => do pure (.capAdd (← dec a) (← dec b))
  | ["capRemove", a, b] => do pure (.capRemove (← dec a) (← dec b))
  | ["chanCapAdd", a, b, c] => do pure (.chanCapAdd (← dec a) (← dec b) (← dec c))
  | ["chanCapRemove", a, b, c] => do pure (.chanCapRemove (← dec a) (← dec b) (← dec c))
  | ["chanCapSet", a, b] => do pure (.chanCapSet (← dec a) (← decL "," b))
  | ["chanCapUnset", a, b] => do pure (.chanCapUnset (← dec a) (← decL "," b))
  | ["chanSetDefault", a, b] => do pure (.chanSetDefault (← dec a) (← decB b))
  | ["ignoreAdd", a] => do pure (.ignoreAdd (← dec a))
  | ["ignoreRemove", a] => do pure (.ignoreRemove (← dec a))
  | ["defaultCapAdd", a] => do pure (.defaultCapAdd (← dec a))
  | ["defaultCapRemove", a] => do pure (.defaultCapRemove (← dec a))
  | ["configCaps", a] => do pure (.configCaps (← decL "," a))
  | ["flushReload"] => some .flushReload
  | ["reload"] => some .reload
  | ["flushAll"] => some .flushAll
  | ["upkeep", b] => do pure (.upkeep (← decB b))
  | ["chanDisable", a, b, c] => do pure (.chanDisable (← dec a) (← dec b) (← dec c))
  | ["chanEnable", a, b, c] => do pure (.chanEnable (← dec a) (← dec b) (← dec c))
  | _ => none

def stepD (d : DSt) : List String → DSt × String
  | ["plugins", tbl] =>
    -- name=cmd+cmd;name=…
    match decEntries (decL "+") tbl with
    | some t => ({ d with cfg := { d.cfg with plugins := t } }, "ok")
    | none => (d, "bad-op")
  | ["init", us, chans, dflt, reg, flag] =>
    match decUsers us, decChans chans, decL "," dflt, decL "," reg, decB flag with
    | some us, some chans, some dflt, some reg, some flag =>
      let n := us.foldl (fun m p => max m p.1) 0
      let st' : St := flushU { users := us, nextId := n, channels := chans, defaults := dflt, registered := reg, defaultFlag := flag }
      ({ d with st := st' }, encSt st')
    | _, _, _, _, _ => (d, "bad-op")
  | "cmd" :: pfx :: rest =>
    match dec pfx, decCmd rest with
    | some pfx, some c =>
      let r := step d.cfg d.st pfx c none
      ({ d with st := r.1 }, encB r.2 ++ "\t" ++ encSt r.1)
    | _, _ => (d, "bad-op")
  | "cmdin" :: ch :: pfx :: rest =>
    -- the same message sent to channel `ch` (Ev.cmdIn)
    match dec ch, dec pfx, decCmd rest with
    | some ch, some pfx, some c =>
      (match c.inChannel ch with
       | some c' =>
         let r := step d.cfg d.st pfx c' (some ch)
         ({ d with st := r.1 }, encB r.2 ++ "\t" ++ encSt r.1)
       | none => (d, encB false ++ "\t" ++ encSt d.st))
    | _, _, _ => (d, "bad-op")
  | ["order", uo, co] =>
    -- id=cap+cap;…   and   name=cap+cap;…
    let decU : Option (List (Nat × List Str)) :=
      if uo = "-" then some [] else
      (uo.splitOn ";").mapM fun item =>
        match item.splitOn "=" with
        | [k, v] => do pure ((← decN k), (← decL "+" v))
        | _ => none
    match decU, decEntries (decL "+") co with
    | some uo, some co =>
      ({ d with st := d.st.fileOrder uo co }, if d.st.fileOrderOk uo co then "ok" else "order-mismatch")
    | _, _ => (d, "bad-op")
  | ["expire"] =>
    let st' := stepEv d.cfg d.st .expire
    ({ d with st := st' }, encB true ++ "\t" ++ encSt st')
  | ["restart", uo, co] =>
    let decU : Option (List (Nat × List Str)) :=
      if uo = "-" then some [] else
      (uo.splitOn ";").mapM fun item =>
        match item.splitOn "=" with
        | [k, v] => do pure ((← decN k), (← decL "+" v))
        | _ => none
    match decU, decEntries (decL "+") co with
    | some uo, some co =>
      let st' := stepEv d.cfg d.st (.restart uo co)
      let okOrd := (restartPrep d.cfg d.st).fileOrderOk uo co
      ({ d with st := st' }, (if okOrd then encB true else "order-mismatch") ++ "\t" ++ encSt st')
    | _, _ => (d, "bad-op")
  | ["owners"] => (d, if (owners d.st).isEmpty then "-" else ",".intercalate ((owners d.st).map encN))
  | _ => (d, "bad-op")

def handler : Driver.Handler := { σ := DSt, init := {}, step := stepD }
end C02
