/-
C09 — the model is the connection machine of C08 (`LimnoriaModel/C08/Model.lean`: Irc handlers,
`sasl.required` enforcement, `_onCapSts`, `parseStsPolicy`, `ServersMixin._applyStsPolicy`,
`SocketDriver.reconnect` / `starttls` / run loop).  This file adds the history operations of the
real-driver runs and the specification-level notions the C09 theorems use.
-/
import LimnoriaModel.C08.Model
namespace C09
open Py C08

/-- operations of a real-driver history -/
inductive DOp where
  | start                                                  -- SocketDriver(irc)
  | run (now : Nat) (due : Bool) (lines : List Msg)        -- one SocketDriver.run()
deriving Repr

def applyDOp (cfg : Cfg) (s : St) : DOp → St
  | .start => drvStart cfg s
  | .run now due lines => drvRun cfg now due lines s

/-- "verified TLS" as the code decides it when an STS policy arrives -/
def verifiedTls (cfg : Cfg) (s : St) : Bool := secureConn cfg s

/-- the server the driver is told to use after an STS policy on an insecure connection -/
def upgradeServer (s : St) (p : StsPolicy) : Server := ⟨s.drv.current.host, p.port, s.drv.current.attempt, true⟩

end C09
