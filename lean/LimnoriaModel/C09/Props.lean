/-
C09 — property theorems (under construction).
-/
import LimnoriaModel.C09.Lemmas
namespace C09
end C09
