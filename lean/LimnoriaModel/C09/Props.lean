/-
C09 — property theorems: required SASL cannot be bypassed; STS policies are stored only on verified
TLS, upgrade an insecure connection, and are applied while unexpired.

`Reach cfg base s` (C08/Trace.lean) quantifies over every history of server messages and resets.
The STS theorems are about the decision points of the code as modelled in C08/Model.lean:
`onCapSts` (Irc._onCapSts), `realReconnect`/`drvConnect`/`getNextServer`/`applyStsPolicy`/`tlsChoice`
(SocketDriver.reconnect, ServersMixin._getNextServer/_applyStsPolicy, starttls), `flush` (_sendIfMsgs).
-/
import LimnoriaModel.C09.Lemmas
import LimnoriaModel.C08.Props
namespace C09
open Py C08
open Gen.Conn (Fsm)

/-! ### sasl.required -/

/-- With `sasl.required`, in every reachable state: the FSM being past the negotiation
(INIT_WAITING_MOTD, INIT_MOTD, CONNECTED, CONNECTED_SASL), `afterConnect` being set, or a `CAP END` having
been sent in this epoch, each implies that in this epoch the server confirmed SASL success (903) — and that
this 903 was honoured inside a SASL exchange: `sasl` had been acknowledged (ghost `saslAcked`). -/
theorem sasl_required_safe (cfg : Cfg) (base s : St) (hr : cfg.required = true) (r : Reach cfg base s) :
    (pastNegotiation s.fsm = true ∨ s.afterConnect = true ∨ 0 < s.endCount) →
      s.saslAuth = true ∧ s.saslAcked = true := fun h =>
  have ha := (absInv_req cfg).reach r hr h
  ⟨ha, ((absInv_sasl cfg).reach r).2.2.2 ha⟩

/-- The same along every history of the real SocketDriver: `SocketDriver(irc)`, then any number of `run()`s
with arbitrary clock values, due / not-due scheduled reconnects and recv() chunks of any server lines. -/
theorem sasl_required_safe_real (cfg : Cfg) (base s : St) (hr : cfg.required = true) (hd : cfg.realDriver = true)
    (r : DReach cfg base s) :
    (pastNegotiation s.fsm = true ∨ s.afterConnect = true ∨ 0 < s.endCount) →
      s.saslAuth = true ∧ s.saslAcked = true := fun h =>
  have ha := (absInv_req cfg).dreach hd r hr h
  ⟨ha, ((absInv_sasl cfg).dreach hd r).2.2.2 ha⟩

/-- `sasl_authenticated` is raised only by the handler of 903, only when the FSM was in INIT_SASL /
CONNECTED_SASL when the 903 arrived, and only after a complete response of the bot had gone out for the
mechanism requested last (`sasl_response_sent`): a 903 outside a SASL exchange (unsolicited, before CAP LS,
after the exchange ended …) or right after `AUTHENTICATE <mechanism>`, before any credentials were sent, is
not honoured — for every state, configuration and message. -/
theorem auth_only_in_exchange (cfg : Cfg) (s : St) (m : Msg) (h0 : s.saslAuth = false)
    (h1 : (step cfg s m).st.saslAuth = true) : dispatch m = .n903 ∧ isSaslState s.fsm = true ∧ s.saslSent = true := by
  have hm := ref_feedMsg (cfg := cfg) m s
  have hb : (α (feedMsg cfg m s).st).saslAuth = true := h1
  have ha : (α s).saslAuth = false := h0
  by_cases hp : handlerKinds (dispatch m) .authPerm = true
  · have hd : dispatch m = .n903 := by revert hp; cases dispatch m <;> simp [handlerKinds]
    refine ⟨hd, ?_, ?_⟩
    · have hk : handlerKinds (dispatch m) .startSasl = false := by rw [hd]; rfl
      rcases auth_moves hk hm hb with h | ⟨h, _⟩
      · rw [ha] at h; cases h
      · exact h
    · have hk : handlerKinds (dispatch m) .payload = false := by rw [hd]; rfl
      rcases authSent_moves hk hm hb with h | h
      · rw [ha] at h; cases h
      · exact h
  · have := noAuth_moves (by simpa using hp) hm hb
    rw [ha] at this; cases this

/-- … and `sasl_response_sent` itself is raised only while handling a server AUTHENTICATE inside a SASL
state (by `sendSaslString`, after the last line of the answer was queued: `C08.sasl_answer_complete`); a new
mechanism request and a reset clear it. -/
theorem response_only_by_authenticate (cfg : Cfg) (s : St) (m : Msg) (h0 : s.saslSent = false)
    (h1 : (step cfg s m).st.saslSent = true) : dispatch m = .authenticate ∧ isSaslState s.fsm = true := by
  have hm := ref_feedMsg (cfg := cfg) m s
  have hb : (α (feedMsg cfg m s).st).sent = true := h1
  have ha : (α s).sent = false := h0
  by_cases hp : handlerKinds (dispatch m) .payload = true
  · have hd : dispatch m = .authenticate := by revert hp; cases dispatch m <;> simp [handlerKinds]
    refine ⟨hd, ?_⟩
    have hk : handlerKinds (dispatch m) .startSasl = false := by rw [hd]; rfl
    rcases sentOrigin_moves hk hm hb with h | ⟨h, _⟩
    · rw [ha] at h; cases h
    · exact h
  · have := sent_moves (by simpa using hp) hm hb
    rw [ha] at this; cases this

/-- the configuration of the C08 examples with `sasl.required` -/
def exReq : Cfg := { exCfg with required := true }
def exR0 : St := (start exReq {}).st
def exR1 : St := (step exReq exR0 exLs).st
def exR2 : St := (step exReq exR1 exAck).st
def exR3 : St := (step exReq exR2 exAuth).st
def exR4 : St := (step exReq exR3 ex903).st
theorem exR4_reach : Reach exReq {} exR4 :=
  .op (.msg ex903) (.op (.msg exAuth) (.op (.msg exAck) (.op (.msg exLs) .start)))
example : exReq.required = true ∧ pastNegotiation exR4.fsm = true ∧ exR4.saslAuth = true := by decide
example : exR3.saslAuth = false ∧ (step exReq exR3 ex903).st.saslAuth = true := by decide
/-- a 903 right after `AUTHENTICATE PLAIN`, before the credentials went out, changes nothing -/
example : exR2.fsm = .INIT_SASL ∧ exR2.saslSent = false ∧ (step exReq exR2 ex903).st.saslAuth = false ∧
    (step exReq exR2 ex903).fast = [] ∧ exR3.saslSent = true := by decide
/-- an unsolicited 903 right after connecting changes nothing -/
example : (step exReq exR0 ex903).st.saslAuth = false ∧ (step exReq exR0 ex903).exc = some "ValueError" := by decide


/-- With `sasl.required`, a `CAP END` is put on the queue only by a step after which SASL is confirmed. -/
theorem cap_end_needs_auth (cfg : Cfg) (base s : St) (hr : cfg.required = true) (r : Reach cfg base s) (m : Msg)
    (h : Out.capEnd ∈ (step cfg s m).fast) : (step cfg s m).st.saslAuth = true := by
  have hq := (reach_drained r).1
  have hcnt : 0 < ends (step cfg s m).fast := by
    unfold ends; rw [List.count_pos_iff]; simp only [List.mem_map]; exact ⟨_, h, rfl⟩
  have hpos : 0 < (step cfg s m).st.endCount := by
    rcases cap_end_counted cfg s m hq with ⟨_, h2⟩ | ⟨_, _, h2⟩ <;> omega
  exact (sasl_required_safe cfg base _ hr (.op (.msg m) r) (.inr (.inr hpos))).1

example : Out.capEnd ∈ (step exReq exR3 ex903).fast := by decide

/-- the witness scripts of the repaired defect now abort instead of finishing the registration:
the server omits `sasl` from CAP LS -/
def exLsNoSasl : Msg := ⟨sCAP, [exStar, ['L','S'], ['b','a','t','c','h']], []⟩
def exAckBatch : Msg := ⟨sCAP, [exStar, ['A','C','K'], ['b','a','t','c','h']], []⟩
example :
    (step exReq (step exReq exR0 exLsNoSasl).st exAckBatch).fast = [] ∧
    (step exReq (step exReq exR0 exLsNoSasl).st exAckBatch).events = [.reconnect true none] := by decide

/-! ### STS: parsing -/

/-- `parseStsPolicy` returns None exactly when `port` — or `duration`, when it is needed — is missing,
valueless or not an integer; for every policy string. -/
theorem sts_parse (policy : Str) (d : Bool) :
    parseStsPolicy policy d = none ↔
      (stsInt (stsDict policy) sPort = none ∨ (d = true ∧ stsInt (stsDict policy) sDuration = none)) := by
  unfold parseStsPolicy
  simp only
  cases hp : stsInt (stsDict policy) sPort with
  | none => simp
  | some p =>
    cases d with
    | false => simp
    | true =>
      cases hd : stsInt (stsDict policy) sDuration with
      | none => simp
      | some x => simp

theorem stsInt_none (dict : List (Str × Option Str)) (k : Str) :
    stsInt dict k = none ↔
      (dictGet dict k = none ∨ dictGet dict k = some none ∨ ∃ v, dictGet dict k = some (some v) ∧ pyInt v = none) := by
  unfold stsInt
  cases h : dictGet dict k with
  | none => simp
  | some o =>
    cases o with
    | none => simp
    | some v => simp

example : parseStsPolicy ("port=6697,duration=100".toList) true = some ⟨6697, some 100⟩ := by decide
example : parseStsPolicy ("duration=100".toList) true = none := by decide
example : parseStsPolicy ("port=x".toList) false = none := by decide

/-! ### STS: a policy is stored only on verified TLS -/

/-- One `feedMsg` on a connection the bot does not consider verified TLS (not forced by a stored policy,
and not "ssl with some certificate validation"), during which no new socket is opened, neither adds
nor changes a stored STS policy — for every state, configuration and server message. -/
theorem sts_store_only_secure (cfg : Cfg) (s : St) (m : Msg) (hs : secureConn cfg s = false)
    (hk : (feedMsg cfg m s).st.drv.sock = s.drv.sock) :
    ∀ k p, dictGet (feedMsg cfg m s).st.db.policies k = some p → dictGet s.db.policies k = some p :=
  (noNewPolicy_moves (ref_feedMsg (cfg := cfg) m s) (by simpa [aSecure, secureConn, α] using hs) hk).1

/-- The same without the side condition: the handlers that can store a policy (CAP LS, CAP NEW) never open
a socket, and the one that opens a socket (ERROR) never stores a policy. -/
theorem sts_store_only_secure_msg (cfg : Cfg) (s : St) (m : Msg) (hs : secureConn cfg s = false) :
    ∀ k p, dictGet (feedMsg cfg m s).st.db.policies k = some p → dictGet s.db.policies k = some p := by
  have hm := ref_feedMsg (cfg := cfg) m s
  rcases handler_perms (dispatch m) with h | h
  · exact noStore_moves h hm
  · exact (noNewPolicy_moves hm (by simpa [aSecure, secureConn, α] using hs) (forced_const_moves h hm).2).1

/-- History level, one whole `SocketDriver.run()`: while the lines of a recv() are fed on a connection the bot
does not consider verified TLS, no STS policy is added or changed — whatever the lines are, including a line
that makes the driver reconnect (the rest of the chunk is then dropped). -/
theorem sts_store_only_secure_lines (cfg : Cfg) (lines : List Msg) (s : St) (hs : secureConn cfg s = false) :
    ∀ k p, dictGet (feedLines cfg lines s).db.policies k = some p → dictGet s.db.policies k = some p := by
  induction lines generalizing s with
  | nil => exact fun _ _ h => h
  | cons m ms ih =>
    unfold feedLines
    simp only
    have h1 := sts_store_only_secure_msg cfg s m hs
    split
    · exact h1
    · rename_i hcont
      have hsock : (feedMsg cfg m s).st.drv.sock = s.drv.sock := by
        by_cases hq : (feedMsg cfg m s).st.drv.sock = s.drv.sock
        · exact hq
        · exact absurd (.inl hq) hcont
      have hf := (noNewPolicy_moves (ref_feedMsg (cfg := cfg) m s) (by simpa [aSecure, secureConn, α] using hs) hsock).2
      have hs' : secureConn cfg (feedMsg cfg m s).st = false := by
        have hf' : (feedMsg cfg m s).st.drv.current.forced = s.drv.current.forced := hf
        simpa [secureConn, hf'] using hs
      exact fun k p hg => h1 k p (ih _ hs' k p hg)

/-- … and `_sendIfMsgs` does not touch the store: a whole `run()` that does not start with a due reconnect
adds or changes no policy on an unverified connection. -/
theorem sts_store_only_secure_run (cfg : Cfg) (now : Nat) (lines : List Msg) (s : St)
    (hs : secureConn cfg s = false) :
    ∀ k p, dictGet (drvRun cfg now false lines s).db.policies k = some p → dictGet s.db.policies k = some p := by
  have hflush : ∀ t : St, (flush t).db = t.db ∧ (flush t).drv = t.drv := by
    intro t; unfold flush; split <;> exact ⟨rfl, rfl⟩
  unfold drvRun drvDue
  simp only [Bool.and_false, Bool.false_eq_true, if_false]
  split
  · rw [(hflush _).1]
    intro k p hg
    have hs1 : secureConn cfg (flush { s with now := now, ev := [], wire := [] }) = false := by
      simpa [secureConn, (hflush _).2] using hs
    have := sts_store_only_secure_lines cfg lines _ hs1 k p hg
    rw [(hflush _).1] at this; exact this
  · exact fun _ _ h => h

/-- With the recording stub driver no socket is ever opened by a handler: the statement holds outright. -/
theorem sts_store_only_secure_stub (cfg : Cfg) (s : St) (m : Msg) (hd : cfg.realDriver = false)
    (hs : secureConn cfg s = false) :
    ∀ k p, dictGet (feedMsg cfg m s).st.db.policies k = some p → dictGet s.db.policies k = some p :=
  sts_store_only_secure cfg s m hs (sock_const_stub hd (ref_feedMsg (cfg := cfg) m s))

/-- `CAP * LS :sts=port=6697,duration=100` -/
def exLsSts : Msg := ⟨sCAP, [exStar, ['L','S'], "sts=port=6697,duration=100".toList], []⟩
example : secureConn exCfg exS0 = false ∧ (step exCfg exS0 exLsSts).st.db.policies = [] := by decide
/-- on a verified connection the same line stores the raw policy -/
def exTls : Cfg := { exCfg with ssl := true, certValidation := true }
example : secureConn exTls (start exTls {}).st = true ∧
    (step exTls (start exTls {}).st exLsSts).st.db.policies = [([], "port=6697,duration=100".toList)] := by decide

/-! ### STS: upgrade of an insecure connection -/

/-- On an insecure connection a policy with a valid port makes `_onCapSts` move the FSM to SHUTTING_DOWN
and call `driver.reconnect(server=Server(host, port, attempt, True), wait=True)`; nothing else. -/
theorem sts_insecure_upgrade (cfg : Cfg) (policy : Str) (s : St) (p : StsPolicy) (hs : secureConn cfg s = false)
    (hp : parseStsPolicy policy false = some p) :
    onCapSts cfg policy s = drvReconnect cfg true (some (upgradeServer s p)) (onShutdown s).st := by
  unfold onCapSts
  simp only [hs, hp, Bool.false_eq_true, if_false]
  rfl

/-- The real `SocketDriver.reconnect(server=srv, wait=True)`: the connection is closed (and the
disconnection time recorded) if it was open, the Irc object is reset, `srv` becomes the next server to be
used, a reconnect is scheduled — and the stored policies are untouched. -/
theorem upgrade_reconnect (cfg : Cfg) (srv : Server) (s : St) :
    let s' := realReconnect cfg true (some srv) s
    s'.drv.connected = false ∧ s'.drv.scheduled = true ∧ s'.drv.servers.head? = some srv ∧
    s'.db.policies = s.db.policies ∧ (s.drv.connected = true → Out.closed ∈ s'.ev) ∧ s'.drv.sock = s.drv.sock := by
  simp only [realReconnect, if_true]
  have hr : ∀ t : St, (ircReset cfg t).drv = t.drv ∧ (ircReset cfg t).db = t.db ∧ (ircReset cfg t).ev = t.ev := by
    intro t; unfold ircReset queueConnectMessages transition clearForReset resetSasl
    simp only; split <;> exact ⟨rfl, rfl, rfl⟩
  by_cases hc : s.drv.connected = true
  · simp [drvSchedule, drvDisconnect, hc, hr, event]
  · simp [drvSchedule, drvDisconnect, hc, hr]

/-- `_sendIfMsgs` writes nothing while the driver is not connected: after the upgrade decision no byte
goes to the insecure socket any more. -/
theorem flush_not_connected (s : St) (h : s.drv.connected = false) : flush s = s := by
  simp [flush, h]

/-- The server the driver picks next when a server with `force_tls_verification` heads its list is
again for the same host and forced (a stored policy can only replace the port by its own). -/
theorem upgrade_next_server (cfg : Cfg) (s s' : St) (srv x : Server) (rest : List Server)
    (hl : s.drv.servers = srv :: rest) (hf : srv.forced = true) (h : getNextServer cfg s = some (x, s')) :
    x.host = srv.host ∧ x.forced = true := by
  unfold getNextServer at h
  simp only [hl, List.isEmpty_cons, Bool.false_eq_true, if_false] at h
  unfold applyStsPolicy at h
  split at h
  · injection h with h; injection h with h1 _; subst h1; exact ⟨rfl, hf⟩
  · split at h
    · split at h
      · injection h with h; injection h with h1 _; subst h1; exact ⟨rfl, hf⟩
      · injection h with h; injection h with h1 _; subst h1; exact ⟨rfl, rfl⟩
    · cases h

/-- A forced server is always connected to with TLS, and with certificate verification switched on unless
the operator configured a validation of their own (fingerprints / CA / verifyCertificates). -/
theorem forced_tls_verified (cfg : Cfg) (x : Server) (hf : x.forced = true) :
    (tlsChoice cfg x).1 = true ∧ ((tlsChoice cfg x).2 = true ∨ cfg.certValidation = true) := by
  unfold tlsChoice
  simp only [hf, Bool.or_true, Bool.true_and, true_and]
  cases cfg.certValidation <;> simp

example : (tlsChoice exCfg ⟨[], 6697, none, true⟩) = (true, true) := by decide

/-! ### STS: a stored policy is applied while it has not expired -/

/-- While a stored policy for the host parses and has not expired — in particular when no disconnection
time is recorded — `_applyStsPolicy` answers the policy's port with forced verification and keeps it. -/
theorem sts_applied (s : St) (server : Server) (policy : Str) (port dur : Int)
    (hpol : dictGet s.db.policies server.host = some policy)
    (hparse : parseStsPolicy policy true = some ⟨port, some dur⟩)
    (hexp : stsExpired (dictGet s.db.lastDisc server.host) dur s.now = false) :
    applyStsPolicy s server = some (⟨server.host, port, server.attempt, true⟩, s) := by
  unfold applyStsPolicy
  simp only [hpol, hparse, hexp, Bool.false_eq_true, if_false]

/-- no recorded disconnection: the policy has not started to expire -/
theorem sts_not_expired_without_disconnect (dur : Int) (now : Nat) : stsExpired none dur now = false := rfl

/-- an expired policy is dropped and the configured server used as it is -/
theorem sts_expired_dropped (s : St) (server : Server) (policy : Str) (port dur : Int)
    (hpol : dictGet s.db.policies server.host = some policy)
    (hparse : parseStsPolicy policy true = some ⟨port, some dur⟩)
    (hexp : stsExpired (dictGet s.db.lastDisc server.host) dur s.now = true) :
    applyStsPolicy s server = some (server, { s with db := { s.db with policies := dictDel s.db.policies server.host } }) := by
  unfold applyStsPolicy
  simp only [hpol, hparse, hexp, if_true]

theorem dictGet_dictSet_same {β : Type} (d : List (Str × β)) (k : Str) (v : β) : dictGet (dictSet d k v) k = some v := by
  induction d with
  | nil => simp [dictSet, dictGet]
  | cons p ps ih =>
    obtain ⟨k', v'⟩ := p
    unfold dictSet
    by_cases h : k' = k
    · simp [h, dictGet]
    · simp [h, dictGet, ih]

/-- Key discipline of the STS store: the driver's current server carries the host name exactly as it is
configured (any spelling), `_onCapSts` stores the policy under that very string and `_applyStsPolicy`
looks it up under the configured string again — so the policy stored on a verified connection is applied
(its port, forced verification) to every later connection to that host until it expires. -/
theorem sts_stored_policy_applied (cfg : Cfg) (policy : Str) (s : St) (port dur : Int)
    (hsec : secureConn cfg s = true) (hparse : parseStsPolicy policy true = some ⟨port, some dur⟩)
    (server : Server) (hh : server.host = s.drv.current.host)
    (hexp : stsExpired (dictGet s.db.lastDisc server.host) dur s.now = false) :
    applyStsPolicy (onCapSts cfg policy s) server =
      some (⟨server.host, port, server.attempt, true⟩, onCapSts cfg policy s) := by
  have hst : onCapSts cfg policy s =
      { s with db := { s.db with policies := dictSet s.db.policies s.drv.current.host policy } } := by
    unfold onCapSts; simp only [hsec, hparse, if_true]
  rw [hst]
  exact sts_applied _ server policy port dur (by simp only; rw [hh]; exact dictGet_dictSet_same _ _ _) hparse hexp

/-- the connected server keeps the configured spelling of the host name -/
theorem connectTo_host (cfg : Cfg) (srv : Server) (s : St) : (connectTo cfg srv s).drv.current.host = srv.host := by
  unfold connectTo; simp only; split <;> rfl

/-- a real-driver history ending in CONNECTED with required SASL: non-vacuity of `sasl_required_safe_real` -/
def exRealReq : Cfg := { exReq with realDriver := true, servers := [⟨"h".toList, 6667, none, false⟩] }
def exRd : St := drvRun exRealReq 1 false [exLs, exAck, exAuth, ex903] (drvStart exRealReq (initSt exRealReq {}))
theorem exRd_reach : DReach exRealReq {} exRd := .run 1 false _ .start
example : pastNegotiation exRd.fsm = true ∧ exRd.saslAuth = true ∧ exRealReq.required = true := by decide

def exStored : St := { db := { policies := [("h".toList, "port=6697,duration=1000".toList)] }, now := 5000 }
example : (applyStsPolicy exStored ⟨"h".toList, 6667, none, false⟩).map (·.1) = some ⟨"h".toList, 6697, none, true⟩ := by decide

/-! ### a restart: the networks data base persists, everything else is new -/

/-- `SocketDriver(irc)` of a newly started process (`restart` in the harness: new Irc object, new driver, server
list not loaded yet) whose first configured server has a stored, parsable, unexpired policy: the first
connection of the new process goes to the policy's port with forced verification, over TLS — whatever else the
data base holds (provided the connection can be established at all). -/
theorem restart_pins_policy (cfg : Cfg) (base : St) (srv : Server) (rest : List Server) (policy : Str) (port dur : Int)
    (hs : cfg.servers = srv :: rest) (hb : base.drv.servers = [])
    (hpol : dictGet base.db.policies srv.host = some policy)
    (hparse : parseStsPolicy policy true = some ⟨port, some dur⟩)
    (hexp : stsExpired (dictGet base.db.lastDisc srv.host) dur base.now = false)
    (hf0 : base.drv.failNext = 0) (htf : cfg.tlsFails = false) :
    let s := drvStart cfg (initSt cfg base)
    s.drv.connected = true ∧ s.drv.current.host = srv.host ∧ s.drv.current.port = port ∧ s.drv.current.forced = true ∧
    (tlsChoice cfg s.drv.current).1 = true := by
  have hi : (initSt cfg base).db = base.db ∧ (initSt cfg base).drv = base.drv ∧ (initSt cfg base).now = base.now := by
    unfold initSt queueConnectMessages transition clearForReset resetSasl
    simp only; split <;> exact ⟨rfl, rfl, rfl⟩
  obtain ⟨h1, h2, h3⟩ := hi
  have hflush : ∀ t : St, (flush t).drv = t.drv := by intro t; unfold flush; split <;> rfl
  simp only [drvStart, hflush, drvConnect, getNextServer, h2, hb, List.isEmpty_nil, if_true, hs]
  have happ := sts_applied ({ initSt cfg base with drv := { { base.drv with attempt := base.drv.attempt + 1, scheduled := false } with servers := rest }, ev := [], wire := [] } : St)
    srv policy port dur (by simpa [h1] using hpol) hparse (by simpa [h1, h3] using hexp)
  simp only [h2] at happ ⊢
  rw [happ]
  simp [connectTo, connectFails, event, tlsChoice, hf0, htf]

/-- A connection attempt that fails (refused, or TLS cannot be set up — e.g. `ssl.authorityCertificate` names a
directory) leaves the driver unconnected with a reconnect scheduled; the server it tried keeps its
`force_tls_verification`, nothing is retried at once with another `Server` value.  The real-driver histories
`DReach` (`C08.sts_no_downgrade_real`, `sasl_required_safe_real`, …) include such failures at any point. -/
theorem connect_failure_schedules (cfg : Cfg) (srv : Server) (s : St)
    (h : connectFails cfg { srv with attempt := some (srv.attempt.getD s.drv.attempt) } s = true) :
    (connectTo cfg srv s).drv.connected = false ∧ (connectTo cfg srv s).drv.scheduled = true ∧
    (connectTo cfg srv s).drv.current.forced = srv.forced ∧ (connectTo cfg srv s).drv.current.host = srv.host ∧
    (connectTo cfg srv s).db = s.db ∧ (connectTo cfg srv s).fastq = s.fastq := by
  unfold connectTo
  simp only [h, if_true]
  exact ⟨rfl, rfl, rfl, rfl, rfl, rfl⟩

end C09
