/-
C09 — line-protocol driver: the connection machine is shared with C08, so is the driver
(new / msg / reset for stub-driver runs, dstart / run for real-driver runs).
-/
import LimnoriaModel.C09.Model
import LimnoriaModel.C08.Drive
namespace C09
def handler : Driver.Handler := C08.handler
end C09
