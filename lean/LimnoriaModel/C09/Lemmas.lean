/-
C09 — lemmas: the stored STS policies along a sequence of abstract moves; facts about the driver's
connection decisions.
-/
import LimnoriaModel.C09.Model
import LimnoriaModel.C08.Trace
namespace C09
open Py C08
open Gen.Conn (Fsm)

theorem dictGet_dictDel_eq {β : Type} (d : List (Str × β)) (h k : Str) :
    dictGet (dictDel d h) k = if k = h then none else dictGet d k := by
  induction d with
  | nil => simp [dictDel, dictGet]
  | cons p ps ih =>
    obtain ⟨k', v'⟩ := p
    have hd : dictDel ((k', v') :: ps) h = if (k' != h) = true then (k', v') :: dictDel ps h else dictDel ps h := by
      simp [dictDel, List.filter_cons]
    rw [hd]
    by_cases hk : k' = h
    · have : (k' != h) = false := by simp [hk]
      simp only [this, Bool.false_eq_true, if_false, ih]
      by_cases hkh : k = h
      · simp [hkh]
      · simp only [hkh, if_false]
        have : k' ≠ k := by rw [hk]; exact fun e => hkh e.symm
        simp [dictGet, this]
    · have : (k' != h) = true := by simp [hk]
      simp only [this, if_true]
      unfold dictGet
      by_cases he : k' = k
      · have : k ≠ h := by rw [← he]; exact hk
        simp [he, this]
      · simp only [he, if_false]; exact ih

theorem dictGet_dictDel {β : Type} {d : List (Str × β)} {h k : Str} {v : β}
    (hg : dictGet (dictDel d h) k = some v) : dictGet d k = some v := by
  rw [dictGet_dictDel_eq] at hg
  by_cases hk : k = h
  · simp [hk] at hg
  · simpa [hk] using hg

/-- no stored policy is added or changed -/
def NoNewPolicy (a b : Abs) : Prop := ∀ k p, dictGet b.policies k = some p → dictGet a.policies k = some p

theorem sock_mono_move {cfg : Cfg} {K : Kind → Bool} {a b : Abs} (m : Move cfg K a b) : a.sock ≤ b.sock := by
  cases m <;> simp

theorem sock_mono {cfg : Cfg} {K : Kind → Bool} {a b : Abs} (m : Moves cfg K a b) : a.sock ≤ b.sock := by
  induction m with
  | refl => exact Nat.le_refl _
  | step _ m ih => exact Nat.le_trans ih (sock_mono_move m)

/-- On a connection the bot does not consider verified TLS, and as long as no new socket is opened, no
sequence of moves adds or changes a stored STS policy (expiry can only remove one). -/
theorem noNewPolicy_moves {cfg : Cfg} {K : Kind → Bool} {a b : Abs} (m : Moves cfg K a b)
    (hs : aSecure cfg a = false) (hk : b.sock = a.sock) : NoNewPolicy a b ∧ b.forced = a.forced := by
  induction m with
  | refl => exact ⟨fun _ _ h => h, rfl⟩
  | step m0 m ih =>
    rename_i b c
    have h1 := sock_mono m0
    have h2 := sock_mono_move m
    have hb : b.sock = a.sock := by omega
    obtain ⟨hn, hf⟩ := ih hb
    have hsb : aSecure cfg b = false := by simpa [aSecure, hf] using hs
    cases m
    case store h ps _ => rw [hsb] at h; cases h
    case expire host => exact ⟨fun k p hg => hn k p (dictGet_dictDel hg), hf⟩
    case conn f hh hr hp hj hpol => simp at hk; omega
    case connFail f hh hr hp => simp at hk; omega
    all_goals exact ⟨hn, hf⟩

/-- with the stub driver no socket is ever opened by a handler -/
theorem sock_const_stub {cfg : Cfg} {K : Kind → Bool} (hr : cfg.realDriver = false) {a b : Abs}
    (m : Moves cfg K a b) : b.sock = a.sock := by
  induction m with
  | refl => rfl
  | step _ m ih =>
    cases m
    case conn f hh hrr hp hj hpol => rw [hr] at hrr; cases hrr
    case connFail f hh hrr hp => rw [hr] at hrr; cases hrr
    all_goals exact ih

/-- a handler that may not store a policy never adds or changes one -/
theorem noStore_moves {cfg : Cfg} {K : Kind → Bool} (hK : K .storePerm = false) {a b : Abs} (m : Moves cfg K a b) :
    NoNewPolicy a b := by
  induction m with
  | refl => exact fun _ _ h => h
  | step m0 m ih =>
    cases m
    case store h ps hp => rw [hK] at hp; cases hp
    case expire host => exact fun k p hg => ih k p (dictGet_dictDel hg)
    all_goals exact ih

/-- a handler that may not open a socket does not change the server the driver is connected to -/
theorem forced_const_moves {cfg : Cfg} {K : Kind → Bool} (hK : K .connPerm = false) {a b : Abs} (m : Moves cfg K a b) :
    b.forced = a.forced ∧ b.sock = a.sock := by
  induction m with
  | refl => exact ⟨rfl, rfl⟩
  | step _ m ih =>
    cases m
    case conn f hh hr hp hj hpol => rw [hK] at hp; cases hp
    case connFail f hh hr hp => rw [hK] at hp; cases hp
    all_goals exact ih

/-- no handler both stores policies and opens sockets -/
theorem handler_perms (h : Handler) : handlerKinds h .storePerm = false ∨ handlerKinds h .connPerm = false := by
  cases h <;> simp [handlerKinds]

/-- `sasl_response_sent` is raised only inside a SASL state, by a handler that may send credentials -/
theorem sentOrigin_move {cfg : Cfg} {K : Kind → Bool} {a b : Abs} (m : Move cfg K a b) (hb : b.sent = true) :
    a.sent = true ∨ (isSaslState a.fsm = true ∧ K .payload = true) := by
  cases m
  case respond h hp => exact .inr ⟨h, hp⟩
  case unsent => simp at hb
  case reset _ => simp at hb
  all_goals exact .inl hb

theorem sentOrigin_moves {cfg : Cfg} {K : Kind → Bool} (hK : K .startSasl = false) {a b : Abs} (m : Moves cfg K a b)
    (hb : b.sent = true) : a.sent = true ∨ (isSaslState a.fsm = true ∧ K .payload = true) := by
  induction m with
  | refl => exact .inl hb
  | step m0 m ih =>
    rcases sentOrigin_move m hb with h | ⟨h1, h2⟩
    · exact ih h
    · exact .inr ⟨(noSaslEntry_moves hK m0 h1).1, h2⟩

end C09
