import LimnoriaModel.C09.Model
import LimnoriaModel.C08.Trace
namespace C09
end C09
