/-
C09 — lemmas: the stored STS policies along a sequence of abstract moves; facts about the driver's
connection decisions.
-/
import LimnoriaModel.C09.Model
import LimnoriaModel.C08.Trace
namespace C09
open Py C08
open Gen.Conn (Fsm)

theorem dictGet_dictDel_eq {β : Type} (d : List (Str × β)) (h k : Str) :
    dictGet (dictDel d h) k = if k = h then none else dictGet d k := by
  induction d with
  | nil => simp [dictDel, dictGet]
  | cons p ps ih =>
    obtain ⟨k', v'⟩ := p
    have hd : dictDel ((k', v') :: ps) h = if (k' != h) = true then (k', v') :: dictDel ps h else dictDel ps h := by
      simp [dictDel, List.filter_cons]
    rw [hd]
    by_cases hk : k' = h
    · have : (k' != h) = false := by simp [hk]
      simp only [this, Bool.false_eq_true, if_false, ih]
      by_cases hkh : k = h
      · simp [hkh]
      · simp only [hkh, if_false]
        have : k' ≠ k := by rw [hk]; exact fun e => hkh e.symm
        simp [dictGet, this]
    · have : (k' != h) = true := by simp [hk]
      simp only [this, if_true]
      unfold dictGet
      by_cases he : k' = k
      · have : k ≠ h := by rw [← he]; exact hk
        simp [he, this]
      · simp only [he, if_false]; exact ih

theorem dictGet_dictDel {β : Type} {d : List (Str × β)} {h k : Str} {v : β}
    (hg : dictGet (dictDel d h) k = some v) : dictGet d k = some v := by
  rw [dictGet_dictDel_eq] at hg
  by_cases hk : k = h
  · simp [hk] at hg
  · simpa [hk] using hg

/-- no stored policy is added or changed -/
def NoNewPolicy (a b : Abs) : Prop := ∀ k p, dictGet b.policies k = some p → dictGet a.policies k = some p

theorem sock_mono_move {cfg : Cfg} {K : Kind → Bool} {a b : Abs} (m : Move cfg K a b) : a.sock ≤ b.sock := by
  cases m <;> simp

theorem sock_mono {cfg : Cfg} {K : Kind → Bool} {a b : Abs} (m : Moves cfg K a b) : a.sock ≤ b.sock := by
  induction m with
  | refl => exact Nat.le_refl _
  | step _ m ih => exact Nat.le_trans ih (sock_mono_move m)

/-- On a connection the bot does not consider verified TLS, and as long as no new socket is opened, no
sequence of moves adds or changes a stored STS policy (expiry can only remove one). -/
theorem noNewPolicy_moves {cfg : Cfg} {K : Kind → Bool} {a b : Abs} (m : Moves cfg K a b)
    (hs : aSecure cfg a = false) (hk : b.sock = a.sock) : NoNewPolicy a b ∧ b.forced = a.forced := by
  induction m with
  | refl => exact ⟨fun _ _ h => h, rfl⟩
  | step m0 m ih =>
    rename_i b c
    have h1 := sock_mono m0
    have h2 := sock_mono_move m
    have hb : b.sock = a.sock := by omega
    obtain ⟨hn, hf⟩ := ih hb
    have hsb : aSecure cfg b = false := by simpa [aSecure, hf] using hs
    cases m
    case store h ps => rw [hsb] at h; cases h
    case expire host => exact ⟨fun k p hg => hn k p (dictGet_dictDel hg), hf⟩
    case conn f _ _ => simp at hk; omega
    all_goals exact ⟨hn, hf⟩

/-- with the stub driver no socket is ever opened by a handler -/
theorem sock_const_stub {cfg : Cfg} {K : Kind → Bool} (hr : cfg.realDriver = false) {a b : Abs}
    (m : Moves cfg K a b) : b.sock = a.sock := by
  induction m with
  | refl => rfl
  | step _ m ih =>
    cases m
    case conn f h _ => rw [hr] at h; cases h
    all_goals exact ih

end C09
