import LimnoriaModel.C05.Model
namespace C05
open Py

/-- what the round trip needs from the table: every image is `\x` with `x ≠ LF`, the inverse
lookup of an image gives back the character, and backslash itself is escaped. -/
def TableOk (t : List (Char × Str)) : Prop :=
  (∀ p ∈ t, ∃ x, p.2 = ['\\', x] ∧ x ≠ '\n' ∧ unescLookup t p.2 = some p.1 ∧ t.lookup p.1 = some p.2)
  ∧ (t.lookup '\\').isSome

instance (t : List (Char × Str)) : Decidable (TableOk t) := by
  unfold TableOk
  have : ∀ p : Char × Str, Decidable (∃ x, p.2 = ['\\', x] ∧ x ≠ '\n' ∧ unescLookup t p.2 = some p.1 ∧ t.lookup p.1 = some p.2) := by
    intro p
    match h : p.2 with
    | [a, x] =>
      if h1 : a = '\\' ∧ x ≠ '\n' ∧ unescLookup t [a, x] = some p.1 ∧ t.lookup p.1 = some [a, x] then
        exact isTrue ⟨x, by obtain ⟨rfl, h2, h3, h4⟩ := h1; exact ⟨rfl, h2, h3, h4⟩⟩
      else
        exact isFalse (by
          rintro ⟨y, hy, h2, h3, h4⟩
          injection hy with ha hr
          injection hr with hx _
          subst ha; subst hx
          exact h1 ⟨rfl, h2, h3, h4⟩)
    | [] => exact isFalse (by rintro ⟨y, hy, _⟩; cases hy)
    | [_] => exact isFalse (by rintro ⟨y, hy, _⟩; cases hy)
    | _ :: _ :: _ :: _ => exact isFalse (by rintro ⟨y, hy, _⟩; cases hy)
  exact inferInstance

theorem lookup_mem {t : List (Char × Str)} {c : Char} {r : Str} (h : t.lookup c = some r) : (c, r) ∈ t := by
  induction t with
  | nil => simp [List.lookup] at h
  | cons p ps ih =>
    obtain ⟨a, b⟩ := p
    simp only [List.lookup] at h
    split at h
    · rename_i heq
      have : c = a := by simpa using heq
      subst this
      injection h with h; subst h
      exact List.mem_cons_self
    · exact List.mem_cons_of_mem _ (ih h)

theorem escChar_some {t : List (Char × Str)} {c : Char} {r : Str} (h : t.lookup c = some r) :
    escChar t c = r := by simp [escChar, h]

theorem escChar_none {t : List (Char × Str)} {c : Char} (h : t.lookup c = none) :
    escChar t c = [c] := by simp [escChar, h]

theorem unesc_escape_aux (t : List (Char × Str)) (ht : TableOk t) (v : Str) :
    unescAux t false (escapeWith t v) = v := by
  induction v with
  | nil => simp [escapeWith, unescAux]
  | cons c cs ih =>
    unfold escapeWith at ih ⊢
    simp only [List.flatMap_cons]
    cases hr : t.lookup c with
    | some r =>
      obtain ⟨x, hx, hnl, hinv, _⟩ := ht.1 (c, r) (lookup_mem hr)
      simp only at hx hinv
      subst hx
      rw [escChar_some hr]
      simp only [List.cons_append, List.nil_append, unescAux, ↓reduceIte, hnl, hinv, ih]
    | none =>
      have hc : c ≠ '\\' := by
        intro h; subst h
        have := ht.2
        rw [hr] at this
        simp at this
      rw [escChar_none hr]
      simp only [List.cons_append, List.nil_append, unescAux, hc, ↓reduceIte, ih]

theorem unescape_escape_of_tableOk (t : List (Char × Str)) (ht : TableOk t) (v : Str) :
    unescapeWith t (escapeWith t v) = v := unesc_escape_aux t ht v

end C05
