/- Decidable form of the well-formedness predicate, so that the driver can evaluate the
hypothesis of `parse_format` on the very inputs the harness feeds to the implementation. -/
import LimnoriaModel.C05.RoundTrip
namespace C05
open Py

def TimeClause (timeOk : Str → Bool) (m : Msg) : Prop :=
  match dictGet m.tags timeKey with
  | none => True
  | some none => False
  | some (some s) => s ≠ [] ∧ timeOk s = true

instance (timeOk : Str → Bool) (m : Msg) : Decidable (TimeClause timeOk m) := by
  unfold TimeClause
  split <;> exact inferInstance

def LastClause (m : Msg) : Prop :=
  match m.args.getLast? with
  | none => True
  | some a => rstripCRLF a = a

instance (m : Msg) : Decidable (LastClause m) := by
  unfold LastClause
  split <;> exact inferInstance

def WFD (timeOk : Str → Bool) (m : Msg) : Prop :=
  m.command ≠ [] ∧ ' ' ∉ m.command ∧ '\r' ∉ m.command ∧ '\n' ∉ m.command ∧
  m.command.head? ≠ some ':' ∧ (m.tags = [] → m.pfx = [] → m.command.head? ≠ some '@') ∧
  ' ' ∉ m.pfx ∧ (∀ a ∈ m.args.dropLast, MidOk a) ∧ LastClause m ∧
  (m.tags.map Prod.fst).Nodup ∧ (∀ kv ∈ m.tags, TagKeyOk kv.1) ∧ TimeClause timeOk m

instance (timeOk : Str → Bool) (m : Msg) : Decidable (WFD timeOk m) := by
  unfold WFD; exact inferInstance

theorem wf_of_wfd (timeOk : Str → Bool) (m : Msg) (h : WFD timeOk m) : WF timeOk m := by
  obtain ⟨h1, h2, h3, h4, h5, h6, h7, h8, h9, h10, h11, h12⟩ := h
  refine ⟨h1, h2, h3, h4, h5, h6, h7, h8, ?_, h10, h11, ?_⟩
  · intro a ha
    unfold LastClause at h9
    rw [ha] at h9
    exact h9
  · intro v hv
    unfold TimeClause at h12
    rw [hv] at h12
    cases v with
    | none => exact absurd h12 (by simp)
    | some s => exact ⟨s, rfl, h12.1, h12.2⟩

theorem wfd_of_wf (timeOk : Str → Bool) (m : Msg) (h : WF timeOk m) : WFD timeOk m := by
  refine ⟨h.cmd_ne, h.cmd_sp, h.cmd_cr, h.cmd_lf, h.cmd_colon, h.cmd_at, h.pfx_sp, h.mids, ?_,
    h.keys_nodup, h.keys_ok, ?_⟩
  · unfold LastClause
    cases hl : m.args.getLast? with
    | none => trivial
    | some a => exact h.last a hl
  · unfold TimeClause
    cases hd : dictGet m.tags timeKey with
    | none => trivial
    | some v =>
      obtain ⟨s, rfl, h1, h2⟩ := h.time_ok v hd
      exact ⟨h1, h2⟩

end C05
