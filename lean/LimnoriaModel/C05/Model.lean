/-
C05 — model of `ircmsgs.IrcMsg.__init__` (string branch), `IrcMsg.__str__`,
`_parse_server_tags`, `_format_server_tags`, `escape_server_tag_value`,
`unescape_server_tag_value`, `split_args` (src/ircmsgs.py:57-106, 212-325).
-/
import LimnoriaModel.Py.Basic
import LimnoriaModel.Gen.IrcMsgs
namespace C05
open Py

abbrev Tags := List (Str × Option Str)

structure Msg where
  pfx : Str
  command : Str
  args : List Str
  tags : Tags
deriving DecidableEq, Repr

/-! ### tag value escaping -/

/-- `escape_server_tag_value` = `MultipleReplacer(dict(SERVER_TAG_ESCAPE))`: every key is a
single character, so the regexp alternation replaces character by character. -/
def escChar (t : List (Char × Str)) (c : Char) : Str :=
  match t.lookup c with
  | some r => r
  | none => [c]

def escapeWith (t : List (Char × Str)) (v : Str) : Str := v.flatMap (escChar t)

/-- `_server_tag_unescape.get(seq)`: the table inverted (later pairs win, as in a dict
comprehension; the table has distinct images so this is immaterial). -/
def unescLookup (t : List (Char × Str)) (seq : Str) : Option Char :=
  (t.reverse.find? (fun p => p.2 = seq)).map (·.1)

/-- `re.sub(r'\\.?', _unescape_replacer, s)`; the Bool says "previous character was an
unconsumed backslash".  `.` does not match a newline, so `\` + LF is a lone backslash
(dropped) followed by an ordinary LF. -/
def unescAux (t : List (Char × Str)) : Bool → Str → Str
  | false, [] => []
  | true, [] => (match unescLookup t ['\\'] with
      | some u => [u]
      | none => [])
  | false, c :: cs => if c = '\\' then unescAux t true cs else c :: unescAux t false cs
  | true, c :: cs =>
    if c = '\n' then
      (match unescLookup t ['\\'] with
        | some u => u :: c :: unescAux t false cs
        | none => c :: unescAux t false cs)
    else
      (match unescLookup t ['\\', c] with
        | some u => u
        | none => c) :: unescAux t false cs

def unescapeWith (t : List (Char × Str)) (v : Str) : Str := unescAux t false v

def escapeTag (v : Str) : Str := escapeWith Gen.serverTagEscape v
def unescapeTag (v : Str) : Str := unescapeWith Gen.serverTagEscape v

/-! ### tag dictionaries (Python dict: insertion order, in-place update) -/

def dictSet (d : Tags) (k : Str) (v : Option Str) : Tags :=
  match d with
  | [] => [(k, v)]
  | (k', v') :: rest => if k' = k then (k, v) :: rest else (k', v') :: dictSet rest k v

def dictGet (d : Tags) (k : Str) : Option (Option Str) :=
  match d with
  | [] => none
  | (k', v') :: rest => if k' = k then some v' else dictGet rest k

def parseTag (tag : Str) : Str × Option Str :=
  match split1 '=' tag with
  | none => (tag, none)
  | some (k, v) =>
    let v' := unescapeTag v
    (k, if v' = [] then none else some v')

def parseTags (s : Str) : Tags :=
  (splitChar ';' s).foldl (fun d tag => let (k, v) := parseTag tag; dictSet d k v) []

def formatTag : Str × Option Str → Str
  | (k, none) => k
  | (k, some v) => k ++ '=' :: escapeTag v

def formatTags (t : Tags) : Str := '@' :: joinChar ';' (t.map formatTag)

/-- `split_args(s)`: split on single blanks, drop empty pieces -/
def splitArgs (s : Str) : List Str := (splitChar ' ' s).filter (fun p => !p.isEmpty)

/-! ### serialisation -/

def formatBody (m : Msg) : Str :=
  let p : Str := if m.pfx = [] then [] else ':' :: m.pfx ++ [' ']
  match m.args with
  | [] => p ++ m.command ++ ['\r', '\n']
  | [a] => p ++ m.command ++ [' ', ':'] ++ a ++ ['\r', '\n']
  | a :: b :: rest =>
    let all := a :: b :: rest
    p ++ m.command ++ [' '] ++ joinChar ' ' all.dropLast ++ [' ', ':']
      ++ (all.getLast (by simp [all])) ++ ['\r', '\n']

/-- `IrcMsg.__str__` of a message built from fields (no cached string) -/
def format (m : Msg) : Str :=
  if m.tags = [] then formatBody m else formatTags m.tags ++ ' ' :: formatBody m

/-! ### parsing -/

inductive ParseResult where
  | ok (m : Msg) (str : Str)        -- the message and its cached `_str`
  | malformed                        -- MalformedIrcMsg
  | crash (exc : String)             -- any other exception escaping the constructor
deriving DecidableEq, Repr

def timeKey : Str := ['t', 'i', 'm', 'e']

/-- `if not s.endswith('\n'): s += '\n'` -/
def addLF (s : Str) : Str := if endsWithChar '\n' s then s else s ++ ['\n']

/-- the `if s[0] == '@'` step: `(server_tags, s) = s.split(' ', 1)`; `none` = unpacking ValueError -/
def splitTags (s : Str) : Option (Tags × Str) :=
  if s.head? = some '@' then
    match split1 ' ' s with
    | none => none
    | some (t, rest) => some (parseTags (t.drop 1), rest)
  else some ([], s)

/-- the `if ' :' in s` step: the raw argument list (prefix and command still in front) -/
def rawArgs (s1 : Str) : List Str :=
  match split2 ' ' ':' s1 with
  | some (a, last) => splitArgs a ++ [rstripCRLF last]
  | none => splitArgs (rstripCRLF s1)

/-- prefix detection, command pop, time tag -/
def finish (timeOk : Str → Bool) (tags : Tags) (s : Str) : List Str → ParseResult
  | [] => .malformed                          -- self.args[0]: IndexError
  | [] :: _ => .malformed                     -- self.args[0][0]: IndexError
  | (c :: a0) :: rest =>
    let pa : Str × List Str := if c = ':' then (a0, rest) else ([], (c :: a0) :: rest)
    match pa.2 with
    | [] => .malformed                        -- self.args.pop(0): IndexError
    | cmd :: args' =>
      match dictGet tags timeKey with
      | none => .ok ⟨pa.1, cmd, args', tags⟩ s
      | some none => .malformed               -- valueless time tag: ValueError (since the fix)
      | some (some v) => if timeOk v then .ok ⟨pa.1, cmd, args', tags⟩ s else .malformed

/-- `IrcMsg(s)`.  `timeOk v` = "`datetime.strptime(v, '%Y-%m-%dT%H:%M:%S.%fZ')` returns"
(it raises `ValueError` otherwise) — a parameter of the model. -/
def parse (timeOk : Str → Bool) (s0 : Str) : ParseResult :=
  if s0 = [] then .malformed else
  match splitTags (addLF s0) with
  | none => .malformed
  | some (tags, s1) => finish timeOk tags (addLF s0) (rawArgs s1)

/-- same, but also reporting the `time` value whose acceptance the result depends on
(used by the driver, which lets the harness ask the real `strptime`). -/
def parseNeedsTime (s0 : Str) : Option Str :=
  match parse (fun _ => true) s0 with
  | .ok m _ => (match dictGet m.tags timeKey with
      | some (some v) => some v
      | _ => none)
  | _ => none

end C05
