import LimnoriaModel.C05.Hostmask
import LimnoriaModel.C05.SplitLemmas
namespace C05
open Py

theorem split1_some_of_mem (c : Char) (s : Str) (h : c ∈ s) :
    ∃ a b, split1 c s = some (a, b) ∧ s = a ++ c :: b ∧ c ∉ a := by
  induction s with
  | nil => simp at h
  | cons x xs ih =>
    by_cases hx : x = c
    · subst hx; exact ⟨[], xs, by simp [split1], rfl, by simp⟩
    · have hm : c ∈ xs := by
        rcases List.mem_cons.mp h with e | e
        · exact absurd e.symm hx
        · exact e
      obtain ⟨a, b, h1, h2, h3⟩ := ih hm
      refine ⟨x :: a, b, by simp [split1, hx, h1], by simp [h2], ?_⟩
      simp only [List.mem_cons, not_or]
      exact ⟨fun e => hx e.symm, h3⟩

/-- `rsplit` succeeds when the separator occurs, and splits at its last occurrence -/
theorem rsplit1_some_of_mem (c : Char) (s : Str) (h : c ∈ s) :
    ∃ r t, rsplit1 c s = some (r, t) ∧ s = r ++ c :: t ∧ c ∉ t := by
  obtain ⟨a, b, h1, h2, h3⟩ := split1_some_of_mem c s.reverse (by simpa using h)
  refine ⟨b.reverse, a.reverse, by simp [rsplit1, h1], ?_, by simpa using h3⟩
  have := congrArg List.reverse h2
  simpa using this

theorem mem_of_contains {c : Char} {l : Str} (h : l.contains c = true) : c ∈ l := by
  simpa using h

theorem afterBang_spec {s : Str} (h : afterBang s = true) :
    ∃ b B C d, s = b :: B ++ '@' :: C ++ [d] := by
  cases s with
  | nil => simp [afterBang] at h
  | cons b rest =>
    simp only [afterBang] at h
    have hm : '@' ∈ rest.dropLast := mem_of_contains h
    obtain ⟨B, C, hBC⟩ := List.append_of_mem hm
    have hne : rest ≠ [] := by intro e; subst e; simp at hm
    obtain ⟨d, hd⟩ : ∃ d, rest = rest.dropLast ++ [d] :=
      ⟨rest.getLast hne, (List.dropLast_concat_getLast hne).symm⟩
    refine ⟨b, B, C, d, ?_⟩
    rw [hd, hBC]
    simp

theorem anyBang_spec {s : Str} (h : anyBang s = true) :
    ∃ A b B C d, s = A ++ '!' :: b :: B ++ '@' :: C ++ [d] := by
  induction s with
  | nil => simp [anyBang] at h
  | cons x xs ih =>
    simp only [anyBang, Bool.or_eq_true, Bool.and_eq_true, beq_iff_eq] at h
    rcases h with ⟨hx, hab⟩ | h
    · subst hx
      obtain ⟨b, B, C, d, hs⟩ := afterBang_spec hab
      exact ⟨[], b, B, C, d, by simp [hs]⟩
    · obtain ⟨A, b, B, C, d, hs⟩ := ih h
      exact ⟨x :: A, b, B, C, d, by simp [hs]⟩

/-- a string accepted by the regexp has a `!` strictly before some `@` -/
theorem core_spec {s : Str} (h : core s = true) :
    ∃ X Y, s = X ++ '@' :: Y ∧ '!' ∈ X := by
  cases s with
  | nil => simp [core] at h
  | cons a rest =>
    obtain ⟨A, b, B, C, d, hs⟩ := anyBang_spec (by simpa [core] using h)
    refine ⟨a :: A ++ '!' :: b :: B, C ++ [d], ?_, by simp⟩
    rw [hs]; simp

/-- if `s = X ++ c :: Y` and also `s = r ++ c :: t` with `c ∉ t` (last occurrence), then `X` is a
prefix of `r` -/
theorem prefix_of_last {c : Char} {X Y r t : Str} (h : X ++ c :: Y = r ++ c :: t) (ht : c ∉ t) :
    ∃ Z, r = X ++ Z := by
  rcases List.append_eq_append_iff.mp h with ⟨a', h1, h2⟩ | ⟨c', h1, h2⟩
  · exact ⟨a', h1⟩
  · -- X = r ++ c', c :: t = c' ++ c :: Y  : then c' = [] (else c ∈ t)
    cases c' with
    | nil => exact ⟨[], by simpa using h1.symm⟩
    | cons z zs =>
      exfalso
      simp only [List.cons_append, List.cons.injEq] at h2
      apply ht
      rw [h2.2]
      simp

theorem splitHostmask_of_decomp {s X Y : Str} (hs : s = X ++ '@' :: Y) (hb : '!' ∈ X) :
    (splitHostmask s).isSome = true := by
  have hat : '@' ∈ s := by rw [hs]; simp
  obtain ⟨r, t, h1, h2, h3⟩ := rsplit1_some_of_mem '@' s hat
  obtain ⟨Z, hZ⟩ := prefix_of_last (hs.symm.trans h2) h3
  have hbr : '!' ∈ r := by rw [hZ]; simp [hb]
  obtain ⟨n, u, h4, _, _⟩ := rsplit1_some_of_mem '!' r hbr
  simp [splitHostmask, h1, h4]

theorem split1_spec {c : Char} {s a b : Str} (h : split1 c s = some (a, b)) : s = a ++ c :: b ∧ c ∉ a := by
  induction s generalizing a b with
  | nil => simp [split1] at h
  | cons x xs ih =>
    simp only [split1] at h
    split at h
    · rename_i hx
      injection h with h; injection h with h1 h2
      subst h1; subst h2; subst hx
      exact ⟨rfl, by simp⟩
    · rename_i hx
      cases hr : split1 c xs with
      | none => rw [hr] at h; simp at h
      | some p =>
        obtain ⟨a', b'⟩ := p
        rw [hr] at h
        injection h with h; injection h with h1 h2
        subst h1; subst h2
        obtain ⟨e, hn⟩ := ih hr
        refine ⟨by rw [e]; rfl, ?_⟩
        simp only [List.mem_cons, not_or]
        exact ⟨fun e' => hx e'.symm, hn⟩

theorem rsplit1_spec {c : Char} {s r t : Str} (h : rsplit1 c s = some (r, t)) : s = r ++ c :: t ∧ c ∉ t := by
  unfold rsplit1 at h
  cases hs : split1 c s.reverse with
  | none => rw [hs] at h; simp at h
  | some p =>
    obtain ⟨a, b⟩ := p
    rw [hs] at h
    simp only [Option.map_some, Option.some.injEq, Prod.mk.injEq] at h
    obtain ⟨h1, h2⟩ := h
    obtain ⟨e, hn⟩ := split1_spec hs
    subst h1; subst h2
    have := congrArg List.reverse e
    simp only [List.reverse_reverse, List.reverse_append, List.reverse_cons, List.append_assoc,
      List.singleton_append] at this
    exact ⟨this, by simpa using hn⟩

/-- what `splitHostmask` returns re-joins to the hostmask (`joinHostmask ∘ splitHostmask = id`),
the host contains no `@` and the user no `!` -/
theorem splitHostmask_join {s n u h : Str} (hs : splitHostmask s = some (n, u, h)) :
    s = n ++ '!' :: u ++ '@' :: h ∧ '@' ∉ h ∧ '!' ∉ u := by
  unfold splitHostmask at hs
  cases h1 : rsplit1 '@' s with
  | none => rw [h1] at hs; simp at hs
  | some p =>
    obtain ⟨rest, host⟩ := p
    rw [h1] at hs
    simp only at hs
    cases h2 : rsplit1 '!' rest with
    | none => rw [h2] at hs; simp at hs
    | some q =>
      obtain ⟨nick, user⟩ := q
      rw [h2] at hs
      simp only [Option.some.injEq, Prod.mk.injEq] at hs
      obtain ⟨e1, e2, e3⟩ := hs
      subst e1; subst e2; subst e3
      obtain ⟨ea, ha⟩ := rsplit1_spec h1
      obtain ⟨eb, hb⟩ := rsplit1_spec h2
      refine ⟨?_, ha, hb⟩
      rw [ea, eb]

theorem hostFields_isSome (p : Str) : (hostFields p).isSome = true := by
  unfold hostFields
  split
  · rename_i h
    unfold isUserHostmask at h
    simp only [Bool.and_eq_true] at h
    obtain ⟨X, Y, hXY, hb⟩ := core_spec h.2
    by_cases hl : endsWithChar '\n' p = true
    · simp only [hl, ↓reduceIte] at hXY
      have hne : p ≠ [] := by intro e; subst e; simp [endsWithChar] at hl
      have hp : p = p.dropLast ++ ['\n'] := by
        have h1 := (List.dropLast_concat_getLast hne).symm
        have h2 : p.getLast hne = '\n' := by
          have : p.getLast? = some (p.getLast hne) := List.getLast?_eq_some_getLast hne
          unfold endsWithChar at hl
          rw [this] at hl
          simpa using hl
        rw [h2] at h1; exact h1
      apply splitHostmask_of_decomp (X := X) (Y := Y ++ ['\n']) _ hb
      rw [hp, hXY]; simp
    · simp only [hl] at hXY
      exact splitHostmask_of_decomp (by simpa using hXY) hb
  · rfl

end C05
