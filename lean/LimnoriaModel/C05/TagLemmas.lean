/- Tag dictionary lemmas for the C05 round trip. -/
import LimnoriaModel.C05.Lemmas
import LimnoriaModel.C05.SplitLemmas
namespace C05
open Py

/-- second family of table facts: escaped text never contains the separators `;` and blank -/
def TableSep (t : List (Char × Str)) : Prop :=
  (∀ p ∈ t, ';' ∉ p.2 ∧ ' ' ∉ p.2) ∧ (t.lookup ';').isSome ∧ (t.lookup ' ').isSome

instance (t : List (Char × Str)) : Decidable (TableSep t) := by unfold TableSep; exact inferInstance

theorem escChar_nosep {t : List (Char × Str)} (ht : TableSep t) (c : Char) :
    ';' ∉ escChar t c ∧ ' ' ∉ escChar t c := by
  cases hr : t.lookup c with
  | some r =>
    rw [escChar_some hr]
    exact ht.1 (c, r) (lookup_mem hr)
  | none =>
    rw [escChar_none hr]
    have h1 : c ≠ ';' := by
      intro e; subst e; have := ht.2.1; rw [hr] at this; simp at this
    have h2 : c ≠ ' ' := by
      intro e; subst e; have := ht.2.2; rw [hr] at this; simp at this
    simp [h1.symm, h2.symm]

theorem escape_nosep {t : List (Char × Str)} (ht : TableSep t) (v : Str) :
    ';' ∉ escapeWith t v ∧ ' ' ∉ escapeWith t v := by
  unfold escapeWith
  constructor
  · intro h
    obtain ⟨c, _, hc⟩ := List.mem_flatMap.mp h
    exact (escChar_nosep ht c).1 hc
  · intro h
    obtain ⟨c, _, hc⟩ := List.mem_flatMap.mp h
    exact (escChar_nosep ht c).2 hc

def TagKeyOk (k : Str) : Prop := ' ' ∉ k ∧ ';' ∉ k ∧ '=' ∉ k

instance (k : Str) : Decidable (TagKeyOk k) := by unfold TagKeyOk; exact inferInstance

/-- an empty tag value is the same as no value (the IRCv3 rule `_parse_server_tags` cites) -/
def canonVal : Option Str → Option Str
  | some [] => none
  | x => x

def canonTags (t : Tags) : Tags := t.map fun kv => (kv.1, canonVal kv.2)

theorem parseTag_formatTag (hE : TableOk Gen.serverTagEscape) (k : Str) (v : Option Str)
    (hk : TagKeyOk k) : parseTag (formatTag (k, v)) = (k, canonVal v) := by
  cases v with
  | none => simp [formatTag, parseTag, split1_none '=' k hk.2.2, canonVal]
  | some v =>
    simp only [formatTag, parseTag, split1_append '=' k _ hk.2.2]
    have : unescapeTag (escapeTag v) = v := unescape_escape_of_tableOk _ hE v
    rw [this]
    cases v <;> simp [canonVal]

theorem formatTag_nosep (hS : TableSep Gen.serverTagEscape) (k : Str) (v : Option Str) (hk : TagKeyOk k) :
    ';' ∉ formatTag (k, v) ∧ ' ' ∉ formatTag (k, v) := by
  cases v with
  | none => exact ⟨hk.2.1, hk.1⟩
  | some v =>
    have := escape_nosep hS v
    simp only [formatTag, escapeTag, List.mem_append, List.mem_cons, not_or]
    exact ⟨⟨hk.2.1, by decide, this.1⟩, ⟨hk.1, by decide, this.2⟩⟩

theorem dictSet_fresh (d : Tags) (k : Str) (v : Option Str) (h : k ∉ d.map Prod.fst) :
    dictSet d k v = d ++ [(k, v)] := by
  induction d with
  | nil => rfl
  | cons p rest ih =>
    obtain ⟨k', v'⟩ := p
    have h1 : k' ≠ k := fun e => h (by simp [e])
    have h2 : k ∉ rest.map Prod.fst := fun e => h (by simp [e])
    simp [dictSet, h1, ih h2]

theorem foldl_tags (hE : TableOk Gen.serverTagEscape) (tags d0 : Tags)
    (hk : ∀ kv ∈ tags, TagKeyOk kv.1)
    (hnd : ((d0 ++ tags).map Prod.fst).Nodup) :
    (tags.map formatTag).foldl (fun d tag => let (k, v) := parseTag tag; dictSet d k v) d0
      = d0 ++ canonTags tags := by
  induction tags generalizing d0 with
  | nil => simp [canonTags]
  | cons kv rest ih =>
    obtain ⟨k, v⟩ := kv
    simp only [List.map_cons, List.foldl_cons]
    rw [parseTag_formatTag hE k v (hk (k, v) (by simp))]
    simp only
    have hfresh : k ∉ d0.map Prod.fst := by
      intro hin
      simp only [List.map_append, List.map_cons] at hnd
      have := (List.nodup_append.mp hnd).2.2 k hin k (by simp)
      exact this rfl
    rw [dictSet_fresh d0 k _ hfresh]
    have hnd' : (((d0 ++ [(k, canonVal v)]) ++ rest).map Prod.fst).Nodup := by
      simpa [List.map_append] using hnd
    rw [ih (d0 ++ [(k, canonVal v)]) (fun x hx => hk x (by simp [hx])) hnd']
    simp [canonTags]

theorem parseTags_formatTags (hE : TableOk Gen.serverTagEscape) (hS : TableSep Gen.serverTagEscape)
    (tags : Tags) (hne : tags ≠ []) (hk : ∀ kv ∈ tags, TagKeyOk kv.1)
    (hnd : (tags.map Prod.fst).Nodup) :
    parseTags (joinChar ';' (tags.map formatTag)) = canonTags tags := by
  unfold parseTags
  rw [splitChar_join ';' _ (by simpa using hne)]
  · simpa using foldl_tags hE tags [] hk (by simpa using hnd)
  · intro p hp
    obtain ⟨⟨k, v⟩, hkv, rfl⟩ := List.mem_map.mp hp
    exact (formatTag_nosep hS k v (hk _ hkv)).1

theorem joinTags_nospace (hS : TableSep Gen.serverTagEscape) (tags : Tags)
    (hk : ∀ kv ∈ tags, TagKeyOk kv.1) : ' ' ∉ joinChar ';' (tags.map formatTag) := by
  induction tags with
  | nil => simp [joinChar]
  | cons kv rest ih =>
    obtain ⟨k, v⟩ := kv
    have h1 := (formatTag_nosep hS k v (hk (k, v) (by simp))).2
    have h2 := ih (fun x hx => hk x (by simp [hx]))
    cases rest with
    | nil => simpa [joinChar] using h1
    | cons q r =>
      simp only [List.map_cons, joinChar, List.mem_append, List.mem_cons, not_or] at h2 ⊢
      exact ⟨h1, by decide, h2⟩

theorem dictGet_canon (tags : Tags) (k : Str) :
    dictGet (canonTags tags) k = (dictGet tags k).map canonVal := by
  induction tags with
  | nil => rfl
  | cons kv rest ih =>
    obtain ⟨k', v'⟩ := kv
    simp only [canonTags, List.map_cons, dictGet] at ih ⊢
    split <;> simp_all

end C05
