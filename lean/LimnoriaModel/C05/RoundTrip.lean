/- The parse ∘ format round trip, proved from the two table predicates. -/
import LimnoriaModel.C05.TagLemmas
namespace C05
open Py

/-- a middle argument: non-empty, no blank, no leading colon -/
def MidOk (a : Str) : Prop := a ≠ [] ∧ ' ' ∉ a ∧ a.head? ≠ some ':'

instance (a : Str) : Decidable (MidOk a) := by unfold MidOk; exact inferInstance

/-- Well-formedness of a message built from fields (explicit, decidable clause by clause). -/
structure WF (timeOk : Str → Bool) (m : Msg) : Prop where
  cmd_ne : m.command ≠ []
  cmd_sp : ' ' ∉ m.command
  cmd_cr : '\r' ∉ m.command
  cmd_lf : '\n' ∉ m.command
  cmd_colon : m.command.head? ≠ some ':'
  /-- only matters when the line would otherwise start with the command -/
  cmd_at : m.tags = [] → m.pfx = [] → m.command.head? ≠ some '@'
  pfx_sp : ' ' ∉ m.pfx
  mids : ∀ a ∈ m.args.dropLast, MidOk a
  /-- the trailing argument is arbitrary (empty, colons, blanks, Unicode) but does not end in CR/LF -/
  last : ∀ a, m.args.getLast? = some a → rstripCRLF a = a
  keys_nodup : (m.tags.map Prod.fst).Nodup
  keys_ok : ∀ kv ∈ m.tags, TagKeyOk kv.1
  /-- a `time` tag, if present, carries a non-empty value the `strptime` parameter accepts -/
  time_ok : ∀ v, dictGet m.tags timeKey = some v → ∃ s, v = some s ∧ s ≠ [] ∧ timeOk s = true

def canon (m : Msg) : Msg := { m with tags := canonTags m.tags }

def pfxWords (m : Msg) : List Str := if m.pfx = [] then [] else [':' :: m.pfx]

def words (m : Msg) : List Str := pfxWords m ++ [m.command] ++ m.args.dropLast

def tailPart (m : Msg) : Str :=
  match m.args.getLast? with
  | none => ['\r', '\n']
  | some l => ' ' :: ':' :: (l ++ ['\r', '\n'])

theorem joinChar_append (c : Char) (ws vs : List Str) (h1 : ws ≠ []) (h2 : vs ≠ []) :
    joinChar c (ws ++ vs) = joinChar c ws ++ c :: joinChar c vs := by
  induction ws with
  | nil => exact absurd rfl h1
  | cons w rest ih =>
    cases rest with
    | nil =>
      cases vs with
      | nil => exact absurd rfl h2
      | cons v vs' => simp [joinChar]
    | cons r rest' =>
      have := ih (by simp)
      simp only [List.cons_append, joinChar] at this ⊢
      rw [this]
      simp

theorem pfxPart_eq (m : Msg) :
    (if m.pfx = [] then ([] : Str) else ':' :: m.pfx ++ [' ']) ++ m.command
      = joinChar ' ' (pfxWords m ++ [m.command]) := by
  unfold pfxWords
  split <;> simp [joinChar]

theorem formatBody_eq (m : Msg) : formatBody m = joinChar ' ' (words m) ++ tailPart m := by
  unfold formatBody words tailPart
  match h : m.args with
  | [] => simp [← pfxPart_eq]
  | [a] => simp [← pfxPart_eq]
  | a :: b :: rest =>
    have hne : (a :: b :: rest).dropLast ≠ [] := by simp [List.dropLast]
    have hl : (a :: b :: rest).getLast? = some ((a :: b :: rest).getLast (by simp)) :=
      List.getLast?_eq_some_getLast (by simp)
    simp only [hl]
    rw [joinChar_append ' ' (pfxWords m ++ [m.command]) _ (by simp) hne, ← pfxPart_eq]
    simp

theorem words_ok (timeOk : Str → Bool) (m : Msg) (h : WF timeOk m) :
    (∀ w ∈ words m, w ≠ [] ∧ ' ' ∉ w) ∧ (∀ w ∈ (words m).tail, w.head? ≠ some ':') := by
  unfold words pfxWords
  have hc : m.command ≠ [] ∧ ' ' ∉ m.command := ⟨h.cmd_ne, h.cmd_sp⟩
  have hm : ∀ w ∈ m.args.dropLast, w ≠ [] ∧ ' ' ∉ w := fun w hw => ⟨(h.mids w hw).1, (h.mids w hw).2.1⟩
  have hm2 : ∀ w ∈ m.args.dropLast, w.head? ≠ some ':' := fun w hw => (h.mids w hw).2.2
  split
  · constructor
    · intro w hw
      simp only [List.nil_append, List.cons_append, List.mem_cons] at hw
      rcases hw with rfl | hw
      · exact hc
      · exact hm w hw
    · intro w hw
      simp only [List.nil_append, List.cons_append, List.tail_cons] at hw
      exact hm2 w hw
  · constructor
    · intro w hw
      simp only [List.cons_append, List.nil_append, List.mem_cons] at hw
      rcases hw with rfl | rfl | hw
      · exact ⟨by simp, by simpa using h.pfx_sp⟩
      · exact hc
      · exact hm w hw
    · intro w hw
      simp only [List.cons_append, List.nil_append, List.tail_cons, List.mem_cons] at hw
      rcases hw with rfl | hw
      · exact h.cmd_colon
      · exact hm2 w hw

theorem join_words_last (timeOk : Str → Bool) (m : Msg) (h : WF timeOk m) (hargs : m.args = []) :
    rstripCRLF (joinChar ' ' (words m)) = joinChar ' ' (words m) := by
  have : joinChar ' ' (words m) =
      (if m.pfx = [] then ([] : Str) else ':' :: m.pfx ++ [' ']) ++ m.command := by
    rw [pfxPart_eq]; simp [words, hargs]
  rw [this]
  obtain ⟨l, hl⟩ : ∃ l, m.command.getLast? = some l := by
    cases hc : m.command.getLast? with
    | none => exact absurd (List.getLast?_eq_none_iff.mp hc) h.cmd_ne
    | some l => exact ⟨l, rfl⟩
  have hmem : l ∈ m.command := List.mem_of_getLast? hl
  have hp : isCRLF l = false := by
    unfold isCRLF
    have h1 : l ≠ '\r' := fun e => h.cmd_cr (e ▸ hmem)
    have h2 : l ≠ '\n' := fun e => h.cmd_lf (e ▸ hmem)
    simp [h1, h2]
  exact rstripP_append_keep isCRLF _ _ l hl hp

theorem rawArgs_formatBody (timeOk : Str → Bool) (m : Msg) (h : WF timeOk m) :
    rawArgs (formatBody m) = pfxWords m ++ m.command :: m.args := by
  have hw := words_ok timeOk m h
  have hsc : hasSC (joinChar ' ' (words m)) = false :=
    hasSC_joinWords _ (fun w hw' => (hw.1 w hw').2) hw.2
  rw [formatBody_eq]
  unfold rawArgs tailPart
  cases hl : m.args.getLast? with
  | none =>
    have hargs : m.args = [] := List.getLast?_eq_none_iff.mp hl
    have hsc2 : hasSC (joinChar ' ' (words m) ++ ['\r', '\n']) = false := by
      rw [hasSC_append]; simp [hsc, hasSC]
    simp only [split2_none_of_noSC _ hsc2, rstripCRLF_crlf, join_words_last timeOk m h hargs]
    rw [splitArgs_joinWords _ hw.1]
    simp [words, hargs]
  | some l =>
    simp only [split2_of_noSC _ _ hsc, rstripCRLF_crlf, h.last l hl]
    rw [splitArgs_joinWords _ hw.1]
    have : m.args = m.args.dropLast ++ [l] := by
      obtain ⟨ys, hys⟩ := List.getLast?_eq_some_iff.mp hl
      rw [hys]; simp
    simp only [words, List.append_assoc, List.cons_append, List.nil_append]
    rw [← this]

theorem finish_words (timeOk : Str → Bool) (m : Msg) (h : WF timeOk m) (s : Str) :
    finish timeOk (canonTags m.tags) s (pfxWords m ++ m.command :: m.args)
      = .ok (canon m) s := by
  have htime : (dictGet (canonTags m.tags) timeKey = none) ∨
      (∃ v, dictGet (canonTags m.tags) timeKey = some (some v) ∧ timeOk v = true) := by
    rw [dictGet_canon]
    cases hd : dictGet m.tags timeKey with
    | none => left; rfl
    | some v =>
      obtain ⟨s', rfl, hne, hok⟩ := h.time_ok v hd
      right
      refine ⟨s', ?_, hok⟩
      cases s' with
      | nil => exact absurd rfl hne
      | cons a b => rfl
  obtain ⟨c, cs, hcmd⟩ : ∃ c cs, m.command = c :: cs := by
    cases hc : m.command with
    | nil => exact absurd hc h.cmd_ne
    | cons c cs => exact ⟨c, cs, rfl⟩
  have hcc : c ≠ ':' := by
    have := h.cmd_colon
    rw [hcmd] at this
    simpa using this
  unfold pfxWords canon
  split
  · rename_i hp
    simp only [List.nil_append, hcmd, finish, hcc, ↓reduceIte]
    rcases htime with ht | ⟨v, ht, hv⟩
    · simp only [ht]; rw [← hcmd, ← hp]
    · simp only [ht, hv, ↓reduceIte]; rw [← hcmd, ← hp]
  · simp only [List.cons_append, List.nil_append, finish, ↓reduceIte]
    rcases htime with ht | ⟨v, ht, hv⟩
    · simp only [ht]
    · simp only [ht, hv, ↓reduceIte]

theorem endsWith_append (c : Char) (a b : Str) (hb : b ≠ []) :
    endsWithChar c (a ++ b) = endsWithChar c b := by
  unfold endsWithChar
  rw [List.getLast?_append]
  cases h : b.getLast? with
  | none => exact absurd (List.getLast?_eq_none_iff.mp h) hb
  | some x => simp

theorem tailPart_ends (m : Msg) : tailPart m ≠ [] ∧ endsWithChar '\n' (tailPart m) = true := by
  unfold tailPart
  cases m.args.getLast? with
  | none => exact ⟨by simp, by decide⟩
  | some l =>
    refine ⟨by simp, ?_⟩
    have : (' ' :: ':' :: (l ++ ['\r', '\n'])) = (' ' :: ':' :: l) ++ ['\r', '\n'] := by simp
    show endsWithChar '\n' (' ' :: ':' :: (l ++ ['\r', '\n'])) = true
    rw [this, endsWith_append _ _ _ (by simp)]
    decide

theorem format_endsLF (m : Msg) : endsWithChar '\n' (format m) = true := by
  have hb : endsWithChar '\n' (formatBody m) = true := by
    rw [formatBody_eq, endsWith_append _ _ _ (tailPart_ends m).1]
    exact (tailPart_ends m).2
  unfold format
  split
  · exact hb
  · have hne : formatBody m ≠ [] := by
      intro e; rw [e] at hb; simp [endsWithChar] at hb
    have : formatTags m.tags ++ ' ' :: formatBody m = (formatTags m.tags ++ [' ']) ++ formatBody m := by simp
    rw [this, endsWith_append _ _ _ hne]
    exact hb

theorem formatBody_head (timeOk : Str → Bool) (m : Msg) (h : WF timeOk m) (ht : m.tags = []) :
    (formatBody m).head? ≠ some '@' := by
  rw [formatBody_eq]
  unfold words pfxWords
  obtain ⟨c, cs, hcmd⟩ : ∃ c cs, m.command = c :: cs := by
    cases hc : m.command with
    | nil => exact absurd hc h.cmd_ne
    | cons c cs => exact ⟨c, cs, rfl⟩
  split
  · rename_i hp
    have := h.cmd_at ht hp
    rw [hcmd] at this ⊢
    cases hd : m.args.dropLast with
    | nil => simpa [joinChar] using this
    | cons d ds => simpa [joinChar] using this
  · cases hd : m.args.dropLast with
    | nil => simp [joinChar]
    | cons d ds => simp [joinChar]

theorem parse_format_of_tables (timeOk : Str → Bool) (m : Msg)
    (hE : TableOk Gen.serverTagEscape) (hS : TableSep Gen.serverTagEscape) (h : WF timeOk m) :
    parse timeOk (format m) = .ok (canon m) (format m) := by
  have hne : format m ≠ [] := by
    intro e
    have := format_endsLF m
    rw [e] at this
    simp [endsWithChar] at this
  have hlf : addLF (format m) = format m := by
    unfold addLF; simp [format_endsLF m]
  unfold parse
  simp only [hne, ↓reduceIte, hlf]
  by_cases ht : m.tags = []
  · have hfmt : format m = formatBody m := by unfold format; simp [ht]
    have hst : splitTags (formatBody m) = some ([], formatBody m) := by
      unfold splitTags
      simp [formatBody_head timeOk m h ht]
    rw [hfmt, hst]
    simp only
    rw [rawArgs_formatBody timeOk m h]
    have := finish_words timeOk m h (formatBody m)
    simpa [ht, canonTags] using this
  · have hfmt : format m = '@' :: (joinChar ';' (m.tags.map formatTag) ++ ' ' :: formatBody m) := by
      unfold format formatTags; simp [ht]
    have hst : splitTags (format m) = some (canonTags m.tags, formatBody m) := by
      rw [hfmt]
      unfold splitTags
      have hsp : ' ' ∉ '@' :: joinChar ';' (m.tags.map formatTag) := by
        simp only [List.mem_cons, not_or]
        exact ⟨by decide, joinTags_nospace hS m.tags h.keys_ok⟩
      have := split1_append ' ' ('@' :: joinChar ';' (m.tags.map formatTag)) (formatBody m) hsp
      simp only [List.cons_append] at this
      simp only [List.head?_cons, ↓reduceIte, this, List.drop_succ_cons, List.drop_zero]
      rw [parseTags_formatTags hE hS m.tags ht h.keys_ok h.keys_nodup]
    rw [hst]
    simp only
    rw [rawArgs_formatBody timeOk m h]
    exact finish_words timeOk m h (format m)

end C05
