import LimnoriaModel.C05.Model
import LimnoriaModel.C05.Full
import LimnoriaModel.C05.WFDec
import LimnoriaModel.Driver.Core
namespace C05
open Py Wire

def encTags (t : Tags) : String :=
  if t.isEmpty then "-" else ",".intercalate (t.map fun (k, v) => enc k ++ ":" ++ encOpt v)

def decTags (f : String) : Option Tags :=
  if f = "-" then some [] else
  (f.splitOn ",").mapM fun item =>
    match item.splitOn ":" with
    | [k, v] => do
      let k' ← dec k
      let v' ← decOpt v
      pure (k', v')
    | _ => none

def drive : List String → String
  | ["parse", l] =>
    match dec l with
    | none => "bad-op"
    | some s =>
      match parseFull (fun _ => true) s with
      | .malformed => "malformed"
      | .crash e => "crash\t" ++ e
      | .ok m str n u h =>
        "ok\t" ++ enc m.pfx ++ "\t" ++ enc m.command ++ "\t" ++ encList m.args ++ "\t" ++
          encTags m.tags ++ "\t" ++ enc str ++ "\t" ++ enc n ++ "\t" ++ enc u ++ "\t" ++ enc h ++
          "\t" ++ encOpt (parseNeedsTime s)
  | ["parsemsg", l] =>
    match dec l with
    | none => "bad-op"
    | some s =>
      match driverParseMsg (fun _ => true) s with
      | .none => "none"
      | .crash e => "crash\t" ++ e
      | .msg m str n u h =>
        "ok\t" ++ enc m.pfx ++ "\t" ++ enc m.command ++ "\t" ++ encList m.args ++ "\t" ++
          encTags m.tags ++ "\t" ++ enc str ++ "\t" ++ enc n ++ "\t" ++ enc u ++ "\t" ++ enc h ++
          "\t" ++ encOpt (parseNeedsTime (strip s))
  | ["format", p, c, a, t] =>
    match dec p, dec c, decList a, decTags t with
    | some p, some c, some a, some t => enc (format ⟨p, c, a, t⟩)
    | _, _, _, _ => "bad-op"
  | ["copy", p, c, a, t, p2, c2, a2] =>
    match dec p, dec c, decList a, decTags t, dec p2, dec c2, decList a2 with
    | some p, some c, some a, some t, some p2, some c2, some a2 =>
      let m := copyCtor ⟨p, c, a, t⟩ p2 c2 a2
      enc m.pfx ++ "\t" ++ enc m.command ++ "\t" ++ encList m.args ++ "\t" ++ encTags m.tags ++ "\t" ++ enc (format m)
    | _, _, _, _, _, _, _ => "bad-op"
  | ["wf", p, c, a, t] =>
    match dec p, dec c, decList a, decTags t with
    | some p, some c, some a, some t =>
      let m : Msg := ⟨p, c, a, t⟩
      (if decide (WFD (fun _ => true) m) then "1" else "0") ++ "\t" ++
        encOpt (match dictGet t timeKey with | some (some v) => some v | _ => none)
    | _, _, _, _ => "bad-op"
  | ["hostmask", p] =>
    (match dec p with
     | some p => (if isUserHostmask p then "1" else "0") ++ "\t" ++
        (match hostFields p with
         | some (n, u, h) => enc n ++ "\t" ++ enc u ++ "\t" ++ enc h
         | none => "crash")
     | none => "bad-op")
  | ["esc", v] => (match dec v with | some v => enc (escapeTag v) | none => "bad-op")
  | ["unesc", v] => (match dec v with | some v => enc (unescapeTag v) | none => "bad-op")
  | _ => "bad-op"

def handler : Driver.Handler := Driver.pureHandler drive
end C05
