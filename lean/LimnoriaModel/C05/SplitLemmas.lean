/- String-splitting lemmas used by the C05 round-trip proof. -/
import LimnoriaModel.C05.Model
namespace C05
open Py

theorem split1_append (c : Char) (a b : Str) (h : c ∉ a) : split1 c (a ++ c :: b) = some (a, b) := by
  induction a with
  | nil => simp [split1]
  | cons x xs ih =>
    have hx : x ≠ c := fun e => h (by simp [e])
    have hxs : c ∉ xs := fun e => h (by simp [e])
    simp [split1, hx, ih hxs]

theorem split1_none (c : Char) (a : Str) (h : c ∉ a) : split1 c a = none := by
  induction a with
  | nil => simp [split1]
  | cons x xs ih =>
    have hx : x ≠ c := fun e => h (by simp [e])
    have hxs : c ∉ xs := fun e => h (by simp [e])
    simp [split1, hx, ih hxs]

theorem splitChar_nomem (c : Char) (a : Str) (h : c ∉ a) : splitChar c a = [a] := by
  induction a with
  | nil => simp [splitChar]
  | cons x xs ih =>
    have hx : x ≠ c := fun e => h (by simp [e])
    have hxs : c ∉ xs := fun e => h (by simp [e])
    simp [splitChar, hx, ih hxs]

theorem splitChar_append (c : Char) (a b : Str) (h : c ∉ a) :
    splitChar c (a ++ c :: b) = a :: splitChar c b := by
  induction a with
  | nil => simp [splitChar]
  | cons x xs ih =>
    have hx : x ≠ c := fun e => h (by simp [e])
    have hxs : c ∉ xs := fun e => h (by simp [e])
    simp [splitChar, hx, ih hxs]

theorem splitChar_join (c : Char) (ps : List Str) (hne : ps ≠ []) (h : ∀ p ∈ ps, c ∉ p) :
    splitChar c (joinChar c ps) = ps := by
  induction ps with
  | nil => exact absurd rfl hne
  | cons p rest ih =>
    cases rest with
    | nil => simp [joinChar, splitChar_nomem c p (h p (by simp))]
    | cons q rest' =>
      have hp : c ∉ p := h p (by simp)
      have := ih (by simp) (fun x hx => h x (by simp [hx]))
      simp only [joinChar]
      rw [splitChar_append c p _ hp, this]

/-- `' :' in s` as a Boolean scan -/
def hasSC : Str → Bool
  | [] => false
  | [_] => false
  | x :: y :: r => (x = ' ' && y = ':') || hasSC (y :: r)

theorem split2_of_noSC (pre post : Str) (h : hasSC pre = false) :
    split2 ' ' ':' (pre ++ ' ' :: ':' :: post) = some (pre, post) := by
  induction pre with
  | nil => simp [split2]
  | cons x xs ih =>
    cases xs with
    | nil =>
      by_cases hx : x = ' '
      · subst hx
        simp [split2]
      · simp [split2, hx]
    | cons y ys =>
      simp only [hasSC, Bool.or_eq_false_iff, Bool.and_eq_false_iff] at h
      have ih' := ih h.2
      have hxy : ¬ (x = ' ' ∧ y = ':') := by
        intro ⟨a, b⟩; rcases h.1 with h1 | h1 <;> simp_all
      simp only [List.cons_append] at ih' ⊢
      simp only [split2, hxy, ↓reduceIte, ih']

theorem split2_none_of_noSC (s : Str) (h : hasSC s = false) : split2 ' ' ':' s = none := by
  induction s with
  | nil => simp [split2]
  | cons x xs ih =>
    cases xs with
    | nil => simp [split2]
    | cons y ys =>
      simp only [hasSC, Bool.or_eq_false_iff, Bool.and_eq_false_iff] at h
      have hxy : ¬ (x = ' ' ∧ y = ':') := by
        intro ⟨a, b⟩; rcases h.1 with h1 | h1 <;> simp_all
      simp only [split2, hxy, ↓reduceIte, ih h.2]

theorem hasSC_append (a b : Str) :
    hasSC (a ++ b) = (hasSC a || hasSC b || (a.getLast? == some ' ' && b.head? == some ':')) := by
  induction a with
  | nil => simp [hasSC]
  | cons x xs ih =>
    cases xs with
    | nil =>
      cases b with
      | nil => simp [hasSC]
      | cons y ys =>
        simp only [List.cons_append, List.nil_append, hasSC, List.getLast?_singleton, List.head?_cons]
        by_cases hx : x = ' ' <;> by_cases hy : y = ':' <;> simp [hx, hy]
    | cons y ys =>
      simp only [List.cons_append] at ih ⊢
      simp only [hasSC, ih, List.getLast?_cons_cons]
      cases (x = ' ' && y = ':' : Bool) <;> simp [Bool.or_assoc]

theorem hasSC_nospace (w : Str) (h : ' ' ∉ w) : hasSC w = false := by
  induction w with
  | nil => rfl
  | cons x xs ih =>
    cases xs with
    | nil => rfl
    | cons y ys =>
      have hx : x ≠ ' ' := fun e => h (by simp [e])
      simp only [hasSC, hx, decide_false, Bool.false_and, Bool.false_or]
      exact ih (fun e => h (by simp [e]))

/-- words without blanks, all but the first not starting with a colon, joined by single blanks:
no `" :"` inside -/
theorem hasSC_joinWords (ws : List Str) (h1 : ∀ w ∈ ws, ' ' ∉ w)
    (h2 : ∀ w ∈ ws.tail, w.head? ≠ some ':') : hasSC (joinChar ' ' ws) = false := by
  induction ws with
  | nil => rfl
  | cons w rest ih =>
    cases rest with
    | nil => exact hasSC_nospace w (h1 w (by simp))
    | cons v rest' =>
      simp only [joinChar]
      have hw := hasSC_nospace w (h1 w (by simp))
      have hrest := ih (fun x hx => h1 x (by simp [hx]))
        (fun x hx => h2 x (by simp only [List.tail_cons] at hx ⊢; exact List.mem_cons_of_mem _ hx))
      have hv : v.head? ≠ some ':' := h2 v (by simp)
      have : (' ' :: joinChar ' ' (v :: rest')) = [' '] ++ joinChar ' ' (v :: rest') := rfl
      rw [this, hasSC_append, hasSC_append]
      have hj : (joinChar ' ' (v :: rest')).head? ≠ some ':' := by
        cases rest' with
        | nil => simpa [joinChar] using hv
        | cons u r =>
          simp only [joinChar]
          cases v with
          | nil => simp
          | cons v0 vs => simpa using hv
      simp [hw, hrest, hasSC, hj]

theorem splitArgs_joinWords (ws : List Str) (h : ∀ w ∈ ws, w ≠ [] ∧ ' ' ∉ w) :
    splitArgs (joinChar ' ' ws) = ws := by
  induction ws with
  | nil => simp [joinChar, splitArgs, splitChar]
  | cons w rest ih =>
    have hw := h w (by simp)
    cases rest with
    | nil =>
      simp only [joinChar, splitArgs, splitChar_nomem ' ' w hw.2]
      simp [hw.1]
    | cons v rest' =>
      have := ih (fun x hx => h x (by simp [hx]))
      simp only [joinChar, splitArgs] at this ⊢
      rw [splitChar_append ' ' w _ hw.2]
      simp [hw.1, this]

theorem rstripP_append_keep (p : Char → Bool) (x y : Str) (l : Char) (hl : y.getLast? = some l)
    (hp : p l = false) : rstripP p (x ++ y) = x ++ y := by
  unfold rstripP
  obtain ⟨ys, rfl⟩ : ∃ ys, y = ys ++ [l] := by
    rcases List.eq_nil_or_concat y with h | ⟨ys, b, h⟩
    · subst h; simp at hl
    · subst h; simp at hl; subst hl; exact ⟨ys, by simp⟩
  simp [List.reverse_append, hp]

theorem rstripCRLF_crlf (a : Str) : rstripCRLF (a ++ ['\r', '\n']) = rstripCRLF a := by
  simp [rstripCRLF, rstripP, List.reverse_append, List.dropWhile, isCRLF]

end C05
