/-
C05 — property theorems.  (Helper lemmas live in `Lemmas.lean`.)
-/
import LimnoriaModel.C05.Lemmas
namespace C05
open Py

/-- Facts about the *extracted* escape table on which `unescape_escape` rests.  Re-checked by
`decide` against whatever `/repo/src/ircmsgs.py` says now. -/
theorem tagEscape_table_ok : TableOk Gen.serverTagEscape := by decide

/-- Tag values survive escaping and unescaping unchanged — for every string. -/
theorem unescape_escape (v : Str) : unescapeTag (escapeTag v) = v :=
  unescape_escape_of_tableOk Gen.serverTagEscape tagEscape_table_ok v

theorem finish_total (timeOk : Str → Bool) (tags : Tags) (s : Str) (args : List Str) :
    (∃ m, finish timeOk tags s args = .ok m s) ∨ finish timeOk tags s args = .malformed := by
  unfold finish
  split
  · right; rfl
  · right; rfl
  · simp only
    split
    · right; rfl
    · split
      · left; exact ⟨_, rfl⟩
      · right; rfl
      · split
        · left; exact ⟨_, rfl⟩
        · right; rfl

/-- Parsing any line either yields a message or reports it as malformed, never another failure;
and the cached string of a parsed message is the line itself (plus the LF the constructor adds
when it is absent): re-serialising a parsed line gives back that line. -/
theorem parse_total (timeOk : Str → Bool) (l : Str) :
    (∃ m, parse timeOk l = .ok m (addLF l)) ∨ parse timeOk l = .malformed := by
  unfold parse
  split
  · right; rfl
  · split
    · right; rfl
    · exact finish_total _ _ _ _

theorem format_cached (timeOk : Str → Bool) (l : Str) (m : Msg) (str : Str)
    (h : parse timeOk l = .ok m str) : str = addLF l := by
  rcases parse_total timeOk l with ⟨m', h'⟩ | h'
  · rw [h'] at h; injection h with _ h2; exact h2.symm
  · rw [h'] at h; cases h

end C05
