/-
C05 — property theorems.  (Helper lemmas live in `Lemmas.lean`.)
-/
import LimnoriaModel.C05.Lemmas
import LimnoriaModel.C05.RoundTrip
import LimnoriaModel.C05.HostmaskLemmas
import LimnoriaModel.C05.Full
import LimnoriaModel.C05.WFDec
namespace C05
open Py

/-- Facts about the *extracted* escape table on which `unescape_escape` rests.  Re-checked by
`decide` against whatever `/repo/src/ircmsgs.py` says now. -/
theorem tagEscape_table_ok : TableOk Gen.serverTagEscape := by decide

/-- Tag values survive escaping and unescaping unchanged — for every string. -/
theorem unescape_escape (v : Str) : unescapeTag (escapeTag v) = v :=
  unescape_escape_of_tableOk Gen.serverTagEscape tagEscape_table_ok v

theorem finish_total (timeOk : Str → Bool) (tags : Tags) (s : Str) (args : List Str) :
    (∃ m, finish timeOk tags s args = .ok m s) ∨ finish timeOk tags s args = .malformed := by
  unfold finish
  split
  · right; rfl
  · right; rfl
  · simp only
    split
    · right; rfl
    · split
      · left; exact ⟨_, rfl⟩
      · right; rfl
      · split
        · left; exact ⟨_, rfl⟩
        · right; rfl

/-- Parsing any line either yields a message or reports it as malformed, never another failure;
and the cached string of a parsed message is the line itself (plus the LF the constructor adds
when it is absent): re-serialising a parsed line gives back that line. -/
theorem parse_total (timeOk : Str → Bool) (l : Str) :
    (∃ m, parse timeOk l = .ok m (addLF l)) ∨ parse timeOk l = .malformed := by
  unfold parse
  split
  · right; rfl
  · split
    · right; rfl
    · exact finish_total _ _ _ _

theorem format_cached (timeOk : Str → Bool) (l : Str) (m : Msg) (str : Str)
    (h : parse timeOk l = .ok m str) : str = addLF l := by
  rcases parse_total timeOk l with ⟨m', h'⟩ | h'
  · rw [h'] at h; injection h with _ h2; exact h2.symm
  · rw [h'] at h; cases h

/-- Filling `.nick/.user/.host` never fails: every prefix the `^\\S+!\\S+@\\S+$` regexp accepts can be
split by `splitHostmask` (true since the `fix:` that splits off the host first; before it
`a!b@c!d` was a counter-example). -/
theorem hostFields_total (p : Str) : (hostFields p).isSome = true := hostFields_isSome p

/-- `.nick/.user/.host` of a user prefix re-join to the prefix (`nick!user@host`), the host has no `@`
and the user no `!`; any other prefix is copied to all three. -/
theorem hostFields_join (p n u h : Str) (hf : hostFields p = some (n, u, h)) :
    (isUserHostmask p = true ∧ p = n ++ '!' :: u ++ '@' :: h ∧ '@' ∉ h ∧ '!' ∉ u) ∨
    (isUserHostmask p = false ∧ n = p ∧ u = p ∧ h = p) := by
  unfold hostFields at hf
  split at hf
  · rename_i hu
    left; exact ⟨hu, splitHostmask_join hf⟩
  · rename_i hu
    right
    simp only [Option.some.injEq, Prod.mk.injEq] at hf
    exact ⟨by simpa using hu, hf.1.symm, hf.2.1.symm, hf.2.2.symm⟩

/-- Totality of the whole constructor, including the part after the `try` block. -/
theorem parseFull_total (timeOk : Str → Bool) (l : Str) :
    (∃ m n u h, parseFull timeOk l = .ok m (addLF l) n u h) ∨ parseFull timeOk l = .malformed := by
  unfold parseFull
  rcases parse_total timeOk l with ⟨m, hm⟩ | hm
  · rw [hm]
    have := hostFields_total m.pfx
    cases hf : hostFields m.pfx with
    | none => rw [hf] at this; simp at this
    | some t =>
      obtain ⟨n, u, h⟩ := t
      left; exact ⟨m, n, u, h, by simp [hf]⟩
  · rw [hm]; right; rfl

/-- `drivers.parseMsg` never raises: a line is delivered as a message or skipped. -/
theorem driverParseMsg_total (timeOk : Str → Bool) (l : Str) :
    (∃ m str n u h, driverParseMsg timeOk l = .msg m str n u h) ∨ driverParseMsg timeOk l = .none := by
  unfold driverParseMsg
  simp only
  split
  · right; rfl
  · rcases parseFull_total timeOk (strip l) with ⟨m, n, u, h, hp⟩ | hp
    · rw [hp]; left; exact ⟨m, _, n, u, h, rfl⟩
    · rw [hp]; right; rfl

/-- …and what it delivers is exactly the parse of the stripped line, whatever its length (no
truncation): the cached string is the stripped line plus LF. -/
theorem driverParseMsg_str (timeOk : Str → Bool) (l : Str) (m : Msg) (str n u h : Str)
    (hd : driverParseMsg timeOk l = .msg m str n u h) : str = addLF (strip l) := by
  unfold driverParseMsg at hd
  simp only at hd
  split at hd
  · cases hd
  · rcases parseFull_total timeOk (strip l) with ⟨m', n', u', h', hp⟩ | hp
    · rw [hp] at hd; injection hd with _ h2; exact h2.symm
    · rw [hp] at hd; cases hd

/-- The second family of facts about the extracted escape table: escaped values never contain the
tag separators. -/
theorem tagEscape_table_sep : TableSep Gen.serverTagEscape := by decide

/-- **Round trip.**  Serialising any message built from a prefix, command, arguments and tags that
satisfies the explicit well-formedness predicate `WF` and parsing the resulting line yields a
message with the same prefix, command, arguments and tags (an empty tag value being the same as
no value, the IRCv3 rule the code cites), and the cached string is the serialised line. -/
theorem parse_format (timeOk : Str → Bool) (m : Msg) (h : WF timeOk m) :
    parse timeOk (format m) = .ok (canon m) (format m) :=
  parse_format_of_tables timeOk m tagEscape_table_ok tagEscape_table_sep h

/-- Copy-constructing without overrides is the identity on the four fields, and an overriding copy
has exactly the overriding fields (tags always those of the original). -/
theorem copy_identity (m : Msg) : copyCtor m [] [] [] = m := by
  simp [copyCtor]

theorem copy_fields (m : Msg) (p c : Str) (a : List Str) (hp : p ≠ []) (hc : c ≠ []) (ha : a ≠ []) :
    copyCtor m p c a = ⟨p, c, a, m.tags⟩ := by
  simp [copyCtor, hp, hc, ha]

/-- Pickling round trip (`copy.copy`, `pickle`): a well-formed message unpickles to itself. -/
theorem pickle_roundtrip (timeOk : Str → Bool) (m : Msg) (h : WF timeOk m) :
    unpickle timeOk m = .ok (canon m) (format m) := parse_format timeOk m h

/-- non-vacuity: a concrete message with prefix, middle and trailing arguments, an escaped tag value
and an empty one meets `WF`; and the theorem's conclusion evaluates as stated on it. -/
example : WF (fun _ => true)
    ⟨"nick!u@h".toList, "PRIVMSG".toList, ["#chan".toList, ":hello  world: ".toList],
     [("a".toList, some "x; y\\".toList), ("b".toList, some []), ("c".toList, none)]⟩ := by
  refine ⟨by decide, by decide, by decide, by decide, by decide, by decide, by decide, ?_, ?_, by decide, ?_, ?_⟩
  · intro a ha
    simp at ha
    subst ha
    decide
  · intro a ha
    simp at ha
    subst ha
    decide
  · intro kv hkv
    simp at hkv
    rcases hkv with rfl | rfl | rfl <;> decide
  · intro v hv
    simp [dictGet, timeKey] at hv

end C05
