/- `IrcMsg(s)` including the nick/user/host split performed after the try-block. -/
import LimnoriaModel.C05.Model
import LimnoriaModel.C05.Hostmask
namespace C05
open Py

inductive FullResult where
  | ok (m : Msg) (str : Str) (nick user host : Str)
  | malformed
  | crash (exc : String)
deriving DecidableEq, Repr

def parseFull (timeOk : Str → Bool) (s : Str) : FullResult :=
  match parse timeOk s with
  | .malformed => .malformed
  | .crash e => .crash e
  | .ok m str =>
    match hostFields m.pfx with
    | some (n, u, h) => .ok m str n u h
    | none => .crash "ValueError"      -- splitHostmask's tuple unpacking, outside the try-block

/-- `drivers.parseMsg(s)`: `s.strip()`, empty → `None`, `MalformedIrcMsg` → logged and `None`
(since the `fix:`), otherwise the message.  The outer `Option` is "an exception escapes". -/
inductive DriverParse where
  | msg (m : Msg) (str : Str) (nick user host : Str)
  | none                     -- nothing delivered (blank or malformed line)
  | crash (exc : String)
deriving DecidableEq, Repr

def driverParseMsg (timeOk : Str → Bool) (s : Str) : DriverParse :=
  let s' := strip s
  if s' = [] then .none else
  match parseFull timeOk s' with
  | .ok m str n u h => .msg m str n u h
  | .malformed => .none
  | .crash e => .crash e

/-- `IrcMsg(msg=m, prefix=…, command=…, args=…)` — the copy constructor: every field given (truthy)
overrides, the others and the server tags are taken from `m`; no argument validation happens on
this path and no cached string is carried over. -/
def copyCtor (m : Msg) (pfx cmd : Str) (args : List Str) : Msg :=
  { pfx := if pfx = [] then m.pfx else pfx,
    command := if cmd = [] then m.command else cmd,
    args := if args = [] then m.args else args,
    tags := m.tags }

/-- pickling: `__reduce__` is `(IrcMsg, (str(self),))`, so unpickling re-parses the serialisation -/
def unpickle (timeOk : Str → Bool) (m : Msg) : ParseResult := parse timeOk (format m)

end C05
