/- `IrcMsg(s)` including the nick/user/host split performed after the try-block. -/
import LimnoriaModel.C05.Model
import LimnoriaModel.C05.Hostmask
namespace C05
open Py

inductive FullResult where
  | ok (m : Msg) (str : Str) (nick user host : Str)
  | malformed
  | crash (exc : String)
deriving DecidableEq, Repr

def parseFull (timeOk : Str → Bool) (s : Str) : FullResult :=
  match parse timeOk s with
  | .malformed => .malformed
  | .crash e => .crash e
  | .ok m str =>
    match hostFields m.pfx with
    | some (n, u, h) => .ok m str n u h
    | none => .crash "ValueError"      -- splitHostmask's tuple unpacking, outside the try-block

end C05
