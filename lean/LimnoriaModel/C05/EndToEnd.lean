/-
C05 ∘ C11 — end to end: **what one bot's driver writes for a message, another bot's driver
delivers as that message**.

The pieces are theorems of the two properties: `C05.parse_format` (serialise → parse gives the
fields back), `C11.write_exact_drained` (the socket receives exactly the UTF-8 of the queued lines),
`C11.read_delivers_lines` (the reader's deliveries are a function of the byte stream, whatever the
fragmentation) and `C11.decode_encode`.  What is new here is the glue the real code has between
them, which none of the two properties states on its own:

* `str(msg)` ends in CR LF, the reader frames on LF, decodes, and `drivers.parseMsg` **strips** the
  line before handing it to `IrcMsg`, whose constructor then puts a bare LF back: the line that is
  parsed on the receiving side is *not* the line that was serialised.  `parse_lineLF` redoes the
  round trip for that line.
* the strip is not harmless: a trailing argument ending in a blank loses it
  (`trailing_blank_lost`, the code's behaviour, reproduced by the correspondence run of C05's
  `parsemsg` stream).  `Tight` is the explicit, decidable condition under which nothing is lost:
  no LF inside the line and no blank at either end of it.
-/
import LimnoriaModel.C05.Props
import LimnoriaModel.C11.Props
namespace EndToEnd
open Py C05

/-! ### the serialised line without its end-of-line -/

def tailNo (m : Msg) : Str :=
  match m.args.getLast? with
  | none => []
  | some l => ' ' :: ':' :: l

def bodyNo (m : Msg) : Str := joinChar ' ' (words m) ++ tailNo m

/-- `str(msg)[:-2]` -/
def lineNo (m : Msg) : Str :=
  if m.tags = [] then bodyNo m else formatTags m.tags ++ ' ' :: bodyNo m

theorem tailPart_eq (m : Msg) : tailPart m = tailNo m ++ ['\r', '\n'] := by
  unfold tailPart tailNo
  cases m.args.getLast? <;> simp

theorem formatBody_eq_no (m : Msg) : formatBody m = bodyNo m ++ ['\r', '\n'] := by
  rw [formatBody_eq, tailPart_eq]; simp [bodyNo]

theorem format_eq_no (m : Msg) : format m = lineNo m ++ ['\r', '\n'] := by
  unfold format lineNo
  split <;> simp [formatBody_eq_no]

/-! ### the round trip for the line the receiving side parses: `lineNo m ++ "\n"` -/

theorem rstripCRLF_lf (a : Str) : rstripCRLF (a ++ ['\n']) = rstripCRLF a := by
  simp [rstripCRLF, rstripP, List.reverse_append, isCRLF]

theorem rawArgs_bodyLF (timeOk : Str → Bool) (m : Msg) (h : WF timeOk m) :
    rawArgs (bodyNo m ++ ['\n']) = pfxWords m ++ m.command :: m.args := by
  have hw := words_ok timeOk m h
  have hsc : hasSC (joinChar ' ' (words m)) = false :=
    hasSC_joinWords _ (fun w hw' => (hw.1 w hw').2) hw.2
  unfold rawArgs bodyNo tailNo
  cases hl : m.args.getLast? with
  | none =>
    have hargs : m.args = [] := List.getLast?_eq_none_iff.mp hl
    have hsc2 : hasSC (joinChar ' ' (words m) ++ ['\n']) = false := by
      rw [hasSC_append]; simp [hsc, hasSC]
    simp only [List.append_nil]
    rw [split2_none_of_noSC _ hsc2]
    simp only
    rw [rstripCRLF_lf, join_words_last timeOk m h hargs, splitArgs_joinWords _ hw.1]
    simp [words, hargs]
  | some l =>
    have e : joinChar ' ' (words m) ++ ' ' :: ':' :: l ++ ['\n']
        = joinChar ' ' (words m) ++ ' ' :: ':' :: (l ++ ['\n']) := by simp
    simp only [e, split2_of_noSC _ _ hsc, rstripCRLF_lf, h.last l hl]
    rw [splitArgs_joinWords _ hw.1]
    have : m.args = m.args.dropLast ++ [l] := by
      obtain ⟨ys, hys⟩ := List.getLast?_eq_some_iff.mp hl
      rw [hys]; simp
    simp only [words, List.append_assoc, List.cons_append, List.nil_append]
    rw [← this]

theorem endsLF_snoc (x : Str) : endsWithChar '\n' (x ++ ['\n']) = true := by
  rw [endsWith_append _ _ _ (by simp)]; decide

theorem addLF_snoc (x : Str) : addLF (x ++ ['\n']) = x ++ ['\n'] := by
  unfold addLF; simp [endsLF_snoc]

theorem bodyNo_head (timeOk : Str → Bool) (m : Msg) (h : WF timeOk m) (ht : m.tags = []) :
    (bodyNo m ++ ['\n']).head? ≠ some '@' := by
  have := formatBody_head timeOk m h ht
  rw [formatBody_eq_no] at this
  cases hb : bodyNo m with
  | nil => simp
  | cons c cs => rw [hb] at this; simpa using this

/-- **Round trip for the received form of the line** (bare LF, as `IrcMsg.__init__` completes the
stripped line): same fields as were serialised. -/
theorem parse_lineLF (timeOk : Str → Bool) (m : Msg) (h : WF timeOk m) :
    parse timeOk (lineNo m ++ ['\n']) = .ok (canon m) (lineNo m ++ ['\n']) := by
  have hE := tagEscape_table_ok
  have hS := tagEscape_table_sep
  unfold parse
  simp only [List.append_eq_nil_iff, List.cons_ne_self, and_false, ↓reduceIte, addLF_snoc]
  by_cases ht : m.tags = []
  · have hfmt : lineNo m = bodyNo m := by unfold lineNo; simp [ht]
    have hst : splitTags (bodyNo m ++ ['\n']) = some ([], bodyNo m ++ ['\n']) := by
      unfold splitTags
      rw [if_neg (bodyNo_head timeOk m h ht)]
    rw [hfmt, hst]
    simp only
    rw [rawArgs_bodyLF timeOk m h]
    have := finish_words timeOk m h (bodyNo m ++ ['\n'])
    simpa [ht, canonTags] using this
  · have hfmt : lineNo m ++ ['\n']
        = '@' :: (joinChar ';' (m.tags.map formatTag) ++ ' ' :: (bodyNo m ++ ['\n'])) := by
      unfold lineNo formatTags; simp [ht]
    have hst : splitTags (lineNo m ++ ['\n']) = some (canonTags m.tags, bodyNo m ++ ['\n']) := by
      rw [hfmt]
      unfold splitTags
      have hsp : ' ' ∉ '@' :: joinChar ';' (m.tags.map formatTag) := by
        simp only [List.mem_cons, not_or]
        exact ⟨by decide, joinTags_nospace hS m.tags h.keys_ok⟩
      have := split1_append ' ' ('@' :: joinChar ';' (m.tags.map formatTag)) (bodyNo m ++ ['\n']) hsp
      simp only [List.cons_append] at this
      simp only [List.head?_cons, ↓reduceIte, this, List.drop_succ_cons, List.drop_zero]
      rw [parseTags_formatTags hE hS m.tags ht h.keys_ok h.keys_nodup]
    rw [hst]
    simp only
    rw [rawArgs_bodyLF timeOk m h]
    exact finish_words timeOk m h (lineNo m ++ ['\n'])

theorem parse_only_LF (timeOk : Str → Bool) : parse timeOk ['\n'] = .malformed := by
  simp [parse, addLF, endsWithChar, splitTags, rawArgs, split2, rstripCRLF, rstripP, isCRLF,
    splitArgs, splitChar, finish]

theorem lineNo_ne_nil (timeOk : Str → Bool) (m : Msg) (h : WF timeOk m) : lineNo m ≠ [] := by
  intro e
  have := parse_lineLF timeOk m h
  rw [e] at this
  simp only [List.nil_append] at this
  rw [parse_only_LF] at this
  exact absurd this (by simp)

/-- the constructor sees only the LF-completed line -/
theorem parse_addLF (timeOk : Str → Bool) (s : Str) (hs : s ≠ []) :
    parse timeOk s = parse timeOk (addLF s) := by
  have hne : addLF s ≠ [] := by unfold addLF; split <;> simp [hs]
  have hidem : addLF (addLF s) = addLF s := by
    unfold addLF
    split
    · rename_i h; simp
    · simp [endsLF_snoc]
  unfold parse
  simp only [hs, hne, ↓reduceIte, hidem]

/-! ### the receiving side -/

/-- Nothing of the line is touched by framing and by `drivers.parseMsg`'s `strip()`: no LF inside
it, no blank (Python `str.isspace`) at its beginning or end. -/
def Tight (m : Msg) : Prop := '\n' ∉ lineNo m ∧ strip (lineNo m ++ ['\r']) = lineNo m

instance (m : Msg) : Decidable (Tight m) := by unfold Tight; exact inferInstance

theorem addLF_of_noLF (s : Str) (h : '\n' ∉ s) : addLF s = s ++ ['\n'] := by
  unfold addLF endsWithChar
  cases hl : s.getLast? with
  | none => simp
  | some x =>
    have hx : x ≠ '\n' := fun e => h (e ▸ List.mem_of_getLast? hl)
    simp [hx]

/-- `drivers.parseMsg` on the decoded line (still carrying the CR) delivers the message -/
theorem parseMsg_wire (timeOk : Str → Bool) (m : Msg) (h : WF timeOk m) (ht : Tight m) :
    C11.parseMsg timeOk (lineNo m ++ ['\r']) = .msg (canon m) := by
  have hne := lineNo_ne_nil timeOk m h
  unfold C11.parseMsg
  simp only [ht.2, hne, ↓reduceIte]
  rw [parse_addLF timeOk _ hne, addLF_of_noLF _ ht.1, parse_lineLF timeOk m h]

theorem lineMsg_wire (env : C11.Env) (m : Msg) (h : WF env.timeOk m) (ht : Tight m) :
    C11.lineMsg env (C11.utf8 (lineNo m ++ ['\r'])) = some (canon m) := by
  unfold C11.lineMsg
  rw [C11.decode_utf8, parseMsg_wire env.timeOk m h ht]

/-! ### framing of the written bytes -/

theorem char_eq_of_toNat {c d : Char} (h : c.toNat = d.toNat) : c = d := by
  rw [← Char.ofNat_toNat c, ← Char.ofNat_toNat d, h]

theorem LF_toNat : C11.LF.toNat = 10 := rfl

theorem lf_not_mem_encChar (c : Char) (h : c ≠ '\n') : C11.LF ∉ C11.encChar c := by
  have hr := C11.char_range c
  have hc : c.toNat ≠ 10 := fun e => h (char_eq_of_toNat (by rw [e]; rfl))
  unfold C11.encChar
  simp only
  split
  · simp only [List.mem_singleton]
    intro e
    have := congrArg UInt8.toNat e
    rw [LF_toNat, C11.b8_toNat _ (by omega)] at this
    omega
  · split
    · simp only [List.mem_cons, List.not_mem_nil, or_false]
      rintro (e | e) <;>
      · have := congrArg UInt8.toNat e
        rw [LF_toNat, C11.b8_toNat _ (by omega)] at this
        omega
    · split
      · simp only [List.mem_cons, List.not_mem_nil, or_false]
        rintro (e | e | e) <;>
        · have := congrArg UInt8.toNat e
          rw [LF_toNat, C11.b8_toNat _ (by omega)] at this
          omega
      · simp only [List.mem_cons, List.not_mem_nil, or_false]
        rintro (e | e | e | e) <;>
        · have := congrArg UInt8.toNat e
          rw [LF_toNat, C11.b8_toNat _ (by omega)] at this
          omega

/-- the only character whose encoding contains the byte 10 is LF itself -/
theorem lf_not_mem_utf8 (s : Str) (h : '\n' ∉ s) : C11.LF ∉ C11.utf8 s := by
  induction s with
  | nil => simp [C11.utf8]
  | cons c cs ih =>
    simp only [List.mem_cons, not_or] at h
    have : C11.utf8 (c :: cs) = C11.encChar c ++ C11.utf8 cs := by simp [C11.utf8]
    rw [this, List.mem_append, not_or]
    exact ⟨lf_not_mem_encChar c (fun e => h.1 e.symm), ih h.2⟩

theorem splitLF_line (l rest : C11.Bytes) (h : C11.LF ∉ l) :
    C11.splitLF (l ++ C11.LF :: rest) = (l :: (C11.splitLF rest).1, (C11.splitLF rest).2) := by
  induction l with
  | nil => simp [C11.splitLF_cons_lf]
  | cons b bs ih =>
    simp only [List.mem_cons, not_or] at h
    have hb : b ≠ C11.LF := fun e => h.1 e.symm
    rw [List.cons_append, C11.splitLF_cons_ne hb, ih h.2]

/-- the bytes a drained writer has put on the socket for the messages `ms` (`C11.write_exact_drained`
with `queued = ms.map format`) -/
def wireOf (ms : List Msg) : C11.Bytes := ((ms.map format).map C11.utf8).flatten

theorem utf8_format (m : Msg) :
    C11.utf8 (format m) = C11.utf8 (lineNo m ++ ['\r']) ++ C11.LF :: [] := by
  rw [format_eq_no]
  have : lineNo m ++ ['\r', '\n'] = (lineNo m ++ ['\r']) ++ ['\n'] := by simp
  rw [this, C11.utf8_append]
  rfl

theorem splitLF_wire (ms : List Msg) (h : ∀ m ∈ ms, '\n' ∉ lineNo m) :
    C11.splitLF (wireOf ms) = (ms.map (fun m => C11.utf8 (lineNo m ++ ['\r'])), []) := by
  induction ms with
  | nil => rfl
  | cons m ms ih =>
    have hm : '\n' ∉ lineNo m ++ ['\r'] := by
      simp only [List.mem_append, List.mem_singleton, not_or]
      exact ⟨h m (by simp), by decide⟩
    have e : wireOf (m :: ms) = C11.utf8 (lineNo m ++ ['\r']) ++ C11.LF :: wireOf ms := by
      simp [wireOf, utf8_format]
    rw [e, splitLF_line _ _ (lf_not_mem_utf8 _ hm), ih (fun m' hm' => h m' (by simp [hm']))]
    rfl

theorem msgsOf_wire (env : C11.Env) (ms : List Msg) (h : ∀ m ∈ ms, WF env.timeOk m ∧ Tight m) :
    C11.msgsOf env (ms.map (fun m => C11.utf8 (lineNo m ++ ['\r']))) = ms.map canon := by
  induction ms with
  | nil => rfl
  | cons m ms ih =>
    have hm := h m (by simp)
    simp only [C11.msgsOf, List.map_cons, List.filterMap_cons, lineMsg_wire env m hm.1 hm.2]
    have := ih (fun m' hm' => h m' (by simp [hm']))
    simp only [C11.msgsOf] at this
    rw [this]

end EndToEnd
