/-
C05 (extension) — model of `ircutils.isUserHostmask` / `ircutils.splitHostmask` as used at the end
of `IrcMsg.__init__` to fill `.nick/.user/.host` (src/ircutils.py:62-96, src/ircmsgs.py:290-293).
`userHostmaskRe = ^\S+!\S+@\S+$` with `re.match`: `\S` is "not `str.isspace`", `$` also matches
just before a final LF.
-/
import LimnoriaModel.Py.Basic
namespace C05
open Py

/-- `s.rsplit(c, 1)` when `c` occurs: text before the LAST `c`, text after it -/
def rsplit1 (c : Char) (s : Str) : Option (Str × Str) :=
  (split1 c s.reverse).map fun p => (p.2.reverse, p.1.reverse)

/-- `B@C` with `B`, `C` non-empty, reading from just after the `!` -/
def afterBang : Str → Bool
  | [] => false
  | _ :: rest => rest.dropLast.contains '@'

/-- some `!` in the list is followed by `B@C` -/
def anyBang : Str → Bool
  | [] => false
  | x :: xs => (x == '!' && afterBang xs) || anyBang xs

/-- `A!B@C` with all three parts non-empty (characters already known to be non-blank) -/
def core : Str → Bool
  | [] => false
  | _ :: rest => anyBang rest

/-- `userHostmaskRe.match(s) is not None` -/
def isUserHostmask (s : Str) : Bool :=
  let body := if endsWithChar '\n' s then s.dropLast else s
  body.all (fun c => !isSpace c) && core body

/-- `splitHostmask` after the fix: `rest, host = s.rsplit('@', 1); nick, user = rest.rsplit('!', 1)`;
`none` = unpacking ValueError -/
def splitHostmask (s : Str) : Option (Str × Str × Str) :=
  match rsplit1 '@' s with
  | none => none
  | some (rest, host) =>
    match rsplit1 '!' rest with
    | none => none
    | some (nick, user) => some (nick, user, host)

/-- the `(nick, user, host)` triple `IrcMsg.__init__` stores; `none` = an exception escapes -/
def hostFields (pfx : Str) : Option (Str × Str × Str) :=
  if isUserHostmask pfx then splitHostmask pfx else some (pfx, pfx, pfx)

end C05
