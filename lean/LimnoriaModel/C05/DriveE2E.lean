/-
Driver op for the end-to-end theorems (`EndToEndProps.lean`): the written bytes for a list of
messages (`wireOf`), whether every message meets the theorems' hypotheses, and what the reading
driver model delivers when the bytes arrive in the given fragmentation.
-/
import LimnoriaModel.C05.EndToEnd
import LimnoriaModel.C05.Drive
namespace EndToEnd
open Py Wire C05

def decMsg (f : String) : Option Msg :=
  match f.splitOn "+" with
  | [p, c, a, t] => do
    let p' ← dec p
    let c' ← dec c
    let a' ← decList a
    let t' ← decTags t
    pure ⟨p', c', a', t'⟩
  | _ => none

def encMsg (m : Msg) : String :=
  enc m.pfx ++ "+" ++ enc m.command ++ "+" ++ encList m.args ++ "+" ++ encTags m.tags

/-- cut a byte string into `recv()` results of the given sizes (each at least one byte); what is
left after the last cut is one more chunk -/
def cutBytes : List Nat → C11.Bytes → List C11.Bytes
  | [], b => if b = [] then [] else [b]
  | n :: ns, b => if b = [] then [] else b.take (n + 1) :: cutBytes ns (b.drop (n + 1))

def readEnv : C11.Env := { timeOk := fun _ => true, react := C11.pingPong }

def readerOps (cs : List C11.Bytes) : List C11.Op := cs.flatMap (fun c => [.scriptRecv (.data c), .loop])

def driveE2E : List String → Option String
  | ["e2e", msgs, cuts] =>
    let ms? : Option (List Msg) := if msgs = "-" then some [] else (msgs.splitOn "|").mapM decMsg
    let cuts? : Option (List Nat) := if cuts = "-" then some [] else (cuts.splitOn ",").mapM String.toNat?
    match ms?, cuts? with
    | some ms, some cuts =>
      let wfd := ms.all (fun m => decide (WFD (fun _ => true) m))
      let tight := ms.all (fun m => decide (Tight m))
      let wire := wireOf ms
      let w := C11.runOps readEnv C11.init (readerOps (cutBytes cuts wire))
      some ((if wfd then "1" else "0") ++ "\t" ++ (if tight then "1" else "0") ++ "\t" ++ encBytes wire ++ "\t" ++
        (if w.fed.isEmpty then "-" else "|".intercalate (w.fed.map encMsg)) ++ "\t" ++ encBytes w.inbuffer ++
        "\t" ++ (match w.crashed with | some e => e | none => "-"))
    | _, _ => some "bad-op"
  | _ => none

/-- the driver runs the objects the theorems are about -/
theorem readerOps_eq : readerOps = C11.chunkOps := rfl
theorem readEnv_eq : readEnv = C11.stubEnv := rfl

def handler : Driver.Handler :=
  Driver.pureHandler (fun fs => match driveE2E fs with | some s => s | none => C05.drive fs)

end EndToEnd
