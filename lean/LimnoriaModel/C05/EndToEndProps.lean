/-
C05 ∘ C11 — the end-to-end theorems (helper lemmas: `EndToEnd.lean`).

`delivered_as_sent`: the byte stream a drained writer has produced for the messages `ms`
(`wireOf ms`; by `C11.write_exact_drained` that is what the socket has received when the strings of
`ms` were queued), cut into `recv()` results in *any* way, is delivered by the reading driver as
exactly `ms` (fields; an empty tag value reads back as no value — `canon`), in order, with nothing
left in the in-buffer.  `bot_to_bot` composes it with the writer's theorem: two instances of the
driver model, one history of partial sends / EAGAINs on the writing side, any fragmentation on the
reading side.

Hypotheses: `WF` (C05's well-formedness, with the reader's `strptime` accepting the time tag) and
`Tight` (no LF inside the line, no blank at its ends: what `_read`'s framing and
`drivers.parseMsg`'s `strip()` would otherwise change — `trailing_blank_lost` is the proved
counter-example without it); the reader's Irc raises nothing (`NoEscape`) and does not reconnect on
these messages (`NoReconnect`).
-/
import LimnoriaModel.C05.EndToEnd
namespace EndToEnd
open Py C05

/-- **Delivered as sent**, for every fragmentation of the stream. -/
theorem delivered_as_sent (env : C11.Env) (hne : C11.NoEscape env) (hnr : C11.NoReconnect env)
    (ms : List Msg) (hwf : ∀ m ∈ ms, WF env.timeOk m ∧ Tight m)
    (cs : List C11.Bytes) (hcs : ∀ c ∈ cs, c ≠ []) (h : cs.flatten = wireOf ms) :
    (C11.runOps env C11.init (C11.chunkOps cs)).fed = ms.map canon ∧
    (C11.runOps env C11.init (C11.chunkOps cs)).inbuffer = [] := by
  obtain ⟨f, b⟩ := C11.read_delivers_lines env hne hnr cs hcs
  rw [f, b, h, splitLF_wire ms (fun m hm => (hwf m hm).2.1)]
  exact ⟨msgsOf_wire env ms hwf, rfl⟩

/-- **Bot to bot**: whatever the writing driver's history of short writes, EAGAINs and loop passes,
once it is drained the reading driver — fed the written bytes in any fragmentation — has delivered
exactly the messages whose strings were queued on the writing side. -/
theorem bot_to_bot (envA envB : C11.Env) (hneA : C11.NoEscape envA) (hneB : C11.NoEscape envB)
    (hnrB : C11.NoReconnect envB) (opsA : List C11.Op) (ms : List Msg)
    (hq : (C11.runOps envA C11.init opsA).queued = ms.map format)
    (hdq : (C11.runOps envA C11.init opsA).queue = [])
    (hdb : (C11.runOps envA C11.init opsA).outbuffer = [])
    (hwf : ∀ m ∈ ms, WF envB.timeOk m ∧ Tight m)
    (cs : List C11.Bytes) (hcs : ∀ c ∈ cs, c ≠ [])
    (h : cs.flatten = (C11.runOps envA C11.init opsA).wire) :
    (C11.runOps envB C11.init (C11.chunkOps cs)).fed = ms.map canon := by
  have hw := C11.write_exact_drained envA hneA opsA hdq hdb
  rw [hq] at hw
  exact (delivered_as_sent envB hneB hnrB ms hwf cs hcs (h.trans hw)).1

/-- without `Tight`: `PRIVMSG #c :hi ` (trailing blank) arrives as `hi` — `drivers.parseMsg`
strips the line. -/
theorem trailing_blank_lost :
    C11.parseMsg (fun _ => true) "PRIVMSG #c :hi \r".toList
      = .msg ⟨[], "PRIVMSG".toList, ["#c".toList, "hi".toList], []⟩ := by decide

def ex1 : Msg :=
  ⟨"nick!u@h".toList, "PRIVMSG".toList, ["#chan".toList, ":héllo  wörld:".toList],
    [("msgid".toList, some "a b;c".toList), ("x".toList, none)]⟩
def ex2 : Msg := ⟨[], "PING".toList, [":é".toList], []⟩
def exMsgs : List Msg := [ex1, ex2]

set_option maxRecDepth 100000 in
theorem ex1_ok : WFD (fun _ => true) ex1 ∧ Tight ex1 := by decide +kernel
set_option maxRecDepth 100000 in
theorem ex2_ok : WFD (fun _ => true) ex2 ∧ Tight ex2 := by decide +kernel

/-- non-vacuity: concrete messages (prefix, tags with an escaped value, multi-byte text, a trailing
argument beginning with a colon) meet the hypotheses, and the wire of a drained writer, cut at
arbitrary places (inside `é`, inside a tag), is delivered as those messages. -/
example : ∀ m ∈ exMsgs, WF (fun _ => true) m ∧ Tight m := by
  intro m hm
  simp only [exMsgs, List.mem_cons, List.not_mem_nil, or_false] at hm
  rcases hm with rfl | rfl
  · exact ⟨wf_of_wfd _ _ ex1_ok.1, ex1_ok.2⟩
  · exact ⟨wf_of_wfd _ _ ex2_ok.1, ex2_ok.2⟩

set_option maxRecDepth 100000 in
example :
    (C11.runOps C11.stubEnv C11.init
      (C11.chunkOps [(wireOf exMsgs).take 40, ((wireOf exMsgs).drop 40).take 29, (wireOf exMsgs).drop 69])).fed
      = exMsgs.map canon := by decide +kernel

end EndToEnd
