/-
C17 — property theorems: a crash while saving never leaves a half-written file.
(Helper lemmas live in `Lemmas.lean`.)

Reading guide.  `flushOps c ws fs` is the sequence of file-system calls of one
`AtomicFile(filename) … write(chunk)* … close()` issued in state `fs`; `crashAt fs ops k` is what is
on disk when the process dies after the first `k` of them (buffers are lost); `Good old new d`
says that the target content `d` is the old version, the new version, or — only when there was no
old file — the empty file that `open(filename,'a')` creates.
-/
import LimnoriaModel.C17.Lemmas
namespace C17
open Py

/-- the contract of the name ingredients: `mktemp()` gives lower-case hex and is fresh, the
decimal time stamp has no `/`; and a `sendfile` block is not empty -/
structure CfgOk (c : Cfg) : Prop where
  token : TokenOk c.token
  token2 : TokenOk c.token2
  fresh : c.token ≠ c.token2
  now : '/' ∉ c.now
  block : 0 < c.copyBlock

instance (c : Cfg) : Decidable (CfgOk c) :=
  decidable_of_iff (TokenOk c.token ∧ TokenOk c.token2 ∧ c.token ≠ c.token2 ∧ '/' ∉ c.now ∧ 0 < c.copyBlock)
    ⟨fun ⟨a, b, c, d, e⟩ => ⟨a, b, c, d, e⟩, fun ⟨a, b, c, d, e⟩ => ⟨a, b, c, d, e⟩⟩

theorem CfgOk.distinct {c : Cfg} (h : CfgOk c) : Distinct c :=
  names_distinct c h.token h.token2 h.fresh h.now

/-! ### the shape of the source the model mirrors (re-checked against /repo on every run) -/

/-- `AtomicFile.__init__/close/rollback/write/__del__/__exit__` perform exactly the file-system
calls, under exactly the tests, that the model's `initOps/closeOps/rollbackOps` mirror. -/
theorem close_calls_ok : SourceOk := by decide

/-- every call site in ircdb / registry / dbi passes only the file name (plus
`makeBackupIfSmaller=False` for `FlatfileMapping.vacuum`) and only writes to and closes the object:
a caller is a chunk list. -/
theorem callers_ok : Gen.AtomicFile.callers.all callerOk = true ∧ Gen.AtomicFile.callers ≠ [] := by decide

/-- **direct_writers_known.**  Nothing in src/ or plugins/__init__.py opens a file for writing
behind AtomicFile's back except the known record-level / journal writers; in particular the flush
routines of ircdb.py and registry.py contain no direct `open(..., 'w'|'a'|'r+')`. -/
theorem direct_writers_known :
    Gen.Writers.directWriters.map (fun r => (r.1, r.2.1, r.2.2.2)) = knownDirectWriters := by decide

/-- **atomic_sites_cover.**  The AtomicFile call sites of the anchored files found by the general
inventory are exactly the callers `callers_ok` speaks about (same files, same functions). -/
theorem atomic_sites_cover :
    let found := Gen.Writers.atomicSites.filter fun s => anchoredFiles.contains s.1
    let claimed := Gen.AtomicFile.callers.map fun r => (r.1, r.2.1)
    (found.all fun s => claimed.contains s) = true ∧ (claimed.all fun s => found.contains s) = true ∧
      found.length = claimed.length := by
  decide

/-! ### names: temporary files are never the file a loader opens -/

/-- Loaders open exactly `filename`; the temp file and the cross-device sibling copy have other
names, whatever `tmpDir` is. -/
theorem temp_never_read (c : Cfg) (h : CfgOk c) :
    tempName c ≠ c.filename ∧ siblingName c ≠ c.filename :=
  ⟨h.distinct.tT, h.distinct.sT⟩

theorem backup_not_target (c : Cfg) (h : CfgOk c) : backupName c ≠ c.filename := h.distinct.bT

/-- the backup copy can never clobber the freshly written temp file (nor the sibling copy) -/
theorem temp_not_backup (c : Cfg) (h : CfgOk c) :
    backupName c ≠ tempName c ∧ siblingName c ≠ backupName c ∧ siblingName c ≠ tempName c :=
  ⟨h.distinct.bt, h.distinct.sb, h.distinct.st⟩

example : CfgOk witnessCfg := by decide
example : tempName witnessCfg = ['t', '/', 'u', '.', 'a'] := by decide

/-! ### atomicity -/

/-- **crash_atomic.**  For every configuration (tmp dir or not, backup dir / none / `/dev/null`,
backup and empty-overwrite switches, same or different file system), every previous state of the
disk (old file present or not, stray files anywhere), every chunking of the new content, every
buffering schedule, and every number `k` of completed file-system calls at which the process dies:
the target is entirely the old or entirely the new version. -/
theorem crash_atomic (c : Cfg) (h : CfgOk c) (ws : List (Bytes × Nat)) (fs : FS) (k : Nat) :
    Good (fs.disk c.filename) (newContent ws) ((crashAt fs (flushOps c ws fs) k).disk c.filename) :=
  (flush_spec c h.distinct h.block ws fs).1 k

/-- a flush that runs to completion installs exactly the new content … -/
theorem flush_complete (c : Cfg) (h : CfgOk c) (ws : List (Bytes × Nat)) (fs : FS)
    (hw : newContent ws ≠ [] ∨ c.allowEmptyOverwrite = true ∨ fs.disk c.filename = none) :
    (run fs (flushOps c ws fs)).disk c.filename = some (newContent ws) := by
  rw [(flush_spec c h.distinct h.block ws fs).2, if_pos]
  rcases hw with hw | hw | hw
  · left; intro h0; exact hw (List.eq_nil_of_length_eq_zero h0)
  · right; left; exact hw
  · right; right; rw [hw]; rfl

/-- … except in the one case where `close()` declines to overwrite (`new` empty,
`allowEmptyOverwrite` off, old file present): then the old version stays, untouched. -/
theorem flush_skipped (c : Cfg) (h : CfgOk c) (ws : List (Bytes × Nat)) (fs : FS) (o : Bytes)
    (h1 : newContent ws = []) (h2 : c.allowEmptyOverwrite = false) (h3 : fs.disk c.filename = some o) :
    (run fs (flushOps c ws fs)).disk c.filename = some o := by
  rw [(flush_spec c h.distinct h.block ws fs).2, if_neg, h3]
  simp [h1, h2, h3]

/-- a flush whose caller raises (the object is dropped: `__del__` → `rollback`) never touches the
target, at any crash index, and removes its temp file when it runs to the end -/
theorem abort_safe (c : Cfg) (h : CfgOk c) (ws : List (Bytes × Nat)) (fs : FS) (k : Nat) :
    (crashAt fs (abortOps c ws fs) k).disk c.filename = fs.disk c.filename ∧
    (run fs (abortOps c ws fs)).disk (tempName c) = none := by
  refine ⟨?_, abort_removes_temp c ws fs⟩
  exact allPre_safe (abortOps_safe c ws fs h.distinct.tT) fs (fun d => d = fs.disk c.filename) rfl k

/-! ### histories -/

/-- one attempt of a history is about the file `T` and respects the naming contract -/
def AttemptOk (T : Path) (a : Attempt) : Prop := a.cfg.filename = T ∧ CfgOk a.cfg

theorem attempt_good (T : Path) (a : Attempt) (h : AttemptOk T a) (fs : FS) :
    Good (fs.disk T) (newContent a.ws) ((attempt fs a).disk T) := by
  obtain ⟨rfl, hc⟩ := h
  unfold attempt
  cases a.fate with
  | completes => exact allPre_final (flush_spec a.cfg hc.distinct hc.block a.ws fs).1
  | raises =>
    left
    exact run_safe (abortOps_safe a.cfg a.ws fs hc.distinct.tT) fs
  | dies k => exact crash_atomic a.cfg hc a.ws fs k

/-- **history_versions.**  After any sequence of flushes of one file — each running to completion,
aborted by an exception in the caller, or killed after an arbitrary number of file-system calls
(the process then restarts) — the file is the initial version or the complete content of one of the
attempted flushes (or the empty file, when there was no file at the start). -/
theorem history_versions (T : Path) (as : List Attempt) (h : ∀ a ∈ as, AttemptOk T a) (fs : FS) :
    (history fs as).disk T = fs.disk T ∨
    (∃ a ∈ as, (history fs as).disk T = some (newContent a.ws)) ∨
    ((history fs as).disk T = some [] ∧ fs.disk T = none) := by
  induction as generalizing fs with
  | nil => left; rfl
  | cons a as ih =>
    have ha := attempt_good T a (h a List.mem_cons_self) fs
    have := ih (fun b hb => h b (List.mem_cons_of_mem _ hb)) (attempt fs a)
    rw [show history fs (a :: as) = history (attempt fs a) as from rfl]
    rcases this with e | ⟨b, hb, e⟩ | ⟨e, e0⟩
    · rw [e]
      rcases ha with ha | ha | ⟨ha0, ha⟩
      · left; exact ha
      · right; left; exact ⟨a, List.mem_cons_self, ha⟩
      · right; right; exact ⟨ha, ha0⟩
    · right; left; exact ⟨b, List.mem_cons_of_mem _ hb, e⟩
    · rcases ha with ha | ha | ⟨_, ha⟩
      · right; right; exact ⟨e, by rw [← ha]; exact e0⟩
      · rw [ha] at e0; cases e0
      · rw [ha] at e0; cases e0

/-- **open_atomic.**  Opening a database at start-up or by `reload()` (`UsersDictionary.open`,
`ChannelsDictionary.open`, `NetworksDictionary.open`) reads the file and then flushes what it has
read — one atomic write whose content is a function `reser` of the old file.  Killed anywhere inside
`open()`, the file is the old one or the completely re-written one; never a file holding only the
records read so far. -/
theorem open_atomic (c : Cfg) (h : CfgOk c) (reser : Option Bytes → List (Bytes × Nat)) (fs : FS) (k : Nat) :
    Good (fs.disk c.filename) (newContent (reser (fs.disk c.filename)))
      ((crashAt fs (flushOps c (reser (fs.disk c.filename)) fs) k).disk c.filename) :=
  crash_atomic c h _ fs k

/-! ### several files in one `world.flush()` -/

/-- **multi_flush_atomic.**  `world.flush()` (and the periodic flusher) writes several files one
after the other — users, channels, networks, ignores, userdata.conf.  Whatever the number of
file-system calls after which the process dies, *each* of these files is, individually, entirely its
old or entirely its new version: files whose turn has not come are untouched, files already done
stay done.  (No cross-file atomicity is claimed — nor needed: no core loader reads a reference into
another file.) -/
theorem multi_flush_atomic (js : List (Cfg × List (Bytes × Nat))) (fs : FS)
    (hok : ∀ j ∈ js, CfgOk j.1) (hsep : Separate js) (k : Nat) :
    ∀ j ∈ js, Good (fs.disk j.1.filename) (newContent j.2)
      ((crashAt fs (multiOps fs js) k).disk j.1.filename) := by
  intro j hj
  exact multi_spec js fs (fun j hj => ⟨(hok j hj).distinct, (hok j hj).block⟩) hsep j hj k

/-- two files are independent as soon as neither name is the other followed by `.something`
(users.conf / channels.conf / networks.conf / ignores.conf / userdata.conf / the registry file) -/
theorem files_independent (c : Cfg) (h : CfgOk c) {T : Path} (hf : c.filename ≠ T)
    (hp : ∀ x, basename T ≠ basename c.filename ++ '.' :: x) : Indep c T :=
  indep_of_names c h.token h.token2 h.now hf hp

/-! ### non-vacuity and the recorded counter-example of the repaired defect -/

def witnessFS : FS := { disk := upd (fun _ => none) ['u'] (some [1, 2, 3]), bufs := fun _ => none }
def witnessWrites : List (Bytes × Nat) := [([7], 0), ([8, 9], 1)]

/-- the (fixed) cross-device flush on a concrete instance: killed after 10 calls the target is still
the old version, run to the end it is the new one -/
example : (crashAt witnessFS (flushOps witnessCfg witnessWrites witnessFS) 10).disk ['u'] = some [1, 2, 3] := by
  decide
example : (run witnessFS (flushOps witnessCfg witnessWrites witnessFS)).disk ['u'] = some [7, 8, 9] := by
  decide
example : AttemptOk ['u'] ⟨witnessCfg, witnessWrites, .dies 9⟩ := ⟨rfl, by decide⟩
/-- two files flushed in a row, killed in the middle of the second flush: the first is new, the second old -/
example :
    let c2 : Cfg := { witnessCfg with filename := ['c'], sameDevice := true }
    let fs := run witnessFS (multiOps witnessFS [(witnessCfg, witnessWrites), (c2, [([5], 0)])] |>.take 23)
    fs.disk ['u'] = some [7, 8, 9] ∧ fs.disk ['c'] = none := by decide

/-- the flush as it was before the repair of `close()` (final step `shutil.move`) -/
def flushOpsOld (c : Cfg) (ws : List (Bytes × Nat)) : List Op :=
  let pre := initOps c ++ writeOps c ws ++ [.close (tempName c)]
  pre ++ [.stat (tempName c), .stat c.filename, .stat c.filename, .openA c.filename, .close c.filename] ++
    moveOpsOld c (newContent ws).length

/-- **cross_device_counter.**  With the temp file on another file system the pre-repair sequence
(`shutil.move` → copy over the target in place) has a crash index at which the target is neither
the old nor the new version (it is empty): the statement `crash_atomic` was false for that code.
Replayed on the real code with an `EXDEV`-raising `os.rename`; repaired by commit "fix:
AtomicFile.close replaces the target by a single rename …". -/
theorem cross_device_counter :
    ∃ k, ¬ Good (witnessFS.disk witnessCfg.filename) (newContent witnessWrites)
      ((crashAt witnessFS (flushOpsOld witnessCfg witnessWrites) k).disk witnessCfg.filename) := by
  refine ⟨12, ?_⟩
  have e : (crashAt witnessFS (flushOpsOld witnessCfg witnessWrites) 12).disk witnessCfg.filename
      = some [] := by decide
  rw [e]
  unfold Good
  decide

/-! ### the in-place record writers of `dbi.FlatfileMapping` (not AtomicFile; outside the flushes the
property enumerates, but the persistence path of every plugin database using the flat mapping) -/

/-- **flat_set_atomic.**  `FlatfileMapping.set` now rewrites the database through an AtomicFile (copy
every other record, then the new line): it is an atomic write like any flush, so `crash_atomic`
applies to it verbatim. -/
theorem flat_set_atomic (c : Cfg) (h : CfgOk c) (ws : List (Bytes × Nat)) (fs : FS) (k : Nat) :
    Good (fs.disk c.filename) (newContent ws) ((crashAt fs (flushOps c ws fs) k).disk c.filename) :=
  crash_atomic c h ws fs k

namespace Flat

theorem writeAt_end (disk d : Bytes) : writeAt disk disk.length d = disk ++ d := by
  unfold writeAt
  simp

theorem writeAt_zero_drop (disk hdr : Bytes) (h : hdr.length ≤ disk.length) :
    (writeAt disk 0 hdr).drop hdr.length = disk.drop hdr.length := by
  unfold writeAt
  simp

/-- **flat_add_states.**  `FlatfileMapping.add` killed after any number of calls leaves the old file,
the old file with the id counter already advanced, or the new file. -/
theorem flat_add_states (disk line hdr : Bytes) (k : Nat) :
    crashAt disk (addOps line hdr) k = disk ∨ crashAt disk (addOps line hdr) k = writeAt disk 0 hdr ∨
    crashAt disk (addOps line hdr) k = writeAt disk 0 hdr ++ line := by
  unfold crashAt addOps
  by_cases hh : hdr = []
  · subst hh
    by_cases hl : line = []
    · subst hl
      match k with
      | 0 | 1 | 2 | 3 | 4 => left; simp [run, step, flushH, openRW]
      | n + 5 => left; simp [run, step, flushH, openRW]
    · match k with
      | 0 | 1 | 2 | 3 | 4 => left; simp [run, step, flushH, openRW, hl]
      | n + 5 => right; right; simp [run, step, flushH, openRW, hl, writeAt_end, writeAt]
  · by_cases hl : line = []
    · subst hl
      match k with
      | 0 | 1 | 2 => left; simp [run, step, flushH, openRW, hh]
      | 3 | 4 => right; left; simp [run, step, flushH, openRW, hh]
      | n + 5 => right; left; simp [run, step, flushH, openRW, hh]
    · match k with
      | 0 | 1 | 2 => left; simp [run, step, flushH, openRW, hh]
      | 3 | 4 => right; left; simp [run, step, flushH, openRW, hh]
      | n + 5 => right; right; simp [run, step, flushH, openRW, hh, hl, writeAt_end]

/-- **flat_add_atomic.**  What `add` leaves behind at any crash index holds, below the counter
line, exactly the old records or exactly the new records: the in-between state only has the
counter advanced (an id is skipped, none is ever handed out twice). -/
theorem flat_add_atomic (disk line hdr : Bytes) (hw : hdr.length ≤ disk.length) (k : Nat) :
    (crashAt disk (addOps line hdr) k).drop hdr.length = disk.drop hdr.length ∨
    (crashAt disk (addOps line hdr) k).drop hdr.length = disk.drop hdr.length ++ line := by
  have hlen : (writeAt disk 0 hdr).length = disk.length := by unfold writeAt; simp; omega
  rcases flat_add_states disk line hdr k with h | h | h
  · left; rw [h]
  · left; rw [h, writeAt_zero_drop disk hdr hw]
  · right
    rw [h, List.drop_append_of_le_length (by rw [hlen]; exact hw), writeAt_zero_drop disk hdr hw]

/-- **flat_remove_atomic.**  `remove` is one in-place write: old or new, nothing in between. -/
theorem flat_remove_atomic (disk blank : Bytes) (off k : Nat) :
    crashAt disk (removeOps off blank) k = disk ∨ crashAt disk (removeOps off blank) k = writeAt disk off blank := by
  unfold crashAt removeOps
  by_cases hb : blank = []
  · subst hb
    match k with
    | 0 | 1 | 2 | 3 | 4 => left; simp [run, step, flushH, openRW]
    | n + 5 => left; simp [run, step, flushH, openRW]
  · match k with
    | 0 | 1 | 2 | 3 => left; simp [run, step, flushH, openRW, hb]
    | 4 => right; simp [run, step, flushH, openRW, hb]
    | n + 5 => right; simp [run, step, flushH, openRW, hb]

/-- **flat_add_counter** (the repaired defect).  Before the repair `add` wrote the record first:
killed before the counter was rewritten, the file was "04\n…" + record 04 — it loads, says the next
id is 4 while record 4 exists, and the next `add` created a second record 4. -/
theorem flat_add_counter :
    let old : Bytes := [48, 52, 10, 48, 51, 58, 97, 10]          -- "04\n03:a\n"
    let line : Bytes := [48, 52, 58, 98, 10]                      -- "04:b\n"
    let hdr : Bytes := [48, 53]                                   -- "05"
    crashAt old (addOpsOld line hdr) 3 = old ++ line ∧
    (crashAt old (addOpsOld line hdr) 3).drop 2 ≠ old.drop 2 ∧
    (crashAt old (addOpsOld line hdr) 3).take 2 = old.take 2 := by decide

/-- **flat_set_counter** (the repaired defect).  Before the repair `set` blanked the old record
before appending the new one: killed in between, the record was gone. -/
theorem flat_set_counter :
    let old : Bytes := [48, 52, 10, 48, 51, 58, 97, 10]
    crashAt old (setOpsOld 3 [45, 45] [48, 51, 58, 65, 10]) 5 = [48, 52, 10, 45, 45, 58, 97, 10] ∧
    crashAt old (setOpsOld 3 [45, 45] [48, 51, 58, 65, 10]) 7 = [48, 52, 10, 45, 45, 58, 97, 10, 48, 51, 58, 65, 10] := by
  decide

example : (crashAt [48, 52, 10, 48, 51, 58, 97, 10] (addOps [48, 52, 58, 98, 10] [48, 53]) 3) =
    [48, 53, 10, 48, 51, 58, 97, 10] := by decide

end Flat

end C17
