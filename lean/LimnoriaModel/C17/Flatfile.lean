/-
C17 — the record-level writers of `dbi.FlatfileMapping` (src/dbi.py:160-262).  They do not go through
AtomicFile: `add` and `remove` (and, before its repair, `set`) open the database `'r+'` and write in place through one buffered
handle; `seek` and `close` push the buffer to the disk.  (`FlatfileMapping.flush` is a no-op: these
calls *are* the persistence of every plugin database that uses the 'flat' mapping.)
-/
import LimnoriaModel.Py.Basic
namespace C17.Flat
open Py

abbrev Bytes := List UInt8

/-- overwrite / extend `disk` with `d` at offset `off` -/
def writeAt (disk : Bytes) (off : Nat) (d : Bytes) : Bytes := disk.take off ++ d ++ disk.drop (off + d.length)

/-- one open `'r+'` handle: file position, and the bytes accepted by `write` but not yet on disk
together with the offset they belong to -/
structure H where
  disk : Bytes
  pos : Nat
  pend : Bytes
  pendAt : Nat

inductive Op where
  | seekEnd            -- `fd.seek(0, 2)`
  | seek (off : Nat)   -- `fd.seek(off)`
  | write (d : Bytes)  -- `fd.write(d)` (small: stays in the buffer)
  | close
deriving DecidableEq

def flushH (h : H) : H :=
  if h.pend = [] then h else { h with disk := writeAt h.disk h.pendAt h.pend, pend := [] }

def step (h : H) : Op → H
  | .seekEnd => let h' := flushH h; { h' with pos := h'.disk.length }
  | .seek off => let h' := flushH h; { h' with pos := off }
  | .write d =>
    if h.pend = [] then { h with pend := d, pendAt := h.pos, pos := h.pos + d.length }
    else { h with pend := h.pend ++ d, pos := h.pos + d.length }
  | .close => flushH h

def run (h : H) : List Op → H
  | [] => h
  | o :: os => run (step h o) os

def openRW (disk : Bytes) : H := { disk := disk, pos := 0, pend := [], pendAt := 0 }

/-- what is on disk when the process dies after `k` calls -/
def crashAt (disk : Bytes) (ops : List Op) (k : Nat) : Bytes := (run (openRW disk) (ops.take k)).disk

/-- `FlatfileMapping.add(s)`: rewrite the fixed-width id counter at the start of the file
(`_incrementCurrentId(fd)`), then append the record line -/
def addOps (line header' : Bytes) : List Op := [.seek 0, .write header', .seekEnd, .write line, .close]

/-- `add` as it was before the repair: record first, counter afterwards (`finally:`) -/
def addOpsOld (line header' : Bytes) : List Op := [.seekEnd, .write line, .seek 0, .write header', .close]

/-- `set` as it was before the repair (it now rewrites the file through AtomicFile, see
`C17.flat_set_atomic`): blank the id of the old record at `off`, then append the new line -/
def setOpsOld (off : Nat) (blank line : Bytes) : List Op :=
  [.seek 0, .seek off, .write blank, .seek off, .seekEnd, .write line, .close]

/-- `FlatfileMapping.remove(id)` for the record starting at `off` -/
def removeOps (off : Nat) (blank : Bytes) : List Op := [.seek 0, .seek off, .write blank, .seek off, .close]

end C17.Flat
