/-
C17 — model of `utils.file.AtomicFile` (src/utils/file.py:130-247) over an explicit file-system
state, at the granularity of the file-system calls the Python code performs.

* `FS`: what is on disk (`disk`), and what sits in the process' write buffers (`bufs`) and is lost
  when the process dies (`crash`).
* `Op` / `step`: one primitive call (open for writing, buffered write with the amount the runtime
  pushes to the disk during that call, close, stat, `open(p,'a')`, `sendfile`, chmod/utime,
  `rename`, `unlink`).
* `initOps` / `writeOps` / `closeOps` / `rollbackOps`: the call sequences of
  `AtomicFile.__init__`, `write`/`writelines`, `close`, `rollback` (`__del__`, `__exit__`),
  including `shutil.copy` (backup) and the final `os.replace` (on `EXDEV`: `copy2` to a sibling
  of the target, `os.replace` of the sibling, `os.remove` of the temp).  `close` reads sizes / existence from the state, as the code does.
* `tempName` / `backupName`: the names built with `'%s.%s'`, `os.path.basename`, `os.path.join`.
-/
import LimnoriaModel.Py.Basic
import LimnoriaModel.Gen.AtomicFile
namespace C17
open Py

abbrev Path := Str
abbrev Bytes := List UInt8

/-! ### file-system state -/

abbrev Tbl := Path → Option Bytes

def upd (f : Tbl) (p : Path) (v : Option Bytes) : Tbl := fun q => if q = p then v else f q

structure FS where
  /-- contents of the files on disk -/
  disk : Tbl
  /-- data accepted by `write` on an open handle for this path that has not reached the disk -/
  bufs : Tbl

/-- the process dies: the disk stays, every buffer is gone -/
def crash (fs : FS) : FS := { disk := fs.disk, bufs := fun _ => none }

inductive Op where
  /-- `open(p,'w'/'wb')`: create or truncate, fresh empty buffer -/
  | openW (p : Path)
  /-- `fd.write(d)`: `d` joins the buffer, then the runtime writes `spill` buffered bytes out -/
  | write (p : Path) (d : Bytes) (spill : Nat)
  /-- `fd.close()`: the rest of the buffer reaches the disk -/
  | close (p : Path)
  /-- `os.path.getsize` / `os.path.exists` / `open(p,'r')` and its close: no effect -/
  | stat (p : Path)
  /-- `open(p,'a')`: creates an empty file when there is none -/
  | openA (p : Path)
  /-- one `os.sendfile` call of `shutil.copyfile`: up to `n` further bytes of `src` appended to `dst` -/
  | copyData (src dst : Path) (n : Nat)
  /-- `os.chmod` / `os.utime` / xattr copy -/
  | chmod (p : Path)
  /-- `os.rename(a, b)`: atomic replace -/
  | rename (a b : Path)
  /-- `os.unlink(p)` / `os.remove(p)` -/
  | unlink (p : Path)
deriving DecidableEq

def step (fs : FS) : Op → FS
  | .openW p => { disk := upd fs.disk p (some []), bufs := upd fs.bufs p (some []) }
  | .write p d n =>
    match fs.bufs p, fs.disk p with
    | some b, some c =>
      { disk := upd fs.disk p (some (c ++ (b ++ d).take n)), bufs := upd fs.bufs p (some ((b ++ d).drop n)) }
    | _, _ => fs
  | .close p =>
    match fs.bufs p, fs.disk p with
    | some b, some c => { disk := upd fs.disk p (some (c ++ b)), bufs := upd fs.bufs p none }
    | _, _ => { fs with bufs := upd fs.bufs p none }
  | .stat _ => fs
  | .openA p => { disk := upd fs.disk p (some ((fs.disk p).getD [])), bufs := upd fs.bufs p (some []) }
  | .copyData src dst n =>
    match fs.disk src, fs.disk dst with
    | some s, some c => { fs with disk := upd fs.disk dst (some (c ++ (s.drop c.length).take n)) }
    | _, _ => fs
  | .chmod _ => fs
  | .rename a b =>
    match fs.disk a with
    | some c => { fs with disk := upd (upd fs.disk a none) b (some c) }
    | none => fs
  | .unlink p => { fs with disk := upd fs.disk p none }

def run (fs : FS) : List Op → FS
  | [] => fs
  | op :: ops => run (step fs op) ops

/-- the state found on disk when the process died after `k` calls of `ops` -/
def crashAt (fs : FS) (ops : List Op) (k : Nat) : FS := crash (run fs (ops.take k))

/-! ### names -/

/-- `os.path.basename` (posix): text after the last `/` -/
def basename (p : Path) : Path := (p.reverse.takeWhile (· ≠ '/')).reverse

/-- `os.path.join(a, b)` (posix, two arguments) -/
def pjoin (a b : Path) : Path :=
  if startsWith ['/'] b then b
  else if a = [] ∨ endsWithChar '/' a then a ++ b
  else a ++ '/' :: b

structure Cfg where
  filename : Path
  tmpDir : Option Path
  backupDir : Option Path
  makeBackupIfSmaller : Bool
  allowEmptyOverwrite : Bool
  /-- the value of `mktemp()` in `__init__` -/
  token : Str
  /-- the value of the second `mktemp()` (name of the copy next to the target, cross-device case) -/
  token2 : Str
  /-- `str(int(time.time()))` at `close` (the `%s` of the backup name) -/
  now : Str
  /-- `os.replace(temp, filename)` works (same file system); otherwise it raises `EXDEV` and
      `close` copies the temp next to the target, renames that copy over it and removes the temp -/
  sameDevice : Bool
  /-- block size of one `sendfile` call -/
  copyBlock : Nat

/-- `'%s.%s' % (filename, mktemp())`, or the basename form joined to `tmpDir` -/
def tempName (c : Cfg) : Path :=
  match c.tmpDir with
  | none => c.filename ++ '.' :: c.token
  | some d => pjoin d (basename c.filename ++ '.' :: c.token)

/-- `'%s.%s' % (filename, mktemp())`: the copy made next to the target in the cross-device case -/
def siblingName (c : Cfg) : Path := c.filename ++ '.' :: c.token2

def devNull : Path := "/dev/null".toList

def backupInfix : Str := ['.', 'b', 'a', 'c', 'k', 'u', 'p', '.']

/-- `'%s.backup.%s' % (filename, now)`, moved into `backupDir` when there is one -/
def backupName (c : Cfg) : Path :=
  let b := c.filename ++ backupInfix ++ c.now
  match c.backupDir with
  | none => b
  | some d => pjoin d (basename b)

/-! ### the call sequences of AtomicFile -/

/-- `__init__`: `codecs.open(self.tempFilename, mode)` -/
def initOps (c : Cfg) : List Op := [.openW (tempName c)]

/-- one `write` / `writelines` call each: (data, bytes the runtime spills during the call) -/
def writeOps (c : Cfg) (ws : List (Bytes × Nat)) : List Op :=
  ws.map fun w => .write (tempName c) w.1 w.2

/-- number of `sendfile` calls that move data for `len` bytes in blocks of `blk` -/
def nBlocks (len blk : Nat) : Nat := if blk = 0 then 0 else (len + blk - 1) / blk

/-- `shutil.copyfile(src, dst)` on Linux: open both, `sendfile` until it returns 0, close both -/
def copyFileOps (src dst : Path) (len blk : Nat) : List Op :=
  [.stat src, .openW dst] ++ List.replicate (nBlocks len blk + 1) (.copyData src dst blk) ++
  [.close dst, .stat src]

/-- `shutil.copy` = `copyfile` + `copymode`; `shutil.copy2` = `copyfile` + `copystat` -/
def copyOps (src dst : Path) (len blk : Nat) : List Op := copyFileOps src dst len blk ++ [.chmod dst]

/-- `os.replace(temp, filename)`; when that raises (`EXDEV`, no effect — the `.stat`):
`shutil.copy2(temp, sibling)`, `os.replace(sibling, filename)`, `os.remove(temp)` -/
def moveOps (c : Cfg) (newSize : Nat) : List Op :=
  if c.sameDevice then [.rename (tempName c) c.filename]
  else .stat (tempName c) :: copyOps (tempName c) (siblingName c) newSize c.copyBlock ++
    [.rename (siblingName c) c.filename, .unlink (tempName c)]

/-- is a backup copy made?  (`makeBackupIfSmaller and newSize < oldSize and backupDir != '/dev/null'`) -/
def wantsBackup (c : Cfg) (newSize oldSize : Nat) : Bool :=
  c.makeBackupIfSmaller && decide (newSize < oldSize) && !(c.backupDir == some devNull)

/-- everything `close()` does after `self._fd.close()`, reading the state as the code does -/
def closeTail (c : Cfg) (fs : FS) : List Op :=
  let newSize := ((fs.disk (tempName c)).getD []).length
  let pre := [Op.stat (tempName c), Op.stat c.filename]
  if newSize ≠ 0 ∨ c.allowEmptyOverwrite = true ∨ (fs.disk c.filename).isNone then
    let bk :=
      match fs.disk c.filename with
      | none => []
      | some o =>
        Op.stat c.filename ::
          (if wantsBackup c newSize o.length then copyOps c.filename (backupName c) o.length c.copyBlock else [])
    pre ++ bk ++ [.openA c.filename, .close c.filename] ++ moveOps c newSize
  else pre

/-- `AtomicFile.close()` issued in state `fs` -/
def closeOps (c : Cfg) (fs : FS) : List Op :=
  .close (tempName c) :: closeTail c (step fs (.close (tempName c)))

/-- `AtomicFile.rollback()` (also `__del__`, and `__exit__` with an exception) in state `fs` -/
def rollbackOps (c : Cfg) (fs : FS) : List Op :=
  match fs.bufs (tempName c) with
  | none => []                        -- already closed: `if not self.closed` is false
  | some _ =>
    [.close (tempName c), .stat (tempName c)] ++
      (if (fs.disk (tempName c)).isSome then [.unlink (tempName c)] else [])

/-- a whole flush: construct, write the chunks, close -/
def flushOps (c : Cfg) (ws : List (Bytes × Nat)) (fs : FS) : List Op :=
  let pre := initOps c ++ writeOps c ws
  pre ++ closeOps c (run fs pre)

/-- a flush whose caller raises after the writes `ws` (the object is dropped: `__del__` → rollback) -/
def abortOps (c : Cfg) (ws : List (Bytes × Nat)) (fs : FS) : List Op :=
  let pre := initOps c ++ writeOps c ws
  pre ++ rollbackOps c (run fs pre)

/-- `world.flush()`: the registered flushers run one after the other, each an atomic write of its
own file (users, channels, networks, ignores, userdata.conf …); a flusher that raises is logged and
the next one runs -/
def multiOps (fs : FS) : List (Cfg × List (Bytes × Nat)) → List Op
  | [] => []
  | (c, ws) :: js => flushOps c ws fs ++ multiOps (run fs (flushOps c ws fs)) js

/-- the content a completed flush is meant to install -/
def newContent (ws : List (Bytes × Nat)) : Bytes := (ws.map (·.1)).flatten

/-- `mktemp()` contract: lower-case hexadecimal digits only -/
def isHex (ch : Char) : Bool := ('0' ≤ ch && ch ≤ '9') || ('a' ≤ ch && ch ≤ 'f')
def TokenOk (t : Str) : Prop := ∀ ch ∈ t, isHex ch = true
instance (t : Str) : Decidable (TokenOk t) := by unfold TokenOk; exact inferInstance

/-! ### histories: a sequence of flush attempts, each one complete, aborted or killed -/

inductive Fate where
  | completes
  | raises                 -- the caller raises after its writes: rollback
  | dies (k : Nat)         -- the process dies after `k` calls (then restarts: buffers are gone)

structure Attempt where
  cfg : Cfg
  ws : List (Bytes × Nat)
  fate : Fate

def attempt (fs : FS) (a : Attempt) : FS :=
  match a.fate with
  | .completes => run fs (flushOps a.cfg a.ws fs)
  | .raises => run fs (abortOps a.cfg a.ws fs)
  | .dies k => crashAt fs (flushOps a.cfg a.ws fs) k

def history (fs : FS) : List Attempt → FS
  | [] => fs
  | a :: as => history (attempt fs a) as

end C17
