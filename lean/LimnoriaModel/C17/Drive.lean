import LimnoriaModel.C17.Model
import LimnoriaModel.C17.Flatfile
import LimnoriaModel.Driver.Core
namespace C17
open Py Wire

/-- which of the three files of an atomic write a path is -/
def role (c : Cfg) (p : Path) : String :=
  if p = c.filename then "T" else if p = tempName c then "t" else if p = backupName c then "b"
  else if p = siblingName c then "s"
  else "x" ++ enc p

def isPrefix (a b : Bytes) : Bool := a.isPrefixOf b

/-- canonical description of one file's content relative to the old and the new version -/
def sym (old : Option Bytes) (new : Bytes) : Option Bytes → String
  | none => "A"
  | some x =>
    if old = some x then "O"
    else if x = new then "N"
    else if x = [] then "E"
    else if isPrefix x new then "n" ++ toString x.length
    else if isPrefix x (old.getD []) then "o" ++ toString x.length
    else "X" ++ encBytes x

def stateSym (c : Cfg) (old : Option Bytes) (new : Bytes) (fs : FS) : String :=
  sym old new (fs.disk c.filename) ++ "/" ++ sym old new (fs.disk (tempName c)) ++ "/" ++
    sym old new (fs.disk (backupName c)) ++ "/" ++ sym old new (fs.disk (siblingName c))

def diskLen (fs : FS) (p : Path) : Nat := ((fs.disk p).getD []).length

/-- canonical text of a call, `none` for calls without effect (stat, chmod) -/
def opSym (c : Cfg) (before after : FS) : Op → Option String
  | .openW p => some ("openW." ++ role c p)
  | .write p d _ => some ("write." ++ role c p ++ "." ++ toString d.length ++ "." ++
      toString (diskLen after p - diskLen before p))
  | .close p => some ("close." ++ role c p)
  | .stat _ => none
  | .openA p => some ("openA." ++ role c p)
  | .copyData s d _ => some ("copy." ++ role c s ++ "." ++ role c d ++ "." ++
      toString (diskLen after d - diskLen before d))
  | .chmod _ => none
  | .rename a b => some ("rename." ++ role c a ++ "." ++ role c b)
  | .unlink p => some ("unlink." ++ role c p)

/-- walk the calls; emit the effectful ones and the on-disk state after each of them -/
def walk (c : Cfg) (old : Option Bytes) (new : Bytes) : FS → List Op → List String × List String
  | _, [] => ([], [])
  | fs, op :: ops =>
    let fs' := step fs op
    let (os, ss) := walk c old new fs' ops
    match opSym c fs fs' op with
    | none => (os, ss)
    | some o => (o :: os, stateSym c old new (crash fs') :: ss)

def decBool : String → Option Bool
  | "0" => some false
  | "1" => some true
  | _ => none

def decWrites (f : String) : Option (List (Bytes × Nat)) :=
  if f = "-" then some [] else
  (f.splitOn ",").mapM fun item =>
    match item.splitOn ":" with
    | [d, n] => do
      let d' ← decBytes d
      let n' ← n.toNat?
      pure (d', n')
    | _ => none

def decOptBytes (f : String) : Option (Option Bytes) :=
  if f = "~" then some none else (decBytes f).map some

def decCfg : List String → Option Cfg
  | [fn, td, bd, mb, ae, tok, tok2, now, sd, blk] => do
    let fn ← dec fn
    let td ← decOpt td
    let bd ← decOpt bd
    let mb ← decBool mb
    let ae ← decBool ae
    let tok ← dec tok
    let tok2 ← dec tok2
    let now ← dec now
    let sd ← decBool sd
    let blk ← blk.toNat?
    pure ⟨fn, td, bd, mb, ae, tok, tok2, now, sd, blk⟩
  | _ => none

def flatStates (disk : Bytes) (ops : List Flat.Op) : String :=
  ",".intercalate ((List.range (ops.length + 1)).map fun k => encBytes (Flat.crashAt disk ops k))

def drive : List String → String
  | ["flatadd", d, l, h] =>
    match decBytes d, decBytes l, decBytes h with
    | some d, some l, some h => flatStates d (Flat.addOps l h)
    | _, _, _ => "bad-op"
  | ["flatset", d, off, bl, l] =>
    match decBytes d, off.toNat?, decBytes bl, decBytes l with
    | some d, some off, some bl, some l => flatStates d (Flat.setOpsOld off bl l)
    | _, _, _, _ => "bad-op"
  | ["flatremove", d, off, bl] =>
    match decBytes d, off.toNat?, decBytes bl with
    | some d, some off, some bl => flatStates d (Flat.removeOps off bl)
    | _, _, _ => "bad-op"
  | ["names", fn, td, bd, tok, tok2, now] =>
    match decCfg [fn, td, bd, "1", "1", tok, tok2, now, "1", "1"] with
    | some c => enc (tempName c) ++ "\t" ++ enc (backupName c) ++ "\t" ++ enc (siblingName c)
    | none => "bad-op"
  | [kind, fn, td, bd, mb, ae, tok, tok2, now, sd, blk, old, ws] =>
    match decCfg [fn, td, bd, mb, ae, tok, tok2, now, sd, blk], decOptBytes old, decWrites ws with
    | some c, some old, some ws =>
      let fs0 : FS := { disk := upd (fun _ => none) c.filename old, bufs := fun _ => none }
      let ops? : Option (List Op) :=
        if kind = "flush" then some (flushOps c ws fs0)
        else if kind = "abort" then some (abortOps c ws fs0)
        else none
      match ops? with
      | none => "bad-op"
      | some ops =>
        let new := newContent ws
        let (os, ss) := walk c old new fs0 ops
        ",".intercalate os ++ ";" ++ ",".intercalate (stateSym c old new fs0 :: ss)
    | _, _, _ => "bad-op"
  | _ => "bad-op"

def handler : Driver.Handler := Driver.pureHandler drive
end C17
