/-
C17 — helper lemmas: calls that do not touch a path, prefixes of call sequences, the buffered
writes, `shutil.copyfile`, and the name constructions.
-/
import LimnoriaModel.C17.Model
import LimnoriaModel.Gen.Writers
import LimnoriaModel.C17.Flatfile
namespace C17
open Py

/-! ### run / take -/

theorem run_append (fs : FS) (a b : List Op) : run fs (a ++ b) = run (run fs a) b := by
  induction a generalizing fs with
  | nil => rfl
  | cons x xs ih => simp only [List.cons_append, run]; exact ih _

@[simp] theorem run_nil (fs : FS) : run fs [] = fs := rfl
@[simp] theorem run_cons (fs : FS) (o : Op) (os : List Op) : run fs (o :: os) = run (step fs o) os := rfl

@[simp] theorem crash_disk (fs : FS) : (crash fs).disk = fs.disk := rfl

/-- `P` holds after every prefix of the call sequence -/
def AllPre (P : FS → Prop) (fs : FS) (ops : List Op) : Prop := ∀ k, P (run fs (ops.take k))

theorem allPre_nil {P : FS → Prop} {fs : FS} (h : P fs) : AllPre P fs [] := by
  intro k; simpa using h

theorem allPre_cons {P : FS → Prop} {fs : FS} {o : Op} {os : List Op}
    (h0 : P fs) (h : AllPre P (step fs o) os) : AllPre P fs (o :: os) := by
  intro k
  cases k with
  | zero => simpa using h0
  | succ n => simpa using h n

theorem allPre_append {P : FS → Prop} {fs : FS} {a b : List Op}
    (ha : AllPre P fs a) (hb : AllPre P (run fs a) b) : AllPre P fs (a ++ b) := by
  intro k
  by_cases hk : k ≤ a.length
  · rw [List.take_append_of_le_length hk]; exact ha k
  · have : k = a.length + (k - a.length) := by omega
    rw [this, List.take_length_add_append, run_append]
    exact hb _

theorem allPre_final {P : FS → Prop} {fs : FS} {ops : List Op} (h : AllPre P fs ops) :
    P (run fs ops) := by
  have := h ops.length
  simpa using this

/-! ### calls that leave a path alone -/

/-- the call does not change what is on disk under `p` -/
def Safe (p : Path) : Op → Prop
  | .openW q => q ≠ p
  | .write q _ _ => q ≠ p
  | .close q => q ≠ p
  | .stat _ => True
  | .openA q => q ≠ p
  | .copyData _ d _ => d ≠ p
  | .chmod _ => True
  | .rename a b => a ≠ p ∧ b ≠ p
  | .unlink q => q ≠ p

theorem upd_ne {f : Tbl} {p q : Path} {v : Option Bytes} (h : q ≠ p) : upd f q v p = f p := by
  unfold upd; simp [Ne.symm h]

@[simp] theorem upd_same {f : Tbl} {p : Path} {v : Option Bytes} : upd f p v p = v := by
  unfold upd; simp

theorem step_safe {p : Path} {fs : FS} {o : Op} (h : Safe p o) : (step fs o).disk p = fs.disk p := by
  cases o with
  | openW q => exact upd_ne h
  | write q d n =>
    simp only [step]; split
    · exact upd_ne h
    · rfl
  | close q =>
    simp only [step]; split
    · exact upd_ne h
    · rfl
  | stat q => rfl
  | openA q => exact upd_ne h
  | copyData s d n =>
    simp only [step]; split
    · exact upd_ne h
    · rfl
  | chmod q => rfl
  | rename a b =>
    simp only [step]; split
    · show upd (upd fs.disk a none) b _ p = fs.disk p
      rw [upd_ne h.2, upd_ne h.1]
    · rfl
  | unlink q => exact upd_ne h

theorem run_safe {p : Path} {ops : List Op} (h : ∀ o ∈ ops, Safe p o) (fs : FS) :
    (run fs ops).disk p = fs.disk p := by
  induction ops generalizing fs with
  | nil => rfl
  | cons o os ih =>
    rw [run_cons, ih (fun o' ho' => h o' (List.mem_cons_of_mem _ ho')), step_safe (h o List.mem_cons_self)]

theorem allPre_safe {p : Path} {ops : List Op} (h : ∀ o ∈ ops, Safe p o) (fs : FS)
    (Q : Option Bytes → Prop) (hq : Q (fs.disk p)) : AllPre (fun s => Q (s.disk p)) fs ops := by
  intro k
  show Q ((run fs (ops.take k)).disk p)
  rw [run_safe (fun o ho => h o (List.mem_of_mem_take ho))]
  exact hq

/-! ### buffered writes: disk ++ buffer = everything written so far -/

theorem writes_inv (t : Path) (ws : List (Bytes × Nat)) (fs : FS) (a bf : Bytes)
    (hd : fs.disk t = some a) (hb : fs.bufs t = some bf) :
    ∃ a' bf', (run fs (ws.map fun w => Op.write t w.1 w.2)).disk t = some a' ∧
      (run fs (ws.map fun w => Op.write t w.1 w.2)).bufs t = some bf' ∧
      a' ++ bf' = a ++ bf ++ (ws.map (·.1)).flatten := by
  induction ws generalizing fs a bf with
  | nil => exact ⟨a, bf, hd, hb, by simp⟩
  | cons w ws ih =>
    simp only [List.map_cons, run_cons]
    have hs : step fs (.write t w.1 w.2) =
        { disk := upd fs.disk t (some (a ++ (bf ++ w.1).take w.2)),
          bufs := upd fs.bufs t (some ((bf ++ w.1).drop w.2)) } := by
      simp only [step, hd, hb]
    obtain ⟨a', bf', h1, h2, h3⟩ := ih (step fs (.write t w.1 w.2)) (a ++ (bf ++ w.1).take w.2)
      ((bf ++ w.1).drop w.2) (by rw [hs]; exact upd_same) (by rw [hs]; exact upd_same)
    refine ⟨a', bf', h1, h2, ?_⟩
    rw [h3]
    simp only [List.flatten_cons, List.append_assoc]
    congr 1
    rw [← List.append_assoc ((bf ++ w.1).take w.2), List.take_append_drop]
    simp

/-- state after `__init__`, the writes and `self._fd.close()`: the temp file holds exactly the new content -/
theorem temp_after_close (c : Cfg) (ws : List (Bytes × Nat)) (fs : FS) :
    (step (run fs (initOps c ++ writeOps c ws)) (.close (tempName c))).disk (tempName c) =
      some (newContent ws) := by
  rw [run_append]
  obtain ⟨a', bf', h1, h2, h3⟩ := writes_inv (tempName c) ws (run fs (initOps c)) [] []
    (by simp [initOps, step]) (by simp [initOps, step])
  unfold writeOps
  simp only [step, h1, h2, upd_same]
  simp only [List.nil_append] at h3
  rw [h3]; rfl

theorem pre_safe (c : Cfg) (ws : List (Bytes × Nat)) {p : Path} (h : tempName c ≠ p) :
    ∀ o ∈ initOps c ++ writeOps c ws, Safe p o := by
  intro o ho
  simp only [initOps, writeOps, List.mem_append, List.mem_singleton, List.mem_map] at ho
  rcases ho with rfl | ⟨w, _, rfl⟩
  · exact h
  · exact h

/-! ### shutil.copyfile -/

theorem take_step (x : Bytes) (m b : Nat) :
    x.take m ++ (x.drop (x.take m).length).take b = x.take (m + b) := by
  by_cases h : m ≤ x.length
  · rw [List.length_take, Nat.min_eq_left h, List.take_add]
  · have h' : x.length ≤ m := by omega
    rw [List.take_of_length_le h', List.drop_length, List.take_nil, List.append_nil,
      List.take_of_length_le (by omega)]

theorem copy_loop (src dst : Path) (hne : dst ≠ src) (x : Bytes) (blk n m : Nat) (fs : FS)
    (hs : fs.disk src = some x) (hd : fs.disk dst = some (x.take m)) :
    (run fs (List.replicate n (Op.copyData src dst blk))).disk dst = some (x.take (m + n * blk)) ∧
    (run fs (List.replicate n (Op.copyData src dst blk))).disk src = some x ∧
    (run fs (List.replicate n (Op.copyData src dst blk))).bufs = fs.bufs := by
  induction n generalizing fs m with
  | zero => simpa using ⟨hd, hs⟩
  | succ n ih =>
    simp only [List.replicate_succ, run_cons]
    have hst : step fs (.copyData src dst blk) =
        { fs with disk := upd fs.disk dst (some (x.take m ++ (x.drop (x.take m).length).take blk)) } := by
      simp only [step, hs, hd]
    have := ih (m + blk) (step fs (.copyData src dst blk))
      (by rw [hst]; show upd fs.disk dst _ src = _; rw [upd_ne hne]; exact hs)
      (by rw [hst]; show upd fs.disk dst _ dst = _; rw [upd_same, take_step])
    obtain ⟨h1, h2, h3⟩ := this
    refine ⟨?_, h2, ?_⟩
    · rw [h1]; congr 2; rw [Nat.succ_mul]; omega
    · rw [h3, hst]

theorem blocks_cover (len blk : Nat) (h : 0 < blk) : len ≤ (nBlocks len blk + 1) * blk := by
  unfold nBlocks
  rw [if_neg (by omega)]
  have := Nat.lt_mul_div_succ (len + blk - 1) h
  rw [Nat.mul_comm]
  omega

/-- every call of a copy into `dst` leaves any other path alone -/
theorem copyOps_safe (src dst : Path) (len blk : Nat) {p : Path} (h : dst ≠ p) :
    ∀ o ∈ copyOps src dst len blk, Safe p o := by
  intro o ho
  simp only [copyOps, copyFileOps, List.mem_append, List.mem_cons, List.mem_replicate,
    List.not_mem_nil, or_false] at ho
  rcases ho with (((rfl | rfl) | ⟨_, rfl⟩) | (rfl | rfl)) | rfl <;> first | exact h | trivial

/-- a completed copy: `dst` holds the content of `src` -/
theorem copy_complete (src dst : Path) (hne : dst ≠ src) (x : Bytes) (blk : Nat) (hb : 0 < blk)
    (fs : FS) (hs : fs.disk src = some x) :
    (run fs (copyOps src dst x.length blk)).disk dst = some x := by
  have e : copyOps src dst x.length blk = [.stat src, .openW dst] ++
      (List.replicate (nBlocks x.length blk + 1) (Op.copyData src dst blk) ++
        [.close dst, .stat src, .chmod dst]) := by
    simp [copyOps, copyFileOps]
  rw [e, run_append, run_append]
  have h0 : (run fs [.stat src, .openW dst]).disk src = some x := by
    show upd fs.disk dst _ src = _; rw [upd_ne hne]; exact hs
  have h1 : (run fs [.stat src, .openW dst]).disk dst = some (x.take 0) := by
    show upd fs.disk dst _ dst = _; rw [upd_same]; rfl
  have h2 : (run fs [.stat src, .openW dst]).bufs dst = some [] := by
    show upd fs.bufs dst _ dst = _; exact upd_same
  generalize run fs [.stat src, .openW dst] = fs1 at h0 h1 h2
  obtain ⟨l1, _, l3⟩ := copy_loop src dst hne x blk (nBlocks x.length blk + 1) 0 fs1 h0 h1
  rw [← l3] at h2
  rw [List.take_of_length_le (by have := blocks_cover x.length blk hb; omega)] at l1
  generalize run fs1 (List.replicate (nBlocks x.length blk + 1) (Op.copyData src dst blk)) = fs2 at l1 h2
  show (step fs2 (.close dst)).disk dst = some x
  simp only [step, h2, l1, upd_same, List.append_nil]

/-! ### names -/

theorem takeWhile_append_all {α} (q : α → Bool) (l1 l2 : List α) (h : ∀ a ∈ l1, q a = true) :
    (l1 ++ l2).takeWhile q = l1 ++ l2.takeWhile q := by
  induction l1 with
  | nil => rfl
  | cons a l ih =>
    simp only [List.cons_append, List.takeWhile_cons, h a List.mem_cons_self, if_true]
    rw [ih (fun b hb => h b (List.mem_cons_of_mem _ hb))]

/-- appending text without `/` extends the basename -/
theorem basename_append (p x : Path) (hx : '/' ∉ x) : basename (p ++ x) = basename p ++ x := by
  unfold basename
  rw [List.reverse_append, takeWhile_append_all, List.reverse_append, List.reverse_reverse]
  intro a ha
  have : a ∈ x := List.mem_reverse.mp ha
  simp only [ne_eq, decide_eq_true_eq]
  intro h; exact hx (h ▸ this)

theorem basename_noslash (p : Path) : '/' ∉ basename p := by
  unfold basename
  intro h
  have h' := List.mem_reverse.mp h
  have : ∀ (l : List Char), '/' ∉ l.takeWhile (· ≠ '/') := by
    intro l
    induction l with
    | nil => simp
    | cons a l ih =>
      simp only [List.takeWhile_cons]
      split
      · rename_i ha
        intro hm
        rcases List.mem_cons.mp hm with hm | hm
        · simp [← hm] at ha
        · exact ih hm
      · simp
  exact this _ h'

theorem basename_nil : basename [] = [] := rfl

theorem basename_endsSlash (d : Path) (h : endsWithChar '/' d = true) : basename d = [] := by
  unfold endsWithChar at h
  unfold basename
  cases hd : d.getLast? with
  | none => rw [hd] at h; cases h
  | some ch =>
    rw [hd] at h
    have hc : ch = '/' := by simpa using h
    rw [List.getLast?_eq_head?_reverse] at hd
    cases hr : d.reverse with
    | nil => rfl
    | cons y ys =>
      rw [hr] at hd
      simp only [List.head?_cons, Option.some.injEq] at hd
      subst hd; subst hc
      simp

/-- `basename(join(d, x)) = x` for a component `x` without `/` -/
theorem basename_pjoin (d x : Path) (hx : '/' ∉ x) : basename (pjoin d x) = x := by
  unfold pjoin
  have hs : startsWith ['/'] x = false := by
    cases x with
    | nil => rfl
    | cons y ys =>
      have : ¬ '/' = y := fun h => hx (h ▸ List.mem_cons_self)
      simp [startsWith, List.isPrefixOf, this]
  rw [hs]
  simp only [Bool.false_eq_true, if_false]
  split
  · rename_i h
    rw [basename_append _ _ hx]
    rcases h with h | h
    · rw [h]; rfl
    · rw [basename_endsSlash _ h]; rfl
  · have : d ++ '/' :: x = (d ++ ['/']) ++ x := by simp
    rw [this, basename_append _ _ hx, basename_endsSlash]
    · rfl
    · simp [endsWithChar]

theorem noslash_of_tokenOk {t : Str} (h : TokenOk t) : '/' ∉ t := by
  intro hm
  have := h '/' hm
  revert this; decide

def backupSuffix (c : Cfg) : Str := backupInfix ++ c.now

theorem basename_temp (c : Cfg) (ht : TokenOk c.token) :
    basename (tempName c) = basename c.filename ++ '.' :: c.token := by
  have hx : '/' ∉ ('.' :: c.token) := by
    intro h; rcases List.mem_cons.mp h with h | h
    · revert h; decide
    · exact noslash_of_tokenOk ht h
  unfold tempName
  cases c.tmpDir with
  | none => exact basename_append _ _ hx
  | some d =>
    simp only
    apply basename_pjoin
    intro h
    rcases List.mem_append.mp h with h | h
    · exact basename_noslash _ h
    · exact hx h

theorem basename_sibling (c : Cfg) (ht : TokenOk c.token2) :
    basename (siblingName c) = basename c.filename ++ '.' :: c.token2 := by
  have hx : '/' ∉ ('.' :: c.token2) := by
    intro h; rcases List.mem_cons.mp h with h | h
    · revert h; decide
    · exact noslash_of_tokenOk ht h
  exact basename_append _ _ hx

theorem basename_backup (c : Cfg) (hn : '/' ∉ c.now) :
    basename (backupName c) = basename c.filename ++ backupSuffix c := by
  have hx : '/' ∉ backupSuffix c := by
    intro h; rcases List.mem_append.mp h with h | h
    · revert h; decide
    · exact hn h
  have e : c.filename ++ backupInfix ++ c.now = c.filename ++ backupSuffix c := by
    unfold backupSuffix; rw [List.append_assoc]
  unfold backupName
  simp only [e]
  cases c.backupDir with
  | none => exact basename_append _ _ hx
  | some d =>
    simp only
    rw [basename_pjoin _ _ (basename_noslash _)]
    exact basename_append _ _ hx

theorem append_ne_self {α} (l s : List α) (h : s ≠ []) : l ++ s ≠ l := by
  intro e
  have := congrArg List.length e
  simp only [List.length_append] at this
  cases s with
  | nil => exact h rfl
  | cons a t => simp at this

theorem token_ne_backup (c : Cfg) (ht : TokenOk c.token) : '.' :: c.token ≠ backupSuffix c := by
  intro h
  have h' : c.token = ['b', 'a', 'c', 'k', 'u', 'p', '.'] ++ c.now := by
    have : ('.' :: c.token) = '.' :: (['b', 'a', 'c', 'k', 'u', 'p', '.'] ++ c.now) := by rw [h]; rfl
    exact List.tail_eq_of_cons_eq this
  have hk : 'k' ∈ c.token := by
    rw [h']; exact List.mem_append_left _ (by decide)
  have := ht 'k' hk
  revert this; decide

/-- the names of the files an atomic write touches are pairwise different from the target and
from the temp file -/
structure Distinct (c : Cfg) : Prop where
  tT : tempName c ≠ c.filename
  bT : backupName c ≠ c.filename
  sT : siblingName c ≠ c.filename
  bt : backupName c ≠ tempName c
  st : siblingName c ≠ tempName c
  sb : siblingName c ≠ backupName c

theorem cons_ne_nil' {α} (a : α) (l : List α) : a :: l ≠ [] := by simp

theorem names_distinct (c : Cfg) (h1 : TokenOk c.token) (h2 : TokenOk c.token2)
    (h3 : c.token ≠ c.token2) (h4 : '/' ∉ c.now) : Distinct c := by
  have bt := basename_temp c h1
  have bs := basename_sibling c h2
  have bb := basename_backup c h4
  have hbne : backupSuffix c ≠ [] := by unfold backupSuffix backupInfix; simp
  refine ⟨?_, ?_, ?_, ?_, ?_, ?_⟩
  · intro e; rw [e] at bt; exact append_ne_self _ _ (cons_ne_nil' _ _) bt.symm
  · intro e; rw [e] at bb; exact append_ne_self _ _ hbne bb.symm
  · intro e; rw [e] at bs; exact append_ne_self _ _ (cons_ne_nil' _ _) bs.symm
  · intro e; rw [e, bt] at bb
    exact token_ne_backup c h1 (List.append_cancel_left bb)
  · intro e; rw [e, bt] at bs
    have := List.append_cancel_left bs
    exact h3 (List.tail_eq_of_cons_eq this)
  · intro e; rw [e, bb] at bs
    have := List.append_cancel_left bs
    exact token_ne_backup { c with token := c.token2 } h2 this.symm

/-! ### the verdict on one target state -/

/-- the target is the old version, the new version, or — when there was no old file — the empty
file that `open(filename, 'a')` creates (loaders treat it like a missing file) -/
def Good (old : Option Bytes) (new : Bytes) (d : Option Bytes) : Prop :=
  d = old ∨ d = some new ∨ (old = none ∧ d = some [])

theorem good_old {old new} : Good old new old := Or.inl rfl
theorem good_new {old new} : Good old new (some new) := Or.inr (Or.inl rfl)

theorem good_getD {old : Option Bytes} {new : Bytes} : Good old new (some (old.getD [])) := by
  cases old with
  | none => exact Or.inr (Or.inr ⟨rfl, rfl⟩)
  | some o => exact Or.inl rfl

theorem step_openA_disk (fs : FS) (p : Path) :
    (step fs (.openA p)).disk p = some ((fs.disk p).getD []) := upd_same
theorem step_openA_bufs (fs : FS) (p : Path) : (step fs (.openA p)).bufs p = some [] := upd_same
theorem step_close_disk (fs : FS) (p : Path) (x b : Bytes) (hd : fs.disk p = some x)
    (hb : fs.bufs p = some b) : (step fs (.close p)).disk p = some (x ++ b) := by
  simp only [step, hd, hb, upd_same]
theorem step_rename_disk (fs : FS) (a b : Path) (x : Bytes) (hd : fs.disk a = some x) :
    (step fs (.rename a b)).disk b = some x := by
  simp only [step, hd]; exact upd_same

/-- the move of `close()`: from a state where the temp holds `new` and the target holds `cur` -/
theorem moveOps_spec (c : Cfg) (D : Distinct c) (hblk : 0 < c.copyBlock) (fs : FS) (new : Bytes)
    (Q : Option Bytes → Prop) (hq : Q (fs.disk c.filename)) (hn : Q (some new))
    (ht : fs.disk (tempName c) = some new) :
    AllPre (fun s => Q (s.disk c.filename)) fs (moveOps c new.length) ∧
      (run fs (moveOps c new.length)).disk c.filename = some new := by
  unfold moveOps
  split
  · -- same file system: one rename
    have hr := step_rename_disk fs (tempName c) c.filename new ht
    exact ⟨allPre_cons hq (allPre_nil (by rw [hr]; exact hn)), hr⟩
  · -- other file system: copy next to the target, rename the copy, remove the temp
    have e2 : Op.stat (tempName c) :: copyOps (tempName c) (siblingName c) new.length c.copyBlock ++
        [Op.rename (siblingName c) c.filename, Op.unlink (tempName c)] =
        (Op.stat (tempName c) :: copyOps (tempName c) (siblingName c) new.length c.copyBlock) ++
        [Op.rename (siblingName c) c.filename, Op.unlink (tempName c)] := rfl
    rw [e2]
    have hsafe : ∀ o ∈ Op.stat (tempName c) :: copyOps (tempName c) (siblingName c) new.length c.copyBlock,
        Safe c.filename o := by
      intro o ho
      rcases List.mem_cons.mp ho with rfl | ho
      · trivial
      · exact copyOps_safe _ _ _ _ D.sT o ho
    have hs : (run fs (Op.stat (tempName c) :: copyOps (tempName c) (siblingName c) new.length c.copyBlock)).disk
        (siblingName c) = some new :=
      copy_complete _ _ D.st new _ hblk _ ht
    have hTD := run_safe hsafe fs
    have hr := step_rename_disk _ (siblingName c) c.filename new hs
    have hu : (step (step (run fs (Op.stat (tempName c) :: copyOps (tempName c) (siblingName c) new.length c.copyBlock))
        (.rename (siblingName c) c.filename)) (.unlink (tempName c))).disk c.filename = some new := by
      rw [step_safe (show Safe c.filename (.unlink (tempName c)) from D.tT)]; exact hr
    refine ⟨allPre_append (allPre_safe hsafe fs _ hq) ?_, ?_⟩
    · refine allPre_cons (by rw [hTD]; exact hq) (allPre_cons (by rw [hr]; exact hn)
        (allPre_nil (by rw [hu]; exact hn)))
    · rw [run_append]; exact hu

/-- what `close()` does after `self._fd.close()`: every intermediate target state is fine, and the
final one is the new content unless the write was skipped (`new` empty, `allowEmptyOverwrite`
false, old file present) -/
theorem closeTail_spec (c : Cfg) (D : Distinct c) (hblk : 0 < c.copyBlock) (fs : FS) (new : Bytes)
    (ht : fs.disk (tempName c) = some new) :
    AllPre (fun s => Good (fs.disk c.filename) new (s.disk c.filename)) fs (closeTail c fs) ∧
    (run fs (closeTail c fs)).disk c.filename =
      (if new.length ≠ 0 ∨ c.allowEmptyOverwrite = true ∨ (fs.disk c.filename).isNone
        then some new else fs.disk c.filename) := by
  unfold closeTail
  simp only [ht, Option.getD_some]
  split
  · -- the write goes ahead
    -- phase A: stats and the optional backup copy: neither the target nor the temp changes
    generalize hA : ([Op.stat (tempName c), Op.stat c.filename] ++
      (match fs.disk c.filename with
        | none => []
        | some o => Op.stat c.filename ::
            (if wantsBackup c new.length o.length = true
              then copyOps c.filename (backupName c) o.length c.copyBlock else []))) = A
    have hAT : ∀ p, backupName c ≠ p → ∀ o ∈ A, Safe p o := by
      intro p hp o ho
      subst hA
      simp only [List.mem_append, List.mem_cons, List.not_mem_nil, or_false] at ho
      rcases ho with (rfl | rfl) | ho
      · trivial
      · trivial
      · split at ho
        · cases ho
        · rcases List.mem_cons.mp ho with rfl | ho
          · trivial
          · split at ho
            · exact copyOps_safe _ _ _ _ hp o ho
            · cases ho
    have e : A ++ [Op.openA c.filename, Op.close c.filename] ++ moveOps c new.length =
        A ++ (Op.openA c.filename :: Op.close c.filename :: moveOps c new.length) := by
      rw [List.append_assoc]; rfl
    rw [e]
    have hT1 : (run fs A).disk c.filename = fs.disk c.filename := run_safe (hAT _ D.bT) fs
    have ht1 : (run fs A).disk (tempName c) = some new := by
      rw [run_safe (hAT _ D.bt) fs]; exact ht
    -- phase B: open(filename,'a'), close
    have hB0 : (step (run fs A) (.openA c.filename)).disk c.filename =
        some ((fs.disk c.filename).getD []) := by
      rw [step_openA_disk, hT1]
    have hB0t : (step (run fs A) (.openA c.filename)).disk (tempName c) = some new := by
      rw [step_safe (show Safe (tempName c) (.openA c.filename) from D.tT.symm)]; exact ht1
    have hB1 : (step (step (run fs A) (.openA c.filename)) (.close c.filename)).disk c.filename =
        some ((fs.disk c.filename).getD []) := by
      rw [step_close_disk _ _ _ [] hB0 (step_openA_bufs _ _), List.append_nil]
    have hB1t : (step (step (run fs A) (.openA c.filename)) (.close c.filename)).disk (tempName c) =
        some new := by
      rw [step_safe (show Safe (tempName c) (.close c.filename) from D.tT.symm)]; exact hB0t
    -- phase C: the move
    have hC := moveOps_spec c D hblk _ new (Good (fs.disk c.filename) new)
      (by rw [hB1]; exact good_getD) good_new hB1t
    refine ⟨allPre_append (allPre_safe (hAT _ D.bT) fs _ good_old) ?_, ?_⟩
    · exact allPre_cons (by rw [hT1]; exact good_old) (allPre_cons (by rw [hB0]; exact good_getD) hC.1)
    · rw [run_append]; exact hC.2
  · -- nothing is written over the target
    exact ⟨allPre_cons good_old (allPre_cons good_old (allPre_nil good_old)), rfl⟩

/-! ### the whole flush, the aborted flush -/

theorem flush_spec (c : Cfg) (D : Distinct c) (hblk : 0 < c.copyBlock) (ws : List (Bytes × Nat)) (fs : FS) :
    AllPre (fun s => Good (fs.disk c.filename) (newContent ws) (s.disk c.filename)) fs (flushOps c ws fs) ∧
    (run fs (flushOps c ws fs)).disk c.filename =
      (if (newContent ws).length ≠ 0 ∨ c.allowEmptyOverwrite = true ∨ (fs.disk c.filename).isNone
        then some (newContent ws) else fs.disk c.filename) := by
  unfold flushOps closeOps
  simp only
  have hpre := pre_safe c ws D.tT
  have hT : (run fs (initOps c ++ writeOps c ws)).disk c.filename = fs.disk c.filename := run_safe hpre fs
  have hT2 : (step (run fs (initOps c ++ writeOps c ws)) (.close (tempName c))).disk c.filename =
      fs.disk c.filename := by
    rw [step_safe (show Safe c.filename (.close (tempName c)) from D.tT)]; exact hT
  have ht := temp_after_close c ws fs
  have hC := closeTail_spec c D hblk _ (newContent ws) ht
  rw [hT2] at hC
  refine ⟨allPre_append (allPre_safe hpre fs _ good_old) (allPre_cons (by rw [hT]; exact good_old) hC.1), ?_⟩
  rw [run_append]; exact hC.2

theorem rollbackOps_safe (c : Cfg) (fs : FS) {p : Path} (h : tempName c ≠ p) :
    ∀ o ∈ rollbackOps c fs, Safe p o := by
  intro o ho
  unfold rollbackOps at ho
  split at ho
  · cases ho
  · simp only [List.mem_append, List.mem_cons, List.not_mem_nil, or_false] at ho
    rcases ho with (rfl | rfl) | ho
    · exact h
    · trivial
    · split at ho
      · rcases List.mem_singleton.mp ho with rfl; exact h
      · cases ho

theorem abortOps_safe (c : Cfg) (ws : List (Bytes × Nat)) (fs : FS) {p : Path} (h : tempName c ≠ p) :
    ∀ o ∈ abortOps c ws fs, Safe p o := by
  intro o ho
  unfold abortOps at ho
  rcases List.mem_append.mp ho with ho | ho
  · exact pre_safe c ws h o ho
  · exact rollbackOps_safe c _ h o ho

/-- after the aborted flush the temp file is gone -/
theorem abort_removes_temp (c : Cfg) (ws : List (Bytes × Nat)) (fs : FS) :
    (run fs (abortOps c ws fs)).disk (tempName c) = none := by
  unfold abortOps
  simp only
  rw [run_append]
  obtain ⟨a', bf', h1, h2, _⟩ := writes_inv (tempName c) ws (run fs (initOps c)) [] []
    (by simp [initOps, step]) (by simp [initOps, step])
  have e : run fs (initOps c ++ writeOps c ws) =
      run (run fs (initOps c)) (ws.map fun w => Op.write (tempName c) w.1 w.2) := by
    rw [run_append]; rfl
  rw [e]
  generalize run (run fs (initOps c)) (ws.map fun w => Op.write (tempName c) w.1 w.2) = fs1 at h1 h2
  unfold rollbackOps
  simp only [h2, h1, Option.isSome_some, if_true]
  show (step (step (step fs1 (.close (tempName c))) (.stat (tempName c))) (.unlink (tempName c))).disk
    (tempName c) = none
  exact upd_same

/-! ### the pre-fix move (shutil.move falling back to a copy over the target), kept as the witness -/

/-- `shutil.move(temp, filename)` as `close()` used it before the fix, when `os.rename` raises
`EXDEV`: `copy2` over the target in place, then `unlink` of the temp -/
def moveOpsOld (c : Cfg) (newSize : Nat) : List Op :=
  if c.sameDevice then [.rename (tempName c) c.filename]
  else .stat (tempName c) :: copyOps (tempName c) c.filename newSize c.copyBlock ++ [.unlink (tempName c)]

def witnessCfg : Cfg :=
  { filename := ['u'], tmpDir := some ['t'], backupDir := none, makeBackupIfSmaller := true,
    allowEmptyOverwrite := true, token := ['a'], token2 := ['b'], now := ['1'], sameDevice := false,
    copyBlock := 8 }

/-! ### what the model needs from the source (checked on the extracted tables) -/

/-- callees of `close()` / `__init__` that do not change any file -/
def pureCalls : List String :=
  ["os.path.getsize", "os.path.exists", "int", "time.time", "os.path.basename", "os.path.join", "mktemp",
   "ValueError", "force", "format"]

def effectful (cs : List (String × String)) : List (String × String) :=
  cs.filter fun p => !(pureCalls.contains p.1)

/-- the shape of `AtomicFile` the model mirrors -/
structure SourceOk : Prop where
  init : effectful Gen.AtomicFile.initCalls = [("codecs.open", "self.tempFilename, mode, encoding=encoding")]
  close : effectful Gen.AtomicFile.closeCalls =
    [("self._fd.close", ""), ("shutil.copy", "self.filename, backupFilename"), ("open", "self.filename, 'a'"),
     ("fd.close", ""), ("os.replace", "self.tempFilename, self.filename"),
     ("shutil.copy2", "self.tempFilename, sibling"), ("os.replace", "sibling, self.filename"),
     ("os.remove", "self.tempFilename")]
  tests : Gen.AtomicFile.closeTests =
    ["not self.rolledback", "newSize or self.allowEmptyOverwrite or (not originalExists)", "originalExists",
     "self.makeBackupIfSmaller and newSize < oldSize and (self.backupDir != '/dev/null')",
     "self.backupDir is not None"]
  handler : Gen.AtomicFile.closeExcept =
    [("OSError", "mktemp()"), ("OSError", "shutil.copy2(self.tempFilename, sibling)"),
     ("OSError", "os.replace(sibling, self.filename)"), ("OSError", "os.remove(self.tempFilename)")]
  rollback : Gen.AtomicFile.rollbackCalls =
    [("self._fd.close", ""), ("os.path.exists", "self.tempFilename"), ("os.remove", "self.tempFilename")]
  rollbackTests : Gen.AtomicFile.rollbackTests = ["not self.closed", "os.path.exists(self.tempFilename)"]
  writes : Gen.AtomicFile.writeCalls = [("self._fd.write", "data"), ("self._fd.writelines", "lines")]
  del : Gen.AtomicFile.delCalls = [("self.rollback", "")]
  exit : Gen.AtomicFile.exitCalls = [("self.rollback", ""), ("self.close", "")]
  formats : Gen.AtomicFile.nameFormats = ["%s.%s", "%s.%s", "/dev/null", "%s.backup.%s", "%s.%s"]

instance : Decidable SourceOk :=
  decidable_of_iff
    (effectful Gen.AtomicFile.initCalls = [("codecs.open", "self.tempFilename, mode, encoding=encoding")] ∧
     effectful Gen.AtomicFile.closeCalls =
      [("self._fd.close", ""), ("shutil.copy", "self.filename, backupFilename"), ("open", "self.filename, 'a'"),
       ("fd.close", ""), ("os.replace", "self.tempFilename, self.filename"),
       ("shutil.copy2", "self.tempFilename, sibling"), ("os.replace", "sibling, self.filename"),
       ("os.remove", "self.tempFilename")] ∧
     Gen.AtomicFile.closeTests =
      ["not self.rolledback", "newSize or self.allowEmptyOverwrite or (not originalExists)", "originalExists",
       "self.makeBackupIfSmaller and newSize < oldSize and (self.backupDir != '/dev/null')",
       "self.backupDir is not None"] ∧
     Gen.AtomicFile.closeExcept =
      [("OSError", "mktemp()"), ("OSError", "shutil.copy2(self.tempFilename, sibling)"),
       ("OSError", "os.replace(sibling, self.filename)"), ("OSError", "os.remove(self.tempFilename)")] ∧
     Gen.AtomicFile.rollbackCalls =
      [("self._fd.close", ""), ("os.path.exists", "self.tempFilename"), ("os.remove", "self.tempFilename")] ∧
     Gen.AtomicFile.rollbackTests = ["not self.closed", "os.path.exists(self.tempFilename)"] ∧
     Gen.AtomicFile.writeCalls = [("self._fd.write", "data"), ("self._fd.writelines", "lines")] ∧
     Gen.AtomicFile.delCalls = [("self.rollback", "")] ∧
     Gen.AtomicFile.exitCalls = [("self.rollback", ""), ("self.close", "")] ∧
     Gen.AtomicFile.nameFormats = ["%s.%s", "%s.%s", "/dev/null", "%s.backup.%s", "%s.%s"])
    ⟨fun ⟨a, b, c, d, e, f, g, h, i, j⟩ => ⟨a, b, c, d, e, f, g, h, i, j⟩,
     fun ⟨a, b, c, d, e, f, g, h, i, j⟩ => ⟨a, b, c, d, e, f, g, h, i, j⟩⟩

/-- one call site: the file name is the only positional argument (mode stays `'w'`), the only
keyword ever passed is `makeBackupIfSmaller=False`, and the object is only written to and closed -/
def callerOk (r : String × String × String × String × List String × Nat) : Bool :=
  let (_, _, pos, kw, meths, _) := r
  (pos == "self.filename" || pos == "filename") &&
  (kw == "" || kw == "makeBackupIfSmaller=False") &&
  meths.all (fun m => ["close", "write", "writelines"].contains m) && meths.contains "close"

/-! ### several files flushed in a row (`world.flush`) -/

open List

/-- the atomic write configured by `c` never touches the path `T` -/
structure Indep (c : Cfg) (T : Path) : Prop where
  f : c.filename ≠ T
  t : tempName c ≠ T
  b : backupName c ≠ T
  s : siblingName c ≠ T

theorem moveOps_safe_other (c : Cfg) (n : Nat) {T : Path} (h : Indep c T) : ∀ o ∈ moveOps c n, Safe T o := by
  intro o ho
  unfold moveOps at ho
  split at ho
  · rcases mem_singleton.mp ho with rfl; exact ⟨h.t, h.f⟩
  · rcases mem_cons.mp ho with rfl | ho
    · trivial
    · rcases mem_append.mp ho with ho | ho
      · exact copyOps_safe _ _ _ _ h.s o ho
      · simp only [mem_cons, not_mem_nil, or_false] at ho
        rcases ho with rfl | rfl
        · exact ⟨h.s, h.f⟩
        · exact h.t

theorem closeTail_safe_other (c : Cfg) (fs : FS) {T : Path} (h : Indep c T) : ∀ o ∈ closeTail c fs, Safe T o := by
  intro o ho
  unfold closeTail at ho
  simp only at ho
  split at ho
  · simp only [mem_append, mem_cons, not_mem_nil, or_false] at ho
    rcases ho with (((rfl | rfl) | ho) | (rfl | rfl)) | ho
    · trivial
    · trivial
    · split at ho
      · cases ho
      · rcases mem_cons.mp ho with rfl | ho
        · trivial
        · split at ho
          · exact copyOps_safe _ _ _ _ h.b o ho
          · cases ho
    · exact h.f
    · exact h.f
    · exact moveOps_safe_other c _ h o ho
  · simp only [mem_cons, not_mem_nil, or_false] at ho
    rcases ho with rfl | rfl <;> trivial

theorem flushOps_safe_other (c : Cfg) (ws : List (Bytes × Nat)) (fs : FS) {T : Path} (h : Indep c T) :
    ∀ o ∈ flushOps c ws fs, Safe T o := by
  intro o ho
  unfold flushOps closeOps at ho
  simp only at ho
  rcases mem_append.mp ho with ho | ho
  · exact pre_safe c ws h.t o ho
  · rcases mem_cons.mp ho with rfl | ho
    · exact h.t
    · exact closeTail_safe_other c _ h o ho

/-- the jobs of one `world.flush()` write pairwise independent files -/
def Separate : List (Cfg × List (Bytes × Nat)) → Prop
  | [] => True
  | (c, _) :: js => (∀ j ∈ js, Indep c j.1.filename ∧ Indep j.1 c.filename) ∧ Separate js

theorem multi_safe_other (js : List (Cfg × List (Bytes × Nat))) (fs : FS) {T : Path}
    (h : ∀ j ∈ js, Indep j.1 T) : ∀ o ∈ multiOps fs js, Safe T o := by
  induction js generalizing fs with
  | nil => intro o ho; cases ho
  | cons j js ih =>
    obtain ⟨c, ws⟩ := j
    intro o ho
    unfold multiOps at ho
    rcases mem_append.mp ho with ho | ho
    · exact flushOps_safe_other c ws fs (h (c, ws) mem_cons_self) o ho
    · exact ih _ (fun j hj => h j (mem_cons_of_mem _ hj)) o ho

theorem multi_spec (js : List (Cfg × List (Bytes × Nat))) (fs : FS)
    (hok : ∀ j ∈ js, Distinct j.1 ∧ 0 < j.1.copyBlock) (hsep : Separate js) :
    ∀ j ∈ js, AllPre (fun s => Good (fs.disk j.1.filename) (newContent j.2) (s.disk j.1.filename)) fs
      (multiOps fs js) := by
  induction js generalizing fs with
  | nil => intro j hj; cases hj
  | cons j0 js ih =>
    obtain ⟨c, ws⟩ := j0
    intro j hj
    unfold multiOps
    rcases mem_cons.mp hj with rfl | hj'
    · -- the file written first: its own flush, then untouched
      have hc := hok (c, ws) mem_cons_self
      have hsp := flush_spec c hc.1 hc.2 ws fs
      refine allPre_append hsp.1 ?_
      have hsafe := multi_safe_other js (run fs (flushOps c ws fs)) (T := c.filename)
        (fun j hj => (hsep.1 j hj).2)
      exact allPre_safe hsafe _ _ (allPre_final hsp.1)
    · -- a file written later: untouched by the first flush
      have hind : Indep c j.1.filename := (hsep.1 j hj').1
      have hsafe := flushOps_safe_other c ws fs hind
      refine allPre_append (allPre_safe hsafe fs _ good_old) ?_
      have := ih (run fs (flushOps c ws fs)) (fun j hj => hok j (mem_cons_of_mem _ hj)) hsep.2 j hj'
      rw [run_safe hsafe fs] at this
      exact this

/-- independence from the names: another file whose name is not `<this file>.<something>` -/
theorem indep_of_names (c : Cfg) (h1 : TokenOk c.token) (h2 : TokenOk c.token2) (h4 : '/' ∉ c.now) {T : Path}
    (hf : c.filename ≠ T) (hp : ∀ x, basename T ≠ basename c.filename ++ '.' :: x) : Indep c T := by
  refine ⟨hf, ?_, ?_, ?_⟩
  · intro e; have := basename_temp c h1; rw [e] at this; exact hp _ this
  · intro e
    have := basename_backup c h4
    rw [e] at this
    exact hp _ (by rw [this]; rfl)
  · intro e; have := basename_sibling c h2; rw [e] at this; exact hp _ this

/-! ### who writes files at all (checked on the generated inventory) -/

/-- the places in src/ and plugins/__init__.py that open a file for writing without `AtomicFile`:
(file, function, mode).  None of them is a flush of users / channels / networks / ignores / the
registry: those in dbi.py are the record-level writers of `DirMapping` / `FlatfileMapping` (in place,
by design), cdb / transaction keep journals, utils/file.py is AtomicFile itself. -/
def knownDirectWriters : List (String × String × String) :=
  [("src/cdb.py", "ReaderWriter._openFiles", "w"),
   ("src/dbi.py", "DirMapping._setMax", "w"), ("src/dbi.py", "DirMapping.set", "w"),
   ("src/dbi.py", "DirMapping.add", "w"), ("src/dbi.py", "FlatfileMapping._incrementCurrentId", "a"),
   ("src/dbi.py", "FlatfileMapping.add", "r+"),
   ("src/dbi.py", "FlatfileMapping.remove", "r+"),
   ("src/httpserver.py", "set_default_templates", "a"),
   ("src/utils/file.py", "open_mkdir", "?"), ("src/utils/file.py", "touch", "w"),
   ("src/utils/file.py", "AtomicFile.__init__", "?"), ("src/utils/file.py", "AtomicFile.close", "a"),
   ("src/utils/transaction.py", "Transaction.__init__", "a"), ("src/utils/transaction.py", "Transaction.__init__", "w"),
   ("src/utils/transaction.py", "Transaction.append", "a"), ("src/utils/transaction.py", "Rollback.rollbackAppend", "a"),
   ("plugins/__init__.py", "PeriodicFileDownloader._downloadFile", "wb")]

def anchoredFiles : List String := ["src/ircdb.py", "src/registry.py", "src/dbi.py"]

end C17
