/-
C10 — the replies a joining client gets, part 5: topic, channel modes (324), creation time (329), ban list.
-/
import LimnoriaModel.C10.Burst4
namespace C10
open Py

/-- same view-relevant content -/
structure ViewEq (a b : Chan) : Prop where
  users : b.users = a.users
  ops : b.ops = a.ops
  halfops : b.halfops = a.halfops
  voices : b.voices = a.voices
  topic : b.topic = a.topic
  modes : b.modes = a.modes
  bans : b.bans = a.bans

/-! ### RPL_TOPIC -/

theorem topic_lines {s : Srv} {b : Bot} (h : AtSrv s b) (sc : SChan) {ch : Chan}
    (hch : aget b.channels (lower sc.name) = some ch) (ht : sc.topic ≠ []) :
    b.recvAll [emit s.cfg.server "332" [s.bot, sc.name, sc.topic], emit s.cfg.server "333" [s.bot, sc.name, s.cfg.server, ['0']]] =
      { b with channels := aset b.channels (lower sc.name) { ch with topic := sc.topic } } := by
  obtain ⟨hsv, hne⟩ := h.server
  have hfeed := feed_server (b := b) h.isup hsv hne "332".toList [sc.name, sc.topic] (by simp only [Bot.ircCmd, cmdOf_332])
  rw [h.nick] at hfeed
  simp only [recvAll_cons, recv_emit, recvAll_nil]
  rw [hfeed]
  have hchan : b.chan sc.name = some ch := hch
  simp only [Bot.stateCmd, cmdOf_332, Bot.do332, hchan, Bot.setChan]
  have h2 : AtSrv s { b with channels := aset b.channels (lower sc.name) { ch with topic := sc.topic } } := ⟨h.wf, h.nick, h.isup⟩
  exact noop_line h2 "333".toList [sc.name, s.cfg.server, ['0']] cmdOf_333

/-! ### RPL_CHANNELMODEIS -/

def as324 (modes : List (Char × Option Str)) : List MChange := modes.map (fun e => ⟨true, e.1, e.2⟩)

theorem modeString_adds (cs : List MChange) (h : ∀ c ∈ cs, c.add = true) : modeString (some true) cs = cs.map (·.ch) := by
  induction cs with
  | nil => rfl
  | cons c cs ih =>
    rw [modeString_cons]
    have hc := h c (by simp)
    simp only [hc, ↓reduceIte, List.nil_append, List.map_cons]
    rw [ih (fun c' hc' => h c' (by simp [hc']))]

theorem as324_chars (modes : List (Char × Option Str)) : (as324 modes).map (·.ch) = modes.map (·.1) := by
  simp [as324, List.map_map, Function.comp_def]

theorem as324_args (modes : List (Char × Option Str)) : modeArgs (as324 modes) = modes.filterMap (·.2) := by
  simp [as324, modeArgs, List.filterMap_map, Function.comp_def]

theorem shaped_of_entry {e : Char × Option Str} (h : ModeEntryOK e) :
    Shaped ⟨true, e.1, e.2⟩ ∧ ∀ a, e.2 = some a → modeArg a = a := by
  rcases h with ⟨hcls, a, hv, hcanon⟩ | ⟨hflag, hv⟩
  · constructor
    · simp only [List.mem_append] at hcls
      rcases hcls with hk | hl
      · exact Or.inl ⟨by simp only [List.mem_append]; exact Or.inr hk, a, hv⟩
      · exact Or.inr (Or.inl ⟨hl, rfl, a, hv⟩)
    · intro a' ha'; rw [hv] at ha'; cases ha'; exact hcanon
  · exact ⟨Or.inr (Or.inr (Or.inr ⟨hflag, hv⟩)), fun a ha => by rw [hv] at ha; cases ha⟩

/-- the mode string of a 324 reply is read back as "set every stored mode" -/
theorem separateModes_324 {modes : List (Char × Option Str)} (hm : ∀ e ∈ modes, ModeEntryOK e) :
    separateModes (('+' :: modes.map (·.1)) :: modes.filterMap (·.2)) = (as324 modes).map tr := by
  show sepGo ('+' :: modes.map (·.1)) '+' (modes.filterMap (·.2)) = _
  have h1 : sepGo ('+' :: modes.map (·.1)) '+' (modes.filterMap (·.2)) = sepGo (modes.map (·.1)) '+' (modes.filterMap (·.2)) := by
    simp [sepGo]
  rw [h1, ← as324_chars, ← as324_args, ← modeString_adds (as324 modes) (by intro c hc; simp only [as324, List.mem_map] at hc; obtain ⟨e, _, rfl⟩ := hc; rfl)]
  apply sepGo_modeString (as324 modes) _ _ (some true) '+' (fun a ha => by cases ha; rfl)
  · intro c hc
    simp only [as324, List.mem_map] at hc
    obtain ⟨e, he, rfl⟩ := hc
    exact (shaped_of_entry (hm e he)).1
  · intro c hc a ha
    simp only [as324, List.mem_map] at hc
    obtain ⟨e, he, rfl⟩ := hc
    exact (shaped_of_entry (hm e he)).2 a ha

theorem skip324_sub : ∀ c ∈ Gen.skip324, c ∈ prefixModes := by
  rw [tracked_table_ok.2.2.2.2.2.2.2.2.2.2]; decide

theorem entry_not_special {e : Char × Option Str} (h : ModeEntryOK e) : e.1 ∉ Gen.skip324 ∧ e.1 ∉ Gen.setModeForbidden := by
  have hnt : e.1 ∉ Gen.trackedModes := by
    rcases h with ⟨hcls, _⟩ | ⟨hflag, _⟩
    · rw [tracked_eq]; exact class_not_tracked _ hcls
    · exact flag_not_tracked hflag
  refine ⟨?_, fun hs => hnt (tracked_table_ok.2.2.2.2.2.2.2.2.1 _ hs)⟩
  intro hs
  have hp := skip324_sub _ hs
  rcases h with ⟨hcls, _⟩ | ⟨hflag, _⟩
  · have : ∀ c ∈ keyModes ++ limitModes, c ∉ prefixModes := by decide
    exact this _ hcls hp
  · exact flag_not_class hflag (by simp only [List.mem_append]; exact Or.inl (Or.inl (Or.inl hp)))

theorem run324 (modes : List (Char × Option Str)) (hm : ∀ e ∈ modes, ModeEntryOK e) (ch : Chan) :
    runSteps Chan.step324 ch ((as324 modes).map tr) =
      ({ ch with modes := modes.foldl (fun acc e => aset acc e.1 e.2) ch.modes }, false) := by
  induction modes generalizing ch with
  | nil => rfl
  | cons e es ih =>
    obtain ⟨h1, h2⟩ := entry_not_special (hm e (by simp))
    simp only [as324, List.map_cons, tr, runSteps, Chan.step324, sign, ↓reduceIte, h1, h2, List.foldl_cons]
    have := ih (fun e' he' => hm e' (by simp [he'])) { ch with modes := aset ch.modes e.1 e.2 }
    simp only [as324] at this
    rw [this]

theorem foldl_aset_get {κ α : Type} [DecidableEq κ] (l init : List (κ × α)) (hn : (akeys l).Nodup) (m : κ) :
    aget (l.foldl (fun acc e => aset acc e.1 e.2) init) m = match aget l m with
      | some v => some v
      | none => aget init m := by
  induction l generalizing init with
  | nil => rfl
  | cons e r ih =>
    obtain ⟨k, v⟩ := e
    simp only [akeys, List.map_cons, List.nodup_cons] at hn
    rw [List.foldl_cons, ih _ hn.2, aget_cons]
    by_cases hk : k = m
    · subst hk
      have : aget r k = none := by
        cases hg : aget r k with
        | none => rfl
        | some w => exact absurd (List.mem_map.mpr ⟨(k, w), aget_mem hg, rfl⟩) hn.1
      simp [this]
    · simp only [hk, ↓reduceIte]
      cases aget r m with
      | none => simp [aget_aset, hk]
      | some w => rfl

theorem mode_line {s : Srv} {b : Bot} (h : AtSrv s b) {k : Str} {sc : SChan} (hsc : aget s.chans k = some sc) {ch : Chan}
    (hch : aget b.channels k = some ch) :
    b.recv (s.modeIs sc) =
      { b with channels := aset b.channels k { ch with modes := sc.modes.foldl (fun acc e => aset acc e.1 e.2) ch.modes } } := by
  obtain ⟨hsv, hne⟩ := h.server
  have hcw := h.wf.chans k sc hsc
  have hkey := hcw.key
  subst hkey
  unfold Srv.modeIs
  simp only [recv_emit, List.cons_append, List.nil_append]
  have hfeed := feed_server (b := b) h.isup hsv hne "324".toList
    (sc.name :: ('+' :: sc.modes.map (·.1)) :: sc.modes.filterMap (·.2)) (by simp only [Bot.ircCmd, cmdOf_324])
  rw [h.nick] at hfeed
  rw [hfeed]
  have hcn : b.chan sc.name = some ch := hch
  simp only [Bot.stateCmd, cmdOf_324, Bot.do324, separateModes_324 hcw.modes, hcn, run324 sc.modes hcw.modes, Bot.setChan]

/-! ### RPL_CREATIONTIME -/

theorem created_line {s : Srv} {b : Bot} (h : AtSrv s b) (sc : SChan) {ch : Chan}
    (hch : aget b.channels (lower sc.name) = some ch) :
    ∃ ch', b.recv (emit s.cfg.server "329" [s.bot, sc.name, sc.created]) =
      { b with channels := aset b.channels (lower sc.name) ch' } ∧ ViewEq ch ch' := by
  obtain ⟨hsv, hne⟩ := h.server
  have hfeed := feed_server (b := b) h.isup hsv hne "329".toList [sc.name, sc.created] (by simp only [Bot.ircCmd, cmdOf_329])
  rw [h.nick] at hfeed
  have hcn : b.chan sc.name = some ch := hch
  simp only [recv_emit]
  rw [hfeed]
  simp only [Bot.stateCmd, cmdOf_329, Bot.do329, hcn, Bot.setChan]
  cases pyInt sc.created with
  | none =>
    refine ⟨ch, ?_, ⟨rfl, rfl, rfl, rfl, rfl, rfl, rfl⟩⟩
    simp only [aset_same _ _ _ hch]
  | some n => exact ⟨{ ch with created := n }, rfl, ⟨rfl, rfl, rfl, rfl, rfl, rfl, rfl⟩⟩

/-! ### RPL_BANLIST -/

theorem ban_lines {s : Srv} (sc : SChan) (bans : List Str) :
    ∀ {b : Bot} {ch : Chan}, AtSrv s b → aget b.channels (lower sc.name) = some ch →
      b.recvAll (bans.map (fun m => emit s.cfg.server "367" [s.bot, sc.name, m, s.cfg.server, ['0']])) =
        { b with channels := (aset b.channels (lower sc.name)
            { ch with bans := bans.foldl (fun acc m => sadd acc (lower m)) ch.bans }) } := by
  induction bans with
  | nil =>
    intro b ch _ hch
    simp only [List.map_nil, recvAll_nil, List.foldl_nil]
    have : ({ ch with bans := ch.bans } : Chan) = ch := rfl
    rw [this, aset_same _ _ _ hch]
  | cons m ms ih =>
    intro b ch h hch
    obtain ⟨hsv, hne⟩ := h.server
    have hfeed := feed_server (b := b) h.isup hsv hne "367".toList [sc.name, m, s.cfg.server, ['0']] (by simp only [Bot.ircCmd, cmdOf_367])
    rw [h.nick] at hfeed
    have hchan : b.chan sc.name = some ch := hch
    simp only [List.map_cons, recvAll_cons, recv_emit, List.foldl_cons]
    rw [hfeed]
    simp only [Bot.stateCmd, cmdOf_367, Bot.do367, hchan, Bot.setChan]
    rw [ih (b := { b with channels := aset b.channels (lower sc.name) { ch with bans := sadd ch.bans (lower m) } })
      (ch := { ch with bans := sadd ch.bans (lower m) }) ⟨h.wf, h.nick, h.isup⟩ (aget_aset_self _ _ _)]
    simp only [aset_aset]

theorem foldl_sadd_mem (bans : List Str) (init : List Str) (x : Str) :
    x ∈ bans.foldl (fun acc m => sadd acc (lower m)) init ↔ x ∈ init ∨ x ∈ bans.map lower := by
  induction bans generalizing init with
  | nil => simp
  | cons m ms ih =>
    rw [List.foldl_cons, ih]
    simp only [mem_sadd, List.map_cons, List.mem_cons]
    constructor
    · rintro ((rfl | h) | h)
      · exact Or.inr (Or.inl rfl)
      · exact Or.inl h
      · exact Or.inr (Or.inr h)
    · rintro (h | rfl | h)
      · exact Or.inl (Or.inr h)
      · exact Or.inl (Or.inl rfl)
      · exact Or.inr h

/-- replies about a channel the bot is not on are ignored -/
theorem late_replies_ignored {s : Srv} {b : Bot} (h : AtSrv s b) (name : Str) (hnone : aget b.channels (lower name) = none)
    (rest : List Str) :
    (b.feed ⟨s.cfg.server, "324".toList, s.bot :: name :: rest⟩).1 = b ∧
    (b.feed ⟨s.cfg.server, "329".toList, s.bot :: name :: rest⟩).1 = b ∧
    (b.feed ⟨s.cfg.server, "367".toList, s.bot :: name :: rest⟩).1 = b := by
  obtain ⟨hsv, hne⟩ := h.server
  have hchan : b.chan name = none := hnone
  refine ⟨?_, ?_, ?_⟩
  · have hfeed := feed_server (b := b) h.isup hsv hne "324".toList (name :: rest) (by simp only [Bot.ircCmd, cmdOf_324])
    rw [h.nick] at hfeed
    rw [hfeed]; simp only [Bot.stateCmd, cmdOf_324, Bot.do324, hchan]
  · have hfeed := feed_server (b := b) h.isup hsv hne "329".toList (name :: rest) (by simp only [Bot.ircCmd, cmdOf_329])
    rw [h.nick] at hfeed
    rw [hfeed]; simp only [Bot.stateCmd, cmdOf_329, Bot.do329, hchan]
  · have hfeed := feed_server (b := b) h.isup hsv hne "367".toList (name :: rest) (by simp only [Bot.ircCmd, cmdOf_367])
    rw [h.nick] at hfeed
    rw [hfeed]; simp only [Bot.stateCmd, cmdOf_367, Bot.do367, hchan]

end C10
