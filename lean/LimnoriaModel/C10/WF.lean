/-
C10 — the reference server keeps its own invariant (`SrvWF`) under every action.
-/
import LimnoriaModel.C10.Inv
namespace C10
open Py

theorem SrvWF.userOK {s : Srv} (h : SrvWF s) {k : Str} {u : SUser} (hu : aget s.users k = some u) :
    lower u.nick = k ∧ NickOK u.nick ∧ WordOK u.ident ∧ WordOK u.host :=
  let ⟨a, b, c, d⟩ := h.users k u hu
  ⟨a, nickOK_of_valid b, wordOK_of_valid c, wordOK_of_valid d⟩

/-- the invariant only looks at the configuration, the users, the channels and the bot's nick -/
theorem wf_congr {s s' : Srv} (h : SrvWF s) (h1 : s'.cfg = s.cfg) (h2 : s'.users = s.users) (h3 : s'.chans = s.chans)
    (h4 : s'.bot = s.bot) : SrvWF s' where
  cfg := by rw [h1]; exact h.cfg
  users := by rw [h2]; exact h.users
  bot := by rw [h2, h4]; exact h.bot
  chansNodup := by rw [h3]; exact h.chansNodup
  chans := by
    intro k sc hsc
    rw [h3] at hsc
    have := h.chans k sc hsc
    exact ⟨this.key, this.name, by rw [h2]; exact this.members, this.modesNodup, this.modes⟩

theorem Srv.user_eq (s : Srv) (n : Str) : s.user n = aget s.users (lower n) := rfl
theorem Srv.chan_eq (s : Srv) (n : Str) : s.chan n = aget s.chans (lower n) := rfl

/-- replacing the channel stored under `k` by one that is well-formed (users table unchanged) -/
theorem wf_setChan {s : Srv} (h : SrvWF s) (k : Str) (sc : SChan) (hsc : ChanWF s k sc) :
    SrvWF { s with chans := aset s.chans k sc } where
  cfg := h.cfg
  users := h.users
  bot := h.bot
  chansNodup := nodup_akeys_aset h.chansNodup k sc
  chans := by
    intro k' sc' hg
    rw [aget_aset] at hg
    by_cases hk : k = k'
    · subst hk
      simp only [↓reduceIte, Option.some.injEq] at hg
      subst hg
      exact ⟨hsc.key, hsc.name, hsc.members, hsc.modesNodup, hsc.modes⟩
    · simp only [hk, ↓reduceIte] at hg
      have := h.chans k' sc' hg
      exact ⟨this.key, this.name, this.members, this.modesNodup, this.modes⟩

theorem wf_delChan {s : Srv} (h : SrvWF s) (k : Str) : SrvWF { s with chans := adel s.chans k } where
  cfg := h.cfg
  users := h.users
  bot := h.bot
  chansNodup := nodup_akeys_adel h.chansNodup k
  chans := by
    intro k' sc' hg
    rw [aget_adel] at hg
    by_cases hk : k = k'
    · simp [hk] at hg
    · simp only [hk, ↓reduceIte] at hg
      have := h.chans k' sc' hg
      exact ⟨this.key, this.name, this.members, this.modesNodup, this.modes⟩

theorem wf_putChan {s : Srv} (h : SrvWF s) (k : Str) (sc : SChan) (hsc : ChanWF s k sc) :
    SrvWF (s.putChan k sc) := by
  unfold Srv.putChan
  split
  · exact wf_delChan h k
  · exact wf_setChan h k sc hsc

theorem chanWF_remove {s : Srv} {k : Str} {sc : SChan} (h : ChanWF s k sc) (x : Str) : ChanWF s k (sc.remove x) where
  key := h.key
  name := h.name
  members := fun p hp => h.members p (List.mem_filter.mp hp).1
  modesNodup := h.modesNodup
  modes := h.modes

/-! #### connect -/

theorem wf_connect {s : Srv} (h : SrvWF s) (n i ho : Str) : SrvWF (s.step (.connect n i ho)).1 := by
  simp only [Srv.step]
  split
  · rename_i hc
    simp only [Bool.and_eq_true, Option.isNone_iff_eq_none] at hc
    obtain ⟨⟨⟨hn, hi⟩, hh⟩, hfree⟩ := hc
    rw [Srv.user_eq] at hfree
    refine ⟨h.cfg, ?_, ?_, h.chansNodup, ?_⟩
    · intro k u hg
      simp only [aget_aset] at hg
      by_cases hk : lower n = k
      · simp only [hk, ↓reduceIte, Option.some.injEq] at hg
        subst hg
        exact ⟨hk, hn, hi, hh⟩
      · simp only [hk, ↓reduceIte] at hg
        exact h.users k u hg
    · obtain ⟨u, hu, hnick⟩ := h.bot
      refine ⟨u, ?_, hnick⟩
      simp only [aget_aset]
      by_cases hk : lower n = lower s.bot
      · rw [hk, hu] at hfree; cases hfree
      · simp [hk, hu]
    · intro k sc hg
      have := h.chans k sc hg
      refine ⟨this.key, this.name, ?_, this.modesNodup, this.modes⟩
      intro p hp
      simp only [aget_aset]
      by_cases hk : lower n = p.1
      · simp [hk]
      · simp only [hk, ↓reduceIte]; exact this.members p hp
  · exact h

/-! #### topic, names, who -/

theorem wf_topic {s : Srv} (h : SrvWF s) (src c t : Str) : SrvWF (s.step (.topic src c t)).1 := by
  simp only [Srv.step]
  split
  · rename_i pfx sc hsrc hch
    split
    · exact h
    · rw [Srv.chan_eq] at hch
      have hw := h.chans _ _ hch
      exact wf_setChan h _ _ ⟨hw.key, hw.name, hw.members, hw.modesNodup, hw.modes⟩
  · exact h

theorem wf_say {s : Srv} (h : SrvWF s) (n t x : Str) : SrvWF (s.step (.say n t x)).1 := by
  simp only [Srv.step]
  split
  · exact h
  · split
    · exact h
    · split
      · exact wf_congr h rfl rfl rfl rfl
      · exact h

theorem wf_isupport {s : Srv} (h : SrvWF s) : SrvWF (s.step .isupport).1 := h

theorem wf_names {s : Srv} (h : SrvWF s) (c : Str) : SrvWF (s.step (.names c)).1 := by
  simp only [Srv.step]
  split
  · split
    · exact wf_congr h rfl rfl rfl rfl
    · exact h
  · exact h

theorem wf_replyWho {s : Srv} (h : SrvWF s) (c : Str) : SrvWF (s.replyWho c).1 := by
  unfold Srv.replyWho; split
  · exact wf_congr h rfl rfl rfl rfl
  · exact h

theorem wf_replyMode {s : Srv} (h : SrvWF s) (c : Str) : SrvWF (s.replyMode c).1 := by
  unfold Srv.replyMode; split
  · exact wf_congr h rfl rfl rfl rfl
  · exact h

theorem wf_replyBans {s : Srv} (h : SrvWF s) (c : Str) : SrvWF (s.replyBans c).1 := by
  unfold Srv.replyBans; split
  · exact wf_congr h rfl rfl rfl rfl
  · exact h

theorem wf_who {s : Srv} (h : SrvWF s) (c : Str) : SrvWF (s.step (.who c)).1 := wf_replyWho h c
theorem wf_modeis {s : Srv} (h : SrvWF s) (c : Str) : SrvWF (s.step (.modeis c)).1 := wf_replyMode h c
theorem wf_banlist {s : Srv} (h : SrvWF s) (c : Str) : SrvWF (s.step (.banlist c)).1 := wf_replyBans h c

theorem wf_serve {s : Srv} (h : SrvWF s) : SrvWF (s.step .serve).1 := by
  simp only [Srv.step]
  split
  · exact h
  · rename_i c rest _
    exact wf_replyWho (s := { s with pending := rest }) (wf_congr h rfl rfl rfl rfl) c
  · rename_i c rest _
    exact wf_replyMode (s := { s with pending := rest }) (wf_congr h rfl rfl rfl rfl) c
  · rename_i c rest _
    exact wf_replyBans (s := { s with pending := rest }) (wf_congr h rfl rfl rfl rfl) c

theorem wf_enqueue {s : Srv} (h : SrvWF s) (out : List Msg) : SrvWF (s.enqueue out) := wf_congr h rfl rfl rfl rfl

/-! #### chghost -/

theorem wf_setHost {s : Srv} (h : SrvWF s) {k : Str} {u : SUser} (hu : aget s.users k = some u) {i ho : Str}
    (hi : validWord i = true) (hh : validWord ho = true) :
    SrvWF { s with users := aset s.users k { u with ident := i, host := ho } } := by
  have hv := h.users _ _ hu
  refine ⟨h.cfg, ?_, ?_, h.chansNodup, ?_⟩
  · intro k' u' hg
    simp only [aget_aset] at hg
    by_cases hk : k = k'
    · simp only [hk, ↓reduceIte, Option.some.injEq] at hg
      subst hg
      exact ⟨hk ▸ hv.1, hv.2.1, hi, hh⟩
    · simp only [hk, ↓reduceIte] at hg
      exact h.users k' u' hg
  · obtain ⟨ub, hub, hnick⟩ := h.bot
    simp only [aget_aset]
    by_cases hk : k = lower s.bot
    · refine ⟨{ u with ident := i, host := ho }, by simp [hk], ?_⟩
      rw [hk, hub] at hu; cases hu; exact hnick
    · exact ⟨ub, by simp [hk, hub], hnick⟩
  · intro k' sc hg
    have := h.chans k' sc hg
    refine ⟨this.key, this.name, ?_, this.modesNodup, this.modes⟩
    intro p hp
    simp only [aget_aset]
    by_cases hk : k = p.1
    · simp [hk]
    · simp only [hk, ↓reduceIte]; exact this.members p hp

theorem wf_chghost {s : Srv} (h : SrvWF s) (n i ho : Str) : SrvWF (s.step (.chghost n i ho)).1 := by
  simp only [Srv.step]
  split
  · exact h
  · rename_i u hu
    rw [Srv.user_eq] at hu
    split
    · exact h
    · rename_i hc
      simp only [Bool.or_eq_true, Bool.not_eq_eq_eq_not, Bool.not_true, not_or, Bool.not_eq_false] at hc
      split
      · exact wf_congr (wf_setHost h hu hc.1 hc.2) rfl rfl rfl rfl
      · split
        · exact h
        · exact wf_congr (wf_setHost h hu hc.1 hc.2) rfl rfl rfl rfl

/-! #### mode -/

theorem mem_aset {κ α : Type} [DecidableEq κ] {m : List (κ × α)} {x : κ} {v : α} {e : κ × α}
    (h : e ∈ aset m x v) : e = (x, v) ∨ e ∈ m := by
  induction m with
  | nil => simp [aset] at h; exact Or.inl h
  | cons p r ih =>
    obtain ⟨k, w⟩ := p
    unfold aset at h
    by_cases hk : k = x
    · simp only [hk, ↓reduceIte, List.mem_cons] at h
      rcases h with h | h
      · exact Or.inl h
      · exact Or.inr (List.mem_cons_of_mem _ h)
    · simp only [hk, ↓reduceIte, List.mem_cons] at h
      rcases h with h | h
      · exact Or.inr (by simp [h])
      · rcases ih h with h' | h'
        · exact Or.inl h'
        · exact Or.inr (List.mem_cons_of_mem _ h')

theorem mem_adel {κ α : Type} [DecidableEq κ] {m : List (κ × α)} {x : κ} {e : κ × α}
    (h : e ∈ adel m x) : e ∈ m := (List.mem_filter.mp h).1

theorem mem_setFlag {ms : List (Str × Flags)} {k : Str} {f : Flags → Flags} {p : Str × Flags}
    (h : p ∈ setFlag ms k f) : ∃ q ∈ ms, q.1 = p.1 := by
  unfold setFlag at h
  obtain ⟨q, hq, rfl⟩ := List.mem_map.mp h
  refine ⟨q, hq, ?_⟩
  split <;> rfl

theorem chanWF_setFlag {s : Srv} {k : Str} {sc : SChan} (h : ChanWF s k sc) (a : Str) (f : Flags → Flags) :
    ChanWF s k { sc with members := setFlag sc.members a f } where
  key := h.key
  name := h.name
  members := fun p hp => by
    obtain ⟨q, hq, e⟩ := mem_setFlag hp
    rw [← e]; exact h.members q hq
  modesNodup := h.modesNodup
  modes := h.modes

theorem chanWF_bans {s : Srv} {k : Str} {sc : SChan} (h : ChanWF s k sc) (bs : List Str) :
    ChanWF s k { sc with bans := bs } :=
  ⟨h.key, h.name, h.members, h.modesNodup, h.modes⟩

theorem chanWF_setMode {s : Srv} {k : Str} {sc : SChan} (h : ChanWF s k sc) (c : Char) (v : Option Str)
    (hv : ModeEntryOK (c, v)) : ChanWF s k { sc with modes := aset sc.modes c v } where
  key := h.key
  name := h.name
  members := h.members
  modesNodup := nodup_akeys_aset h.modesNodup c v
  modes := fun e he => by
    rcases mem_aset he with rfl | he'
    · exact hv
    · exact h.modes e he'

theorem chanWF_delMode {s : Srv} {k : Str} {sc : SChan} (h : ChanWF s k sc) (c : Char) :
    ChanWF s k { sc with modes := adel sc.modes c } where
  key := h.key
  name := h.name
  members := h.members
  modesNodup := nodup_akeys_adel h.modesNodup c
  modes := fun e he => h.modes e (mem_adel he)

theorem applyMode_wf {s : Srv} {k : Str} {sc sc' : SChan} (h : ChanWF s k sc) {c : MChange} (hc : c.ok)
    (ha : sc.applyMode c = some sc') : ChanWF s k sc' := by
  unfold SChan.applyMode at ha
  split at ha
  · -- prefix modes
    split at ha
    · cases ha
    · split at ha
      · cases ha
      · split at ha
        · cases ha; exact chanWF_setFlag h _ _
        · split at ha
          · cases ha; exact chanWF_setFlag h _ _
          · cases ha; exact chanWF_setFlag h _ _
  · split at ha
    · -- list modes
      split at ha
      · cases ha
      · split at ha
        · cases ha
        · split at ha
          · split at ha
            · split at ha
              · cases ha
              · cases ha; exact chanWF_bans h _
            · split at ha
              · cases ha; exact chanWF_bans h _
              · cases ha
          · cases ha; exact h
    · split at ha
      · -- key modes
        rename_i hkey
        split at ha
        · cases ha
        · rename_i a harg
          split at ha
          · cases ha
          · split at ha
            · cases ha
              refine chanWF_setMode h _ _ (Or.inl ⟨?_, a, rfl, hc a harg⟩)
              have : c.ch ∈ keyModes := by simpa using hkey
              simp [this]
            · split at ha
              · cases ha; exact chanWF_delMode h _
              · cases ha
      · split at ha
        · -- limit modes
          rename_i hlim
          split at ha
          · split at ha
            · cases ha
            · rename_i a harg
              split at ha
              · cases ha
                refine chanWF_setMode h _ _ (Or.inl ⟨?_, a, rfl, hc a harg⟩)
                have : c.ch ∈ limitModes := by simpa using hlim
                simp [this]
              · cases ha
          · split at ha
            · cases ha
            · split at ha
              · cases ha; exact chanWF_delMode h _
              · cases ha
        · split at ha
          · -- flags
            rename_i hflag
            split at ha
            · cases ha
            · split at ha
              · cases ha; exact chanWF_setMode h _ _ (Or.inr ⟨hflag, rfl⟩)
              · split at ha
                · cases ha; exact chanWF_delMode h _
                · cases ha
          · cases ha

theorem applyModes_wf {s : Srv} {k : Str} (cs : List MChange) {sc : SChan} (h : ChanWF s k sc)
    (hc : ∀ c ∈ cs, c.ok) : ChanWF s k (applyModes sc cs).1 := by
  induction cs generalizing sc with
  | nil => exact h
  | cons c cs ih =>
    unfold applyModes
    split
    · exact ih h (fun c' hc' => hc c' (by simp [hc']))
    · rename_i sc1 ha
      exact ih (applyMode_wf h (hc c (by simp)) ha) (fun c' hc' => hc c' (by simp [hc']))

theorem wf_mode {s : Srv} (h : SrvWF s) (src c : Str) (cs : List MChange) (hc : ∀ c ∈ cs, c.ok) :
    SrvWF (s.step (.mode src c cs)).1 := by
  simp only [Srv.step]
  split
  · rename_i pfx sc hsrc hch
    split
    · exact h
    · rw [Srv.chan_eq] at hch
      exact wf_setChan h _ _ (applyModes_wf cs (h.chans _ _ hch) hc)
  · exact h

/-! #### kick -/

theorem kickTargets_wf {s : Srv} {k : Str} (ts : List Str) {sc : SChan} (h : ChanWF s k sc) :
    ChanWF s k (kickTargets sc ts).1 := by
  induction ts generalizing sc with
  | nil => exact h
  | cons t ts ih =>
    unfold kickTargets
    split
    · exact ih (chanWF_remove h _)
    · exact ih h

theorem wf_kick {s : Srv} (h : SrvWF s) (src c : Str) (ts : List Str) (r : Str) :
    SrvWF (s.step (.kick src c ts r)).1 := by
  simp only [Srv.step]
  split
  · rename_i pfx sc hsrc hch
    split
    · exact h
    · split
      · exact h
      · rw [Srv.chan_eq] at hch
        exact wf_putChan h _ _ (kickTargets_wf ts (h.chans _ _ hch))
  · exact h

/-! #### part -/

theorem leave_wf (k : Str) (cs : List Str) {s : Srv} (h : SrvWF s) : SrvWF (s.leave k cs).1 := by
  induction cs generalizing s with
  | nil => exact h
  | cons c cs ih =>
    unfold Srv.leave
    split
    · exact ih h
    · rename_i sc hch
      split
      · rw [Srv.chan_eq] at hch
        exact ih (wf_putChan h _ _ (chanWF_remove (h.chans _ _ hch) _))
      · exact ih h

theorem wf_part {s : Srv} (h : SrvWF s) (n : Str) (cs : List Str) (r : Option Str) :
    SrvWF (s.step (.part n cs r)).1 := by
  simp only [Srv.step]
  split
  · exact h
  · split
    · exact h
    · exact leave_wf _ cs h

/-! #### join -/

theorem enter_wf {s s1 : Srv} {k name name' : Str} (h : SrvWF s) (hk : (aget s.users k).isSome)
    (he : s.enter k name = some (s1, name')) : SrvWF s1 := by
  unfold Srv.enter at he
  split at he
  · cases he
  · rename_i hv
    simp only [Bool.not_eq_eq_eq_not, Bool.not_true, Bool.not_eq_false] at hv
    split at he
    · cases he
      exact wf_setChan h _ _ ⟨rfl, hv, by intro p hp; simp at hp; subst hp; exact hk, by simp [akeys], by simp⟩
    · rename_i sc hch
      split at he
      · cases he
      · cases he
        rw [Srv.chan_eq] at hch
        have hw := h.chans _ _ hch
        refine wf_setChan h _ _ ⟨hw.key, hw.name, ?_, hw.modesNodup, hw.modes⟩
        intro p hp
        simp only [List.mem_append, List.mem_singleton] at hp
        rcases hp with hp | rfl
        · exact hw.members p hp
        · exact hk

theorem enter_users {s s1 : Srv} {k name name' : Str} (he : s.enter k name = some (s1, name')) :
    s1.users = s.users ∧ s1.bot = s.bot ∧ s1.cfg = s.cfg := by
  unfold Srv.enter at he
  split at he
  · cases he
  · split at he
    · cases he; exact ⟨rfl, rfl, rfl⟩
    · split at he
      · cases he
      · cases he; exact ⟨rfl, rfl, rfl⟩

theorem joinOthers_wf (k : Str) (cs : List Str) {s : Srv} (h : SrvWF s) (hk : (aget s.users k).isSome) :
    SrvWF (s.joinOthers k cs).1 := by
  induction cs generalizing s with
  | nil => exact h
  | cons c cs ih =>
    unfold Srv.joinOthers
    split
    · exact ih h hk
    · rename_i s1 name he
      exact ih (enter_wf h hk he) (by rw [(enter_users he).1]; exact hk)

theorem joinBot_wf (u : SUser) (cs : List Str) {s : Srv} (h : SrvWF s) : SrvWF (s.joinBot u cs).1 := by
  induction cs generalizing s with
  | nil => exact h
  | cons c cs ih =>
    unfold Srv.joinBot
    split
    · exact ih h
    · rename_i s1 name he
      obtain ⟨ub, hub, _⟩ := h.bot
      have h1 : SrvWF s1 := enter_wf h (by simp [Srv.botKey, hub]) he
      split
      · exact ih h1
      · exact ih (wf_congr h1 rfl rfl rfl rfl)

theorem wf_join {s : Srv} (h : SrvWF s) (n : Str) (cs : List Str) : SrvWF (s.step (.join n cs)).1 := by
  simp only [Srv.step]
  split
  · exact h
  · rename_i u hu
    rw [Srv.user_eq] at hu
    split
    · exact joinBot_wf u cs h
    · have := joinOthers_wf (lower n) cs h (by simp [hu])
      split
      · exact this
      · exact wf_congr this rfl rfl rfl rfl

/-! #### quit, nick, reconnect -/

theorem aget_dropEverywhere {s : Srv} (hn : (akeys s.chans).Nodup) (k k' : Str) :
    aget (s.dropEverywhere k).chans k' =
      ((aget s.chans k').map (fun sc => sc.remove k)).filter (fun sc => !sc.members.isEmpty) := by
  unfold Srv.dropEverywhere
  simp only
  have hn' : (akeys (s.chans.map (fun p => (p.1, p.2.remove k)))).Nodup := by
    rw [akeys_mapVal s.chans (fun p => p.2.remove k)]; exact hn
  rw [aget_filter_nodup hn' (fun sc => !sc.members.isEmpty)]
  rw [aget_mapVal s.chans (fun _ sc => sc.remove k)]

theorem nodup_dropEverywhere {s : Srv} (hn : (akeys s.chans).Nodup) (k : Str) :
    (akeys (s.dropEverywhere k).chans).Nodup := by
  unfold Srv.dropEverywhere
  simp only
  apply nodup_akeys_filter
  rw [akeys_mapVal s.chans (fun p => p.2.remove k)]; exact hn

theorem dropEverywhere_chan {s : Srv} (hn : (akeys s.chans).Nodup) {k k' : Str} {sc' : SChan}
    (h : aget (s.dropEverywhere k).chans k' = some sc') :
    ∃ sc, aget s.chans k' = some sc ∧ sc' = sc.remove k := by
  rw [aget_dropEverywhere hn] at h
  cases hg : aget s.chans k' with
  | none => simp [hg] at h
  | some sc =>
    simp only [hg, Option.map_some, Option.filter] at h
    split at h
    · cases h; exact ⟨sc, rfl, rfl⟩
    · cases h

theorem remove_not_mem {sc : SChan} {k : Str} {p : Str × Flags} (h : p ∈ (sc.remove k).members) :
    p ∈ sc.members ∧ p.1 ≠ k := by
  unfold SChan.remove at h
  simp only [List.mem_filter, bne_iff_ne, ne_eq] at h
  exact h

theorem wf_quit {s : Srv} (h : SrvWF s) (n r : Str) : SrvWF (s.step (.quit n r)).1 := by
  simp only [Srv.step]
  split
  · exact h
  · rename_i u hu
    split
    · exact h
    · rename_i hc
      simp only [Bool.or_eq_true, decide_eq_true_eq, Bool.not_eq_eq_eq_not, Bool.not_true, not_or, Bool.not_eq_false] at hc
      obtain ⟨hnb, _⟩ := hc
      refine ⟨h.cfg, ?_, ?_, nodup_dropEverywhere h.chansNodup _, ?_⟩
      · intro k u' hg
        have e : ({ s.dropEverywhere (lower n) with users := adel s.users (lower n) } : Srv).users = adel s.users (lower n) := rfl
        rw [e, aget_adel] at hg
        by_cases hk : lower n = k
        · simp [hk] at hg
        · simp only [hk, ↓reduceIte] at hg; exact h.users k u' hg
      · obtain ⟨ub, hub, hnick⟩ := h.bot
        refine ⟨ub, ?_, hnick⟩
        show aget (adel s.users (lower n)) (lower s.bot) = some ub
        rw [aget_adel]
        have : ¬ lower n = lower s.bot := hnb
        simp [this, hub]
      · intro k sc' hg
        obtain ⟨sc, hsc, rfl⟩ := dropEverywhere_chan h.chansNodup hg
        have hw := chanWF_remove (h.chans k sc hsc) (lower n)
        refine ⟨hw.key, hw.name, ?_, hw.modesNodup, hw.modes⟩
        intro p hp
        have hp' := remove_not_mem hp
        show (aget (adel s.users (lower n)) p.1).isSome
        rw [aget_adel]
        have : ¬ lower n = p.1 := fun e => hp'.2 e.symm
        simp only [this, ↓reduceIte]
        exact (h.chans k sc hsc).members p hp'.1

theorem mem_renameKey {ms : List (Str × Flags)} {o n : Str} {p : Str × Flags} (h : p ∈ renameKey ms o n) :
    (p.1 = n ∧ ∃ q ∈ ms, q.1 = o) ∨ (p ∈ ms ∧ p.1 ≠ o) := by
  unfold renameKey at h
  obtain ⟨q, hq, rfl⟩ := List.mem_map.mp h
  by_cases hqo : q.1 = o
  · simp only [hqo, ↓reduceIte]; exact Or.inl ⟨trivial, q, hq, hqo⟩
  · simp only [hqo, ↓reduceIte]; exact Or.inr ⟨hq, hqo⟩

theorem wf_nick {s : Srv} (h : SrvWF s) (n n' : Str) : SrvWF (s.step (.nick n n')).1 := by
  simp only [Srv.step]
  split
  · exact h
  · rename_i u hu
    rw [Srv.user_eq] at hu
    split
    · exact h
    · rename_i hc
      simp only [Bool.or_eq_true, Bool.not_eq_eq_eq_not, Bool.not_true, decide_eq_true_eq, Bool.and_eq_true,
        bne_iff_ne, ne_eq, not_or, Bool.not_eq_false, not_and, Bool.not_eq_true, Option.isSome_eq_false_iff,
        Option.isNone_iff_eq_none] at hc
      obtain ⟨⟨hvn, hne⟩, hfree⟩ := hc
      rw [Srv.user_eq] at hfree
      have hv := h.users _ _ hu
      have husers : ∀ k, aget (aset (adel s.users (lower n)) (lower n') { u with nick := n' }) k =
          if lower n' = k then some { u with nick := n' } else if lower n = k then none else aget s.users k := by
        intro k; rw [aget_aset, aget_adel]
      refine ⟨h.cfg, ?_, ?_, ?_, ?_⟩
      · intro k u' hg
        simp only [husers] at hg
        by_cases hk : lower n' = k
        · simp only [hk, ↓reduceIte, Option.some.injEq] at hg
          subst hg
          exact ⟨hk, hvn, hv.2.2.1, hv.2.2.2⟩
        · simp only [hk, ↓reduceIte] at hg
          by_cases hk2 : lower n = k
          · simp [hk2] at hg
          · simp only [hk2, ↓reduceIte] at hg; exact h.users k u' hg
      · obtain ⟨ub, hub, hnick⟩ := h.bot
        by_cases hb : lower n = s.botKey
        · refine ⟨{ u with nick := n' }, ?_, ?_⟩
          · show aget (aset (adel s.users (lower n)) (lower n') { u with nick := n' })
                (lower (if lower n = s.botKey then n' else s.bot)) = _
            simp only [hb, ↓reduceIte, aget_aset_self]
          · show n' = if lower n = s.botKey then n' else s.bot
            simp only [hb, ↓reduceIte]
        · refine ⟨ub, ?_, ?_⟩
          · show aget (aset (adel s.users (lower n)) (lower n') { u with nick := n' })
                (lower (if lower n = s.botKey then n' else s.bot)) = _
            have h1 : ¬ lower n = lower s.bot := hb
            have h2 : ¬ lower n' = lower s.bot := by
              intro e
              by_cases hsame : lower n' = lower n
              · exact h1 (hsame ▸ e)
              · have := hfree hsame
                rw [e, hub] at this; cases this
            simp only [hb, ↓reduceIte, husers, h1, h2, hub]
          · show ub.nick = if lower n = s.botKey then n' else s.bot
            simp only [hb, ↓reduceIte, hnick]
      · show (akeys (s.chans.map (fun p => (p.1, { p.2 with members := renameKey p.2.members (lower n) (lower n') })))).Nodup
        rw [akeys_mapVal s.chans (fun p => { p.2 with members := renameKey p.2.members (lower n) (lower n') })]
        exact h.chansNodup
      · intro k sc' hg
        have hg' : aget (s.chans.map (fun p => (p.1, { p.2 with members := renameKey p.2.members (lower n) (lower n') }))) k = some sc' := hg
        rw [aget_mapVal s.chans (fun _ sc => { sc with members := renameKey sc.members (lower n) (lower n') })] at hg'
        cases hsc : aget s.chans k with
        | none => simp [hsc] at hg'
        | some sc =>
          simp only [hsc, Option.map_some, Option.some.injEq] at hg'
          subst hg'
          have hw := h.chans k sc hsc
          refine ⟨hw.key, hw.name, ?_, hw.modesNodup, hw.modes⟩
          intro p hp
          simp only [husers]
          rcases mem_renameKey hp with ⟨hp1, _⟩ | ⟨hp1, hp2⟩
          · simp [hp1]
          · by_cases hk : lower n' = p.1
            · simp [hk]
            · have : ¬ lower n = p.1 := fun e => hp2 e.symm
              simp only [hk, ↓reduceIte, this]
              exact hw.members p hp1

theorem wf_reconnect {s : Srv} (h : SrvWF s) : SrvWF (s.step .reconnect).1 := by
  simp only [Srv.step]
  split
  · exact h
  · rename_i u hu
    split
    · exact h
    · rename_i hc
      simp only [Bool.and_eq_true, bne_iff_ne, ne_eq, not_and, Bool.not_eq_true, Option.isSome_eq_false_iff,
        Option.isNone_iff_eq_none] at hc
      rw [Srv.user_eq] at hc
      have hv := h.users _ _ hu
      have hcfg := cfgOK_of_valid h.cfg
      have hvn : validNick s.cfg.botNick = true := hcfg.nick
      have hde : (s.dropEverywhere s.botKey).users = s.users := rfl
      have husers : ∀ k, aget (aset (adel (s.dropEverywhere s.botKey).users s.botKey) (lower s.cfg.botNick) { u with nick := s.cfg.botNick }) k =
          if lower s.cfg.botNick = k then some { u with nick := s.cfg.botNick } else if s.botKey = k then none else aget s.users k := by
        intro k; rw [aget_aset, aget_adel, hde]
      refine ⟨h.cfg, ?_, ?_, nodup_dropEverywhere h.chansNodup _, ?_⟩
      · intro k u' hg
        simp only [husers] at hg
        by_cases hk : lower s.cfg.botNick = k
        · simp only [hk, ↓reduceIte, Option.some.injEq] at hg
          subst hg
          exact ⟨hk, hvn, hv.2.2.1, hv.2.2.2⟩
        · simp only [hk, ↓reduceIte] at hg
          by_cases hk2 : s.botKey = k
          · simp [hk2] at hg
          · simp only [hk2, ↓reduceIte] at hg; exact h.users k u' hg
      · exact ⟨{ u with nick := s.cfg.botNick }, by simp [husers], rfl⟩
      · intro k sc' hg
        obtain ⟨sc, hsc, rfl⟩ := dropEverywhere_chan h.chansNodup hg
        have hw := chanWF_remove (h.chans k sc hsc) s.botKey
        refine ⟨hw.key, hw.name, ?_, hw.modesNodup, hw.modes⟩
        intro p hp
        have hp' := remove_not_mem hp
        simp only [husers]
        by_cases hk : lower s.cfg.botNick = p.1
        · simp [hk]
        · have : ¬ s.botKey = p.1 := fun e => hp'.2 e.symm
          simp only [hk, ↓reduceIte, this]
          exact (h.chans k sc hsc).members p hp'.1

/-- the reference server's invariant is preserved by every action -/
theorem wf_step {s : Srv} (h : SrvWF s) (a : Act) (ha : a.ok) : SrvWF (s.step a).1 := by
  cases a with
  | connect n i ho => exact wf_connect h n i ho
  | join n cs => exact wf_join h n cs
  | part n cs r => exact wf_part h n cs r
  | kick src c ts r => exact wf_kick h src c ts r
  | quit n r => exact wf_quit h n r
  | nick n n' => exact wf_nick h n n'
  | mode src c cs => exact wf_mode h src c cs ha
  | topic src c t => exact wf_topic h src c t
  | chghost n i ho => exact wf_chghost h n i ho
  | say n t x => exact wf_say h n t x
  | isupport => exact wf_isupport h
  | names c => exact wf_names h c
  | who c => exact wf_who h c
  | modeis c => exact wf_modeis h c
  | banlist c => exact wf_banlist h c
  | serve => exact wf_serve h
  | reconnect => exact wf_reconnect h

theorem wf_init (cfg : Cfg) (hv : cfg.valid = true) : SrvWF (Srv.init cfg) := by
  have hcfg := cfgOK_of_valid hv
  refine ⟨hv, ?_, ?_, by simp [Srv.init, akeys], ?_⟩
  · intro k u hg
    simp only [Srv.init, aget_cons, aget_nil] at hg
    split at hg
    · rename_i hk
      cases hg
      exact ⟨hk, hcfg.nick, hcfg.ident, hcfg.host⟩
    · cases hg
  · exact ⟨⟨cfg.botNick, cfg.botIdent, cfg.botHost⟩, by simp [Srv.init, aget_cons], rfl⟩
  · intro k sc hg
    simp [Srv.init] at hg

end C10
