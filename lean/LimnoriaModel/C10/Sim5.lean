/-
C10 — simulation, part 5: NICK (including the bot's own nick change and case-only changes).
-/
import LimnoriaModel.C10.Sim4
namespace C10
open Py

theorem mem_renameKey_iff {ms : List (Str × Flags)} {k k' x : Str} {f : Flags} :
    (x, f) ∈ renameKey ms k k' ↔ (x = k' ∧ (k, f) ∈ ms) ∨ ((x, f) ∈ ms ∧ x ≠ k) := by
  unfold renameKey
  simp only [List.mem_map]
  constructor
  · rintro ⟨⟨a, g⟩, hq, he⟩
    by_cases hak : a = k
    · subst hak
      simp only [↓reduceIte, Prod.mk.injEq] at he
      obtain ⟨rfl, rfl⟩ := he
      exact Or.inl ⟨rfl, hq⟩
    · simp only [hak, ↓reduceIte, Prod.mk.injEq] at he
      obtain ⟨rfl, rfl⟩ := he
      exact Or.inr ⟨hq, hak⟩
  · rintro (⟨rfl, hq⟩ | ⟨hq, hx⟩)
    · exact ⟨(k, f), hq, by simp⟩
    · exact ⟨(x, f), hq, by simp [hx]⟩

theorem mem_replaceIn {S : List Str} {k k' x : Str} :
    x ∈ replaceIn S k k' ↔ (k ∈ S ∧ (x = k' ∨ (x ≠ k ∧ x ∈ S))) ∨ (k ∉ S ∧ x ∈ S) := by
  unfold replaceIn
  by_cases h : k ∈ S
  · simp [h]
  · simp [h]

theorem Tracks.rename {full : Prop} {S : List Str} {ms : List (Str × Flags)} {P : Flags → Prop}
    (h : Tracks full S ms P) (k k' : Str) : Tracks full (replaceIn S k k') (renameKey ms k k') P where
  sub := fun x hx => by
    simp only [mem_renameKey_iff]
    rcases mem_replaceIn.mp hx with ⟨hk, rfl | ⟨hxk, hxS⟩⟩ | ⟨_, hxS⟩
    · obtain ⟨f, hf, hp⟩ := h.sub k hk
      exact ⟨f, Or.inl ⟨rfl, hf⟩, hp⟩
    · obtain ⟨f, hf, hp⟩ := h.sub x hxS
      exact ⟨f, Or.inr ⟨hf, hxk⟩, hp⟩
    · obtain ⟨f, hf, hp⟩ := h.sub x hxS
      by_cases hxk : x = k
      · subst hxk; rename_i hk; exact absurd hxS hk
      · exact ⟨f, Or.inr ⟨hf, hxk⟩, hp⟩
  sup := fun hfull x ⟨f, hf, hp⟩ => by
    rw [mem_replaceIn]
    rcases mem_renameKey_iff.mp hf with ⟨hx, hf2⟩ | ⟨hf2, hxk⟩
    · exact Or.inl ⟨h.sup hfull k ⟨f, hf2, hp⟩, Or.inl hx⟩
    · by_cases hk : k ∈ S
      · exact Or.inl ⟨hk, Or.inr ⟨hxk, h.sup hfull x ⟨f, hf2, hp⟩⟩⟩
      · exact Or.inr ⟨hk, h.sup hfull x ⟨f, hf2, hp⟩⟩

theorem chanMatches_rename {mp ms bs : Bool} {sc : SChan} {ch : Chan} (h : ChanMatches mp ms bs sc ch) (o n : Str) :
    ChanMatches mp ms bs { sc with members := renameKey sc.members (lower o) (lower n) } (ch.replaceUser o n) :=
  ⟨h.users.rename _ _, h.ops.rename _ _, h.halfops.rename _ _, h.voices.rename _ _, h.topic, h.modes, h.modesFull,
    h.bans, h.bansFull⟩

theorem has_rename {sc : SChan} {k k' x : Str} :
    ({ sc with members := renameKey sc.members k k' } : SChan).has x = true ↔
      (x = k' ∧ sc.has k = true) ∨ (x ≠ k ∧ sc.has x = true) := by
  simp only [has_iff, mem_renameKey_iff]
  constructor
  · rintro ⟨f, ⟨rfl, hf⟩ | ⟨hf, hx⟩⟩
    · exact Or.inl ⟨rfl, f, hf⟩
    · exact Or.inr ⟨hx, f, hf⟩
  · rintro (⟨rfl, f, hf⟩ | ⟨hx, f, hf⟩)
    · exact ⟨f, Or.inl ⟨rfl, hf⟩⟩
    · exact ⟨f, Or.inr ⟨hf, hx⟩⟩

/-- a nick that is not a key of the users table is on no channel -/
theorem not_has_of_free {s : Srv} (hw : SrvWF s) {kc : Str} {sc : SChan} (hsc : aget s.chans kc = some sc)
    {x : Str} (hx : aget s.users x = none) : sc.has x = false := by
  rw [has_false_iff]
  intro f hf
  have := (hw.chans kc sc hsc).members (x, f) hf
  rw [hx] at this; cases this

theorem replaceUser_absent {mp ms bs : Bool} {sc : SChan} {ch : Chan} (h : ChanMatches mp ms bs sc ch) {o n : Str}
    (ho : lower o ∉ ch.users) : ch.replaceUser o n = ch := by
  have hno : ∀ f, (lower o, f) ∉ sc.members := fun f hf => ho ((h.users_iff _).mpr ⟨f, hf⟩)
  have h1 : lower o ∉ ch.ops := fun hx => by obtain ⟨f, hf, _⟩ := h.ops.sub _ hx; exact hno f hf
  have h2 : lower o ∉ ch.halfops := fun hx => by obtain ⟨f, hf, _⟩ := h.halfops.sub _ hx; exact hno f hf
  have h3 : lower o ∉ ch.voices := fun hx => by obtain ⟨f, hf, _⟩ := h.voices.sub _ hx; exact hno f hf
  simp [Chan.replaceUser, replaceIn, ho, h1, h2, h3]

theorem coupled_nick {s : Srv} {b : Bot} (hw : SrvWF s) (hc : Coupled s b) (n n' : Str) :
    Coupled (s.step (.nick n n')).1 (b.recvAll (s.step (.nick n n')).2) := by
  simp only [Srv.step]
  split
  · exact hc
  · rename_i u hu
    rw [Srv.user_eq] at hu
    split
    · exact hc
    · rename_i hcond
      simp only [Bool.or_eq_true, Bool.not_eq_eq_eq_not, Bool.not_true, decide_eq_true_eq, Bool.and_eq_true,
        bne_iff_ne, ne_eq, not_or, Bool.not_eq_false, not_and, Bool.not_eq_true, Option.isSome_eq_false_iff,
        Option.isNone_iff_eq_none] at hcond
      obtain ⟨⟨hvn, hne⟩, hfree⟩ := hcond
      rw [Srv.user_eq] at hfree
      have hkey := (hw.userOK hu).1
      have huo := hw.uok hu
      have hno := nickOK_of_valid hvn
      have hbn : NickOK b.nick := by rw [hc.nick]; exact hw.botNickOK
      obtain ⟨ub, hub, hubn⟩ := hw.bot
      have hub' : aget s.users s.botKey = some ub := hub
      -- the new state
      generalize hs' : ({ s with users := aset (adel s.users (lower n)) (lower n') { u with nick := n' }, chans := s.chans.map (fun p => (p.1, { p.2 with members := renameKey p.2.members (lower n) (lower n') })), bot := if lower n = s.botKey then n' else s.bot, told := if (decide (lower n = s.botKey) || s.visible (lower n)) = true then sadd (sdel s.told (lower n)) (lower n') else sdel (sdel s.told (lower n)) (lower n') } : Srv) = s'
      have hchans' : ∀ kc, aget s'.chans kc = (aget s.chans kc).map
          (fun sc => { sc with members := renameKey sc.members (lower n) (lower n') }) := by
        intro kc; subst hs'
        exact aget_mapVal s.chans (fun _ sc => { sc with members := renameKey sc.members (lower n) (lower n') }) kc
      have husers' : ∀ x, aget s'.users x = if lower n' = x then some { u with nick := n' }
          else if lower n = x then none else aget s.users x := by
        intro x; subst hs'; show aget (aset (adel s.users (lower n)) (lower n') _) x = _
        rw [aget_aset, aget_adel]
      have hbk' : s'.botKey = if lower n = s.botKey then lower n' else s.botKey := by
        subst hs'
        show lower (if lower n = s.botKey then n' else s.bot) = _
        by_cases h : lower n = s.botKey
        · rw [if_pos h, if_pos h]
        · rw [if_neg h, if_neg h]; rfl
      have hcfg' : s'.cfg = s.cfg := by subst hs'; rfl
      have hms' : s'.modesSynced = s.modesSynced := by subst hs'; rfl
      have hbs' : s'.bansSynced = s.bansSynced := by subst hs'; rfl
      have htold' : s'.told = if (decide (lower n = s.botKey) || s.visible (lower n)) = true
          then sadd (sdel s.told (lower n)) (lower n') else sdel (sdel s.told (lower n)) (lower n') := by subst hs'; rfl
      have hnd' : (akeys s'.chans).Nodup := by
        subst hs'
        show (akeys (s.chans.map (fun p => (p.1, { p.2 with members := renameKey p.2.members (lower n) (lower n') })))).Nodup
        rw [akeys_mapVal s.chans (fun p => { p.2 with members := renameKey p.2.members (lower n) (lower n') })]
        exact hw.chansNodup
      -- the bot is on the renamed channel iff it was on the old one
      have hbotin : ∀ kc sc, aget s.chans kc = some sc →
          (({ sc with members := renameKey sc.members (lower n) (lower n') } : SChan).has s'.botKey = true ↔ sc.has s.botKey = true) := by
        intro kc sc hsc
        rw [hbk', has_rename]
        by_cases hown : lower n = s.botKey
        · simp only [hown, ↓reduceIte, true_and]
          constructor
          · rintro (h | ⟨hx, h⟩)
            · exact h
            · have hfr := hfree (by rw [hown]; exact hx)
              rw [not_has_of_free hw hsc hfr] at h; cases h
          · intro h; exact Or.inl h
        · simp only [hown, ↓reduceIte]
          constructor
          · rintro (⟨_, _⟩ | ⟨_, h⟩)
            · rename_i e _
              by_cases hsame : lower n' = lower n
              · exact absurd (e.trans hsame).symm hown
              · have hfr := hfree hsame
                rw [← e, hub'] at hfr; cases hfr
            · exact h
          · intro h; exact Or.inr ⟨fun e => hown e.symm, h⟩
      -- membership of other nicks is unchanged
      have hother : ∀ (sc : SChan) x, x ≠ lower n → x ≠ lower n' →
          (({ sc with members := renameKey sc.members (lower n) (lower n') } : SChan).has x = true ↔ sc.has x = true) := by
        intro sc x h1 h2
        rw [has_rename]; simp [h1, h2]
      have hnewkey : ∀ kc sc, aget s.chans kc = some sc →
          (({ sc with members := renameKey sc.members (lower n) (lower n') } : SChan).has (lower n') = true ↔ sc.has (lower n) = true) := by
        intro kc sc hsc
        rw [has_rename]
        constructor
        · rintro (⟨_, h⟩ | ⟨hx, h⟩)
          · exact h
          · rw [not_has_of_free hw hsc (hfree hx)] at h; cases h
        · intro h; exact Or.inl ⟨rfl, h⟩
      -- visibility in the new state comes from visibility in the old one
      have hvis_other : ∀ x, x ≠ lower n → x ≠ lower n' → s'.visible x = true → s.visible x = true := by
        intro x h1 h2 hv
        obtain ⟨kc, sc', hsc', hb1, hb2⟩ := (visible_iff hnd').mp hv
        rw [hchans'] at hsc'
        cases hsc : aget s.chans kc with
        | none => rw [hsc] at hsc'; cases hsc'
        | some sc =>
          rw [hsc] at hsc'; simp only [Option.map_some, Option.some.injEq] at hsc'; subst hsc'
          exact (visible_iff hw.chansNodup).mpr ⟨kc, sc, hsc, (hbotin kc sc hsc).mp hb1, (hother sc x h1 h2).mp hb2⟩
      have hvis_new : s'.visible (lower n') = true → s.visible (lower n) = true := by
        intro hv
        obtain ⟨kc, sc', hsc', hb1, hb2⟩ := (visible_iff hnd').mp hv
        rw [hchans'] at hsc'
        cases hsc : aget s.chans kc with
        | none => rw [hsc] at hsc'; cases hsc'
        | some sc =>
          rw [hsc] at hsc'; simp only [Option.map_some, Option.some.injEq] at hsc'; subst hsc'
          exact (visible_iff hw.chansNodup).mpr ⟨kc, sc, hsc, (hbotin kc sc hsc).mp hb1, (hnewkey kc sc hsc).mp hb2⟩
      -- channels: shared by both cases
      have hchansrel : ∀ (b1 : Bot),
          (∀ kc, aget b1.channels kc = (aget b.channels kc).map (fun c => c.replaceUser u.nick n')) →
          ∀ kc, ChanRel s' kc (aget s'.chans kc) (aget b1.channels kc) := by
        intro b1 h6 kc
        rw [hchans', h6 kc]
        have hrel := hc.chans kc
        cases hsc : aget s.chans kc with
        | none =>
          rw [hsc] at hrel
          cases hbc : aget b.channels kc with
          | none => trivial
          | some ch => rw [hbc] at hrel; simp only [ChanRel] at hrel
        | some sc =>
          rw [hsc] at hrel
          cases hbc : aget b.channels kc with
          | none =>
            rw [hbc] at hrel
            simp only [ChanRel] at hrel
            simp only [Option.map_some, Option.map_none, ChanRel]
            rw [← Bool.not_eq_true, hbotin kc sc hsc, hrel]; simp
          | some ch =>
            rw [hbc] at hrel
            simp only [ChanRel] at hrel
            simp only [Option.map_some, ChanRel]
            refine ⟨(hbotin kc sc hsc).mpr hrel.1, ?_⟩
            have := chanMatches_rename hrel.2 u.nick n'
            rw [hkey] at this
            simp only [Srv.mSynced, Srv.bSynced, hcfg', hms', hbs']
            exact this
      by_cases hsee : (decide (lower n = s.botKey) || s.visible (lower n)) = true
      · -- the bot receives the NICK
        simp only [hsee, ↓reduceIte, recvAll_cons, recv_emit, recvAll_nil]
        have hne' : u.mask ≠ b.nick := mask_ne_nick hbn
        have hnick_ne : n'.isEmpty = false := by
          cases hb : n' with
          | nil => exact absurd hb hno.ne
          | cons _ _ => rfl
        have hid_ne : u.ident.isEmpty = false := by
          cases hb : u.ident with
          | nil => exact absurd hb huo.ident.ne
          | cons _ _ => rfl
        have hho_ne : u.host.isEmpty = false := by
          cases hb : u.host with
          | nil => exact absurd hb huo.host.ne
          | cons _ _ => rfl
        have hfeed : (b.feed ⟨u.mask, "NICK".toList, [n']⟩).1 =
            { b with nick := if u.nick = b.nick then n' else b.nick,
                     pfx := if u.nick = b.nick then mkHostmask n' u.ident u.host else b.pfx,
                     n2h := aset (adel b.n2h (lower u.nick)) (lower n') (mkHostmask n' u.ident u.host),
                     channels := amapAll b.channels (fun c => c.replaceUser u.nick n') } := by
          have hirc : ((b.pfxUpd ⟨u.mask, "NICK".toList, [n']⟩).ircCmd ⟨u.mask, "NICK".toList, [n']⟩) =
              ({ b with nick := if u.nick = b.nick then n' else b.nick,
                        pfx := if u.nick = b.nick then mkHostmask n' u.ident u.host else b.pfx }, false) := by
            rw [pfxUpd_user huo]
            simp only [Bot.ircCmd, cmdOf_NICK, Bot.ircNick, msg_nick_user huo, split_mask huo]
            by_cases e : u.nick = b.nick
            · simp [e, hnick_ne, hid_ne, hho_ne]
            · simp [e]
          rw [feed_plain b _ (tagOK_of_ok hc.isup _) hne' (setters_out_ok "NICK".toList (by decide)) (by rw [hirc])]
          rw [hirc]
          simp only [Bot.prelude, bne_self_eq_false, Bool.and_false, Bool.false_eq_true, ↓reduceIte,
            Bot.stateCmd, cmdOf_NICK, Bot.doNick, msg_nick_user huo, msg_user_user huo, msg_host_user huo,
            hid_ne, hho_ne, hnick_ne, Bool.not_false, Bool.and_self]
        rw [hfeed]
        have hmask : mkHostmask n' u.ident u.host = ({ u with nick := n' } : SUser).mask := rfl
        refine ⟨?_, ?_, ?_, ?_, by rw [hcfg']; exact hc.cfgNick, by rw [hcfg']; exact hc.cfgIdent, hc.isup⟩
        · subst hs'
          show (if u.nick = b.nick then n' else b.nick) = if lower n = s.botKey then n' else s.bot
          by_cases hown : lower n = s.botKey
          · rw [if_pos ((own_iff hw hc hu).mpr hown), if_pos hown]
          · have : ¬ u.nick = b.nick := fun e => hown ((own_iff hw hc hu).mp e)
            rw [if_neg this, if_neg hown]; exact hc.nick
        · apply hchansrel
          intro kc
          show aget (amapAll b.channels (fun c => c.replaceUser u.nick n')) kc = _
          rw [aget_amapAll]
        · intro x ux hux hv
          rw [husers'] at hux
          rw [htold', if_pos hsee] at hv
          show aget (aset (adel b.n2h (lower u.nick)) (lower n') (mkHostmask n' u.ident u.host)) x = _
          rw [aget_aset, aget_adel, hkey]
          by_cases h1 : lower n' = x
          · simp only [h1, ↓reduceIte, Option.some.injEq] at hux ⊢
            subst hux; rfl
          · simp only [h1, ↓reduceIte] at hux ⊢
            by_cases h2 : lower n = x
            · simp [h2] at hux
            · simp only [h2, ↓reduceIte] at hux ⊢
              rcases mem_sadd.mp hv with e | e
              · exact absurd e.symm h1
              · exact hc.hosts x ux hux (mem_sdel.mp e).2
        · intro kc sc' hsc' hb'
          rw [hchans'] at hsc'
          cases hsc : aget s.chans kc with
          | none => rw [hsc] at hsc'; cases hsc'
          | some sc =>
            rw [hsc] at hsc'; simp only [Option.map_some, Option.some.injEq] at hsc'; subst hsc'
            have hbin := (hbotin kc sc hsc).mp hb'
            obtain ⟨ub0, hub0, hp0⟩ := hc.pfx kc sc hsc hbin
            rw [hbk', husers']
            by_cases hown : lower n = s.botKey
            · simp only [hown, ↓reduceIte]
              refine ⟨_, rfl, ?_⟩
              show (if u.nick = b.nick then mkHostmask n' u.ident u.host else b.pfx) = _
              rw [if_pos ((own_iff hw hc hu).mpr hown)]; rfl
            · have h1 : ¬ lower n' = s.botKey := by
                intro e
                by_cases hsame : lower n' = lower n
                · exact hown (hsame ▸ e)
                · have hfr := hfree hsame
                  rw [e, hub'] at hfr; cases hfr
              simp only [hown, ↓reduceIte, h1]
              refine ⟨ub0, hub0, ?_⟩
              show (if u.nick = b.nick then mkHostmask n' u.ident u.host else b.pfx) = _
              have : ¬ u.nick = b.nick := fun e => hown ((own_iff hw hc hu).mp e)
              rw [if_neg this]; exact hp0
      · -- nobody the bot can see changed nick
        have hsee' : (decide (lower n = s.botKey) || s.visible (lower n)) = false := by simpa using hsee
        simp only [hsee', Bool.false_eq_true, ↓reduceIte, recvAll_nil]
        simp only [Bool.or_eq_false_iff, decide_eq_false_iff_not] at hsee'
        obtain ⟨hown, hinv⟩ := hsee'
        refine ⟨?_, ?_, ?_, ?_, by rw [hcfg']; exact hc.cfgNick, by rw [hcfg']; exact hc.cfgIdent, hc.isup⟩
        · subst hs'
          show b.nick = if lower n = s.botKey then n' else s.bot
          rw [if_neg hown]; exact hc.nick
        · apply hchansrel
          intro kc
          cases hbc : aget b.channels kc with
          | none => rfl
          | some ch =>
            simp only [Option.map_some, Option.some.injEq]
            have hrel := hc.chans kc
            rw [hbc] at hrel
            cases hsc : aget s.chans kc with
            | none => rw [hsc] at hrel; simp only [ChanRel] at hrel
            | some sc =>
              rw [hsc] at hrel
              simp only [ChanRel] at hrel
              symm
              apply replaceUser_absent hrel.2
              rw [hkey]
              intro hin
              rw [Bool.eq_false_iff] at hinv
              apply hinv
              exact (visible_iff hw.chansNodup).mpr ⟨kc, sc, hsc, hrel.1, has_iff.mpr ((hrel.2.users_iff _).mp hin)⟩
        · intro x ux hux hv
          rw [husers'] at hux
          have hsee2 : ¬ ((decide (lower n = s.botKey) || s.visible (lower n)) = true) := by
            simp [hown, hinv]
          rw [htold', if_neg hsee2] at hv
          have hx1 : x ≠ lower n' := (mem_sdel.mp hv).1
          have hx2 : x ≠ lower n := (mem_sdel.mp (mem_sdel.mp hv).2).1
          simp only [Ne.symm hx1, ↓reduceIte, Ne.symm hx2] at hux
          exact hc.hosts x ux hux (mem_sdel.mp (mem_sdel.mp hv).2).2
        · intro kc sc' hsc' hb'
          rw [hchans'] at hsc'
          cases hsc : aget s.chans kc with
          | none => rw [hsc] at hsc'; cases hsc'
          | some sc =>
            rw [hsc] at hsc'; simp only [Option.map_some, Option.some.injEq] at hsc'; subst hsc'
            have hbin := (hbotin kc sc hsc).mp hb'
            obtain ⟨ub0, hub0, hp0⟩ := hc.pfx kc sc hsc hbin
            rw [hbk', husers']
            have h1 : ¬ lower n' = s.botKey := by
              intro e
              by_cases hsame : lower n' = lower n
              · exact hown (hsame ▸ e)
              · have hfr := hfree hsame
                rw [e, hub'] at hfr; cases hfr
            simp only [hown, ↓reduceIte, h1]
            exact ⟨ub0, hub0, hp0⟩

end C10
