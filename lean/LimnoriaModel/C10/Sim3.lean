/-
C10 — simulation, part 3: removing members (KICK, PART) and adding them (JOIN of another user).
-/
import LimnoriaModel.C10.Sim2
namespace C10
open Py

/-! ### one member leaves -/

theorem Tracks.remove {full : Prop} {S : List Str} {ms : List (Str × Flags)} {P : Flags → Prop}
    (h : Tracks full S ms P) (k : Str) : Tracks full (sdel S k) (ms.filter (fun p => p.1 != k)) P where
  sub := fun x hx => by
    obtain ⟨hne, hxS⟩ := mem_sdel.mp hx
    obtain ⟨f, hf, hp⟩ := h.sub x hxS
    exact ⟨f, List.mem_filter.mpr ⟨hf, by simpa using hne⟩, hp⟩
  sup := fun hfull x ⟨f, hf, hp⟩ => by
    obtain ⟨hf', hne⟩ := List.mem_filter.mp hf
    exact mem_sdel.mpr ⟨by simpa using hne, h.sup hfull x ⟨f, hf', hp⟩⟩

theorem chanMatches_remove {mp ms bs : Bool} {sc : SChan} {ch : Chan} (h : ChanMatches mp ms bs sc ch) (n : Str) :
    ChanMatches mp ms bs (sc.remove (lower n)) (ch.removeUser n) where
  users := h.users.remove _
  ops := h.ops.remove _
  halfops := h.halfops.remove _
  voices := h.voices.remove _
  topic := h.topic
  modes := h.modes
  modesFull := h.modesFull
  bans := h.bans
  bansFull := h.bansFull

theorem has_remove {sc : SChan} {k x : Str} : (sc.remove k).has x = true ↔ x ≠ k ∧ sc.has x = true := by
  simp only [has_iff, SChan.remove, List.mem_filter, bne_iff_ne, ne_eq]
  constructor
  · rintro ⟨f, hf, hx⟩; exact ⟨hx, f, hf⟩
  · rintro ⟨hx, f, hf⟩; exact ⟨f, hf, hx⟩

theorem has_remove_of {sc : SChan} {k x : Str} (h : (sc.remove k).has x = true) : sc.has x = true :=
  (has_remove.mp h).2

theorem has_remove_self (sc : SChan) (k : Str) : (sc.remove k).has k = false := by
  rw [← Bool.not_eq_true, has_remove]; simp

/-! ### KICK -/

theorem kickTargets_has {ts : List Str} {sc : SChan} {x : Str} (h : (kickTargets sc ts).1.has x = true) :
    sc.has x = true := by
  induction ts generalizing sc with
  | nil => exact h
  | cons t ts ih =>
    unfold kickTargets at h
    split at h
    · exact has_remove_of (ih h)
    · exact ih h

theorem kickTargets_name (ts : List Str) (sc : SChan) : (kickTargets sc ts).1.name = sc.name := by
  induction ts generalizing sc with
  | nil => rfl
  | cons t ts ih =>
    unfold kickTargets
    split
    · rw [ih]; rfl
    · exact ih sc

theorem kickTargets_sub (ts : List Str) (sc : SChan) : ∀ t ∈ (kickTargets sc ts).2, t ∈ ts := by
  induction ts generalizing sc with
  | nil => intro t ht; simp [kickTargets] at ht
  | cons t0 ts ih =>
    intro t ht
    unfold kickTargets at ht
    split at ht
    · simp only [List.mem_cons] at ht ⊢
      rcases ht with rfl | ht
      · exact Or.inl rfl
      · exact Or.inr (ih _ t ht)
    · exact List.mem_cons_of_mem _ (ih _ t ht)

/-- the bot's loop over the kicked nicks against the server's removal, member by member -/
theorem kick_sim {mp ms bs : Bool} (botKey key : Str) (ts : List Str) :
    ∀ (sc : SChan) (ch : Chan) (b : Bot), lower b.nick = botKey → aget b.channels key = some ch →
      ChanMatches mp ms bs sc ch → sc.has botKey = true →
      let b' := b.kickLoop key (kickTargets sc ts).2
      b'.nick = b.nick ∧ b'.pfx = b.pfx ∧ b'.n2h = b.n2h ∧ b'.cfgNick = b.cfgNick ∧ b'.cfgIdent = b.cfgIdent ∧ b'.isup = b.isup ∧
      (∀ k, k ≠ key → aget b'.channels k = aget b.channels k) ∧
      (match aget b'.channels key with
        | none => (kickTargets sc ts).1.has botKey = false
        | some ch' => (kickTargets sc ts).1.has botKey = true ∧ ChanMatches mp ms bs (kickTargets sc ts).1 ch') := by
  induction ts with
  | nil =>
    intro sc ch b _ hch hm hb
    simp only [kickTargets, Bot.kickLoop, hch]
    exact ⟨trivial, trivial, trivial, trivial, trivial, trivial, fun _ _ => trivial, hb, hm⟩
  | cons t ts ih =>
    intro sc ch b hbk hch hm hb
    unfold kickTargets
    by_cases ht : sc.has (lower t) = true
    · simp only [ht, ↓reduceIte, Bot.kickLoop]
      by_cases hself : strEqual t b.nick = true
      · have hk : lower t = botKey := by
          simp only [strEqual, decide_eq_true_eq] at hself; rw [hself, hbk]
        simp only [hself, ↓reduceIte, aget_adel_self]
        refine ⟨trivial, trivial, trivial, trivial, trivial, trivial, fun k hk' => by rw [aget_adel]; simp [Ne.symm hk'], ?_⟩
        rw [← Bool.not_eq_true]
        intro hcon
        have := kickTargets_has hcon
        rw [hk, has_remove_self] at this; cases this
      · have hk : lower t ≠ botKey := by
          intro e; apply hself
          simp only [strEqual, decide_eq_true_eq]; rw [e, hbk]
        simp only [hself, Bool.false_eq_true, ↓reduceIte]
        have hch1 : aget (amod b.channels key (fun c => c.removeUser t)) key = some (ch.removeUser t) := by
          rw [aget_amod]; simp [hch]
        have hb1 : (sc.remove (lower t)).has botKey = true := has_remove.mpr ⟨fun e => hk e.symm, hb⟩
        obtain ⟨h1, h2, h3, h4, h5, hs, h6, h7⟩ := ih (sc.remove (lower t)) (ch.removeUser t)
          { b with channels := amod b.channels key (fun c => c.removeUser t) } hbk hch1 (chanMatches_remove hm t) hb1
        refine ⟨h1, h2, h3, h4, h5, hs, ?_, h7⟩
        intro k hk'
        rw [h6 k hk']
        show aget (amod b.channels key (fun c => c.removeUser t)) k = _
        rw [aget_amod]; simp [Ne.symm hk']
    · simp only [ht, Bool.false_eq_true, ↓reduceIte]
      exact ih sc ch b hbk hch hm hb

theorem nick_noComma_of_valid {t : Str} (h : validNick t = true) : ',' ∉ t := (nickOK_of_valid h).noComma

theorem putChan_get (s : Srv) (key : Str) (sc : SChan) (k : Str) :
    aget (s.putChan key sc).chans k =
      if key = k then (if sc.members.isEmpty then none else some sc) else aget s.chans k := by
  unfold Srv.putChan
  by_cases he : sc.members.isEmpty = true
  · simp only [he, ↓reduceIte, aget_adel]
  · simp only [he, Bool.false_eq_true, ↓reduceIte, aget_aset]

theorem putChan_users (s : Srv) (key : Str) (sc : SChan) : (s.putChan key sc).users = s.users := by
  unfold Srv.putChan; split <;> rfl
theorem putChan_bot (s : Srv) (key : Str) (sc : SChan) : (s.putChan key sc).bot = s.bot := by
  unfold Srv.putChan; split <;> rfl
theorem putChan_botKey (s : Srv) (key : Str) (sc : SChan) : (s.putChan key sc).botKey = s.botKey := by
  simp [Srv.botKey, putChan_bot]
theorem putChan_told (s : Srv) (key : Str) (sc : SChan) : (s.putChan key sc).told = s.told := by
  unfold Srv.putChan; split <;> rfl
theorem putChan_ms (s : Srv) (key : Str) (sc : SChan) : (s.putChan key sc).modesSynced = s.modesSynced := by
  unfold Srv.putChan; split <;> rfl
theorem putChan_bs (s : Srv) (key : Str) (sc : SChan) : (s.putChan key sc).bansSynced = s.bansSynced := by
  unfold Srv.putChan; split <;> rfl
theorem putChan_mSynced (s : Srv) (key : Str) (sc : SChan) (k : Str) : (s.putChan key sc).mSynced k = s.mSynced k := by
  simp [Srv.mSynced, putChan_ms]
theorem putChan_bSynced (s : Srv) (key : Str) (sc : SChan) (k : Str) : (s.putChan key sc).bSynced k = s.bSynced k := by
  simp [Srv.bSynced, putChan_bs]
theorem putChan_cfg (s : Srv) (key : Str) (sc : SChan) : (s.putChan key sc).cfg = s.cfg := by
  unfold Srv.putChan; split <;> rfl

theorem putChan_nodup {s : Srv} (h : (akeys s.chans).Nodup) (key : Str) (sc : SChan) :
    (akeys (s.putChan key sc).chans).Nodup := by
  unfold Srv.putChan
  split
  · exact nodup_akeys_adel h _
  · exact nodup_akeys_aset h _ _

theorem has_of_nonempty_false {sc : SChan} (h : sc.members.isEmpty = true) (k : Str) : sc.has k = false := by
  unfold SChan.has
  cases hm : sc.members with
  | nil => rfl
  | cons a t => rw [hm] at h; cases h

theorem coupled_kick {s : Srv} {b : Bot} (hw : SrvWF s) (hc : Coupled s b) (src c : Str) (ts : List Str) (r : Str) :
    Coupled (s.step (.kick src c ts r)).1 (b.recvAll (s.step (.kick src c ts r)).2) := by
  simp only [Srv.step]
  split
  · rename_i pfx sc hsrc hch
    split
    · exact hc
    · rename_i hcond
      simp only [Bool.or_eq_true, Bool.not_eq_eq_eq_not, Bool.not_true, not_or, Bool.not_eq_false, List.all_eq_true] at hcond
      obtain ⟨_, hvalid⟩ := hcond
      split
      · exact hc
      · rename_i hne
        rw [Srv.chan_eq] at hch
        have hcw := hw.chans _ _ hch
        have hnd' := putChan_nodup hw.chansNodup (lower c) (kickTargets sc ts).1
        have hrel := hc.chans (lower c)
        rw [hch] at hrel
        by_cases hb : s.botIn sc = true
        · simp only [hb, ↓reduceIte, recvAll_cons, recv_emit, recvAll_nil]
          obtain ⟨b0, hc0, hch0, hn0, hfeed⟩ := feed_from_source hw hc hsrc "KICK".toList
            [sc.name, commaJoin (kickTargets sc ts).2, r]
            (setters_out_ok "KICK".toList (by decide)) (by decide) (fun b0 => by simp only [Bot.ircCmd, cmdOf_KICK])
          rw [hfeed]
          have hrel0 := hc0.chans (lower c)
          rw [hch] at hrel0
          cases hbc : aget b0.channels (lower c) with
          | none => rw [hbc] at hrel0; simp only [ChanRel] at hrel0; rw [Srv.botIn] at hb; rw [hb] at hrel0; cases hrel0
          | some ch =>
            rw [hbc] at hrel0
            have hchan : b0.chan sc.name = some ch := by rw [Bot.chan, hcw.key]; exact hbc
            have hsplit : splitChar ',' (commaJoin (kickTargets sc ts).2) = (kickTargets sc ts).2 := by
              apply splitChar_joinChar
              · intro e; apply hne; simp [e]
              · intro t ht; exact nick_noComma_of_valid (hvalid t (kickTargets_sub ts sc t ht))
            simp only [Bot.stateCmd, cmdOf_KICK, Bot.doKick, hchan, hcw.key, hsplit]
            have hbk : lower b0.nick = s.botKey := by rw [hc0.nick]; rfl
            obtain ⟨h1, h2, h3, h4, h5, hs, h6, h7⟩ := kick_sim s.botKey (lower c) ts sc ch b0 hbk hbc hrel0.2 hrel0.1
            refine coupled_update' hc0 (lower c) (putChan_users _ _ _) (putChan_bot _ _ _) (putChan_cfg _ _ _) (putChan_ms _ _ _) (putChan_bs _ _ _) (putChan_told _ _ _) ?_ h6 ?_ h1 h4 h5 hs h3 h2 ?_ ?_
            · intro k hk; rw [putChan_get]; simp [Ne.symm hk]
            · rw [putChan_get]
              simp only [↓reduceIte]
              by_cases hemp : (kickTargets sc ts).1.members.isEmpty = true
              · simp only [hemp, ↓reduceIte]
                cases hb' : aget (b0.kickLoop (lower c) (kickTargets sc ts).2).channels (lower c) with
                | none => trivial
                | some ch' =>
                  rw [hb'] at h7
                  rw [has_of_nonempty_false hemp] at h7; exact absurd h7.1 (by simp)
              · simp only [hemp, Bool.false_eq_true, ↓reduceIte]
                cases hb' : aget (b0.kickLoop (lower c) (kickTargets sc ts).2).channels (lower c) with
                | none => rw [hb'] at h7; simp only [ChanRel, putChan_botKey, putChan_cfg, putChan_mSynced, putChan_bSynced]; exact h7
                | some ch' => rw [hb'] at h7; simp only [ChanRel, putChan_botKey, putChan_cfg, putChan_mSynced, putChan_bSynced]; exact h7
            · intro sc0 sc' h0 h' hb'
              rw [hch] at h0; cases h0
              rw [putChan_get] at h'
              simp only [↓reduceIte] at h'
              split at h'
              · cases h'
              · cases h'; exact kickTargets_has hb'
            · intro sc' h0; rw [hch] at h0; cases h0
        · simp only [hb, Bool.false_eq_true, ↓reduceIte, recvAll_nil]
          have hb' : sc.has s.botKey = false := by simpa [Srv.botIn] using hb
          refine coupled_update' hc (lower c) (putChan_users _ _ _) (putChan_bot _ _ _) (putChan_cfg _ _ _) (putChan_ms _ _ _) (putChan_bs _ _ _) (putChan_told _ _ _) ?_ (fun _ _ => rfl) ?_ rfl rfl rfl rfl rfl rfl ?_ ?_
          · intro k hk; rw [putChan_get]; simp [Ne.symm hk]
          · rw [putChan_get]
            simp only [↓reduceIte]
            have hbn : aget b.channels (lower c) = none := by
              cases hbc : aget b.channels (lower c) with
              | none => rfl
              | some ch => rw [hbc] at hrel; simp only [ChanRel] at hrel; rw [hb'] at hrel; exact absurd hrel.1 (by simp)
            rw [hbn]
            split
            · trivial
            · simp only [ChanRel, putChan_botKey, putChan_cfg, putChan_mSynced, putChan_bSynced]
              rw [← Bool.not_eq_true]; intro hcon
              have := kickTargets_has hcon
              rw [hb'] at this; cases this
          · intro sc0 sc' h0 h' hb''
            rw [hch] at h0; cases h0
            rw [putChan_get] at h'
            simp only [↓reduceIte] at h'
            split at h'
            · cases h'
            · cases h'; exact kickTargets_has hb''
          · intro sc' h0; rw [hch] at h0; cases h0
  · exact hc

/-! ### PART -/

theorem partOne_fields (nick : Str) (b : Bot) (name : Str) :
    (Bot.partOne nick b name).nick = b.nick ∧ (Bot.partOne nick b name).pfx = b.pfx ∧
    (Bot.partOne nick b name).n2h = b.n2h ∧ (Bot.partOne nick b name).cfgNick = b.cfgNick ∧
    (Bot.partOne nick b name).cfgIdent = b.cfgIdent ∧ (Bot.partOne nick b name).isup = b.isup := by
  unfold Bot.partOne
  split
  · exact ⟨rfl, rfl, rfl, rfl, rfl, rfl⟩
  · split <;> exact ⟨rfl, rfl, rfl, rfl, rfl, rfl⟩

theorem chan_noComma_of_valid {c : Str} (h : validChan c = true) : ',' ∉ c := (chanOK_of_valid h).noComma

/-- PART of user `k`, channel by channel, against the bot executing the PART for the channels it sees -/
theorem leave_sim (k nick : Str) (hk : lower nick = k) (cs : List Str) :
    ∀ (s : Srv) (b : Bot), SrvWF s → Coupled s b →
      Coupled (s.leave k cs).1 ((s.leave k cs).2.foldl (Bot.partOne nick) b) ∧
      (∀ n ∈ (s.leave k cs).2, ',' ∉ n) := by
  induction cs with
  | nil => intro s b _ hc; exact ⟨hc, by simp [Srv.leave]⟩
  | cons c cs ih =>
    intro s b hw hc
    unfold Srv.leave
    split
    · exact ih s b hw hc
    · rename_i sc hch
      rw [Srv.chan_eq] at hch
      have hcw := hw.chans _ _ hch
      have hrel := hc.chans (lower c)
      rw [hch] at hrel
      by_cases hmem : sc.has k = true
      · simp only [hmem, ↓reduceIte]
        have hw1 : SrvWF (s.putChan (lower c) (sc.remove k)) := wf_putChan hw _ _ (chanWF_remove hcw _)
        have hnd' := putChan_nodup hw.chansNodup (lower c) (sc.remove k)
        have hgen : ∀ (b1 : Bot), (∀ k', k' ≠ lower c → aget b1.channels k' = aget b.channels k') →
            ChanRel (s.putChan (lower c) (sc.remove k)) (lower c) (aget (s.putChan (lower c) (sc.remove k)).chans (lower c)) (aget b1.channels (lower c)) →
            b1.nick = b.nick → b1.cfgNick = b.cfgNick → b1.cfgIdent = b.cfgIdent → b1.isup = b.isup → b1.n2h = b.n2h → b1.pfx = b.pfx →
            Coupled (s.putChan (lower c) (sc.remove k)) b1 := by
          intro b1 h1 h2 h3 h4 h5 hs h6 h7
          refine coupled_update' hc (lower c) (putChan_users _ _ _) (putChan_bot _ _ _) (putChan_cfg _ _ _) (putChan_ms _ _ _) (putChan_bs _ _ _) (putChan_told _ _ _)
            ?_ h1 h2 h3 h4 h5 hs h6 h7 ?_ ?_
          · intro k' hk'; rw [putChan_get]; simp [Ne.symm hk']
          · intro sc0 sc' h0 h' hb'
            rw [hch] at h0; cases h0
            rw [putChan_get] at h'
            simp only [↓reduceIte] at h'
            split at h'
            · cases h'
            · cases h'; exact has_remove_of hb'
          · intro sc' h0; rw [hch] at h0; cases h0
        by_cases hb : s.botIn sc = true
        · simp only [hb, ↓reduceIte, List.foldl_cons]
          have hb' : sc.has s.botKey = true := hb
          cases hbc : aget b.channels (lower c) with
          | none => rw [hbc] at hrel; simp only [ChanRel] at hrel; rw [hb'] at hrel; cases hrel
          | some ch =>
            rw [hbc] at hrel
            have hchan : b.chan sc.name = some ch := by rw [Bot.chan, hcw.key]; exact hbc
            have hcoup : Coupled (s.putChan (lower c) (sc.remove k)) (Bot.partOne nick b sc.name) := by
              unfold Bot.partOne
              simp only [hchan]
              by_cases hself : strEqual nick b.nick = true
              · have hkb : k = s.botKey := by
                  simp only [strEqual, decide_eq_true_eq] at hself
                  rw [← hk, hself, hc.nick]; rfl
                simp only [hself, ↓reduceIte, hcw.key]
                apply hgen
                · intro k' hk'; show aget (adel b.channels (lower c)) k' = _; rw [aget_adel]; simp [Ne.symm hk']
                · show ChanRel _ _ _ (aget (adel b.channels (lower c)) (lower c))
                  rw [aget_adel_self, putChan_get]
                  simp only [↓reduceIte]
                  split
                  · trivial
                  · simp only [ChanRel, putChan_botKey, hkb]; exact has_remove_self sc s.botKey
                all_goals rfl
              · have hkb : k ≠ s.botKey := by
                  intro e; apply hself
                  simp only [strEqual, decide_eq_true_eq]
                  rw [hk, e, hc.nick]; rfl
                simp only [hself, Bool.false_eq_true, ↓reduceIte, Bot.setChan, hcw.key]
                apply hgen
                · intro k' hk'; show aget (aset b.channels (lower c) _) k' = _; exact aget_aset_ne _ _ (Ne.symm hk')
                · show ChanRel _ _ _ (aget (aset b.channels (lower c) (ch.removeUser nick)) (lower c))
                  rw [aget_aset_self, putChan_get]
                  simp only [↓reduceIte]
                  have hbin : (sc.remove k).has s.botKey = true := has_remove.mpr ⟨fun e => hkb e.symm, hb'⟩
                  have hne : (sc.remove k).members.isEmpty = false := by
                    cases he : (sc.remove k).members.isEmpty with
                    | false => rfl
                    | true => rw [has_of_nonempty_false he] at hbin; cases hbin
                  simp only [hne, Bool.false_eq_true, ↓reduceIte, ChanRel, putChan_botKey, putChan_cfg, putChan_mSynced, putChan_bSynced]
                  exact ⟨hbin, hk ▸ chanMatches_remove hrel.2 nick⟩
                all_goals rfl
            obtain ⟨ih1, ih2⟩ := ih _ _ hw1 hcoup
            refine ⟨ih1, ?_⟩
            intro n hn
            simp only [List.mem_cons] at hn
            rcases hn with rfl | hn
            · exact chan_noComma_of_valid hcw.name
            · exact ih2 n hn
        · simp only [hb, Bool.false_eq_true, ↓reduceIte]
          have hb' : sc.has s.botKey = false := by simpa [Srv.botIn] using hb
          have hbn : aget b.channels (lower c) = none := by
            cases hbc : aget b.channels (lower c) with
            | none => rfl
            | some ch => rw [hbc] at hrel; simp only [ChanRel] at hrel; rw [hb'] at hrel; exact absurd hrel.1 (by simp)
          have hcoup : Coupled (s.putChan (lower c) (sc.remove k)) b := by
            apply hgen b (fun _ _ => rfl) _ rfl rfl rfl rfl rfl rfl
            rw [hbn, putChan_get]
            simp only [↓reduceIte]
            split
            · trivial
            · simp only [ChanRel, putChan_botKey, putChan_cfg, putChan_mSynced, putChan_bSynced]
              rw [← Bool.not_eq_true]; intro hcon
              rw [has_remove_of hcon] at hb'; cases hb'
          exact ih _ _ hw1 hcoup
      · simp only [hmem, Bool.false_eq_true, ↓reduceIte]
        exact ih s b hw hc

theorem coupled_part {s : Srv} {b : Bot} (hw : SrvWF s) (hc : Coupled s b) (n : Str) (cs : List Str) (r : Option Str) :
    Coupled (s.step (.part n cs r)).1 (b.recvAll (s.step (.part n cs r)).2) := by
  simp only [Srv.step]
  split
  · exact hc
  · rename_i u hu
    rw [Srv.user_eq] at hu
    split
    · exact hc
    · have hkey := (hw.userOK hu).1
      by_cases hemp : (s.leave (lower n) cs).2.isEmpty = true
      · simp only [hemp, ↓reduceIte, recvAll_nil]
        have := (leave_sim (lower n) u.nick hkey cs s b hw hc).1
        have he : (s.leave (lower n) cs).2 = [] := by simpa using hemp
        rw [he] at this; exact this
      · simp only [hemp, Bool.false_eq_true, ↓reduceIte, recvAll_cons, recv_emit, recvAll_nil]
        obtain ⟨hc0, hfeed⟩ := feed_from_user hw hc hu "PART".toList ([commaJoin (s.leave (lower n) cs).2] ++ r.toList)
          (setters_out_ok "PART".toList (by decide)) (by decide) (fun b0 => by simp only [Bot.ircCmd, cmdOf_PART])
        rw [hfeed]
        obtain ⟨h1, h2⟩ := leave_sim (lower n) u.nick hkey cs s (b.seen u) hw hc0
        have hsplit : splitChar ',' (commaJoin (s.leave (lower n) cs).2) = (s.leave (lower n) cs).2 := by
          apply splitChar_joinChar
          · intro e; apply hemp; simp [e]
          · exact h2
        simp only [Bot.stateCmd, cmdOf_PART, Bot.doPart, List.cons_append, List.nil_append, hsplit,
          msg_nick_user (hw.uok hu)]
        exact h1

end C10
