/-
C10 — the replies a joining client gets, part 2: one NAMES item, one 353 line, the whole NAMES reply.
-/
import LimnoriaModel.C10.Burst1
namespace C10
open Py

/-- the sigils of a member with all of its statuses -/
def fullSigils (f : Flags) : Str :=
  (if f.o then ['@'] else []) ++ (if f.h then ['%'] else []) ++ (if f.v then ['+'] else [])

/-- the statuses a NAMES / WHO reply shows: all of them with multi-prefix, otherwise only the highest -/
def shown (cfg : Cfg) (f : Flags) : Flags :=
  if cfg.multiPrefix then f else { o := f.o, h := !f.o && f.h, v := !f.o && !f.h && f.v }

theorem sigils_shown (cfg : Cfg) (f : Flags) : sigils cfg f = fullSigils (shown cfg f) := by
  obtain ⟨o, h, v⟩ := f
  unfold sigils shown fullSigils
  cases cfg.multiPrefix <;> cases o <;> cases h <;> cases v <;> rfl

theorem shown_o (cfg : Cfg) (f : Flags) : (shown cfg f).o = f.o := by
  unfold shown; split <;> rfl
theorem shown_h (cfg : Cfg) (f : Flags) (h : (shown cfg f).h = true) : f.h = true := by
  unfold shown at h; split at h
  · exact h
  · simp at h; exact h.2
theorem shown_v (cfg : Cfg) (f : Flags) (h : (shown cfg f).v = true) : f.v = true := by
  unfold shown at h; split at h
  · exact h
  · simp at h; exact h.2
theorem shown_mp {cfg : Cfg} (h : cfg.multiPrefix = true) (f : Flags) : shown cfg f = f := by
  simp [shown, h]

theorem dec_strip_at : decide ('@' ∈ Gen.sigilsStrip) = true := by decide
theorem dec_strip_pc : decide ('%' ∈ Gen.sigilsStrip) = true := by decide
theorem dec_strip_pl : decide ('+' ∈ Gen.sigilsStrip) = true := by decide
theorem dec_loop_at : decide ('@' ∈ Gen.sigilsLoop) = true := by decide
theorem dec_loop_pc : decide ('%' ∈ Gen.sigilsLoop) = true := by decide
theorem dec_loop_pl : decide ('+' ∈ Gen.sigilsLoop) = true := by decide
theorem dec_353_at : decide ('@' ∈ Gen.sigils353) = true := by decide
theorem dec_353_pc : decide ('%' ∈ Gen.sigils353) = true := by decide
theorem dec_353_pl : decide ('+' ∈ Gen.sigils353) = true := by decide

theorem marker_at (n : Str) (c : Chan) : Chan.addMarker n c '@' = { c with ops := sadd c.ops (lower n) } := by
  have : '@' ∈ Gen.sigilsOp := sigil_table_ok.1
  simp [Chan.addMarker, this]
theorem marker_pc (n : Str) (c : Chan) : Chan.addMarker n c '%' = { c with halfops := sadd c.halfops (lower n) } := by
  have h1 : '%' ∉ Gen.sigilsOp := sigil_table_ok.2.1
  have h2 : Gen.sigilHalfop = '%' := sigil_table_ok.2.2.2.1
  simp [Chan.addMarker, h1, h2]
theorem marker_pl (n : Str) (c : Chan) : Chan.addMarker n c '+' = { c with voices := sadd c.voices (lower n) } := by
  have h1 : '+' ∉ Gen.sigilsOp := sigil_table_ok.2.2.1
  have h2 : Gen.sigilHalfop = '%' := sigil_table_ok.2.2.2.1
  have h3 : Gen.sigilVoice = '+' := sigil_table_ok.2.2.2.2.1
  simp [Chan.addMarker, h1, h2, h3]

/-- `addUser` of a NAMES item `sigils ++ nick` -/
theorem addUser_full {n : Str} (hn : NickOK n) (f : Flags) (c : Chan) :
    c.addUser (fullSigils f ++ n) = addMember c (lower n, f) := by
  cases n with
  | nil => exact absurd rfl hn.ne
  | cons a t =>
    have h1 : decide (a ∈ Gen.sigilsStrip) = false := by simpa using (nick_noSigil hn).1 a (by simp)
    have h2 : decide (a ∈ Gen.sigilsLoop) = false := by simpa using (nick_noSigil hn).2.1 a (by simp)
    obtain ⟨o, h, v⟩ := f
    cases o <;> cases h <;> cases v <;>
      simp [fullSigils, Chan.addUser, lstripP, List.dropWhile_cons, List.takeWhile_cons, h1, h2, dec_strip_at, dec_strip_pc,
        dec_strip_pl, dec_loop_at, dec_loop_pc, dec_loop_pl, marker_at, marker_pc, marker_pl, addMember]

theorem addUser_item (cfg : Cfg) {n : Str} (hn : NickOK n) (f : Flags) (c : Chan) :
    c.addUser (sigils cfg f ++ n) = addMember c (lower n, shown cfg f) := by
  rw [sigils_shown]; exact addUser_full hn _ c

theorem sigils_noBang {cfg : Cfg} (f : Flags) : '!' ∉ sigils cfg f := by
  obtain ⟨o, h, v⟩ := f
  unfold sigils
  cases o <;> cases h <;> cases v <;> cases cfg.multiPrefix <;> decide

theorem sigils_nosp {cfg : Cfg} (f : Flags) : NoSp (sigils cfg f) := by
  obtain ⟨o, h, v⟩ := f
  unfold sigils NoSp
  cases o <;> cases h <;> cases v <;> cases cfg.multiPrefix <;> decide

theorem lstrip353_full (f : Flags) {w : Str} (hw : ∀ a t, w = a :: t → a ∉ Gen.sigils353)
    (hne : w ≠ []) : lstripP (· ∈ Gen.sigils353) (fullSigils f ++ w) = w := by
  cases w with
  | nil => exact absurd rfl hne
  | cons a t =>
    have h1 : decide (a ∈ Gen.sigils353) = false := by simpa using hw a t rfl
    obtain ⟨o, h, v⟩ := f
    cases o <;> cases h <;> cases v <;>
      simp [fullSigils, lstripP, List.dropWhile_cons, h1, dec_353_at, dec_353_pc, dec_353_pl]

theorem lstrip353_item (cfg : Cfg) (f : Flags) {w : Str} (hw : ∀ a t, w = a :: t → a ∉ Gen.sigils353)
    (hne : w ≠ []) : lstripP (· ∈ Gen.sigils353) (sigils cfg f ++ w) = w := by
  rw [sigils_shown]; exact lstrip353_full _ hw hne

/-- the name `do353` extracts from an item, with or without userhost-in-names -/
theorem item353Name_item (s : Srv) {u : SUser} (hu : UserOK u) (f : Flags) :
    item353Name (sigils s.cfg f ++ (if s.cfg.uhnames then u.mask else u.nick)) = sigils s.cfg f ++ u.nick := by
  unfold item353Name
  by_cases huh : s.cfg.uhnames = true
  · simp only [huh, ↓reduceIte]
    have e : sigils s.cfg f ++ u.mask = mkHostmask (sigils s.cfg f ++ u.nick) u.ident u.host := by
      simp [SUser.mask, mkHostmask]
    have hnb : '!' ∉ sigils s.cfg f ++ u.nick := by
      simp only [List.mem_append, not_or]; exact ⟨sigils_noBang f, hu.nick.noBang⟩
    have hne : sigils s.cfg f ++ u.nick ≠ [] := by
      intro h; exact hu.nick.ne (List.append_eq_nil_iff.mp h).2
    have hsp : NoSp (sigils s.cfg f ++ u.nick) := by
      intro c hc; simp only [List.mem_append] at hc
      rcases hc with hc | hc
      · exact sigils_nosp f c hc
      · exact hu.nick.nosp c hc
    rw [e, isUserHostmask_mask hne hnb hu.ident.ne hu.host.ne hsp hu.ident.nosp hu.host.nosp,
      splitHostmask_mask hne hnb hu.ident.ne hu.host.ne hsp hu.ident.nosp hu.host.nosp hu.ident.noBang hu.host.noAt]
    simp
  · simp only [huh, Bool.false_eq_true, ↓reduceIte]
    have hnb : '!' ∉ sigils s.cfg f ++ u.nick := by
      simp only [List.mem_append, not_or]; exact ⟨sigils_noBang f, hu.nick.noBang⟩
    simp [isUserHostmask_noBang hnb]

/-- facts about the members of a well-formed channel needed to read its NAMES / WHO lines -/
structure MembersOK (s : Srv) (ps : List (Str × Flags)) : Prop where
  user : ∀ p ∈ ps, ∃ u, aget s.users p.1 = some u ∧ UserOK u ∧ lower u.nick = p.1

theorem membersOK_of_wf {s : Srv} (hw : SrvWF s) {k : Str} {sc : SChan} (hsc : aget s.chans k = some sc) :
    MembersOK s sc.members := by
  refine ⟨fun p hp => ?_⟩
  have := (hw.chans k sc hsc).members p hp
  cases hu : aget s.users p.1 with
  | none => rw [hu] at this; cases this
  | some u => exact ⟨u, rfl, hw.uok hu, (hw.userOK hu).1⟩

theorem MembersOK.sub {s : Srv} {ps qs : List (Str × Flags)} (h : MembersOK s ps) (hs : ∀ p ∈ qs, p ∈ ps) :
    MembersOK s qs := ⟨fun p hp => h.user p (hs p hp)⟩

theorem namesItem_eq {s : Srv} {p : Str × Flags} {u : SUser} (hu : aget s.users p.1 = some u) :
    s.namesItem p = sigils s.cfg p.2 ++ (if s.cfg.uhnames then u.mask else u.nick) := by
  simp [Srv.namesItem, Srv.displayUser, hu]

theorem namesItem_ne_nosp {s : Srv} {ps : List (Str × Flags)} (h : MembersOK s ps) :
    (∀ x ∈ ps.map s.namesItem, x ≠ []) ∧ (∀ x ∈ ps.map s.namesItem, NoSp x) := by
  constructor
  · intro x hx
    obtain ⟨p, hp, rfl⟩ := List.mem_map.mp hx
    obtain ⟨u, hu, huo, _⟩ := h.user p hp
    rw [namesItem_eq hu]
    intro e
    have := (List.append_eq_nil_iff.mp e).2
    split at this
    · have : u.mask ≠ [] := by simp [SUser.mask]
      contradiction
    · exact huo.nick.ne this
  · intro x hx
    obtain ⟨p, hp, rfl⟩ := List.mem_map.mp hx
    obtain ⟨u, hu, huo, _⟩ := h.user p hp
    rw [namesItem_eq hu]
    intro c hc
    simp only [List.mem_append] at hc
    rcases hc with hc | hc
    · exact sigils_nosp _ c hc
    · split at hc
      · exact nosp_mask huo.nick.nosp huo.ident.nosp huo.host.nosp c hc
      · exact huo.nick.nosp c hc

/-- the members as a NAMES reply shows them -/
def shownMembers (s : Srv) (ps : List (Str × Flags)) : List (Str × Flags) := ps.map (fun p => (p.1, shown s.cfg p.2))

/-- the channel part of one 353 line -/
theorem foldl_addUser_items {s : Srv} {ps : List (Str × Flags)} (h : MembersOK s ps) (c : Chan) :
    (ps.map s.namesItem).foldl (fun c item => c.addUser (item353Name item)) c = (shownMembers s ps).foldl addMember c := by
  induction ps generalizing c with
  | nil => rfl
  | cons p ps ih =>
    obtain ⟨u, hu, huo, hk⟩ := h.user p (by simp)
    simp only [shownMembers, List.map_cons, List.foldl_cons]
    rw [namesItem_eq hu, item353Name_item s huo, addUser_item s.cfg huo.nick, hk]
    exact ih (h.sub (fun q hq => by simp [hq])) _

/-- the hostmask part of one 353 line: entries are left alone or set to the right value -/
theorem foldl_n2h353_items {s : Srv} {ps : List (Str × Flags)} (h : MembersOK s ps)
    (n2h : List (Str × Str)) (x : Str) :
    aget ((ps.map s.namesItem).foldl n2h353 n2h) x = aget n2h x ∨
      ∃ u, aget s.users x = some u ∧ aget ((ps.map s.namesItem).foldl n2h353 n2h) x = some u.mask := by
  induction ps generalizing n2h with
  | nil => exact Or.inl rfl
  | cons p ps ih =>
    obtain ⟨u, hu, huo, hk⟩ := h.user p (by simp)
    simp only [List.map_cons, List.foldl_cons]
    have hstep : n2h353 n2h (s.namesItem p) = n2h ∨ n2h353 n2h (s.namesItem p) = aset n2h p.1 u.mask := by
      rw [namesItem_eq hu]
      unfold n2h353
      by_cases huh : s.cfg.uhnames = true
      · right
        have e : sigils s.cfg p.2 ++ u.mask = mkHostmask (sigils s.cfg p.2 ++ u.nick) u.ident u.host := by
          simp [SUser.mask, mkHostmask]
        have hisu : isUserHostmask (sigils s.cfg p.2 ++ u.mask) = true := by
          have := item353Name_item s huo p.2
          rw [e]
          apply isUserHostmask_mask
          · intro h; exact huo.nick.ne (List.append_eq_nil_iff.mp h).2
          · simp only [List.mem_append, not_or]; exact ⟨sigils_noBang _, huo.nick.noBang⟩
          · exact huo.ident.ne
          · exact huo.host.ne
          · intro c hc; simp only [List.mem_append] at hc
            rcases hc with hc | hc
            · exact sigils_nosp _ c hc
            · exact huo.nick.nosp c hc
          · exact huo.ident.nosp
          · exact huo.host.nosp
        have hname := item353Name_item s huo p.2
        simp only [huh, ↓reduceIte] at hname ⊢
        rw [hisu, hname]
        simp only [↓reduceIte]
        have hn1 : lstripP (· ∈ Gen.sigils353) (sigils s.cfg p.2 ++ u.nick) = u.nick :=
          lstrip353_item s.cfg p.2 (fun a t e => (nick_noSigil huo.nick).2.2 a (by rw [e]; simp)) huo.nick.ne
        have hn2 : lstripP (· ∈ Gen.sigils353) (sigils s.cfg p.2 ++ u.mask) = u.mask := by
          apply lstrip353_item s.cfg p.2
          · intro a t e
            have : u.mask = u.nick ++ ('!' :: u.ident ++ '@' :: u.host) := by simp [SUser.mask]
            rw [this] at e
            cases hn : u.nick with
            | nil => exact absurd hn huo.nick.ne
            | cons a' t' =>
              rw [hn] at e
              simp only [List.cons_append, List.cons.injEq] at e
              rw [← e.1]
              exact (nick_noSigil huo.nick).2.2 a' (by rw [hn]; simp)
          · simp [SUser.mask]
        rw [hn1, hn2, hk]
      · left
        have hnb : '!' ∉ sigils s.cfg p.2 ++ u.nick := by
          simp only [List.mem_append, not_or]; exact ⟨sigils_noBang _, huo.nick.noBang⟩
        simp only [huh, Bool.false_eq_true, ↓reduceIte, isUserHostmask_noBang hnb]
    have ih' := ih (h.sub (fun q hq => by simp [hq])) (n2h353 n2h (s.namesItem p))
    rcases ih' with e | ⟨u', hu', e⟩
    · rw [e]
      rcases hstep with e2 | e2
      · rw [e2]; exact Or.inl rfl
      · rw [e2, aget_aset]
        by_cases hx : p.1 = x
        · subst hx; simp only [↓reduceIte]
          right; exact ⟨u, hu, rfl⟩
        · simp [hx]
    · exact Or.inr ⟨u', hu', e⟩

/-- with userhost-in-names one item records the member's hostmask -/
theorem n2h353_item_uh {s : Srv} (huh : s.cfg.uhnames = true) {p : Str × Flags} {u : SUser}
    (hu : aget s.users p.1 = some u) (huo : UserOK u) (hk : lower u.nick = p.1) (n2h : List (Str × Str)) :
    n2h353 n2h (s.namesItem p) = aset n2h p.1 u.mask := by
  rw [namesItem_eq hu]
  unfold n2h353
  have e : sigils s.cfg p.2 ++ u.mask = mkHostmask (sigils s.cfg p.2 ++ u.nick) u.ident u.host := by
    simp [SUser.mask, mkHostmask]
  have hisu : isUserHostmask (sigils s.cfg p.2 ++ u.mask) = true := by
    rw [e]
    apply isUserHostmask_mask
    · intro h; exact huo.nick.ne (List.append_eq_nil_iff.mp h).2
    · simp only [List.mem_append, not_or]; exact ⟨sigils_noBang _, huo.nick.noBang⟩
    · exact huo.ident.ne
    · exact huo.host.ne
    · intro c hc; simp only [List.mem_append] at hc
      rcases hc with hc | hc
      · exact sigils_nosp _ c hc
      · exact huo.nick.nosp c hc
    · exact huo.ident.nosp
    · exact huo.host.nosp
  have hname := item353Name_item s huo p.2
  simp only [huh, ↓reduceIte] at hname ⊢
  rw [hisu, hname]
  simp only [↓reduceIte]
  have hn1 : lstripP (· ∈ Gen.sigils353) (sigils s.cfg p.2 ++ u.nick) = u.nick :=
    lstrip353_item s.cfg p.2 (fun a t e => (nick_noSigil huo.nick).2.2 a (by rw [e]; simp)) huo.nick.ne
  have hn2 : lstripP (· ∈ Gen.sigils353) (sigils s.cfg p.2 ++ u.mask) = u.mask := by
    apply lstrip353_item s.cfg p.2
    · intro a t e
      have : u.mask = u.nick ++ ('!' :: u.ident ++ '@' :: u.host) := by simp [SUser.mask]
      rw [this] at e
      cases hn : u.nick with
      | nil => exact absurd hn huo.nick.ne
      | cons a' t' =>
        rw [hn] at e
        simp only [List.cons_append, List.cons.injEq] at e
        rw [← e.1]
        exact (nick_noSigil huo.nick).2.2 a' (by rw [hn]; simp)
    · simp [SUser.mask]
  rw [hn1, hn2, hk]

/-- with userhost-in-names a 353 line leaves every listed member's hostmask recorded -/
theorem foldl_n2h353_sets {s : Srv} (huh : s.cfg.uhnames = true) {ps : List (Str × Flags)} (h : MembersOK s ps)
    (n2h : List (Str × Str)) :
    ∀ p ∈ ps, ∃ u, aget s.users p.1 = some u ∧ aget ((ps.map s.namesItem).foldl n2h353 n2h) p.1 = some u.mask := by
  induction ps generalizing n2h with
  | nil => intro p hp; cases hp
  | cons p0 ps ih =>
    intro p hp
    obtain ⟨u0, hu0, huo0, hk0⟩ := h.user p0 (by simp)
    have hrest := h.sub (qs := ps) (fun q hq => by simp [hq])
    simp only [List.map_cons, List.foldl_cons]
    rw [n2h353_item_uh huh hu0 huo0 hk0]
    rcases List.mem_cons.mp hp with rfl | hp'
    · refine ⟨u0, hu0, ?_⟩
      rcases foldl_n2h353_items hrest (aset n2h p.1 u0.mask) p.1 with e | ⟨u', hu', e⟩
      · rw [e, aget_aset_self]
      · rw [hu0] at hu'; cases hu'; exact e
    · exact ih hrest _ p hp'

end C10
