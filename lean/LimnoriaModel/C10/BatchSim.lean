/-
C10 — batches: everything the reference server emits is an ordinary (non-BATCH) message, so wrapping it in
an open batch changes nothing for the bot; the invariant of `runB`.
-/
import LimnoriaModel.C10.Burst7
import LimnoriaModel.C10.Batch
namespace C10
open Py

/-- an ordinary message: not a connection reset, not a BATCH command -/
def Ev.isPlain : Ev → Prop
  | .msg m => cmdOf m.cmd ≠ .batch
  | .reset => False

theorem emit_plain (p : Str) (c : String) (a : List Str) (h : cmdOf c.toList ≠ .batch) : (emit p c a).isPlain := h

theorem namesReply_plain (s : Srv) (sc : SChan) : ∀ e ∈ s.namesReply sc, e.isPlain := by
  intro e he
  simp only [Srv.namesReply, List.mem_append, List.mem_map, List.mem_singleton] at he
  rcases he with ⟨_, _, rfl⟩ | rfl
  · exact emit_plain _ _ _ (by decide)
  · exact emit_plain _ _ _ (by decide)

theorem whoReply_plain (s : Srv) (sc : SChan) : ∀ e ∈ s.whoReply sc, e.isPlain := by
  intro e he
  simp only [Srv.whoReply, List.mem_append, List.mem_map, List.mem_singleton] at he
  rcases he with ⟨p, _, rfl⟩ | rfl
  · unfold Srv.whoLine
    split
    · exact emit_plain _ _ _ (by decide)
    · exact emit_plain _ _ _ (by decide)
  · exact emit_plain _ _ _ (by decide)

theorem banList_plain (s : Srv) (sc : SChan) : ∀ e ∈ s.banList sc, e.isPlain := by
  intro e he
  simp only [Srv.banList, List.mem_append, List.mem_map, List.mem_singleton] at he
  rcases he with ⟨_, _, rfl⟩ | rfl
  · exact emit_plain _ _ _ (by decide)
  · exact emit_plain _ _ _ (by decide)

theorem modeIs_plain (s : Srv) (sc : SChan) : (s.modeIs sc).isPlain := emit_plain _ _ _ (by decide)

theorem joinBurst_plain (s : Srv) (sc : SChan) : ∀ e ∈ s.joinBurst sc, e.isPlain := by
  intro e he
  simp only [Srv.joinBurst, List.mem_append] at he
  rcases he with he | he
  · split at he
    · cases he
    · simp only [List.mem_cons, List.not_mem_nil, or_false] at he
      rcases he with rfl | rfl
      · exact emit_plain _ _ _ (by decide)
      · exact emit_plain _ _ _ (by decide)
  · exact namesReply_plain s sc e he

theorem joinBot_plain (u : SUser) (cs : List Str) : ∀ (s : Srv), ∀ e ∈ (s.joinBot u cs).2, e.isPlain := by
  induction cs with
  | nil => intro s e he; cases he
  | cons c cs ih =>
    intro s e he
    unfold Srv.joinBot at he
    split at he
    · exact ih s e he
    · split at he
      · exact ih _ e he
      · simp only [List.mem_cons, List.mem_append] at he
        rcases he with (rfl | he) | he
        · exact emit_plain _ _ _ (by decide)
        · exact joinBurst_plain _ _ e he
        · exact ih _ e he

theorem replyWho_plain (s : Srv) (c : Str) : ∀ e ∈ (s.replyWho c).2, e.isPlain := by
  intro e he
  unfold Srv.replyWho at he
  split at he
  · exact whoReply_plain s _ e he
  · cases he

theorem replyMode_plain (s : Srv) (c : Str) : ∀ e ∈ (s.replyMode c).2, e.isPlain := by
  intro e he
  unfold Srv.replyMode at he
  split at he
  · simp only [List.mem_cons, List.not_mem_nil, or_false] at he
    rcases he with rfl | rfl
    · exact modeIs_plain s _
    · exact emit_plain _ _ _ (by decide)
  · cases he

theorem replyBans_plain (s : Srv) (c : Str) : ∀ e ∈ (s.replyBans c).2, e.isPlain := by
  intro e he
  unfold Srv.replyBans at he
  split at he
  · exact banList_plain s _ e he
  · cases he

/-- a list with at most one event, which is emitted with an ordinary command -/
theorem single_plain {cond : Bool} {p : Str} {c : String} {a : List Str} (h : cmdOf c.toList ≠ .batch) :
    ∀ e ∈ (if cond then [emit p c a] else ([] : List Ev)), e.isPlain := by
  intro e he
  split at he
  · simp only [List.mem_singleton] at he; subst he; exact emit_plain _ _ _ h
  · cases he

/-- everything an action other than a reconnect makes the server send is an ordinary message -/
theorem step_plain (s : Srv) (a : Act) (ha : a ≠ .reconnect) : ∀ e ∈ (s.step a).2, e.isPlain := by
  intro e he
  cases a with
  | reconnect => exact absurd rfl ha
  | connect n i h =>
    simp only [Srv.step] at he
    split at he <;> cases he
  | join n cs =>
    simp only [Srv.step] at he
    split at he
    · cases he
    · split at he
      · exact joinBot_plain _ _ _ e he
      · split at he
        · cases he
        · simp only [List.mem_singleton] at he; subst he; exact emit_plain _ _ _ (by decide)
  | part n cs r =>
    simp only [Srv.step] at he
    split at he
    · cases he
    · split at he
      · cases he
      · split at he
        · cases he
        · simp only [List.mem_singleton] at he; subst he; exact emit_plain _ _ _ (by decide)
  | kick src c ts r =>
    simp only [Srv.step] at he
    split at he
    · split at he
      · cases he
      · split at he
        · cases he
        · exact single_plain (by decide) e he
    · cases he
  | quit n r =>
    simp only [Srv.step] at he
    split at he
    · cases he
    · split at he
      · cases he
      · exact single_plain (by decide) e he
  | nick n n' =>
    simp only [Srv.step] at he
    split at he
    · cases he
    · split at he
      · cases he
      · exact single_plain (by decide) e he
  | mode src c cs =>
    simp only [Srv.step] at he
    split at he
    · split at he
      · cases he
      · exact single_plain (by decide) e he
    · cases he
  | topic src c t =>
    simp only [Srv.step] at he
    split at he
    · split at he
      · cases he
      · exact single_plain (by decide) e he
    · cases he
  | chghost n i h =>
    simp only [Srv.step] at he
    split at he
    · cases he
    · split at he
      · cases he
      · split at he
        · simp only [List.mem_singleton] at he; subst he; exact emit_plain _ _ _ (by decide)
        · split at he <;> cases he
  | say n t x =>
    simp only [Srv.step] at he
    split at he
    · cases he
    · split at he
      · cases he
      · split at he
        · simp only [List.mem_singleton] at he; subst he; exact emit_plain _ _ _ (by decide)
        · cases he
  | isupport =>
    simp only [Srv.step, List.mem_singleton] at he; subst he; exact emit_plain _ _ _ (by decide)
  | names c =>
    simp only [Srv.step] at he
    split at he
    · split at he
      · exact namesReply_plain s _ e he
      · cases he
    · cases he
  | who c => exact replyWho_plain s c e he
  | modeis c => exact replyMode_plain s c e he
  | banlist c => exact replyBans_plain s c e he
  | serve =>
    simp only [Srv.step] at he
    split at he
    · cases he
    · exact replyWho_plain _ _ e he
    · exact replyMode_plain _ _ e he
    · exact replyBans_plain _ _ e he

theorem view_step' (s : Srv) (b : Bot) (hw : SrvWF s) (hc : Coupled s b) (a : Act) (ha : a.ok) :
    SrvWF (s.step a).1 ∧ Coupled (s.step a).1 (b.recvAll (s.step a).2) :=
  ⟨wf_step hw a ha, coupled_step hw hc a ha⟩

/-! ### the bot with batches -/

theorem bbfeed_plain (bb : BBot) (tag : Option Str) (m : Msg) (hd : ∀ t, tag = some t → t ∈ bb.batches)
    (hm : cmdOf m.cmd ≠ .batch) : (bb.feed tag m).1 = ⟨(bb.bot.feed m).1, bb.batches⟩ := by
  unfold BBot.feed
  have hu : undeclaredTag bb.batches tag = false := by
    cases tag with
    | none => rfl
    | some t => simp [undeclaredTag, hd t rfl]
  rw [hu]
  have e : bb.bot.feedT false m = bb.bot.feed m := rfl
  rw [e]
  simp only [hm, ↓reduceIte]
  cases hx : (bb.bot.feed m).2 <;> rfl

theorem recvAll_tagged (ob : Option Str) (evs : List Ev) : ∀ (bb : BBot), (∀ ref, ob = some ref → ref ∈ bb.batches) →
    (∀ e ∈ evs, e.isPlain) → bb.recvAll (evs.map (tagWith ob)) = ⟨bb.bot.recvAll evs, bb.batches⟩ := by
  induction evs with
  | nil => intro bb _ _; rfl
  | cons e es ih =>
    intro bb hob hp
    have he := hp e (by simp)
    cases e with
    | reset => exact absurd he (by simp [Ev.isPlain])
    | msg m =>
      have hstep : bb.recv (tagWith ob (.msg m)) = ⟨(bb.bot.feed m).1, bb.batches⟩ := by
        cases ob with
        | none => exact bbfeed_plain bb none m (fun _ h => by cases h) he
        | some ref => exact bbfeed_plain bb (some ref) m (fun t h => by cases h; exact hob ref rfl) he
      simp only [List.map_cons, BBot.recvAll, List.foldl_cons] at ih ⊢
      rw [hstep]
      exact ih ⟨(bb.bot.feed m).1, bb.batches⟩ hob (fun e' he' => hp e' (by simp [he']))

theorem recv_plain_msg (bb : BBot) (m : Msg) : bb.recv (.plain (.msg m)) = (bb.feed none m).1 := rfl
theorem recv_plain_reset (bb : BBot) : bb.recv (.plain .reset) = bb.reset := rfl

/-- a BATCH command from the server leaves the bot proper untouched and raises nothing -/
theorem feed_batch_cmd {b : Bot} {p : Str} (hi : IsupOK b.isup) (hp : ServerOK p) (hne : p ≠ b.nick) (args : List Str) :
    b.feed ⟨p, "BATCH".toList, args⟩ = (b, .none) := by
  have h0 := tagOK_of_ok hi ⟨p, "BATCH".toList, args⟩
  unfold Bot.tagOK at h0
  have hns : "BATCH".toList ∉ Gen.nickSetters := by decide
  have hcmd : cmdOf "BATCH".toList = .batch := by decide
  have hpu : b.pfxUpd ⟨p, "BATCH".toList, args⟩ = b := pfxUpd_server hp.noBang hne _ _
  have e : (if ((⟨p, "BATCH".toList, args⟩ : Msg).nick = b.nick && b.pfx != (⟨p, "BATCH".toList, args⟩ : Msg).pfx) = true
      then { b with pfx := (⟨p, "BATCH".toList, args⟩ : Msg).pfx } else b) = b.pfxUpd ⟨p, "BATCH".toList, args⟩ := rfl
  unfold Bot.feed Bot.feedT
  simp only [h0, Bool.false_eq_true, ↓reduceIte, hne, hns]
  rw [e, hpu]
  simp only [Bot.ircCmd, hcmd, Bool.false_eq_true, ↓reduceIte, addMsg_eq, prelude_server hp.noBang, Bot.stateCmd]

/-- the invariant of a run with batches: the server's invariant, the coupling, and the batch the server is
sending is one the bot has open -/
structure BInv (s : Srv) (bb : BBot) (ob : Option Str) : Prop where
  wf : SrvWF s
  coupled : Coupled s bb.bot
  isOpen : ∀ ref, ob = some ref → ref ∈ bb.batches

def BAct.ok : BAct → Prop
  | .act a => a.ok
  | _ => True

theorem bstep_inv {s : Srv} {bb : BBot} {ob : Option Str} (h : BInv s bb ob) (a : BAct) (ha : a.ok) :
    BInv ((bstep s ob a).1.enqueue (bb.outAll (bstep s ob a).2.2)) (bb.recvAll (bstep s ob a).2.2) (bstep s ob a).2.1 := by
  have hsv := serverOK_of_cfg h.wf.cfg
  have hne : s.cfg.server ≠ bb.bot.nick := by rw [h.coupled.nick]; exact server_ne_nick hsv h.wf.botNickOK
  cases a with
  | act a =>
    by_cases hr : a = .reconnect
    · subst hr
      simp only [bstep, ↓reduceIte]
      have hstep := view_step' s bb.bot h.wf h.coupled .reconnect trivial
      -- the welcome after a reconnect is not batched
      have hshape : (s.step .reconnect).2 = [] ∨
          ∃ m1 m2, (s.step .reconnect).2 = [.reset, .msg m1, .msg m2] ∧ cmdOf m1.cmd ≠ .batch ∧ cmdOf m2.cmd ≠ .batch := by
        simp only [Srv.step]
        split
        · exact Or.inl rfl
        · split
          · exact Or.inl rfl
          · exact Or.inr ⟨_, _, rfl, (by decide : cmdOf "001".toList ≠ .batch), (by decide : cmdOf "005".toList ≠ .batch)⟩
      rcases hshape with he | ⟨m1, m2, he, h1, h2⟩
      · rw [he] at hstep ⊢
        simp only [List.map_nil, List.isEmpty_nil, ↓reduceIte]
        exact ⟨wf_enqueue hstep.1 _, coupled_pending hstep.2 _, h.isOpen⟩
      · rw [he] at hstep ⊢
        simp only [List.map_cons, List.map_nil, List.isEmpty_cons, Bool.false_eq_true, ↓reduceIte]
        refine ⟨wf_enqueue hstep.1 _, ?_, fun _ h' => by cases h'⟩
        have hb : (bb.recvAll [.plain .reset, .plain (.msg m1), .plain (.msg m2)]).bot =
            bb.bot.recvAll [.reset, .msg m1, .msg m2] := by
          simp only [BBot.recvAll, List.foldl_cons, List.foldl_nil, recv_plain_reset, recv_plain_msg, Bot.recvAll, Bot.recv]
          rw [bbfeed_plain _ none m1 (fun _ h' => by cases h') h1]
          rw [bbfeed_plain _ none m2 (fun _ h' => by cases h') h2]
          rfl
        rw [hb]
        exact coupled_pending hstep.2 _
    · simp only [bstep, hr, ↓reduceIte]
      have hstep := view_step' s bb.bot h.wf h.coupled a ha
      rw [recvAll_tagged ob _ bb h.isOpen (step_plain s a hr)]
      exact ⟨wf_enqueue hstep.1 _, coupled_pending hstep.2 _, h.isOpen⟩
  | batchOpen ref ty args =>
    simp only [bstep]
    split
    · have hem : emit s.cfg.server "BATCH" (('+' :: ref) :: ty :: args) = .msg ⟨s.cfg.server, "BATCH".toList, ('+' :: ref) :: ty :: args⟩ := rfl
      simp only [BBot.recvAll, List.foldl_cons, List.foldl_nil, hem, recv_plain_msg]
      have hfeed := feed_batch_cmd (b := bb.bot) h.coupled.isup hsv hne (('+' :: ref) :: ty :: args)
      have hres : (bb.feed none ⟨s.cfg.server, "BATCH".toList, ('+' :: ref) :: ty :: args⟩).1 =
          ⟨bb.bot, if ref ∈ bb.batches then bb.batches else ref :: bb.batches⟩ := by
        unfold BBot.feed
        have e : bb.bot.feedT false ⟨s.cfg.server, "BATCH".toList, ('+' :: ref) :: ty :: args⟩ =
            bb.bot.feed ⟨s.cfg.server, "BATCH".toList, ('+' :: ref) :: ty :: args⟩ := rfl
        have hu : undeclaredTag bb.batches none = false := rfl
        rw [hu, e, hfeed]
        have hcmd : cmdOf "BATCH".toList = .batch := by decide
        simp only [hcmd, ↓reduceIte, doBatch, List.head?_cons, List.drop_succ_cons, List.drop_zero]
      rw [hres]
      refine ⟨wf_enqueue h.wf _, coupled_pending h.coupled _, ?_⟩
      intro r hr'
      cases hr'
      show ref ∈ (if ref ∈ bb.batches then bb.batches else ref :: bb.batches)
      split
      · assumption
      · simp
    · simp only [BBot.recvAll, List.foldl_nil]
      exact ⟨wf_enqueue h.wf _, coupled_pending h.coupled _, h.isOpen⟩
  | batchClose =>
    simp only [bstep]
    split
    · rename_i ref
      have hem : emit s.cfg.server "BATCH" [('-' :: ref)] = .msg ⟨s.cfg.server, "BATCH".toList, [('-' :: ref)]⟩ := rfl
      simp only [BBot.recvAll, List.foldl_cons, List.foldl_nil, hem, recv_plain_msg]
      have hfeed := feed_batch_cmd (b := bb.bot) h.coupled.isup hsv hne [('-' :: ref)]
      have hin : ref ∈ bb.batches := h.isOpen ref rfl
      have hres : (bb.feed none ⟨s.cfg.server, "BATCH".toList, [('-' :: ref)]⟩).1.bot = bb.bot := by
        unfold BBot.feed
        have e : bb.bot.feedT false ⟨s.cfg.server, "BATCH".toList, [('-' :: ref)]⟩ =
            bb.bot.feed ⟨s.cfg.server, "BATCH".toList, [('-' :: ref)]⟩ := rfl
        have hu : undeclaredTag bb.batches none = false := rfl
        rw [hu, e, hfeed]
        have hcmd : cmdOf "BATCH".toList = .batch := by decide
        have hd : ¬ ('-' = '+') := by decide
        simp only [hcmd, ↓reduceIte, doBatch, List.head?_cons, Option.some.injEq, hd, List.drop_succ_cons, List.drop_zero, hin]
      refine ⟨wf_enqueue h.wf _, ?_, fun _ h' => by cases h'⟩
      rw [hres]
      exact coupled_pending h.coupled _
    · simp only [BBot.recvAll, List.foldl_nil]
      exact ⟨wf_enqueue h.wf _, coupled_pending h.coupled _, h.isOpen⟩

theorem runB_inv (acts : List BAct) : ∀ (s : Srv) (bb : BBot) (ob : Option Str), BInv s bb ob → (∀ a ∈ acts, a.ok) →
    BInv (runB s bb ob acts).1 (runB s bb ob acts).2.1 (runB s bb ob acts).2.2 := by
  induction acts with
  | nil => intro s bb ob h _; exact h
  | cons a as ih =>
    intro s bb ob h hok
    unfold runB
    exact ih _ _ _ (bstep_inv h a (hok a (by simp))) (fun a' ha' => hok a' (by simp [ha']))

end C10
