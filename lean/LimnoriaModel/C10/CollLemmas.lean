/-
C10 — lemmas about the collections of `Coll.lean`.
-/
import LimnoriaModel.C10.Coll
namespace C10

@[simp] theorem mem_sadd {s : List Str} {x y : Str} : y ∈ sadd s x ↔ y = x ∨ y ∈ s := by
  unfold sadd
  split <;> rename_i h
  · constructor
    · intro hy; exact Or.inr hy
    · rintro (rfl | hy)
      · exact h
      · exact hy
  · simp [List.mem_append, or_comm]

@[simp] theorem mem_sdel {s : List Str} {x y : Str} : y ∈ sdel s x ↔ y ≠ x ∧ y ∈ s := by
  unfold sdel
  simp [List.mem_filter, and_comm]

variable {κ : Type} [DecidableEq κ] {α : Type}

@[simp] theorem aget_nil (x : κ) : aget ([] : List (κ × α)) x = none := rfl

theorem aget_cons (k : κ) (v : α) (r : List (κ × α)) (x : κ) :
    aget ((k, v) :: r) x = if k = x then some v else aget r x := rfl

theorem aget_aset (m : List (κ × α)) (x : κ) (v : α) (y : κ) :
    aget (aset m x v) y = if x = y then some v else aget m y := by
  induction m with
  | nil => simp [aset, aget_cons]
  | cons p r ih =>
    obtain ⟨k, w⟩ := p
    unfold aset
    by_cases hk : k = x
    · subst hk
      simp only [↓reduceIte, aget_cons]
      by_cases hky : k = y <;> simp [hky]
    · simp only [hk, ↓reduceIte, aget_cons, ih]
      by_cases hky : k = y
      · subst hky
        have : ¬ x = k := fun h => hk h.symm
        simp [this]
      · simp [hky]

@[simp] theorem aget_aset_self (m : List (κ × α)) (x : κ) (v : α) : aget (aset m x v) x = some v := by
  simp [aget_aset]

theorem aget_aset_ne (m : List (κ × α)) {x y : κ} (v : α) (h : x ≠ y) : aget (aset m x v) y = aget m y := by
  simp [aget_aset, h]

theorem aget_adel (m : List (κ × α)) (x y : κ) :
    aget (adel m x) y = if x = y then none else aget m y := by
  induction m with
  | nil => simp [adel]
  | cons p r ih =>
    obtain ⟨k, w⟩ := p
    unfold adel at ih ⊢
    by_cases hk : k = x
    · subst hk
      simp only [List.filter_cons, bne_self_eq_false, Bool.false_eq_true, ↓reduceIte, ih, aget_cons]
      by_cases hky : k = y <;> simp [hky]
    · have hb : ((k, w).1 != x) = true := by simp [hk]
      simp only [List.filter_cons, hb, ↓reduceIte, aget_cons, ih]
      by_cases hky : k = y
      · subst hky
        have : ¬ x = k := fun h => hk h.symm
        simp [this]
      · simp [hky]

@[simp] theorem aget_adel_self (m : List (κ × α)) (x : κ) : aget (adel m x) x = none := by
  simp [aget_adel]

theorem aget_amod (m : List (κ × α)) (x : κ) (f : α → α) (y : κ) :
    aget (amod m x f) y = if x = y then (aget m y).map f else aget m y := by
  induction m with
  | nil => simp [amod]
  | cons p r ih =>
    obtain ⟨k, w⟩ := p
    unfold amod at ih ⊢
    simp only [List.map_cons]
    by_cases hk : k = x
    · subst hk
      simp only [↓reduceIte, aget_cons, ih]
      by_cases hky : k = y <;> simp [hky]
    · simp only [hk, ↓reduceIte, aget_cons, ih]
      by_cases hky : k = y
      · subst hky
        have : ¬ x = k := fun h => hk h.symm
        simp [this]
      · simp [hky]

theorem aget_amapAll (m : List (κ × α)) (f : α → α) (y : κ) :
    aget (amapAll m f) y = (aget m y).map f := by
  induction m with
  | nil => simp [amapAll]
  | cons p r ih =>
    obtain ⟨k, w⟩ := p
    unfold amapAll at ih ⊢
    simp only [List.map_cons, aget_cons, ih]
    by_cases hky : k = y <;> simp [hky]

/-- `aget` finds something iff the key occurs -/
theorem aget_isSome_iff (m : List (κ × α)) (x : κ) : (aget m x).isSome ↔ x ∈ akeys m := by
  induction m with
  | nil => simp [akeys]
  | cons p r ih =>
    obtain ⟨k, w⟩ := p
    simp only [aget_cons, akeys, List.map_cons, List.mem_cons]
    by_cases hk : k = x
    · simp [hk]
    · have : ¬ x = k := fun h => hk h.symm
      simp [hk, this]
      simpa [akeys] using ih

theorem aget_mem {m : List (κ × α)} {x : κ} {v : α} (h : aget m x = some v) : (x, v) ∈ m := by
  induction m with
  | nil => simp at h
  | cons p r ih =>
    obtain ⟨k, w⟩ := p
    rw [aget_cons] at h
    by_cases hk : k = x
    · simp [hk] at h; subst hk; subst h; simp
    · simp [hk] at h; exact List.mem_cons_of_mem _ (ih h)

/-- with distinct keys every entry is found by `aget` -/
theorem aget_of_mem_nodup {m : List (κ × α)} (hn : (akeys m).Nodup) {x : κ} {v : α} (h : (x, v) ∈ m) :
    aget m x = some v := by
  induction m with
  | nil => simp at h
  | cons p r ih =>
    obtain ⟨k, w⟩ := p
    simp only [akeys, List.map_cons, List.nodup_cons] at hn
    rw [aget_cons]
    rcases List.mem_cons.mp h with heq | hr
    · injection heq with h1 h2; subst h1; subst h2; simp
    · have hkx : k ≠ x := by
        intro hkx; subst hkx
        exact hn.1 (List.mem_map.mpr ⟨(k, v), hr, rfl⟩)
      simp [hkx]
      exact ih hn.2 hr

theorem akeys_aset (m : List (κ × α)) (x : κ) (v : α) :
    akeys (aset m x v) = if x ∈ akeys m then akeys m else akeys m ++ [x] := by
  induction m with
  | nil => simp [aset, akeys]
  | cons p r ih =>
    obtain ⟨k, w⟩ := p
    unfold aset
    by_cases hk : k = x
    · subst hk; simp [akeys]
    · have hne : ¬ x = k := fun h => hk h.symm
      have e1 : akeys ((k, w) :: aset r x v) = k :: akeys (aset r x v) := rfl
      have e2 : akeys ((k, w) :: r) = k :: akeys r := rfl
      simp only [hk, ↓reduceIte, e1, e2, ih, List.mem_cons, hne, false_or]
      by_cases hx : x ∈ akeys r <;> simp [hx]

theorem nodup_akeys_aset {m : List (κ × α)} (h : (akeys m).Nodup) (x : κ) (v : α) :
    (akeys (aset m x v)).Nodup := by
  rw [akeys_aset]
  split
  · exact h
  · rename_i hx
    exact List.nodup_append.mpr ⟨h, by simp, by intro a ha b hb; simp at hb; subst hb; intro hab; subst hab; exact hx ha⟩

theorem nodup_akeys_adel {m : List (κ × α)} (h : (akeys m).Nodup) (x : κ) : (akeys (adel m x)).Nodup := by
  unfold akeys adel at *
  exact (List.Sublist.map _ (List.filter_sublist)).nodup h

theorem nodup_akeys_filter {m : List (κ × α)} (h : (akeys m).Nodup) (p : κ × α → Bool) :
    (akeys (m.filter p)).Nodup := by
  unfold akeys at *
  exact (List.Sublist.map _ (List.filter_sublist)).nodup h

theorem akeys_mapVal (m : List (κ × α)) (f : κ × α → α) :
    akeys (m.map (fun p => (p.1, f p))) = akeys m := by
  unfold akeys; simp [List.map_map, Function.comp_def]

/-- lookup after filtering on the value, when keys are distinct -/
theorem aget_filter_nodup {m : List (κ × α)} (hn : (akeys m).Nodup) (p : α → Bool) (x : κ) :
    aget (m.filter (fun e => p e.2)) x = (aget m x).filter p := by
  induction m with
  | nil => simp
  | cons e r ih =>
    obtain ⟨k, w⟩ := e
    simp only [akeys, List.map_cons, List.nodup_cons] at hn
    by_cases hk : k = x
    · subst hk
      have hnone : aget r k = none := by
        cases h : aget r k with
        | none => rfl
        | some v => exact absurd (List.mem_map.mpr ⟨(k, v), aget_mem h, rfl⟩) hn.1
      have hnone' : aget (r.filter (fun e => p e.2)) k = none := by
        rw [ih hn.2, hnone]; rfl
      by_cases hp : p w = true
      · simp [List.filter_cons, hp, aget_cons, Option.filter]
      · simp [List.filter_cons, hp, aget_cons, hnone', Option.filter]
    · by_cases hp : p w = true
      · simp [List.filter_cons, hp, aget_cons, hk, ih hn.2]
      · simp [List.filter_cons, hp, aget_cons, hk, ih hn.2]

theorem aget_mapVal (m : List (κ × α)) (f : κ → α → α) (x : κ) :
    aget (m.map (fun p => (p.1, f p.1 p.2))) x = (aget m x).map (f x) := by
  induction m with
  | nil => simp
  | cons e r ih =>
    obtain ⟨k, w⟩ := e
    simp only [List.map_cons, aget_cons, ih]
    by_cases hk : k = x
    · subst hk; simp
    · simp [hk]

theorem aset_same (m : List (κ × α)) (x : κ) (v : α) (h : aget m x = some v) : aset m x v = m := by
  induction m with
  | nil => simp at h
  | cons p r ih =>
    obtain ⟨k, w⟩ := p
    rw [aget_cons] at h
    unfold aset
    by_cases hk : k = x
    · simp only [hk, ↓reduceIte, Option.some.injEq] at h ⊢
      subst h; subst hk; rfl
    · simp only [hk, ↓reduceIte] at h ⊢
      rw [ih h]

theorem aset_aset (m : List (κ × α)) (x : κ) (v w : α) : aset (aset m x v) x w = aset m x w := by
  induction m with
  | nil => simp [aset]
  | cons p r ih =>
    obtain ⟨k, u⟩ := p
    by_cases hk : k = x
    · simp [aset, hk]
    · simp [aset, hk, ih]

end C10
