/-
C10 — IRCv3 batches: `irc.state.batches` and the `batch` message tag, as a layer around `Bot`.
`IrcState.addMsg` asserts that a `batch` tag names an open batch (otherwise the handler is skipped),
`IrcState.doBatch` opens (`BATCH +name type …`) and closes (`BATCH -name`) batches.  The one-hour expiry of
the real `ExpiringDict` is not modelled.
-/
import LimnoriaModel.C10.Srv
namespace C10
open Py

/-- the bot together with the names of its open batches -/
structure BBot where
  bot : Bot
  batches : List Str := []
deriving Repr, DecidableEq, Inhabited

/-- `IrcState.doBatch` on the set of open batches; `none` = it raises -/
def doBatch (batches : List Str) (args : List Str) : Option (List Str) :=
  match args with
  | [] => none
  | a0 :: rest =>
    if a0.head? = some '+' then
      match rest with
      | [] => none
      | _ :: _ => some (if a0.drop 1 ∈ batches then batches else a0.drop 1 :: batches)
    else if a0.head? = some '-' then
      if a0.drop 1 ∈ batches then some (batches.filter (fun x => x != a0.drop 1)) else none
    else none

/-- does the `batch` tag name no open batch? -/
def undeclaredTag (batches : List Str) : Option Str → Bool
  | some t => !(batches.contains t)
  | none => false

/-- `feedMsg` of a message whose `batch` tag (if any) is `tag` -/
def BBot.feed (bb : BBot) (tag : Option Str) (m : Msg) : BBot × Exc :=
  let r := bb.bot.feedT (undeclaredTag bb.batches tag) m
  match r.2 with
  | .none =>
    if cmdOf m.cmd = .batch then
      match doBatch bb.batches m.args with
      | some bs => (⟨r.1, bs⟩, .none)
      | none => (⟨r.1, bb.batches⟩, .state)
    else (⟨r.1, bb.batches⟩, .none)
  | e => (⟨r.1, bb.batches⟩, e)

/-- `Irc.reset()` also clears the batches -/
def BBot.reset (bb : BBot) : BBot := ⟨bb.bot.reset, []⟩

/-- what reaches the bot, now possibly tagged -/
inductive BEv
  | plain (e : Ev)
  | tagged (ref : Str) (m : Msg)
deriving Repr, DecidableEq, Inhabited

def BBot.recv (bb : BBot) : BEv → BBot
  | .plain (.msg m) => (bb.feed none m).1
  | .plain .reset => bb.reset
  | .tagged ref m => (bb.feed (some ref) m).1

def BBot.recvAll (bb : BBot) (es : List BEv) : BBot := es.foldl BBot.recv bb

def BBot.outAll (bb : BBot) : List BEv → List Msg
  | [] => []
  | e :: es =>
    (match e with
      | .plain (.msg m) => bb.bot.out m
      | .tagged _ m => bb.bot.out m
      | .plain .reset => []) ++ (bb.recv e).outAll es

/-- actions of a server that may wrap what it sends in a batch -/
inductive BAct
  | act (a : Act)
  /-- `BATCH +ref type args…`: from now on every message is tagged `batch=ref` -/
  | batchOpen (ref type : Str) (args : List Str)
  /-- `BATCH -ref` -/
  | batchClose
deriving Repr, DecidableEq, Inhabited

def tagWith (ob : Option Str) (e : Ev) : BEv :=
  match ob, e with
  | some ref, .msg m => .tagged ref m
  | _, e => .plain e

/-- the server's side of a batch: which reference is open -/
def bstep (s : Srv) (ob : Option Str) : BAct → Srv × Option Str × List BEv
  | .act a =>
    let r := s.step a
    -- a new connection ends whatever batch was being sent; its welcome is not part of it
    if a = .reconnect then (r.1, (if r.2.isEmpty then ob else none), r.2.map .plain)
    else (r.1, ob, r.2.map (tagWith ob))
  | .batchOpen ref ty args =>
    if s.cfg.batch && ob.isNone && validParam ref && validParam ty && args.all validParam then
      (s, some ref, [.plain (emit s.cfg.server "BATCH" (('+' :: ref) :: ty :: args))])
    else (s, ob, [])
  | .batchClose =>
    match ob with
    | some ref => (s, none, [.plain (emit s.cfg.server "BATCH" [('-' :: ref)])])
    | none => (s, ob, [])

/-- the run of a server that batches -/
def runB (s : Srv) (bb : BBot) (ob : Option Str) : List BAct → Srv × BBot × Option Str
  | [] => (s, bb, ob)
  | a :: as =>
    let r := bstep s ob a
    runB (r.1.enqueue (bb.outAll r.2.2)) (bb.recvAll r.2.2) r.2.1 as

end C10
