/-
C10 — the bot's own JOIN of one channel: JOIN echo followed by topic, NAMES, WHO, mode, creation
time and ban-list replies.
-/
import LimnoriaModel.C10.Burst5
namespace C10
open Py

theorem frame_setChan (s : Srv) (key : Str) (b : Bot) (ch : Chan) :
    Frame s key b { b with channels := aset b.channels key ch } :=
  ⟨rfl, rfl, rfl, rfl, rfl, fun _ hk => aget_aset_ne _ _ (Ne.symm hk), fun _ => Or.inl rfl⟩

/-- what `enter` does, in one statement -/
theorem enter_spec {s s1 : Srv} {k c name : Str} (he : s.enter k c = some (s1, name)) :
    validChan c = true ∧ ∃ sc1, s1 = { s with chans := aset s.chans (lower c) sc1 } ∧ sc1.name = name ∧
      ((aget s.chans (lower c) = none ∧ name = c ∧ sc1 = { name := c, members := [(k, { o := true })] }) ∨
       (∃ sc, aget s.chans (lower c) = some sc ∧ sc.has k = false ∧ sc1 = { sc with members := sc.members ++ [(k, {})] })) := by
  unfold Srv.enter at he
  split at he
  · cases he
  · rename_i hv
    simp only [Bool.not_eq_eq_eq_not, Bool.not_true, Bool.not_eq_false] at hv
    refine ⟨hv, ?_⟩
    split at he
    · rename_i hch
      cases he
      exact ⟨_, rfl, rfl, Or.inl ⟨hch, rfl, rfl⟩⟩
    · rename_i sc hch
      split at he
      · cases he
      · rename_i hnot
        cases he
        exact ⟨_, rfl, rfl, Or.inr ⟨sc, hch, by simpa using hnot, rfl⟩⟩

theorem shown_mem {s : Srv} {ps : List (Str × Flags)} {x : Str} {f : Flags} (h : (x, f) ∈ ps) :
    (x, shown s.cfg f) ∈ shownMembers s ps := by
  simp only [shownMembers, List.mem_map, Prod.mk.injEq]
  exact ⟨(x, f), h, rfl, rfl⟩

/-- what the bot gets unasked after its own JOIN (topic, NAMES) brings its fresh record of the channel in
line with the server's, as far as those replies go: modes and bans still have to be asked for -/
theorem burst_effect {s : Srv} {b : Bot} (h : AtSrv s b) {k : Str} {sc : SChan} (hsc : aget s.chans k = some sc)
    (hbot : sc.has s.botKey = true)
    (hch : aget b.channels k = some { Chan.empty with users := [s.botKey] }) :
    Frame s k b (b.recvAll (s.joinBurst sc)) ∧
    (∃ ch', aget (b.recvAll (s.joinBurst sc)).channels k = some ch' ∧ ChanMatches s.cfg.multiPrefix false false sc ch') ∧
    (s.cfg.uhnames = true → ∀ p ∈ sc.members, ∃ u, aget s.users p.1 = some u ∧
      aget (b.recvAll (s.joinBurst sc)).n2h p.1 = some u.mask) := by
  have hcw := h.wf.chans k sc hsc
  have hkey := hcw.key
  subst hkey
  unfold Srv.joinBurst
  simp only [recvAll_append]
  -- topic
  obtain ⟨b1, ch1, hb1, hf1, hch1, ht1, hv1⟩ : ∃ b1 ch1,
      b.recvAll (if sc.topic.isEmpty then [] else
        [emit s.cfg.server "332" [s.bot, sc.name, sc.topic], emit s.cfg.server "333" [s.bot, sc.name, s.cfg.server, ['0']]]) = b1 ∧
      Frame s (lower sc.name) b b1 ∧ aget b1.channels (lower sc.name) = some ch1 ∧ ch1.topic = sc.topic ∧
      (ch1.users = [s.botKey] ∧ ch1.ops = [] ∧ ch1.halfops = [] ∧ ch1.voices = [] ∧ ch1.modes = [] ∧ ch1.bans = []) := by
    by_cases ht : sc.topic.isEmpty = true
    · simp only [ht, ↓reduceIte, recvAll_nil]
      refine ⟨b, _, rfl, Frame.refl _ _ _, hch, ?_, rfl, rfl, rfl, rfl, rfl, rfl⟩
      have : sc.topic = [] := by simpa using ht
      rw [this]; rfl
    · simp only [ht, Bool.false_eq_true, ↓reduceIte]
      have htne : sc.topic ≠ [] := by intro e; apply ht; rw [e]; rfl
      rw [topic_lines h sc hch htne]
      exact ⟨_, _, rfl, frame_setChan _ _ _ _, aget_aset_self _ _ _, rfl, rfl, rfl, rfl, rfl, rfl, rfl⟩
  rw [hb1]
  have h1 := h.frame hf1
  -- NAMES
  obtain ⟨hf2, ⟨ch2, hch2, hr2⟩, hn2⟩ := names_reply h1 hsc hch1
  refine ⟨hf1.trans hf2, ⟨ch2, hch2, ?_⟩, hn2⟩
  refine ⟨⟨?_, ?_⟩, ⟨?_, ?_⟩, ⟨?_, ?_⟩, ⟨?_, ?_⟩, ?_, ?_, ?_, ?_, ?_⟩
  · intro x hx
    rcases (hr2.users x).mp hx with hx | ⟨f', hf'⟩
    · rw [hv1.1] at hx
      simp only [List.mem_singleton] at hx
      subst hx
      obtain ⟨f, hf⟩ := has_iff.mp hbot
      exact ⟨f, hf, trivial⟩
    · obtain ⟨f, hf, _⟩ := mem_shown hf'; exact ⟨f, hf, trivial⟩
  · intro _ x ⟨f, hf, _⟩; exact (hr2.users x).mpr (Or.inr ⟨_, shown_mem hf⟩)
  · intro x hx
    rcases (hr2.ops x).mp hx with hx | ⟨f', hf', ho⟩
    · rw [hv1.2.1] at hx; cases hx
    · obtain ⟨f, hf, rfl⟩ := mem_shown hf'; exact ⟨f, hf, show f.o = true from (shown_o s.cfg f).symm.trans ho⟩
  · intro _ x ⟨f, hf, ho⟩
    exact (hr2.ops x).mpr (Or.inr ⟨_, shown_mem hf, (shown_o s.cfg f).trans ho⟩)
  · intro x hx
    rcases (hr2.halfops x).mp hx with hx | ⟨f', hf', ho⟩
    · rw [hv1.2.2.1] at hx; cases hx
    · obtain ⟨f, hf, rfl⟩ := mem_shown hf'; exact ⟨f, hf, shown_h s.cfg f ho⟩
  · intro hmp x ⟨f, hf, ho⟩
    exact (hr2.halfops x).mpr (Or.inr ⟨_, shown_mem hf, by rw [shown_mp hmp]; exact ho⟩)
  · intro x hx
    rcases (hr2.voices x).mp hx with hx | ⟨f', hf', ho⟩
    · rw [hv1.2.2.2.1] at hx; cases hx
    · obtain ⟨f, hf, rfl⟩ := mem_shown hf'; exact ⟨f, hf, shown_v s.cfg f ho⟩
  · intro hmp x ⟨f, hf, ho⟩
    exact (hr2.voices x).mpr (Or.inr ⟨_, shown_mem hf, by rw [shown_mp hmp]; exact ho⟩)
  · rw [hr2.topic, ht1]
  · intro m
    rcases hr2.modes m with e | ⟨hty, rfl, e⟩
    · right; rw [e, hv1.2.2.2.2.1]; rfl
    · left; rw [e]
      by_cases hs : (aget sc.modes 's').isSome = true
      · exact (secret_is_flag hcw.modes hs).symm
      · simp only [hs, Bool.false_eq_true, ↓reduceIte] at hty
        split at hty <;> simp at hty
  · intro hf; cases hf
  · intro x hx; rw [hr2.bans, hv1.2.2.2.2.2] at hx; cases hx
  · intro hf; cases hf

end C10
