/-
C10 — the bot's own JOIN of one channel: JOIN echo followed by topic, NAMES, WHO, mode, creation
time and ban-list replies.
-/
import LimnoriaModel.C10.Burst5
namespace C10
open Py

theorem frame_setChan (s : Srv) (key : Str) (b : Bot) (ch : Chan) :
    Frame s key b { b with channels := aset b.channels key ch } :=
  ⟨rfl, rfl, rfl, rfl, fun _ hk => aget_aset_ne _ _ (Ne.symm hk), fun _ => Or.inl rfl⟩

/-- what `enter` does, in one statement -/
theorem enter_spec {s s1 : Srv} {k c name : Str} (he : s.enter k c = some (s1, name)) :
    validChan c = true ∧ ∃ sc1, s1 = { s with chans := aset s.chans (lower c) sc1 } ∧ sc1.name = name ∧
      ((aget s.chans (lower c) = none ∧ name = c ∧ sc1 = { name := c, members := [(k, { o := true })] }) ∨
       (∃ sc, aget s.chans (lower c) = some sc ∧ sc.has k = false ∧ sc1 = { sc with members := sc.members ++ [(k, {})] })) := by
  unfold Srv.enter at he
  split at he
  · cases he
  · rename_i hv
    simp only [Bool.not_eq_eq_eq_not, Bool.not_true, Bool.not_eq_false] at hv
    refine ⟨hv, ?_⟩
    split at he
    · rename_i hch
      cases he
      exact ⟨_, rfl, rfl, Or.inl ⟨hch, rfl, rfl⟩⟩
    · rename_i sc hch
      split at he
      · cases he
      · rename_i hnot
        cases he
        exact ⟨_, rfl, rfl, Or.inr ⟨sc, hch, by simpa using hnot, rfl⟩⟩

/-- the burst after the bot's own JOIN brings its (fresh) record of the channel in line with the server's -/
theorem burst_effect {s : Srv} {b : Bot} (h : AtSrv s b) {k : Str} {sc : SChan} (hsc : aget s.chans k = some sc)
    (hbot : sc.has s.botKey = true)
    (hch : aget b.channels k = some { Chan.empty with users := [s.botKey] }) :
    Frame s k b (b.recvAll (s.joinBurst sc)) ∧
    (∃ ch', aget (b.recvAll (s.joinBurst sc)).channels k = some ch' ∧ ChanMatches sc ch') ∧
    (∀ p ∈ sc.members, ∃ u, aget s.users p.1 = some u ∧ aget (b.recvAll (s.joinBurst sc)).n2h p.1 = some u.mask) := by
  have hcw := h.wf.chans k sc hsc
  have hkey := hcw.key
  subst hkey
  unfold Srv.joinBurst
  simp only [recvAll_append]
  -- topic
  obtain ⟨b1, ch1, hb1, hf1, hch1, ht1, hv1⟩ : ∃ b1 ch1,
      b.recvAll (if sc.topic.isEmpty then [] else
        [emit s.cfg.server "332" [s.bot, sc.name, sc.topic], emit s.cfg.server "333" [s.bot, sc.name, s.cfg.server, ['0']]]) = b1 ∧
      Frame s (lower sc.name) b b1 ∧ aget b1.channels (lower sc.name) = some ch1 ∧ ch1.topic = sc.topic ∧
      (ch1.users = [s.botKey] ∧ ch1.ops = [] ∧ ch1.halfops = [] ∧ ch1.voices = [] ∧ ch1.modes = [] ∧ ch1.bans = []) := by
    by_cases ht : sc.topic.isEmpty = true
    · simp only [ht, ↓reduceIte, recvAll_nil]
      refine ⟨b, _, rfl, Frame.refl _ _ _, hch, ?_, rfl, rfl, rfl, rfl, rfl, rfl⟩
      have : sc.topic = [] := by simpa using ht
      rw [this]; rfl
    · simp only [ht, Bool.false_eq_true, ↓reduceIte]
      have htne : sc.topic ≠ [] := by intro e; apply ht; rw [e]; rfl
      rw [topic_lines h sc hch htne]
      exact ⟨_, _, rfl, frame_setChan _ _ _ _, aget_aset_self _ _ _, rfl, rfl, rfl, rfl, rfl, rfl, rfl⟩
  rw [hb1]
  have h1 := h.frame hf1
  -- NAMES
  obtain ⟨hf2, ch2, hch2, hr2⟩ := names_reply h1 hsc hch1
  have h2 := h1.frame hf2
  -- WHO
  obtain ⟨hf3, hcs3, hn3⟩ := who_reply (b := b1.recvAll (s.namesReply sc)) h2 hsc
  have h3 := h2.frame hf3
  have hch3 : aget ((b1.recvAll (s.namesReply sc)).recvAll (s.whoReply sc)).channels (lower sc.name) = some ch2 := by
    rw [hcs3]; exact hch2
  -- name the state reached so far
  obtain ⟨b3, hb3⟩ : ∃ b3, b3 = (b1.recvAll (s.namesReply sc)).recvAll (s.whoReply sc) := ⟨_, rfl⟩
  rw [← hb3] at h3 hch3 hn3 hf3 ⊢
  -- 324, 329
  simp only [recvAll_cons, recvAll_nil]
  rw [mode_line h3 hsc hch3]
  obtain ⟨b4, hb4⟩ : ∃ b4, b4 = ({ b3 with channels := (aset b3.channels (lower sc.name)
      { ch2 with modes := sc.modes.foldl (fun acc e => aset acc e.1 e.2) ch2.modes }) } : Bot) := ⟨_, rfl⟩
  rw [← hb4]
  have h4 : AtSrv s b4 := by rw [hb4]; exact ⟨h3.wf, h3.nick⟩
  have hch4 : aget b4.channels (lower sc.name) = some { ch2 with modes := sc.modes.foldl (fun acc e => aset acc e.1 e.2) ch2.modes } := by
    rw [hb4]; exact aget_aset_self _ _ _
  obtain ⟨ch4, hb5, hv4⟩ := created_line h4 sc hch4
  rw [hb5]
  obtain ⟨b5, hb5'⟩ : ∃ b5, b5 = ({ b4 with channels := aset b4.channels (lower sc.name) ch4 } : Bot) := ⟨_, rfl⟩
  rw [← hb5']
  have h5 : AtSrv s b5 := by rw [hb5']; exact ⟨h4.wf, h4.nick⟩
  have hch5 : aget b5.channels (lower sc.name) = some ch4 := by rw [hb5']; exact aget_aset_self _ _ _
  -- bans
  unfold Srv.banList
  simp only [recvAll_append]
  rw [ban_lines sc sc.bans h5 hch5]
  obtain ⟨b6, hb6⟩ : ∃ b6, b6 = ({ b5 with channels := (aset b5.channels (lower sc.name)
      { ch4 with bans := sc.bans.foldl (fun acc m => sadd acc (lower m)) ch4.bans }) } : Bot) := ⟨_, rfl⟩
  rw [← hb6]
  have h6 : AtSrv s b6 := by rw [hb6]; exact ⟨h5.wf, h5.nick⟩
  simp only [recvAll_cons, recvAll_nil, recv_emit]
  rw [noop_line h6 "368".toList [sc.name, "End of channel ban list".toList] cmdOf_368]
  subst hb6
  have hf4 : Frame s (lower sc.name) b3 b4 := by rw [hb4]; exact frame_setChan _ _ _ _
  have hf5 : Frame s (lower sc.name) b4 b5 := by rw [hb5']; exact frame_setChan _ _ _ _
  have hn5 : b5.n2h = b3.n2h := by rw [hb5', hb4]
  -- conclusions
  refine ⟨?_, ⟨_, aget_aset_self _ _ _, ?_⟩, ?_⟩
  · exact (hf1.trans (hf2.trans hf3)).trans (hf4.trans (hf5.trans (frame_setChan _ _ _ _)))
  · refine ⟨?_, ?_, ?_, ?_, ?_, ?_, ?_⟩
    · intro x
      show x ∈ ch4.users ↔ _
      rw [hv4.users]
      show x ∈ ch2.users ↔ _
      rw [hr2.users, hv1.1]
      simp only [List.mem_singleton]
      constructor
      · rintro (rfl | h)
        · exact has_iff.mp hbot
        · exact h
      · intro h; exact Or.inr h
    · intro x
      show x ∈ ch4.ops ↔ _
      rw [hv4.ops]
      show x ∈ ch2.ops ↔ _
      rw [hr2.ops, hv1.2.1]; simp
    · intro x
      show x ∈ ch4.halfops ↔ _
      rw [hv4.halfops]
      show x ∈ ch2.halfops ↔ _
      rw [hr2.halfops, hv1.2.2.1]; simp
    · intro x
      show x ∈ ch4.voices ↔ _
      rw [hv4.voices]
      show x ∈ ch2.voices ↔ _
      rw [hr2.voices, hv1.2.2.2.1]; simp
    · show ch4.topic = _
      rw [hv4.topic]
      show ch2.topic = _
      rw [hr2.topic, ht1]
    · intro m
      show aget ch4.modes m = _
      rw [hv4.modes]
      show aget (sc.modes.foldl (fun acc e => aset acc e.1 e.2) ch2.modes) m = _
      rw [foldl_aset_get _ _ hcw.modesNodup]
      cases hg : aget sc.modes m with
      | some v => rfl
      | none =>
        simp only
        rcases hr2.modes m with e | ⟨hty, rfl, _⟩
        · rw [e, hv1.2.2.2.2.1]; rfl
        · exfalso
          by_cases hs : (aget sc.modes 's').isSome = true
          · rw [hg] at hs; cases hs
          · simp only [hs, Bool.false_eq_true, ↓reduceIte] at hty
            split at hty <;> simp at hty
    · intro x
      show x ∈ sc.bans.foldl (fun acc m => sadd acc (lower m)) ch4.bans ↔ _
      rw [foldl_sadd_mem, hv4.bans]
      show x ∈ ch2.bans ∨ _ ↔ _
      rw [hr2.bans, hv1.2.2.2.2.2]; simp
  · intro p hp
    obtain ⟨u, hu, hn⟩ := hn3 p hp
    refine ⟨u, hu, ?_⟩
    show aget b5.n2h p.1 = _
    rw [hn5]; exact hn

end C10
