/-
C10 — collections used by both the bot-side model and the reference server:
`IrcSet` as a list of (already lowered) keys, `IrcDict`/`dict` as association lists with
first-match lookup.  Mathlib-free (linked into the driver).
-/
import LimnoriaModel.Py.Basic
namespace C10
abbrev Str := Py.Str

/-- `IrcSet.add` on a set of lowered keys -/
def sadd (s : List Str) (x : Str) : List Str := if x ∈ s then s else s ++ [x]
/-- `IrcSet.discard` -/
def sdel (s : List Str) (x : Str) : List Str := s.filter (fun y => y != x)

variable {κ : Type} [DecidableEq κ] {α : Type}

/-- `d.get(k)` (first match) -/
def aget : List (κ × α) → κ → Option α
  | [], _ => none
  | (k, v) :: r, x => if k = x then some v else aget r x

/-- `d[k] = v` -/
def aset : List (κ × α) → κ → α → List (κ × α)
  | [], x, v => [(x, v)]
  | (k, w) :: r, x, v => if k = x then (k, v) :: r else (k, w) :: aset r x v

/-- `del d[k]` / `d.pop(k, None)` -/
def adel (m : List (κ × α)) (x : κ) : List (κ × α) := m.filter (fun p => p.1 != x)

/-- in-place mutation of the value stored under `k` (nothing when absent) -/
def amod (m : List (κ × α)) (x : κ) (f : α → α) : List (κ × α) :=
  m.map (fun p => if p.1 = x then (p.1, f p.2) else p)

/-- in-place mutation of every value -/
def amapAll (m : List (κ × α)) (f : α → α) : List (κ × α) := m.map (fun p => (p.1, f p.2))

def akeys (m : List (κ × α)) : List κ := m.map (·.1)

end C10
