/-
C10 — simulation, part 8: one accepted MODE change has the same effect on both sides; the MODE action.
-/
import LimnoriaModel.C10.Sim7
namespace C10
open Py

/-! ### status flags -/

theorem setFlag_get (ms : List (Str × Flags)) (k : Str) (g : Flags → Flags) (P : Flags → Prop) (x : Str) :
    (∃ f, (x, f) ∈ setFlag ms k g ∧ P f) ↔
      (x = k ∧ ∃ f, (k, f) ∈ ms ∧ P (g f)) ∨ (x ≠ k ∧ ∃ f, (x, f) ∈ ms ∧ P f) := by
  unfold setFlag
  simp only [List.mem_map]
  constructor
  · rintro ⟨f, ⟨⟨a, f0⟩, hq, he⟩, hp⟩
    by_cases hak : a = k
    · subst hak
      simp only [↓reduceIte, Prod.mk.injEq] at he
      obtain ⟨rfl, rfl⟩ := he
      exact Or.inl ⟨rfl, f0, hq, hp⟩
    · simp only [hak, ↓reduceIte, Prod.mk.injEq] at he
      obtain ⟨rfl, rfl⟩ := he
      exact Or.inr ⟨hak, f0, hq, hp⟩
  · rintro (⟨rfl, f, hf, hp⟩ | ⟨hx, f, hf, hp⟩)
    · exact ⟨g f, ⟨(x, f), hf, by simp⟩, hp⟩
    · exact ⟨f, ⟨(x, f), hf, by simp [hx]⟩, hp⟩

/-- a getter the update does not touch -/
theorem setFlag_keep (ms : List (Str × Flags)) (k : Str) (g : Flags → Flags) (P : Flags → Prop)
    (hg : ∀ f, P (g f) ↔ P f) (x : Str) :
    (∃ f, (x, f) ∈ setFlag ms k g ∧ P f) ↔ ∃ f, (x, f) ∈ ms ∧ P f := by
  rw [setFlag_get]
  constructor
  · rintro (⟨rfl, f, hf, hp⟩ | ⟨_, f, hf, hp⟩)
    · exact ⟨f, hf, (hg f).mp hp⟩
    · exact ⟨f, hf, hp⟩
  · rintro ⟨f, hf, hp⟩
    by_cases hx : x = k
    · subst hx; exact Or.inl ⟨rfl, f, hf, (hg f).mpr hp⟩
    · exact Or.inr ⟨hx, f, hf, hp⟩

theorem Tracks.setFlag_keep {full : Prop} {S : List Str} {ms : List (Str × Flags)} {P : Flags → Prop}
    (h : Tracks full S ms P) (k : Str) (g : Flags → Flags) (hg : ∀ f, P (g f) ↔ P f) : Tracks full S (setFlag ms k g) P where
  sub := fun x hx => (C10.setFlag_keep ms k g P hg x).mpr (h.sub x hx)
  sup := fun hfull x hex => h.sup hfull x ((C10.setFlag_keep ms k g P hg x).mp hex)

/-- the getter the update sets to `add`, as a set operation on the nicks having it -/
theorem Tracks.setFlag_set {full : Prop} {S : List Str} {ms : List (Str × Flags)} {P : Flags → Prop}
    (h : Tracks full S ms P) (k : Str) (g : Flags → Flags) (add : Bool) (hg : ∀ f, P (g f) ↔ add = true)
    (hk : ∃ f, (k, f) ∈ ms) : Tracks full (if add then sadd S k else sdel S k) (setFlag ms k g) P where
  sub := fun x hx => by
    rw [setFlag_get]
    obtain ⟨f0, hf0⟩ := hk
    cases add with
    | true =>
      simp only [↓reduceIte, mem_sadd] at hx
      rcases hx with rfl | hx
      · exact Or.inl ⟨rfl, f0, hf0, (hg f0).mpr rfl⟩
      · obtain ⟨f, hf, hp⟩ := h.sub x hx
        by_cases hxk : x = k
        · subst hxk; exact Or.inl ⟨rfl, f, hf, (hg f).mpr rfl⟩
        · exact Or.inr ⟨hxk, f, hf, hp⟩
    | false =>
      simp only [Bool.false_eq_true, ↓reduceIte, mem_sdel] at hx
      obtain ⟨f, hf, hp⟩ := h.sub x hx.2
      exact Or.inr ⟨hx.1, f, hf, hp⟩
  sup := fun hfull x hex => by
    rcases (setFlag_get ms k g P x).mp hex with ⟨rfl, f, _, hp⟩ | ⟨hxk, f, hf, hp⟩
    · have := (hg f).mp hp
      subst this
      simp
    · have hxS := h.sup hfull x ⟨f, hf, hp⟩
      cases add with
      | true => simp only [↓reduceIte, mem_sadd]; exact Or.inr hxS
      | false => simp only [Bool.false_eq_true, ↓reduceIte, mem_sdel]; exact ⟨hxk, hxS⟩

theorem has_setFlag (sc : SChan) (k : Str) (g : Flags → Flags) (x : Str) :
    ({ sc with members := setFlag sc.members k g } : SChan).has x = sc.has x := by
  have h := setFlag_keep sc.members k g (fun _ => True) (fun _ => Iff.rfl) x
  simp only [and_true] at h
  cases h1 : ({ sc with members := setFlag sc.members k g } : SChan).has x <;> cases h2 : sc.has x
  · rfl
  · rw [has_iff] at h2; rw [← Bool.not_eq_true, has_iff] at h1; exact absurd (h.mpr h2) h1
  · rw [has_iff] at h1; rw [← Bool.not_eq_true, has_iff] at h2; exact absurd (h.mp h1) h2
  · rfl

/-! ### `ChannelState.doMode`, one change, by class -/

theorem tracked_eq : Gen.trackedModes = ['o', 'v', 'h', 'b', 'e', 'q', 'I'] := tracked_table_ok.1

theorem modeStep_set (ch : Chan) (a : Bool) (c : Char) (w : Nat) (v : Option Str) (hc : c ∈ Gen.trackedModes)
    (hw : aget Gen.modeSets c = some w) :
    ch.modeStep (sign a, c, v) =
      some (setAt ch w (fun s => if a then sadd s (lower (valStr v)) else sdel s (lower (valStr v)))) := by
  cases a <;> simp [Chan.modeStep, hc, hw, sign]

theorem modeStep_ignored (ch : Chan) (a : Bool) (c : Char) (v : Option Str) (hc : c ∈ Gen.trackedModes)
    (hw : aget Gen.modeSets c = none) : ch.modeStep (sign a, c, v) = some ch := by
  simp [Chan.modeStep, hc, hw]

theorem modeStep_plain (ch : Chan) (a : Bool) (c : Char) (v : Option Str) (hc : c ∉ Gen.trackedModes) :
    ch.modeStep (sign a, c, v) =
      some { ch with modes := if a then aset ch.modes c v else adel ch.modes c } := by
  have h1 : c ∉ Gen.setModeForbidden := fun h => hc (tracked_table_ok.2.2.2.2.2.2.2.2.1 c h)
  have h2 : c ∉ Gen.unsetModeForbidden := fun h => hc (tracked_table_ok.2.2.2.2.2.2.2.2.2.1 c h)
  cases a <;> simp [Chan.modeStep, hc, h1, h2, sign]

theorem class_not_tracked : ∀ c ∈ keyModes ++ limitModes, c ∉ ['o', 'v', 'h', 'b', 'e', 'q', 'I'] := by decide
theorem tracked_in_class : ∀ c ∈ ['o', 'v', 'h', 'b', 'e', 'q', 'I'], c ∈ prefixModes ++ listModes ++ keyModes ++ limitModes := by decide

theorem flag_not_tracked {c : Char} (h : isFlagMode c = true) : c ∉ Gen.trackedModes := by
  rw [tracked_eq]
  intro hm; exact flag_not_class h (tracked_in_class c hm)

/-- the same flag update on both sides -/
theorem matches_flag_o {mp ms bs : Bool} {sc : SChan} {ch : Chan} (hm : ChanMatches mp ms bs sc ch) (k : Str)
    (hk : sc.has k = true) (add : Bool) :
    ChanMatches mp ms bs { sc with members := setFlag sc.members k (fun f => { f with o := add }) }
      (setAt ch 0 (fun s => if add then sadd s k else sdel s k)) :=
  ⟨hm.users.setFlag_keep k (fun f => { f with o := add }) (fun _ => Iff.rfl),
   hm.ops.setFlag_set k (fun f => { f with o := add }) add (fun f => by simp) (has_iff.mp hk),
   hm.halfops.setFlag_keep k (fun f => { f with o := add }) (fun _ => Iff.rfl), hm.voices.setFlag_keep k (fun f => { f with o := add }) (fun _ => Iff.rfl),
   hm.topic, hm.modes, hm.modesFull, hm.bans, hm.bansFull⟩

theorem matches_flag_h {mp ms bs : Bool} {sc : SChan} {ch : Chan} (hm : ChanMatches mp ms bs sc ch) (k : Str)
    (hk : sc.has k = true) (add : Bool) :
    ChanMatches mp ms bs { sc with members := setFlag sc.members k (fun f => { f with h := add }) }
      (setAt ch 1 (fun s => if add then sadd s k else sdel s k)) :=
  ⟨hm.users.setFlag_keep k (fun f => { f with h := add }) (fun _ => Iff.rfl), hm.ops.setFlag_keep k (fun f => { f with h := add }) (fun _ => Iff.rfl),
   hm.halfops.setFlag_set k (fun f => { f with h := add }) add (fun f => by simp) (has_iff.mp hk),
   hm.voices.setFlag_keep k (fun f => { f with h := add }) (fun _ => Iff.rfl),
   hm.topic, hm.modes, hm.modesFull, hm.bans, hm.bansFull⟩

theorem matches_flag_v {mp ms bs : Bool} {sc : SChan} {ch : Chan} (hm : ChanMatches mp ms bs sc ch) (k : Str)
    (hk : sc.has k = true) (add : Bool) :
    ChanMatches mp ms bs { sc with members := setFlag sc.members k (fun f => { f with v := add }) }
      (setAt ch 2 (fun s => if add then sadd s k else sdel s k)) :=
  ⟨hm.users.setFlag_keep k (fun f => { f with v := add }) (fun _ => Iff.rfl), hm.ops.setFlag_keep k (fun f => { f with v := add }) (fun _ => Iff.rfl),
   hm.halfops.setFlag_keep k (fun f => { f with v := add }) (fun _ => Iff.rfl),
   hm.voices.setFlag_set k (fun f => { f with v := add }) add (fun f => by simp) (has_iff.mp hk),
   hm.topic, hm.modes, hm.modesFull, hm.bans, hm.bansFull⟩

theorem matches_modes_set {mp ms bs : Bool} {sc : SChan} {ch : Chan} (hm : ChanMatches mp ms bs sc ch) (c : Char) (v : Option Str) :
    ChanMatches mp ms bs { sc with modes := aset sc.modes c v } { ch with modes := aset ch.modes c v } :=
  ⟨hm.users, hm.ops, hm.halfops, hm.voices, hm.topic,
   fun m => by
     simp only [aget_aset]
     by_cases h : c = m
     · simp [h]
     · simp only [h, ↓reduceIte]; exact hm.modes m,
   fun hs m => by simp only [aget_aset, hm.modesFull hs], hm.bans, hm.bansFull⟩

theorem matches_modes_del {mp ms bs : Bool} {sc : SChan} {ch : Chan} (hm : ChanMatches mp ms bs sc ch) (c : Char) :
    ChanMatches mp ms bs { sc with modes := adel sc.modes c } { ch with modes := adel ch.modes c } :=
  ⟨hm.users, hm.ops, hm.halfops, hm.voices, hm.topic,
   fun m => by
     simp only [aget_adel]
     by_cases h : c = m
     · simp [h]
     · simp only [h, ↓reduceIte]; exact hm.modes m,
   fun hs m => by simp only [aget_adel, hm.modesFull hs], hm.bans, hm.bansFull⟩

theorem matches_ban_add {mp ms bs : Bool} {sc : SChan} {ch : Chan} (hm : ChanMatches mp ms bs sc ch) (a : Str) :
    ChanMatches mp ms bs { sc with bans := sc.bans ++ [a] } (setAt ch 3 (fun s => sadd s (lower a))) := by
  refine ⟨hm.users, hm.ops, hm.halfops, hm.voices, hm.topic, hm.modes, hm.modesFull, ?_, ?_⟩
  · intro x hx
    simp only [setAt, mem_sadd] at hx
    simp only [List.map_append, List.map_cons, List.map_nil, List.mem_append, List.mem_singleton]
    rcases hx with rfl | hx
    · exact Or.inr rfl
    · exact Or.inl (hm.bans x hx)
  · intro hs x hx
    simp only [List.map_append, List.map_cons, List.map_nil, List.mem_append, List.mem_singleton] at hx
    simp only [setAt, mem_sadd]
    rcases hx with hx | rfl
    · exact Or.inr (hm.bansFull hs x hx)
    · exact Or.inl rfl

theorem matches_ban_del {mp ms bs : Bool} {sc : SChan} {ch : Chan} (hm : ChanMatches mp ms bs sc ch) (a : Str) :
    ChanMatches mp ms bs { sc with bans := sc.bans.filter (fun m => lower m != lower a) } (setAt ch 3 (fun s => sdel s (lower a))) := by
  refine ⟨hm.users, hm.ops, hm.halfops, hm.voices, hm.topic, hm.modes, hm.modesFull, ?_, ?_⟩
  · intro x hx
    simp only [setAt, mem_sdel] at hx
    obtain ⟨m, hm', rfl⟩ := List.mem_map.mp (hm.bans x hx.2)
    exact List.mem_map.mpr ⟨m, List.mem_filter.mpr ⟨hm', by simpa using hx.1⟩, rfl⟩
  · intro hs x hx
    obtain ⟨m, hm', rfl⟩ := List.mem_map.mp hx
    obtain ⟨hm1, hm2⟩ := List.mem_filter.mp hm'
    simp only [setAt, mem_sdel]
    exact ⟨by simpa using hm2, hm.bansFull hs _ (List.mem_map.mpr ⟨m, hm1, rfl⟩)⟩

theorem mem_tracked_o : 'o' ∈ Gen.trackedModes := by rw [tracked_eq]; decide
theorem mem_tracked_h : 'h' ∈ Gen.trackedModes := by rw [tracked_eq]; decide
theorem mem_tracked_v : 'v' ∈ Gen.trackedModes := by rw [tracked_eq]; decide
theorem mem_tracked_b : 'b' ∈ Gen.trackedModes := by rw [tracked_eq]; decide
theorem mem_tracked_e : 'e' ∈ Gen.trackedModes := by rw [tracked_eq]; decide
theorem mem_tracked_q : 'q' ∈ Gen.trackedModes := by rw [tracked_eq]; decide
theorem mem_tracked_I : 'I' ∈ Gen.trackedModes := by rw [tracked_eq]; decide

/-- one accepted change: the bot's `doMode` step succeeds and keeps the channel matched -/
theorem applyMode_sim {mp ms bs : Bool} {sc sc' : SChan} {ch : Chan} {c : MChange} (hok : c.ok) (ha : sc.applyMode c = some sc')
    (hm : ChanMatches mp ms bs sc ch) :
    ∃ ch', ch.modeStep (tr c) = some ch' ∧ ChanMatches mp ms bs sc' ch' ∧ (∀ x, sc'.has x = sc.has x) := by
  unfold SChan.applyMode at ha
  unfold tr
  split at ha
  · -- o h v
    rename_i hp
    split at ha
    · cases ha
    · rename_i a harg
      split at ha
      · cases ha
      · rename_i hcond
        simp only [Bool.or_eq_true, Bool.not_eq_eq_eq_not, Bool.not_true, not_or, Bool.not_eq_false] at hcond
        have hmem : sc.has (lower a) = true := hcond.2
        rw [harg]
        split at ha
        · rename_i ho
          cases ha
          rw [ho, modeStep_set ch c.add 'o' 0 (some a) mem_tracked_o tracked_table_ok.2.1]
          exact ⟨_, rfl, matches_flag_o hm (lower a) hmem c.add, has_setFlag sc _ _⟩
        · split at ha
          · rename_i hh
            cases ha
            rw [hh, modeStep_set ch c.add 'h' 1 (some a) mem_tracked_h tracked_table_ok.2.2.1]
            exact ⟨_, rfl, matches_flag_h hm (lower a) hmem c.add, has_setFlag sc _ _⟩
          · rename_i hno hnh
            cases ha
            have hv : c.ch = 'v' := by
              have : c.ch ∈ prefixModes := contains_iff.mp hp
              simp only [prefixModes, List.mem_cons, List.not_mem_nil, or_false] at this
              rcases this with h | h | h
              · exact absurd h hno
              · exact absurd h hnh
              · exact h
            rw [hv, modeStep_set ch c.add 'v' 2 (some a) mem_tracked_v tracked_table_ok.2.2.2.1]
            exact ⟨_, rfl, matches_flag_v hm (lower a) hmem c.add, has_setFlag sc _ _⟩
  · split at ha
    · -- b e q (I excluded)
      rename_i hl
      split at ha
      · cases ha
      · rename_i a harg
        rw [harg]
        split at ha
        · cases ha
        · split at ha
          · rename_i hb
            split at ha
            · rename_i hadd
              split at ha
              · cases ha
              · cases ha
                rw [hb, modeStep_set ch c.add 'b' 3 (some a) mem_tracked_b tracked_table_ok.2.2.2.2.1]
                simp only [hadd, ↓reduceIte, valStr]
                exact ⟨_, rfl, matches_ban_add hm a, fun _ => rfl⟩
            · rename_i hadd
              split at ha
              · cases ha
                rw [hb, modeStep_set ch c.add 'b' 3 (some a) mem_tracked_b tracked_table_ok.2.2.2.2.1]
                simp only [hadd, Bool.false_eq_true, ↓reduceIte, valStr]
                exact ⟨_, rfl, matches_ban_del hm a, fun _ => rfl⟩
              · cases ha
          · rename_i hnb
            cases ha
            have : c.ch ∈ listModes := contains_iff.mp hl
            simp only [listModes, List.mem_cons, List.not_mem_nil, or_false] at this
            rcases this with h | h | h | h
            · exact absurd h hnb
            · rw [h, modeStep_ignored ch c.add 'e' (some a) mem_tracked_e tracked_table_ok.2.2.2.2.2.1]
              exact ⟨_, rfl, hm, fun _ => rfl⟩
            · rw [h, modeStep_ignored ch c.add 'q' (some a) mem_tracked_q tracked_table_ok.2.2.2.2.2.2.1]
              exact ⟨_, rfl, hm, fun _ => rfl⟩
            · rw [h, modeStep_ignored ch c.add 'I' (some a) mem_tracked_I tracked_table_ok.2.2.2.2.2.2.2.1]
              exact ⟨_, rfl, hm, fun _ => rfl⟩
    · split at ha
      · -- k
        rename_i hk
        have hnt : c.ch ∉ Gen.trackedModes := by
          rw [tracked_eq]; exact class_not_tracked c.ch (by simp only [List.mem_append]; exact Or.inl (contains_iff.mp hk))
        split at ha
        · cases ha
        · rename_i a harg
          rw [harg]
          split at ha
          · cases ha
          · split at ha
            · rename_i hadd
              cases ha
              rw [modeStep_plain ch c.add c.ch (some a) hnt]
              simp only [hadd, ↓reduceIte]
              exact ⟨_, rfl, matches_modes_set hm _ _, fun _ => rfl⟩
            · rename_i hadd
              split at ha
              · cases ha
                rw [modeStep_plain ch c.add c.ch (some a) hnt]
                simp only [hadd, Bool.false_eq_true, ↓reduceIte]
                exact ⟨_, rfl, matches_modes_del hm _, fun _ => rfl⟩
              · cases ha
      · split at ha
        · -- l
          rename_i hl
          have hnt : c.ch ∉ Gen.trackedModes := by
            rw [tracked_eq]; exact class_not_tracked c.ch (by simp only [List.mem_append]; exact Or.inr (contains_iff.mp hl))
          split at ha
          · rename_i hadd
            split at ha
            · cases ha
            · rename_i a harg
              rw [harg]
              split at ha
              · cases ha
                rw [modeStep_plain ch c.add c.ch (some a) hnt]
                simp only [hadd, ↓reduceIte]
                exact ⟨_, rfl, matches_modes_set hm _ _, fun _ => rfl⟩
              · cases ha
          · rename_i hadd
            split at ha
            · cases ha
            · rename_i harg
              rw [harg]
              split at ha
              · cases ha
                rw [modeStep_plain ch c.add c.ch none hnt]
                simp only [hadd, Bool.false_eq_true, ↓reduceIte]
                exact ⟨_, rfl, matches_modes_del hm _, fun _ => rfl⟩
              · cases ha
        · split at ha
          · -- flags
            rename_i hf
            have hnt := flag_not_tracked hf
            split at ha
            · cases ha
            · rename_i harg
              rw [harg]
              split at ha
              · rename_i hadd
                cases ha
                rw [modeStep_plain ch c.add c.ch none hnt]
                simp only [hadd, ↓reduceIte]
                exact ⟨_, rfl, matches_modes_set hm _ _, fun _ => rfl⟩
              · rename_i hadd
                split at ha
                · cases ha
                  rw [modeStep_plain ch c.add c.ch none hnt]
                  simp only [hadd, Bool.false_eq_true, ↓reduceIte]
                  exact ⟨_, rfl, matches_modes_del hm _, fun _ => rfl⟩
                · cases ha
          · cases ha

theorem applyModes_sim {mp ms bs : Bool} (cs : List MChange) : ∀ (sc : SChan) (ch : Chan), (∀ c ∈ cs, c.ok) → ChanMatches mp ms bs sc ch →
    ∃ ch', runSteps Chan.modeStep ch ((applyModes sc cs).2.map tr) = (ch', false) ∧
      ChanMatches mp ms bs (applyModes sc cs).1 ch' ∧ (∀ x, (applyModes sc cs).1.has x = sc.has x) := by
  induction cs with
  | nil => intro sc ch _ hm; exact ⟨ch, rfl, hm, fun _ => rfl⟩
  | cons c cs ih =>
    intro sc ch hok hm
    unfold applyModes
    cases ha : sc.applyMode c with
    | none => simp only []; exact ih sc ch (fun c' hc' => hok c' (by simp [hc'])) hm
    | some sc1 =>
      simp only [List.map_cons]
      obtain ⟨ch1, h1, h2, h3⟩ := applyMode_sim (hok c (by simp)) ha hm
      obtain ⟨ch', h4, h5, h6⟩ := ih sc1 ch1 (fun c' hc' => hok c' (by simp [hc'])) h2
      refine ⟨ch', ?_, h5, fun x => by rw [h6, h3]⟩
      simp only [runSteps, h1]
      exact h4

theorem applyModes_name (cs : List MChange) (sc : SChan) : (applyModes sc cs).1.name = sc.name := by
  induction cs generalizing sc with
  | nil => rfl
  | cons c cs ih =>
    unfold applyModes
    cases ha : sc.applyMode c with
    | none => simp only []; exact ih sc
    | some sc1 =>
      simp only []
      rw [ih sc1]
      unfold SChan.applyMode at ha
      repeat' (split at ha)
      all_goals first | cases ha; rfl | cases ha

theorem applyMode_has {sc sc' : SChan} {c : MChange} (ha : sc.applyMode c = some sc') (x : Str) :
    sc'.has x = sc.has x := by
  unfold SChan.applyMode at ha
  repeat' (split at ha)
  all_goals first | (cases ha; exact has_setFlag sc _ _ x) | (cases ha; rfl) | cases ha

theorem applyModes_has (cs : List MChange) (sc : SChan) (x : Str) : (applyModes sc cs).1.has x = sc.has x := by
  induction cs generalizing sc with
  | nil => rfl
  | cons c cs ih =>
    unfold applyModes
    cases ha : sc.applyMode c with
    | none => simp only []; exact ih sc
    | some sc1 => simp only []; rw [ih sc1, applyMode_has ha]

theorem coupled_mode {s : Srv} {b : Bot} (hw : SrvWF s) (hc : Coupled s b) (src c : Str) (cs : List MChange)
    (hok : ∀ c ∈ cs, c.ok) :
    Coupled (s.step (.mode src c cs)).1 (b.recvAll (s.step (.mode src c cs)).2) := by
  simp only [Srv.step]
  split
  · rename_i pfx sc hsrc hch
    split
    · exact hc
    · rename_i hne
      rw [Srv.chan_eq] at hch
      have hcw := hw.chans _ _ hch
      have hnd' : (akeys (aset s.chans (lower c) (applyModes sc cs).1)).Nodup := nodup_akeys_aset hw.chansNodup _ _
      have hrel := hc.chans (lower c)
      rw [hch] at hrel
      by_cases hb : s.botIn sc = true
      · simp only [hb, ↓reduceIte, recvAll_cons, recv_emit, recvAll_nil]
        obtain ⟨b0, hc0, hch0, hn0, hfeed⟩ := feed_from_source hw hc hsrc "MODE".toList
          (sc.name :: modeString none (applyModes sc cs).2 :: modeArgs (applyModes sc cs).2)
          (setters_out_ok "MODE".toList (by decide)) (by decide) (fun b0 => by simp only [Bot.ircCmd, cmdOf_MODE])
        rw [hfeed]
        have hrel0 := hc0.chans (lower c)
        rw [hch] at hrel0
        cases hbc : aget b0.channels (lower c) with
        | none => rw [hbc] at hrel0; simp only [ChanRel] at hrel0; rw [Srv.botIn] at hb; rw [hb] at hrel0; cases hrel0
        | some ch =>
          rw [hbc] at hrel0
          have hchan : b0.chanOrNew sc.name = ch := by
            simp only [Bot.chanOrNew, Bot.chan, hcw.key, hbc, Option.getD_some]
          have hsh := applyModes_shaped cs sc
          have hsep := separateModes_render (applyModes sc cs).2 (fun c hc => (hsh c hc).1)
            (fun c hc a ha => (hok c (hsh c hc).2) a ha)
          obtain ⟨ch', h1, h2, h3⟩ := applyModes_sim cs sc ch hok hrel0.2
          simp only [Bot.stateCmd, cmdOf_MODE, Bot.doMode, isChannel_of_ok hc0.isup (chanOK_of_valid hcw.name), hchan,
            Chan.doMode, hsep, h1]
          refine coupled_update' hc0 (lower c) rfl rfl rfl rfl rfl rfl ?_ ?_ ?_ rfl rfl rfl rfl rfl rfl ?_ ?_
          · intro k hk; exact aget_aset_ne _ _ (Ne.symm hk)
          · intro k hk; simp only [Bot.setChan, hcw.key]; exact aget_aset_ne _ _ (Ne.symm hk)
          · simp only [Bot.setChan, hcw.key, aget_aset_self, ChanRel]
            refine ⟨?_, h2⟩
            show (applyModes sc cs).1.has s.botKey = true
            rw [h3]; exact hrel0.1
          · intro sc0 sc' h0 h' hb'
            rw [hch] at h0; cases h0
            rw [aget_aset_self] at h'; cases h'
            rw [h3] at hb'
            exact hb'
          · intro sc' h0; rw [hch] at h0; cases h0
      · simp only [hb, Bool.false_eq_true, ↓reduceIte, recvAll_nil]
        have hb' : sc.has s.botKey = false := by simpa [Srv.botIn] using hb
        refine coupled_update' hc (lower c) rfl rfl rfl rfl rfl rfl ?_ (fun _ _ => rfl) ?_ rfl rfl rfl rfl rfl rfl ?_ ?_
        · intro k hk; exact aget_aset_ne _ _ (Ne.symm hk)
        · simp only [aget_aset_self]
          have hbn : aget b.channels (lower c) = none := by
            cases hbc : aget b.channels (lower c) with
            | none => rfl
            | some ch => rw [hbc] at hrel; simp only [ChanRel] at hrel; rw [hb'] at hrel; exact absurd hrel.1 (by simp)
          rw [hbn]; simp only [ChanRel]
          show (applyModes sc cs).1.has s.botKey = false
          rw [applyModes_has]; exact hb'
        · intro sc0 sc' h0 h' hb''
          rw [hch] at h0; cases h0
          rw [aget_aset_self] at h'; cases h'
          rw [applyModes_has] at hb''
          exact hb''
        · intro sc' h0; rw [hch] at h0; cases h0
  · exact hc

end C10
