/-
C10 — the model: collections (`Coll`), the bot side (`Bot`: ChannelState / IrcState / the nick and
prefix bookkeeping of Irc.feedMsg) and the reference server (`Srv`) with the runner `run`.
-/
import LimnoriaModel.C10.Coll
import LimnoriaModel.C10.Bot
import LimnoriaModel.C10.Srv
import LimnoriaModel.C10.Batch
import LimnoriaModel.C10.Follow
