/-
C10 — the reference server `Srv`: the abstract specification the bot's view is compared with.

State: the users on the network (the bot is one of them), the channels with their members and
status flags, topic, modes, ban list.  Names are compared under rfc1459 case rules, so users and
channels are stored under their lowered name.  An action is enabled only when a real server would
accept it, and it emits messages to the bot only when the bot can see the subject (it is the
subject, or shares a channel with it) — that visibility rule *is* conformance.
The server's channel-mode classes agree with what the bot's tables assume
(prefix modes o h v; list modes b e q I; k always takes a parameter; l only when set; every other
letter is a flag).
-/
import LimnoriaModel.C10.Bot
namespace C10
open Py

structure Flags where
  o : Bool := false
  h : Bool := false
  v : Bool := false
deriving Repr, DecidableEq, Inhabited

structure SUser where
  nick : Str
  ident : Str
  host : Str
deriving Repr, DecidableEq, Inhabited

def SUser.mask (u : SUser) : Str := u.nick ++ '!' :: u.ident ++ '@' :: u.host

structure SChan where
  name : Str
  /-- lowered nick ↦ status flags -/
  members : List (Str × Flags) := []
  topic : Str := []
  /-- flag / parameter modes (what RPL_CHANNELMODEIS reports) -/
  modes : List (Char × Option Str) := []
  bans : List Str := []
  /-- creation time (decimal text) -/
  created : Str := ['0']
deriving Repr, DecidableEq, Inhabited

structure Cfg where
  server : Str
  /-- negotiated capabilities / features -/
  multiPrefix : Bool
  uhnames : Bool
  extJoin : Bool
  chghost : Bool
  whox : Bool
  batch : Bool
  /-- the identity the bot registers with -/
  botNick : Str
  botIdent : Str
  botHost : Str
  /-- members per RPL_NAMREPLY line -/
  namesPerLine : Nat
  /-- RPL_ISUPPORT: CHANTYPES and CHANNELLEN (the other tokens are fixed, see `Srv.isupport`) -/
  chantypes : Str
  /-- decimal text -/
  channellen : Str
deriving Repr, DecidableEq, Inhabited

/-- a query of the bot the server still has to answer -/
inductive Req
  | who (chan : Str)
  | mode (chan : Str)
  | bans (chan : Str)
deriving Repr, DecidableEq, Inhabited

structure Srv where
  cfg : Cfg
  /-- lowered nick ↦ user -/
  users : List (Str × SUser)
  /-- lowered name ↦ channel -/
  chans : List (Str × SChan) := []
  /-- the bot's current nick, as the server spells it -/
  bot : Str
  /-- users (lowered nick) whose current hostmask the server has shown to the bot -/
  told : List Str := []
  /-- channels (lowered name) for which the bot got RPL_CHANNELMODEIS / the ban list since it joined -/
  modesSynced : List Str := []
  bansSynced : List Str := []
  /-- queries of the bot not answered yet, oldest first -/
  pending : List Req := []
deriving Repr, DecidableEq, Inhabited

/-! ### what a server accepts as names -/

def badNickChars : List Char :=
  ['!', '@', ',', ':', '#', '&', '%', '+', '~', '*', '?', '.', Char.ofNat 7, Char.ofNat 0]

def validNick (n : Str) : Bool :=
  !n.isEmpty && n.all (fun c => !isSpace c && !badNickChars.contains c)

/-- ident / host: non-empty, no blanks, no `!` `@`, does not start with `:` -/
def validWord (w : Str) : Bool :=
  !w.isEmpty && w.all (fun c => !isSpace c && c != '!' && c != '@' && c != Char.ofNat 0) &&
    w.head? != some ':'

def validChan (c : Str) : Bool :=
  (c.head? == some '#' || c.head? == some '&') &&
    c.all (fun x => !isSpace x && x != ',' && x != ':' && x != Char.ofNat 7 && x != Char.ofNat 0) &&
    decide (c.length ≤ 50)

/-- free text (last parameter) -/
def validText (t : Str) : Bool := t.all (fun c => c != '\r' && c != '\n' && c != Char.ofNat 0)

/-- a middle parameter -/
def validParam (w : Str) : Bool :=
  !w.isEmpty && w.all (fun c => !isSpace c && c != Char.ofNat 0) && w.head? != some ':'

/-! ### mode classes of this server -/

def prefixModes : List Char := ['o', 'h', 'v']
/-- list modes (type A); only `b` is part of the view -/
def listModes : List Char := ['b', 'e', 'q', 'I']
/-- always a parameter (type B) -/
def keyModes : List Char := ['k']
/-- parameter only when set (type C) -/
def limitModes : List Char := ['l']

def isFlagMode (c : Char) : Bool :=
  !(prefixModes.contains c || listModes.contains c || keyModes.contains c || limitModes.contains c) &&
    ((('a' ≤ c && c ≤ 'z') || ('A' ≤ c && c ≤ 'Z')))

structure MChange where
  add : Bool
  ch : Char
  arg : Option Str
deriving Repr, DecidableEq, Inhabited

inductive Act
  | connect (nick ident host : Str)
  | join (nick : Str) (chans : List Str)
  | part (nick : Str) (chans : List Str) (reason : Option Str)
  | kick (src : Str) (chan : Str) (targets : List Str) (reason : Str)
  | quit (nick : Str) (reason : Str)
  | nick (nick newNick : Str)
  | mode (src : Str) (chan : Str) (changes : List MChange)
  | topic (src : Str) (chan : Str) (text : Str)
  | chghost (nick ident host : Str)
  /-- PRIVMSG from a user to a channel or to the bot -/
  | say (nick target text : Str)
  /-- RPL_ISUPPORT (sent after the welcome; a server may repeat it) -/
  | isupport
  | names (chan : Str)
  | who (chan : Str)
  /-- the reply to a MODE query (the bot sends one on joining; the reply may come after it has left again) -/
  | modeis (chan : Str)
  /-- the reply to a MODE +b query -/
  | banlist (chan : Str)
  /-- the server answers the oldest pending query of the bot -/
  | serve
  | reconnect
deriving Repr, DecidableEq, Inhabited

/-- what reaches the bot: a message, or the connection being re-established -/
inductive Ev
  | msg (m : Msg)
  | reset
deriving Repr, DecidableEq, Inhabited

/-! ### helpers -/

def SChan.has (sc : SChan) (k : Str) : Bool := sc.members.any (fun p => p.1 = k)

def Srv.botKey (s : Srv) : Str := lower s.bot
def Srv.user (s : Srv) (nick : Str) : Option SUser := aget s.users (lower nick)
def Srv.chan (s : Srv) (name : Str) : Option SChan := aget s.chans (lower name)
def Srv.botIn (s : Srv) (sc : SChan) : Bool := sc.has s.botKey

/-- prefix of a message caused by `src` ("" = the server itself) -/
def Srv.source (s : Srv) (src : Str) : Option Str :=
  if src.isEmpty then some s.cfg.server else (s.user src).map SUser.mask

/-- does the bot see user `k` (lowered nick)? -/
def Srv.visible (s : Srv) (k : Str) : Bool :=
  s.chans.any (fun p => p.2.has s.botKey && p.2.has k)

/-- drop a channel that lost its last member -/
def Srv.putChan (s : Srv) (key : Str) (sc : SChan) : Srv :=
  if sc.members.isEmpty then { s with chans := adel s.chans key }
  else { s with chans := aset s.chans key sc }

def SChan.remove (sc : SChan) (k : Str) : SChan :=
  { sc with members := sc.members.filter (fun p => p.1 != k) }

def emit (pfx : Str) (cmd : String) (args : List Str) : Ev := .msg ⟨pfx, cmd.toList, args⟩

def commaJoin (xs : List Str) : Str := joinChar ',' xs

/-! ### the replies a joining client gets -/

def sigils (cfg : Cfg) (f : Flags) : Str :=
  let all := (if f.o then ['@'] else []) ++ (if f.h then ['%'] else []) ++ (if f.v then ['+'] else [])
  if cfg.multiPrefix then all else all.take 1

def Srv.displayUser (s : Srv) (k : Str) : SUser := (aget s.users k).getD ⟨k, ['x'], ['x']⟩

def Srv.namesItem (s : Srv) (p : Str × Flags) : Str :=
  let u := s.displayUser p.1
  sigils s.cfg p.2 ++ (if s.cfg.uhnames then u.mask else u.nick)

/-- `l` cut into pieces of `max n 1` elements (the last one may be shorter) -/
def chunks (n : Nat) : List α → List (List α)
  | [] => []
  | x :: xs => (x :: xs.take (n - 1)) :: chunks n (xs.drop (n - 1))
termination_by l => l.length
decreasing_by simp; omega

def Srv.namesReply (s : Srv) (sc : SChan) : List Ev :=
  let ty : Str := if (aget sc.modes 's').isSome then ['@'] else if (aget sc.modes 'p').isSome then ['*'] else ['=']
  (chunks (s.cfg.namesPerLine) (sc.members.map s.namesItem)).map
      (fun items => emit s.cfg.server "353" [s.bot, ty, sc.name, joinChar ' ' items]) ++
    [emit s.cfg.server "366" [s.bot, sc.name, "End of /NAMES list.".toList]]

def Srv.whoLine (s : Srv) (sc : SChan) (p : Str × Flags) : Ev :=
  let u := s.displayUser p.1
  let st : Str := 'H' :: sigils s.cfg p.2
  if s.cfg.whox then
    emit s.cfg.server "354" [s.bot, ['1'], u.ident, "255.255.255.255".toList, u.host, u.nick, st, ['0'], "real name".toList]
  else
    emit s.cfg.server "352" [s.bot, sc.name, u.ident, u.host, s.cfg.server, u.nick, st, "0 real name".toList]

def Srv.whoReply (s : Srv) (sc : SChan) : List Ev :=
  sc.members.map (s.whoLine sc) ++ [emit s.cfg.server "315" [s.bot, sc.name, "End of /WHO list.".toList]]

def Srv.modeIs (s : Srv) (sc : SChan) : Ev :=
  emit s.cfg.server "324" ([s.bot, sc.name, '+' :: sc.modes.map (·.1)] ++ sc.modes.filterMap (·.2))

def Srv.banList (s : Srv) (sc : SChan) : List Ev :=
  sc.bans.map (fun m => emit s.cfg.server "367" [s.bot, sc.name, m, s.cfg.server, ['0']]) ++
    [emit s.cfg.server "368" [s.bot, sc.name, "End of channel ban list".toList]]

/-- what a joining client gets without asking: topic (if any) and NAMES -/
def Srv.joinBurst (s : Srv) (sc : SChan) : List Ev :=
  (if sc.topic.isEmpty then [] else
    [emit s.cfg.server "332" [s.bot, sc.name, sc.topic],
     emit s.cfg.server "333" [s.bot, sc.name, s.cfg.server, ['0']]]) ++
  s.namesReply sc

def addAll (l : List Str) (xs : List Str) : List Str := xs.foldl sadd l

def SChan.keys (sc : SChan) : List Str := sc.members.map (·.1)

/-- the bot's queries as the server reads them -/
def reqOf (m : Msg) : Option Req :=
  if m.cmd = "WHO".toList then
    match m.args with
    | c :: _ => some (.who c)
    | [] => none
  else if m.cmd = "MODE".toList then
    match m.args with
    | [c] => some (.mode c)
    | [c, a] => if a = "+b".toList then some (.bans c) else none
    | _ => none
  else none

def Srv.enqueue (s : Srv) (out : List Msg) : Srv := { s with pending := s.pending ++ out.filterMap reqOf }

/-- reply to WHO: one line per member, whether or not the bot is (still) on the channel -/
def Srv.replyWho (s : Srv) (c : Str) : Srv × List Ev :=
  match s.chan c with
  | some sc => ({ s with told := addAll s.told sc.keys }, s.whoReply sc)
  | none => (s, [])

/-- reply to MODE <channel>: 324 and 329 -/
def Srv.replyMode (s : Srv) (c : Str) : Srv × List Ev :=
  match s.chan c with
  | some sc =>
    ({ s with modesSynced := if s.botIn sc then sadd s.modesSynced (lower c) else s.modesSynced },
     [s.modeIs sc, emit s.cfg.server "329" [s.bot, sc.name, sc.created]])
  | none => (s, [])

/-- reply to MODE <channel> +b: the ban list -/
def Srv.replyBans (s : Srv) (c : Str) : Srv × List Ev :=
  match s.chan c with
  | some sc =>
    ({ s with bansSynced := if s.botIn sc then sadd s.bansSynced (lower c) else s.bansSynced }, s.banList sc)
  | none => (s, [])

/-- RPL_ISUPPORT of this server: CHANTYPES and CHANNELLEN from the configuration; PREFIX, CHANMODES and
CASEMAPPING are what the bot's hard-coded tables assume -/
def isupportEv (cfg : Cfg) (bot : Str) : Ev :=
  emit cfg.server "005"
    [bot, "CHANTYPES=".toList ++ cfg.chantypes, "CHANNELLEN=".toList ++ cfg.channellen,
     "PREFIX=(ohv)@%+".toList, "CHANMODES=beIq,k,l,imnpstrCR".toList, "CASEMAPPING=rfc1459".toList, "NICKLEN=30".toList,
     "are supported by this server".toList]

def Srv.isupport (s : Srv) : Ev := isupportEv s.cfg s.bot

/-! ### transitions -/

def joinArgs (cfg : Cfg) (names : Str) : List Str :=
  if cfg.extJoin then [names, ['*'], "real name".toList] else [names]

/-- user `k` enters channel `name`; the first member of a new channel becomes its operator.
Returns the new state and the channel's name as the server spells it (`none`: not accepted). -/
def Srv.enter (s : Srv) (k : Str) (name : Str) : Option (Srv × Str) :=
  if !validChan name then none else
  match s.chan name with
  | none =>
    some ({ s with chans := aset s.chans (lower name) { name := name, members := [(k, { o := true })] } }, name)
  | some sc =>
    if sc.has k then none
    else some ({ s with chans := aset s.chans (lower name) { sc with members := sc.members ++ [(k, {})] } }, sc.name)

/-- JOIN of someone else: channels entered, and those of them the bot is on -/
def Srv.joinOthers (s : Srv) (k : Str) : List Str → Srv × List Str
  | [] => (s, [])
  | c :: cs =>
    match s.enter k c with
    | none => s.joinOthers k cs
    | some (s1, name) =>
      let r := s1.joinOthers k cs
      (r.1, if (s.chan c).any s.botIn then name :: r.2 else r.2)

/-- the bot's own JOIN: one JOIN + topic + NAMES per channel; its record of the channel starts afresh -/
def Srv.joinBot (s : Srv) (u : SUser) : List Str → Srv × List Ev
  | [] => (s, [])
  | c :: cs =>
    match s.enter s.botKey c with
    | none => s.joinBot u cs
    | some (s1, name) =>
      match s1.chan c with
      | none => s1.joinBot u cs
      | some sc =>
        let s2 : Srv := { s1 with modesSynced := sdel s1.modesSynced (lower c), bansSynced := sdel s1.bansSynced (lower c),
                                  told := if s1.cfg.uhnames then addAll (sadd s1.told s1.botKey) sc.keys else sadd s1.told s1.botKey }
        let r := s2.joinBot u cs
        (r.1, emit u.mask "JOIN" (joinArgs s.cfg name) :: s1.joinBurst sc ++ r.2)

/-- PART: channels left (server spelling), and which of them the bot saw -/
def Srv.leave (s : Srv) (k : Str) : List Str → Srv × List Str
  | [] => (s, [])
  | c :: cs =>
    match s.chan c with
    | none => s.leave k cs
    | some sc =>
      if sc.has k then
        let s1 := s.putChan (lower c) (sc.remove k)
        let r := s1.leave k cs
        (r.1, if s.botIn sc then sc.name :: r.2 else r.2)
      else s.leave k cs

/-- KICK targets that are on the channel, removed one after the other -/
def kickTargets (sc : SChan) : List Str → SChan × List Str
  | [] => (sc, [])
  | t :: ts =>
    if sc.has (lower t) then
      let r := kickTargets (sc.remove (lower t)) ts
      (r.1, t :: r.2)
    else kickTargets sc ts

def setFlag (members : List (Str × Flags)) (k : Str) (f : Flags → Flags) : List (Str × Flags) :=
  members.map (fun p => if p.1 = k then (p.1, f p.2) else p)

/-- one mode change; `none` = the server ignores it -/
def SChan.applyMode (sc : SChan) (c : MChange) : Option SChan :=
  if prefixModes.contains c.ch then
    match c.arg with
    | none => none
    | some a =>
      if !validNick a || !sc.has (lower a) then none
      else if c.ch = 'o' then some { sc with members := setFlag sc.members (lower a) (fun f => { f with o := c.add }) }
      else if c.ch = 'h' then some { sc with members := setFlag sc.members (lower a) (fun f => { f with h := c.add }) }
      else some { sc with members := setFlag sc.members (lower a) (fun f => { f with v := c.add }) }
  else if listModes.contains c.ch then
    match c.arg with
    | none => none
    | some a =>
      if !validParam a then none
      else if c.ch = 'b' then
        if c.add then
          (if (sc.bans.map lower).contains (lower a) then none else some { sc with bans := sc.bans ++ [a] })
        else
          (if (sc.bans.map lower).contains (lower a) then some { sc with bans := sc.bans.filter (fun m => lower m != lower a) } else none)
      else some sc          -- e, q, I: lists that are not part of the view
  else if keyModes.contains c.ch then
    match c.arg with
    | none => none
    | some a =>
      if !validParam a then none
      else if c.add then some { sc with modes := aset sc.modes c.ch (some a) }
      else if (aget sc.modes c.ch).isSome then some { sc with modes := adel sc.modes c.ch } else none
  else if limitModes.contains c.ch then
    if c.add then
      match c.arg with
      | none => none
      | some a => if validParam a then some { sc with modes := aset sc.modes c.ch (some a) } else none
    else
      match c.arg with
      | some _ => none
      | none => if (aget sc.modes c.ch).isSome then some { sc with modes := adel sc.modes c.ch } else none
  else if isFlagMode c.ch then
    match c.arg with
    | some _ => none
    | none =>
      if c.add then some { sc with modes := aset sc.modes c.ch none }
      else if (aget sc.modes c.ch).isSome then some { sc with modes := adel sc.modes c.ch } else none
  else none

/-- apply the accepted changes in order; returns them -/
def applyModes (sc : SChan) : List MChange → SChan × List MChange
  | [] => (sc, [])
  | c :: cs =>
    match sc.applyMode c with
    | none => applyModes sc cs
    | some sc1 =>
      let r := applyModes sc1 cs
      (r.1, c :: r.2)

/-- the mode string of a MODE message: a sign is written whenever it changes -/
def modeString : Option Bool → List MChange → Str
  | _, [] => []
  | last, c :: cs =>
    (if last = some c.add then [] else [if c.add then '+' else '-']) ++ c.ch :: modeString (some c.add) cs

def modeArgs (cs : List MChange) : List Str := cs.filterMap (·.arg)

def renameKey (members : List (Str × Flags)) (o n : Str) : List (Str × Flags) :=
  members.map (fun p => if p.1 = o then (n, p.2) else p)

/-- remove user `k` from every channel -/
def Srv.dropEverywhere (s : Srv) (k : Str) : Srv :=
  { s with chans := (s.chans.map (fun p => (p.1, p.2.remove k))).filter (fun p => !p.2.members.isEmpty) }

def Srv.step (s : Srv) : Act → Srv × List Ev
  | .connect n i h =>
    if validNick n && validWord i && validWord h && (s.user n).isNone then
      ({ s with users := aset s.users (lower n) ⟨n, i, h⟩, told := sdel s.told (lower n) }, [])
    else (s, [])
  | .join n cs =>
    match s.user n with
    | none => (s, [])
    | some u =>
      if lower n = s.botKey then s.joinBot u cs
      else
        let r := s.joinOthers (lower n) cs
        if r.2.isEmpty then (r.1, [])
        else ({ r.1 with told := sadd r.1.told (lower n) }, [emit u.mask "JOIN" (joinArgs s.cfg (commaJoin r.2))])
  | .part n cs reason =>
    match s.user n with
    | none => (s, [])
    | some u =>
      if !(reason.all validText) then (s, []) else
      let r := s.leave (lower n) cs
      (r.1, if r.2.isEmpty then [] else [emit u.mask "PART" ([commaJoin r.2] ++ reason.toList)])
  | .kick src c targets reason =>
    match s.source src, s.chan c with
    | some pfx, some sc =>
      if !validText reason || !targets.all validNick then (s, []) else
      let r := kickTargets sc targets
      if r.2.isEmpty then (s, [])
      else (s.putChan (lower c) r.1,
            if s.botIn sc then [emit pfx "KICK" [sc.name, commaJoin r.2, reason]] else [])
    | _, _ => (s, [])
  | .quit n reason =>
    match s.user n with
    | none => (s, [])
    | some u =>
      if lower n = s.botKey || !validText reason then (s, [])
      else
        ({ s.dropEverywhere (lower n) with users := adel s.users (lower n), told := sdel s.told (lower n) },
         if s.visible (lower n) then [emit u.mask "QUIT" [reason]] else [])
  | .nick n n' =>
    match s.user n with
    | none => (s, [])
    | some u =>
      if !validNick n' || n' = u.nick || (lower n' != lower n && (s.user n').isSome) then (s, [])
      else
        let isBot := lower n = s.botKey
        ({ s with users := aset (adel s.users (lower n)) (lower n') { u with nick := n' },
                  chans := s.chans.map (fun p => (p.1, { p.2 with members := renameKey p.2.members (lower n) (lower n') })),
                  bot := if isBot then n' else s.bot,
                  told := if isBot || s.visible (lower n) then sadd (sdel s.told (lower n)) (lower n') else sdel (sdel s.told (lower n)) (lower n') },
         if isBot || s.visible (lower n) then [emit u.mask "NICK" [n']] else [])
  | .mode src c changes =>
    match s.source src, s.chan c with
    | some pfx, some sc =>
      let r := applyModes sc changes
      if r.2.isEmpty then (s, [])
      else ({ s with chans := aset s.chans (lower c) r.1 },
            if s.botIn sc then [emit pfx "MODE" (sc.name :: modeString none r.2 :: modeArgs r.2)] else [])
    | _, _ => (s, [])
  | .topic src c text =>
    match s.source src, s.chan c with
    | some pfx, some sc =>
      if !validText text then (s, [])
      else ({ s with chans := aset s.chans (lower c) { sc with topic := text } },
            if s.botIn sc then [emit pfx "TOPIC" [sc.name, text]] else [])
    | _, _ => (s, [])
  | .chghost n i h =>
    match s.user n with
    | none => (s, [])
    | some u =>
      if !validWord i || !validWord h then (s, [])
      else if s.cfg.chghost && (lower n = s.botKey || s.visible (lower n)) then
        ({ s with users := aset s.users (lower n) { u with ident := i, host := h }, told := sadd s.told (lower n) },
         [emit u.mask "CHGHOST" [i, h]])
      else if lower n = s.botKey then (s, [])     -- without the capability the bot's own host change is not modelled
      else
        -- nobody tells the bot: the user is out of sight, or the capability was not negotiated
        ({ s with users := aset s.users (lower n) { u with ident := i, host := h }, told := sdel s.told (lower n) }, [])
  | .say n target text =>
    match s.user n with
    | none => (s, [])
    | some u =>
      if !validText text || text.isEmpty then (s, [])
      else if lower target = s.botKey || (s.chan target).any s.botIn then
        -- the bot receives it: whoever the sender is, his prefix shows his hostmask
        ({ s with told := sadd s.told (lower n) },
         [emit u.mask "PRIVMSG" [if lower target = s.botKey then s.bot else ((s.chan target).map (·.name)).getD target, text]])
      else (s, [])
  | .isupport => (s, [s.isupport])
  | .names c =>
    match s.chan c with
    | some sc =>
      if s.botIn sc then ({ s with told := if s.cfg.uhnames then addAll s.told sc.keys else s.told }, s.namesReply sc)
      else (s, [])
    | none => (s, [])
  | .who c => s.replyWho c
  | .modeis c => s.replyMode c
  | .banlist c => s.replyBans c
  | .serve =>
    match s.pending with
    | [] => (s, [])
    | .who c :: rest => ({ s with pending := rest }).replyWho c
    | .mode c :: rest => ({ s with pending := rest }).replyMode c
    | .bans c :: rest => ({ s with pending := rest }).replyBans c
  | .reconnect =>
    match aget s.users s.botKey with
    | none => (s, [])
    | some u =>
      if lower s.cfg.botNick != s.botKey && (s.user s.cfg.botNick).isSome then (s, [])
      else
        let s1 := s.dropEverywhere s.botKey
        ({ s1 with users := aset (adel s1.users s.botKey) (lower s.cfg.botNick) { u with nick := s.cfg.botNick },
                   bot := s.cfg.botNick, told := [], modesSynced := [], bansSynced := [], pending := [] },
         [.reset, emit s.cfg.server "001" [s.cfg.botNick, "Welcome".toList],
          isupportEv s.cfg s.cfg.botNick])

def Cfg.valid (c : Cfg) : Bool :=
  validNick c.botNick && validWord c.botIdent && validWord c.botHost && validWord c.server &&
    c.server.contains '.' && c.chantypes.contains '#' && c.chantypes.contains '&' &&
    c.chantypes.all (fun x => !isSpace x && x != Char.ofNat 0) && c.channellen.all isDigit &&
    (match pyInt c.channellen with | some n => decide (50 ≤ n) | none => false)

def Srv.init (cfg : Cfg) : Srv :=
  { cfg := cfg, users := [(lower cfg.botNick, ⟨cfg.botNick, cfg.botIdent, cfg.botHost⟩)], bot := cfg.botNick }

/-! ### running the bot against the server -/

def Bot.recv (b : Bot) : Ev → Bot
  | .msg m => (b.feed m).1
  | .reset => b.reset

def Bot.recvAll (b : Bot) (es : List Ev) : Bot := es.foldl Bot.recv b

/-- what the bot sends while receiving `es` -/
def Bot.outAll (b : Bot) : List Ev → List Msg
  | [] => []
  | .msg m :: es => b.out m ++ (b.recv (.msg m)).outAll es
  | .reset :: es => b.reset.outAll es

/-- one action: the server acts, the bot receives what the server emits, the server reads what the bot sends -/
def run (s : Srv) (b : Bot) : List Act → Srv × Bot
  | [] => (s, b)
  | a :: as => run ((s.step a).1.enqueue (b.outAll (s.step a).2)) (b.recvAll (s.step a).2) as

end C10
