/-
C10 — the coupling invariant between the reference server and the bot, the server's own
well-formedness invariant, and the consequences of the validity checks in usable form.
-/
import LimnoriaModel.C10.FeedLemmas
namespace C10
open Py

/-! ### table obligations (re-checked against the extracted tables on every build) -/

/-- every character `ChannelState.addUser` / `do353` treat as a status sigil is refused in nicks -/
theorem sigils_not_in_nicks :
    (∀ c ∈ Gen.sigilsStrip, c ∈ badNickChars) ∧ (∀ c ∈ Gen.sigilsLoop, c ∈ badNickChars) ∧
    (∀ c ∈ Gen.sigils353, c ∈ badNickChars) := by decide

/-- the three sigils a server with PREFIX=(ohv)@%+ sends are understood as op / halfop / voice -/
theorem sigil_table_ok :
    '@' ∈ Gen.sigilsOp ∧ '%' ∉ Gen.sigilsOp ∧ '+' ∉ Gen.sigilsOp ∧ Gen.sigilHalfop = '%' ∧ Gen.sigilVoice = '+' ∧
    '@' ∈ Gen.sigilsLoop ∧ '%' ∈ Gen.sigilsLoop ∧ '+' ∈ Gen.sigilsLoop ∧
    '@' ∈ Gen.sigilsStrip ∧ '%' ∈ Gen.sigilsStrip ∧ '+' ∈ Gen.sigilsStrip ∧
    '@' ∈ Gen.sigils353 ∧ '%' ∈ Gen.sigils353 ∧ '+' ∈ Gen.sigils353 := by decide

/-- the server's mode classes agree with `_plusRequireArguments` / `_minusRequireArguments` -/
theorem mode_tables_ok :
    (∀ c ∈ prefixModes ++ listModes ++ keyModes, c ∈ Gen.plusRequireArguments ∧ c ∈ Gen.minusRequireArguments) ∧
    (∀ c ∈ limitModes, c ∈ Gen.plusRequireArguments ∧ c ∉ Gen.minusRequireArguments) ∧
    (∀ c ∈ Gen.plusRequireArguments, c ∈ prefixModes ++ listModes ++ keyModes ++ limitModes) ∧
    (∀ c ∈ Gen.minusRequireArguments, c ∈ prefixModes ++ listModes ++ keyModes ++ limitModes) := by decide

/-- which letters `ChannelState.doMode` keeps in sets (o h v b), which it ignores (the lists e q I), and
that `setMode` / `unsetMode` / `do324` guard no letter outside these -/
theorem tracked_table_ok :
    Gen.trackedModes = ['o', 'v', 'h', 'b', 'e', 'q', 'I'] ∧
    aget Gen.modeSets 'o' = some 0 ∧ aget Gen.modeSets 'h' = some 1 ∧ aget Gen.modeSets 'v' = some 2 ∧
    aget Gen.modeSets 'b' = some 3 ∧ aget Gen.modeSets 'e' = none ∧ aget Gen.modeSets 'q' = none ∧
    aget Gen.modeSets 'I' = none ∧
    (∀ c ∈ Gen.setModeForbidden, c ∈ Gen.trackedModes) ∧ (∀ c ∈ Gen.unsetModeForbidden, c ∈ Gen.trackedModes) ∧
    Gen.skip324 = ['o', 'v', 'h'] := by decide

theorem chan_table_ok : '#' ∈ Gen.chantypes ∧ '&' ∈ Gen.chantypes ∧ (50 : Int) ≤ (Gen.channellen : Int) := by decide

/-- the numerics the server uses as replies: which of them update `irc.nick` -/
theorem setters_in_ok :
    "353".toList ∈ Gen.nickSetters ∧ "366".toList ∈ Gen.nickSetters ∧ "332".toList ∈ Gen.nickSetters ∧
    "333".toList ∈ Gen.nickSetters ∧ "001".toList ∈ Gen.nickSetters := by decide

def nonSetterCmds : List Str :=
  ["JOIN".toList, "PART".toList, "KICK".toList, "QUIT".toList, "NICK".toList, "MODE".toList, "TOPIC".toList,
   "CHGHOST".toList, "PRIVMSG".toList, "352".toList, "354".toList, "315".toList, "324".toList, "329".toList, "367".toList, "368".toList]

theorem setters_out_ok : ∀ c ∈ nonSetterCmds, c ∉ Gen.nickSetters := by decide

/-! ### validity checks as propositions -/

structure NickOK (n : Str) : Prop where
  ne : n ≠ []
  nosp : NoSp n
  nobad : ∀ c ∈ n, c ∉ badNickChars

theorem nickOK_of_valid {n : Str} (h : validNick n = true) : NickOK n := by
  unfold validNick at h
  simp only [Bool.and_eq_true, Bool.not_eq_eq_eq_not, Bool.not_true, List.all_eq_true] at h
  refine ⟨?_, ?_, ?_⟩
  · intro e; subst e; simp at h
  · intro c hc; exact (h.2 c hc).1
  · intro c hc hbad
    have := (h.2 c hc).2
    simp [hbad] at this

theorem NickOK.not_mem {n : Str} (h : NickOK n) {c : Char} (hc : c ∈ badNickChars) : c ∉ n :=
  fun hcn => h.nobad c hcn hc

theorem NickOK.noBang {n : Str} (h : NickOK n) : '!' ∉ n := h.not_mem (by decide)
theorem NickOK.noAt {n : Str} (h : NickOK n) : '@' ∉ n := h.not_mem (by decide)
theorem NickOK.noComma {n : Str} (h : NickOK n) : ',' ∉ n := h.not_mem (by decide)
theorem NickOK.noDot {n : Str} (h : NickOK n) : '.' ∉ n := h.not_mem (by decide)

structure WordOK (w : Str) : Prop where
  ne : w ≠ []
  nosp : NoSp w
  noBang : '!' ∉ w
  noAt : '@' ∉ w

theorem wordOK_of_valid {w : Str} (h : validWord w = true) : WordOK w := by
  unfold validWord at h
  simp only [Bool.and_eq_true, Bool.not_eq_eq_eq_not, Bool.not_true, List.all_eq_true, bne_iff_ne, ne_eq] at h
  refine ⟨?_, ?_, ?_, ?_⟩
  · intro e; subst e; simp at h
  · intro c hc; exact (h.1.2 c hc).1.1.1
  · intro hc; exact (h.1.2 _ hc).1.1.2 rfl
  · intro hc; exact (h.1.2 _ hc).1.2 rfl

structure ChanOK (c : Str) : Prop where
  ne : c ≠ []
  nosp : NoSp c
  noComma : ',' ∉ c
  /-- accepted by `ircutils.isChannel` for every CHANTYPES containing `#` `&` and CHANNELLEN ≥ 50 -/
  isChan : ∀ (ct : Str) (cl : Int), '#' ∈ ct → '&' ∈ ct → 50 ≤ cl → isChannelWith (some ct) (some cl) c = some true

theorem chanOK_of_valid {c : Str} (h : validChan c = true) : ChanOK c := by
  unfold validChan at h
  simp only [Bool.and_eq_true, Bool.or_eq_true, beq_iff_eq, List.all_eq_true, Bool.not_eq_eq_eq_not, Bool.not_true,
    bne_iff_ne, ne_eq, decide_eq_true_eq] at h
  obtain ⟨⟨hhead, hall⟩, hlen⟩ := h
  have hne : c ≠ [] := by intro e; subst e; simp at hhead
  have hsp : NoSp c := fun x hx => (hall x hx).1.1.1.1
  have hcomma : ',' ∉ c := fun hx => (hall _ hx).1.1.1.2 rfl
  have hbel : Char.ofNat 7 ∉ c := fun hx => (hall _ hx).1.2 rfl
  refine ⟨hne, hsp, hcomma, ?_⟩
  intro ct cl h1 h2 h3
  cases c with
  | nil => exact absurd rfl hne
  | cons c0 t =>
    have h0 : c0 = '#' ∨ c0 = '&' := by simpa using hhead
    have hty : ct.contains c0 = true := by
      rcases h0 with rfl | rfl
      · exact contains_iff.mpr h1
      · exact contains_iff.mpr h2
    have hsplit : splitWs (c0 :: t) = [c0 :: t] := by
      have := splitWs_go_word (w := c0 :: t) [] [] hsp
      simp only [List.append_nil] at this
      unfold splitWs
      rw [this]
      simp [splitWs.go]
    have hl : ((c0 :: t).length : Int) ≤ cl := by
      have : ((c0 :: t).length : Int) ≤ 50 := by exact_mod_cast hlen
      omega
    have hc1 : (c0 :: t).contains ',' = false := Bool.eq_false_iff.mpr (fun hx => hcomma (contains_iff.mp hx))
    have hc2 : (c0 :: t).contains (Char.ofNat 7) = false := Bool.eq_false_iff.mpr (fun hx => hbel (contains_iff.mp hx))
    simp only [isChannelWith, hc1, hc2, Bool.or_self, Bool.false_eq_true, ↓reduceIte, hty, Bool.not_true, hsplit,
      beq_self_eq_true, Bool.and_true, decide_eq_true hl]

/-- the parts of a valid configuration -/
structure CfgOK (c : Cfg) : Prop where
  nick : validNick c.botNick = true
  ident : validWord c.botIdent = true
  host : validWord c.botHost = true
  server : validWord c.server = true
  dot : '.' ∈ c.server
  hash : '#' ∈ c.chantypes
  amp : '&' ∈ c.chantypes
  ctNoSp : ∀ x ∈ c.chantypes, isSpace x = false
  len : ∃ n, pyInt c.channellen = some n ∧ 50 ≤ n

theorem cfgOK_of_valid {c : Cfg} (h : c.valid = true) : CfgOK c := by
  unfold Cfg.valid at h
  simp only [Bool.and_eq_true, decide_eq_true_eq, List.all_eq_true, Bool.not_eq_eq_eq_not, Bool.not_true, bne_iff_ne] at h
  obtain ⟨⟨⟨⟨⟨⟨⟨⟨⟨h1, h2⟩, h3⟩, h4⟩, h5⟩, h6⟩, h7⟩, h8⟩, _⟩, h9⟩ := h
  refine ⟨h1, h2, h3, h4, contains_iff.mp h5, contains_iff.mp h6, contains_iff.mp h7, fun x hx => (h8 x hx).1, ?_⟩
  cases hp : pyInt c.channellen with
  | none => rw [hp] at h9; cases h9
  | some n => rw [hp] at h9; exact ⟨n, rfl, by simpa using h9⟩

/-! ### the server's own invariant -/

/-- a stored mode: `k` / `l` with a parameter the bot's `int()` normalisation leaves alone, or a flag -/
def ModeEntryOK (e : Char × Option Str) : Prop :=
  (e.1 ∈ keyModes ++ limitModes ∧ ∃ a, e.2 = some a ∧ modeArg a = a) ∨ (isFlagMode e.1 = true ∧ e.2 = none)

structure ChanWF (s : Srv) (k : Str) (sc : SChan) : Prop where
  key : lower sc.name = k
  name : validChan sc.name = true
  members : ∀ p ∈ sc.members, (aget s.users p.1).isSome
  modesNodup : (akeys sc.modes).Nodup
  modes : ∀ e ∈ sc.modes, ModeEntryOK e

structure SrvWF (s : Srv) : Prop where
  cfg : s.cfg.valid = true
  users : ∀ k u, aget s.users k = some u →
    lower u.nick = k ∧ validNick u.nick = true ∧ validWord u.ident = true ∧ validWord u.host = true
  bot : ∃ u, aget s.users (lower s.bot) = some u ∧ u.nick = s.bot
  chansNodup : (akeys s.chans).Nodup
  chans : ∀ k sc, aget s.chans k = some sc → ChanWF s k sc

/-! ### the coupling -/

/-- every nick in the bot's set `S` is a member with property `P` -/
def Sub (S : List Str) (ms : List (Str × Flags)) (P : Flags → Prop) : Prop :=
  ∀ x, x ∈ S → ∃ f, (x, f) ∈ ms ∧ P f
/-- every member with property `P` is in the bot's set `S` -/
def Sup (S : List Str) (ms : List (Str × Flags)) (P : Flags → Prop) : Prop :=
  ∀ x, (∃ f, (x, f) ∈ ms ∧ P f) → x ∈ S

/-- the bot's set never contains a wrong nick; it is complete when `full` holds -/
structure Tracks (full : Prop) (S : List Str) (ms : List (Str × Flags)) (P : Flags → Prop) : Prop where
  sub : Sub S ms P
  sup : full → Sup S ms P

theorem Tracks.iff {S : List Str} {ms : List (Str × Flags)} {P : Flags → Prop} (h : Tracks True S ms P) (x : Str) :
    x ∈ S ↔ ∃ f, (x, f) ∈ ms ∧ P f := ⟨h.sub x, h.sup trivial x⟩

/-- the bot's record `ch` of a channel against the server's `sc`.
`mp`: multi-prefix negotiated; `ms` / `bs`: RPL_CHANNELMODEIS / the ban list reached the bot since it joined.
Members, ops and topic are exact; halfops and voices are exact with multi-prefix and otherwise never wrong
(a NAMES reply then shows only the highest status); modes are a sub-map of the server's, bans a subset, and
both exact once the corresponding reply was received. -/
structure ChanMatches (mp ms bs : Bool) (sc : SChan) (ch : Chan) : Prop where
  users : Tracks True ch.users sc.members (fun _ => True)
  ops : Tracks True ch.ops sc.members (fun f => f.o = true)
  halfops : Tracks (mp = true) ch.halfops sc.members (fun f => f.h = true)
  voices : Tracks (mp = true) ch.voices sc.members (fun f => f.v = true)
  topic : ch.topic = sc.topic
  modes : ∀ m, aget ch.modes m = aget sc.modes m ∨ aget ch.modes m = none
  modesFull : ms = true → ∀ m, aget ch.modes m = aget sc.modes m
  bans : ∀ x, x ∈ ch.bans → x ∈ sc.bans.map lower
  bansFull : bs = true → ∀ x, x ∈ sc.bans.map lower → x ∈ ch.bans

theorem ChanMatches.users_iff {mp ms bs : Bool} {sc : SChan} {ch : Chan} (h : ChanMatches mp ms bs sc ch) (x : Str) :
    x ∈ ch.users ↔ ∃ f, (x, f) ∈ sc.members := by
  have := h.users.iff x
  simpa using this

def Srv.mSynced (s : Srv) (k : Str) : Bool := decide (k ∈ s.modesSynced)
def Srv.bSynced (s : Srv) (k : Str) : Bool := decide (k ∈ s.bansSynced)

def ChanRel (s : Srv) (k : Str) : Option SChan → Option Chan → Prop
  | none, none => True
  | none, some _ => False
  | some sc, none => sc.has s.botKey = false
  | some sc, some ch => sc.has s.botKey = true ∧ ChanMatches s.cfg.multiPrefix (s.mSynced k) (s.bSynced k) sc ch

/-- what the bot knows of the server's ISUPPORT lets it recognise the server's channel names:
CHANTYPES not announced (defaults) or announced with `#` and `&` in it; CHANNELLEN not announced or ≥ 50 -/
def IsupOK (i : Isup) : Prop :=
  (i.chantypes.bind id = none ∨ ∃ v, i.chantypes.bind id = some v ∧ '#' ∈ v ∧ '&' ∈ v) ∧
  (i.channellen.bind id = none ∨ ∃ n, i.channellen.bind id = some n ∧ 50 ≤ n)

theorem isChannel_of_ok {b : Bot} (h : IsupOK b.isup) {c : Str} (hc : ChanOK c) : b.isChannel c = some true := by
  unfold Bot.isChannel
  obtain ⟨h1, h2⟩ := h
  have e1 : '#' ∈ (b.isup.chantypes.bind id).getD Gen.chantypes ∧ '&' ∈ (b.isup.chantypes.bind id).getD Gen.chantypes := by
    rcases h1 with e | ⟨v, e, hv⟩
    · rw [e]; exact ⟨chan_table_ok.1, chan_table_ok.2.1⟩
    · rw [e]; exact hv
  have e2 : 50 ≤ (b.isup.channellen.bind id).getD (Gen.channellen : Int) := by
    rcases h2 with e | ⟨n, e, hn⟩
    · rw [e]; exact chan_table_ok.2.2
    · rw [e]; exact hn
  exact hc.isChan _ _ e1.1 e1.2 e2

/-- `Irc.isChannel` never raises -/
theorem isChannel_isSome (b : Bot) (a : Str) : (b.isChannel a).isNone = false := by
  unfold Bot.isChannel isChannelWith
  cases a with
  | nil => rfl
  | cons c0 t =>
    simp only
    split
    · rfl
    · split <;> rfl

theorem tagOK_of_ok {b : Bot} (_h : IsupOK b.isup) (m : Msg) : b.tagOK m := by
  unfold Bot.tagOK Bot.tagRaises
  split
  · exact isChannel_isSome b _
  · rfl

/-- the bot's view against the server state, as far as the server has told the bot:
its nick; the channels it is on (see `ChanMatches`); the hostmask of every user whose current hostmask the
server has shown to the bot (`told`); its own prefix once it is on a channel. -/
structure Coupled (s : Srv) (b : Bot) : Prop where
  nick : b.nick = s.bot
  chans : ∀ k, ChanRel s k (aget s.chans k) (aget b.channels k)
  hosts : ∀ k u, aget s.users k = some u → k ∈ s.told → aget b.n2h k = some u.mask
  pfx : ∀ k sc, aget s.chans k = some sc → sc.has s.botKey = true →
    ∃ u, aget s.users s.botKey = some u ∧ b.pfx = u.mask
  cfgNick : b.cfgNick = s.cfg.botNick
  cfgIdent : b.cfgIdent = s.cfg.botIdent
  isup : IsupOK b.isup

/-- the mode changes the full theorem covers: no argument that `int()` would rewrite
(known finding C10-mode-arg-int) -/
def MChange.ok (c : MChange) : Prop := ∀ a, c.arg = some a → modeArg a = a

def Act.ok : Act → Prop
  | .mode _ _ cs => ∀ c ∈ cs, c.ok
  | _ => True

/-! ### small facts -/

theorem has_iff {sc : SChan} {k : Str} : sc.has k = true ↔ ∃ f, (k, f) ∈ sc.members := by
  unfold SChan.has
  simp only [List.any_eq_true, decide_eq_true_eq]
  constructor
  · rintro ⟨⟨k', f⟩, hm, rfl⟩; exact ⟨f, hm⟩
  · rintro ⟨f, hm⟩; exact ⟨(k, f), hm, rfl⟩

theorem has_false_iff {sc : SChan} {k : Str} : sc.has k = false ↔ ∀ f, (k, f) ∉ sc.members := by
  rw [← Bool.not_eq_true, has_iff]; simp

theorem visible_iff {s : Srv} (hn : (akeys s.chans).Nodup) {k : Str} :
    s.visible k = true ↔ ∃ kc sc, aget s.chans kc = some sc ∧ sc.has s.botKey = true ∧ sc.has k = true := by
  unfold Srv.visible
  simp only [List.any_eq_true, Bool.and_eq_true]
  constructor
  · rintro ⟨⟨kc, sc⟩, hm, h1, h2⟩
    exact ⟨kc, sc, aget_of_mem_nodup hn hm, h1, h2⟩
  · rintro ⟨kc, sc, hg, h1, h2⟩
    exact ⟨(kc, sc), aget_mem hg, h1, h2⟩

theorem SUser.mask_eq (u : SUser) : u.mask = mkHostmask u.nick u.ident u.host := rfl

end C10
