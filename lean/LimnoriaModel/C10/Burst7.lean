/-
C10 — the bot's own JOIN (JOIN + topic + NAMES per channel), the replies to its WHO / MODE / MODE +b
queries (served in order, or unsolicited), and the invariant of `run`.
-/
import LimnoriaModel.C10.Burst6
namespace C10
open Py

theorem mSynced_sdel (s : Srv) (l : List Str) (k k' : Str) (h : k' ≠ k) :
    decide (k' ∈ sdel l k) = decide (k' ∈ l) := by simp [mem_sdel, h]
theorem mSynced_sadd (l : List Str) (k k' : Str) (h : k' ≠ k) :
    decide (k' ∈ sadd l k) = decide (k' ∈ l) := by simp [mem_sadd, h]

/-- the bot enters one channel: JOIN echo, then topic and NAMES; the channel counts as not yet synced -/
theorem own_join_one {s s1 : Srv} {b : Bot} (hw : SrvWF s) (hc : Coupled s b) {ub : SUser}
    (hub : aget s.users s.botKey = some ub) {c name : Str} (he : s.enter s.botKey c = some (s1, name)) {sc1 : SChan}
    (hsc1 : s1.chan c = some sc1) :
    Coupled { s1 with modesSynced := sdel s1.modesSynced (lower c), bansSynced := sdel s1.bansSynced (lower c),
                      told := if s1.cfg.uhnames then addAll (sadd s1.told s1.botKey) sc1.keys else sadd s1.told s1.botKey }
      (b.recvAll (emit ub.mask "JOIN" (joinArgs s.cfg name) :: s1.joinBurst sc1)) := by
  have hw1 : SrvWF s1 := enter_wf hw (by simp [hub]) he
  obtain ⟨hvalid, sc1', hs1, hname, hcase⟩ := enter_spec he
  subst hs1
  have hsc1' : aget (aset s.chans (lower c) sc1') (lower c) = some sc1 := hsc1
  rw [aget_aset_self] at hsc1'
  cases hsc1'
  have huo := hw.uok hub
  have hubn : ub.nick = s.bot := hw.bot_user hub
  have hcw1 := hw1.chans (lower c) sc1 (aget_aset_self _ _ _)
  have hkey : lower name = lower c := by rw [← hname]; exact hcw1.key
  have hcomma : ',' ∉ name := by rw [← hname]; exact chan_noComma_of_valid hcw1.name
  have hrel := hc.chans (lower c)
  have hbn : aget b.channels (lower c) = none ∧ sc1.has s.botKey = true := by
    rcases hcase with ⟨hnone, _, hsc⟩ | ⟨sc, hsome, hnot, hsc⟩
    · rw [hnone] at hrel
      constructor
      · cases hbc : aget b.channels (lower c) with
        | none => rfl
        | some ch => rw [hbc] at hrel; simp only [ChanRel] at hrel
      · rw [hsc, has_iff]; exact ⟨{ o := true }, by simp⟩
    · rw [hsome] at hrel
      constructor
      · cases hbc : aget b.channels (lower c) with
        | none => rfl
        | some ch => rw [hbc] at hrel; simp only [ChanRel] at hrel; rw [hnot] at hrel; exact absurd hrel.1 (by simp)
      · rw [hsc, has_iff]; exact ⟨{}, by simp⟩
  obtain ⟨hbnone, hbot1⟩ := hbn
  -- the JOIN echo
  simp only [recvAll_cons, recv_emit]
  obtain ⟨rest, hargs⟩ := joinArgs_cons s.cfg name
  obtain ⟨hc0, hfeed⟩ := feed_from_user hw hc hub "JOIN".toList (joinArgs s.cfg name)
    (setters_out_ok "JOIN".toList (by decide)) (by decide)
    (fun b0 => by simp only [Bot.ircCmd, cmdOf_JOIN, hargs]; split <;> rfl)
  rw [hfeed]
  have hj : ((b.seen ub).stateCmd ⟨ub.mask, "JOIN".toList, joinArgs s.cfg name⟩).1 =
      { b.seen ub with channels := aset b.channels (lower c) { Chan.empty with users := [s.botKey] } } := by
    simp only [Bot.stateCmd, cmdOf_JOIN, Bot.doJoin, hargs, splitChar_single hcomma, List.foldl_cons, List.foldl_nil,
      msg_nick_user huo]
    have hchan : (b.seen ub).chan name = none := by
      show aget b.channels (lower name) = none
      rw [hkey]; exact hbnone
    have hne : ub.nick.isEmpty = false := by
      cases hn : ub.nick with
      | nil => exact absurd hn huo.nick.ne
      | cons _ _ => rfl
    simp only [Bot.joinOne, hchan, hne, Bool.false_eq_true, ↓reduceIte, Bot.setChan, hkey, addUser_plain huo.nick]
    have : lower ub.nick = s.botKey := by rw [hubn]; rfl
    simp [this, Chan.empty, sadd, Bot.seen]
  rw [hj]
  obtain ⟨b1, hb1⟩ : ∃ b1, b1 = ({ b.seen ub with channels := aset b.channels (lower c) { Chan.empty with users := [s.botKey] } } : Bot) := ⟨_, rfl⟩
  rw [← hb1]
  -- topic and NAMES
  have hat : AtSrv { s with chans := aset s.chans (lower c) sc1 } b1 := by
    refine ⟨hw1, ?_, ?_⟩
    · rw [hb1]; exact hc.nick
    · rw [hb1]; exact hc.isup
  have hch1 : aget b1.channels (lower c) = some { Chan.empty with users := [s.botKey] } := by
    rw [hb1]; exact aget_aset_self _ _ _
  obtain ⟨hf, ⟨ch', hch', hm'⟩, hn'⟩ := burst_effect hat (aget_aset_self _ _ _) hbot1 hch1
  have hb1n2h : aget b1.n2h s.botKey = some ub.mask := by
    rw [hb1]
    show aget (aset b.n2h (lower ub.nick) ub.mask) s.botKey = _
    have : lower ub.nick = s.botKey := by rw [hubn]; rfl
    rw [this, aget_aset_self]
  have hkeep : ∀ k u, aget s.users k = some u → aget b.n2h k = some u.mask →
      aget (b1.recvAll (Srv.joinBurst { s with chans := aset s.chans (lower c) sc1 } sc1)).n2h k = some u.mask := by
    intro k u hu hcorrect
    have h1 : aget b1.n2h k = some u.mask := by
      rw [hb1]
      show aget (aset b.n2h (lower ub.nick) ub.mask) k = _
      rw [aget_aset]
      by_cases hk : lower ub.nick = k
      · have : k = s.botKey := by rw [← hk, hubn]; rfl
        subst this; rw [hub] at hu; cases hu; simp [hk]
      · simp only [hk, ↓reduceIte]; exact hcorrect
    exact hf.keeps hu h1
  -- conclude
  refine coupled_update hc (lower c) rfl rfl rfl ?_ (fun k hk => aget_aset_ne _ _ (Ne.symm hk)) ?_ ?_ ?_ ?_ ?_ ?_ ?_ ?_ ?_
  · intro k hk
    exact ⟨mSynced_sdel s _ _ _ hk, mSynced_sdel s _ _ _ hk⟩
  · intro k hk
    rw [hf.others k hk, hb1]
    exact aget_aset_ne _ _ (Ne.symm hk)
  · show ChanRel _ (lower c) (aget (aset s.chans (lower c) sc1) (lower c)) _
    rw [aget_aset_self, hch']
    refine ⟨hbot1, ?_⟩
    show ChanMatches s.cfg.multiPrefix (decide (lower c ∈ sdel s.modesSynced (lower c)))
      (decide (lower c ∈ sdel s.bansSynced (lower c))) sc1 ch'
    have e1 : decide (lower c ∈ sdel s.modesSynced (lower c)) = false := by simp [mem_sdel]
    have e2 : decide (lower c ∈ sdel s.bansSynced (lower c)) = false := by simp [mem_sdel]
    rw [e1, e2]
    exact hm'
  · rw [hf.nick, hb1]; rfl
  · rw [hf.cfgNick, hb1]; rfl
  · rw [hf.cfgIdent, hb1]; rfl
  · rw [hf.isup, hb1]; rfl
  · intro k u hu ht
    have ht' : k ∈ (if s.cfg.uhnames then addAll (sadd s.told s.botKey) sc1.keys else sadd s.told s.botKey) := ht
    have hbase : k ∈ sadd s.told s.botKey → aget (b1.recvAll (Srv.joinBurst { s with chans := aset s.chans (lower c) sc1 } sc1)).n2h k = some u.mask := by
      intro hk
      rcases mem_sadd.mp hk with rfl | hk
      · rw [hub] at hu; cases hu
        exact hf.keeps hub hb1n2h
      · exact hkeep k u hu (hc.hosts k u hu hk)
    by_cases huh : s.cfg.uhnames = true
    · simp only [huh, ↓reduceIte] at ht'
      rcases mem_addAll.mp ht' with h | h
      · exact hbase h
      · obtain ⟨f, hf'⟩ := mem_keys.mp h
        obtain ⟨u', hu', hn⟩ := hn' huh (k, f) hf'
        have hu'' : aget s.users k = some u' := hu'
        rw [hu] at hu''; cases hu''; exact hn
    · simp only [huh, Bool.false_eq_true, ↓reduceIte] at ht'
      exact hbase ht'
  · intro u hu _
    rw [hf.pfx, hb1]
    show (if ub.nick = b.nick then ub.mask else b.pfx) = _
    rw [hub] at hu; cases hu
    rw [if_pos (by rw [hubn, hc.nick])]
  · intro sc' _ _
    refine ⟨ub, hub, ?_⟩
    rw [hf.pfx, hb1]
    show (if ub.nick = b.nick then ub.mask else b.pfx) = _
    rw [if_pos (by rw [hubn, hc.nick])]

theorem joinBot_sim (ub : SUser) (cs : List Str) :
    ∀ (s : Srv) (b : Bot), SrvWF s → Coupled s b → aget s.users s.botKey = some ub →
      Coupled (s.joinBot ub cs).1 (b.recvAll (s.joinBot ub cs).2) := by
  induction cs with
  | nil => intro s b _ hc _; exact hc
  | cons c cs ih =>
    intro s b hw hc hub
    unfold Srv.joinBot
    cases he : s.enter s.botKey c with
    | none => simp only []; exact ih s b hw hc hub
    | some r =>
      obtain ⟨s1, name⟩ := r
      simp only []
      have hw1 : SrvWF s1 := enter_wf hw (by simp [hub]) he
      have hus := enter_users he
      obtain ⟨_, sc1, hs1, _, _⟩ := enter_spec he
      have hsc1 : s1.chan c = some sc1 := by
        rw [hs1]; show aget (aset s.chans (lower c) sc1) (lower c) = _; exact aget_aset_self _ _ _
      rw [hsc1]
      simp only []
      have hone := own_join_one hw hc hub he hsc1
      rw [recvAll_append]
      refine ih _ _ (wf_congr hw1 rfl rfl rfl rfl) hone ?_
      show aget s1.users s1.botKey = some ub
      simp only [Srv.botKey, hus.1, hus.2.1]; exact hub

theorem coupled_join {s : Srv} {b : Bot} (hw : SrvWF s) (hc : Coupled s b) (n : Str) (cs : List Str) :
    Coupled (s.step (.join n cs)).1 (b.recvAll (s.step (.join n cs)).2) := by
  simp only [Srv.step]
  split
  · exact hc
  · rename_i u hu
    rw [Srv.user_eq] at hu
    split
    · rename_i hb
      have hb' : lower n = s.botKey := by simpa using hb
      rw [hb'] at hu
      exact joinBot_sim u cs s b hw hc hu
    · rename_i hb
      have hb' : lower n ≠ s.botKey := by simpa using hb
      exact coupled_join_others hw hc n cs hu hb'

theorem view_channel' {s : Srv} {b : Bot} (hc : Coupled s b) {k : Str} {sc : SChan} (hs : aget s.chans k = some sc)
    (hb : sc.has s.botKey = true) :
    ∃ ch, aget b.channels k = some ch ∧ ChanMatches s.cfg.multiPrefix (s.mSynced k) (s.bSynced k) sc ch := by
  have h := hc.chans k
  rw [hs] at h
  cases hbc : aget b.channels k with
  | none => rw [hbc] at h; simp only [ChanRel] at h; rw [hb] at h; cases h
  | some ch => rw [hbc] at h; exact ⟨ch, rfl, h.2⟩

/-! ### replies to the MODE / MODE +b queries, solicited or not -/

theorem bot_chan_none {s : Srv} {b : Bot} (hc : Coupled s b) {k : Str} {sc : SChan} (hsc : aget s.chans k = some sc)
    (hb : sc.has s.botKey = false) : aget b.channels k = none := by
  have hrel := hc.chans k
  rw [hsc] at hrel
  cases hbc : aget b.channels k with
  | none => rfl
  | some ch => rw [hbc] at hrel; simp only [ChanRel] at hrel; rw [hb] at hrel; exact absurd hrel.1 (by simp)

theorem coupled_replyMode {s : Srv} {b : Bot} (hw : SrvWF s) (hc : Coupled s b) (c : Str) :
    Coupled (s.replyMode c).1 (b.recvAll (s.replyMode c).2) := by
  unfold Srv.replyMode
  split
  · rename_i sc hch
    rw [Srv.chan_eq] at hch
    have hcw := hw.chans _ _ hch
    have hat : AtSrv s b := ⟨hw, hc.nick, hc.isup⟩
    have hkey := hcw.key
    by_cases hb : sc.has s.botKey = true
    · have hbi : s.botIn sc = true := hb
      obtain ⟨ch, hbc, hm⟩ := view_channel' hc hch hb
      simp only [hbi, ↓reduceIte, recvAll_cons, recvAll_nil]
      rw [mode_line hat hch hbc]
      obtain ⟨ch4, hb4, hv4⟩ := created_line (s := s)
        (b := { b with channels := aset b.channels (lower c) { ch with modes := sc.modes.foldl (fun acc e => aset acc e.1 e.2) ch.modes } })
        ⟨hw, hc.nick, hc.isup⟩ sc (by rw [hkey]; exact aget_aset_self _ _ _)
      rw [hb4]
      simp only [hkey, aset_aset]
      refine coupled_of_frame hc (frame_setChan s (lower c) b ch4) rfl rfl rfl rfl ?_ ?_ (fun _ _ _ h => Or.inl h)
      · intro k' hk'
        exact ⟨mSynced_sadd _ _ _ hk', rfl⟩
      · rw [hch]
        show ChanRel _ (lower c) (some sc) (aget (aset b.channels (lower c) ch4) (lower c))
        rw [aget_aset_self]
        refine ⟨hb, ?_⟩
        have hlook : ∀ m, aget ch4.modes m = aget sc.modes m := by
          intro m
          rw [hv4.modes]
          show aget (sc.modes.foldl (fun acc e => aset acc e.1 e.2) ch.modes) m = _
          rw [foldl_aset_get _ _ hcw.modesNodup]
          cases hg : aget sc.modes m with
          | some v => rfl
          | none =>
            simp only
            rcases hm.modes m with e | e
            · rw [e, hg]
            · exact e
        refine ⟨?_, ?_, ?_, ?_, ?_, fun m => Or.inl (hlook m), fun _ => hlook, ?_, ?_⟩
        · rw [hv4.users]; exact hm.users
        · rw [hv4.ops]; exact hm.ops
        · rw [hv4.halfops]; exact hm.halfops
        · rw [hv4.voices]; exact hm.voices
        · rw [hv4.topic]; exact hm.topic
        · rw [hv4.bans]; exact hm.bans
        · rw [hv4.bans]; exact hm.bansFull
    · have hb' : sc.has s.botKey = false := by simpa using hb
      have hbi : s.botIn sc = false := hb'
      have hnone := bot_chan_none hc hch hb'
      rw [← hkey] at hnone
      unfold Srv.modeIs
      simp only [hbi, Bool.false_eq_true, ↓reduceIte, recvAll_cons, recvAll_nil, recv_emit, List.cons_append, List.nil_append]
      rw [(late_replies_ignored hat sc.name hnone _).1, (late_replies_ignored hat sc.name hnone _).2.1]
      exact hc
  · exact hc

theorem ban_lines_ignored {s : Srv} {b : Bot} (h : AtSrv s b) (sc : SChan) (hnone : aget b.channels (lower sc.name) = none)
    (bans : List Str) :
    b.recvAll (bans.map (fun m => emit s.cfg.server "367" [s.bot, sc.name, m, s.cfg.server, ['0']])) = b := by
  induction bans with
  | nil => rfl
  | cons m ms ih =>
    simp only [List.map_cons, recvAll_cons, recv_emit]
    rw [(late_replies_ignored h sc.name hnone _).2.2]
    exact ih

theorem coupled_replyBans {s : Srv} {b : Bot} (hw : SrvWF s) (hc : Coupled s b) (c : Str) :
    Coupled (s.replyBans c).1 (b.recvAll (s.replyBans c).2) := by
  unfold Srv.replyBans
  split
  · rename_i sc hch
    rw [Srv.chan_eq] at hch
    have hcw := hw.chans _ _ hch
    have hat : AtSrv s b := ⟨hw, hc.nick, hc.isup⟩
    have hkey := hcw.key
    unfold Srv.banList
    simp only [recvAll_append]
    by_cases hb : sc.has s.botKey = true
    · have hbi : s.botIn sc = true := hb
      obtain ⟨ch, hbc, hm⟩ := view_channel' hc hch hb
      rw [ban_lines sc sc.bans hat (by rw [hkey]; exact hbc)]
      obtain ⟨b1, hb1⟩ : ∃ b1, b1 = ({ b with channels := (aset b.channels (lower sc.name)
          { ch with bans := sc.bans.foldl (fun acc m => sadd acc (lower m)) ch.bans }) } : Bot) := ⟨_, rfl⟩
      rw [← hb1]
      have h1 : AtSrv s b1 := by rw [hb1]; exact ⟨hw, hc.nick, hc.isup⟩
      simp only [recvAll_cons, recvAll_nil, recv_emit]
      rw [noop_line h1 "368".toList [sc.name, "End of channel ban list".toList] cmdOf_368]
      subst hb1
      rw [hkey]
      simp only [hbi, ↓reduceIte]
      refine coupled_of_frame hc (frame_setChan s (lower c) b _) rfl rfl rfl rfl ?_ ?_ (fun _ _ _ h => Or.inl h)
      · intro k' hk'
        exact ⟨rfl, mSynced_sadd _ _ _ hk'⟩
      · rw [hch]
        show ChanRel _ (lower c) (some sc) (aget (aset b.channels (lower c) _) (lower c))
        rw [aget_aset_self]
        refine ⟨hb, ⟨hm.users, hm.ops, hm.halfops, hm.voices, hm.topic, hm.modes, hm.modesFull, ?_, ?_⟩⟩
        · intro x hx
          have hx' : x ∈ sc.bans.foldl (fun acc m => sadd acc (lower m)) ch.bans := hx
          rcases (foldl_sadd_mem _ _ _).mp hx' with h | h
          · exact hm.bans x h
          · exact h
        · intro _ x hx
          show x ∈ sc.bans.foldl (fun acc m => sadd acc (lower m)) ch.bans
          exact (foldl_sadd_mem _ _ _).mpr (Or.inr hx)
    · have hb' : sc.has s.botKey = false := by simpa using hb
      have hbi : s.botIn sc = false := hb'
      have hnone := bot_chan_none hc hch hb'
      rw [← hkey] at hnone
      rw [ban_lines_ignored hat sc hnone]
      simp only [recvAll_cons, recvAll_nil, recv_emit]
      rw [noop_line hat "368".toList [sc.name, "End of channel ban list".toList] cmdOf_368]
      simp only [hbi, Bool.false_eq_true, ↓reduceIte]
      exact hc
  · exact hc

/-- dropping or adding pending queries does not touch the coupling -/
theorem coupled_pending {s : Srv} {b : Bot} (hc : Coupled s b) (p : List Req) : Coupled { s with pending := p } b :=
  ⟨hc.nick, hc.chans, hc.hosts, hc.pfx, hc.cfgNick, hc.cfgIdent, hc.isup⟩

theorem coupled_serve {s : Srv} {b : Bot} (hw : SrvWF s) (hc : Coupled s b) :
    Coupled (s.step .serve).1 (b.recvAll (s.step .serve).2) := by
  simp only [Srv.step]
  split
  · exact hc
  · rename_i c rest _
    exact coupled_replyWho (s := { s with pending := rest }) (wf_congr hw rfl rfl rfl rfl) (coupled_pending hc rest) c
  · rename_i c rest _
    exact coupled_replyMode (s := { s with pending := rest }) (wf_congr hw rfl rfl rfl rfl) (coupled_pending hc rest) c
  · rename_i c rest _
    exact coupled_replyBans (s := { s with pending := rest }) (wf_congr hw rfl rfl rfl rfl) (coupled_pending hc rest) c

/-- every action of the reference server keeps the bot's view coupled to the server state -/
theorem coupled_step {s : Srv} {b : Bot} (hw : SrvWF s) (hc : Coupled s b) (a : Act) (ha : a.ok) :
    Coupled (s.step a).1 (b.recvAll (s.step a).2) := by
  cases a with
  | connect n i ho => exact coupled_connect hw hc n i ho
  | join n cs => exact coupled_join hw hc n cs
  | part n cs r => exact coupled_part hw hc n cs r
  | kick src c ts r => exact coupled_kick hw hc src c ts r
  | quit n r => exact coupled_quit hw hc n r
  | nick n n' => exact coupled_nick hw hc n n'
  | mode src c cs => exact coupled_mode hw hc src c cs ha
  | topic src c t => exact coupled_topic hw hc src c t
  | chghost n i ho => exact coupled_chghost hw hc n i ho
  | say n t x => exact coupled_say hw hc n t x
  | isupport => exact coupled_isupport hw hc
  | names c => exact coupled_names hw hc c
  | who c => exact coupled_replyWho hw hc c
  | modeis c => exact coupled_replyMode hw hc c
  | banlist c => exact coupled_replyBans hw hc c
  | serve => exact coupled_serve hw hc
  | reconnect => exact coupled_reconnect hw hc

theorem coupled_init (cfg : Cfg) (hv : cfg.valid = true) : Coupled (Srv.init cfg) (Bot.init cfg.botNick cfg.botIdent) := by
  refine ⟨rfl, ?_, ?_, ?_, rfl, rfl, ⟨Or.inl rfl, Or.inl rfl⟩⟩
  · intro k; simp [Srv.init, Bot.init, ChanRel]
  · intro k u _ hv'; simp [Srv.init] at hv'
  · intro k sc hsc; simp [Srv.init] at hsc

theorem run_inv (acts : List Act) : ∀ (s : Srv) (b : Bot), SrvWF s → Coupled s b → (∀ a ∈ acts, a.ok) →
    SrvWF (run s b acts).1 ∧ Coupled (run s b acts).1 (run s b acts).2 := by
  induction acts with
  | nil => intro s b hw hc _; exact ⟨hw, hc⟩
  | cons a as ih =>
    intro s b hw hc hok
    unfold run
    have h1 := wf_step hw a (hok a (by simp))
    have h2 := coupled_step hw hc a (hok a (by simp))
    exact ih _ _ (wf_enqueue h1 _) (coupled_pending h2 _) (fun a' ha' => hok a' (by simp [ha']))

end C10
