/-
C10 — simulation, part 7: MODE.  The mode string the server sends is split back into the accepted
changes by `separateModes` (table obligations), and every accepted change has the same effect on
the bot's `ChannelState` as on the server's channel.
-/
import LimnoriaModel.C10.Sim6
namespace C10
open Py

def sign (a : Bool) : Char := if a then '+' else '-'

/-- what `separateModes` should return for one accepted change -/
def tr (c : MChange) : Char × Char × Option Str := (sign c.add, c.ch, c.arg)

/-- the argument shape of an accepted change, by mode class -/
def Shaped (c : MChange) : Prop :=
  (c.ch ∈ prefixModes ++ listModes ++ keyModes ∧ ∃ a, c.arg = some a) ∨
  (c.ch ∈ limitModes ∧ c.add = true ∧ ∃ a, c.arg = some a) ∨
  (c.ch ∈ limitModes ∧ c.add = false ∧ c.arg = none) ∨
  (isFlagMode c.ch = true ∧ c.arg = none)

theorem class_letters : ∀ c ∈ prefixModes ++ listModes ++ keyModes ++ limitModes, c ≠ '+' ∧ c ≠ '-' := by decide

theorem flag_letter {c : Char} (h : isFlagMode c = true) : c ≠ '+' ∧ c ≠ '-' := by
  unfold isFlagMode at h
  simp only [Bool.and_eq_true, Bool.or_eq_true, decide_eq_true_eq] at h
  constructor
  · intro e; subst e; revert h; decide
  · intro e; subst e; revert h; decide

theorem flag_not_class {c : Char} (h : isFlagMode c = true) : c ∉ prefixModes ++ listModes ++ keyModes ++ limitModes := by
  unfold isFlagMode at h
  simp only [Bool.and_eq_true, Bool.not_eq_eq_eq_not, Bool.not_true, Bool.or_eq_false_iff] at h
  obtain ⟨⟨⟨⟨h1, h2⟩, h3⟩, h4⟩, _⟩ := h
  simp only [List.mem_append, not_or]
  refine ⟨⟨⟨?_, ?_⟩, ?_⟩, ?_⟩
  · intro hm; rw [contains_iff.mpr hm] at h1; cases h1
  · intro hm; rw [contains_iff.mpr hm] at h2; cases h2
  · intro hm; rw [contains_iff.mpr hm] at h3; cases h3
  · intro hm; rw [contains_iff.mpr hm] at h4; cases h4

theorem shaped_letter {c : MChange} (h : Shaped c) : c.ch ≠ '+' ∧ c.ch ≠ '-' := by
  rcases h with ⟨h, _⟩ | ⟨h, _⟩ | ⟨h, _⟩ | ⟨h, _⟩
  · exact class_letters _ (by simp only [List.mem_append] at h ⊢; exact Or.inl h)
  · exact class_letters _ (by simp only [List.mem_append]; exact Or.inr h)
  · exact class_letters _ (by simp only [List.mem_append]; exact Or.inr h)
  · exact flag_letter h

/-- an accepted change has the argument shape of its class -/
theorem shaped_of_applyMode {sc sc' : SChan} {c : MChange} (ha : sc.applyMode c = some sc') : Shaped c := by
  unfold SChan.applyMode at ha
  split at ha
  · rename_i hp
    split at ha
    · cases ha
    · rename_i a harg
      exact Or.inl ⟨by simp only [List.mem_append]; exact Or.inl (Or.inl (contains_iff.mp hp)), a, harg⟩
  · split at ha
    · rename_i hl
      split at ha
      · cases ha
      · rename_i a harg
        exact Or.inl ⟨by simp only [List.mem_append]; exact Or.inl (Or.inr (contains_iff.mp hl)), a, harg⟩
    · split at ha
      · rename_i hk
        split at ha
        · cases ha
        · rename_i a harg
          exact Or.inl ⟨by simp only [List.mem_append]; exact Or.inr (contains_iff.mp hk), a, harg⟩
      · split at ha
        · rename_i hl
          split at ha
          · rename_i hadd
            split at ha
            · cases ha
            · rename_i a harg
              exact Or.inr (Or.inl ⟨contains_iff.mp hl, hadd, a, harg⟩)
          · rename_i hadd
            split at ha
            · cases ha
            · rename_i harg
              exact Or.inr (Or.inr (Or.inl ⟨contains_iff.mp hl, by simpa using hadd, harg⟩))
        · split at ha
          · rename_i hf
            split at ha
            · cases ha
            · rename_i harg
              exact Or.inr (Or.inr (Or.inr ⟨hf, harg⟩))
          · cases ha

theorem applyModes_shaped (cs : List MChange) (sc : SChan) : ∀ c ∈ (applyModes sc cs).2, Shaped c ∧ c ∈ cs := by
  induction cs generalizing sc with
  | nil => intro c hc; simp [applyModes] at hc
  | cons c0 cs ih =>
    intro c hc
    unfold applyModes at hc
    split at hc
    · obtain ⟨h1, h2⟩ := ih _ c hc
      exact ⟨h1, List.mem_cons_of_mem _ h2⟩
    · rename_i sc1 ha
      simp only [List.mem_cons] at hc
      rcases hc with rfl | hc
      · exact ⟨shaped_of_applyMode ha, by simp⟩
      · obtain ⟨h1, h2⟩ := ih _ c hc
        exact ⟨h1, List.mem_cons_of_mem _ h2⟩

/-! ### `separateModes` inverts the server's rendering -/

theorem sign_pm (a : Bool) : sign a = '+' ∨ sign a = '-' := by cases a <;> simp [sign]

theorem sepGo_sign (a : Bool) (cs : Str) (lc : Char) (args : List Str) :
    sepGo (sign a :: cs) lc args = sepGo cs (sign a) args := by
  rcases sign_pm a with h | h <;> simp [sepGo, h]

theorem table_of_sign (a : Bool) :
    (if sign a = '+' then Gen.plusRequireArguments else Gen.minusRequireArguments) =
      if a then Gen.plusRequireArguments else Gen.minusRequireArguments := by
  cases a <;> simp [sign]

theorem modeString_cons (last : Option Bool) (c : MChange) (cs : List MChange) :
    modeString last (c :: cs) = (if last = some c.add then [] else [sign c.add]) ++ c.ch :: modeString (some c.add) cs := rfl

theorem sepGo_modeString (cs : List MChange) (hs : ∀ c ∈ cs, Shaped c)
    (hcanon : ∀ c ∈ cs, ∀ a, c.arg = some a → modeArg a = a) :
    ∀ (last : Option Bool) (lc : Char), (∀ a, last = some a → lc = sign a) →
      sepGo (modeString last cs) lc (modeArgs cs) = cs.map tr := by
  induction cs with
  | nil => intro last lc _; simp [modeString, sepGo]
  | cons c cs ih =>
    intro last lc hl
    have hsh := hs c (by simp)
    have hlet := shaped_letter hsh
    have ih' := ih (fun c' hc' => hs c' (by simp [hc'])) (fun c' hc' => hcanon c' (by simp [hc'])) (some c.add) (sign c.add)
      (fun a ha => by cases ha; rfl)
    -- both renderings reduce to the letter with the right sign in force
    have hstep : sepGo (modeString last (c :: cs)) lc (modeArgs (c :: cs)) =
        sepGo (c.ch :: modeString (some c.add) cs) (sign c.add) (modeArgs (c :: cs)) := by
      rw [modeString_cons]
      by_cases hla : last = some c.add
      · simp only [hla, ↓reduceIte, List.nil_append]
        rw [hl c.add hla]
      · simp only [hla, ↓reduceIte, List.cons_append, List.nil_append]
        rw [sepGo_sign]
    rw [hstep]
    have hnpm : (c.ch = '+' || c.ch = '-') = false := by simp [hlet.1, hlet.2]
    unfold sepGo
    simp only [hnpm, Bool.false_eq_true, ↓reduceIte, table_of_sign]
    rcases hsh with ⟨hcls, a, harg⟩ | ⟨hcls, hadd, a, harg⟩ | ⟨hcls, hadd, harg⟩ | ⟨hflag, harg⟩
    · have ht := mode_tables_ok.1 c.ch hcls
      have hin : c.ch ∈ (if c.add = true then Gen.plusRequireArguments else Gen.minusRequireArguments) := by
        split
        · exact ht.1
        · exact ht.2
      have hargs : modeArgs (c :: cs) = a :: modeArgs cs := by simp [modeArgs, harg]
      simp only [hin, ↓reduceIte, hargs, List.map_cons, tr, harg, hcanon c (by simp) a harg]
      rw [ih']
    · have ht := mode_tables_ok.2.1 c.ch hcls
      have hin : c.ch ∈ (if c.add = true then Gen.plusRequireArguments else Gen.minusRequireArguments) := by
        simp only [hadd, ↓reduceIte]; exact ht.1
      have hargs : modeArgs (c :: cs) = a :: modeArgs cs := by simp [modeArgs, harg]
      simp only [hin, ↓reduceIte, hargs, List.map_cons, tr, harg, hcanon c (by simp) a harg]
      rw [ih']
    · have ht := mode_tables_ok.2.1 c.ch hcls
      have hin : c.ch ∉ (if c.add = true then Gen.plusRequireArguments else Gen.minusRequireArguments) := by
        simp only [hadd, Bool.false_eq_true, ↓reduceIte]; exact ht.2
      have hargs : modeArgs (c :: cs) = modeArgs cs := by simp [modeArgs, harg]
      simp only [hin, ↓reduceIte, hargs, List.map_cons, tr, harg]
      rw [ih']
    · have hnc := flag_not_class hflag
      have hin : c.ch ∉ (if c.add = true then Gen.plusRequireArguments else Gen.minusRequireArguments) := by
        split
        · intro hm; exact hnc (mode_tables_ok.2.2.1 c.ch hm)
        · intro hm; exact hnc (mode_tables_ok.2.2.2 c.ch hm)
      have hargs : modeArgs (c :: cs) = modeArgs cs := by simp [modeArgs, harg]
      simp only [hin, ↓reduceIte, hargs, List.map_cons, tr, harg]
      rw [ih']

theorem separateModes_render (cs : List MChange) (hs : ∀ c ∈ cs, Shaped c)
    (hcanon : ∀ c ∈ cs, ∀ a, c.arg = some a → modeArg a = a) :
    separateModes (modeString none cs :: modeArgs cs) = cs.map tr := by
  unfold separateModes
  exact sepGo_modeString cs hs hcanon none '+' (fun a ha => by cases ha)

end C10
