/-
C10 — the replies a joining client gets, part 3: the NAMES reply as a whole; the WHO reply.
-/
import LimnoriaModel.C10.Burst2
namespace C10
open Py

/-- what NAMES lines listing the members `ps` do to the bot's record `ch` of the channel -/
structure NamesRel (ty : Str) (ps : List (Str × Flags)) (ch ch' : Chan) : Prop where
  users : ∀ x, x ∈ ch'.users ↔ x ∈ ch.users ∨ ∃ f, (x, f) ∈ ps
  ops : ∀ x, x ∈ ch'.ops ↔ x ∈ ch.ops ∨ ∃ f, (x, f) ∈ ps ∧ f.o = true
  halfops : ∀ x, x ∈ ch'.halfops ↔ x ∈ ch.halfops ∨ ∃ f, (x, f) ∈ ps ∧ f.h = true
  voices : ∀ x, x ∈ ch'.voices ↔ x ∈ ch.voices ∨ ∃ f, (x, f) ∈ ps ∧ f.v = true
  topic : ch'.topic = ch.topic
  bans : ch'.bans = ch.bans
  modes : ∀ m, aget ch'.modes m = aget ch.modes m ∨ (ty = ['@'] ∧ m = 's' ∧ aget ch'.modes m = some none)

theorem NamesRel.nil (ty : Str) (ch : Chan) : NamesRel ty [] ch ch :=
  ⟨by simp, by simp, by simp, by simp, rfl, rfl, fun _ => Or.inl rfl⟩

theorem NamesRel.append {ty : Str} {ps qs : List (Str × Flags)} {a b c : Chan}
    (h1 : NamesRel ty ps a b) (h2 : NamesRel ty qs b c) : NamesRel ty (ps ++ qs) a c where
  users := fun x => by
    rw [h2.users, h1.users]; simp only [List.mem_append]
    constructor
    · rintro ((h | ⟨f, hf⟩) | ⟨f, hf⟩)
      · exact Or.inl h
      · exact Or.inr ⟨f, Or.inl hf⟩
      · exact Or.inr ⟨f, Or.inr hf⟩
    · rintro (h | ⟨f, hf | hf⟩)
      · exact Or.inl (Or.inl h)
      · exact Or.inl (Or.inr ⟨f, hf⟩)
      · exact Or.inr ⟨f, hf⟩
  ops := fun x => by
    rw [h2.ops, h1.ops]; simp only [List.mem_append]
    constructor
    · rintro ((h | ⟨f, hf, ho⟩) | ⟨f, hf, ho⟩)
      · exact Or.inl h
      · exact Or.inr ⟨f, Or.inl hf, ho⟩
      · exact Or.inr ⟨f, Or.inr hf, ho⟩
    · rintro (h | ⟨f, hf | hf, ho⟩)
      · exact Or.inl (Or.inl h)
      · exact Or.inl (Or.inr ⟨f, hf, ho⟩)
      · exact Or.inr ⟨f, hf, ho⟩
  halfops := fun x => by
    rw [h2.halfops, h1.halfops]; simp only [List.mem_append]
    constructor
    · rintro ((h | ⟨f, hf, ho⟩) | ⟨f, hf, ho⟩)
      · exact Or.inl h
      · exact Or.inr ⟨f, Or.inl hf, ho⟩
      · exact Or.inr ⟨f, Or.inr hf, ho⟩
    · rintro (h | ⟨f, hf | hf, ho⟩)
      · exact Or.inl (Or.inl h)
      · exact Or.inl (Or.inr ⟨f, hf, ho⟩)
      · exact Or.inr ⟨f, hf, ho⟩
  voices := fun x => by
    rw [h2.voices, h1.voices]; simp only [List.mem_append]
    constructor
    · rintro ((h | ⟨f, hf, ho⟩) | ⟨f, hf, ho⟩)
      · exact Or.inl h
      · exact Or.inr ⟨f, Or.inl hf, ho⟩
      · exact Or.inr ⟨f, Or.inr hf, ho⟩
    · rintro (h | ⟨f, hf | hf, ho⟩)
      · exact Or.inl (Or.inl h)
      · exact Or.inl (Or.inr ⟨f, hf, ho⟩)
      · exact Or.inr ⟨f, hf, ho⟩
  topic := h2.topic.trans h1.topic
  bans := h2.bans.trans h1.bans
  modes := fun m => by
    rcases h2.modes m with e | ⟨a, b', e⟩
    · rw [e]; exact h1.modes m
    · exact Or.inr ⟨a, b', e⟩

/-- the context in which the bot reads the server's numerics -/
structure AtSrv (s : Srv) (b : Bot) : Prop where
  wf : SrvWF s
  nick : b.nick = s.bot
  isup : IsupOK b.isup

theorem AtSrv.server {s : Srv} {b : Bot} (h : AtSrv s b) : ServerOK s.cfg.server ∧ s.cfg.server ≠ b.nick := by
  have hsv := serverOK_of_cfg h.wf.cfg
  exact ⟨hsv, by rw [h.nick]; exact server_ne_nick hsv h.wf.botNickOK⟩

theorem AtSrv.frame {s : Srv} {key : Str} {b b' : Bot} (h : AtSrv s b) (hf : Frame s key b b') : AtSrv s b' :=
  ⟨h.wf, hf.nick.trans h.nick, by rw [hf.isup]; exact h.isup⟩

def secretMark (ty : Str) (c : Chan) : Chan :=
  if ty = ['@'] then { c with modes := aset c.modes 's' none } else c

theorem namesRel_line (ty : Str) (ps : List (Str × Flags)) (ch : Chan) :
    NamesRel ty ps ch (secretMark ty (ps.foldl addMember ch)) := by
  have hr := foldl_addMember_rest ps ch
  unfold secretMark
  by_cases ht : ty = ['@']
  · simp only [ht, ↓reduceIte]
    refine ⟨by intro x; rw [foldl_addMember_users], by intro x; rw [foldl_addMember_ops],
      by intro x; rw [foldl_addMember_halfops], by intro x; rw [foldl_addMember_voices], hr.1, hr.2.2.1, ?_⟩
    intro m
    show aget (aset (ps.foldl addMember ch).modes 's' none) m = _ ∨ _
    rw [aget_aset, hr.2.1]
    by_cases hm : 's' = m
    · subst hm; simp
    · simp [hm]
  · simp only [ht, ↓reduceIte]
    exact ⟨by intro x; rw [foldl_addMember_users], by intro x; rw [foldl_addMember_ops],
      by intro x; rw [foldl_addMember_halfops], by intro x; rw [foldl_addMember_voices], hr.1, hr.2.2.1,
      fun m => Or.inl (by rw [hr.2.1])⟩

/-- one RPL_NAMREPLY line -/
theorem names_line {s : Srv} {b : Bot} (h : AtSrv s b) (name ty : Str) {ps : List (Str × Flags)}
    (hps : MembersOK s ps) {ch : Chan} (hch : aget b.channels (lower name) = some ch) :
    Frame s (lower name) b (b.feed ⟨s.cfg.server, "353".toList, [s.bot, ty, name, joinChar ' ' (ps.map s.namesItem)]⟩).1 ∧
    (∃ ch', aget (b.feed ⟨s.cfg.server, "353".toList, [s.bot, ty, name, joinChar ' ' (ps.map s.namesItem)]⟩).1.channels (lower name) = some ch' ∧
      NamesRel ty (shownMembers s ps) ch ch') ∧
    (s.cfg.uhnames = true → ∀ p ∈ ps, ∃ u, aget s.users p.1 = some u ∧
      aget (b.feed ⟨s.cfg.server, "353".toList, [s.bot, ty, name, joinChar ' ' (ps.map s.namesItem)]⟩).1.n2h p.1 = some u.mask) := by
  obtain ⟨hsv, hne⟩ := h.server
  have hfeed := feed_server (b := b) h.isup hsv hne "353".toList [ty, name, joinChar ' ' (ps.map s.namesItem)]
    (by simp only [Bot.ircCmd, cmdOf_353])
  rw [h.nick] at hfeed
  have hsplit : splitWs (joinChar ' ' (ps.map s.namesItem)) = ps.map s.namesItem :=
    splitWs_joinChar (namesItem_ne_nosp hps).1 (namesItem_ne_nosp hps).2
  have hcn : b.chanOrNew name = ch := by simp only [Bot.chanOrNew, Bot.chan, hch, Option.getD_some]
  have hres : (b.feed ⟨s.cfg.server, "353".toList, [s.bot, ty, name, joinChar ' ' (ps.map s.namesItem)]⟩).1 =
      { b with channels := aset b.channels (lower name) (secretMark ty ((shownMembers s ps).foldl addMember ch)),
               n2h := (ps.map s.namesItem).foldl n2h353 b.n2h } := by
    rw [hfeed]
    simp only [Bot.stateCmd, cmdOf_353, Bot.do353, hsplit, hcn, foldl_addUser_items hps, Bot.setChan, secretMark]
  rw [hres]
  refine ⟨⟨rfl, rfl, rfl, rfl, rfl, fun k hk => aget_aset_ne _ _ (Ne.symm hk), ?_⟩,
    ⟨_, aget_aset_self _ _ _, namesRel_line ty (shownMembers s ps) ch⟩, ?_⟩
  · intro x
    exact foldl_n2h353_items hps b.n2h x
  · intro huh p hp
    exact foldl_n2h353_sets huh hps b.n2h p hp

/-- a numeric without handler (366, 368, 333, ...) changes nothing -/
theorem noop_line {s : Srv} {b : Bot} (h : AtSrv s b) (cmd : Str) (rest : List Str) (hk : cmdOf cmd = .other) :
    (b.feed ⟨s.cfg.server, cmd, s.bot :: rest⟩).1 = b := by
  obtain ⟨hsv, hne⟩ := h.server
  have hfeed := feed_server (b := b) h.isup hsv hne cmd rest (by simp only [Bot.ircCmd, hk])
  rw [h.nick] at hfeed
  rw [hfeed]
  simp only [Bot.stateCmd, hk]

theorem shownMembers_append (s : Srv) (ps qs : List (Str × Flags)) :
    shownMembers s (ps ++ qs) = shownMembers s ps ++ shownMembers s qs := by simp [shownMembers]

/-- a recorded hostmask that is right stays right within a frame -/
theorem Frame.keeps {s : Srv} {key : Str} {b b' : Bot} (hf : Frame s key b b') {x : Str} {u : SUser}
    (hu : aget s.users x = some u) (h : aget b.n2h x = some u.mask) : aget b'.n2h x = some u.mask := by
  rcases hf.n2h x with e | ⟨u', hu', e⟩
  · rw [e]; exact h
  · rw [hu] at hu'; cases hu'; exact e

/-- the NAMES lines for the pieces `pss` of the member list -/
theorem names_lines {s : Srv} (name ty : Str) (pss : List (List (Str × Flags))) :
    ∀ {b : Bot} {ch : Chan}, AtSrv s b → MembersOK s pss.flatten → aget b.channels (lower name) = some ch →
      Frame s (lower name) b (b.recvAll (pss.map (fun ps => emit s.cfg.server "353" [s.bot, ty, name, joinChar ' ' (ps.map s.namesItem)]))) ∧
      (∃ ch', aget (b.recvAll (pss.map (fun ps => emit s.cfg.server "353" [s.bot, ty, name, joinChar ' ' (ps.map s.namesItem)]))).channels (lower name) = some ch' ∧
        NamesRel ty (shownMembers s pss.flatten) ch ch') ∧
      (s.cfg.uhnames = true → ∀ p ∈ pss.flatten, ∃ u, aget s.users p.1 = some u ∧
        aget (b.recvAll (pss.map (fun ps => emit s.cfg.server "353" [s.bot, ty, name, joinChar ' ' (ps.map s.namesItem)]))).n2h p.1 = some u.mask) := by
  induction pss with
  | nil => intro b ch _ _ hch; exact ⟨Frame.refl _ _ _, ⟨ch, hch, NamesRel.nil ty ch⟩, fun _ p hp => by simp at hp⟩
  | cons ps pss ih =>
    intro b ch h hm hch
    simp only [List.map_cons, recvAll_cons, recv_emit, List.flatten_cons]
    have hm1 : MembersOK s ps := hm.sub (fun p hp => by rw [List.flatten_cons]; exact List.mem_append_left _ hp)
    have hm2 : MembersOK s pss.flatten := hm.sub (fun p hp => by rw [List.flatten_cons]; exact List.mem_append_right _ hp)
    obtain ⟨hf1, ⟨ch1, hch1, hr1⟩, hn1⟩ := names_line h name ty hm1 hch
    obtain ⟨hf2, ⟨ch2, hch2, hr2⟩, hn2⟩ := ih (h.frame hf1) hm2 hch1
    refine ⟨hf1.trans hf2, ⟨ch2, hch2, by rw [shownMembers_append]; exact hr1.append hr2⟩, ?_⟩
    intro huh p hp
    rcases List.mem_append.mp hp with hp | hp
    · obtain ⟨u, hu, hn⟩ := hn1 huh p hp
      exact ⟨u, hu, hf2.keeps hu hn⟩
    · exact hn2 huh p hp

/-- the whole reply to NAMES -/
theorem names_reply {s : Srv} {b : Bot} (h : AtSrv s b) {k : Str} {sc : SChan} (hsc : aget s.chans k = some sc) {ch : Chan}
    (hch : aget b.channels k = some ch) :
    Frame s k b (b.recvAll (s.namesReply sc)) ∧
    (∃ ch', aget (b.recvAll (s.namesReply sc)).channels k = some ch' ∧
      NamesRel (if (aget sc.modes 's').isSome then ['@'] else if (aget sc.modes 'p').isSome then ['*'] else ['='])
        (shownMembers s sc.members) ch ch') ∧
    (s.cfg.uhnames = true → ∀ p ∈ sc.members, ∃ u, aget s.users p.1 = some u ∧
      aget (b.recvAll (s.namesReply sc)).n2h p.1 = some u.mask) := by
  have hkey := (h.wf.chans k sc hsc).key
  subst hkey
  unfold Srv.namesReply
  simp only [recvAll_append, chunks_map, List.map_map]
  have hm : MembersOK s (chunks s.cfg.namesPerLine sc.members).flatten := by
    rw [chunks_flatten]; exact membersOK_of_wf h.wf hsc
  obtain ⟨hf, ⟨ch', hch', hr⟩, hn⟩ := names_lines (s := s) sc.name
    (if (aget sc.modes 's').isSome then ['@'] else if (aget sc.modes 'p').isSome then ['*'] else ['='])
    (chunks s.cfg.namesPerLine sc.members) h hm hch
  rw [chunks_flatten] at hr hn
  have hnoop := noop_line (h.frame hf) "366".toList [sc.name, "End of /NAMES list.".toList] cmdOf_366
  simp only [recvAll_cons, recv_emit, recvAll_nil]
  have e : ((fun items => emit s.cfg.server "353" [s.bot, (if (aget sc.modes 's').isSome then ['@'] else if (aget sc.modes 'p').isSome then ['*'] else ['=']), sc.name, joinChar ' ' items]) ∘ List.map s.namesItem) =
      (fun ps => emit s.cfg.server "353" [s.bot, (if (aget sc.modes 's').isSome then ['@'] else if (aget sc.modes 'p').isSome then ['*'] else ['=']), sc.name, joinChar ' ' (ps.map s.namesItem)]) := rfl
  rw [e, hnoop]
  exact ⟨hf, ⟨ch', hch', hr⟩, hn⟩

end C10
