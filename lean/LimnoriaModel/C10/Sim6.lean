/-
C10 — simulation, part 6: numerics from the server; reconnect; NAMES and WHO replies.
-/
import LimnoriaModel.C10.Sim5
namespace C10
open Py

/-- a numeric reply (first parameter = the bot's nick) from the server: only the `IrcState` handler acts -/
theorem feed_server {b : Bot} {p : Str} (hp : ServerOK p) (hne : p ≠ b.nick) (cmd : Str) (rest : List Str)
    (hirc : b.ircCmd ⟨p, cmd, b.nick :: rest⟩ = (b, false)) :
    (b.feed ⟨p, cmd, b.nick :: rest⟩).1 = (b.stateCmd ⟨p, cmd, b.nick :: rest⟩).1 := by
  have hpu : b.pfxUpd ⟨p, cmd, b.nick :: rest⟩ = b := pfxUpd_server hp.noBang hne _ _
  by_cases hs : cmd ∈ Gen.nickSetters
  · rw [feed_setter b _ hne hs b.nick rest rfl rfl (by rw [hpu]) (by rw [hpu, hirc])]
    rw [hpu, hirc, prelude_server hp.noBang]
  · rw [feed_plain b _ hne hs (by rw [hpu, hirc])]
    rw [hpu, hirc, prelude_server hp.noBang]

/-! ### reconnect -/

theorem coupled_reconnect {s : Srv} {b : Bot} (hw : SrvWF s) (hc : Coupled s b) :
    Coupled (s.step .reconnect).1 (b.recvAll (s.step .reconnect).2) := by
  simp only [Srv.step]
  split
  · exact hc
  · rename_i u hu
    split
    · exact hc
    · rename_i hcond
      simp only [Bool.and_eq_true, bne_iff_ne, ne_eq, not_and, Bool.not_eq_true, Option.isSome_eq_false_iff,
        Option.isNone_iff_eq_none] at hcond
      rw [Srv.user_eq] at hcond
      have hsv := serverOK_of_cfg hw.cfg
      have hcfg := hw.cfg
      unfold Cfg.valid at hcfg
      simp only [Bool.and_eq_true] at hcfg
      have hbn : NickOK s.cfg.botNick := nickOK_of_valid hcfg.1.1.1.1
      -- the bot after the reset and the welcome
      have hreset : b.reset = Bot.init s.cfg.botNick s.cfg.botIdent := by
        unfold Bot.reset; rw [hc.cfgNick, hc.cfgIdent]
      have hne : s.cfg.server ≠ (Bot.init s.cfg.botNick s.cfg.botIdent).nick := server_ne_nick hsv hbn
      have hfeed := feed_server (b := Bot.init s.cfg.botNick s.cfg.botIdent) hsv hne "001".toList ["Welcome".toList]
        (by simp only [Bot.ircCmd, cmdOf_001])
      simp only [recvAll_cons, Bot.recv, recvAll_nil, hreset, emit]
      have e : (Bot.init s.cfg.botNick s.cfg.botIdent).nick = s.cfg.botNick := rfl
      rw [e] at hfeed
      rw [hfeed]
      simp only [Bot.stateCmd, cmdOf_001]
      refine ⟨rfl, ?_, ?_, ?_, rfl, rfl⟩
      · intro kc
        show ChanRel _ kc (aget (s.dropEverywhere s.botKey).chans kc) none
        cases hsc' : aget (s.dropEverywhere s.botKey).chans kc with
        | none => trivial
        | some sc' =>
          obtain ⟨sc, hsc, rfl⟩ := dropEverywhere_chan hw.chansNodup hsc'
          simp only [ChanRel]
          show (sc.remove s.botKey).has (lower s.cfg.botNick) = false
          by_cases hsame : lower s.cfg.botNick = s.botKey
          · rw [hsame]; exact has_remove_self sc s.botKey
          · rw [← Bool.not_eq_true]; intro hcon
            have a := has_remove_of hcon
            rw [not_has_of_free hw hsc (hcond hsame)] at a; cases a
      · intro x ux _ hv
        have hv' : x ∈ ([] : List Str) := hv
        cases hv'
      · intro kc sc' hsc' hb'
        exfalso
        have hsc'' : aget (s.dropEverywhere s.botKey).chans kc = some sc' := hsc'
        obtain ⟨sc, hsc, rfl⟩ := dropEverywhere_chan hw.chansNodup hsc''
        have h1' : (sc.remove s.botKey).has (lower s.cfg.botNick) = true := hb'
        by_cases hsame : lower s.cfg.botNick = s.botKey
        · rw [hsame, has_remove_self] at h1'; cases h1'
        · have a := has_remove_of h1'
          rw [not_has_of_free hw hsc (hcond hsame)] at a; cases a

end C10
